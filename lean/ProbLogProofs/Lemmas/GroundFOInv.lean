import ProbLogModel.GroundFO
import ProbLogProofs.Lemmas.GroundInv
/-!
# First-order grounder model: structural invariants (core Lean only)

Partial-correctness lemmas for the continuation-passing evaluation functions of `ProbLogModel/GroundFO.lean`: whenever
they return `.ok`, the builder invariants (`WF`, `Acyclic`, no `keep_all`) are kept, the store only grows, and every key
in the tables, in the buffers and in the results refers to an existing node.  No hypothesis on the program.
-/
namespace ProbLogProofs.GroundFOInv
open ProbLogModel ProbLogModel.Formula ProbLogModel.GroundFO ProbLogProofs.GroundInv

/-! ### partial-correctness forms of the builder steps -/

theorem addOr_ok {S S' : Store} {cs : List Key} {k : Key} (hs : SInv S) (hb : ∀ c ∈ cs, keyBelow S.nodes.length c)
    (h : S.addOr cs = .ok (S', k)) : SInv S' ∧ Grows S S' ∧ keyBelow S'.nodes.length k := by
  have hc := addCompound_cres _ _ _ _ _ _ _ _ _ h
  exact ⟨⟨hc.wf hs.wf, hc.acyclic hs.acyc hb, by rw [hc.opts]; exact hs.keepAll⟩, hc.grows, hc.key_below hs.wf hb⟩

theorem addAnd_ok {S S' : Store} {cs : List Key} {k : Key} (hs : SInv S) (hb : ∀ c ∈ cs, keyBelow S.nodes.length c)
    (h : S.addAnd cs = .ok (S', k)) : SInv S' ∧ Grows S S' ∧ keyBelow S'.nodes.length k := by
  have hc := addCompound_cres _ _ _ _ _ _ _ _ _ h
  exact ⟨⟨hc.wf hs.wf, hc.acyclic hs.acyc hb, by rw [hc.opts]; exact hs.keepAll⟩, hc.grows, hc.key_below hs.wf hb⟩

theorem liftF_ok {α} {r : Except Formula.Err α} {a : α} (h : liftF r = .ok a) : r = .ok a := by
  cases r with
  | ok b => simpa [liftF] using h
  | error e => simp [liftF] at h

theorem addAtom_ok {S : Store} (hs : SInv S) (c : Nat) (w : Weight) (group : Option Nat) (name : Option Name) :
    SInv (S.addAtom (.user (c : Int)) .normal w group name).1 ∧
    Grows S (S.addAtom (.user (c : Int)) .normal w group name).1 ∧
    keyBelow (S.addAtom (.user (c : Int)) .normal w group name).1.nodes.length
      (S.addAtom (.user (c : Int)) .normal w group name).2 := by
  obtain ⟨h1, h2, _, _, h5⟩ := addAtom_step hs #[] c w group name
  exact ⟨h1, h2, h5.1⟩

/-! ### invariants -/

def KeysBelow (n : Nat) (rs : Results) : Prop := ∀ r ∈ rs, keyBelow n r.2

/-- state invariant: builder invariants, and every tabled key exists -/
structure TI (st : St) : Prop where
  s : SInv st.store
  g : ∀ e ∈ st.table.ground, keyBelow st.store.nodes.length e.2
  n : ∀ e ∈ st.table.ng, KeysBelow st.store.nodes.length e.2

theorem KeysBelow.mono {n m : Nat} {rs : Results} (h : n ≤ m) (hk : KeysBelow n rs) : KeysBelow m rs :=
  fun r hr => keyBelow_mono h (hk r hr)

theorem TI.store_step {st : St} {S' : Store} (h : TI st) (hs : SInv S') (hg : Grows st.store S') :
    TI { st with store := S' } :=
  ⟨hs, fun e he => keyBelow_mono (grows_length hg) (h.g e he), fun e he => (h.n e he).mono (grows_length hg)⟩

/-- what a goal evaluator must guarantee -/
def EvalOK (ev : Eval) : Prop :=
  ∀ g st rs st', TI st → ev g st = .ok (rs, st') →
    TI st' ∧ Grows st.store st'.store ∧ KeysBelow st'.store.nodes.length rs

/-- what a result consumer must guarantee; `A acc n`: the accumulator is fine for a store with `n` nodes -/
def SinkOK {α} (A : α → Nat → Prop) (sink : Sink α) : Prop :=
  ∀ ctx k acc st w', TI st → A acc st.store.nodes.length → keyBelow st.store.nodes.length k →
    sink ctx k (acc, st) = .ok w' →
    TI w'.2 ∧ Grows st.store w'.2.store ∧ A w'.1 w'.2.store.nodes.length

/-- conclusion of the evaluation functions that thread an accumulator -/
def Step {α} (A : α → Nat → Prop) (w w' : α × St) : Prop :=
  TI w'.2 ∧ Grows w.2.store w'.2.store ∧ A w'.1 w'.2.store.nodes.length

theorem Step.trans {α} {A : α → Nat → Prop} {a b c : α × St} (h1 : Step A a b) (h2 : Step A b c) : Step A a c :=
  ⟨h2.1, h1.2.1.trans h2.2.1, h2.2.2⟩

/-! ### conjuncts -/

theorem feed_ok {α} {A : α → Nat → Prop} (hA : ∀ a n m, n ≤ m → A a n → A a m) {sink : Sink α}
    (hsink : SinkOK A sink) (args : List Val) (ctx : Ctx) :
    ∀ (rs : Results) (w w' : α × St), TI w.2 → A w.1 w.2.store.nodes.length →
      KeysBelow w.2.store.nodes.length rs → feed sink args ctx rs w = .ok w' → Step A w w'
  | [], w, w', ht, ha, _, h => by
    simp only [feed, pure, Except.pure, Except.ok.injEq] at h
    subst h
    exact ⟨ht, Grows.refl _, ha⟩
  | (ans, k) :: r, w, w', ht, ha, hk, h => by
    have hkr : KeysBelow w.2.store.nodes.length r := fun x hx => hk x (List.mem_cons_of_mem _ hx)
    unfold feed at h
    split at h
    · exact feed_ok hA hsink args ctx r w w' ht ha hkr h
    · split at h
      · exact feed_ok hA hsink args ctx r w w' ht ha hkr h
      · rename_i ctx' _
        simp only [bind, Except.bind] at h
        cases hs : sink ctx' k w with
        | error e => rw [hs] at h; cases h
        | ok w1 =>
          rw [hs] at h
          obtain ⟨acc, st⟩ := w
          have h1 := hsink ctx' k acc st w1 ht ha (hk (ans, k) List.mem_cons_self) hs
          have h2 := feed_ok hA hsink args ctx r w1 w' h1.1 h1.2.2
            (hkr.mono (grows_length h1.2.1)) h
          exact Step.trans (A := A) h1 h2

theorem evalItem_ok {α} {A : α → Nat → Prop} (hA : ∀ a n m, n ≤ m → A a n → A a m) (P : Prog) {ev : Eval}
    (hev : EvalOK ev) {sink : Sink α} (hsink : SinkOK A sink) (i : Item) (ctx : Ctx) (w w' : α × St)
    (ht : TI w.2) (ha : A w.1 w.2.store.nodes.length) (h : evalItem P ev sink i ctx w = .ok w') : Step A w w' := by
  obtain ⟨acc, st⟩ := w
  cases i with
  | choice c =>
    simp only [evalItem] at h
    split at h
    · cases h
    · rename_i cs _
      have hat := addAtom_ok ht.s (c.ident + enc P.nconsts cs) (.prob c.prob) (some (c.group + enc P.nconsts cs))
        (some (.pos (c.name + enc P.nconsts cs)))
      generalize st.store.addAtom (.user ((c.ident + enc P.nconsts cs : Nat) : Int)) .normal (.prob c.prob)
        (some (c.group + enc P.nconsts cs)) (some (.pos (c.name + enc P.nconsts cs))) = R at h hat
      obtain ⟨S1, g⟩ := R
      simp only at h hat
      have ht1 : TI { st with store := S1 } := ht.store_step hat.1 hat.2.1
      have ha1 : A acc S1.nodes.length := hA _ _ _ (grows_length hat.2.1) ha
      split at h
      · simp only [pure, Except.pure, Except.ok.injEq] at h
        subst h
        exact ⟨ht1, hat.2.1, ha1⟩
      · have := hsink ctx g acc { st with store := S1 } w' ht1 ha1 hat.2.2 h
        exact ⟨this.1, hat.2.1.trans this.2.1, this.2.2⟩
  | lit l =>
    cases l with
    | tt =>
      simp only [evalItem] at h
      exact hsink ctx TRUE acc st w' ht ha (Nat.zero_le _) h
    | pos a =>
      simp only [evalItem, bind, Except.bind] at h
      cases hev1 : ev ⟨a.pred, (canon (a.args.map (Term.val ctx)) []).1⟩ st with
      | error e => rw [hev1] at h; cases h
      | ok r =>
        obtain ⟨rs, st1⟩ := r
        rw [hev1] at h
        obtain ⟨ht1, hg1, hk1⟩ := hev _ _ _ _ ht hev1
        have := feed_ok hA hsink (a.args.map (Term.val ctx)) ctx rs (acc, st1) w' ht1
          (hA _ _ _ (grows_length hg1) ha) hk1 h
        exact ⟨this.1, hg1.trans this.2.1, this.2.2⟩
    | neg a =>
      simp only [evalItem] at h
      split at h
      · cases h
      · simp only [bind, Except.bind] at h
        cases hev1 : ev ⟨a.pred, a.args.map (Term.val ctx)⟩ st with
        | error e => rw [hev1] at h; cases h
        | ok r =>
          obtain ⟨rs, st1⟩ := r
          rw [hev1] at h
          obtain ⟨ht1, hg1, hk1⟩ := hev _ _ _ _ ht hev1
          have ha1 : A acc st1.store.nodes.length := hA _ _ _ (grows_length hg1) ha
          simp only at h
          generalize hF : rs.filter (fun r => !Formula.isFalse r.2) = F at h
          match F, hF, h with
          | [], _, h =>
            have := hsink ctx TRUE acc st1 w' ht1 ha1 (Nat.zero_le _) h
            exact ⟨this.1, hg1.trans this.2.1, this.2.2⟩
          | x :: xs, hF, h =>
            simp only [bind, Except.bind] at h
            cases hor : st1.store.addOr ((x :: xs).map (·.2)) with
            | error e => rw [hor] at h; simp [liftF] at h
            | ok r2 =>
              obtain ⟨S2, k'⟩ := r2
              rw [hor] at h
              simp only [liftF] at h
              have hsub : ∀ c ∈ (x :: xs).map (·.2), keyBelow st1.store.nodes.length c := by
                intro c hc
                obtain ⟨y, hy, rfl⟩ := List.mem_map.1 hc
                have : y ∈ rs.filter (fun r => !Formula.isFalse r.2) := by rw [hF]; exact hy
                exact hk1 y (List.mem_filter.1 this).1
              obtain ⟨hs2, hg2, hb2⟩ := addOr_ok ht1.s hsub hor
              have ht2 : TI { st1 with store := S2 } := ht1.store_step hs2 hg2
              have ha2 : A acc S2.nodes.length := hA _ _ _ (grows_length hg2) ha1
              split at h
              · simp only [pure, Except.pure, Except.ok.injEq] at h
                subst h
                exact ⟨ht2, hg1.trans hg2, ha2⟩
              · have := hsink ctx (negate k') acc { st1 with store := S2 } w' ht2 ha2 (keyBelow_negate _ _ hb2) h
                exact ⟨this.1, (hg1.trans hg2).trans this.2.1, this.2.2⟩

theorem evalItems_ok {α} {A : α → Nat → Prop} (hA : ∀ a n m, n ≤ m → A a n → A a m) (P : Prog) {ev : Eval}
    (hev : EvalOK ev) :
    ∀ (is : List Item) (sink : Sink α), SinkOK A sink → ∀ (ctx : Ctx) (w w' : α × St), TI w.2 →
      A w.1 w.2.store.nodes.length → evalItems P ev is sink ctx w = .ok w' → Step A w w'
  | [], _, _, _, _, _, _, _, h => by simp [evalItems] at h
  | [i], sink, hsink, ctx, w, w', ht, ha, h => by
    simp only [evalItems] at h
    exact evalItem_ok hA P hev hsink i ctx w w' ht ha h
  | i :: j :: rest, sink, hsink, ctx, w, w', ht, ha, h => by
    simp only [evalItems] at h
    refine evalItem_ok hA P hev (sink := _) ?_ i ctx w w' ht ha h
    intro ctx1 k1 acc1 st1 w1 ht1 ha1 hk1 h1
    simp only at h1
    split at h1
    · simp only [pure, Except.pure, Except.ok.injEq] at h1
      subst h1
      exact ⟨ht1, Grows.refl _, ha1⟩
    · -- the rest, with the consumer that builds the conjunction; `k1` must stay below: carried in the accumulator predicate
      have hinner : SinkOK (fun a n => A a n ∧ keyBelow n k1) (fun ctx2 k2 (w2 : α × St) => do
          let (S3, k) ← liftF (w2.2.store.addAnd [k1, k2])
          sink ctx2 k (w2.1, { w2.2 with store := S3 })) := by
        intro ctx2 k2 acc2 st2 w2' ht2 ha2 hk2 h2
        simp only [bind, Except.bind] at h2
        cases hand : st2.store.addAnd [k1, k2] with
        | error e => rw [hand] at h2; simp [liftF] at h2
        | ok r3 =>
          obtain ⟨S3, k⟩ := r3
          rw [hand] at h2
          simp only [liftF] at h2
          obtain ⟨hs3, hg3, hb3⟩ := addAnd_ok ht2.s (fun c hc => by
            rcases List.mem_cons.1 hc with h | h
            · rw [h]; exact ha2.2
            · rw [List.mem_singleton.1 h]; exact hk2) hand
          have := hsink ctx2 k acc2 { st2 with store := S3 } w2' (ht2.store_step hs3 hg3)
            (hA _ _ _ (grows_length hg3) ha2.1) hb3 h2
          exact ⟨this.1, hg3.trans this.2.1, this.2.2,
            keyBelow_mono (grows_length (hg3.trans this.2.1)) ha2.2⟩
      have hA' : ∀ a n m, n ≤ m → (A a n ∧ keyBelow n k1) → (A a m ∧ keyBelow m k1) :=
        fun a n m hnm hh => ⟨hA a n m hnm hh.1, keyBelow_mono hnm hh.2⟩
      have := evalItems_ok (A := fun a n => A a n ∧ keyBelow n k1) hA' P hev (j :: rest) _ hinner ctx1 (acc1, st1) w1
        ht1 ⟨ha1, hk1⟩ (by
          have e : (fun ctx2 k2 (w2 : α × St) => do
              let (S3, k) ← liftF (w2.2.store.addAnd [k1, k2])
              sink ctx2 k (w2.1, { w2.2 with store := S3 })) =
            (fun ctx2 k2 (x : α × St) => match x with
              | (acc2, st2) => do
                let (S3, k) ← liftF (st2.store.addAnd [k1, k2])
                sink ctx2 k (acc2, { st2 with store := S3 })) := by
            funext ctx2 k2 x; cases x; rfl
          rw [e]; exact h1)
      exact ⟨this.1, this.2.1, this.2.2.1⟩

/-! ### clauses and the buffer -/

def BufOK (buf : Buf) (n : Nat) : Prop := ∀ e ∈ buf, ∀ k ∈ e.2, keyBelow n k

theorem BufOK.mono (buf : Buf) (n m : Nat) (h : n ≤ m) (hb : BufOK buf n) : BufOK buf m :=
  fun e he k hk => keyBelow_mono h (hb e he k hk)

theorem bufAdd_ok : ∀ (buf : Buf) (ans : List Const) (k : Key) (n : Nat), BufOK buf n → keyBelow n k →
    BufOK (bufAdd buf ans k) n
  | [], ans, k, n, _, hk => by
    intro e he k' hk'
    simp only [bufAdd, List.mem_singleton] at he
    subst he
    simp only [List.mem_singleton] at hk'
    subst hk'; exact hk
  | (a, ks) :: r, ans, k, n, hb, hk => by
    unfold bufAdd
    split
    · intro e he k' hk'
      rcases List.mem_cons.1 he with h | h
      · subst h
        rcases List.mem_append.1 hk' with h' | h'
        · exact hb (a, ks) List.mem_cons_self k' h'
        · rw [List.mem_singleton.1 h']; exact hk
      · exact hb e (List.mem_cons_of_mem _ h) k' hk'
    · intro e he k' hk'
      rcases List.mem_cons.1 he with h | h
      · subst h; exact hb (a, ks) List.mem_cons_self k' hk'
      · exact bufAdd_ok r ans k n (fun e he => hb e (List.mem_cons_of_mem _ he)) hk e h k' hk'

theorem evalClause_ok (P : Prog) {ev : Eval} (hev : EvalOK ev) (g : Goal) (c : Clause) (w w' : Buf × St)
    (ht : TI w.2) (ha : BufOK w.1 w.2.store.nodes.length) (h : evalClause P ev g c w = .ok w') : Step BufOK w w' := by
  obtain ⟨buf, st⟩ := w
  cases c with
  | fact args ident prob =>
    simp only [evalClause] at h
    split at h
    · cases prob with
      | none =>
        simp only [addAtom_pNone ht.s.keepAll, pure, Except.pure, Except.ok.injEq] at h
        subst h
        refine ⟨ht, Grows.refl _, ?_⟩
        show BufOK (if Formula.isFalse TRUE = true then buf else bufAdd buf args TRUE) _
        have : Formula.isFalse TRUE = false := rfl
        rw [this]
        exact bufAdd_ok buf args TRUE _ ha (Nat.zero_le _)
      | some p =>
        have hat := addAtom_ok ht.s ident (.prob p) none (some (.pos (P.atomName g.pred args)))
        simp only [pure, Except.pure, Except.ok.injEq] at h
        generalize st.store.addAtom (.user (ident : Int)) .normal (.prob p) none
          (some (.pos (P.atomName g.pred args))) = R at h hat
        obtain ⟨S1, k⟩ := R
        simp only at h hat
        subst h
        refine ⟨ht.store_step hat.1 hat.2.1, hat.2.1, ?_⟩
        have hb1 := BufOK.mono buf _ _ (grows_length hat.2.1) ha
        show BufOK (if Formula.isFalse k = true then buf else bufAdd buf args k) _
        split
        · exact hb1
        · exact bufAdd_ok buf args k _ hb1 hat.2.2
    · simp only [pure, Except.pure, Except.ok.injEq] at h
      subst h
      exact ⟨ht, Grows.refl _, ha⟩
  | rule head n body ch =>
    simp only [evalClause] at h
    split at h
    · simp only [pure, Except.pure, Except.ok.injEq] at h
      subst h
      exact ⟨ht, Grows.refl _, ha⟩
    · rename_i ctx _
      refine evalItems_ok BufOK.mono P hev (items body ch) _ ?_ ctx (buf, st) w' ht ha h
      intro ctx' k acc st1 w1 ht1 ha1 hk1 h1
      simp only at h1
      split at h1
      · cases h1
      · simp only [pure, Except.pure, Except.ok.injEq] at h1
        subst h1
        exact ⟨ht1, Grows.refl _, bufAdd_ok acc _ k _ ha1 hk1⟩

theorem evalClauses_ok (P : Prog) {ev : Eval} (hev : EvalOK ev) (g : Goal) :
    ∀ (cs : List Clause) (w w' : Buf × St), TI w.2 → BufOK w.1 w.2.store.nodes.length →
      evalClauses P ev g cs w = .ok w' → Step BufOK w w'
  | [], w, w', ht, ha, h => by
    simp only [evalClauses, pure, Except.pure, Except.ok.injEq] at h
    subst h
    exact ⟨ht, Grows.refl _, ha⟩
  | c :: cs, w, w', ht, ha, h => by
    simp only [evalClauses, bind, Except.bind] at h
    cases h1 : evalClause P ev g c w with
    | error e => rw [h1] at h; cases h
    | ok w1 =>
      rw [h1] at h
      have s1 := evalClause_ok P hev g c w w1 ht ha h1
      have s2 := evalClauses_ok P hev g cs w1 w' s1.1 s1.2.2 h
      exact Step.trans (A := BufOK) s1 s2

theorem flush_ok : ∀ (buf : Buf) (S : Store) (rs : Results) (S' : Store), SInv S → BufOK buf S.nodes.length →
    flush buf S = .ok (rs, S') → SInv S' ∧ Grows S S' ∧ KeysBelow S'.nodes.length rs
  | [], S, rs, S', hs, _, h => by
    simp only [flush, pure, Except.pure, Except.ok.injEq, Prod.mk.injEq] at h
    obtain ⟨rfl, rfl⟩ := h
    exact ⟨hs, Grows.refl _, fun _ hr => (by cases hr)⟩
  | (ans, nodes) :: r, S, rs, S', hs, hb, h => by
    simp only [flush, bind, Except.bind] at h
    cases hor : S.addOr nodes with
    | error e => rw [hor] at h; simp [liftF] at h
    | ok r1 =>
      obtain ⟨S1, k⟩ := r1
      rw [hor] at h
      simp only [liftF] at h
      obtain ⟨hs1, hg1, hk1⟩ := addOr_ok hs (fun c hc => hb (ans, nodes) List.mem_cons_self c hc) hor
      cases hfl : flush r S1 with
      | error e => rw [hfl] at h; cases h
      | ok r2 =>
        obtain ⟨rs2, S2⟩ := r2
        rw [hfl] at h
        simp only [pure, Except.pure, Except.ok.injEq, Prod.mk.injEq] at h
        obtain ⟨rfl, rfl⟩ := h
        obtain ⟨hs2, hg2, hk2⟩ := flush_ok r S1 rs2 S2 hs1
          (BufOK.mono _ _ _ (grows_length hg1) (fun e he => hb e (List.mem_cons_of_mem _ he))) hfl
        refine ⟨hs2, hg1.trans hg2, fun x hx => ?_⟩
        rcases List.mem_cons.1 hx with h | h
        · subst h; exact keyBelow_mono (grows_length hg2) hk1
        · exact hk2 x h

/-! ### the tables -/

theorem mem_assocSet' {α β} [BEq α] : ∀ (l : List (α × β)) (x : α) (v : β) (e : α × β), e ∈ assocSet' l x v →
    e ∈ l ∨ e.2 = v
  | [], x, v, e, h => by
    simp only [assocSet', List.mem_singleton] at h
    subst h; exact Or.inr rfl
  | (a, b) :: r, x, v, e, h => by
    unfold assocSet' at h
    split at h
    · rcases List.mem_cons.1 h with h | h
      · subst h; exact Or.inr rfl
      · exact Or.inl (List.mem_cons_of_mem _ h)
    · rcases List.mem_cons.1 h with h | h
      · subst h; exact Or.inl List.mem_cons_self
      · rcases mem_assocSet' r x v e h with h | h
        · exact Or.inl (List.mem_cons_of_mem _ h)
        · exact Or.inr h

theorem mem_storeGround (p : Pred) : ∀ (rs : Results) (t : List ((Pred × List Const) × Key)) (e : (Pred × List Const) × Key),
    e ∈ storeGround p rs t → e ∈ t ∨ ∃ r ∈ rs, e.2 = r.2
  | [], t, e, h => Or.inl h
  | (ans, k) :: r, t, e, h => by
    simp only [storeGround] at h
    rcases mem_storeGround p r _ e h with h | ⟨x, hx, he⟩
    · rcases mem_assocSet' t _ _ e h with h | h
      · exact Or.inl h
      · exact Or.inr ⟨(ans, k), List.mem_cons_self, h⟩
    · exact Or.inr ⟨x, List.mem_cons_of_mem _ hx, he⟩

theorem lookup_mem' {α β} [BEq α] [LawfulBEq α] : ∀ (l : List (α × β)) (a : α) (b : β), lookup l a = some b → (a, b) ∈ l
  | [], _, _, h => by cases h
  | (x, y) :: r, a, b, h => by
    unfold lookup at h
    by_cases hx : (x == a) = true
    · rw [if_pos hx] at h
      have : x = a := by simpa using hx
      cases h; subst this; exact List.mem_cons_self
    · rw [if_neg hx] at h
      exact List.mem_cons_of_mem _ (lookup_mem' r a b h)

/-! ### goals -/

theorem evalFresh_ok (P : Prog) (sched : Sched) {ev : Eval} (hev : EvalOK ev) (g : Goal) (st : St)
    (gc : Option (List Const)) (rs : Results) (st' : St) (ht : TI st)
    (h : evalFresh P sched ev g st gc = .ok (rs, st')) :
    TI st' ∧ Grows st.store st'.store ∧ KeysBelow st'.store.nodes.length rs := by
  unfold evalFresh at h
  simp only at h
  split at h
  · simp only [pure, Except.pure, Except.ok.injEq, Prod.mk.injEq] at h
    obtain ⟨rfl, rfl⟩ := h
    exact ⟨ht, Grows.refl _, fun _ hr => (by cases hr)⟩
  · simp only [bind, Except.bind] at h
    cases hc : evalClauses P ev g (GroundAcyclic.permute (sched g) ((P.clausesOf g.pred).filter (headMatches g.args)))
        ([], st) with
    | error e => rw [hc] at h; cases h
    | ok w1 =>
      obtain ⟨buf, st1⟩ := w1
      rw [hc] at h
      have s1 := evalClauses_ok P hev g _ ([], st) (buf, st1) ht (fun _ he => (by cases he)) hc
      simp only at h
      cases hf : flush buf st1.store with
      | error e => rw [hf] at h; cases h
      | ok r2 =>
        obtain ⟨rs2, S2⟩ := r2
        rw [hf] at h
        simp only [pure, Except.pure, Except.ok.injEq, Prod.mk.injEq] at h
        obtain ⟨rfl, rfl⟩ := h
        obtain ⟨hs2, hg2, hk2⟩ := flush_ok buf st1.store rs2 S2 s1.1.s s1.2.2 hf
        have hgr : ∀ e ∈ st1.table.ground, keyBelow S2.nodes.length e.2 := fun e he =>
          keyBelow_mono (grows_length hg2) (s1.1.g e he)
        have hsg : ∀ e ∈ storeGround g.pred rs2 st1.table.ground, keyBelow S2.nodes.length e.2 := by
          intro e he
          rcases mem_storeGround _ _ _ e he with h | ⟨r, hr, hre⟩
          · exact hgr e h
          · rw [hre]; exact hk2 r hr
        have hng : ∀ e ∈ st1.table.ng, KeysBelow S2.nodes.length e.2 := fun e he =>
          (s1.1.n e he).mono (grows_length hg2)
        refine ⟨⟨hs2, ?_, ?_⟩, s1.2.1.trans hg2, hk2⟩
        · cases gc with
          | none => exact hsg
          | some consts =>
            simp only
            split
            · intro e he
              rcases mem_assocSet' _ _ _ e he with h | h
              · exact hgr e h
              · rw [h]; trivial
            · exact hsg
        · cases gc with
          | none =>
            intro e he
            rcases mem_assocSet' _ _ _ e he with h | h
            · exact hng e h
            · rw [h]; exact hk2
          | some consts =>
            simp only
            split <;> exact hng

theorem evalGoalWith_ok (P : Prog) (sched : Sched) {ev : Eval} (hev : EvalOK ev) : EvalOK (evalGoalWith P sched ev) := by
  intro g st rs st' ht h
  unfold evalGoalWith at h
  split at h
  · rename_i consts _
    split at h
    · rename_i k hl
      simp only [pure, Except.pure, Except.ok.injEq, Prod.mk.injEq] at h
      obtain ⟨rfl, rfl⟩ := h
      refine ⟨ht, Grows.refl _, fun r hr => ?_⟩
      rw [List.mem_singleton.1 hr]
      exact ht.g _ (lookup_mem' _ _ _ hl)
    · exact evalFresh_ok P sched hev g st _ rs st' ht h
  · split at h
    · rename_i rs0 hl
      simp only [pure, Except.pure, Except.ok.injEq, Prod.mk.injEq] at h
      obtain ⟨rfl, rfl⟩ := h
      exact ⟨ht, Grows.refl _, ht.n _ (lookup_mem' _ _ _ hl)⟩
    · exact evalFresh_ok P sched hev g st _ rs st' ht h

theorem evalGoal_ok (P : Prog) (sched : Sched) : ∀ fuel, EvalOK (evalGoal P sched fuel)
  | 0 => fun _ _ _ _ _ h => by simp [evalGoal] at h
  | fuel + 1 => evalGoalWith_ok P sched (evalGoal_ok P sched fuel)

/-! ### `ground`, `ground_all` -/

theorem nameResults_ok (P : Prog) (p : Pred) (l : Label) : ∀ (rs : Results) (S : Store), SInv S →
    SInv (nameResults P p l rs S) ∧ Grows S (nameResults P p l rs S) ∧
      (nameResults P p l rs S).nodes.length = S.nodes.length
  | [], S, hs => ⟨hs, Grows.refl _, rfl⟩
  | (ans, k) :: r, S, hs => by
    have h1 := addName_sinv hs (.pos (P.atomName p ans)) k l
    have hg := addName_grows S (.pos (P.atomName p ans)) k l false
    have hl := addName_length S (.pos (P.atomName p ans)) k l false
    obtain ⟨h2, hg2, hl2⟩ := nameResults_ok P p l r _ h1
    exact ⟨h2, hg.trans hg2, by rw [show nameResults P p l ((ans, k) :: r) S =
      nameResults P p l r (S.addName (.pos (P.atomName p ans)) k l) from rfl, hl2, hl]⟩

theorem TI.same_length {st : St} {S' : Store} (h : TI st) (hs : SInv S') (hl : S'.nodes.length = st.store.nodes.length) :
    TI { st with store := S' } :=
  ⟨hs, fun e he => by rw [hl]; exact h.g e he, fun e he => by rw [hl]; exact h.n e he⟩

theorem groundOne_ok (P : Prog) (sched : Sched) (fuel : Nat) (st : St) (c : Call) (rs : Results) (st' : St)
    (ht : TI st) (h : groundOne P sched fuel st c = .ok (rs, st')) :
    TI st' ∧ Grows st.store st'.store ∧ KeysBelow st'.store.nodes.length rs := by
  simp only [groundOne, bind, Except.bind] at h
  cases he : evalGoal P sched fuel ⟨c.pred, c.args⟩ st with
  | error e => rw [he] at h; cases h
  | ok r =>
    obtain ⟨rs1, st1⟩ := r
    rw [he] at h
    obtain ⟨ht1, hg1, hk1⟩ := evalGoal_ok P sched fuel _ _ _ _ ht he
    simp only at h
    split at h
    · simp only [pure, Except.pure, Except.ok.injEq, Prod.mk.injEq] at h
      obtain ⟨rfl, rfl⟩ := h
      exact ⟨ht1.same_length (addName_sinv ht1.s _ _ _) (addName_length _ _ _ _ _),
        hg1.trans (addName_grows _ _ _ _ _), fun _ hr => (by cases hr)⟩
    · simp only [pure, Except.pure, Except.ok.injEq, Prod.mk.injEq] at h
      obtain ⟨rfl, rfl⟩ := h
      obtain ⟨h2, hg2, hl2⟩ := nameResults_ok P c.pred c.label (rs1.filter (fun r => !Formula.isFalse r.2)) st1.store ht1.s
      refine ⟨ht1.same_length h2 hl2, hg1.trans hg2, fun r hr => ?_⟩
      show keyBelow (nameResults P c.pred c.label _ st1.store).nodes.length r.2
      rw [hl2]
      exact hk1 r (List.mem_filter.1 hr).1

theorem groundAll_ok (P : Prog) (sched : Sched) (fuel : Nat) :
    ∀ (calls : List Call) (st : St) (rss : List Results) (st' : St), TI st →
      groundAll P sched fuel calls st = .ok (rss, st') →
      TI st' ∧ Grows st.store st'.store ∧ rss.length = calls.length ∧
        ∀ rs ∈ rss, KeysBelow st'.store.nodes.length rs
  | [], st, rss, st', ht, h => by
    simp only [groundAll, pure, Except.pure, Except.ok.injEq, Prod.mk.injEq] at h
    obtain ⟨rfl, rfl⟩ := h
    exact ⟨ht, Grows.refl _, rfl, fun _ hr => (by cases hr)⟩
  | c :: cs, st, rss, st', ht, h => by
    simp only [groundAll, bind, Except.bind] at h
    cases h1 : groundOne P sched fuel st c with
    | error e => rw [h1] at h; cases h
    | ok r =>
      obtain ⟨rs1, st1⟩ := r
      rw [h1] at h
      obtain ⟨ht1, hg1, hk1⟩ := groundOne_ok P sched fuel st c rs1 st1 ht h1
      simp only at h
      cases h2 : groundAll P sched fuel cs st1 with
      | error e => rw [h2] at h; cases h
      | ok r2 =>
        obtain ⟨rss2, st2⟩ := r2
        rw [h2] at h
        simp only [pure, Except.pure, Except.ok.injEq, Prod.mk.injEq] at h
        obtain ⟨rfl, rfl⟩ := h
        obtain ⟨ht2, hg2, hl2, hk2⟩ := groundAll_ok P sched fuel cs st1 rss2 st2 ht1 h2
        refine ⟨ht2, hg1.trans hg2, by simp [hl2], fun rs hr => ?_⟩
        rcases List.mem_cons.1 hr with h | h
        · subst h; exact hk1.mono (grows_length hg2)
        · exact hk2 rs h

end ProbLogProofs.GroundFOInv
