import ProbLogProofs.Lemmas.Propagate
/-!
# C06 helper lemmas (2): one iteration and the whole loop preserve the soundness invariant, for every popped element
-/
namespace ProbLogModel.Propagate
open ProbLogModel.Formula

/-- What one iteration / the loop may do under a valuation that satisfies the invariant. -/
def StepOK (ρ : Nat → Bool) : Except PErr PState → Prop
  | .ok st' => CurOK ρ st'.cur ∧ QOK ρ st'.queue
  | .error .inconsistent => False
  | .error _ => True

def RunOK (ρ : Nat → Bool) : Except PErr Cur → Prop
  | .ok cur => CurOK ρ cur
  | .error .inconsistent => False
  | .error _ => True

theorem all_false_of_mem {ρ : Nat → Bool} {l : List Key} (h : FALSE ∈ l) : l.all (keyVal ρ) = false := by
  rw [List.all_eq_false]; exact ⟨none, h, by simp [keyVal]⟩

theorem any_true_of_mem {ρ : Nat → Bool} {l : List Key} (h : TRUE ∈ l) : l.any (keyVal ρ) = true := by
  rw [List.any_eq_true]; exact ⟨some 0, h, rfl⟩

theorem compound_sound (ρ : Nat → Bool) (isConj : Bool) (nid : Int) (cs : List Key) (q : List Int) (cur : Cur)
    (rev : Rev) (hn : nid ≠ 0) (hcur : CurOK ρ cur) (hq : QOK ρ q)
    (hval : (if isConj then cs.all (keyVal ρ) else cs.any (keyVal ρ)) = decide (nid > 0)) :
    StepOK ρ (compound isConj nid cs q cur rev) := by
  unfold compound
  cases hcv : childVals cur cs with
  | error e =>
    have := childVals_err hcv
    subst this
    exact True.intro
  | ok children =>
    obtain ⟨hall, hany⟩ := childVals_sound hcur cs children hcv
    rw [← hall, ← hany] at hval
    simp only
    have hF : children.contains FALSE = true ↔ FALSE ∈ children := by simp
    have hT : children.contains TRUE = true ↔ TRUE ∈ children := by simp
    -- the literals that may be queued
    have hpos : isConj = true → nid > 0 → ∀ k, k ∈ nondet children → litTrue ρ k := by
      intro hc hp k hk
      rw [hc] at hval
      simp only [if_true, hp, decide_true] at hval
      exact (List.all_eq_true.1 hval) (some k) ((mem_nondet _ _).1 hk).1
    have hneg : isConj = false → nid < 0 → ∀ k, k ∈ nondet children → litTrue ρ (-k) := by
      intro hc hp k hk
      rw [hc] at hval
      have : ¬ (nid > 0) := by omega
      simp only [Bool.false_eq_true, if_false, this, decide_false] at hval
      obtain ⟨hmem, hk0⟩ := (mem_nondet _ _).1 hk
      rw [litTrue_neg ρ k hk0]
      have := (List.any_eq_false.1 hval) (some k) hmem
      simpa using this
    have hsingC : isConj = true → nid < 0 → FALSE ∉ children → ∀ c, nondet children = [c] → litTrue ρ (-c) := by
      intro hc hp hnf c hnd
      rw [hc] at hval
      have : ¬ (nid > 0) := by omega
      simp only [if_true, this, decide_false] at hval
      obtain ⟨x, hx, hxv⟩ := List.all_eq_false.1 hval
      cases x with
      | none => exact absurd hx hnf
      | some k =>
        have hk0 : k ≠ 0 := by
          intro e; subst e; simp [keyVal] at hxv
        have : k ∈ nondet children := (mem_nondet _ _).2 ⟨hx, hk0⟩
        rw [hnd] at this
        have : k = c := by simpa using this
        subst this
        rw [litTrue_neg ρ k hk0]
        simpa using hxv
    have hsingD : isConj = false → nid > 0 → TRUE ∉ children → ∀ c, nondet children = [c] → litTrue ρ c := by
      intro hc hp hnt c hnd
      rw [hc] at hval
      simp only [Bool.false_eq_true, if_false, hp, decide_true] at hval
      obtain ⟨x, hx, hxv⟩ := List.any_eq_true.1 hval
      cases x with
      | none => simp [keyVal] at hxv
      | some k =>
        have hk0 : k ≠ 0 := by
          intro e; subst e; exact hnt hx
        have : k ∈ nondet children := (mem_nondet _ _).2 ⟨hx, hk0⟩
        rw [hnd] at this
        have : k = c := by simpa using this
        subst this
        exact hxv
    cases isConj with
    | true =>
      simp only [Bool.true_and, Bool.not_true, Bool.false_and, Bool.false_eq_true, if_false, Bool.and_true]
      by_cases hcf : FALSE ∈ children
      · -- a false child
        by_cases hp : nid > 0
        · -- raise: impossible under ρ
          exfalso
          have := all_false_of_mem (ρ := ρ) hcf
          rw [this] at hval
          simp [hp] at hval
        · have hlt : nid < 0 := by omega
          simp only [hF.2 hcf, Bool.true_and, hp, decide_false, Bool.false_eq_true, if_false, hlt, decide_true, if_true]
          exact ⟨hcur, hq⟩
      · have hcF : children.contains FALSE = false := by
          cases h : children.contains FALSE with
          | true => exact absurd (hF.1 h) hcf
          | false => rfl
        simp only [hcF, Bool.false_and, Bool.false_eq_true, if_false]
        split
        · rename_i c hnd
          split
          · refine ⟨hcur, hq.qAdd ?_⟩
            by_cases hlt : nid < 0
            · simp only [hlt, if_true]; exact hsingC rfl hlt hcf c hnd
            · simp only [hlt, if_false]
              exact hpos rfl (by omega) c (by rw [hnd]; simp)
          · exact ⟨hcur, hq⟩
        · by_cases hp : nid > 0
          · simp only [hp, decide_true, if_true]
            refine ⟨hcur, ?_⟩
            exact QOK.foldl_addIfNew cur (fun c => c) _ q hq (hpos rfl hp)
          · simp only [hp, decide_false, Bool.false_eq_true, if_false, Bool.and_false]
            exact ⟨hcur, hq⟩
    | false =>
      simp only [Bool.false_and, Bool.false_eq_true, if_false, Bool.not_false, Bool.true_and, Bool.and_false,
        Bool.and_true]
      by_cases hct : TRUE ∈ children
      · by_cases hp : nid < 0
        · exfalso
          have := any_true_of_mem (ρ := ρ) hct
          rw [this] at hval
          have : ¬ (nid > 0) := by omega
          simp [this] at hval
        · have hgt : nid > 0 := by omega
          simp only [hT.2 hct, Bool.true_and, hp, decide_false, Bool.false_eq_true, if_false, hgt, decide_true, if_true]
          exact ⟨hcur, hq⟩
      · have hcT : children.contains TRUE = false := by
          cases h : children.contains TRUE with
          | true => exact absurd (hT.1 h) hct
          | false => rfl
        simp only [hcT, Bool.false_and, Bool.false_eq_true, if_false]
        split
        · rename_i c hnd
          split
          · refine ⟨hcur, hq.qAdd ?_⟩
            by_cases hlt : nid < 0
            · simp only [hlt, if_true]
              exact hneg rfl hlt c (by rw [hnd]; simp)
            · simp only [hlt, if_false]
              exact hsingD rfl (by omega) hct c hnd
          · exact ⟨hcur, hq⟩
        · by_cases hp : nid < 0
          · simp only [hp, decide_true, if_true]
            refine ⟨hcur, ?_⟩
            exact QOK.foldl_addIfNew cur (fun c => -c) _ q hq (hneg rfl hp)
          · simp only [hp, decide_false, Bool.false_eq_true, if_false]
            exact ⟨hcur, hq⟩

theorem popStep_sound (S : Store) (ρ : Nat → Bool) (hS : Consistent S ρ) (st : PState) (nid : Int)
    (hcur : CurOK ρ st.cur) (hq : QOK ρ st.queue) (ht : litTrue ρ nid) :
    StepOK ρ (popStep S st nid) := by
  unfold popStep
  simp only
  by_cases ha : nid.natAbs = 0
  · simp only [ha, if_true]; exact True.intro
  · simp only [ha, if_false]
    have hn : nid ≠ 0 := by omega
    cases hnode : S.nodes[nid.natAbs - 1]? with
    | none => exact True.intro
    | some n =>
      simp only
      have hq1 : QOK ρ (if (lookup st.cur nid.natAbs).isNone then requeue st.cur st.queue (revGet st.rev nid.natAbs)
          else st.queue) := by
        split
        · exact requeue_ok hcur _ _ hq
        · exact hq
      have hcur' := hcur.set nid hn ht
      have hρ := (litTrue_iff ρ nid hn).1 ht
      have hidx : nid.natAbs - 1 + 1 = nid.natAbs := by omega
      cases n with
      | atom i g e nm => exact ⟨hcur', hq1⟩
      | conj cs nm =>
        apply compound_sound ρ true nid cs _ _ _ hn hcur' hq1
        have := ((hS (nid.natAbs - 1)).1 cs nm hnode)
        rw [hidx] at this
        simp only [if_true]
        rw [← this, hρ]
      | disj cs nm =>
        apply compound_sound ρ false nid cs _ _ _ hn hcur' hq1
        have := ((hS (nid.natAbs - 1)).2 cs nm hnode)
        rw [hidx] at this
        simp only [Bool.false_eq_true, if_false]
        rw [← this, hρ]

theorem run_sound (S : Store) (ρ : Nat → Bool) (hS : Consistent S ρ) (pick : Nat → List Int → Nat) :
    ∀ (fuel : Nat) (st : PState), CurOK ρ st.cur → QOK ρ st.queue → RunOK ρ (run S pick fuel st) := by
  intro fuel
  induction fuel with
  | zero =>
    intro st hc _
    unfold run
    split
    · exact hc
    · exact True.intro
  | succ f ih =>
    intro st hc hq
    unfold run
    split
    · exact hc
    · cases hget : st.queue[pick f st.queue % st.queue.length]? with
      | none => exact True.intro
      | some nid =>
        simp only
        have hmem : nid ∈ st.queue := List.mem_of_getElem? hget
        have hstep := popStep_sound S ρ hS { st with queue := st.queue.erase nid } nid hc (hq.erase nid) (hq nid hmem)
        cases hps : popStep S { st with queue := st.queue.erase nid } nid with
        | error e =>
          rw [hps] at hstep
          cases e <;> first | exact hstep | exact True.intro
        | ok st' =>
          rw [hps] at hstep
          exact ih st' hstep.1 hstep.2

theorem mem_foldl_qAdd (l : List Int) : ∀ (acc : List Int) (x : Int), x ∈ l.foldl qAdd acc → x ∈ acc ∨ x ∈ l := by
  induction l with
  | nil => intro acc x h; exact Or.inl h
  | cons a r ih =>
    intro acc x h
    simp only [List.foldl_cons] at h
    rcases ih _ x h with h | h
    · unfold qAdd at h
      split at h
      · exact Or.inl h
      · rcases List.mem_append.1 h with h | h
        · exact Or.inl h
        · right; have : x = a := by simpa using h
          subst this; exact List.mem_cons_self
    · exact Or.inr (List.mem_cons_of_mem _ h)

theorem mem_mkQueue {l : List Int} {x : Int} (h : x ∈ mkQueue l) : x ∈ l := by
  rcases mem_foldl_qAdd l [] x h with h | h
  · cases h
  · exact h

end ProbLogModel.Propagate
