import ProbLogProofs.Lemmas.GroundFOBridge
/-!
# `SpecOK` decided (core Lean only)

`specOKb P natoms arL rk = true → SpecOK P natoms (lookup arL) rk`: the hypotheses of the correctness theorem against
`Sem.wfm` of the Herbrand instantiation are decidable; `arL` lists the arity of every predicate of the program, names are
laid out as disjoint blocks `[baseOf p, baseOf p + nconsts ^ arity)` below `natoms`.
-/
namespace ProbLogProofs.GroundFOSem
open ProbLogModel ProbLogModel.Formula ProbLogModel.GroundFO ProbLogProofs.GroundSem

/-! ### the positional encoding of argument tuples -/

theorem foldl_enc (nc : Nat) : ∀ (a : List Const) (acc : Nat),
    a.foldl (fun acc c => acc * nc + c) acc = acc * nc ^ a.length + a.foldl (fun acc c => acc * nc + c) 0
  | [], acc => by simp
  | x :: r, acc => by
    simp only [List.foldl_cons, List.length_cons]
    rw [foldl_enc nc r (acc * nc + x), foldl_enc nc r (0 * nc + x)]
    rw [Nat.zero_mul, Nat.zero_add, Nat.add_mul, Nat.mul_assoc, Nat.pow_succ, Nat.mul_comm nc, Nat.add_assoc]

theorem enc_cons (nc : Nat) (x : Const) (r : List Const) : enc nc (x :: r) = x * nc ^ r.length + enc nc r := by
  unfold enc
  rw [List.foldl_cons, foldl_enc, Nat.zero_mul, Nat.zero_add]

theorem inR_cons (nc : Nat) (x : Const) (r : List Const) : inR nc (x :: r) = true ↔ x < nc ∧ inR nc r = true := by
  simp [inR]

theorem aux_lt (x nc N e : Nat) (hx : x < nc) (ih : e < N) : x * N + e < nc * N := by
  have h1 : (x + 1) * N ≤ nc * N := Nat.mul_le_mul_right _ hx
  rw [Nat.succ_mul] at h1
  omega

theorem aux_inj (x x' N e e' : Nat) (h : e < N) (h' : e' < N) (he : x * N + e = x' * N + e') : x = x' ∧ e = e' := by
  have hxx : x = x' := by
    rcases Nat.lt_trichotomy x x' with hlt | heq | hgt
    · have h1 : (x + 1) * N ≤ x' * N := Nat.mul_le_mul_right _ hlt
      rw [Nat.succ_mul] at h1; omega
    · exact heq
    · have h1 : (x' + 1) * N ≤ x * N := Nat.mul_le_mul_right _ hgt
      rw [Nat.succ_mul] at h1; omega
  subst hxx
  exact ⟨rfl, by omega⟩

theorem enc_lt (nc : Nat) : ∀ a : List Const, inR nc a = true → enc nc a < nc ^ a.length
  | [], _ => by simp [enc]
  | x :: r, h => by
    obtain ⟨hx, hr⟩ := (inR_cons nc x r).1 h
    have ih := enc_lt nc r hr
    rw [enc_cons, List.length_cons, Nat.pow_succ, Nat.mul_comm (nc ^ r.length) nc]
    exact aux_lt x nc _ _ hx ih

theorem enc_inj (nc : Nat) : ∀ a a' : List Const, a.length = a'.length → inR nc a = true → inR nc a' = true →
    enc nc a = enc nc a' → a = a'
  | [], [], _, _, _, _ => rfl
  | [], _ :: _, h, _, _, _ => by cases h
  | _ :: _, [], h, _, _, _ => by cases h
  | x :: r, x' :: r', hl, h, h', he => by
    obtain ⟨_, hr⟩ := (inR_cons nc x r).1 h
    obtain ⟨_, hr'⟩ := (inR_cons nc x' r').1 h'
    have hl' : r.length = r'.length := by simpa using hl
    have b := enc_lt nc r hr
    have b' := enc_lt nc r' hr'
    rw [enc_cons, enc_cons, ← hl'] at he
    rw [← hl'] at b'
    obtain ⟨hxx, hee⟩ := aux_inj x x' _ _ _ b b' he
    rw [hxx, enc_inj nc r r' hl' hr hr' hee]

/-! ### the decision procedure -/

theorem termInb_sound {n : Nat} {t : Term} (h : termInb n t = true) : Term.inRange n t := by
  cases t with
  | const c => trivial
  | var i => exact of_decide_eq_true (p := i < n) h

theorem termCb_sound {nc : Nat} {t : Term} (h : termCb nc t = true) : Term.cIn nc t := by
  cases t with
  | const c => exact of_decide_eq_true (p := c < nc) h
  | var i => trivial

theorem mem_clausesOfFO {P : Prog} {p : Pred} {c : Clause} (h : c ∈ P.clausesOf p) : ∃ cs, (p, cs) ∈ P.defs ∧ c ∈ cs := by
  unfold Prog.clausesOf at h
  cases hl : lookup P.defs p with
  | none => rw [hl] at h; cases h
  | some cs => rw [hl] at h; exact ⟨cs, lookup_mem _ _ _ hl, h⟩

theorem atomOKb_sound {nc n : Nat} {ar : Pred → Option Nat} {b : Atom} (h : atomOKb nc n ar b = true) :
    ar b.pred = some b.args.length ∧ (∀ t ∈ b.args, Term.cIn nc t) ∧ ∀ t ∈ b.args, Term.inRange n t := by
  simp only [atomOKb, Bool.and_eq_true, beq_iff_eq, List.all_eq_true] at h
  exact ⟨h.1, fun t ht => termCb_sound (h.2 t ht).2, fun t ht => termInb_sound (h.2 t ht).1⟩

theorem specOKb_sound {P : Prog} {natoms : Nat} {arL : List (Pred × Nat)} {rk : Nat → Nat}
    (h : specOKb P natoms arL rk = true) : SpecOK P natoms (lookup arL) rk := by
  simp only [specOKb, Bool.and_eq_true] at h
  obtain ⟨⟨⟨hnd, hwf⟩, hcl⟩, hlay⟩ := h
  have hcl' : ∀ p, ∀ c ∈ P.clausesOf p, clauseOKb P.nconsts (lookup arL) p c = true := by
    intro p c hc
    obtain ⟨cs, hd, hcs⟩ := mem_clausesOfFO hc
    exact List.all_eq_true.1 (List.all_eq_true.1 hcl _ hd) _ hcs
  have hrule : ∀ p head n body ch, Clause.rule head n body ch ∈ P.clausesOf p →
      (lookup arL p = some head.length ∧ (∀ t ∈ head, Term.inRange n t ∧ Term.cIn P.nconsts t)) ∧
      (∀ l ∈ body, litOKb P.nconsts n (lookup arL) l = true) ∧
      ∀ i, i < n → ∃ l ∈ body, hasVar i l = true := by
    intro p head n body ch hc
    have := hcl' p _ hc
    simp only [clauseOKb, Bool.and_eq_true, beq_iff_eq, List.all_eq_true, List.any_eq_true, List.mem_range] at this
    obtain ⟨⟨⟨h1, h2⟩, h3⟩, h4⟩ := this
    exact ⟨⟨h1, fun t ht => ⟨termInb_sound (h2 t ht).1, termCb_sound (h2 t ht).2⟩⟩, h3, h4⟩
  have hlay' : ∀ p k, lookup arL p = some k → P.baseOf p + P.nconsts ^ k ≤ natoms ∧
      ∀ p' k', lookup arL p' = some k' → p = p' ∨ P.baseOf p + P.nconsts ^ k ≤ P.baseOf p' ∨
        P.baseOf p' + P.nconsts ^ k' ≤ P.baseOf p := by
    intro p k hp
    have := List.all_eq_true.1 hlay _ (lookup_mem _ _ _ hp)
    simp only [Bool.and_eq_true, decide_eq_true_eq, List.all_eq_true, Bool.or_eq_true, beq_iff_eq] at this
    refine ⟨this.1, fun p' k' hp' => ?_⟩
    rcases this.2 _ (lookup_mem _ _ _ hp') with (h | h) | h
    · exact Or.inl h
    · exact Or.inr (Or.inl h)
    · exact Or.inr (Or.inr h)
  exact {
    nodup := nodupB_sound _ hnd
    wf := wfB_sound hwf
    vars := by
      intro p c hc head n body ch heq
      subst heq
      obtain ⟨⟨_, hh⟩, hb, _⟩ := hrule p head n body ch hc
      refine ⟨fun t ht => (hh t ht).1, ?_⟩
      intro it hit
      have hlit : ∀ l ∈ body, Item.inRange n (.lit l) := by
        intro l hl
        have := hb l hl
        cases l with
        | tt => trivial
        | pos b => exact (atomOKb_sound this).2.2
        | neg b => exact (atomOKb_sound this).2.2
      cases ch with
      | none =>
        obtain ⟨l, hl, rfl⟩ := List.mem_map.1 hit
        exact hlit l hl
      | some c =>
        rcases List.mem_append.1 hit with h' | h'
        · obtain ⟨l, hl, rfl⟩ := List.mem_map.1 h'
          exact hlit l hl
        · simp only [List.mem_singleton] at h'
          subst h'; trivial
    factOK := by
      intro p args ident prob hc
      have := hcl' p _ hc
      simpa only [clauseOKb, Bool.and_eq_true, beq_iff_eq] using this
    headOK := fun p head n body ch hc =>
      ⟨(hrule p head n body ch hc).1.1, fun t ht => ((hrule p head n body ch hc).1.2 t ht).2⟩
    bodyOK := by
      intro p head n body ch hc l hl b hb
      have := (hrule p head n body ch hc).2.1 l hl
      cases l with
      | tt => cases hb
      | pos b' => cases hb; exact ⟨(atomOKb_sound this).1, (atomOKb_sound this).2.1⟩
      | neg b' => cases hb; exact ⟨(atomOKb_sound this).1, (atomOKb_sound this).2.1⟩
    rr := by
      intro p head n body ch hc i hi
      obtain ⟨l, hl, hv⟩ := (hrule p head n body ch hc).2.2 i hi
      cases l with
      | tt => cases hv
      | neg b => cases hv
      | pos b => exact ⟨b, hl, by simpa [hasVar] using hv⟩
    inj := by
      intro p a p' a' hp hp' hin hin' hname
      have b := enc_lt _ a hin
      have b' := enc_lt _ a' hin'
      unfold Prog.atomName at hname
      rcases (hlay' p _ hp).2 p' _ hp' with h | h | h
      · subst h
        have hl : a.length = a'.length := by rw [hp] at hp'; exact Option.some.inj hp'
        exact ⟨rfl, enc_inj _ a a' hl hin hin' (by omega)⟩
      · omega
      · omega
    bound := by
      intro p a hp hin
      have b := enc_lt _ a hin
      have := (hlay' p _ hp).1
      unfold Prog.atomName; omega }

end ProbLogProofs.GroundFOSem
