import ProbLogModel.Sem
import ProbLogModel.GroundAcyclic
import ProbLogProofs.Lemmas.SemGamma
import ProbLogProofs.Lemmas.SemWfm
/-!
# Ground acyclic programs: the specification side (core Lean only)

`toSem P` reads a program of the grounding-engine model (`ProbLogModel/GroundAcyclic.lean`) as a list of `Sem.Rule`s.
For a program that is acyclic w.r.t. a rank function, the well-founded model `Sem.wfm` of every total choice is
two-valued and satisfies the completion equation `IsModel` (an atom is true iff one of its clauses is true).
-/
namespace ProbLogProofs.GroundSem
open ProbLogModel ProbLogModel.GroundAcyclic ProbLogProofs.SemGamma ProbLogProofs.SemWfm
open ProbLogModel.Sem (Rule getB gamma wfm)
open ProbLogModel.Formula (lookup)

def posOf : Lit → Option Atom
  | .pos a => some a
  | _ => none

def negOf : Lit → Option Atom
  | .neg a => some a
  | _ => none

/-- The `Sem.Rule` of a clause of goal `a`: the identifier of a probabilistic fact / AD choice is its choice id. -/
def ruleOf (a : Atom) : Clause → Rule
  | .fact _ none _ => ⟨a, [], [], none⟩
  | .fact i (some _) _ => ⟨a, [], [], some i⟩
  | .rule body ch => ⟨a, body.filterMap posOf, body.filterMap negOf, ch.map (·.ident)⟩

def toSem (P : Prog) : List Rule := P.defs.flatMap (fun d => d.2.map (ruleOf d.1))

def litTrue (M : Atom → Bool) : Lit → Bool
  | .pos a => M a
  | .neg a => !M a
  | .tt => true

def choiceTrue (chosen : Array Bool) : Option Choice → Bool
  | none => true
  | some c => getB chosen c.ident

def clauseTrue (chosen : Array Bool) (M : Atom → Bool) : Clause → Bool
  | .fact _ none _ => true
  | .fact i (some _) _ => getB chosen i
  | .rule body ch => body.all (litTrue M) && choiceTrue chosen ch

/-- `M` satisfies the completion of the program under the total choice `chosen`. -/
def IsModel (P : Prog) (chosen : Array Bool) (M : Atom → Bool) : Prop :=
  ∀ a, M a = (P.clausesOf a).any (clauseTrue chosen M)

/-- Hypotheses on the program: distinct goals in `defs`, goals `< natoms`, every body atom has a smaller rank than the
    head, no clause with an empty body.  (All decidable; the driver checks the rank condition on every input.) -/
structure WfP (P : Prog) (natoms : Nat) (rk : Atom → Nat) : Prop where
  nodup : (P.defs.map (·.1)).Nodup
  heads : ∀ d ∈ P.defs, d.1 < natoms
  ranks : ∀ a, ∀ c ∈ P.clausesOf a, ∀ b ∈ c.bodyAtoms, rk b < rk a
  nonempty : ∀ a, ∀ c ∈ P.clausesOf a, c ≠ .rule [] none

/-! ### lookup -/

theorem lookup_mem {β} : ∀ (l : List (Nat × β)) (a : Nat) (b : β), lookup l a = some b → (a, b) ∈ l
  | [], _, _, h => by cases h
  | (x, y) :: r, a, b, h => by
    unfold lookup at h
    by_cases hx : (x == a) = true
    · rw [if_pos hx] at h
      have : x = a := by simpa using hx
      cases h; subst this; exact List.mem_cons_self
    · rw [if_neg hx] at h
      exact List.mem_cons_of_mem _ (lookup_mem r a b h)

theorem lookup_of_mem_nodup {β} : ∀ (l : List (Nat × β)) (a : Nat) (b : β), (l.map (·.1)).Nodup → (a, b) ∈ l →
    lookup l a = some b
  | [], _, _, _, h => by cases h
  | (x, y) :: r, a, b, hn, h => by
    simp only [List.map_cons, List.nodup_cons] at hn
    unfold lookup
    rcases List.mem_cons.1 h with h | h
    · cases h; simp
    · have hne : x ≠ a := by
        intro e; subst e
        exact hn.1 (List.mem_map.2 ⟨(x, b), h, rfl⟩)
      rw [if_neg (by simpa using hne)]
      exact lookup_of_mem_nodup r a b hn.2 h

theorem mem_clausesOf {P : Prog} {a : Atom} {c : Clause} (h : c ∈ P.clausesOf a) :
    ∃ cs, (a, cs) ∈ P.defs ∧ c ∈ cs := by
  unfold Prog.clausesOf at h
  cases hl : lookup P.defs a with
  | none => rw [hl] at h; cases h
  | some cs => rw [hl] at h; exact ⟨cs, lookup_mem _ _ _ hl, h⟩

theorem clausesOf_of_mem {P : Prog} (hn : (P.defs.map (·.1)).Nodup) {a : Atom} {cs : List Clause}
    (h : (a, cs) ∈ P.defs) : P.clausesOf a = cs := by
  unfold Prog.clausesOf
  rw [lookup_of_mem_nodup _ _ _ hn h]; rfl

theorem mem_toSem {P : Prog} (hn : (P.defs.map (·.1)).Nodup) {r : Rule} :
    r ∈ toSem P ↔ ∃ a c, c ∈ P.clausesOf a ∧ r = ruleOf a c := by
  unfold toSem
  rw [List.mem_flatMap]
  constructor
  · rintro ⟨⟨a, cs⟩, hd, hr⟩
    obtain ⟨c, hc, rfl⟩ := List.mem_map.1 hr
    exact ⟨a, c, by rw [clausesOf_of_mem hn hd]; exact hc, rfl⟩
  · rintro ⟨a, c, hc, rfl⟩
    obtain ⟨cs, hd, hc'⟩ := mem_clausesOf hc
    exact ⟨(a, cs), hd, List.mem_map.2 ⟨c, hc', rfl⟩⟩

theorem ruleOf_head (a : Atom) (c : Clause) : (ruleOf a c).head = a := by
  cases c with
  | fact i p n => cases p <;> rfl
  | rule b ch => rfl

theorem mem_pos_bodyAtoms {a : Atom} {c : Clause} {b : Atom} (h : b ∈ (ruleOf a c).pos) : b ∈ c.bodyAtoms := by
  cases c with
  | fact i p n => cases p <;> cases h
  | rule body ch =>
    simp only [ruleOf, List.mem_filterMap] at h
    obtain ⟨l, hl, hb⟩ := h
    simp only [Clause.bodyAtoms, List.mem_filterMap]
    refine ⟨l, hl, ?_⟩
    cases l <;> simp_all [posOf, Lit.atom?]

theorem mem_neg_bodyAtoms {a : Atom} {c : Clause} {b : Atom} (h : b ∈ (ruleOf a c).neg) : b ∈ c.bodyAtoms := by
  cases c with
  | fact i p n => cases p <;> cases h
  | rule body ch =>
    simp only [ruleOf, List.mem_filterMap] at h
    obtain ⟨l, hl, hb⟩ := h
    simp only [Clause.bodyAtoms, List.mem_filterMap]
    refine ⟨l, hl, ?_⟩
    cases l <;> simp_all [negOf, Lit.atom?]

/-- A clause is true in `M` iff its rule fires: choice selected, positive body in `M`, negative body outside `M`. -/
theorem clauseTrue_iff (chosen : Array Bool) (M : Atom → Bool) (a : Atom) (c : Clause) :
    clauseTrue chosen M c = true ↔
      chOk chosen (ruleOf a c) = true ∧ (∀ b ∈ (ruleOf a c).pos, M b = true) ∧
        (∀ b ∈ (ruleOf a c).neg, M b = false) := by
  cases c with
  | fact i p n =>
    cases p with
    | none => simp [clauseTrue, ruleOf, chOk]
    | some p => simp [clauseTrue, ruleOf, chOk]
  | rule body ch =>
    have hch : chOk chosen (ruleOf a (.rule body ch)) = choiceTrue chosen ch := by
      cases ch <;> rfl
    rw [hch]
    simp only [clauseTrue, Bool.and_eq_true, List.all_eq_true, ruleOf, List.mem_filterMap]
    constructor
    · rintro ⟨h1, h2⟩
      refine ⟨h2, ?_, ?_⟩
      · rintro b ⟨l, hl, hb⟩
        cases l <;> simp_all [posOf]
        have := h1 _ hl; simpa [litTrue] using this
      · rintro b ⟨l, hl, hb⟩
        cases l <;> simp_all [negOf]
        have := h1 _ hl; simpa [litTrue] using this
    · rintro ⟨h1, h2, h3⟩
      refine ⟨fun l hl => ?_, h1⟩
      cases l with
      | pos b => exact h2 b ⟨_, hl, rfl⟩
      | neg b => simp [litTrue, h3 b ⟨_, hl, rfl⟩]
      | tt => rfl

/-! ### supportedness of the least model -/

theorem gamma_supported (rules : List Rule) (chosen : Array Bool) (natoms : Nat) (ctx : Array Bool) (i : Nat)
    (h : getB (gamma rules chosen natoms ctx) i = true) :
    ∃ r ∈ rules, r.head = i ∧ chOk chosen r = true ∧
      (∀ a ∈ r.pos, getB (gamma rules chosen natoms ctx) a = true) ∧ (∀ a ∈ r.neg, getB ctx a = false) := by
  let G := getB (gamma rules chosen natoms ctx)
  let M : Nat → Bool := fun x => G x && rules.any (fun r => decide (r.head = x) && chOk chosen r && r.pos.all G &&
    r.neg.all (fun a => !getB ctx a))
  have hM : ClosedBelow natoms rules chosen ctx M := by
    intro r hr h1 h2 h3 hlt
    have hpos : ∀ a ∈ r.pos, G a = true := fun a ha => by
      have := h2 a ha
      simp only [M, Bool.and_eq_true] at this
      exact this.1
    have hG : G r.head = true := gamma_closedBelow rules chosen natoms ctx r hr h1 hpos h3 hlt
    simp only [M, Bool.and_eq_true, List.any_eq_true]
    refine ⟨hG, r, hr, ?_⟩
    exact ⟨⟨⟨by simp, h1⟩, List.all_eq_true.2 hpos⟩, List.all_eq_true.2 (fun a ha => by simp [h3 a ha])⟩
  have := gamma_least rules chosen natoms ctx M hM i h
  simp only [M, Bool.and_eq_true, List.any_eq_true] at this
  obtain ⟨_, r, hr, hf⟩ := this
  simp only [decide_eq_true_eq, List.all_eq_true, Bool.not_eq_true'] at hf
  exact ⟨r, hr, hf.1.1.1, hf.1.1.2, hf.1.2, hf.2⟩

/-! ### the well-founded model of an acyclic program -/

theorem wfHeads_toSem {P : Prog} {natoms : Nat} {rk : Atom → Nat} (hw : WfP P natoms rk) :
    wfHeads natoms (toSem P) = true := by
  unfold wfHeads
  rw [List.all_eq_true]
  intro r hr
  obtain ⟨a, c, hc, rfl⟩ := (mem_toSem hw.nodup).1 hr
  obtain ⟨cs, hd, _⟩ := mem_clausesOf hc
  rw [ruleOf_head]
  simpa using hw.heads _ hd

/-- `T = Γ(U)`, `U = Γ(T)` for the result of `wfm`. -/
theorem wfm_fix (rules : List Rule) (chosen : Array Bool) (natoms : Nat) :
    (wfm rules chosen natoms).2 = gamma rules chosen natoms (wfm rules chosen natoms).1 ∧
    (wfm rules chosen natoms).1 = gamma rules chosen natoms (wfm rules chosen natoms).2 := by
  obtain ⟨m, e, f⟩ := wfm_spec rules chosen natoms
  rw [e]
  exact ⟨rfl, f.symm⟩

/-- Acyclic programs: the well-founded model is two-valued. -/
theorem wfm_two_valued {P : Prog} {natoms : Nat} {rk : Atom → Nat} (hw : WfP P natoms rk) (chosen : Array Bool) :
    ∀ a, getB (wfm (toSem P) chosen natoms).1 a = getB (wfm (toSem P) chosen natoms).2 a := by
  obtain ⟨hU, hT⟩ := wfm_fix (toSem P) chosen natoms
  generalize hTd : (wfm (toSem P) chosen natoms).1 = T at hU hT
  generalize hUd : (wfm (toSem P) chosen natoms).2 = U at hU hT
  have hclosed : ∀ ctx, Closed (toSem P) chosen ctx (getB (gamma (toSem P) chosen natoms ctx)) := fun ctx =>
    (gamma_closedBelow _ _ _ _).closed (wfHeads_toSem hw)
  suffices h : ∀ n a, rk a < n → getB T a = getB U a from fun a => h (rk a + 1) a (Nat.lt_succ_self _)
  intro n
  induction n with
  | zero => intro a h; omega
  | succ n ih =>
    intro a ha
    have key : ∀ (X Y : Array Bool), X = gamma (toSem P) chosen natoms Y → Y = gamma (toSem P) chosen natoms X →
        (∀ b, rk b < n → getB X b = getB Y b) → getB X a = true → getB Y a = true := by
      intro X Y hX hY hxy hXa
      rw [hX] at hXa
      obtain ⟨r, hr, hhead, hch, hpos, hneg⟩ := gamma_supported _ _ _ _ _ hXa
      rw [← hX] at hpos
      obtain ⟨a', c, hc, rfl⟩ := (mem_toSem hw.nodup).1 hr
      rw [ruleOf_head] at hhead; subst hhead
      have hlow : ∀ b ∈ c.bodyAtoms, rk b < n := fun b hb => by
        have := hw.ranks a' c hc b hb; omega
      rw [hY]
      have := hclosed X (ruleOf a' c) hr hch
        (fun b hb => by
          rw [← hY, ← hxy b (hlow b (mem_pos_bodyAtoms hb))]; exact hpos b hb)
        (fun b hb => by
          rw [hxy b (hlow b (mem_neg_bodyAtoms hb))]; exact hneg b hb)
      rwa [ruleOf_head] at this
    have h1 := key T U hT hU (fun b hb => ih b hb)
    have h2 := key U T hU hT (fun b hb => (ih b hb).symm)
    cases hTa : getB T a with
    | true => exact (h1 hTa).symm
    | false =>
      cases hUa : getB U a with
      | false => rfl
      | true => have := h2 hUa; rw [hTa] at this; cases this

/-- Acyclic programs: the well-founded model satisfies the completion equation. -/
theorem wfm_isModel {P : Prog} {natoms : Nat} {rk : Atom → Nat} (hw : WfP P natoms rk) (chosen : Array Bool) :
    IsModel P chosen (getB (wfm (toSem P) chosen natoms).1) := by
  have h2v := wfm_two_valued hw chosen
  obtain ⟨hU, hT⟩ := wfm_fix (toSem P) chosen natoms
  generalize hTd : (wfm (toSem P) chosen natoms).1 = T at hU hT h2v
  generalize hUd : (wfm (toSem P) chosen natoms).2 = U at hU hT h2v
  intro a
  rw [Bool.eq_iff_iff, List.any_eq_true]
  constructor
  · intro hTa
    rw [hT] at hTa
    obtain ⟨r, hr, hhead, hch, hpos, hneg⟩ := gamma_supported _ _ _ _ _ hTa
    rw [← hT] at hpos
    obtain ⟨a', c, hc, rfl⟩ := (mem_toSem hw.nodup).1 hr
    rw [ruleOf_head] at hhead; subst hhead
    exact ⟨c, hc, (clauseTrue_iff chosen (getB T) a' c).2 ⟨hch, hpos, fun b hb => by rw [h2v b]; exact hneg b hb⟩⟩
  · rintro ⟨c, hc, hct⟩
    obtain ⟨hch, hpos, hneg⟩ := (clauseTrue_iff chosen (getB T) a c).1 hct
    have hr : ruleOf a c ∈ toSem P := (mem_toSem hw.nodup).2 ⟨a, c, hc, rfl⟩
    have hclosed : Closed (toSem P) chosen U (getB (gamma (toSem P) chosen natoms U)) :=
      (gamma_closedBelow _ _ _ _).closed (wfHeads_toSem hw)
    have := hclosed (ruleOf a c) hr hch (fun b hb => by rw [← hT]; exact hpos b hb)
      (fun b hb => by rw [← h2v b]; exact hneg b hb)
    rw [ruleOf_head, ← hT] at this
    exact this

/-- The completion equation has at most one solution on an acyclic program. -/
theorem isModel_unique {P : Prog} {natoms : Nat} {rk : Atom → Nat} (hw : WfP P natoms rk) (chosen : Array Bool)
    {M M' : Atom → Bool} (h : IsModel P chosen M) (h' : IsModel P chosen M') : ∀ a, M a = M' a := by
  suffices hs : ∀ n a, rk a < n → M a = M' a from fun a => hs (rk a + 1) a (Nat.lt_succ_self _)
  intro n
  induction n with
  | zero => intro a h; omega
  | succ n ih =>
    intro a ha
    have hcl : ∀ c ∈ P.clausesOf a, clauseTrue chosen M c = clauseTrue chosen M' c := by
      intro c hc
      have hlow : ∀ b ∈ c.bodyAtoms, M b = M' b := fun b hb => ih b (by have := hw.ranks a c hc b hb; omega)
      cases c with
      | fact i p n => cases p <;> rfl
      | rule body ch =>
        have hl : ∀ l ∈ body, litTrue M l = litTrue M' l := by
          intro l hl
          cases l with
          | pos b => exact hlow b (by simp only [Clause.bodyAtoms, List.mem_filterMap]; exact ⟨_, hl, rfl⟩)
          | neg b =>
            simp only [litTrue]
            rw [hlow b (by simp only [Clause.bodyAtoms, List.mem_filterMap]; exact ⟨_, hl, rfl⟩)]
          | tt => rfl
        have hall : body.all (litTrue M) = body.all (litTrue M') := by
          rw [Bool.eq_iff_iff, List.all_eq_true, List.all_eq_true]
          exact ⟨fun h l hm => by rw [← hl l hm]; exact h l hm, fun h l hm => by rw [hl l hm]; exact h l hm⟩
        simp only [clauseTrue, hall]
    rw [h a, h' a, Bool.eq_iff_iff, List.any_eq_true, List.any_eq_true]
    exact ⟨fun ⟨c, h1, h2⟩ => ⟨c, h1, by rw [← hcl c h1]; exact h2⟩,
      fun ⟨c, h1, h2⟩ => ⟨c, h1, by rw [hcl c h1]; exact h2⟩⟩

/-! ### the decidable form of the hypotheses -/

theorem nodupB_sound : ∀ (l : List Nat), nodupB l = true → l.Nodup
  | [], _ => List.nodup_nil
  | x :: xs, h => by
    simp only [nodupB, Bool.and_eq_true, Bool.not_eq_true', List.contains_eq_mem, decide_eq_false_iff_not] at h
    exact List.nodup_cons.2 ⟨h.1, nodupB_sound xs h.2⟩

theorem wfB_sound {P : Prog} {natoms : Nat} {rk : Atom → Nat} (h : wfB P natoms rk = true) : WfP P natoms rk := by
  simp only [wfB, Bool.and_eq_true, List.all_eq_true, decide_eq_true_eq, acyclicB] at h
  obtain ⟨⟨⟨h1, h2⟩, h3⟩, h4⟩ := h
  refine ⟨nodupB_sound _ h1, h2, fun a c hc b hb => ?_, fun a c hc => ?_⟩
  · obtain ⟨cs, hd, hc'⟩ := mem_clausesOf hc
    exact h3 (a, cs) hd c hc' b hb
  · obtain ⟨cs, hd, hc'⟩ := mem_clausesOf hc
    have := h4 (a, cs) hd c hc'
    simpa using this

end ProbLogProofs.GroundSem
