import ProbLogProofs.Lemmas.UnrollMain
import ProbLogProofs.Lemmas.ClarkEval
/-!
Helper lemmas for C09Unroll (3): the bottom-up evaluation `dagVals` of an acyclic target is a consistent valuation;
the pulled-back atom assignment carries `α`; termination / totality of `breakSimpleNode`.
-/
namespace ProbLogProofs.Unroll
open ProbLogModel.Formula ProbLogModel.Cycles ProbLogProofs.Cycles
open ProbLogModel.Clark (dagVals dagEval childVal)
open ProbLogProofs.Lemmas.Clark (dagVals_get dagVals_atom keyVal_eq_childVal)

/-- The valuation of node ids given by the bottom-up evaluation. -/
def dagρ (S : Store) (α : Nat → Bool) : Nat → Bool := fun i => (dagVals α S.nodes).getD (i - 1) false

theorem keyVal_dagρ (S : Store) (α : Nat → Bool) (k : Key) : keyVal (dagρ S α) k = dagEval S α k := by
  cases k with
  | none => rfl
  | some k =>
    by_cases h0 : k = 0
    · subst h0; rfl
    · simp only [keyVal, dagEval, childVal, h0, if_false, dagρ]

theorem child_dagρ (S : Store) (α : Nat → Bool) (j : Nat) (c : Key) (hc : keyBelow j c) :
    keyVal (dagρ S α) c = childVal ((dagVals α S.nodes).take j) c := by
  cases c with
  | none => rfl
  | some k =>
    by_cases h0 : k = 0
    · subst h0; rfl
    · exact keyVal_eq_childVal (dagρ S α) (dagVals α S.nodes) j (fun _ _ _ => rfl) k h0
        (Nat.lt_succ_of_le hc)

theorem dagρ_get (S : Store) (α : Nat → Bool) (j : Nat) (nd : Node) (h : S.nodes[j]? = some nd) :
    dagρ S α (j + 1) = ProbLogModel.Clark.nodeVal α ((dagVals α S.nodes).take j) nd := by
  unfold dagρ
  rw [Nat.add_sub_cancel, List.getD_eq_getElem?_getD, dagVals_get α S.nodes j nd h]
  rfl

/-- In an acyclic store the bottom-up evaluation is a consistent valuation. -/
theorem dagρ_consistent {S : Store} (ha : Acyclic S) (α : Nat → Bool) : Consistent S (dagρ S α) := by
  intro j
  refine ⟨fun cs nm h => ?_, fun cs nm h => ?_⟩
  · rw [dagρ_get S α j _ h]
    show cs.all _ = cs.all _
    exact (ProbLogProofs.Lemmas.Clark.all_congr_mem _ _ cs (fun c hc => child_dagρ S α j c (ha j _ h c hc))).symm
  · rw [dagρ_get S α j _ h]
    show cs.any _ = cs.any _
    exact (ProbLogProofs.Lemmas.Clark.any_congr_mem _ _ cs (fun c hc => child_dagρ S α j c (ha j _ h c hc))).symm

theorem dagρ_atom (S : Store) (α : Nat → Bool) (j : Nat) (hj : 1 ≤ j) {id : Ident} {g : Option Nat} {e : Bool}
    {nm : Option Name} (h : S.nodes[j - 1]? = some (.atom id g e nm)) : dagρ S α j = α j := by
  unfold dagρ
  rw [dagVals_atom α S.nodes (j - 1) id g e nm h, Nat.sub_add_cancel hj]

/-! ### distinct identifiers -/

theorem findAtom_of_distinct {S : Store} (h : atomsDistinct S = true) {i : Nat} {id : Ident} {g : Option Nat}
    {e : Bool} {nm : Option Name} (hn : S.nodes[i]? = some (.atom id g e nm)) : findAtom S id = some (i + 1) := by
  have hlt : i < S.nodes.length := lt_length_of_get hn
  have := List.all_eq_true.1 h i (List.mem_range.2 hlt)
  simp only [hn] at this
  simpa using this

theorem srcOK_distinct {S : Store} (h : SrcOK S) : atomsDistinct S = true := by
  unfold SrcOK srcOK at h
  rw [Bool.and_eq_true] at h
  exact h.2

/-- With pairwise distinct source identifiers the pulled-back assignment carries `α`. -/
theorem carries_pullback {src T : Store} (hok : SrcOK src) (hw : WF T) (α : Nat → Bool) :
    Carries src T α (dagρ T (pullback src T α)) := by
  intro i id g e nm j hi hj
  obtain ⟨h1, g', e', nm', hnode⟩ := hw.atom id j hj
  rw [dagρ_atom T _ j h1 hnode]
  unfold pullback
  simp only [hnode, findAtom_of_distinct (srcOK_distinct hok) hi]

/-! ### totality -/

theorem childrenWith_total (f : Store → Int → Except CErr (Store × Key)) :
    ∀ (cs : List Key), (∀ c ∈ cs, c ≠ none) →
      (∀ T c, some c ∈ cs → c ≠ 0 → ∃ T' k, f T c = .ok (T', k)) →
      ∀ T, ∃ T' ks, childrenWith f T cs = .ok (T', ks) ∧ ks.length = cs.length := by
  intro cs
  induction cs with
  | nil => intro _ _ T; exact ⟨T, [], rfl, rfl⟩
  | cons c rest ih =>
    intro hnn hf T
    have ih' := ih (fun c hc => hnn c (List.mem_cons_of_mem _ hc))
      (fun T c hc h0 => hf T c (List.mem_cons_of_mem _ hc) h0)
    cases c with
    | none => exact absurd rfl (hnn none List.mem_cons_self)
    | some c =>
      rw [childrenWith_cons_some]
      by_cases hc0 : c = 0
      · rw [if_pos hc0]
        obtain ⟨T', ks, hr, hl⟩ := ih' T
        rw [hr]
        exact ⟨T', some 0 :: ks, rfl, by simp [hl]⟩
      · rw [if_neg hc0]
        obtain ⟨T1, k, h1⟩ := hf T c List.mem_cons_self hc0
        rw [h1]
        obtain ⟨T', ks, hr, hl⟩ := ih' T1
        simp only [hr]
        exact ⟨T', k :: ks, rfl, by simp [hl]⟩

theorem finishCompound_total (kind : Kind) (node : Int) (name : Option Name) (T1 : Store) (keys : List Key)
    (hne : keys ≠ []) : ∃ T' k, finishCompound kind node name (.ok (T1, keys)) = .ok (T', k) := by
  cases hr : addCompound T1 kind keys true name false none with
  | error e => exact absurd (addCompound_error hr).2.2 hne
  | ok p =>
    obtain ⟨T', k0⟩ := p
    refine ⟨T', sgn node k0, ?_⟩
    cases kind with
    | conj =>
      have hr' : T1.addAnd keys name = .ok (T', k0) := hr
      simp only [finishCompound, hr']
    | disj =>
      have hr' : T1.addOr keys true name = .ok (T', k0) := hr
      simp only [finishCompound, hr']

theorem okNode_of_get {S : Store} (h : SrcOK S) {j : Nat} {nd : Node} (hn : S.nodes[j]? = some nd) :
    okNode S nd = true := by
  unfold SrcOK srcOK at h
  rw [Bool.and_eq_true] at h
  exact List.all_eq_true.1 h.1 nd (List.mem_of_getElem? hn)

/-- The translation terminates without error as soon as the fuel exceeds the number of source nodes outside the
    ancestor list (so `|nodes| + 1` suffices at top level). -/
theorem breakSimpleNode_total {src : Store} (hok : SrcOK src) :
    ∀ (fuel : Nat) (T : Store) (node : Int) (anc : List Nat), free src anc < fuel →
      node.natAbs ≤ src.nodes.length → ∃ T' k, breakSimpleNode src fuel T node anc = .ok (T', k) := by
  intro fuel
  induction fuel with
  | zero => intro T node anc h; omega
  | succ fuel ih =>
    intro T node anc hf hlen
    rw [breakSimpleNode_succ]
    by_cases h0 : node = 0
    · rw [if_pos h0]; exact ⟨_, _, rfl⟩
    · rw [if_neg h0]
      by_cases hc : anc.contains node.natAbs = true
      · rw [if_pos hc]; exact ⟨_, _, rfl⟩
      · rw [if_neg hc]
        have hnotin : node.natAbs ∉ anc := fun hm => hc (List.contains_iff_mem.2 hm)
        have hi0 : 0 < node.natAbs := by omega
        have hlt : node.natAbs - 1 < src.nodes.length := by omega
        have hn : src.nodes[node.natAbs - 1]? = some src.nodes[node.natAbs - 1] := List.getElem?_eq_getElem hlt
        generalize src.nodes[node.natAbs - 1] = nd at hn
        rw [hn]
        have hfree : free src (anc ++ [node.natAbs]) < fuel := by
          have := free_cons_lt src anc node.natAbs hi0 hlt hnotin
          rw [free_congr src (fun x => mem_snoc_iff_cons anc node.natAbs x)]; omega
        have hok' := okNode_of_get hok hn
        have key : ∀ (kind : Kind) (children : List Key) (name : Option Name),
            (!children.isEmpty && children.all (okKey src)) = true →
            ∃ T' k, finishCompound kind node name
              (childrenWith (fun T c => breakSimpleNode src fuel T c (anc ++ [node.natAbs])) T children) =
                .ok (T', k) := by
          intro kind children name hch
          rw [Bool.and_eq_true] at hch
          obtain ⟨hne, hall⟩ := hch
          have hall' := List.all_eq_true.1 hall
          obtain ⟨T1, keys, hr, hl⟩ := childrenWith_total
            (fun T c => breakSimpleNode src fuel T c (anc ++ [node.natAbs])) children
            (fun c hc hcn => by subst hcn; have := hall' _ hc; simp [okKey] at this)
            (fun T c hc _ => ih T c _ hfree (by have := hall' _ hc; simpa [okKey] using this)) T
          rw [hr]
          apply finishCompound_total
          intro hk
          rw [hk] at hl
          have : children = [] := List.eq_nil_of_length_eq_zero hl.symm
          rw [this] at hne
          simp at hne
        cases nd with
        | atom ident group isExtra name => exact ⟨_, _, rfl⟩
        | conj children name => exact key .conj children name hok'
        | disj children name => exact key .disj children name hok'

end ProbLogProofs.Unroll
