import ProbLogProofs.Lemmas.UnrollEqS
import ProbLogProofs.Lemmas.FormulaAtom
/-!
Helper lemmas for C09Unroll (9): the name table. Everything the builder does on its own (`add_atom`, `_add_compound`,
AD constraints) only touches entries labelled `named`; so the query / evidence entries of the target's name table are
exactly those written by `break_cycles` itself.
-/
namespace ProbLogProofs.Unroll
open ProbLogModel.Formula ProbLogModel.Cycles

def nnf (e : Label × Name × Key) : Bool := e.1 != Label.named

/-- The entries of the name table with a label other than `named`. -/
def NN (S : Store) : List (Label × Name × Key) := S.names.filter nnf

theorem filter_setNames_named (ns : List (Label × Name × Key)) (n : Name) (k : Key) :
    (setNames ns .named n k).filter nnf = ns.filter nnf := by
  induction ns with
  | nil => simp [setNames, nnf]
  | cons e r ih =>
    obtain ⟨l', n', k'⟩ := e
    simp only [setNames]
    by_cases h : (l' == Label.named && n' == n) = true
    · rw [if_pos h]
      rw [Bool.and_eq_true] at h
      have hl : l' = Label.named := by simpa using h.1
      subst hl
      simp [nnf]
    · rw [if_neg h]
      simp only [List.filter_cons, ih]

theorem addName_names (S : Store) (n : Name) (k : Key) (l : Label) (keep : Bool) :
    (S.addName n k l keep).names = setNames S.names l n k := by
  unfold Store.addName
  simp only
  split
  · split
    · split <;> rfl
    · rfl
  · rfl

theorem NN_addName_named (S : Store) (n : Name) (k : Key) (keep : Bool) :
    NN (S.addName n k .named keep) = NN S := by
  unfold NN; rw [addName_names, filter_setNames_named]

theorem mem_setNames {ns : List (Label × Name × Key)} {l : Label} {n : Name} {k : Key} {e : Label × Name × Key}
    (h : e ∈ setNames ns l n k) : e ∈ ns ∨ e = (l, n, k) := by
  induction ns with
  | nil => simp only [setNames, List.mem_singleton] at h; exact Or.inr h
  | cons e' r ih =>
    obtain ⟨l', n', k'⟩ := e'
    simp only [setNames] at h
    by_cases hc : (l' == l && n' == n) = true
    · rw [if_pos hc] at h
      rw [Bool.and_eq_true] at hc
      have hl : l' = l := by simpa using hc.1
      have hn : n' = n := by simpa using hc.2
      subst hl; subst hn
      rcases List.mem_cons.1 h with h | h
      · exact Or.inr h
      · exact Or.inl (List.mem_cons_of_mem _ h)
    · rw [if_neg hc] at h
      rcases List.mem_cons.1 h with h | h
      · exact Or.inl (h ▸ List.mem_cons_self)
      · rcases ih h with h | h
        · exact Or.inl (List.mem_cons_of_mem _ h)
        · exact Or.inr h

/-! ### `_add_compound` -/

theorem finishC_names {kind : Kind} {readonly : Bool} {name : Option Name} {S : Store} {c2 : List Key}
    {clash : Bool} {S' : Store} {k : Key} (h : finishC kind readonly name S c2 clash = .ok (S', k)) :
    S'.names = S.names := by
  unfold finishC at h
  cases kind with
  | conj =>
    simp only [Store.addConjNode] at h
    repeat' split at h
    all_goals (simp only [Except.ok.injEq, Prod.mk.injEq] at h; obtain ⟨rfl, _⟩ := h; rfl)
  | disj =>
    simp only [Store.addDisjNode] at h
    repeat' split at h
    all_goals (simp only [Except.ok.injEq, Prod.mk.injEq] at h; obtain ⟨rfl, _⟩ := h; rfl)

theorem addCompound_NN {S S' : Store} {kind : Kind} {content : List Key} {readonly : Bool} {name : Option Name}
    {placeholder : Bool} {compact : Option Bool} {k : Key}
    (h : addCompound S kind content readonly name placeholder compact = .ok (S', k)) : NN S' = NN S := by
  have hfin : ∀ c2 clash, finishC kind readonly name S c2 clash = .ok (S', k) → NN S' = NN S :=
    fun c2 clash hf => by unfold NN; rw [finishC_names hf]
  rw [addCompound_eq] at h
  by_cases h1 : (!placeholder && content.isEmpty) = true
  · rw [if_pos h1] at h; cases h
  rw [if_neg h1] at h
  by_cases h2 : doCompactOf compact S = true
  · rw [if_pos h2] at h
    by_cases ht : content.contains kind.t = true
    · rw [if_pos ht] at h
      simp only [Except.ok.injEq, Prod.mk.injEq] at h
      obtain ⟨rfl, _⟩ := h; rfl
    · rw [if_neg ht] at h
      dsimp only at h
      generalize (if S.opts.keepDuplicates then content.filter (· != kind.f)
          else dedup (content.filter (· != kind.f))) = c2 at h
      by_cases he : (c2.isEmpty && !placeholder) = true
      · rw [if_pos he] at h
        simp only [Except.ok.injEq, Prod.mk.injEq] at h
        obtain ⟨rfl, _⟩ := h; rfl
      · rw [if_neg he] at h
        by_cases ho : hasOpp c2 = true
        · rw [if_pos ho] at h
          simp only [Except.ok.injEq, Prod.mk.injEq] at h
          obtain ⟨rfl, _⟩ := h; rfl
        · rw [if_neg ho] at h
          split at h
          · rename_i c
            split at h
            · rename_i r b hs
              simp only [Except.ok.injEq] at h
              subst h
              obtain ⟨_, hS⟩ := singleChild_spec S c name _ _ _ hs
              rcases hS with rfl | ⟨n, _, rfl⟩
              · rfl
              · exact NN_addName_named _ _ _ _
            · exact hfin _ _ h
          · exact hfin _ _ h
  · rw [if_neg h2] at h
    exact hfin _ _ h

/-! ### `add_atom` -/

theorem addAtomNode_names (S : Store) (id : Ident) (nd : Node) : (S.addAtomNode id nd).1.names = S.names := by
  unfold Store.addAtomNode
  split <;> rfl

theorem NN_addExtra (S : Store) (g : Nat) : NN (S.addExtra g).1 = NN S := by
  unfold Store.addExtra
  simp only
  generalize hr : S.addAtomNode (Ident.extra g) (Node.atom (Ident.extra g) (some g) true (some (Name.extra g))) = r
  obtain ⟨S1, i⟩ := r
  have h1 : S1.names = S.names := by
    have := congrArg (fun r => r.1.names) hr
    simp only [addAtomNode_names] at this
    exact this.symm
  simp only
  have h3 : NN (Store.addName { S1 with weights := assocSet S1.weights i Weight.neutral } (Name.extra g)
      (some (i : Int)) Label.named) = NN S := by
    rw [NN_addName_named]; unfold NN; simp only [h1]
  split
  · unfold NN at h3 ⊢; exact h3
  · exact h3

theorem NN_constraintAdd (S : Store) (g node : Nat) (isExtra crExtra : Bool) :
    NN (S.constraintAdd g node isExtra crExtra) = NN S := by
  unfold Store.constraintAdd
  simp only
  generalize (findAD S.ads g).getD ⟨g, [], none⟩ = c
  split
  · rfl
  · cases isExtra <;> simp only [Bool.false_eq_true, ↓reduceIte] <;> split
    · generalize hr : Store.addExtra _ g = r
      obtain ⟨S2, e⟩ := r
      have h := congrArg (fun r => NN r.1) hr
      simp only [NN_addExtra] at h
      exact h.symm
    · rfl
    · generalize hr : Store.addExtra _ g = r
      obtain ⟨S2, e⟩ := r
      have h := congrArg (fun r => NN r.1) hr
      simp only [NN_addExtra] at h
      exact h.symm
    · rfl

theorem NN_addAtom_main (S : Store) (ident : Ident) (w : Weight) (group : Option Nat)
    (name : Option Name) (crExtra isExtra : Bool) :
    NN
      (let nd := Node.atom ident group isExtra name
       let lenBefore := S.nodes.length
       let (S1, i) := S.addAtomNode ident nd
       let S2 := { S1 with weights := assocSet S1.weights i w }
       let S3 := match name with
         | some n => S2.addName n (some (i : Int)) .named
         | none => S2
       if S3.nodes.length != lenBefore then
         let S4 := { S3 with atomcount := S3.atomcount + 1 }
         match group with
         | none => (S4, some (i : Int))
         | some g => (S4.constraintAdd g i isExtra crExtra, some (i : Int))
       else (S3, some (i : Int)) : Store × Key).1 = NN S := by
  simp only
  generalize hr : S.addAtomNode ident (Node.atom ident group isExtra name) = r
  obtain ⟨S1, i⟩ := r
  have h1 : S1.names = S.names := by
    have := congrArg (fun r => r.1.names) hr
    simp only [addAtomNode_names] at this
    exact this.symm
  simp only
  generalize hS3 : (match name with
       | some n => Store.addName { S1 with weights := assocSet S1.weights i w } n (some (i : Int)) Label.named
       | none => { S1 with weights := assocSet S1.weights i w }) = S3
  have h3 : NN S3 = NN S := by
    subst hS3
    cases name with
    | none => unfold NN; simp only [h1]
    | some n => simp only; rw [NN_addName_named]; unfold NN; simp only [h1]
  split
  · cases group with
    | none => exact h3
    | some g => simp only; rw [NN_constraintAdd]; exact h3
  · exact h3

theorem NN_addAtom (S : Store) (ident : Ident) (pc : PClass) (w : Weight) (group : Option Nat)
    (name : Option Name) (crExtra isExtra : Bool) :
    NN (S.addAtom ident pc w group name crExtra isExtra).1 = NN S := by
  unfold Store.addAtom
  split
  · rfl
  · rfl
  · rfl
  · rfl
  · exact NN_addAtom_main S ident w group name crExtra isExtra

end ProbLogProofs.Unroll
