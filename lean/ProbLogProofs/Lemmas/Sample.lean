import ProbLogModel.Tasks.Sample
/-! Helper lemmas for C22 (core Lean only). -/
namespace ProbLogProofs.Sample
open ProbLogModel.Tasks.Sample

/-- Σ ps -/
def total : List Rat → Rat
  | [] => 0
  | p :: ps => p + total ps

/-- The threshold view of sequential AD sampling: heads `ps` are tried in order with remaining mass `r`; head `i` is
    chosen by the first uniform with `u ≤ p / r`. -/
def firstHit : List Rat → Rat → List Rat → Nat → Option Nat
  | [], _, _, _ => none
  | _ :: _, _, [], _ => none
  | p :: ps, r, u :: us, i => if u ≤ p / r then some i else firstHit ps (r - p) us (i + 1)

/-- Volume (product of interval lengths) of the set of uniform streams for which head `i` is chosen:
    `u_j ∈ (p_j/r_j, 1)` for `j < i` and `u_i ∈ [0, p_i/r_i]`. -/
def volChoose : List Rat → Rat → Nat → Rat
  | [], _, _ => 0
  | p :: _, r, 0 => p / r
  | p :: ps, r, i + 1 => (1 - p / r) * volChoose ps (r - p) i

/-- Volume of the set of streams for which no head is chosen. -/
def volNone : List Rat → Rat → Rat
  | [], _ => 1
  | p :: ps, r => (1 - p / r) * volNone ps (r - p)

/-- the guard `r < 1e-8` never fires while the heads `ps` are tried from remaining mass `r` -/
def GuardOK : List Rat → Rat → Prop
  | [], _ => True
  | p :: ps, r => guard ≤ r ∧ GuardOK ps (r - p)

theorem guard_pos : (0 : Rat) < guard := by decide +kernel

theorem volChoose_eq (ps : List Rat) (r : Rat) (i : Nat) (hi : i < ps.length) (hg : GuardOK ps r) :
    volChoose ps r i = ps[i] / r := by
  induction ps generalizing r i with
  | nil => simp at hi
  | cons p ps ih =>
    have hr : 0 < r := by have := hg.1; have := guard_pos; grind
    cases i with
    | zero => simp [volChoose]
    | succ i =>
      have hi' : i < ps.length := by simpa using hi
      simp only [volChoose, List.getElem_cons_succ]
      rw [ih (r - p) i hi' hg.2]
      cases ps with
      | nil => simp at hi'
      | cons q qs =>
        have hr2 : 0 < r - p := by have := hg.2.1; have := guard_pos; grind
        grind

theorem volNone_eq (ps : List Rat) (r : Rat) (hg : GuardOK ps r) : volNone ps r * r = r - total ps ∨ ps = [] := by
  induction ps generalizing r with
  | nil => right; rfl
  | cons p ps ih =>
    left
    have hr : 0 < r := by have := hg.1; have := guard_pos; grind
    simp only [volNone, total]
    rcases ih (r - p) hg.2 with h | h
    · cases ps with
      | nil => simp [volNone, total] at *; grind
      | cons q qs =>
        have hr2 : 0 < r - p := by have := hg.2.1; have := guard_pos; grind
        grind
    · subst h; simp [volNone, total]; grind

/-- The set of uniform streams for which head `i` is chosen, as a box: `u_j ∈ (p_j/r_j, 1)` for `j < i` and
    `u_i ∈ [0, p_i/r_i]` (no condition on later uniforms).  `volChoose` multiplies exactly these interval lengths. -/
def InBox : List Rat → Rat → List Rat → Nat → Prop
  | p :: _, r, u :: _, 0 => u ≤ p / r
  | p :: ps, r, u :: us, i + 1 => ¬ (u ≤ p / r) ∧ InBox ps (r - p) us i
  | _, _, _, _ => False

/-- … and the box for "no head is chosen": `u_j ∈ (p_j/r_j, 1)` for every head. -/
def InNoneBox : List Rat → Rat → List Rat → Prop
  | [], _, _ => True
  | p :: ps, r, u :: us => ¬ (u ≤ p / r) ∧ InNoneBox ps (r - p) us
  | _ :: _, _, [] => False

theorem firstHit_ge (qs : List Rat) : ∀ (r' : Rat) (vs : List Rat) (k j : Nat), firstHit qs r' vs k = some j → k ≤ j := by
  induction qs with
  | nil => intro _ _ _ _ h; simp [firstHit] at h
  | cons q qs ihq =>
    intro r' vs k j h
    cases vs with
    | nil => simp [firstHit] at h
    | cons v vs =>
      simp only [firstHit] at h
      split at h
      · injection h with h; omega
      · have := ihq _ _ _ _ h; omega

theorem firstHit_box (ps : List Rat) (r : Rat) (us : List Rat) (i0 i : Nat) :
    firstHit ps r us i0 = some (i0 + i) ↔ InBox ps r us i := by
  induction ps generalizing r us i0 i with
  | nil => cases us <;> cases i <;> simp [firstHit, InBox]
  | cons p ps ih =>
    cases us with
    | nil => cases i <;> simp [firstHit, InBox]
    | cons u us =>
      by_cases hu : u ≤ p / r
      · cases i with
        | zero => simp [firstHit, InBox, hu]
        | succ i => simp [firstHit, InBox, hu]
      · cases i with
        | zero =>
          simp only [firstHit, InBox, hu, if_false]
          constructor
          · intro h
            have := firstHit_ge _ _ _ _ _ h
            omega
          · intro h; exact absurd h (by simp)
        | succ i =>
          simp only [firstHit, InBox, hu, if_false, not_false_eq_true, true_and]
          have e : i0 + (i + 1) = i0 + 1 + i := by omega
          rw [e]
          exact ih (r - p) us (i0 + 1) i

theorem firstHit_none_box (ps : List Rat) (r : Rat) (us : List Rat) (i0 : Nat) (hlen : ps.length ≤ us.length) :
    firstHit ps r us i0 = none ↔ InNoneBox ps r us := by
  induction ps generalizing r us i0 with
  | nil => simp [firstHit, InNoneBox]
  | cons p ps ih =>
    cases us with
    | nil => simp at hlen
    | cons u us =>
      by_cases hu : u ≤ p / r
      · simp [firstHit, InNoneBox, hu]
      · simp only [firstHit, InNoneBox, hu, if_false, not_false_eq_true, true_and]
        exact ih (r - p) us (i0 + 1) (by simpa using hlen)

end ProbLogProofs.Sample
