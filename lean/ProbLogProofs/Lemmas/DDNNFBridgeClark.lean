/-
Composition with Clark's completion (C09): the models of a circuit equivalent to `clark D` are the total valuations
of the node ids of the acyclic store `D` that are bottom-up consistent and satisfy the AD constraints.
-/
import ProbLogProofs.Lemmas.DDNNFBridgeFinal
import ProbLogProofs.Properties.C09

open Finset

namespace ProbLogProofs.DDNNF
open ProbLogModel.DDNNF ProbLogModel.Formula ProbLogModel.Clark

theorem litTrue_eq_litVal (ρ : Nat → Bool) (l : Int) (h : l ≠ 0) : litTrue ρ l = litVal ρ l := by
  unfold litTrue litVal
  by_cases h1 : l > 0
  · have : ¬ l < 0 := by omega
    simp [h1, this]
  · have : l < 0 := by omega
    simp [h1, this]

theorem clauseTrue_eq_satClause (ρ : Nat → Bool) (κ : List Int) (h : (0 : Int) ∉ κ) :
    clauseTrue ρ κ = satClause ρ κ := by
  unfold clauseTrue satClause
  apply ProbLogProofs.Lemmas.Clark.any_congr_mem
  intro l hl
  exact litTrue_eq_litVal ρ l (fun e => h (e ▸ hl))

theorem all_clauseTrue_eq_satCNF (ρ : Nat → Bool) (N : List (List Int)) (h : ∀ κ ∈ N, (0 : Int) ∉ κ) :
    N.all (fun κ => clauseTrue ρ κ) = satCNF ρ N := by
  unfold satCNF
  apply ProbLogProofs.Lemmas.Clark.all_congr_mem
  intro κ hκ
  exact clauseTrue_eq_satClause ρ κ (h κ hκ)

/-- `T` (a set of node ids of `D`) is a bottom-up consistent total valuation of `D` satisfying the AD constraints:
every node id `i ∈ 1..n` is in `T` iff the acyclic program gives node `i` the value true under `T`'s own atom
values, and the clauses of every AD constraint hold (`C09_clark_constraints`: exactly one of members + extra). -/
def dagConsistent (D : Store) (T : Finset Nat) : Bool :=
  (List.range D.nodes.length).all (fun j =>
    decide ((j + 1) ∈ T) == dagEval D (assign T) (some ((j + 1 : Nat) : Int))) &&
  D.ads.all (fun a => match adClauses a with
    | .ok cls => satCNF (assign T) cls
    | .error _ => false)

theorem dagConsistent_iff (D : Store) (T : Finset Nat) :
    dagConsistent D T = true ↔
      (∀ i : Nat, 1 ≤ i → i ≤ D.nodes.length → assign T i = dagEval D (assign T) (some (i : Int))) ∧
      (∀ a ∈ D.ads, ∃ cls, adClauses a = .ok cls ∧ satCNF (assign T) cls = true) := by
  unfold dagConsistent
  rw [Bool.and_eq_true, List.all_eq_true, List.all_eq_true]
  constructor
  · rintro ⟨h1, h2⟩
    refine ⟨?_, ?_⟩
    · intro i hi1 hi2
      have := h1 (i - 1) (List.mem_range.mpr (by omega))
      rw [show i - 1 + 1 = i by omega] at this
      simpa [assign] using this
    · intro a ha
      have := h2 a ha
      cases hcl : adClauses a with
      | error e => rw [hcl] at this; simp at this
      | ok cls => rw [hcl] at this; exact ⟨cls, rfl, this⟩
  · rintro ⟨h1, h2⟩
    refine ⟨?_, ?_⟩
    · intro j hj
      have := h1 (j + 1) (by omega) (by have := List.mem_range.mp hj; omega)
      simpa [assign] using this
    · intro a ha
      obtain ⟨cls, hcl, hs⟩ := h2 a ha
      rw [hcl]; exact hs

/-- models of a circuit equivalent to the completion of `D` = consistent total valuations of `D` -/
theorem mem_models_iff_dagConsistent (D : Store) (cnf : CNF) (c : Circuit) (hac : acyclic D = true)
    (hcl : clark D = .ok cnf) (h0 : ∀ κ ∈ cnf.clauses, (0 : Int) ∉ κ)
    (hequiv : models c = cnfModels cnf.clauses (rootVarsF c)) (T : Finset Nat) :
    T ∈ models c ↔ T ∈ (rootVarsF c).powerset ∧ dagConsistent D T = true := by
  rw [hequiv]
  unfold cnfModels
  rw [Finset.mem_filter, all_clauseTrue_eq_satCNF _ _ h0,
    ProbLogProofs.C09.C09_clark_models D cnf hac hcl (assign T), dagConsistent_iff]

theorem models_eq_dagModels (D : Store) (cnf : CNF) (c : Circuit) (hac : acyclic D = true)
    (hcl : clark D = .ok cnf) (h0 : ∀ κ ∈ cnf.clauses, (0 : Int) ∉ κ)
    (hequiv : models c = cnfModels cnf.clauses (rootVarsF c)) :
    models c = (rootVarsF c).powerset.filter (fun T => dagConsistent D T = true) := by
  ext T
  rw [mem_models_iff_dagConsistent D cnf c hac hcl h0 hequiv, Finset.mem_filter]

/-- on a consistent valuation, truth of the literal `q` is the acyclic program's value of the key `q` -/
theorem litTrue_eq_dagEval (D : Store) (T : Finset Nat) (q : Int) (hq : q ≠ 0) (hle : q.natAbs ≤ D.nodes.length)
    (hc : dagConsistent D T = true) : litTrue (assign T) q = dagEval D (assign T) (some q) := by
  have h1 := ((dagConsistent_iff D T).mp hc).1 q.natAbs (by omega) hle
  have hpos : dagEval D (assign T) (some ((q.natAbs : Nat) : Int)) =
      (dagVals (assign T) D.nodes).getD (q.natAbs - 1) false := by
    have h0 : q.natAbs ≠ 0 := by omega
    have h2 : ¬ (((q.natAbs : Nat) : Int) < 0) := by omega
    simp [dagEval, childVal, h0, h2]
  rw [hpos] at h1
  unfold litTrue
  by_cases hp : q > 0
  · have h2 : ¬ q < 0 := by omega
    simp only [hp, if_true, dagEval, childVal, hq, if_false, h2]
    exact h1
  · have h2 : q < 0 := by omega
    simp only [hp, if_false, dagEval, childVal, hq, h2, if_true]
    rw [h1]

end ProbLogProofs.DDNNF
