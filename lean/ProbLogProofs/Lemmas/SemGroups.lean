import ProbLogModel.Sem
import ProbLogProofs.Lemmas.SemGamma
import ProbLogProofs.Lemmas.SemWorlds
import Mathlib.Algebra.Ring.Rat
import Mathlib.Algebra.BigOperators.Group.List.Basic
import Mathlib.Tactic.Ring
import Mathlib.Tactic.Abel
/-!
# Sums over `Sem.worlds` as nested sums over the groups; invariance under permutation of the groups
-/
namespace ProbLogProofs.SemGroups
open ProbLogModel.Sem ProbLogProofs.SemGamma ProbLogProofs.SemWorlds

variable {β : Type} [AddCommMonoid β]

/-- sum over all total choices of a function of the weight and of the selected choices -/
def S (gs : List Group) (F : Rat → List Nat → β) : β := ((worlds gs).map (fun w => F w.weight w.chosen)).sum

/-- probability that none of the alternatives of `g` is taken -/
def noneP (g : Group) : Rat := 1 - (g.alts.map (·.1)).foldl (· + ·) 0

theorem S_nil (F : Rat → List Nat → β) : S [] F = F 1 [] := by simp [S, worlds]

theorem S_alts (alts : List (Rat × Nat)) (rest : List World) (F : Rat → List Nat → β) :
    ((alts.flatMap (fun (p, c) => rest.map (fun w => (⟨p * w.weight, c :: w.chosen⟩ : World)))).map
        (fun w => F w.weight w.chosen)).sum
      = (alts.map (fun pc => (rest.map (fun w => F (pc.1 * w.weight) (pc.2 :: w.chosen))).sum)).sum := by
  induction alts with
  | nil => simp
  | cons pc alts ih =>
    simp only [List.flatMap_cons, List.map_append, List.sum_append, ih, List.map_cons, List.sum_cons,
      List.map_map]
    rfl

theorem S_cons (g : Group) (gs : List Group) (F : Rat → List Nat → β) :
    S (g :: gs) F =
      (g.alts.map (fun pc => S gs (fun x ch => F (pc.1 * x) (pc.2 :: ch)))).sum +
        S gs (fun x ch => F (noneP g * x) ch) := by
  unfold S
  rw [worlds_cons, List.map_append, List.sum_append, S_alts, List.map_map]
  rfl

theorem sum_comm {ι κ : Type} (l1 : List ι) (l2 : List κ) (X : ι → κ → β) :
    (l1.map (fun a => (l2.map (fun b => X a b)).sum)).sum = (l2.map (fun b => (l1.map (fun a => X a b)).sum)).sum := by
  induction l2 with
  | nil => simp
  | cons b l2 ih => simp only [List.map_cons, List.sum_cons, List.sum_map_add, ih]

/-- `F` only depends on its list argument up to permutation -/
def PermInv (F : Rat → List Nat → β) : Prop := ∀ x l l', l.Perm l' → F x l = F x l'

omit [AddCommMonoid β] in
theorem PermInv.cons {F : Rat → List Nat → β} (h : PermInv F) (p : Rat) (c : Nat) :
    PermInv (fun x ch => F (p * x) (c :: ch)) := fun x _ _ hl => h (p * x) _ _ (hl.cons c)

omit [AddCommMonoid β] in
theorem PermInv.scale {F : Rat → List Nat → β} (h : PermInv F) (p : Rat) :
    PermInv (fun x ch => F (p * x) ch) := fun x _ _ hl => h (p * x) _ _ hl

theorem S_perm {gs gs' : List Group} (hp : gs.Perm gs') :
    ∀ (F : Rat → List Nat → β), PermInv F → S gs F = S gs' F := by
  induction hp with
  | nil => intro F _; rfl
  | cons g _ ih =>
    intro F hF
    rw [S_cons, S_cons, ih _ (hF.scale _)]
    congr 2
    apply List.map_congr_left
    intro pc _
    exact ih _ (hF.cons _ _)
  | swap g1 g2 l =>
    intro F hF
    simp only [S_cons, List.sum_map_add]
    have hA : (g2.alts.map (fun b => (g1.alts.map (fun a =>
          S l (fun x ch => F (b.1 * (a.1 * x)) (b.2 :: a.2 :: ch)))).sum)).sum =
        (g1.alts.map (fun a => (g2.alts.map (fun b =>
          S l (fun x ch => F (a.1 * (b.1 * x)) (a.2 :: b.2 :: ch)))).sum)).sum := by
      rw [sum_comm]
      apply congrArg
      apply List.map_congr_left; intro a _
      apply congrArg
      apply List.map_congr_left; intro b _
      apply congrArg
      funext x ch
      rw [mul_left_comm]; exact hF _ _ _ (List.Perm.swap _ _ _)
    have hB : (g2.alts.map (fun b => S l (fun x ch => F (b.1 * (noneP g1 * x)) (b.2 :: ch)))).sum =
        (g2.alts.map (fun b => S l (fun x ch => F (noneP g1 * (b.1 * x)) (b.2 :: ch)))).sum := by
      apply congrArg
      apply List.map_congr_left; intro b _
      apply congrArg
      funext x ch; rw [mul_left_comm]
    have hC : (g1.alts.map (fun a => S l (fun x ch => F (noneP g2 * (a.1 * x)) (a.2 :: ch)))).sum =
        (g1.alts.map (fun a => S l (fun x ch => F (a.1 * (noneP g2 * x)) (a.2 :: ch)))).sum := by
      apply congrArg
      apply List.map_congr_left; intro b _
      apply congrArg
      funext x ch; rw [mul_left_comm]
    have hD : S l (fun x ch => F (noneP g2 * (noneP g1 * x)) ch) = S l (fun x ch => F (noneP g1 * (noneP g2 * x)) ch) := by
      apply congrArg
      funext x ch; rw [mul_left_comm]
    rw [hA, hB, hC, hD]
    abel
  | trans _ _ ih1 ih2 => intro F hF; rw [ih1 F hF, ih2 F hF]

/-! ## the bit array of the selected choices only depends on the set of selected choices -/

theorem foldl_set_size (l : List Nat) (a : Array Bool) :
    (l.foldl (fun a c => a.setIfInBounds c true) a).size = a.size := by
  induction l generalizing a with
  | nil => rfl
  | cons c l ih => simp [List.foldl_cons, ih]

theorem getB_foldl_set (l : List Nat) (a : Array Bool) (i : Nat) :
    getB (l.foldl (fun a c => a.setIfInBounds c true) a) i = (getB a i || (decide (i ∈ l) && decide (i < a.size))) := by
  induction l generalizing a with
  | nil => simp
  | cons c l ih =>
    rw [List.foldl_cons, ih, getB_set, Array.size_setIfInBounds]
    by_cases hci : c = i
    · subst hci; cases getB a c <;> simp
    · have : ¬ i = c := fun h => hci h.symm
      simp [hci, this]

end ProbLogProofs.SemGroups
