import ProbLogProofs.Lemmas.Order
/-!
Lemmas for C15: the patched `struct_cmp` computes the standard order on plain terms.
-/
set_option linter.unusedSimpArgs false
set_option linter.unusedVariables false
namespace ProbLogProofs.OrderLemmas
open ProbLogModel ProbLogModel.Order Term

theorem plain_app {f : String} {as : List Term} (h : plain (.app f as) = true) :
    numKey (.app f as) = none ∧ plainList as = true := by
  simpa [plain] using h

theorem unq_nonapp (t : Term) (h : ∀ f as, t ≠ .app f as) : unq t = t := by
  cases t <;> simp [unq, mapFunctor]
  exact absurd rfl (h _ _)

theorem numKey_int (i : Int) : numKey (.int i) = some ((i : Rat), 1) := rfl
theorem numKey_float (q : Rat) : numKey (.float q) = some (q, 0) := rfl
theorem numKey_var (n : Int) : numKey (.var n) = none := rfl
theorem numKey_str (s : String) : numKey (.str s) = none := rfl

mutual
theorem structCmp_eq_stdCore : ∀ a b, plain a = true → plain b = true → structCmp a b = stdCore (unq a) (unq b)
  | .app f as, .app g bs, ha, hb => by
    have ⟨na, pa⟩ := plain_app ha
    have ⟨nb, pb⟩ := plain_app hb
    have hh : cmpHead (.app f as) (.app g bs) = none := by simp [cmpHead, na, nb]
    rw [structCmp, hh]
    simp only [unq_app, stdCore_app, mapFunctorList_length]
    apply then_congr_right; intro hl
    apply then_congr_right; intro _
    exact structCmpArgs_eq_stdCoreArgs as bs pa pb (Nat.compare_eq_eq.mp hl)
  | .var _, b, ha, hb | .int _, b, ha, hb | .float _, b, ha, hb => by
    cases b
    case app g bs =>
      have ⟨nb, pb⟩ := plain_app hb
      simp [structCmp, cmpHead, numKey_int, numKey_float, numKey_var, numKey_str, nb, unq, mapFunctor, stdCore, stdFlat, stdNumKey, rank]
      all_goals rfl
    all_goals simp [structCmp, cmpHead, numKey_int, numKey_float, numKey_var, numKey_str, unq, mapFunctor, stdCore, stdFlat, stdNumKey, rank, cmpNum_eq_stdNum]
    all_goals rfl
  | .str s, b, ha, hb => by
    cases b
    case app g bs =>
      have ⟨nb, pb⟩ := plain_app hb
      simp [structCmp, cmpHead, numKey_int, numKey_float, numKey_var, numKey_str, nb, unq, mapFunctor, stdCore, stdFlat, stdNumKey, rank]
      rfl
    case str t =>
      have hs : stringText s = s := by simpa [plain] using ha
      have ht : stringText t = t := by simpa [plain] using hb
      simp [structCmp, cmpHead, numKey_str, unq, mapFunctor, stdCore, stdFlat, hs, ht]
    all_goals simp [structCmp, cmpHead, numKey_int, numKey_float, numKey_var, numKey_str, unq, mapFunctor, stdCore, stdFlat, stdNumKey, rank]
    all_goals rfl
  | .app f as, .var _, ha, hb | .app f as, .int _, ha, hb | .app f as, .float _, ha, hb | .app f as, .str _, ha, hb => by
    have ⟨na, pa⟩ := plain_app ha
    simp [structCmp, cmpHead, numKey_int, numKey_float, numKey_var, numKey_str, na, unq, mapFunctor, stdCore, stdFlat, stdNumKey, rank]
    all_goals rfl
theorem structCmpArgs_eq_stdCoreArgs : ∀ as bs, plainList as = true → plainList bs = true → as.length = bs.length →
    structCmpArgs as bs = stdCoreArgs (mapFunctorList unquoteName as) (mapFunctorList unquoteName bs)
  | [], [], _, _, _ => by simp [structCmpArgs, stdCoreArgs, mapFunctorList]
  | [], _ :: _, _, _, h => by simp at h
  | _ :: _, [], _, _, h => by simp at h
  | a :: as, b :: bs, ha, hb, h => by
    simp only [plainList, Bool.and_eq_true] at ha hb
    simp only [structCmpArgs, mapFunctorList, stdCoreArgs]
    rw [structCmp_eq_stdCore a b ha.1 hb.1, structCmpArgs_eq_stdCoreArgs as bs ha.2 hb.2 (by simpa using h)]
    rfl
end

end ProbLogProofs.OrderLemmas
