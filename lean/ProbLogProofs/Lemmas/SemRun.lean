import ProbLogModel.Sem
import ProbLogProofs.Lemmas.SemGamma
import ProbLogProofs.Lemmas.SemRules
import Mathlib.Algebra.Ring.Rat
import Mathlib.Tactic.Ring
/-!
# `Sem.run` as explicit sums over the total choices
-/
namespace ProbLogProofs.SemRun
open ProbLogModel.Sem ProbLogProofs.SemGamma ProbLogProofs.SemRules

/-- the selected choices as a bit array (as in `run`) -/
def chosenArr (n : Nat) (chosen : List Nat) : Array Bool :=
  chosen.foldl (fun a c => a.setIfInBounds c true) (Array.replicate n false)

/-- the well-founded model `(T, U)` of the program restricted to `roots` when exactly the choices `ch` are selected -/
def model (P : Prog) (roots : List Nat) (ch : List Nat) : Array Bool × Array Bool :=
  wfm (restrict P roots).rules (chosenArr P.nchoices ch) P.natoms

/-- some relevant atom is undefined (`T ≠ U`) -/
def undefIn (P : Prog) (roots : List Nat) (ch : List Nat) : Bool :=
  (List.range P.natoms).any (fun a =>
    getB (relevantAtoms P.rules P.natoms roots) a && getB (model P roots ch).1 a != getB (model P roots ch).2 a)

/-- the evidence holds in `T` -/
def evHolds (P : Prog) (roots : List Nat) (evidence : List (Nat × Bool)) (ch : List Nat) : Bool :=
  evidence.all (fun (a, v) => getB (model P roots ch).1 a == v)

/-- the world is counted in `z`: non-zero weight, two-valued on the relevant atoms, evidence holds -/
def contributes (P : Prog) (roots : List Nat) (evidence : List (Nat × Bool)) (w : World) : Bool :=
  !(w.weight == 0) && !undefIn P roots w.chosen && evHolds P roots evidence w.chosen

def stepW (P : Prog) (queries : List Nat) (evidence : List (Nat × Bool)) (roots : List Nat)
    (acc : Result) (w : World) : Result :=
  if w.weight == (0 : Rat) then { acc with nworlds := acc.nworlds + 1 } else
  if undefIn P roots w.chosen then { acc with undefWorlds := acc.undefWorlds + 1, nworlds := acc.nworlds + 1 }
  else if evHolds P roots evidence w.chosen then
    { acc with z := acc.z + w.weight,
               num := List.zipWith (fun n q => if getB (model P roots w.chosen).1 q then n + w.weight else n)
                        acc.num queries,
               nworlds := acc.nworlds + 1 }
  else { acc with nworlds := acc.nworlds + 1 }

theorem run_eq_fold (P : Prog) (queries : List Nat) (evidence : List (Nat × Bool)) :
    run P queries evidence =
      (worlds (restrict P (queries ++ evidence.map (·.1))).groups).foldl
        (stepW P queries evidence (queries ++ evidence.map (·.1))) ⟨0, queries.map (fun _ => 0), 0, 0⟩ := rfl

theorem zipWith_map_self {α β : Type} (f : β → α → β) (g : α → β) (qs : List α) :
    List.zipWith f (qs.map g) qs = qs.map (fun q => f (g q) q) := by
  induction qs with
  | nil => rfl
  | cons q qs ih => simp [ih]

/-- contribution of a world to `z` -/
def zTerm (P : Prog) (roots : List Nat) (evidence : List (Nat × Bool)) (w : World) : Rat :=
  if contributes P roots evidence w then w.weight else 0

/-- contribution of a world to the numerator of query `q` -/
def numTerm (P : Prog) (roots : List Nat) (evidence : List (Nat × Bool)) (q : Nat) (w : World) : Rat :=
  if contributes P roots evidence w && getB (model P roots w.chosen).1 q then w.weight else 0

def undefTerm (P : Prog) (roots : List Nat) (w : World) : Nat :=
  if !(w.weight == 0) && undefIn P roots w.chosen then 1 else 0

theorem fold_eq (P : Prog) (queries : List Nat) (evidence : List (Nat × Bool)) (roots : List Nat)
    (ws : List World) (z0 : Rat) (g : Nat → Rat) (u0 k0 : Nat) :
    ws.foldl (stepW P queries evidence roots) ⟨z0, queries.map g, u0, k0⟩ =
      ⟨z0 + (ws.map (zTerm P roots evidence)).sum,
       queries.map (fun q => g q + (ws.map (numTerm P roots evidence q)).sum),
       u0 + (ws.map (undefTerm P roots)).sum, k0 + ws.length⟩ := by
  induction ws generalizing z0 g u0 k0 with
  | nil => simp
  | cons w ws ih =>
    rw [List.foldl_cons]
    by_cases h0 : (w.weight == (0 : Rat)) = true
    · have : stepW P queries evidence roots ⟨z0, queries.map g, u0, k0⟩ w = ⟨z0, queries.map g, u0, k0 + 1⟩ := by
        simp [stepW, h0]
      rw [this, ih]
      simp [zTerm, numTerm, undefTerm, contributes, h0]
      omega
    · by_cases hu : undefIn P roots w.chosen = true
      · have : stepW P queries evidence roots ⟨z0, queries.map g, u0, k0⟩ w =
            ⟨z0, queries.map g, u0 + 1, k0 + 1⟩ := by
          simp [stepW, h0, hu]
        rw [this, ih]
        simp [zTerm, numTerm, undefTerm, contributes, h0, hu]
        omega
      · by_cases he : evHolds P roots evidence w.chosen = true
        · have : stepW P queries evidence roots ⟨z0, queries.map g, u0, k0⟩ w =
              ⟨z0 + w.weight,
               queries.map (fun q => if getB (model P roots w.chosen).1 q then g q + w.weight else g q),
               u0, k0 + 1⟩ := by
            simp only [stepW, h0, hu, he, if_true, zipWith_map_self]
            simp
          rw [this, ih]
          simp only [List.map_cons, List.sum_cons, List.length_cons, zTerm, numTerm, undefTerm, contributes,
            h0, hu, he, Bool.not_false, Bool.and_true, Bool.true_and, if_true, Bool.and_false]
          refine congr (congr (congr (congrArg Result.mk (by ring)) ?_) (by simp)) (by omega)
          apply List.map_congr_left
          intro q _
          by_cases hq : getB (model P roots w.chosen).1 q = true
          · simp only [hq, if_true]; ring
          · simp only [hq]; simp
        · have : stepW P queries evidence roots ⟨z0, queries.map g, u0, k0⟩ w =
              ⟨z0, queries.map g, u0, k0 + 1⟩ := by
            simp [stepW, h0, hu, he]
          rw [this, ih]
          simp [zTerm, numTerm, undefTerm, contributes, h0, hu, he]
          omega

/-- probability of the evidence, given the root set -/
def zOf (P : Prog) (roots : List Nat) (evidence : List (Nat × Bool)) : Rat :=
  ((worlds (restrict P roots).groups).map (zTerm P roots evidence)).sum

/-- numerator of query `q`, given the root set -/
def numOf (P : Prog) (roots : List Nat) (evidence : List (Nat × Bool)) (q : Nat) : Rat :=
  ((worlds (restrict P roots).groups).map (numTerm P roots evidence q)).sum

def undefOf (P : Prog) (roots : List Nat) : Nat :=
  ((worlds (restrict P roots).groups).map (undefTerm P roots)).sum

/-- `run` as explicit sums over the total choices of the restricted program. -/
theorem run_eq_sums (P : Prog) (queries : List Nat) (evidence : List (Nat × Bool)) :
    run P queries evidence =
      ⟨zOf P (queries ++ evidence.map (·.1)) evidence,
       queries.map (numOf P (queries ++ evidence.map (·.1)) evidence),
       undefOf P (queries ++ evidence.map (·.1)),
       (worlds (restrict P (queries ++ evidence.map (·.1))).groups).length⟩ := by
  rw [run_eq_fold, fold_eq P queries evidence _ _ 0 (fun _ => 0) 0 0]
  simp [zOf, numOf, undefOf]

theorem roots_congr (P : Prog) {roots roots' : List Nat} (h : ∀ a, a ∈ roots ↔ a ∈ roots')
    (evidence : List (Nat × Bool)) :
    zOf P roots evidence = zOf P roots' evidence ∧ numOf P roots evidence = numOf P roots' evidence ∧
    undefOf P roots = undefOf P roots' ∧ restrict P roots = restrict P roots' := by
  have h1 := relevantAtoms_roots_congr P.rules P.natoms h
  have h2 : restrict P roots = restrict P roots' := by unfold restrict; simp only [h1]
  refine ⟨?_, ?_, ?_, h2⟩
  · unfold zOf zTerm contributes undefIn evHolds model; simp only [h1, h2]
  · funext q; unfold numOf numTerm contributes undefIn evHolds model; simp only [h1, h2]
  · unfold undefOf undefTerm undefIn model; simp only [h1, h2]

theorem zip_map_self {α β : Type} (f : α → β) (l : List α) : l.zip (l.map f) = l.map (fun a => (a, f a)) := by
  induction l with
  | nil => rfl
  | cons a l ih => simp [ih]

theorem evHolds_perm_evidence (P : Prog) (roots : List Nat) {ev ev' : List (Nat × Bool)} (h : ev.Perm ev')
    (l : List Nat) : evHolds P roots ev l = evHolds P roots ev' l := by
  unfold evHolds; exact h.all_eq

/-- the order of the evidence list is irrelevant -/
theorem run_perm_evidence (P : Prog) (queries : List Nat) {ev ev' : List (Nat × Bool)} (h : ev.Perm ev') :
    run P queries ev' = run P queries ev := by
  have hroots : ∀ a, a ∈ queries ++ ev'.map (·.1) ↔ a ∈ queries ++ ev.map (·.1) := by
    intro a
    simp only [List.mem_append, (h.map (·.1)).mem_iff]
  obtain ⟨h1, h2, h3, h4⟩ := roots_congr P hroots ev'
  have e := funext (evHolds_perm_evidence P (queries ++ ev.map (·.1)) h)
  rw [run_eq_sums, run_eq_sums, h1, h2, h3, h4]
  unfold zOf numOf zTerm numTerm contributes
  simp only [e]

end ProbLogProofs.SemRun
