import ProbLogModel.Formula
import ProbLogProofs.Lemmas.FormulaBasic
import ProbLogProofs.Lemmas.FormulaOps
/-!
# Ground acyclic programs: which builder operations touch the name table (core Lean only)

`NEq S S'`: the stores have the same name entries under every label other than `named`.  `add_atom` only writes
`named` entries, `_add_compound` without a `name` argument writes none; only `engine.ground` (`add_name(term, key,
label)`) writes query / evidence entries.
-/
namespace ProbLogProofs.GroundNames
open ProbLogModel ProbLogModel.Formula

def NEq (S S' : Store) : Prop :=
  ∀ l n k, l ≠ Label.named → ((l, n, k) ∈ S'.names ↔ (l, n, k) ∈ S.names)

theorem NEq.refl (S : Store) : NEq S S := fun _ _ _ _ => Iff.rfl

theorem NEq.trans {a b c : Store} (h1 : NEq a b) (h2 : NEq b c) : NEq a c :=
  fun l n k hl => (h2 l n k hl).trans (h1 l n k hl)

theorem NEq.of_names_eq {S S' : Store} (h : S'.names = S.names) : NEq S S' := fun _ _ _ _ => by rw [h]

/-! ### `setNames` -/

theorem mem_setNames_self (ns : List (Label × Name × Key)) (l : Label) (n : Name) (k : Key) :
    (l, n, k) ∈ setNames ns l n k := by
  induction ns with
  | nil => simp [setNames]
  | cons x r ih =>
    obtain ⟨l', n', k'⟩ := x
    unfold setNames
    split
    · rename_i h
      simp only [Bool.and_eq_true, beq_iff_eq] at h
      rw [h.1, h.2]; exact List.mem_cons_self
    · exact List.mem_cons_of_mem _ ih

/-- an entry of the new table is an old entry or the entry just written -/
theorem mem_setNames_cases (ns : List (Label × Name × Key)) (l : Label) (n : Name) (k : Key)
    (e : Label × Name × Key) (h : e ∈ setNames ns l n k) : e ∈ ns ∨ e = (l, n, k) := by
  induction ns with
  | nil =>
    simp only [setNames, List.mem_singleton] at h
    exact Or.inr h
  | cons x r ih =>
    obtain ⟨l', n', k'⟩ := x
    unfold setNames at h
    split at h
    · rename_i hc
      simp only [Bool.and_eq_true, beq_iff_eq] at hc
      rcases List.mem_cons.1 h with h | h
      · right; rw [h, hc.1, hc.2]
      · left; exact List.mem_cons_of_mem _ h
    · rcases List.mem_cons.1 h with h | h
      · left; rw [h]; exact List.mem_cons_self
      · rcases ih h with h | h
        · left; exact List.mem_cons_of_mem _ h
        · right; exact h

/-- an entry for another (label, name) pair stays -/
theorem mem_setNames_other (ns : List (Label × Name × Key)) (l : Label) (n : Name) (k : Key)
    (l0 : Label) (n0 : Name) (k0 : Key) (hne : ¬ (l0 = l ∧ n0 = n)) (h : (l0, n0, k0) ∈ ns) :
    (l0, n0, k0) ∈ setNames ns l n k := by
  induction ns with
  | nil => cases h
  | cons x r ih =>
    obtain ⟨l', n', k'⟩ := x
    unfold setNames
    split
    · rename_i hc
      simp only [Bool.and_eq_true, beq_iff_eq] at hc
      rcases List.mem_cons.1 h with h | h
      · exfalso
        simp only [Prod.mk.injEq] at h
        exact hne ⟨h.1.trans hc.1, h.2.1.trans hc.2⟩
      · exact List.mem_cons_of_mem _ h
    · rcases List.mem_cons.1 h with h | h
      · rw [h]; exact List.mem_cons_self
      · exact List.mem_cons_of_mem _ (ih h)

/-- every (label, name) pair that had an entry still has one -/
theorem setNames_keeps (ns : List (Label × Name × Key)) (l : Label) (n : Name) (k : Key)
    (l0 : Label) (n0 : Name) (k0 : Key) (h : (l0, n0, k0) ∈ ns) : ∃ k1, (l0, n0, k1) ∈ setNames ns l n k := by
  by_cases hc : l0 = l ∧ n0 = n
  · exact ⟨k, by rw [hc.1, hc.2]; exact mem_setNames_self ns l n k⟩
  · exact ⟨k0, mem_setNames_other ns l n k l0 n0 k0 hc h⟩

theorem addName_names (S : Store) (n : Name) (k : Key) (l : Label) (keep : Bool) :
    (S.addName n k l keep).names = setNames S.names l n k := by
  unfold Store.addName
  simp only
  split
  · split
    · split <;> rfl
    · rfl
  · rfl

/-- writing a `named` entry leaves the other labels alone -/
theorem addName_named_neq (S : Store) (n : Name) (k : Key) (keep : Bool) :
    NEq S (S.addName n k .named keep) := by
  intro l0 n0 k0 hl
  rw [addName_names]
  constructor
  · intro h
    rcases mem_setNames_cases _ _ _ _ _ h with h | h
    · exact h
    · simp only [Prod.mk.injEq] at h; exact absurd h.1 hl
  · exact mem_setNames_other _ _ _ _ _ _ _ (fun hc => hl hc.1)

/-! ### `_add_compound` without a name -/

theorem addConjNode_names (S : Store) (cs : List Key) (nm : Option Name) (reuse : Bool) :
    (S.addConjNode cs nm reuse).1.names = S.names := by
  unfold Store.addConjNode
  split
  · split <;> rfl
  · rfl

theorem addDisjNode_names (S : Store) (cs : List Key) (nm : Option Name) (reuse : Bool) :
    (S.addDisjNode cs nm reuse).1.names = S.names := by
  unfold Store.addDisjNode
  split
  · split <;> rfl
  · rfl

theorem finishC_names {kind : Kind} {readonly : Bool} {name : Option Name} {S : Store} {content : List Key}
    {clash : Bool} {S' : Store} {k : Key} (h : finishC kind readonly name S content clash = .ok (S', k)) :
    S'.names = S.names := by
  unfold finishC at h
  cases kind with
  | conj =>
    simp only [Except.ok.injEq, Prod.mk.injEq] at h
    rw [← h.1]; exact addConjNode_names _ _ _ _
  | disj =>
    simp only at h
    split at h
    · simp only [Except.ok.injEq, Prod.mk.injEq] at h
      rw [← h.1]; exact addDisjNode_names _ _ _ _
    · simp only [Except.ok.injEq, Prod.mk.injEq] at h
      rw [← h.1]; exact addDisjNode_names _ _ _ _

theorem singleChild_none (S : Store) (c : Key) : singleChild S c none = (some (S, c), false) := by
  unfold singleChild
  simp only
  split
  · simp
  · rfl

theorem addCompound_names_none {S S' : Store} {kind : Kind} {content : List Key} {readonly placeholder : Bool}
    {compact : Option Bool} {k : Key}
    (h : addCompound S kind content readonly none placeholder compact = .ok (S', k)) : S'.names = S.names := by
  rw [addCompound_eq] at h
  simp only [singleChild_none] at h
  repeat' split at h
  all_goals first
    | (cases h; rfl)
    | exact finishC_names h
    | (simp only [Except.ok.injEq, Prod.mk.injEq] at h; rw [← h.1])
    | cases h

/-! ### `add_atom` -/

theorem addAtomNode_names (S : Store) (ident : Ident) (nd : Node) : (S.addAtomNode ident nd).1.names = S.names := by
  unfold Store.addAtomNode
  split <;> rfl

theorem addExtra_neq (S : Store) (g : Nat) : NEq S (S.addExtra g).1 := by
  unfold Store.addExtra
  simp only
  generalize hr : S.addAtomNode (Ident.extra g) (Node.atom (Ident.extra g) (some g) true (some (Name.extra g))) = r
  obtain ⟨S1, i⟩ := r
  have h1 : S1.names = S.names := by
    have := addAtomNode_names S (Ident.extra g) (Node.atom (Ident.extra g) (some g) true (some (Name.extra g)))
    rw [hr] at this; exact this
  simp only
  have h3 : NEq S (Store.addName { S1 with weights := assocSet S1.weights i Weight.neutral } (Name.extra g)
      (some (i : Int)) Label.named) :=
    (NEq.of_names_eq (S' := { S1 with weights := assocSet S1.weights i Weight.neutral }) h1).trans
      (addName_named_neq _ _ _ _)
  split
  · exact h3.trans (NEq.of_names_eq rfl)
  · exact h3

theorem constraintAdd_neq (S : Store) (g node : Nat) (isExtra crExtra : Bool) :
    NEq S (S.constraintAdd g node isExtra crExtra) := by
  unfold Store.constraintAdd
  simp only
  repeat' split
  all_goals first
    | exact NEq.of_names_eq rfl
    | exact fun l n k hl => addExtra_neq _ g l n k hl

theorem addAtom_main_neq (S : Store) (ident : Ident) (w : Weight) (group : Option Nat)
    (name : Option Name) (crExtra isExtra : Bool) :
    NEq S
      (let nd := Node.atom ident group isExtra name
       let lenBefore := S.nodes.length
       let (S1, i) := S.addAtomNode ident nd
       let S2 := { S1 with weights := assocSet S1.weights i w }
       let S3 := match name with
         | some n => S2.addName n (some (i : Int)) .named
         | none => S2
       if S3.nodes.length != lenBefore then
         let S4 := { S3 with atomcount := S3.atomcount + 1 }
         match group with
         | none => (S4, some (i : Int))
         | some g => (S4.constraintAdd g i isExtra crExtra, some (i : Int))
       else (S3, some (i : Int)) : Store × Key).1 := by
  simp only
  generalize hr : S.addAtomNode ident (Node.atom ident group isExtra name) = r
  obtain ⟨S1, i⟩ := r
  have h1 : S1.names = S.names := by
    have := addAtomNode_names S ident (Node.atom ident group isExtra name)
    rw [hr] at this; exact this
  simp only
  generalize hS3 : (match name with
       | some n => Store.addName { S1 with weights := assocSet S1.weights i w } n (some (i : Int)) Label.named
       | none => { S1 with weights := assocSet S1.weights i w }) = S3
  have h3 : NEq S S3 := by
    subst hS3
    cases name with
    | none => exact NEq.of_names_eq h1
    | some n =>
      exact (NEq.of_names_eq (S' := { S1 with weights := assocSet S1.weights i w }) h1).trans
        (addName_named_neq _ _ _ _)
  split
  · cases group with
    | none => exact h3.trans (NEq.of_names_eq rfl)
    | some g => exact (h3.trans (NEq.of_names_eq rfl)).trans (constraintAdd_neq _ _ _ _ _)
  · exact h3

theorem addAtom_neq (S : Store) (ident : Ident) (pc : PClass) (w : Weight) (group : Option Nat)
    (name : Option Name) (crExtra isExtra : Bool) :
    NEq S (S.addAtom ident pc w group name crExtra isExtra).1 := by
  unfold Store.addAtom
  split
  · exact NEq.refl _
  · exact NEq.refl _
  · exact NEq.refl _
  · exact NEq.refl _
  · exact addAtom_main_neq S ident w group name crExtra isExtra

end ProbLogProofs.GroundNames
