/-
The n-ary conj / disj nodes of `FormulaEvaluatorNSP.compute_weight` as folds of the binary steps, and the induction
over the formula.
-/
import ProbLogProofs.Lemmas.MPESteps

namespace ProbLogProofs.MPE
open ProbLogModel.MPE

variable {W : Weights}

/-! ### the list functions of the model as maps -/

theorem evalL_eq_map (pl : Val → Val → Val) (W : Weights) (cs : List NNF) :
    evalL pl W cs = cs.map (fun c => c.eval pl W) := by
  induction cs with
  | nil => simp [evalL]
  | cons c cs ih => simp [evalL, ih]

theorem varsL_eq_map (cs : List NNF) : varsL cs = cs.map NNF.vars := by
  induction cs with
  | nil => simp [varsL]
  | cons c cs ih => simp [varsL, ih]

theorem satAll_eq_all (m : Nat → Bool) (cs : List NNF) : satAll m cs = cs.all (fun c => c.sat m) := by
  induction cs with
  | nil => simp [satAll]
  | cons c cs ih => simp [satAll, ih]

theorem satAny_eq_any (m : Nat → Bool) (cs : List NNF) : satAny m cs = cs.any (fun c => c.sat m) := by
  induction cs with
  | nil => simp [satAny]
  | cons c cs ih => simp [satAny, ih]

theorem decL_eq_all (cs : List NNF) : decL cs = cs.all NNF.dec := by
  induction cs with
  | nil => simp [decL]
  | cons c cs ih => simp [decL, ih]

/-- induction principle for the nested inductive `NNF` -/
theorem NNF.induct' {P : NNF → Prop} (htt : P .tt) (hff : P .ff) (hlit : ∀ l, P (.lit l))
    (hand : ∀ cs, (∀ c ∈ cs, P c) → P (.and cs)) (hor : ∀ cs, (∀ c ∈ cs, P c) → P (.or cs)) : ∀ φ, P φ := by
  intro φ
  induction φ using NNF.rec (motive_2 := fun cs => ∀ c ∈ cs, P c) with
  | tt => exact htt
  | ff => exact hff
  | lit l => exact hlit l
  | and cs ih => exact hand cs ih
  | or cs ih => exact hor cs ih
  | nil => rename_i c hc; cases hc
  | cons c cs ihc ihcs =>
    rename_i c' hc'
    rcases List.mem_cons.mp hc' with h | h
    · exact h ▸ ihc
    · exact ihcs c' h

/-! ### disjointness -/

theorem disjointU_iff (a b : List Nat) : disjointU a b = true ↔ ∀ x ∈ a, x ∉ b := by
  unfold disjointU; simp

theorem pairDisjL_cons (u : List Nat) (us : List (List Nat)) :
    pairDisjL (u :: us) = true ↔ (∀ u' ∈ us, ∀ x ∈ u, x ∉ u') ∧ pairDisjL us = true := by
  simp [pairDisjL, disjointU_iff]

/-! ### conj -/

def andStep (acc r : Res) : Res := ⟨times acc.val r.val, unionU acc.used r.used⟩

theorem and_fold (hW : NonNeg W) (f : NNF → Res) (s : NNF → (Nat → Bool) → Bool) :
    ∀ (cs : List NNF) (acc : Res) (sacc : (Nat → Bool) → Bool),
      (∀ c ∈ cs, Spec W (s c) (f c)) → Spec W sacc acc →
      (∀ c ∈ cs, ∀ x ∈ acc.used, x ∉ (f c).used) →
      pairDisjL (cs.map (fun c => (f c).used)) = true →
      Spec W (fun m => sacc m && cs.all (fun c => s c m)) (cs.foldl (fun a c => andStep a (f c)) acc) := by
  intro cs
  induction cs with
  | nil =>
    intro acc sacc _ hacc _ _
    simpa using hacc
  | cons c cs ih =>
    intro acc sacc hc hacc hd hp
    simp only [List.map_cons, pairDisjL_cons] at hp
    have hstep := spec_and_step hW hacc (hc c (List.mem_cons_self)) (hd c (List.mem_cons_self))
    have := ih (andStep acc (f c)) (fun m => sacc m && s c m)
      (fun c' hc' => hc c' (List.mem_cons_of_mem _ hc')) hstep
      (by
        intro c' hc' x hx
        rcases (mem_unionU _ _ _).mp hx with hx | hx
        · exact hd c' (List.mem_cons_of_mem _ hc') x hx
        · exact hp.1 _ (List.mem_map.mpr ⟨c', hc', rfl⟩) x hx)
      hp.2
    simp only [List.foldl_cons, List.all_cons]
    have e : (fun m => (sacc m && s c m) && cs.all (fun c => s c m)) =
        (fun m => sacc m && (s c m && cs.all (fun c => s c m))) := by
      funext m; simp [Bool.and_assoc]
    rw [← e]; exact this

theorem andRes_eq (f : NNF → Res) (cs : List NNF) :
    andRes (cs.map f) = cs.foldl (fun a c => andStep a (f c)) ⟨one, []⟩ := by
  unfold andRes
  rw [List.foldl_map]
  rfl

theorem and_used_fold (f : NNF → Res) : ∀ (cs : List NNF) (acc : Res),
    (cs.foldl (fun a c => andStep a (f c)) acc).used = (cs.map (fun c => (f c).used)).foldl unionU acc.used := by
  intro cs
  induction cs with
  | nil => intro acc; rfl
  | cons c cs ih => intro acc; simp only [List.foldl_cons, List.map_cons]; rw [ih]; rfl

/-! ### disj -/

theorem or_fold (hW : NonNeg W) (f : NNF → Res) (s : NNF → (Nat → Bool) → Bool) (U : List Nat) (hU : U.Nodup) :
    ∀ (cs : List NNF) (p : Val) (sacc : (Nat → Bool) → Bool),
      (∀ c ∈ cs, Spec W (s c) (f c)) → (∀ c ∈ cs, ∀ x ∈ (f c).used, x ∈ U) → Spec W sacc ⟨p, U⟩ →
      Spec W (fun m => sacc m || cs.any (fun c => s c m))
        ⟨cs.foldl (fun p c => plus p (smooth plus W (f c).val (notUsed U (f c).used))) p, U⟩ := by
  intro cs
  induction cs with
  | nil =>
    intro p sacc _ _ hacc
    simpa using hacc
  | cons c cs ih =>
    intro p sacc hc hsub hacc
    have hsm : Spec W (s c) ⟨smooth plus W (f c).val (notUsed U (f c).used), U⟩ :=
      spec_smooth hW (hc c (List.mem_cons_self)) _ U (nodup_notUsed _ _ hU)
        (fun v hv => ((mem_notUsed _ _ _).mp hv).2) hU
        (fun v => by
          rw [mem_notUsed]
          constructor
          · intro hv
            by_cases h : v ∈ (f c).used
            · exact Or.inl h
            · exact Or.inr ⟨hv, h⟩
          · rintro (h | h)
            · exact hsub c (List.mem_cons_self) v h
            · exact h.1)
    have hstep := spec_plus_step hacc hsm
    have := ih _ (fun m => sacc m || s c m) (fun c' hc' => hc c' (List.mem_cons_of_mem _ hc'))
      (fun c' hc' => hsub c' (List.mem_cons_of_mem _ hc')) hstep
    simp only [List.foldl_cons, List.any_cons]
    have e : (fun m => (sacc m || s c m) || cs.any (fun c => s c m)) =
        (fun m => sacc m || (s c m || cs.any (fun c => s c m))) := by
      funext m; simp [Bool.or_assoc]
    rw [← e]; exact this

theorem orRes_eq (f : NNF → Res) (cs : List NNF) :
    orRes plus W (cs.map f) =
      ⟨cs.foldl (fun p c => plus p (smooth plus W (f c).val (notUsed (unionAll (cs.map (fun c => (f c).used))) (f c).used))) zero,
       unionAll (cs.map (fun c => (f c).used))⟩ := by
  unfold orRes allUsed
  simp only [List.map_map, List.foldl_map]
  rfl

end ProbLogProofs.MPE
