import ProbLogModel.Sem
import ProbLogProofs.Lemmas.SemGroups
import Mathlib.Algebra.Ring.Rat
import Mathlib.Algebra.BigOperators.Ring.List
import Mathlib.Tactic.Ring
/-!
# Marginalisation: groups none of whose alternatives matter can be dropped from a weighted sum over `Sem.worlds`
-/
namespace ProbLogProofs.SemMarginal
open ProbLogModel.Sem ProbLogProofs.SemWorlds ProbLogProofs.SemGroups

/-- expectation of `I` (a function of the selected choices) over the total choices of `gs` -/
def E (gs : List Group) (I : List Nat → Rat) : Rat := S gs (fun x ch => x * I ch)

theorem S_mul_left (gs : List Group) (p : Rat) (F : Rat → List Nat → Rat) :
    S gs (fun x ch => p * F x ch) = p * S gs F := by
  unfold S
  rw [← List.sum_map_mul_left]

theorem E_cons (g : Group) (gs : List Group) (I : List Nat → Rat) :
    E (g :: gs) I = (g.alts.map (fun pc => pc.1 * E gs (fun ch => I (pc.2 :: ch)))).sum + noneP g * E gs I := by
  unfold E
  rw [S_cons]
  congr 1
  · apply congrArg
    apply List.map_congr_left
    intro pc _
    rw [← S_mul_left]
    apply congrArg
    funext x ch
    ring
  · rw [← S_mul_left]
    apply congrArg
    funext x ch
    ring

theorem S_eq_E (gs : List Group) (F : Rat → List Nat → Rat) (I : List Nat → Rat)
    (h : ∀ w ∈ worlds gs, F w.weight w.chosen = w.weight * I w.chosen) : S gs F = E gs I := by
  unfold E S
  apply congrArg
  exact List.map_congr_left h

/-- `I` only depends on which of the choices satisfying `U` are selected -/
def DependsOn (U : Nat → Bool) (I : List Nat → Rat) : Prop :=
  ∀ l l', (∀ c, U c = true → (c ∈ l ↔ c ∈ l')) → I l = I l'

theorem DependsOn.cons {U : Nat → Bool} {I : List Nat → Rat} (h : DependsOn U I) (c : Nat) :
    DependsOn U (fun ch => I (c :: ch)) := by
  intro l l' hl
  apply h
  intro d hd
  simp only [List.mem_cons, hl d hd]

theorem DependsOn.drop {U : Nat → Bool} {I : List Nat → Rat} (h : DependsOn U I) {c : Nat} (hc : U c = false) :
    (fun ch => I (c :: ch)) = I := by
  funext l
  apply h
  intro d hd
  have : d ≠ c := by intro e; rw [e, hc] at hd; cases hd
  simp [this]

theorem alts_total (g : Group) : (g.alts.map (·.1)).sum + noneP g = 1 := by
  unfold noneP
  rw [foldl_add_eq]
  ring

theorem marginal (U : Nat → Bool) (p1 p2 : Group → Bool) (h12 : ∀ g, p1 g = true → p2 g = true) :
    ∀ (G : List Group) (I : List Nat → Rat), DependsOn U I →
      (∀ g ∈ G, p1 g = false → ∀ pc ∈ g.alts, U pc.2 = false) →
      E (G.filter p2) I = E (G.filter p1) I := by
  intro G
  induction G with
  | nil => intro I _ _; rfl
  | cons g G ih =>
    intro I hI hU
    have hU' : ∀ g' ∈ G, p1 g' = false → ∀ pc ∈ g'.alts, U pc.2 = false :=
      fun g' hg' => hU g' (List.mem_cons_of_mem _ hg')
    cases h1 : p1 g
    · cases h2 : p2 g
      · simp only [List.filter_cons, h1, h2, Bool.false_eq_true, if_false]
        exact ih I hI hU'
      · simp only [List.filter_cons, h1, h2, Bool.false_eq_true, if_false, if_true]
        rw [E_cons]
        have hdrop : ∀ pc ∈ g.alts, pc.1 * E (G.filter p2) (fun ch => I (pc.2 :: ch)) =
            pc.1 * E (G.filter p2) I := by
          intro pc hpc
          rw [hI.drop (hU g List.mem_cons_self h1 pc hpc)]
        rw [List.map_congr_left hdrop, List.sum_map_mul_right, ← ih I hI hU']
        have := alts_total g
        calc (g.alts.map (fun pc => pc.1)).sum * E (G.filter p2) I + noneP g * E (G.filter p2) I
            = ((g.alts.map (·.1)).sum + noneP g) * E (G.filter p2) I := by ring
          _ = E (G.filter p2) I := by rw [this]; ring
    · have h2 := h12 g h1
      simp only [List.filter_cons, h1, h2, if_true]
      rw [E_cons, E_cons, ih I hI hU']
      congr 2
      apply List.map_congr_left
      intro pc _
      rw [ih _ (hI.cons pc.2) hU']

theorem mem_worlds_cons {g : Group} {gs : List Group} {w : World} :
    w ∈ worlds (g :: gs) ↔
      (∃ pc ∈ g.alts, ∃ w' ∈ worlds gs, w = ⟨pc.1 * w'.weight, pc.2 :: w'.chosen⟩) ∨
      (∃ w' ∈ worlds gs, w = ⟨noneP g * w'.weight, w'.chosen⟩) := by
  rw [worlds_cons, List.mem_append, List.mem_flatMap, List.mem_map]
  constructor
  · rintro (⟨pc, hpc, hw⟩ | ⟨w', hw', rfl⟩)
    · obtain ⟨w', hw', rfl⟩ := List.mem_map.1 hw
      exact Or.inl ⟨pc, hpc, w', hw', rfl⟩
    · exact Or.inr ⟨w', hw', rfl⟩
  · rintro (⟨pc, hpc, w', hw', rfl⟩ | ⟨w', hw', rfl⟩)
    · exact Or.inl ⟨pc, hpc, List.mem_map.2 ⟨w', hw', rfl⟩⟩
    · exact Or.inr ⟨w', hw', rfl⟩

/-- some outcome of a group has non-zero probability -/
theorem exists_outcome_ne_zero (g : Group) : (∃ pc ∈ g.alts, pc.1 ≠ 0) ∨ noneP g ≠ 0 := by
  by_cases h : ∃ pc ∈ g.alts, pc.1 ≠ 0
  · exact Or.inl h
  · right
    have hz : ∀ pc ∈ g.alts, pc.1 = 0 := by
      intro pc hpc
      apply Classical.byContradiction
      intro hne; exact h ⟨pc, hpc, hne⟩
    have hs : (g.alts.map (·.1)).sum = 0 := by
      rw [List.map_congr_left hz]; simp
    have := alts_total g
    rw [hs] at this
    intro h0; rw [h0] at this; simp at this

/-- every total choice of non-zero weight of the smaller group list extends to one of the larger group list that
    selects the same `U`-choices -/
theorem extend_world (U : Nat → Bool) (p1 p2 : Group → Bool) (h12 : ∀ g, p1 g = true → p2 g = true) :
    ∀ (G : List Group), (∀ g ∈ G, p1 g = false → ∀ pc ∈ g.alts, U pc.2 = false) →
      ∀ w1 ∈ worlds (G.filter p1), w1.weight ≠ 0 →
        ∃ w2 ∈ worlds (G.filter p2), w2.weight ≠ 0 ∧ ∀ c, U c = true → (c ∈ w1.chosen ↔ c ∈ w2.chosen) := by
  intro G
  induction G with
  | nil => intro _ w1 hw1 hx; exact ⟨w1, hw1, hx, fun _ _ => Iff.rfl⟩
  | cons g G ih =>
    intro hU w1 hw1 hx
    have hU' : ∀ g' ∈ G, p1 g' = false → ∀ pc ∈ g'.alts, U pc.2 = false :=
      fun g' hg' => hU g' (List.mem_cons_of_mem _ hg')
    cases h1 : p1 g
    · simp only [List.filter_cons, h1, Bool.false_eq_true, if_false] at hw1
      obtain ⟨w', hw', hx', hag⟩ := ih hU' w1 hw1 hx
      cases h2 : p2 g
      · simp only [List.filter_cons, h2, Bool.false_eq_true, if_false]
        exact ⟨w', hw', hx', hag⟩
      · simp only [List.filter_cons, h2, if_true]
        rcases exists_outcome_ne_zero g with ⟨pc, hpc, hp⟩ | hp
        · refine ⟨⟨pc.1 * w'.weight, pc.2 :: w'.chosen⟩, mem_worlds_cons.2 (Or.inl ⟨pc, hpc, w', hw', rfl⟩),
            mul_ne_zero hp hx', ?_⟩
          intro c hc
          have : c ≠ pc.2 := by
            intro e; rw [e, hU g List.mem_cons_self h1 pc hpc] at hc; cases hc
          simp only [List.mem_cons, this, false_or]
          exact hag c hc
        · exact ⟨⟨noneP g * w'.weight, w'.chosen⟩, mem_worlds_cons.2 (Or.inr ⟨w', hw', rfl⟩),
            mul_ne_zero hp hx', hag⟩
    · have h2 := h12 g h1
      simp only [List.filter_cons, h1, if_true] at hw1
      simp only [List.filter_cons, h2, if_true]
      rcases mem_worlds_cons.1 hw1 with ⟨pc, hpc, w, hw, rfl⟩ | ⟨w, hw, rfl⟩
      · have hp : pc.1 ≠ 0 := fun e => hx (by simp [e])
        have hwx : w.weight ≠ 0 := fun e => hx (by simp [e])
        obtain ⟨w', hw', hx', hag⟩ := ih hU' w hw hwx
        refine ⟨⟨pc.1 * w'.weight, pc.2 :: w'.chosen⟩, mem_worlds_cons.2 (Or.inl ⟨pc, hpc, w', hw', rfl⟩),
          mul_ne_zero hp hx', ?_⟩
        intro c hc
        simp only [List.mem_cons, hag c hc]
      · have hp : noneP g ≠ 0 := fun e => hx (by simp [e])
        have hwx : w.weight ≠ 0 := fun e => hx (by simp [e])
        obtain ⟨w', hw', hx', hag⟩ := ih hU' w hw hwx
        exact ⟨⟨noneP g * w'.weight, w'.chosen⟩, mem_worlds_cons.2 (Or.inr ⟨w', hw', rfl⟩),
          mul_ne_zero hp hx', hag⟩

end ProbLogProofs.SemMarginal
