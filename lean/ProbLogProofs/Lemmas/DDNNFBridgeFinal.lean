/-
Assembly: `rootWeight` of the loaded store as a weighted model count of the circuit, with and without the
`_set_value` query trick; the weight of an assignment in terms of the evaluator's table.
-/
import ProbLogProofs.Lemmas.DDNNFBridgeQuery
import Mathlib.Algebra.Ring.Rat

open Finset

namespace ProbLogProofs.DDNNF
open ProbLogModel.DDNNF ProbLogModel.Formula ProbLogModel.Clark

theorem srOf_rat : srOf ℚ = ratSR := rfl

/-- weight of the assignment `T ⊆ rootVars c` under the evaluator's table `w` (indexed by atoms of the loaded
store `S`): the positive weight of atom `atomOf S x` if `x ∈ T`, its negative weight otherwise -/
def tableWt (S : Store) (w : Nat → Rat × Rat) (V T : Finset Nat) : Rat :=
  ∏ x ∈ V, if x ∈ T then (w (atomOf S x)).1 else (w (atomOf S x)).2

theorem wt_circW {c : Circuit} {ld : Loaded} (h : Rep c ld) (hf : Forward c) (hz : LitsNonzero c)
    (w : Nat → Rat × Rat) (T : Finset Nat) :
    wt (circW ld.store w) (rootVarsF c) T = tableWt ld.store w (rootVarsF c) T := by
  unfold wt tableWt
  apply Finset.prod_congr rfl
  intro x hx
  obtain ⟨j, l, hj, hl⟩ := rootVar_has_lit hf x hx
  have hl0 := hz j l hj
  obtain ⟨h1, _⟩ := h.atomOf_lit hj
  rw [hl] at h1
  have hx1 : 1 ≤ x := by omega
  have e1 : circW ld.store w (x : Int) = (w (atomOf ld.store x)).1 := by
    have hp : (x : Int) > 0 := by omega
    have ha : ((atomOf ld.store x : Nat) : Int) > 0 := by omega
    have ea : atomLit ld.store (x : Int) = (atomOf ld.store x : Int) := by
      unfold atomLit; rw [if_pos hp, Int.natAbs_natCast]
    show litW w (atomLit ld.store (x : Int)) = _
    rw [ea]; unfold litW; rw [if_pos ha, Int.natAbs_natCast]
  have e2 : circW ld.store w (-(x : Int)) = (w (atomOf ld.store x)).2 := by
    have hp : ¬ (-(x : Int) > 0) := by omega
    have ha : ¬ (-((atomOf ld.store x : Nat) : Int) > 0) := by omega
    have ea : atomLit ld.store (-(x : Int)) = -(atomOf ld.store x : Int) := by
      unfold atomLit; rw [if_neg hp, Int.natAbs_neg, Int.natAbs_natCast]
    show litW w (atomLit ld.store (-(x : Int))) = _
    rw [ea]; unfold litW; rw [if_neg ha, Int.natAbs_neg, Int.natAbs_natCast]
  rw [e1, e2]

/-- root weight = weighted model count of the circuit -/
theorem rootWeight_eq_wmc {c : Circuit} {ld : Loaded} (h : Rep c ld) (hv : Valid c)
    (hroot : RootOK c ld) (ws : List (Nat × (Rat × Rat))) (hne : c ≠ []) :
    rootWeight ld.store ws = ∑ T ∈ models c, tableWt ld.store (wfun ws) (rootVarsF c) T := by
  rw [rootWeight_eq_evalC h hroot hv.forward hv.litsNonzero ws hne, ← srOf_rat,
    evalC_is_wmc hv, wmc_eq_sum_models]
  apply Finset.sum_congr rfl
  intro T _
  exact wt_circW h hv.forward hv.litsNonzero _ T

/-- the query trick on the loaded store: after `_set_value(|k|, k > 0)` for the store literal `k = atomLit q`, the
root weight is the weighted count of the circuit models in which `q` is true -/
theorem rootWeight_setValue_eq_wmc {c : Circuit} {ld : Loaded} (h : Rep c ld) (hv : Valid c)
    (hroot : RootOK c ld) (ws : List (Nat × (Rat × Rat)))
    (q : Int) (hq : q ≠ 0) (hmem : q.natAbs ∈ rootVarsF c) :
    rootWeight ld.store (setValue ws (atomLit ld.store q).natAbs (decide (atomLit ld.store q > 0))) =
      ∑ T ∈ models c with litTrue (assign T) q = true, tableWt ld.store (wfun ws) (rootVarsF c) T := by
  have hf := hv.forward
  have hz := hv.litsNonzero
  obtain ⟨j, l, hj, hl⟩ := rootVar_has_lit hf _ hmem
  have hq' : c[j]? = some (NNode.lit q) ∨ c[j]? = some (NNode.lit (-q)) := by
    have : l = q ∨ l = -q := by omega
    rcases this with rfl | rfl
    · exact Or.inl hj
    · exact Or.inr hj
  have hk0 : atomLit ld.store q ≠ 0 := h.atomLit_ne_zero hq'
  have hne : c ≠ [] := by
    intro e; subst e; simp [rootVarsF_nil] at hmem
  rw [rootWeight_eq_evalC h hroot hf hz _ hne]
  have hcongr : evalC ratSR (circW ld.store (wfun (setValue ws (atomLit ld.store q).natAbs
        (decide (atomLit ld.store q > 0))))) c =
      evalC ratSR (fun l => if l = -q then 0 else circW ld.store (wfun ws) l) c := by
    apply evalC_congr
    intro j' l' hj'
    show litW (wfun _) (atomLit ld.store l') = _
    rw [litW_wfun, litWeight_setValue ws _ hk0]
    simp only
    have hiff := h.atomLit_eq_neg_iff hz hj' hq'
    by_cases hl' : l' = -q
    · rw [if_pos (hiff.mpr hl'), if_pos hl']
    · rw [if_neg (fun hh => hl' (hiff.mp hh)), if_neg hl']
      rfl
  rw [hcongr, ← srOf_rat, evalC_is_wmc hv, wmc_eq_sum_models, Finset.sum_filter]
  apply Finset.sum_congr rfl
  intro T _
  rw [wt_query (circW ld.store (wfun ws)) _ T hq hmem, wt_circW h hf hz]

end ProbLogProofs.DDNNF
