import ProbLogModel.Sem
import ProbLogProofs.Lemmas.SemGamma
/-!
# Definite programs (no negative body atoms): `wfm` is two-valued and equals the least model (core Lean only)
-/
namespace ProbLogProofs.SemDefinite
open ProbLogModel.Sem ProbLogProofs.SemGamma

/-- no rule has a negative body atom (decidable) -/
def definite (rules : List Rule) : Bool := rules.all (fun r => r.neg.isEmpty)

theorem neg_nil {rules : List Rule} (h : definite rules = true) {r : Rule} (hr : r ∈ rules) : r.neg = [] := by
  unfold definite at h
  rw [List.all_eq_true] at h
  simpa using h r hr

theorem closedBelow_ctx {rules : List Rule} (h : definite rules = true) {n chosen ctx ctx' M}
    (hM : ClosedBelow n rules chosen ctx M) : ClosedBelow n rules chosen ctx' M := by
  intro r hr h1 h2 _ hlt
  apply hM r hr h1 h2 _ hlt
  rw [neg_nil h hr]
  intro a ha; cases ha

/-- for a definite program the reduct does not depend on the context -/
theorem gamma_ctx {rules : List Rule} (h : definite rules = true) (chosen : Array Bool) (natoms : Nat)
    (ctx ctx' : Array Bool) : gamma rules chosen natoms ctx = gamma rules chosen natoms ctx' :=
  Le.antisymm (by rw [gamma_size, gamma_size])
    (gamma_least rules chosen natoms ctx _ (closedBelow_ctx h (gamma_closedBelow rules chosen natoms ctx')))
    (gamma_least rules chosen natoms ctx' _ (closedBelow_ctx h (gamma_closedBelow rules chosen natoms ctx)))

theorem wfm_go_definite {rules : List Rule} (h : definite rules = true) (chosen : Array Bool) (natoms : Nat)
    (ctx : Array Bool) (fuel : Nat) (t : Array Bool) :
    wfm.go rules chosen natoms (fuel + 1) t =
      (gamma rules chosen natoms ctx, gamma rules chosen natoms ctx) := by
  have hg : ∀ c, gamma rules chosen natoms c = gamma rules chosen natoms ctx := fun c => gamma_ctx h chosen natoms c ctx
  unfold wfm.go
  simp only [hg]
  split
  · rename_i heq
    have : gamma rules chosen natoms ctx = t := by simpa using heq
    rw [this]
  · cases fuel with
    | zero => unfold wfm.go; rw [hg (gamma rules chosen natoms ctx)]
    | succ fuel => unfold wfm.go; simp [hg]

theorem wfm_definite {rules : List Rule} (h : definite rules = true) (chosen : Array Bool) (natoms : Nat)
    (ctx : Array Bool) :
    wfm rules chosen natoms = (gamma rules chosen natoms ctx, gamma rules chosen natoms ctx) := by
  unfold wfm
  exact wfm_go_definite h chosen natoms ctx natoms _

end ProbLogProofs.SemDefinite
