import ProbLogModel.TermEq
/-!
Helper lemmas for C18: `teq` (the node-wise comparison of `Term.__eq__`) is an equivalence relation and a
congruence for the hashed key (with the proposed `Not.__hash__`).
-/
namespace ProbLogProofs.TermEqLemmas
open ProbLogModel.TermEq

theorem sameType_self (p : Prim) : sameType p p = true := by cases p <;> rfl

mutual
theorem teq_refl : (t : Tm) → teq t t = true
  | .none => by simp [teq]
  | .ivar _ => by simp [teq]
  | .const p => by simp [teq, sameType_self]
  | .term f xs => by simp [teq, teqL_refl xs]
  | .var _ => by simp [teq]
  | .nott _ c => by simp [teq, teq_refl c]
  | .and a b => by simp [teq, teq_refl a, teq_refl b]
  | .or a b => by simp [teq, teq_refl a, teq_refl b]
  | .clause a b => by simp [teq, teq_refl a, teq_refl b]
theorem teqL_refl : (xs : List Tm) → teqL xs xs = true
  | [] => by simp [teqL]
  | x :: xs => by simp [teqL, teq_refl x, teqL_refl xs]
end

theorem sameType_comm (p q : Prim) : sameType p q = sameType q p := by cases p <;> cases q <;> rfl

mutual
theorem teq_symm : (a b : Tm) → teq a b = teq b a
  | .none, b => by cases b <;> simp [teq]
  | .ivar i, b => by
    cases b with
    | ivar j => simp only [teq]; exact BEq.comm
    | _ => simp [teq]
  | .const p, b => by
    cases b with
    | const r =>
      simp only [teq]
      have : (p == r) = (r == p) := BEq.comm
      rw [sameType_comm, this]
    | _ => simp [teq]
  | .var n, b => by
    cases b with
    | var m => simp only [teq]; exact BEq.comm
    | _ => simp [teq]
  | .term f xs, b => by
    cases b with
    | term g ys =>
      simp only [teq]
      have h1 : (f == g) = (g == f) := BEq.comm
      have h2 : (xs.length == ys.length) = (ys.length == xs.length) := BEq.comm
      rw [teqL_symm xs ys, h1, h2]
    | _ => simp [teq]
  | .nott _ c, b => by
    cases b with
    | nott g d => simp only [teq]; exact teq_symm c d
    | _ => simp [teq]
  | .and a1 a2, b => by
    cases b with
    | and c d => simp only [teq]; rw [teq_symm a1 c, teq_symm a2 d]
    | _ => simp [teq]
  | .or a1 a2, b => by
    cases b with
    | or c d => simp only [teq]; rw [teq_symm a1 c, teq_symm a2 d]
    | _ => simp [teq]
  | .clause a1 a2, b => by
    cases b with
    | clause c d => simp only [teq]; rw [teq_symm a1 c, teq_symm a2 d]
    | _ => simp [teq]
theorem teqL_symm : (xs ys : List Tm) → teqL xs ys = teqL ys xs
  | [], ys => by cases ys <;> simp [teqL]
  | x :: xs, ys => by
    cases ys with
    | nil => simp [teqL]
    | cons y ys => simp [teqL, teq_symm x y, teqL_symm xs ys]
end

mutual
theorem teq_trans : (a b c : Tm) → teq a b = true → teq b c = true → teq a c = true
  | .none, b, c, h1, h2 => by
    cases b <;> simp [teq] at h1
    exact h2
  | .ivar i, b, c, h1, h2 => by
    cases b <;> simp [teq] at h1
    subst h1; exact h2
  | .const p, b, c, h1, h2 => by
    cases b <;> simp [teq] at h1
    obtain ⟨_, rfl⟩ := h1; exact h2
  | .var n, b, c, h1, h2 => by
    cases b <;> simp [teq] at h1
    subst h1; exact h2
  | .term f xs, b, c, h1, h2 => by
    cases b <;> simp [teq] at h1
    rename_i g ys
    obtain ⟨⟨rfl, hl⟩, hxs⟩ := h1
    cases c <;> simp [teq] at h2
    rename_i k zs
    obtain ⟨⟨rfl, hl2⟩, hys⟩ := h2
    simp [teq, hl, hl2, teqL_trans xs ys zs hxs hys]
  | .nott _ x, b, c, h1, h2 => by
    cases b <;> simp [teq] at h1
    rename_i g y
    cases c <;> simp [teq] at h2
    rename_i k z
    simp [teq, teq_trans x y z h1 h2]
  | .and a1 a2, b, c, h1, h2 => by
    cases b <;> simp [teq] at h1
    rename_i b1 b2
    cases c <;> simp [teq] at h2
    rename_i c1 c2
    simp [teq, teq_trans a1 b1 c1 h1.1 h2.1, teq_trans a2 b2 c2 h1.2 h2.2]
  | .or a1 a2, b, c, h1, h2 => by
    cases b <;> simp [teq] at h1
    rename_i b1 b2
    cases c <;> simp [teq] at h2
    rename_i c1 c2
    simp [teq, teq_trans a1 b1 c1 h1.1 h2.1, teq_trans a2 b2 c2 h1.2 h2.2]
  | .clause a1 a2, b, c, h1, h2 => by
    cases b <;> simp [teq] at h1
    rename_i b1 b2
    cases c <;> simp [teq] at h2
    rename_i c1 c2
    simp [teq, teq_trans a1 b1 c1 h1.1 h2.1, teq_trans a2 b2 c2 h1.2 h2.2]
theorem teqL_trans : (xs ys zs : List Tm) → teqL xs ys = true → teqL ys zs = true → teqL xs zs = true
  | [], ys, zs, h1, h2 => by
    cases ys <;> simp [teqL] at h1
    exact h2
  | x :: xs, ys, zs, h1, h2 => by
    cases ys with
    | nil => simp [teqL] at h1
    | cons y ys =>
      cases zs with
      | nil => simp [teqL] at h2
      | cons z zs =>
        simp [teqL] at h1 h2
        simp [teqL, teq_trans x y z h1.1 h2.1, teqL_trans xs ys zs h1.2 h2.2]
end

/-! ### `==` in one formula -/

/-- `a == b` is the printed-form comparison as soon as one operand is a Var/Constant, else `Term.__eq__`. -/
theorem eqTop_eq (a b : Tm) :
    eqTop a b = if isS a || isS b then printed a == printed b else teq a b := by
  have comm : ∀ x y : Option String, (x == y) = (y == x) := fun _ _ => BEq.comm
  cases a <;> cases b <;> simp [eqTop, reflected, isS, isPlainTerm, printed, teq, comm] <;>
    (try (rename_i f xs _; cases xs <;> simp [printed])) <;>
    (try (rename_i f xs; cases xs <;> simp [printed]))

theorem teq_atom_left (s : String) (c : Tm) (h : teq (.term s []) c = true) : c = .term s [] := by
  cases c <;> simp [teq] at h
  rename_i g ys
  obtain ⟨⟨rfl, hl⟩, _⟩ := h
  have : ys = [] := by
    cases ys with
    | nil => rfl
    | cons y ys => simp at hl
  rw [this]

theorem printed_some_nonS (a : Tm) (s : String) (hs : isS a = false) (hp : printed a = some s) :
    a = .term s [] := by
  cases a with
  | term f xs =>
    cases xs with
    | nil => simp [printed] at hp; rw [hp]
    | cons x xs => simp [printed] at hp
  | var n => simp [isS] at hs
  | const p => simp [isS] at hs
  | _ => simp [printed] at hp

theorem printed_S (a : Tm) (hs : isS a = true) : ∃ s, printed a = some s := by
  cases a <;> simp [isS] at hs
  · exact ⟨_, rfl⟩
  · exact ⟨_, rfl⟩

/-! ### hashing respects `teq` -/

def normKL (l : List (Nat × Key)) : List (Nat × Key) := l.map (fun e => (e.1, normKey e.2))

theorem normKeyL_append (xs ys : List Key) : normKeyL (xs ++ ys) = normKeyL xs ++ normKeyL ys := by
  induction xs with
  | nil => rfl
  | cons x xs ih => simp [normKeyL, ih]

theorem normKeyL_selectArgs (t : Nat) (l : List (Nat × Key)) :
    normKeyL (selectArgs t l) = selectArgs t (normKL l) := by
  induction l generalizing t with
  | nil => rfl
  | cons e r ih =>
    obtain ⟨n, k⟩ := e
    simp only [selectArgs, normKL, List.map_cons]
    split
    · simp only [normKeyL]; rw [ih]; rfl
    · rfl

theorem normKeyL_included (l : List (Nat × Key)) : normKeyL (included l) = included (normKL l) := by
  cases l with
  | nil => rfl
  | cons e r =>
    obtain ⟨n, k⟩ := e
    simp only [included, normKL, List.map_cons, normKeyL]
    split
    · rw [normKeyL_selectArgs]; simp [normKL, List.map_take]
    · rfl

theorem listLen_term2 (f : String) (x t : Tm) :
    listLen (.term f [x, t]) = if f == "." then 1 + listLen t else 0 := by
  simp [listLen]

mutual
theorem teq_listLen : (a b : Tm) → teq a b = true → listLen a = listLen b
  | .term f xs, b, h => by
    cases b <;> simp [teq] at h
    rename_i g ys
    obtain ⟨⟨rfl, hl⟩, hxs⟩ := h
    match xs, ys, hl, hxs with
    | [], [], _, _ => rfl
    | [_], [_], _, _ => simp [listLen]
    | [x, t], [y, u], _, hxs =>
      simp [teqL] at hxs
      rw [listLen_term2, listLen_term2, teq_listLen t u hxs.2]
    | _ :: _ :: _ :: _, _ :: _ :: _ :: _, _, _ => simp [listLen]
    | [], _ :: _, hl, _ => simp at hl
    | _ :: _, [], hl, _ => simp at hl
    | [_], _ :: _ :: _, hl, _ => simp at hl
    | _ :: _ :: _, [_], hl, _ => simp at hl
    | [_, _], _ :: _ :: _ :: _, hl, _ => simp at hl
    | _ :: _ :: _ :: _, [_, _], hl, _ => simp at hl
  | .none, b, h => by cases b <;> simp [teq] at h; rfl
  | .ivar _, b, h => by cases b <;> simp [teq] at h; rfl
  | .const _, b, h => by cases b <;> simp [teq] at h; rfl
  | .var _, b, h => by cases b <;> simp [teq] at h; rfl
  | .nott _ _, b, h => by cases b <;> simp [teq] at h; rfl
  | .and _ _, b, h => by cases b <;> simp [teq] at h; rfl
  | .or _ _, b, h => by cases b <;> simp [teq] at h; rfl
  | .clause _ _, b, h => by cases b <;> simp [teq] at h; rfl
end

theorem teq_argLen (a b : Tm) (h : teq a b = true) : argLen a = argLen b := by
  have hl := teq_listLen a b h
  cases a <;> cases b <;> simp [teq] at h <;> simp [argLen] <;> exact hl

theorem normKey_tup (l : List Key) : normKey (.tup l) = .tup (normKeyL l) := by simp [normKey]

mutual
theorem teq_hashKey : (a b : Tm) → teq a b = true →
    normKey (hashKey true a) = normKey (hashKey true b)
  | .none, b, h => by cases b <;> simp [teq] at h; rfl
  | .ivar i, b, h => by
    cases b <;> simp [teq] at h
    subst h; rfl
  | .const p, b, h => by
    cases b <;> simp [teq] at h
    obtain ⟨_, rfl⟩ := h; rfl
  | .var n, b, h => by
    cases b <;> simp [teq] at h
    subst h; rfl
  | .term f xs, b, h => by
    have hll := teq_listLen _ _ h
    cases b <;> simp [teq] at h
    rename_i g ys
    obtain ⟨⟨rfl, hl⟩, hxs⟩ := h
    simp only [hashKey, normKey_tup, normKeyL_append, normKeyL_included]
    rw [teqL_hashKeyL xs ys hxs, hl, hll]
  | .nott _ x, b, h => by
    cases b <;> simp [teq] at h
    rename_i g y
    simp only [hashKey, if_true, normKey_tup, normKeyL]
    rw [teq_hashKey x y h]
  | .and a1 a2, b, h => by
    cases b <;> simp [teq] at h
    rename_i b1 b2
    simp only [hashKey, normKey_tup, normKeyL_append, normKeyL_included, normKL, List.map_cons, List.map_nil]
    rw [teq_hashKey a1 b1 h.1, teq_hashKey a2 b2 h.2, teq_argLen a1 b1 h.1, teq_argLen a2 b2 h.2]
  | .or a1 a2, b, h => by
    cases b <;> simp [teq] at h
    rename_i b1 b2
    simp only [hashKey, normKey_tup, normKeyL_append, normKeyL_included, normKL, List.map_cons, List.map_nil]
    rw [teq_hashKey a1 b1 h.1, teq_hashKey a2 b2 h.2, teq_argLen a1 b1 h.1, teq_argLen a2 b2 h.2]
  | .clause a1 a2, b, h => by
    cases b <;> simp [teq] at h
    rename_i b1 b2
    simp only [hashKey, normKey_tup, normKeyL_append, normKeyL_included, normKL, List.map_cons, List.map_nil]
    rw [teq_hashKey a1 b1 h.1, teq_hashKey a2 b2 h.2, teq_argLen a1 b1 h.1, teq_argLen a2 b2 h.2]
theorem teqL_hashKeyL : (xs ys : List Tm) → teqL xs ys = true →
    normKL (hashKeyL true xs) = normKL (hashKeyL true ys)
  | [], ys, h => by
    cases ys <;> simp [teqL] at h
    rfl
  | x :: xs, ys, h => by
    cases ys with
    | nil => simp [teqL] at h
    | cons y ys =>
      simp [teqL] at h
      simp only [hashKeyL, normKL, List.map_cons]
      have := teqL_hashKeyL xs ys h.2
      simp only [normKL] at this
      rw [teq_hashKey x y h.1, teq_argLen x y h.1, this]
end

mutual
theorem Key.beq_refl : (k : Key) → Key.beq k k = true
  | .p x => by simp [Key.beq]
  | .none => by simp [Key.beq]
  | .tup ks => by simp [Key.beq, Key.beqL_refl ks]
theorem Key.beqL_refl : (ks : List Key) → Key.beqL ks ks = true
  | [] => by simp [Key.beqL]
  | k :: ks => by simp [Key.beqL, Key.beq_refl k, Key.beqL_refl ks]
end

/-! ### plain term trees: `==` is unification identity -/

mutual
/-- Only `Term` nodes whose functors carry no enclosing quotes. -/
def plain : Tm → Bool
  | .term f xs => (stripQ f == f) && plainL xs
  | _ => false
def plainL : List Tm → Bool
  | [] => true
  | x :: xs => plain x && plainL xs
end

mutual
theorem plain_teq_iff : (a b : Tm) → plain a = true → plain b = true →
    teq a b = Sig.beq (sigTree a) (sigTree b)
  | .term f xs, .term g ys, ha, hb => by
    simp [plain] at ha hb
    simp only [teq, sigTree, Sig.beq, ha.1, hb.1]
    rw [plainL_teq_iff xs ys ha.2 hb.2]
    by_cases hl : xs.length = ys.length
    · simp [hl]
    · have : Sig.beqL (sigTreeL xs) (sigTreeL ys) = false := beqL_length xs ys hl
      simp [hl, this]
  | .term _ _, .none, _, hb => by simp [plain] at hb
  | .term _ _, .ivar _, _, hb => by simp [plain] at hb
  | .term _ _, .const _, _, hb => by simp [plain] at hb
  | .term _ _, .var _, _, hb => by simp [plain] at hb
  | .term _ _, .nott _ _, _, hb => by simp [plain] at hb
  | .term _ _, .and _ _, _, hb => by simp [plain] at hb
  | .term _ _, .or _ _, _, hb => by simp [plain] at hb
  | .term _ _, .clause _ _, _, hb => by simp [plain] at hb
  | .none, _, ha, _ => by simp [plain] at ha
  | .ivar _, _, ha, _ => by simp [plain] at ha
  | .const _, _, ha, _ => by simp [plain] at ha
  | .var _, _, ha, _ => by simp [plain] at ha
  | .nott _ _, _, ha, _ => by simp [plain] at ha
  | .and _ _, _, ha, _ => by simp [plain] at ha
  | .or _ _, _, ha, _ => by simp [plain] at ha
  | .clause _ _, _, ha, _ => by simp [plain] at ha
theorem plainL_teq_iff : (xs ys : List Tm) → plainL xs = true → plainL ys = true →
    teqL xs ys = Sig.beqL (sigTreeL xs) (sigTreeL ys)
  | [], [], _, _ => by simp [teqL, sigTreeL, Sig.beqL]
  | [], _ :: _, _, _ => by simp [teqL, sigTreeL, Sig.beqL]
  | _ :: _, [], _, _ => by simp [teqL, sigTreeL, Sig.beqL]
  | x :: xs, y :: ys, ha, hb => by
    simp [plainL] at ha hb
    simp only [teqL, sigTreeL, Sig.beqL]
    rw [plain_teq_iff x y ha.1 hb.1, plainL_teq_iff xs ys ha.2 hb.2]
theorem beqL_length : (xs ys : List Tm) → xs.length ≠ ys.length →
    Sig.beqL (sigTreeL xs) (sigTreeL ys) = false
  | [], [], h => by simp at h
  | [], _ :: _, _ => by simp [sigTreeL, Sig.beqL]
  | _ :: _, [], _ => by simp [sigTreeL, Sig.beqL]
  | x :: xs, y :: ys, h => by
    simp only [sigTreeL, Sig.beqL]
    have : xs.length ≠ ys.length := by simpa using h
    simp [beqL_length xs ys this]
end

end ProbLogProofs.TermEqLemmas
