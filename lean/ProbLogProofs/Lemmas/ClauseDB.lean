import ProbLogModel.ClauseDB
/-!
# Lemmas about the ClauseDB model (used by Properties/C29.lean)

* `WF` — the invariant of databases built by `extend` and the statement operations: per layer, own heads point to own
  nodes that are a `define` of that signature or the `()` placeholder (`h1`), distinct signatures have distinct heads
  (`h2`), and the redirect map is exactly "parent's head of `s` ↦ own head of `s`" for the copied predicates (`r1`,`r2`).
* `resolve_head`, `resolve_anc` — heads are fixpoints of `resolve`; every (historic) head of `s` along the chain
  resolves to the current head of `s`.
* `Spec`/`Good` — what one operation guarantees (`WF` kept, only the youngest layer changes, `defs` grows by the logged
  clause ids, fact/clause nodes are immutable), or the only possible failure (AccessError on a builtin head).
-/
namespace ProbLogProofs.ClauseDBLemmas
open ProbLogModel.ClauseDB

theorem lookup_cons_ite {α β} [DecidableEq α] (k a : α) (b : β) (l : List (α × β)) :
    ((k, b) :: l).lookup a = if a = k then some b else l.lookup a := by
  rw [List.lookup_cons]
  by_cases h : a = k
  · simp [h]
  · have : (a == k) = false := by simp [h]
    simp [this, h]

/-- The parent's `_get_head` as seen from the child (`if node is None and self.__parent`). -/
def pfind : DB → Sig → Option Nat
  | .root _, _ => none
  | .ext _ _ p, s => if p.len = 0 then none else getHead p s

theorem getHead_eq (db : DB) (s : Sig) :
    getHead db s = match db.layer.heads.lookup s with | some n => some n | none => pfind db s := by
  cases db with
  | root l => simp only [getHead, pfind, DB.layer]; cases l.heads.lookup s <;> rfl
  | ext l off p => simp only [getHead, pfind, DB.layer]; cases l.heads.lookup s <;> rfl

/-- Well-formedness of one layer, given its offset and the parent's head lookup. -/
structure WFL (l : Layer) (off : Nat) (pf : Sig → Option Nat) : Prop where
  h1 : ∀ s v, l.heads.lookup s = some v →
        off ≤ v ∧ ∃ n, l.nodes[v - off]? = some n ∧ (n = .empty ∨ ∃ ch, n = .define s ch)
  h2 : ∀ s t v, l.heads.lookup s = some v → l.heads.lookup t = some v → s = t
  r1 : ∀ k v, l.redirect.lookup k = some v → ∃ s, pf s = some k ∧ l.heads.lookup s = some v
  r2 : ∀ s k v, pf s = some k → l.heads.lookup s = some v → l.redirect.lookup k = some v

def WF : DB → Prop
  | .root l => WFL l 0 (fun _ => none)
  | .ext l off p => off = p.len ∧ WF p ∧ WFL l off (pfind (.ext l off p))

theorem WFL_append {l off pf} (h : WFL l off pf) (n : Node) :
    WFL { l with nodes := l.nodes ++ [n] } off pf := by
  refine ⟨?_, h.h2, h.r1, h.r2⟩
  intro s v hv
  obtain ⟨h1, m, hm, hk⟩ := h.h1 s v hv
  refine ⟨h1, m, ?_, hk⟩
  have : v - off < l.nodes.length := by
    have := (List.getElem?_eq_some_iff.mp hm).1; exact this
  simp [List.getElem?_append_left this, hm]

theorem WFL_newHead {l off pf} (h : WFL l off pf) (s : Sig) (n : Node)
    (hs : l.heads.lookup s = none) (hp : pf s = none) (hn : n = .empty ∨ ∃ ch, n = .define s ch) :
    WFL { l with nodes := l.nodes ++ [n], heads := (s, l.nodes.length + off) :: l.heads } off pf := by
  constructor
  · intro t v hv
    simp only [lookup_cons_ite] at hv
    split at hv
    · rename_i e; subst e
      simp at hv; subst hv
      refine ⟨by omega, n, by simp, hn⟩
    · obtain ⟨h1, m, hm, hk⟩ := h.h1 t v hv
      have : v - off < l.nodes.length := (List.getElem?_eq_some_iff.mp hm).1
      exact ⟨h1, m, by simp [List.getElem?_append_left this, hm], hk⟩
  · intro a b v ha hb
    simp only [lookup_cons_ite] at ha hb
    have key : ∀ t w, l.heads.lookup t = some w → w ≠ l.nodes.length + off := by
      intro t w hw
      obtain ⟨h1, m, hm, _⟩ := h.h1 t w hw
      have : w - off < l.nodes.length := (List.getElem?_eq_some_iff.mp hm).1
      omega
    split at ha <;> split at hb
    · simp_all
    · simp at ha; subst ha; exact absurd rfl (key _ _ hb)
    · simp at hb; subst hb; exact absurd rfl (key _ _ ha)
    · exact h.h2 a b v ha hb
  · intro k v hk
    obtain ⟨t, ht, hl⟩ := h.r1 k v hk
    refine ⟨t, ht, ?_⟩
    simp only [lookup_cons_ite]
    split
    · rename_i e; subst e; simp_all
    · exact hl
  · intro t k v ht hv
    simp only [lookup_cons_ite] at hv
    split at hv
    · rename_i e; subst e; simp_all
    · exact h.r2 t k v ht hv

theorem WFL_cow {l off pf} (h : WFL l off pf) (s : Sig) (k : Nat) (ch : List Nat)
    (hs : l.heads.lookup s = none) (hp : pf s = some k) (hinj : ∀ t, pf t = some k → t = s) :
    WFL { l with nodes := l.nodes ++ [.define s ch], heads := (s, l.nodes.length + off) :: l.heads,
                 redirect := (k, l.nodes.length + off) :: l.redirect } off pf := by
  have key : ∀ t w, l.heads.lookup t = some w → w ≠ l.nodes.length + off := by
    intro t w hw
    obtain ⟨h1, m, hm, _⟩ := h.h1 t w hw
    have : w - off < l.nodes.length := (List.getElem?_eq_some_iff.mp hm).1
    omega
  constructor
  · intro t v hv
    simp only [lookup_cons_ite] at hv
    split at hv
    · rename_i e; subst e
      simp at hv; subst hv
      refine ⟨by omega, .define t ch, by simp, Or.inr ⟨ch, rfl⟩⟩
    · obtain ⟨h1, m, hm, hk⟩ := h.h1 t v hv
      have : v - off < l.nodes.length := (List.getElem?_eq_some_iff.mp hm).1
      exact ⟨h1, m, by simp [List.getElem?_append_left this, hm], hk⟩
  · intro a b v ha hb
    simp only [lookup_cons_ite] at ha hb
    split at ha <;> split at hb
    · simp_all
    · simp at ha; subst ha; exact absurd rfl (key _ _ hb)
    · simp at hb; subst hb; exact absurd rfl (key _ _ ha)
    · exact h.h2 a b v ha hb
  · intro k' v hk
    simp only [lookup_cons_ite] at hk
    split at hk
    · rename_i e; subst e; simp at hk; subst hk
      exact ⟨s, hp, by simp [lookup_cons_ite]⟩
    · obtain ⟨t, ht, hl⟩ := h.r1 k' v hk
      refine ⟨t, ht, ?_⟩
      simp only [lookup_cons_ite]
      split
      · rename_i e; subst e; simp_all
      · exact hl
  · intro t k' v ht hv
    simp only [lookup_cons_ite] at hv ⊢
    split at hv
    · rename_i e; subst e
      simp at hv; subst hv
      have : k' = k := by simp_all
      simp [this]
    · have := h.r2 t k' v ht hv
      split
      · rename_i e; subst e
        rename_i hne
        exact absurd (hinj t ht) hne
      · exact this

theorem WFL_setNode {l off pf} (h : WFL l off pf) (s : Sig) (v : Nat) (ch : List Nat)
    (hs : l.heads.lookup s = some v) :
    WFL { l with nodes := l.nodes.set (v - off) (.define s ch) } off pf := by
  refine ⟨?_, h.h2, h.r1, h.r2⟩
  intro t w hw
  obtain ⟨h1, m, hm, hk⟩ := h.h1 t w hw
  obtain ⟨h1', m', hm', _⟩ := h.h1 s v hs
  have lw : w - off < l.nodes.length := (List.getElem?_eq_some_iff.mp hm).1
  have lv : v - off < l.nodes.length := (List.getElem?_eq_some_iff.mp hm').1
  by_cases e : w = v
  · subst e
    have : t = s := h.h2 t s w hw hs
    subst this
    exact ⟨h1, .define t ch, by simp [List.getElem?_set, lv], Or.inr ⟨ch, rfl⟩⟩
  · refine ⟨h1, m, ?_, hk⟩
    have : v - off ≠ w - off := by omega
    simp [List.getElem?_set, this, hm]

theorem WF.layer {db : DB} (h : WF db) : WFL db.layer db.offset (pfind db) := by
  cases db with
  | root l => exact h
  | ext l off p => exact h.2.2

theorem find_lt {db : DB} (h : WF db) {s : Sig} {i : Nat} (hf : find db s = some i) : i < db.len := by
  induction db generalizing i with
  | root l =>
    simp only [find, getHead] at hf
    obtain ⟨_, m, hm, _⟩ := h.h1 s i hf
    have := (List.getElem?_eq_some_iff.mp hm).1
    simp [DB.len, DB.layer, DB.offset] at *; omega
  | ext l off p ih =>
    obtain ⟨ho, hp, hl⟩ := h
    simp only [find, getHead] at hf
    cases hh : l.heads.lookup s with
    | some n =>
      simp [hh] at hf; subst hf
      obtain ⟨_, m, hm, _⟩ := hl.h1 s n hh
      have := (List.getElem?_eq_some_iff.mp hm).1
      simp [DB.len, DB.layer, DB.offset] at *; omega
    | none =>
      simp [hh] at hf
      have := ih hp (i := i) (by simpa [find] using hf.2)
      simp [DB.len, DB.layer, DB.offset] at *; omega

theorem pfind_lt {db : DB} (h : WF db) {s : Sig} {k : Nat} (hf : pfind db s = some k) : k < db.offset := by
  cases db with
  | root l => simp [pfind] at hf
  | ext l off p =>
    simp only [pfind] at hf
    split at hf
    · simp at hf
    · have := find_lt h.2.1 (s := s) (i := k) hf
      simp [DB.offset, h.1]; exact this

theorem find_inj {db : DB} (h : WF db) {s t : Sig} {i : Nat} (hs : find db s = some i) (ht : find db t = some i) :
    s = t := by
  induction db generalizing i with
  | root l =>
    simp only [find, getHead] at hs ht
    exact h.h2 s t i hs ht
  | ext l off p ih =>
    obtain ⟨ho, hp, hl⟩ := h
    simp only [find, getHead_eq, DB.layer] at hs ht
    cases hh : l.heads.lookup s <;> cases hh' : l.heads.lookup t <;> simp only [hh, hh'] at hs ht
    · simp only [pfind] at hs ht
      by_cases hz : p.len = 0
      · simp [hz] at hs
      · simp only [hz, if_false] at hs ht
        exact ih hp hs ht
    · have h1 := pfind_lt (db := .ext l off p) ⟨ho, hp, hl⟩ hs
      simp at ht; subst ht
      have h2 := (hl.h1 t _ hh').1
      simp [DB.offset] at h1; omega
    · have h1 := pfind_lt (db := .ext l off p) ⟨ho, hp, hl⟩ ht
      simp at hs; subst hs
      have h2 := (hl.h1 s _ hh).1
      simp [DB.offset] at h1; omega
    · simp at hs ht; subst hs; subst ht
      exact hl.h2 s t _ hh hh'

theorem pfind_inj {db : DB} (h : WF db) {s t : Sig} {k : Nat} (hs : pfind db s = some k) (ht : pfind db t = some k) :
    s = t := by
  cases db with
  | root l => simp [pfind] at hs
  | ext l off p =>
    simp only [pfind] at hs ht
    by_cases hz : p.len = 0
    · simp [hz] at hs
    · simp only [hz, if_false] at hs ht
      exact find_inj h.2.1 hs ht

theorem rawNode_own {db : DB} {i : Nat} {n : Node} (hi : db.offset ≤ i)
    (hn : db.layer.nodes[i - db.offset]? = some n) : rawNode db i = .ok n := by
  cases db with
  | root l =>
    simp only [DB.layer, DB.offset, Nat.sub_zero] at hn
    simp only [rawNode, hn]
  | ext l off p =>
    simp only [DB.offset] at hi
    simp only [DB.layer, DB.offset] at hn
    have : ¬ i < off := by omega
    simp only [rawNode, this, if_false, hn]

theorem rawNode_own_none {db : DB} {i : Nat} (hi : db.offset ≤ i)
    (hn : db.layer.nodes[i - db.offset]? = none) : rawNode db i = .error .indexError := by
  cases db with
  | root l =>
    simp only [DB.layer, DB.offset, Nat.sub_zero] at hn
    simp only [rawNode, hn]
  | ext l off p =>
    simp only [DB.offset] at hi
    simp only [DB.layer, DB.offset] at hn
    have : ¬ i < off := by omega
    simp only [rawNode, this, if_false, hn]

theorem head_node {db : DB} (h : WF db) {s : Sig} {i : Nat} (hf : find db s = some i) :
    ∃ n, rawNode db i = .ok n ∧ (n = .empty ∨ ∃ ch, n = .define s ch) := by
  induction db generalizing i with
  | root l =>
    simp only [find, getHead] at hf
    obtain ⟨_, m, hm, hk⟩ := h.h1 s i hf
    exact ⟨m, rawNode_own (by simp [DB.offset]) (by simpa [DB.layer, DB.offset] using hm), hk⟩
  | ext l off p ih =>
    have hw := h
    obtain ⟨ho, hp, hl⟩ := h
    simp only [find, getHead_eq, DB.layer] at hf
    cases hh : l.heads.lookup s with
    | some n =>
      simp [hh] at hf; subst hf
      obtain ⟨h1, m, hm, hk⟩ := hl.h1 s n hh
      exact ⟨m, rawNode_own (by simpa [DB.offset] using h1) (by simpa [DB.layer, DB.offset] using hm), hk⟩
    | none =>
      simp only [hh] at hf
      have hlt := pfind_lt hw hf
      simp only [pfind] at hf
      split at hf
      · simp at hf
      · obtain ⟨m, hm, hk⟩ := ih hp hf
        refine ⟨m, ?_, hk⟩
        simp only [DB.offset] at hlt
        simp [rawNode, hlt, hm]

theorem redirectGet_of_none {l : Layer} {i : Nat} (h : l.redirect.lookup i = none) : redirectGet l i = i := by
  simp [redirectGet, h]

/-- A current head is never a redirect key of its own database … -/
theorem head_not_key {db : DB} (h : WF db) {s : Sig} {i : Nat} (hf : find db s = some i) :
    db.layer.redirect.lookup i = none := by
  cases hk : db.layer.redirect.lookup i with
  | none => rfl
  | some v =>
    exfalso
    obtain ⟨t, ht, hv⟩ := h.layer.r1 i v hk
    have hlt := pfind_lt h ht
    simp only [find, getHead_eq] at hf
    cases hh : db.layer.heads.lookup s with
    | some n =>
      simp [hh] at hf; subst hf
      have := (h.layer.h1 s n hh).1
      omega
    | none =>
      simp only [hh] at hf
      have := pfind_inj h hf ht
      subst this
      simp [hh] at hv

/-- … and is a fixpoint of `resolve`. -/
theorem resolve_head {db : DB} (h : WF db) {s : Sig} {i : Nat} (hf : find db s = some i) : resolve db i = i := by
  induction db generalizing i with
  | root l =>
    have := head_not_key h hf
    simp [resolve, redirectGet_of_none (l := l) (by simpa [DB.layer] using this)]
  | ext l off p ih =>
    have hnk := head_not_key h hf
    have hrg : redirectGet l i = i := redirectGet_of_none (by simpa [DB.layer] using hnk)
    simp only [resolve, hrg]
    split
    · rename_i hlt
      -- inherited head
      have hw := h
      obtain ⟨ho, hp, hl⟩ := h
      simp only [find, getHead_eq, DB.layer] at hf
      cases hh : l.heads.lookup s with
      | some n =>
        simp [hh] at hf; subst hf
        have := (hl.h1 s n hh).1; omega
      | none =>
        simp only [hh, pfind] at hf
        split at hf
        · simp at hf
        · rw [ih hp hf, hrg]
    · rfl

/-- `Anc a db`: `a` is `db` itself or one of its ancestors. -/
inductive Anc : DB → DB → Prop where
  | refl (db : DB) : Anc db db
  | step {a : DB} {l : Layer} {off : Nat} {p : DB} : Anc a p → Anc a (.ext l off p)

theorem WF.parent {l off p} (h : WF (.ext l off p)) : WF p := h.2.1

theorem WF.anc {a db : DB} (h : WF db) (ha : Anc a db) : WF a := by
  induction ha with
  | refl => exact h
  | step _ ih => exact ih h.parent

theorem Anc.len_le {a db : DB} (h : WF db) (ha : Anc a db) : a.len ≤ db.len := by
  induction ha with
  | refl => exact Nat.le_refl _
  | step _ ih =>
    have := ih h.parent
    have ho := h.1
    simp [DB.len, DB.layer, DB.offset] at *; omega

theorem find_ext {l : Layer} {off : Nat} {p : DB} (s : Sig) :
    find (.ext l off p) s = match l.heads.lookup s with
      | some n => some n
      | none => if p.len = 0 then none else find p s := by
  rfl

theorem find_mono {a db : DB} (h : WF db) (ha : Anc a db) {s : Sig} {d : Nat} (hf : find a s = some d) :
    ∃ i, find db s = some i := by
  induction ha with
  | refl => exact ⟨d, hf⟩
  | @step l off p hap ih =>
    obtain ⟨k, hk⟩ := ih h.parent
    rw [find_ext]
    cases hh : l.heads.lookup s with
    | some n => exact ⟨n, rfl⟩
    | none =>
      have := find_lt h.parent hk
      have hz : ¬ p.len = 0 := by omega
      exact ⟨k, by simp [hz, hk]⟩

/-- An index is the head of at most one signature along the whole chain. -/
theorem find_inj_anc {a db : DB} (h : WF db) (ha : Anc a db) {s t : Sig} {d : Nat}
    (hs : find a s = some d) (ht : find db t = some d) : s = t := by
  induction ha with
  | refl => exact find_inj h hs ht
  | @step l off p hap ih =>
    have hd : d < p.len := Nat.lt_of_lt_of_le (find_lt (h.parent.anc hap) hs) (hap.len_le h.parent)
    rw [find_ext] at ht
    cases hh : l.heads.lookup t with
    | some n =>
      simp [hh] at ht; subst ht
      have := (h.2.2.h1 t n hh).1
      have := h.1
      omega
    | none =>
      simp only [hh] at ht
      by_cases hz : p.len = 0
      · simp [hz] at ht
      · simp only [hz, if_false] at ht
        exact ih h.parent ht

/-- Redirect consistency: every index that is (or ever was) the head of `s` in the database or in one of its
    ancestors resolves to the database's current head of `s`. -/
theorem resolve_anc {a db : DB} (h : WF db) (ha : Anc a db) {s : Sig} {d i : Nat}
    (hd : find a s = some d) (hi : find db s = some i) : resolve db d = i := by
  induction ha generalizing i with
  | refl => rw [hd] at hi; cases hi; exact resolve_head h hd
  | @step l off p hap ih =>
    have hw := h
    obtain ⟨ho, hp, hl⟩ := h
    obtain ⟨k, hk⟩ := find_mono hp hap hd
    have hres : resolve p d = k := ih hp hk
    have hdlt : d < off := by
      have := Nat.lt_of_lt_of_le (find_lt (hp.anc hap) hd) (hap.len_le hp); omega
    have hz : ¬ p.len = 0 := by have := find_lt hp hk; omega
    have hpk : pfind (.ext l off p) s = some k := by simp [pfind, hz]; exact hk
    have hnk := head_not_key hw hi
    simp only [DB.layer] at hnk
    rw [find_ext] at hi
    simp only [resolve]
    cases hh : l.heads.lookup s with
    | some v =>
      simp [hh] at hi; subst hi
      have hkv := hl.r2 s k v hpk hh
      have hv := (hl.h1 s v hh).1
      cases hr : l.redirect.lookup d with
      | none =>
        have : redirectGet l d = d := redirectGet_of_none hr
        simp only [this, hdlt, if_true, hres]
        simp [redirectGet, hkv]
      | some v' =>
        obtain ⟨t, ht, hv'⟩ := hl.r1 d v' hr
        have htd : find p t = some d := by simpa [pfind, hz, find] using ht
        have : s = t := find_inj_anc hp hap hd htd
        subst this
        rw [hh] at hv'; cases hv'
        have : redirectGet l d = v := by simp [redirectGet, hr]
        have hnlt : ¬ v < off := by omega
        simp only [this, hnlt, if_false]
    | none =>
      simp only [hh, hz, if_false] at hi
      rw [hk] at hi; cases hi
      cases hr : l.redirect.lookup d with
      | none =>
        have : redirectGet l d = d := redirectGet_of_none hr
        simp only [this, hdlt, if_true, hres]
        exact redirectGet_of_none hnk
      | some v' =>
        obtain ⟨t, ht, hv'⟩ := hl.r1 d v' hr
        have htd : find p t = some d := by simpa [pfind, hz, find] using ht
        have : s = t := find_inj_anc hp hap hd htd
        subst this
        rw [hh] at hv'; cases hv'

theorem getNode_head {db : DB} (h : WF db) {s : Sig} {i : Nat} (hf : find db s = some i) :
    getNode db i = rawNode db i := by
  simp only [getNode, resolve_head h hf]

theorem getNode_anc {a db : DB} (h : WF db) (ha : Anc a db) {s : Sig} {d i : Nat}
    (hd : find a s = some d) (hi : find db s = some i) : getNode db d = getNode db i := by
  simp only [getNode, resolve_anc h ha hd hi, resolve_head h hi]

/-! ### `setLayer`: every operation only replaces the youngest layer -/

@[simp] theorem layer_setLayer (db : DB) (l : Layer) : (db.setLayer l).layer = l := by cases db <;> rfl
@[simp] theorem offset_setLayer (db : DB) (l : Layer) : (db.setLayer l).offset = db.offset := by cases db <;> rfl
@[simp] theorem parent_setLayer (db : DB) (l : Layer) : (db.setLayer l).parent? = db.parent? := by cases db <;> rfl
@[simp] theorem setLayer_setLayer (db : DB) (l l' : Layer) : (db.setLayer l).setLayer l' = db.setLayer l' := by
  cases db <;> rfl
@[simp] theorem setLayer_layer (db : DB) : db.setLayer db.layer = db := by cases db <;> rfl
@[simp] theorem pfind_setLayer (db : DB) (l : Layer) : pfind (db.setLayer l) = pfind db := by cases db <;> rfl
theorem len_setLayer (db : DB) (l : Layer) : (db.setLayer l).len = l.nodes.length + db.offset := by
  simp [DB.len]

theorem WF_setLayer {db : DB} (h : WF db) {l : Layer} (hl : WFL l db.offset (pfind db)) : WF (db.setLayer l) := by
  cases db with
  | root l0 => exact hl
  | ext l0 off p => exact ⟨h.1, h.2.1, hl⟩

theorem find_eq (db : DB) (s : Sig) :
    find db s = match db.layer.heads.lookup s with | some n => some n | none => pfind db s := getHead_eq db s

theorem resolve_setLayer (db : DB) (l : Layer) (h : l.redirect = db.layer.redirect) (i : Nat) :
    resolve (db.setLayer l) i = resolve db i := by
  cases db with
  | root l0 => simp only [DB.layer] at h; simp only [resolve, redirectGet, DB.setLayer, h]
  | ext l0 off p => simp only [DB.layer] at h; simp only [resolve, redirectGet, DB.setLayer, h]; rfl

theorem rawNode_lt_offset {db : DB} (l : Layer) {i : Nat} (hi : i < db.offset) :
    rawNode (db.setLayer l) i = rawNode db i := by
  cases db with
  | root l0 => simp [DB.offset] at hi
  | ext l0 off p => simp only [DB.offset] at hi; simp [rawNode, DB.setLayer, hi]

/-- Reading a node that exists is unaffected by appending. -/
theorem rawNode_append {db : DB} (l : Layer) (ns : List Node) (hl : l.nodes = db.layer.nodes ++ ns) {i : Nat}
    (hi : i < db.len) : rawNode (db.setLayer l) i = rawNode db i := by
  by_cases ho : i < db.offset
  · exact rawNode_lt_offset l ho
  · have hlt : i - db.offset < db.layer.nodes.length := by simp [DB.len] at hi; omega
    have hn : db.layer.nodes[i - db.offset]? = some (db.layer.nodes[i - db.offset]) := by simp [hlt]
    rw [rawNode_own (by omega) hn]
    apply rawNode_own (by simpa using Nat.le_of_not_lt ho)
    simp [hl, List.getElem?_append_left hlt]

theorem rawNode_ok {db : DB} (h : WF db) {i : Nat} (hi : i < db.len) : ∃ n, rawNode db i = .ok n := by
  induction db generalizing i with
  | root l =>
    simp [DB.len, DB.layer, DB.offset] at hi
    exact ⟨l.nodes[i], rawNode_own (by simp [DB.offset]) (by simp [DB.layer, DB.offset, hi])⟩
  | ext l off p ih =>
    by_cases ho : i < off
    · obtain ⟨n, hn⟩ := ih h.parent (i := i) (by have := h.1; omega)
      exact ⟨n, by simp [rawNode, ho, hn]⟩
    · simp [DB.len, DB.layer, DB.offset] at hi
      have : i - off < l.nodes.length := by omega
      exact ⟨l.nodes[i - off], rawNode_own (by simp [DB.offset]; omega) (by simp [DB.layer, DB.offset, this])⟩

/-- The abstract view read directly from the node table (heads are fixpoints of `resolve`). -/
theorem defs_raw {db : DB} (h : WF db) (s : Sig) :
    defs db s = match find db s with
      | none => []
      | some i => match rawNode db i with
        | .ok (.define _ ch) => ch
        | _ => [] := by
  unfold defs
  cases hf : find db s with
  | none => rfl
  | some i => simp only [getNode_head h hf]; rfl

/-- `defs` in terms of the head's node. -/
theorem defs_of_define {db : DB} (h : WF db) {s : Sig} {i : Nat} {ch : List Nat} (hf : find db s = some i)
    (hn : rawNode db i = .ok (.define s ch)) : defs db s = ch := by
  rw [defs_raw h, hf]; simp [hn]

theorem defs_of_empty {db : DB} (h : WF db) {s : Sig} {i : Nat} (hf : find db s = some i)
    (hn : rawNode db i = .ok .empty) : defs db s = [] := by
  rw [defs_raw h, hf]; simp [hn]

theorem defs_of_none {db : DB} {s : Sig} (hf : find db s = none) : defs db s = [] := by
  simp [defs, hf]

/-- Transfer of the view between two well-formed databases that agree on a head and its node. -/
theorem defs_transfer {db db' : DB} (h : WF db) (h' : WF db') {t : Sig} (hf : find db' t = find db t)
    (hr : ∀ j, find db t = some j → rawNode db' j = rawNode db j) : defs db' t = defs db t := by
  rw [defs_raw h, defs_raw h', hf]
  cases hj : find db t with
  | none => rfl
  | some j => simp only [hr j hj]

/-- Only the youngest layer differs, and its builtin table is the same. -/
def Same (db db' : DB) : Prop := ∃ l, db' = db.setLayer l ∧ l.builtins = db.layer.builtins

theorem Same.refl (db : DB) : Same db db := ⟨db.layer, by simp, rfl⟩
theorem Same.trans {a b c : DB} (h1 : Same a b) (h2 : Same b c) : Same a c := by
  obtain ⟨l1, rfl, e1⟩ := h1
  obtain ⟨l2, rfl, e2⟩ := h2
  exact ⟨l2, by simp, by simpa [e1] using e2⟩
theorem Same.parent {a b : DB} (h : Same a b) : b.parent? = a.parent? := by obtain ⟨l, rfl, _⟩ := h; simp
theorem Same.offset {a b : DB} (h : Same a b) : b.offset = a.offset := by obtain ⟨l, rfl, _⟩ := h; simp
theorem Same.builtins {a b : DB} (h : Same a b) : b.layer.builtins = a.layer.builtins := by
  obtain ⟨l, rfl, e⟩ := h; simpa using e

/-- A node that is neither a `define` nor the `()` placeholder (so: never the target of a head). -/
def Node.inert : Node → Prop
  | .define _ _ => False
  | .empty => False
  | _ => True

theorem own_head {db : DB} (h : WF db) {s : Sig} {i : Nat} (hf : find db s = some i) (ho : db.offset ≤ i) :
    db.layer.heads.lookup s = some i := by
  rw [find_eq] at hf
  cases hh : db.layer.heads.lookup s with
  | some n => simpa [hh] using hf
  | none =>
    simp only [hh] at hf
    have := pfind_lt h hf
    omega

theorem rawNode_set {db : DB} {i : Nat} (n : Node) (ho : db.offset ≤ i) (hi : i < db.len) :
    rawNode (db.setLayer { db.layer with nodes := db.layer.nodes.set (i - db.offset) n }) i = .ok n := by
  apply rawNode_own (by simpa using ho)
  have : i - db.offset < db.layer.nodes.length := by simp [DB.len] at hi; omega
  simp [List.getElem?_set, this]

theorem rawNode_set_ne {db : DB} {i j : Nat} (n : Node) (ho : db.offset ≤ i) (hj : j ≠ i) :
    rawNode (db.setLayer { db.layer with nodes := db.layer.nodes.set (i - db.offset) n }) j = rawNode db j := by
  by_cases hlt : j < db.offset
  · exact rawNode_lt_offset _ hlt
  · have hne : i - db.offset ≠ j - db.offset := by omega
    cases hn : db.layer.nodes[j - db.offset]? with
    | some m =>
      rw [rawNode_own (by omega) hn]
      apply rawNode_own (by simpa using Nat.le_of_not_lt hlt)
      simp [List.getElem?_set, hne, hn]
    | none =>
      rw [rawNode_own_none (by omega) hn]
      apply rawNode_own_none (by simpa using Nat.le_of_not_lt hlt)
      simp [List.getElem?_set, hne, hn]

/-- Overwriting the node of an own head with a `define` of the same signature. -/
theorem setNode_spec {db : DB} (h : WF db) {s : Sig} {idx : Nat} (hf : find db s = some idx)
    (ho : db.offset ≤ idx) (ch : List Nat) :
    ∃ db', setNode db idx (.define s ch) = .ok db' ∧ WF db' ∧ Same db db' ∧ db'.len = db.len ∧
      (∀ t, find db' t = find db t) ∧ rawNode db' idx = .ok (.define s ch) ∧
      (∀ j, j ≠ idx → rawNode db' j = rawNode db j) := by
  have hlt := find_lt h hf
  have hlen : idx - db.offset < db.layer.nodes.length := by simp [DB.len] at hlt; omega
  have hno : ¬ idx < db.offset := by omega
  refine ⟨db.setLayer { db.layer with nodes := db.layer.nodes.set (idx - db.offset) (.define s ch) },
    by simp only [setNode, hno, hlen, if_true, if_false], ?_, ⟨_, rfl, rfl⟩, ?_, ?_, ?_, ?_⟩
  · exact WF_setLayer h (WFL_setNode h.layer s idx ch (own_head h hf ho))
  · simp [DB.len]
  · intro t; simp [find_eq]
  · exact rawNode_set _ ho hlt
  · intro j hj; exact rawNode_set_ne _ ho hj

theorem rawNode_lt {db : DB} (h : WF db) {j : Nat} {n : Node} (hr : rawNode db j = .ok n) : j < db.len := by
  induction db generalizing j with
  | root l =>
    simp only [rawNode] at hr
    cases hn : l.nodes[j]? with
    | none => simp [hn] at hr
    | some m =>
      have := (List.getElem?_eq_some_iff.mp hn).1
      simp [DB.len, DB.layer, DB.offset]; omega
  | ext l off p ih =>
    simp only [rawNode] at hr
    split at hr
    · rename_i hlt; simp [DB.len, DB.layer, DB.offset]; omega
    · cases hn : l.nodes[j - off]? with
      | none => simp [hn] at hr
      | some m =>
        have := (List.getElem?_eq_some_iff.mp hn).1
        simp [DB.len, DB.layer, DB.offset]; omega

/-- After appending one node, every node is an old one or the appended one. -/
theorem node_old_or_new {db db' : DB} {n : Node} (hw' : WF db') (hlen : db'.len = db.len + 1)
    (hraw : ∀ j, j < db.len → rawNode db' j = rawNode db j) (hnew : rawNode db' db.len = .ok n) :
    ∀ j m, rawNode db' j = .ok m → rawNode db j = .ok m ∨ (j = db.len ∧ m = n) := by
  intro j m hm
  have hj := rawNode_lt hw' hm
  by_cases hlt : j < db.len
  · left; rw [← hraw j hlt]; exact hm
  · have : j = db.len := by omega
    subst this
    rw [hnew] at hm; cases hm
    exact Or.inr ⟨rfl, rfl⟩

theorem appendNode_spec {db : DB} (h : WF db) (n : Node) :
    WF (appendNode db n).1 ∧ Same db (appendNode db n).1 ∧ (appendNode db n).2 = db.len ∧
    (appendNode db n).1.len = db.len + 1 ∧ (∀ t, find (appendNode db n).1 t = find db t) ∧
    (∀ j, j < db.len → rawNode (appendNode db n).1 j = rawNode db j) ∧
    rawNode (appendNode db n).1 db.len = .ok n ∧ (∀ t, defs (appendNode db n).1 t = defs db t) := by
  have hw : WF (appendNode db n).1 := WF_setLayer h (WFL_append h.layer n)
  have hfind : ∀ t, find (appendNode db n).1 t = find db t := by intro t; simp [find_eq, appendNode]
  have hraw : ∀ j, j < db.len → rawNode (appendNode db n).1 j = rawNode db j :=
    fun j hj => rawNode_append _ [n] rfl hj
  refine ⟨hw, ⟨_, rfl, rfl⟩, rfl, ?_, hfind, hraw, ?_, ?_⟩
  · simp [appendNode, DB.len]; omega
  · apply rawNode_own (by simp [appendNode, DB.len])
    simp [appendNode, DB.len]
  · intro t
    exact defs_transfer h hw (hfind t) (fun j hj => hraw j (find_lt h hj))

/-- Specification of `_add_head` on a well-formed database. -/
theorem addHead_spec {db : DB} (h : WF db) (s : Sig) (create : Bool) :
    (∃ b, db.layer.builtins.lookup s = some b ∧
      addHead db s create = if create then .error .accessError else .ok (db, .builtin b)) ∨
    (db.layer.builtins.lookup s = none ∧ ∃ db' idx, addHead db s create = .ok (db', .node idx) ∧
      WF db' ∧ Same db db' ∧ db.len ≤ db'.len ∧ find db' s = some idx ∧
      (create = true → db.offset ≤ idx) ∧
      (∀ t, t ≠ s → find db' t = find db t) ∧
      (∀ j, j < db.len → rawNode db' j = rawNode db j) ∧
      (∀ t, defs db' t = defs db t) ∧
      (∀ j g, rawNode db' j = .ok (.other tagChoice [g]) → rawNode db j = .ok (.other tagChoice [g]))) := by
  cases hb : db.layer.builtins.lookup s with
  | some b => left; exact ⟨b, rfl, by simp only [addHead, hb]⟩
  | none =>
    right
    refine ⟨rfl, ?_⟩
    have hfe := find_eq db s
    cases hg : getHead db s with
    | none =>
      -- new head: append a define / placeholder
      have hfn : find db s = none := hg
      rw [hfn] at hfe
      have hown : db.layer.heads.lookup s = none := by
        cases hh : db.layer.heads.lookup s with
        | none => rfl
        | some n => simp [hh] at hfe
      have hpf : pfind db s = none := by simpa [hown] using hfe.symm
      let n : Node := if create then .define s [] else .empty
      have hn : n = .empty ∨ ∃ ch, n = .define s ch := by
        cases create
        · left; rfl
        · right; exact ⟨[], rfl⟩
      let l' : Layer := { db.layer with nodes := db.layer.nodes ++ [n], heads := (s, db.len) :: db.layer.heads }
      have hres : addHead db s create = .ok (db.setLayer l', .node db.len) := by
        simp only [addHead, hb, hg, appendNode, setHead, layer_setLayer, setLayer_setLayer]
        rfl
      have hw : WF (db.setLayer l') := WF_setLayer h (WFL_newHead h.layer s n hown hpf hn)
      have hfs : find (db.setLayer l') s = some db.len := by simp [find_eq, l', lookup_cons_ite]
      have hft : ∀ t, t ≠ s → find (db.setLayer l') t = find db t := by
        intro t ht; simp [find_eq, l', lookup_cons_ite, ht]
      have hraw : ∀ j, j < db.len → rawNode (db.setLayer l') j = rawNode db j :=
        fun j hj => rawNode_append _ [n] rfl hj
      have hnew : rawNode (db.setLayer l') db.len = .ok n := by
        apply rawNode_own (by simp [DB.len])
        simp [l', DB.len]
      have hlen' : (db.setLayer l').len = db.len + 1 := by simp [DB.len, l']; omega
      refine ⟨_, _, hres, hw, ⟨l', rfl, rfl⟩, by simp [DB.len, l'], hfs, ?_, hft, hraw, ?_, ?_⟩
      · intro _; simp [DB.len]
      rotate_left
      · intro j g hm
        rcases node_old_or_new hw hlen' hraw hnew j _ hm with h1 | ⟨_, h2⟩
        · exact h1
        · rcases hn with hn | ⟨ch, hn⟩ <;> rw [hn] at h2 <;> cases h2
      · intro t
        by_cases ht : t = s
        · subst ht
          rw [defs_of_none hfn]
          rcases hn with hn | ⟨ch, hn⟩
          · exact defs_of_empty hw hfs (by rw [hnew, hn])
          · have : ch = [] := by
              cases create <;> simp [n] at hn
              exact hn
            subst this
            exact defs_of_define hw hfs (by rw [hnew, hn])
        · exact defs_transfer h hw (hft t ht) (fun j hj => hraw j (find_lt h hj))
    | some node =>
      have hfs : find db s = some node := hg
      by_cases hc : create = true ∧ node < db.offset
      · -- copy on write
        obtain ⟨hcr, hlt⟩ := hc
        subst hcr
        obtain ⟨ex, hex, hk⟩ := head_node h hfs
        have hgn : getNode db node = .ok ex := by rw [getNode_head h hfs, hex]
        have hown : db.layer.heads.lookup s = none := by
          cases hh : db.layer.heads.lookup s with
          | none => rfl
          | some n =>
            rw [hfs, hh] at hfe
            simp at hfe; subst hfe
            have := (h.layer.h1 s _ hh).1; omega
        have hpf : pfind db s = some node := by rw [hfs, hown] at hfe; exact hfe.symm
        let clauses : List Nat := match ex with | .define _ ch => ch | _ => []
        let l' : Layer := { db.layer with nodes := db.layer.nodes ++ [.define s clauses],
                                          heads := (s, db.len) :: db.layer.heads,
                                          redirect := (node, db.len) :: db.layer.redirect }
        have hres : addHead db s true = .ok (db.setLayer l', .node db.len) := by
          simp only [addHead, hb, hg, hlt, decide_true, Bool.and_self, if_true, hgn]
          rcases hk with hk | ⟨ch, hk⟩ <;> subst hk <;>
            simp only [appendNode, setHead, addRedirect, layer_setLayer, setLayer_setLayer] <;> rfl
        have hw : WF (db.setLayer l') :=
          WF_setLayer h (WFL_cow h.layer s node clauses hown hpf (fun t ht => pfind_inj h ht hpf))
        have hfs' : find (db.setLayer l') s = some db.len := by simp [find_eq, l', lookup_cons_ite]
        have hft : ∀ t, t ≠ s → find (db.setLayer l') t = find db t := by
          intro t ht; simp [find_eq, l', lookup_cons_ite, ht]
        have hraw : ∀ j, j < db.len → rawNode (db.setLayer l') j = rawNode db j :=
          fun j hj => rawNode_append _ [.define s clauses] rfl hj
        have hnew : rawNode (db.setLayer l') db.len = .ok (.define s clauses) := by
          apply rawNode_own (by simp [DB.len])
          simp [l', DB.len]
        have hlen' : (db.setLayer l').len = db.len + 1 := by simp [DB.len, l']; omega
        refine ⟨_, _, hres, hw, ⟨l', rfl, rfl⟩, by simp [DB.len, l'], hfs', ?_, hft, hraw, ?_, ?_⟩
        · intro _; simp [DB.len]
        rotate_left
        · intro j g hm
          rcases node_old_or_new hw hlen' hraw hnew j _ hm with h1 | ⟨_, h2⟩
          · exact h1
          · cases h2
        · intro t
          by_cases ht : t = s
          · subst ht
            rw [defs_of_define hw hfs' hnew]
            rcases hk with hk | ⟨ch, hk⟩
            · subst hk; exact (defs_of_empty h hfs hex).symm
            · subst hk; exact (defs_of_define h hfs hex).symm
          · exact defs_transfer h hw (hft t ht) (fun j hj => hraw j (find_lt h hj))
      · -- reuse
        have hres : addHead db s create = .ok (db, .node node) := by
          simp only [addHead, hb, hg]
          have : (create && decide (node < db.offset)) = false := by
            cases create <;> simp_all
          simp [this]
        refine ⟨db, node, hres, h, Same.refl db, Nat.le_refl _, hfs, ?_, fun _ _ => rfl, fun _ _ => rfl, fun _ => rfl,
          fun _ _ hm => hm⟩
        intro hcr
        simp [hcr] at hc
        exact hc

theorem ids_nil (s : Sig) : Log.ids [] s = [] := rfl
theorem ids_append (a b : Log) (s : Sig) : Log.ids (a ++ b) s = Log.ids a s ++ Log.ids b s := by
  simp [Log.ids]
theorem ids_cons_self (s : Sig) (c : Nat) (l : Log) : Log.ids ((s, c) :: l) s = c :: Log.ids l s := by
  simp [Log.ids]
theorem ids_cons_ne {s t : Sig} (c : Nat) (l : Log) (h : s ≠ t) : Log.ids ((s, c) :: l) t = Log.ids l t := by
  simp [Log.ids, h]

/-- What an operation that turned `db` into `db'` and logged the clause nodes `log` guarantees. -/
structure Spec (db db' : DB) (log : Log) : Prop where
  wf : WF db'
  same : Same db db'
  len : db.len ≤ db'.len
  defs : ∀ t, defs db' t = defs db t ++ Log.ids log t
  stable : ∀ j n, rawNode db j = .ok n → Node.inert n → rawNode db' j = .ok n
  fresh : ∀ e, e ∈ log → db.len ≤ e.2 ∧
    (rawNode db' e.2 = .ok (.fact e.1) ∨ ∃ b, rawNode db' e.2 = .ok (.clause e.1 b))
  choices : ∀ j g, rawNode db' j = .ok (.other tagChoice [g]) →
    rawNode db j = .ok (.other tagChoice [g]) ∨ (db.len ≤ j ∧ g < j)

theorem Spec.refl {db : DB} (h : WF db) : Spec db db [] :=
  ⟨h, Same.refl db, Nat.le_refl _, by simp [ids_nil], fun _ _ hr _ => hr, by simp, fun _ _ hm => Or.inl hm⟩

theorem Spec.trans {a b c : DB} {l1 l2 : Log} (h1 : Spec a b l1) (h2 : Spec b c l2) : Spec a c (l1 ++ l2) := by
  refine ⟨h2.wf, h1.same.trans h2.same, Nat.le_trans h1.len h2.len, ?_, ?_, ?_, ?_⟩
  rotate_left 3
  · intro j g hm
    rcases h2.choices j g hm with hb | ⟨hl, hg⟩
    · rcases h1.choices j g hb with ha | ⟨hl, hg⟩
      · exact Or.inl ha
      · exact Or.inr ⟨hl, hg⟩
    · exact Or.inr ⟨Nat.le_trans h1.len hl, hg⟩
  · intro t; rw [h2.defs, h1.defs, ids_append, List.append_assoc]
  · intro j n hr hn; exact h2.stable j n (h1.stable j n hr hn) hn
  · intro e he
    rcases List.mem_append.mp he with he | he
    · obtain ⟨hl, hk⟩ := h1.fresh e he
      refine ⟨hl, ?_⟩
      rcases hk with hk | ⟨bb, hk⟩
      · exact Or.inl (h2.stable _ _ hk trivial)
      · exact Or.inr ⟨bb, h2.stable _ _ hk trivial⟩
    · obtain ⟨hl, hk⟩ := h2.fresh e he
      exact ⟨Nat.le_trans h1.len hl, hk⟩

/-- Result of an operation: a `Spec` step, or the AccessError of a builtin head — never an IndexError
    ("Can't update node in parent."), never a write into the parent. -/
def Good {α : Type} (db : DB) (r : Except Err (DB × α)) (log : α → Log) : Prop :=
  match r with
  | .ok (db', x) => Spec db db' (log x)
  | .error e => e = .accessError

theorem addDefineNode_spec {db : DB} (h : WF db) (s : Sig) (c : Nat) :
    match addDefineNode db s c with
    | .ok db' => WF db' ∧ Same db db' ∧ db.len ≤ db'.len ∧ defs db' s = defs db s ++ [c] ∧
        (∀ t, t ≠ s → defs db' t = defs db t) ∧
        (∀ j n, rawNode db j = .ok n → Node.inert n → rawNode db' j = .ok n) ∧
        (∀ j g, rawNode db' j = .ok (.other tagChoice [g]) → rawNode db j = .ok (.other tagChoice [g]))
    | .error e => e = .accessError := by
  rcases addHead_spec h s true with ⟨b, _, hres⟩ | ⟨_, db1, idx, hres, hw1, hs1, hl1, hf1, ho1, _, hr1, hd1, hc1⟩
  · simp only [addDefineNode, hres, if_true]
  · have ho : db1.offset ≤ idx := by rw [hs1.offset]; exact ho1 rfl
    obtain ⟨m, hm, hk⟩ := head_node hw1 hf1
    have hgn : getNode db1 idx = .ok m := by rw [getNode_head hw1 hf1, hm]
    have stab1 : ∀ j n, rawNode db j = .ok n → rawNode db1 j = .ok n := by
      intro j n hr; rw [hr1 j (rawNode_lt h hr)]; exact hr
    -- common tail: overwrite the head's node with `define s ch'`
    have tail : ∀ ch' : List Nat, ∀ old : List Nat, defs db1 s = old → ch' = old ++ [c] →
        ∀ db2, setNode db1 idx (.define s ch') = .ok db2 → WF db2 → Same db1 db2 → db2.len = db1.len →
        (∀ t, find db2 t = find db1 t) → rawNode db2 idx = .ok (.define s ch') →
        (∀ j, j ≠ idx → rawNode db2 j = rawNode db1 j) →
        WF db2 ∧ Same db db2 ∧ db.len ≤ db2.len ∧ defs db2 s = defs db s ++ [c] ∧
        (∀ t, t ≠ s → defs db2 t = defs db t) ∧
        (∀ j n, rawNode db j = .ok n → Node.inert n → rawNode db2 j = .ok n) ∧
        (∀ j g, rawNode db2 j = .ok (.other tagChoice [g]) → rawNode db j = .ok (.other tagChoice [g])) := by
      intro ch' old hold hch db2 _ hw2 hs2 hl2 hf2 hraw hne
      refine ⟨hw2, hs1.trans hs2, by omega, ?_, ?_, ?_, ?_⟩
      rotate_left 3
      · intro j g hmj
        apply hc1
        by_cases e : j = idx
        · rw [e, hraw] at hmj; cases hmj
        · rw [← hne j e]; exact hmj
      · rw [defs_of_define hw2 (by rw [hf2]; exact hf1) hraw, hch, ← hold, hd1]
      · intro t ht
        rw [← hd1 t]
        apply defs_transfer hw1 hw2 (hf2 t)
        intro j hj
        apply hne
        intro e; subst e
        exact ht (find_inj hw1 hj hf1)
      · intro j n hr hn
        have h1 := stab1 j n hr
        rw [hne j]; exact h1
        intro e; subst e
        rw [hm] at h1; cases h1
        rcases hk with hk | ⟨ch, hk⟩ <;> subst hk <;> exact hn
    rcases hk with hk | ⟨ch, hk⟩
    · subst hk
      obtain ⟨db2, hset, hw2, hs2, hl2, hf2, hraw, hne⟩ := setNode_spec hw1 hf1 ho [c]
      have : addDefineNode db s c = .ok db2 := by
        simp only [addDefineNode, hres, hgn, Node.truthy]
        simpa using hset
      rw [this]
      exact tail [c] [] (defs_of_empty hw1 hf1 hm) rfl db2 hset hw2 hs2 hl2 hf2 hraw hne
    · subst hk
      obtain ⟨db2, hset, hw2, hs2, hl2, hf2, hraw, hne⟩ := setNode_spec hw1 hf1 ho (ch ++ [c])
      have hno : ¬ idx < db1.offset := by omega
      have : addDefineNode db s c = .ok db2 := by
        simp only [addDefineNode, hres, hgn, Node.truthy, if_true, appendChild, resolve_head hw1 hf1, hm, hno,
          if_false]
        exact hset
      rw [this]
      exact tail (ch ++ [c]) ch (defs_of_define hw1 hf1 hm) rfl db2 hset hw2 hs2 hl2 hf2 hraw hne

theorem appendNode_Spec {db : DB} (h : WF db) (n : Node)
    (hn : ∀ g, n = .other tagChoice [g] → g < db.len := by intro g hg; simp [tagConj, tagDisj, tagNeg, tagChoice, tagChoiceCall] at hg) :
    Spec db (appendNode db n).1 [] := by
  obtain ⟨hw, hs, _, hl, _, hraw, hnew, hd⟩ := appendNode_spec h n
  refine ⟨hw, hs, by omega, by simp [hd, ids_nil], fun j m hr _ => by rw [hraw j (rawNode_lt h hr)]; exact hr, by simp, ?_⟩
  intro j g hm
  rcases node_old_or_new hw hl hraw hnew j _ hm with h1 | ⟨h1, h2⟩
  · exact Or.inl h1
  · subst h1
    exact Or.inr ⟨Nat.le_refl _, hn g h2.symm⟩

theorem addHead_Good {db : DB} (h : WF db) (s : Sig) (create : Bool) :
    Good db (addHead db s create) (fun _ => []) := by
  rcases addHead_spec h s create with ⟨b, _, hres⟩ | ⟨_, db1, idx, hres, hw1, hs1, hl1, _, _, _, hr1, hd1, hc1⟩
  · rw [hres]; cases create
    · exact Spec.refl h
    · rfl
  · rw [hres]
    exact ⟨hw1, hs1, hl1, by simp [hd1, ids_nil], fun j m hr _ => by rw [hr1 j (rawNode_lt h hr)]; exact hr, by simp,
      fun j g hm => Or.inl (hc1 j g hm)⟩

theorem addDefine_after_append {db : DB} (h : WF db) (s : Sig) (n : Node) (hn : Node.inert n)
    (hk : n = .fact s ∨ ∃ b, n = .clause s b) :
    Good db (match addDefineNode (appendNode db n).1 s (appendNode db n).2 with
             | .error e => .error e
             | .ok db2 => .ok (db2, (appendNode db n).2)) (fun c => [(s, c)]) := by
  obtain ⟨hw, hs, hc, hl, _, hraw, hnew, hd⟩ := appendNode_spec h n
  have hspec := addDefineNode_spec hw s (appendNode db n).2
  cases hres : addDefineNode (appendNode db n).1 s (appendNode db n).2 with
  | error e => rw [hres] at hspec; exact hspec
  | ok db2 =>
    rw [hres] at hspec
    obtain ⟨hw2, hs2, hl2, hds, hdt, hst, hch⟩ := hspec
    refine ⟨hw2, hs.trans hs2, by omega, ?_, ?_, ?_, ?_⟩
    rotate_left 3
    · intro j g hmj
      rcases node_old_or_new hw hl hraw hnew j _ (hch j g hmj) with h1 | ⟨_, h2⟩
      · exact Or.inl h1
      · rcases hk with hk | ⟨b, hk⟩ <;> rw [hk] at h2 <;> cases h2
    · intro t
      by_cases ht : t = s
      · subst ht; rw [hds, hd, ids_cons_self, ids_nil]
      · rw [hdt t ht, hd, ids_cons_ne _ _ (Ne.symm ht), ids_nil, List.append_nil]
    · intro j m hr hm
      apply hst j m _ hm
      rw [hraw j (rawNode_lt h hr)]; exact hr
    · intro e he
      simp at he; subst he
      refine ⟨by simp [hc], ?_⟩
      have := hst db.len n hnew hn
      simp only [hc]
      rcases hk with hk | ⟨b, hk⟩
      · left; rw [this, hk]
      · right; exact ⟨b, by rw [this, hk]⟩

theorem addClauseNode_Good {db : DB} (h : WF db) (s : Sig) (body : Nat) :
    Good db (addClauseNode db s body) (fun c => [(s, c)]) :=
  addDefine_after_append h s (.clause s body) trivial (Or.inr ⟨body, rfl⟩)

theorem addFact_Good {db : DB} (h : WF db) (s : Sig) : Good db (addFact db s) (fun c => [(s, c)]) :=
  addDefine_after_append h s (.fact s) trivial (Or.inl rfl)

theorem Good.append {α : Type} {db : DB} {r : Except Err (DB × α)} (hg : Good db r (fun _ => [])) (f : α → Node)
    (hf : ∀ x g, f x ≠ .other tagChoice [g]) :
    Good db (match r with
             | .error e => .error e
             | .ok (db1, x) => .ok (appendNode db1 (f x))) (fun (_ : Nat) => []) := by
  cases r with
  | error e => exact hg
  | ok p =>
    obtain ⟨db1, x⟩ := p
    have h1 : Spec db db1 [] := hg
    have := h1.trans (appendNode_Spec h1.wf (f x) (fun g hg => absurd hg (hf x g)))
    exact this

theorem addCallNode_Good {db : DB} (h : WF db) (s : Sig) : Good db (addCallNode db s) (fun _ => []) := by
  have := (addHead_Good h s false).append (fun ref => Node.call s ref) (by intro ref g hh; cases hh)
  unfold addCallNode
  cases hr : addHead db s false with
  | error e => rw [hr] at this; exact this
  | ok p => obtain ⟨db1, ref⟩ := p; rw [hr] at this; exact this

theorem compileBody_Good {db : DB} (h : WF db) (b : Body) : Good db (compileBody db b) (fun _ => []) := by
  induction b generalizing db with
  | call s => exact addCallNode_Good h s
  | conj a b iha ihb =>
    have ha := iha h
    cases hra : compileBody db a with
    | error e => rw [hra] at ha; simp only [compileBody, hra]; exact ha
    | ok p =>
      obtain ⟨db1, i⟩ := p
      rw [hra] at ha
      have ha : Spec db db1 [] := ha
      have hb := ihb ha.wf
      cases hrb : compileBody db1 b with
      | error e => rw [hrb] at hb; simp only [compileBody, hra, hrb]; exact hb
      | ok q =>
        obtain ⟨db2, j⟩ := q
        rw [hrb] at hb
        have hb : Spec db1 db2 [] := hb
        have := (ha.trans hb).trans (appendNode_Spec hb.wf (.other tagConj [i, j]))
        simp only [compileBody, hra, hrb]
        exact this
  | disj a b iha ihb =>
    have ha := iha h
    cases hra : compileBody db a with
    | error e => rw [hra] at ha; simp only [compileBody, hra]; exact ha
    | ok p =>
      obtain ⟨db1, i⟩ := p
      rw [hra] at ha
      have ha : Spec db db1 [] := ha
      have hb := ihb ha.wf
      cases hrb : compileBody db1 b with
      | error e => rw [hrb] at hb; simp only [compileBody, hra, hrb]; exact hb
      | ok q =>
        obtain ⟨db2, j⟩ := q
        rw [hrb] at hb
        have hb : Spec db1 db2 [] := hb
        have := (ha.trans hb).trans (appendNode_Spec hb.wf (.other tagDisj [i, j]))
        simp only [compileBody, hra, hrb]
        exact this
  | neg a iha =>
    have ha := iha h
    cases hra : compileBody db a with
    | error e => rw [hra] at ha; simp only [compileBody, hra]; exact ha
    | ok p =>
      obtain ⟨db1, i⟩ := p
      rw [hra] at ha
      have ha : Spec db db1 [] := ha
      have := ha.trans (appendNode_Spec ha.wf (.other tagNeg [i]))
      simp only [compileBody, hra]
      exact this

theorem Spec.then_addClause {db X : DB} (hX : Spec db X []) (hd : Sig) (y : Nat) :
    Good db (addClauseNode X hd y) (fun c => [(hd, c)]) := by
  have g := addClauseNode_Good hX.wf hd y
  cases hr : addClauseNode X hd y with
  | error e => rw [hr] at g; exact g
  | ok p =>
    obtain ⟨db5, c⟩ := p
    rw [hr] at g
    have g : Spec X db5 [(hd, c)] := g
    exact hX.trans g

theorem addChoice_Good {db : DB} (h : WF db) (group : Nat) (hgr : group < db.len) (bodySig : Sig) (cb : Ref)
    (hd : Sig) : Good db (addChoice db group bodySig cb hd) (fun c => [(hd, c)]) := by
  have s1 := appendNode_Spec h (.other tagChoice [group]) (by
    intro g hg
    have : g = group := by simp at hg; exact hg.symm
    omega)
  have s2 := appendNode_Spec s1.wf (.other tagChoiceCall [(appendNode db (.other tagChoice [group])).2])
  have s12 := s1.trans s2
  have s3 := appendNode_Spec s12.wf (.call bodySig cb) (by intro g hg; cases hg)
  have s123 := s12.trans s3
  have s4 := appendNode_Spec s123.wf (.other tagConj
    [(appendNode (appendNode (appendNode db (.other tagChoice [group])).1
        (.other tagChoiceCall [(appendNode db (.other tagChoice [group])).2])).1 (.call bodySig cb)).2,
     (appendNode (appendNode db (.other tagChoice [group])).1
        (.other tagChoiceCall [(appendNode db (.other tagChoice [group])).2])).2])
  have s1234 := s123.trans s4
  simp only [List.append_nil] at s1234
  exact s1234.then_addClause hd _

theorem addChoices_Good {db : DB} (h : WF db) (group : Nat) (hgr : group < db.len) (bodySig : Sig) (cb : Ref)
    (hs : List Sig) : Good db (addChoices db group bodySig cb hs) id := by
  induction hs generalizing db with
  | nil => exact Spec.refl h
  | cons hd tl ih =>
    simp only [addChoices]
    have g := addChoice_Good h group hgr bodySig cb hd
    cases hr : addChoice db group bodySig cb hd with
    | error e => rw [hr] at g; dsimp only; exact g
    | ok p =>
      obtain ⟨db1, c⟩ := p
      dsimp only
      rw [hr] at g
      have g : Spec db db1 [(hd, c)] := g
      have g2 := ih g.wf (Nat.lt_of_lt_of_le hgr g.len)
      cases hr2 : addChoices db1 group bodySig cb tl with
      | error e => rw [hr2] at g2; dsimp only; exact g2
      | ok q =>
        obtain ⟨db2, log⟩ := q
        dsimp only
        rw [hr2] at g2
        have g2 : Spec db1 db2 log := g2
        exact g.trans g2

theorem applyOp_Good {db : DB} (h : WF db) (op : Op) : Good db (applyOp db op) id := by
  cases op with
  | fact s =>
    simp only [applyOp]
    have g := addFact_Good h s
    cases hr : addFact db s with
    | error e => rw [hr] at g; dsimp only; exact g
    | ok p => obtain ⟨db1, c⟩ := p; rw [hr] at g; exact g
  | clause s b =>
    simp only [applyOp]
    have g := compileBody_Good h b
    cases hr : compileBody db b with
    | error e => rw [hr] at g; dsimp only; exact g
    | ok p =>
      obtain ⟨db1, bn⟩ := p
      dsimp only
      rw [hr] at g
      have g : Spec db db1 [] := g
      have g2 := addClauseNode_Good g.wf s bn
      cases hr2 : addClauseNode db1 s bn with
      | error e => rw [hr2] at g2; dsimp only; exact g2
      | ok q =>
        obtain ⟨db2, c⟩ := q
        dsimp only
        rw [hr2] at g2
        have g2 : Spec db1 db2 [(s, c)] := g2
        have := g.trans g2
        exact this
  | ad heads b =>
    simp only [applyOp]
    have g := compileBody_Good h b
    cases hr : compileBody db b with
    | error e => rw [hr] at g; dsimp only; exact g
    | ok p =>
      obtain ⟨db1, bn⟩ := p
      dsimp only
      rw [hr] at g
      have g : Spec db db1 [] := g
      have g2 := addClauseNode_Good g.wf (Sig.body db1.len) bn
      cases hr2 : addClauseNode db1 (Sig.body db1.len) bn with
      | error e => rw [hr2] at g2; dsimp only; exact g2
      | ok q =>
        obtain ⟨db2, c⟩ := q
        dsimp only
        rw [hr2] at g2
        have g2 : Spec db1 db2 [(Sig.body db1.len, c)] := g2
        have g3 := addHead_Good g2.wf (Sig.body db1.len) true
        cases hr3 : addHead db2 (Sig.body db1.len) true with
        | error e => rw [hr3] at g3; dsimp only; exact g3
        | ok q3 =>
          obtain ⟨db3, cb⟩ := q3
          dsimp only
          rw [hr3] at g3
          have g3 : Spec db2 db3 [] := g3
          have hgr : adGroup db < db3.len := by
            have hc := (g2.fresh _ (List.mem_singleton.mpr rfl)).1
            have hlt : c < db2.len := by
              rcases (g2.fresh _ (List.mem_singleton.mpr rfl)).2 with hk | ⟨bb, hk⟩
              · exact rawNode_lt g2.wf hk
              · exact rawNode_lt g2.wf hk
            have := g.len
            have := g3.len
            simp only [adGroup] at *
            omega
          have g4 := addChoices_Good g3.wf (adGroup db) hgr (Sig.body db1.len) cb heads
          cases hr4 : addChoices db3 (adGroup db) (Sig.body db1.len) cb heads with
          | error e => rw [hr4] at g4; dsimp only; exact g4
          | ok q4 =>
            obtain ⟨db4, log⟩ := q4
            dsimp only
            rw [hr4] at g4
            have g4 : Spec db3 db4 log := g4
            have := ((g.trans g2).trans g3).trans g4
            simp only [List.append_nil, List.nil_append] at this
            exact this
  | call b =>
    simp only [applyOp]
    have g := compileBody_Good h b
    cases hr : compileBody db b with
    | error e => rw [hr] at g; dsimp only; exact g
    | ok p => obtain ⟨db1, bn⟩ := p; rw [hr] at g; exact g

theorem run_Good {db : DB} (h : WF db) (ops : List Op) : Good db (run db ops) id := by
  induction ops generalizing db with
  | nil => exact Spec.refl h
  | cons op ops ih =>
    simp only [run]
    have g := applyOp_Good h op
    cases hr : applyOp db op with
    | error e => rw [hr] at g; dsimp only; exact g
    | ok p =>
      obtain ⟨db1, l1⟩ := p
      dsimp only
      rw [hr] at g
      have g : Spec db db1 l1 := g
      have g2 := ih g.wf
      cases hr2 : run db1 ops with
      | error e => rw [hr2] at g2; dsimp only; exact g2
      | ok q =>
        obtain ⟨db2, l2⟩ := q
        dsimp only
        rw [hr2] at g2
        have g2 : Spec db1 db2 l2 := g2
        exact g.trans g2

/-! ### `extend` and the empty root -/

theorem WFL_empty (b : List (Sig × Nat)) (off : Nat) (pf : Sig → Option Nat) : WFL { builtins := b } off pf :=
  ⟨by simp, by simp, by simp, by simp⟩

theorem WF_root_empty (b : List (Sig × Nat)) : WF (.root { builtins := b }) := WFL_empty b 0 _

theorem WF_extend {p : DB} (h : WF p) : WF (extend p) := ⟨rfl, h, WFL_empty _ _ _⟩

theorem Anc_extend (p : DB) : Anc p (extend p) := Anc.step (Anc.refl p)

theorem find_extend {p : DB} (h : WF p) (s : Sig) : find (extend p) s = find p s := by
  simp only [extend, find_ext]
  by_cases hz : p.len = 0
  · cases hf : find p s with
    | none => simp [hz]
    | some i => have := find_lt h hf; omega
  · simp [hz]

theorem defs_extend {p : DB} (h : WF p) (s : Sig) : defs (extend p) s = defs p s := by
  rw [defs_raw (WF_extend h), defs_raw h, find_extend h]
  cases hf : find p s with
  | none => rfl
  | some i =>
    have := find_lt h hf
    simp only [extend, rawNode, this, if_true]

end ProbLogProofs.ClauseDBLemmas
