import ProbLogModel.PyNum
import ProbLogModel.IsoArith
/-! Helper lemmas for C16 (integer division roundings, two's-complement bits). Core Lean only. -/
namespace ProbLogProofs.ArithLemmas
open ProbLogModel ProbLogModel.PyNum

theorem fdiv_same_sign (a b : Int) (h : (a < 0 ∧ b < 0) ∨ (0 ≤ a ∧ 0 < b)) : a.fdiv b = a.tdiv b := by
  rw [Int.fdiv_eq_tdiv]
  rcases h with ⟨ha, hb⟩ | ⟨ha, hb⟩
  · have := Int.sign_eq_neg_one_of_neg hb
    (repeat' split) <;> omega
  · have := Int.sign_eq_one_of_pos hb
    (repeat' split) <;> omega

theorem fdiv_diff_sign (a b : Int) (h : (a < 0 ∧ 0 < b) ∨ (0 ≤ a ∧ b < 0)) : -((-a).fdiv b) = a.tdiv b := by
  by_cases h0 : a = 0
  · subst h0; simp
  rw [Int.fdiv_eq_tdiv, Int.neg_tdiv]
  rcases h with ⟨ha, hb⟩ | ⟨ha, hb⟩
  · have := Int.sign_eq_one_of_pos hb
    (repeat' split) <;> omega
  · have := Int.sign_eq_neg_one_of_neg hb
    (repeat' split) <;> omega

/-- The repaired `//` lambda computes the truncated quotient from Python's floor division. -/
theorem tdiv_of_fdiv (a b : Int) (hb : b ≠ 0) :
    (if (decide (a < 0) != decide (b < 0)) then -((-a).fdiv b) else a.fdiv b) = a.tdiv b := by
  by_cases ha : a < 0 <;> by_cases hb' : b < 0 <;>
    simp only [ha, hb', decide_true, decide_false, bne_self_eq_false, Bool.true_bne, Bool.false_bne,
      Bool.not_false, if_true, if_false, Bool.false_eq_true]
  · exact fdiv_same_sign a b (Or.inl ⟨ha, hb'⟩)
  · exact fdiv_diff_sign a b (Or.inl ⟨ha, by omega⟩)
  · exact fdiv_diff_sign a b (Or.inr ⟨by omega, hb'⟩)
  · exact fdiv_same_sign a b (Or.inr ⟨by omega, by omega⟩)

/-- `(a - a % b) // b = a // b` (Python's `div` lambda). -/
theorem fdiv_sub_fmod (a b : Int) (hb : b ≠ 0) : (a - a.fmod b).fdiv b = a.fdiv b := by
  have h := Int.fmod_def a b
  have : a - a.fmod b = b * a.fdiv b := by omega
  rw [this]
  exact Int.mul_fdiv_cancel_left _ hb

/-- Python's `int(x)` on a float (truncation of num/den) is ISO's truncate. -/
theorem ratTrunc_eq (q : Rat) : PyNum.ratTrunc q = Iso.truncate q := by
  unfold PyNum.ratTrunc Iso.truncate Rat.floor Rat.ceil
  by_cases hd : q.den = 1
  · simp [hd]
  · have hnd : ¬ ((q.den : Int) ∣ q.num) := by
      intro h
      rw [Int.ofNat_dvd_left] at h
      have := Nat.Coprime.eq_one_of_dvd q.reduced.symm h
      exact hd this
    simp only [hd, if_false]
    rw [Int.tdiv_eq_ediv]
    have hpos : (0 : Int) < q.den := by have := q.den_pos; omega
    by_cases hn : 0 ≤ q.num
    · have : 0 ≤ q := Rat.num_nonneg.mp hn
      simp [hn, this]
    · have : ¬ 0 ≤ q := fun h => hn (Rat.num_nonneg.mpr h)
      simp [hn, this, hnd, Int.sign_eq_one_of_pos hpos]

/-! ## two's-complement bits -/
set_option linter.unusedSimpArgs false

theorem bit_eq_shift (a : Int) (i : Nat) : Iso.bit a i = decide ((a >>> i) % 2 = 1) := by
  unfold Iso.bit Iso.floorDiv
  rw [Int.shiftRight_eq_div_pow, Int.fdiv_eq_ediv_of_nonneg]
  · simp
  · exact Int.le_of_lt (Int.pow_pos (by decide))

theorem bit_ofNat (m i : Nat) : Iso.bit (Int.ofNat m) i = m.testBit i := by
  rw [bit_eq_shift, Nat.testBit_eq_decide_div_mod_eq]
  show decide (((m >>> i : Nat) : Int) % 2 = 1) = _
  rw [Nat.shiftRight_eq_div_pow]
  congr 1
  apply propext
  omega

theorem bit_negSucc (m i : Nat) : Iso.bit (Int.negSucc m) i = !m.testBit i := by
  rw [bit_eq_shift, Nat.testBit_eq_decide_div_mod_eq]
  show decide ((Int.negSucc (m >>> i)) % 2 = 1) = _
  rw [Nat.shiftRight_eq_div_pow]
  generalize m / 2 ^ i = k
  by_cases h : k % 2 = 1
  · have : ¬ (Int.negSucc k % 2 = 1) := by omega
    simp [h, this]
  · have : Int.negSucc k % 2 = 1 := by omega
    simp [h, this]

theorem bit_land (a b : Int) (i : Nat) : Iso.bit (PyNum.landInt a b) i = (Iso.bit a i && Iso.bit b i) := by
  cases a <;> cases b <;> simp only [PyNum.landInt] <;>
    first
    | (rw [← Int.ofNat_eq_natCast]; simp only [bit_ofNat, bit_negSucc, Nat.testBit_and, Nat.testBit_or, Nat.testBit_xor])
    | simp only [bit_ofNat, bit_negSucc, Nat.testBit_and, Nat.testBit_or, Nat.testBit_xor]
  all_goals (rename_i m n; cases m.testBit i <;> cases n.testBit i <;> rfl)

theorem bit_lor (a b : Int) (i : Nat) : Iso.bit (PyNum.lorInt a b) i = (Iso.bit a i || Iso.bit b i) := by
  cases a <;> cases b <;> simp only [PyNum.lorInt] <;>
    first
    | (rw [← Int.ofNat_eq_natCast]; simp only [bit_ofNat, bit_negSucc, Nat.testBit_and, Nat.testBit_or, Nat.testBit_xor])
    | simp only [bit_ofNat, bit_negSucc, Nat.testBit_and, Nat.testBit_or, Nat.testBit_xor]
  all_goals (rename_i m n; cases m.testBit i <;> cases n.testBit i <;> rfl)

theorem bit_xor (a b : Int) (i : Nat) : Iso.bit (PyNum.xorInt a b) i = (Iso.bit a i ^^ Iso.bit b i) := by
  cases a <;> cases b <;> simp only [PyNum.xorInt] <;>
    first
    | (rw [← Int.ofNat_eq_natCast]; simp only [bit_ofNat, bit_negSucc, Nat.testBit_and, Nat.testBit_or, Nat.testBit_xor])
    | simp only [bit_ofNat, bit_negSucc, Nat.testBit_and, Nat.testBit_or, Nat.testBit_xor]
  all_goals (rename_i m n; cases m.testBit i <;> cases n.testBit i <;> rfl)

end ProbLogProofs.ArithLemmas
