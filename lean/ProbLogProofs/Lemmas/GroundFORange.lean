import ProbLogProofs.Lemmas.GroundFOSpecOK
import ProbLogProofs.Lemmas.GroundFOSem3
import ProbLogProofs.Lemmas.GroundFOUnify
/-!
# First-order grounder model: every reported tuple has its constants in range (core Lean only)

Under `SpecOK` (facts and head constants in range, range restriction) every answer the model produces with a node that
is not FALSE consists of constants `< nconsts`: the variables of a clause are bound by the answers of its positive body
atoms (`Good`), bound constants persist (`Ext`), and at the end of the body every clause variable is bound.
Partial-correctness style (`… = .ok r → …`), one pass over the continuation-passing functions.
-/
namespace ProbLogProofs.GroundFOSem
open ProbLogModel ProbLogModel.Formula ProbLogModel.GroundFO ProbLogProofs.GroundSem

/-- the variable `i` of the context is bound to a constant in range -/
def Good (nc : Nat) (ctx : Ctx) (i : Nat) : Prop := ∃ x, ctx[i]? = some (Val.c x) ∧ x < nc

/-- bound constants persist -/
def Ext (ctx ctx' : Ctx) : Prop := ctx'.length = ctx.length ∧ ∀ (i : Nat) (x : Const), ctx[i]? = some (Val.c x) → ctx'[i]? = some (Val.c x)

theorem Ext.refl (ctx : Ctx) : Ext ctx ctx := ⟨rfl, fun _ _ h => h⟩

theorem Ext.trans {a b c : Ctx} (h1 : Ext a b) (h2 : Ext b c) : Ext a c :=
  ⟨h2.1.trans h1.1, fun i x h => h2.2 i x (h1.2 i x h)⟩

theorem Good.ext {nc : Nat} {ctx ctx' : Ctx} {i : Nat} (h : Good nc ctx i) (he : Ext ctx ctx') : Good nc ctx' i := by
  obtain ⟨x, h1, h2⟩ := h
  exact ⟨x, he.2 i x h1, h2⟩

theorem inR_mem {nc : Nat} {a : List Const} (h : inR nc a = true) : ∀ x ∈ a, x < nc := by
  simpa [inR, List.all_eq_true] using h

theorem bindAnswer_sub : ∀ (args : List Val) (ans : List Const) (ctx ctx' : Ctx), bindAnswer args ans ctx = some ctx' →
    ∃ s : Val → Val, (∀ x, s (.c x) = .c x) ∧ ctx' = ctx.map s ∧ args.map s = ans.map Val.c
  | [], [], ctx, ctx', h => by
    simp [bindAnswer] at h; subst h; exact ⟨id, fun _ => rfl, by simp, rfl⟩
  | [], _ :: _, _, _, h => by simp [bindAnswer] at h
  | _ :: _, [], _, _, h => by simp [bindAnswer] at h
  | .c x :: as, c :: cs, ctx, ctx', h => by
    simp only [bindAnswer] at h
    split at h
    · rename_i hx
      obtain ⟨s, h1, h2, h3⟩ := bindAnswer_sub as cs ctx ctx' h
      have : x = c := by simpa using hx
      exact ⟨s, h1, h2, by simp only [List.map_cons, h1, h3, this]⟩
    · cases h
  | .v id :: as, c :: cs, ctx, ctx', h => by
    simp only [bindAnswer] at h
    obtain ⟨s, h1, h2, h3⟩ := bindAnswer_sub _ cs _ ctx' h
    refine ⟨fun v => s (if v == .v id then .c c else v), fun x => ?_, ?_, ?_⟩
    · simp [h1]
    · rw [h2]; simp [bindIn, List.map_map, Function.comp_def]
    · simp only [List.map_cons, beq_self_eq_true, if_true, h1]
      rw [← h3]; simp [bindIn, List.map_map, Function.comp_def]

theorem bindAnswer_ext {args : List Val} {ans : List Const} {ctx ctx' : Ctx} (h : bindAnswer args ans ctx = some ctx') :
    Ext ctx ctx' := by
  obtain ⟨s, h1, rfl, _⟩ := bindAnswer_sub _ _ _ _ h
  refine ⟨by simp, fun i x hi => ?_⟩
  simp [List.getElem?_map, hi, h1]

theorem bindAnswer_good {nc : Nat} {ts : List Term} {ans : List Const} {ctx ctx' : Ctx}
    (h : bindAnswer (ts.map (Term.val ctx)) ans ctx = some ctx') (hin : inR nc ans = true) (i : Nat)
    (hi : Term.var i ∈ ts) (hlt : i < ctx.length) : Good nc ctx' i := by
  obtain ⟨s, h1, rfl, h3⟩ := bindAnswer_sub _ _ _ _ h
  have hm : s (Term.val ctx (.var i)) ∈ (ts.map (Term.val ctx)).map s :=
    List.mem_map_of_mem (List.mem_map_of_mem hi)
  rw [h3] at hm
  obtain ⟨x, hx, hxe⟩ := List.mem_map.1 hm
  have hv : Term.val ctx (.var i) = ctx[i] := by
    simp [Term.val, List.getD_eq_getElem?_getD, List.getElem?_eq_getElem hlt]
  refine ⟨x, ?_, inR_mem hin x hx⟩
  rw [List.getElem?_map, List.getElem?_eq_getElem hlt, Option.map_some, ← hv, ← hxe]

/-! ### the invariants -/

def ResR (nc : Nat) (rs : Results) : Prop := ∀ r ∈ rs, isFalse r.2 = false → inR nc r.1 = true

def TabR (nc : Nat) (t : Table) : Prop :=
  (∀ e ∈ t.ground, isFalse e.2 = false → inR nc e.1.2 = true) ∧ (∀ e ∈ t.ng, ResR nc e.2)

def EvR (nc : Nat) (ev : Eval) : Prop :=
  ∀ g st rs st', TabR nc st.table → ev g st = .ok (rs, st') → TabR nc st'.table ∧ ResR nc rs

def WR {α : Type} (A : α → Prop) (nc : Nat) (w : α × St) : Prop := A w.1 ∧ TabR nc w.2.table

def BufR (nc : Nat) (buf : Buf) : Prop := ∀ e ∈ buf, inR nc e.1 = true

section
variable {α : Type} {A : α → Prop} {nc : Nat}

theorem feed_R (sink : Sink α) (args : List Val) (ctx : Ctx) (Q : Ctx → Prop)
    (hsink : ∀ ctx' k w w', Q ctx' → WR A nc w → sink ctx' k w = .ok w' → WR A nc w')
    (hQ : ∀ ans ctx', inR nc ans = true → bindAnswer args ans ctx = some ctx' → Q ctx') :
    ∀ (rs : Results) (w w' : α × St), ResR nc rs → WR A nc w → feed sink args ctx rs w = .ok w' → WR A nc w'
  | [], w, w', _, hw, h => by
    simp only [feed, pure, Except.pure, Except.ok.injEq] at h
    subst h; exact hw
  | (ans, k) :: r, w, w', hr, hw, h => by
    have hr' : ResR nc r := fun x hx => hr x (List.mem_cons_of_mem _ hx)
    simp only [feed] at h
    split at h
    · exact feed_R sink args ctx Q hsink hQ r w w' hr' hw h
    · rename_i hk
      have hin : inR nc ans = true := hr (ans, k) List.mem_cons_self (by simpa using hk)
      split at h
      · exact feed_R sink args ctx Q hsink hQ r w w' hr' hw h
      · rename_i ctx' hb
        simp only [bind, Except.bind] at h
        cases hsk : sink ctx' k w with
        | error e => rw [hsk] at h; cases h
        | ok w1 =>
          rw [hsk] at h
          exact feed_R sink args ctx Q hsink hQ r w1 w' hr' (hsink ctx' k w w1 (hQ ans ctx' hin hb) hw hsk) h

theorem evalItem_R (P : Prog) {ev : Eval} (hev : EvR nc ev) (sink : Sink α) (it : Item) (ctx : Ctx) (Q : Ctx → Prop)
    (hsink : ∀ ctx' k w w', Q ctx' → WR A nc w → sink ctx' k w = .ok w' → WR A nc w')
    (hQ : ∀ ctx', Ext ctx ctx' → (∀ b, it = .lit (.pos b) → ∀ i, Term.var i ∈ b.args → Good nc ctx' i) → Q ctx')
    (hir : Item.inRange ctx.length it) (w w' : α × St) (hw : WR A nc w)
    (h : evalItem P ev sink it ctx w = .ok w') : WR A nc w' := by
  obtain ⟨acc, st⟩ := w
  have hQ0 : (∀ b, it ≠ .lit (.pos b)) → Q ctx := fun hne => hQ ctx (Ext.refl ctx) (fun b hb => absurd hb (hne b))
  cases it with
  | lit l =>
    cases l with
    | pos a =>
      simp only [evalItem, bind, Except.bind] at h
      cases he : ev ⟨a.pred, (canon (a.args.map (Term.val ctx)) []).1⟩ st with
      | error e => rw [he] at h; cases h
      | ok r =>
        obtain ⟨rs, st1⟩ := r
        rw [he] at h
        obtain ⟨ht1, hr1⟩ := hev _ _ _ _ hw.2 he
        refine feed_R sink _ ctx Q hsink (fun ans ctx' hin hb => hQ ctx' (bindAnswer_ext hb) ?_) rs (acc, st1) w' hr1
          ⟨hw.1, ht1⟩ h
        intro b hb i hi
        cases hb
        exact bindAnswer_good hb hin i hi (hir _ hi)
    | neg a =>
      have hq := hQ0 (fun b hb => by cases hb)
      simp only [evalItem, bind, Except.bind] at h
      split at h
      · cases h
      · cases he : ev ⟨a.pred, a.args.map (Term.val ctx)⟩ st with
        | error e => rw [he] at h; cases h
        | ok r =>
          obtain ⟨rs, st1⟩ := r
          rw [he] at h
          obtain ⟨ht1, _⟩ := hev _ _ _ _ hw.2 he
          simp only at h
          split at h
          · exact hsink ctx _ (acc, st1) w' hq ⟨hw.1, ht1⟩ h
          · cases ho : liftF (st1.store.addOr (List.map (fun x => x.2) (List.filter (fun r => !isFalse r.2) rs))) with
            | error e => rw [ho] at h; cases h
            | ok r2 =>
              obtain ⟨S2, k'⟩ := r2
              rw [ho] at h
              simp only at h
              split at h
              · simp only [pure, Except.pure, Except.ok.injEq] at h
                subst h; exact ⟨hw.1, ht1⟩
              · refine hsink ctx _ _ w' hq ?_ h
                exact ⟨hw.1, ht1⟩
    | tt =>
      simp only [evalItem] at h
      exact hsink ctx _ _ w' (hQ0 (fun b hb => by cases hb)) hw h
  | choice c =>
    have hq := hQ0 (fun b hb => by cases hb)
    simp only [evalItem] at h
    split at h
    · cases h
    · split at h
      · simp only [pure, Except.pure, Except.ok.injEq] at h
        subst h; exact ⟨hw.1, hw.2⟩
      · refine hsink ctx _ _ w' hq ?_ h
        exact ⟨hw.1, hw.2⟩

theorem evalItems_R (P : Prog) {ev : Eval} (hev : EvR nc ev) : ∀ (its : List Item) (sink : Sink α) (ctx : Ctx)
    (Q : Ctx → Prop),
    (∀ ctx' k w w', Q ctx' → WR A nc w → sink ctx' k w = .ok w' → WR A nc w') →
    (∀ ctx', Ext ctx ctx' → (∀ b, Item.lit (.pos b) ∈ its → ∀ i, Term.var i ∈ b.args → Good nc ctx' i) → Q ctx') →
    (∀ it ∈ its, Item.inRange ctx.length it) →
    ∀ (w w' : α × St), WR A nc w → evalItems P ev its sink ctx w = .ok w' → WR A nc w'
  | [], _, _, _, _, _, _, _, _, _, h => by simp [evalItems] at h
  | [i], sink, ctx, Q, hsink, hQ, hir, w, w', hw, h => by
    simp only [evalItems] at h
    exact evalItem_R P hev sink i ctx Q hsink
      (fun ctx' he hg => hQ ctx' he (fun b hb => hg b (List.mem_singleton.1 hb).symm)) (hir i List.mem_cons_self) w w' hw h
  | i :: j :: rest, sink, ctx, Q, hsink, hQ, hir, w, w', hw, h => by
    simp only [evalItems] at h
    refine evalItem_R P hev _ i ctx
      (fun ctx1 => Ext ctx ctx1 ∧ ∀ b, i = .lit (.pos b) → ∀ v, Term.var v ∈ b.args → Good nc ctx1 v)
      ?_ (fun ctx' he hg => ⟨he, hg⟩) (hir i List.mem_cons_self) w w' hw h
    intro ctx1 k1 w1 w1' ⟨he1, hg1⟩ hw1 h1
    split at h1
    · simp only [pure, Except.pure, Except.ok.injEq] at h1
      subst h1; exact hw1
    · refine evalItems_R P hev (j :: rest) _ ctx1 Q ?_ ?_ ?_ w1 w1' hw1 h1
      · intro ctx2 k2 w2 w2' hq2 hw2 h2
        obtain ⟨acc2, st2⟩ := w2
        simp only [bind, Except.bind] at h2
        cases ha : liftF (st2.store.addAnd [k1, k2]) with
        | error e => rw [ha] at h2; cases h2
        | ok r =>
          obtain ⟨S3, k⟩ := r
          rw [ha] at h2
          simp only at h2
          refine hsink ctx2 k _ w2' hq2 ?_ h2
          exact ⟨hw2.1, hw2.2⟩
      · intro ctx2 he2 hg2
        refine hQ ctx2 (he1.trans he2) (fun b hb v hv => ?_)
        rcases List.mem_cons.1 hb with hb' | hb'
        · exact (hg1 b hb'.symm v hv).ext he2
        · exact hg2 b hb' v hv
      · intro it hit
        rw [he1.1]; exact hir it (List.mem_cons_of_mem _ hit)

end

/-! ### clauses -/

theorem allConsts_map_c : ∀ (l : List Val) (cs : List Const), allConsts l = some cs → l = cs.map Val.c
  | [], cs, h => by simp [allConsts] at h; subst h; rfl
  | .v _ :: _, _, h => by simp [allConsts] at h
  | .c x :: r, cs, h => by
    simp only [allConsts, Option.map_eq_some_iff] at h
    obtain ⟨cs', h1, rfl⟩ := h
    rw [allConsts_map_c r cs' h1]; rfl

theorem head_inR {nc n : Nat} {ctx : Ctx} (hg : ∀ i, i < n → Good nc ctx i) : ∀ (head : List Term) (ans : List Const),
    (∀ t ∈ head, Term.inRange n t ∧ Term.cIn nc t) → allConsts (head.map (Term.val ctx)) = some ans → inR nc ans = true
  | [], ans, _, h => by simp [allConsts] at h; subst h; rfl
  | t :: r, ans, ht, h => by
    simp only [List.map_cons] at h
    cases hv : Term.val ctx t with
    | v j => rw [hv] at h; simp [allConsts] at h
    | c x =>
      rw [hv] at h
      simp only [allConsts, Option.map_eq_some_iff] at h
      obtain ⟨cs', h1, rfl⟩ := h
      have ih := head_inR hg r cs' (fun t' ht' => ht t' (List.mem_cons_of_mem _ ht')) h1
      refine (inR_cons nc x cs').2 ⟨?_, ih⟩
      obtain ⟨h1t, h2t⟩ := ht t List.mem_cons_self
      cases t with
      | const c => simp only [Term.val, Val.c.injEq] at hv; subst hv; exact h2t
      | var i =>
        obtain ⟨y, hy, hyl⟩ := hg i h1t
        simp only [Term.val, List.getD_eq_getElem?_getD, hy, Option.getD_some, Val.c.injEq] at hv
        subst hv; exact hyl

theorem bufR_add {nc : Nat} {buf : Buf} (hb : BufR nc buf) {ans : List Const} (ha : inR nc ans = true) (k : Key) :
    BufR nc (bufAdd buf ans k) := by
  intro e he
  rcases mem_bufAdd buf ans k e he with h | h
  · rw [h]; exact ha
  · exact hb e h

variable {P : Prog} {natoms : Nat} {ar : Pred → Option Nat} {rk : Nat → Nat}

theorem evalClause_R (hs : SpecOK P natoms ar rk) {ev : Eval} (hev : EvR P.nconsts ev) (g : Goal) (c : Clause)
    (hc : c ∈ P.clausesOf g.pred) (w w' : Buf × St) (hw : WR (BufR P.nconsts) P.nconsts w)
    (h : evalClause P ev g c w = .ok w') : WR (BufR P.nconsts) P.nconsts w' := by
  obtain ⟨buf, st⟩ := w
  cases c with
  | fact args ident prob =>
    have hin := (hs.factOK g.pred args ident prob hc).2
    simp only [evalClause] at h
    split at h
    · simp only [pure, Except.pure, Except.ok.injEq] at h
      subst h
      have hk : ∀ k : Key, BufR P.nconsts (if Formula.isFalse k = true then buf else bufAdd buf args k) := by
        intro k
        split
        · exact hw.1
        · exact bufR_add hw.1 hin _
      exact ⟨hk _, hw.2⟩
    · simp only [pure, Except.pure, Except.ok.injEq] at h
      subst h; exact hw
  | rule head n body ch =>
    simp only [evalClause] at h
    split at h
    · simp only [pure, Except.pure, Except.ok.injEq] at h
      subst h; exact hw
    · rename_i ctx hu
      have hlen : ctx.length = n := unifOK.head_len n g.args head ctx hu
      obtain ⟨hvh, hvb⟩ := hs.vars g.pred _ hc head n body ch rfl
      obtain ⟨_, hhc⟩ := hs.headOK g.pred head n body ch hc
      refine evalItems_R P hev (items body ch) _ ctx (fun ctx' => ∀ i, i < n → Good P.nconsts ctx' i) ?_ ?_ ?_
        (buf, st) w' hw h
      · intro ctx' k w1 w1' hq hw1 h1
        obtain ⟨buf1, st1⟩ := w1
        simp only at h1
        split at h1
        · cases h1
        · rename_i ans ha
          simp only [pure, Except.pure, Except.ok.injEq] at h1
          subst h1
          exact ⟨bufR_add hw1.1 (head_inR hq head ans (fun t ht => ⟨hvh t ht, hhc t ht⟩) ha) k, hw1.2⟩
      · intro ctx' _ hg i hi
        obtain ⟨b, hb, hvb'⟩ := hs.rr g.pred head n body ch hc i hi
        exact hg b (lit_mem_items hb ch) i hvb'
      · intro it hit
        rw [hlen]; exact hvb it hit

theorem evalClauses_R (hs : SpecOK P natoms ar rk) {ev : Eval} (hev : EvR P.nconsts ev) (g : Goal) :
    ∀ (cs : List Clause), (∀ c ∈ cs, c ∈ P.clausesOf g.pred) → ∀ (w w' : Buf × St), WR (BufR P.nconsts) P.nconsts w →
      evalClauses P ev g cs w = .ok w' → WR (BufR P.nconsts) P.nconsts w'
  | [], _, w, w', hw, h => by
    simp only [evalClauses, pure, Except.pure, Except.ok.injEq] at h
    subst h; exact hw
  | c :: cs, hc, w, w', hw, h => by
    simp only [evalClauses, bind, Except.bind] at h
    cases h1 : evalClause P ev g c w with
    | error e => rw [h1] at h; cases h
    | ok w1 =>
      rw [h1] at h
      exact evalClauses_R hs hev g cs (fun c' hc' => hc c' (List.mem_cons_of_mem _ hc')) w1 w'
        (evalClause_R hs hev g c (hc c List.mem_cons_self) w w1 hw h1) h

theorem flush_R {nc : Nat} : ∀ (buf : Buf) (S : Store) (rs : Results) (S' : Store), BufR nc buf →
    flush buf S = .ok (rs, S') → ∀ r ∈ rs, inR nc r.1 = true
  | [], S, rs, S', _, h => by
    simp only [flush, pure, Except.pure, Except.ok.injEq, Prod.mk.injEq] at h
    obtain ⟨rfl, _⟩ := h
    intro r hr; cases hr
  | (ans, nodes) :: r, S, rs, S', hb, h => by
    simp only [flush, bind, Except.bind] at h
    cases h1 : liftF (S.addOr nodes) with
    | error e => rw [h1] at h; cases h
    | ok r1 =>
      obtain ⟨S1, k⟩ := r1
      rw [h1] at h
      simp only at h
      cases h2 : flush r S1 with
      | error e => rw [h2] at h; cases h
      | ok r2 =>
        obtain ⟨rs2, S2⟩ := r2
        rw [h2] at h
        simp only [pure, Except.pure, Except.ok.injEq, Prod.mk.injEq] at h
        obtain ⟨rfl, _⟩ := h
        intro x hx
        rcases List.mem_cons.1 hx with rfl | hx
        · exact hb (ans, nodes) List.mem_cons_self
        · exact flush_R r S1 rs2 S2 (fun e he => hb e (List.mem_cons_of_mem _ he)) h2 x hx

theorem evalFresh_R (hs : SpecOK P natoms ar rk) (sched : Sched) {ev : Eval} (hev : EvR P.nconsts ev) (g : Goal) (st : St)
    (gc : Option (List Const)) (rs : Results) (st' : St) (ht : TabR P.nconsts st.table)
    (h : evalFresh P sched ev g st gc = .ok (rs, st')) : TabR P.nconsts st'.table ∧ ResR P.nconsts rs := by
  unfold evalFresh at h
  simp only at h
  split at h
  · simp only [pure, Except.pure, Except.ok.injEq, Prod.mk.injEq] at h
    obtain ⟨rfl, rfl⟩ := h
    exact ⟨ht, fun r hr => by cases hr⟩
  · simp only [bind, Except.bind] at h
    cases hc : evalClauses P ev g (GroundAcyclic.permute (sched g) ((P.clausesOf g.pred).filter (headMatches g.args)))
        ([], st) with
    | error e => rw [hc] at h; cases h
    | ok w1 =>
      obtain ⟨buf, st1⟩ := w1
      rw [hc] at h
      obtain ⟨hb1, ht1⟩ := evalClauses_R hs hev g _
        (fun c hcm => (List.mem_filter.1 ((GroundEval.mem_permute _ _ c).1 hcm)).1) ([], st) (buf, st1)
        ⟨fun e he => (by cases he), ht⟩ hc
      simp only at h
      cases hf : flush buf st1.store with
      | error e => rw [hf] at h; cases h
      | ok r2 =>
        obtain ⟨rs2, S2⟩ := r2
        rw [hf] at h
        simp only [pure, Except.pure, Except.ok.injEq, Prod.mk.injEq] at h
        obtain ⟨rfl, rfl⟩ := h
        have hrs := flush_R buf st1.store rs2 S2 hb1 hf
        have hsg : ∀ e ∈ storeGround g.pred rs2 st1.table.ground, isFalse e.2 = false → inR P.nconsts e.1.2 = true := by
          intro e he hne
          rcases mem_storeGround_eq _ _ _ e he with h' | ⟨r, hr, rfl⟩
          · exact ht1.1 e h' hne
          · exact hrs r hr
        refine ⟨?_, fun r hr _ => hrs r hr⟩
        cases gc with
        | none =>
          refine ⟨hsg, fun e he => ?_⟩
          rcases mem_assocSet'_law _ _ _ e he with h' | rfl
          · exact ht1.2 e h'
          · exact fun r hr _ => hrs r hr
        | some consts =>
          simp only
          split
          · refine ⟨fun e he hne => ?_, ht1.2⟩
            rcases mem_assocSet'_law _ _ _ e he with h' | rfl
            · exact ht1.1 e h' hne
            · simp [Formula.isFalse, FALSE] at hne
          · exact ⟨hsg, ht1.2⟩

theorem lookup_mem' {α β} [BEq α] [LawfulBEq α] : ∀ (l : List (α × β)) (a : α) (b : β), lookup l a = some b → (a, b) ∈ l
  | [], _, _, h => by cases h
  | (x, y) :: r, a, b, h => by
    unfold lookup at h
    split at h
    · rename_i hx
      have : x = a := by simpa using hx
      cases h; subst this; exact List.mem_cons_self
    · exact List.mem_cons_of_mem _ (lookup_mem' r a b h)

theorem evalGoalWith_R (hs : SpecOK P natoms ar rk) (sched : Sched) {ev : Eval} (hev : EvR P.nconsts ev) :
    EvR P.nconsts (evalGoalWith P sched ev) := by
  intro g st rs st' ht h
  unfold evalGoalWith at h
  split at h
  · rename_i consts hcs
    split at h
    · rename_i k hl
      simp only [pure, Except.pure, Except.ok.injEq, Prod.mk.injEq] at h
      obtain ⟨rfl, rfl⟩ := h
      refine ⟨ht, fun r hr hne => ?_⟩
      simp only [List.mem_singleton] at hr
      subst hr
      exact ht.1 _ (lookup_mem' _ _ _ hl) hne
    · exact evalFresh_R hs sched hev g st _ rs st' ht h
  · split at h
    · rename_i rs0 hl
      simp only [pure, Except.pure, Except.ok.injEq, Prod.mk.injEq] at h
      obtain ⟨rfl, rfl⟩ := h
      exact ⟨ht, ht.2 _ (lookup_mem' _ _ _ hl)⟩
    · exact evalFresh_R hs sched hev g st _ rs st' ht h

theorem evalGoal_R (hs : SpecOK P natoms ar rk) (sched : Sched) : ∀ fuel, EvR P.nconsts (evalGoal P sched fuel)
  | 0 => fun _ _ _ _ _ h => by simp [evalGoal] at h
  | fuel + 1 => evalGoalWith_R hs sched (evalGoal_R hs sched fuel)

theorem groundOne_R (hs : SpecOK P natoms ar rk) (sched : Sched) (fuel : Nat) (st : St) (c : Call) (rs : Results) (st' : St)
    (ht : TabR P.nconsts st.table) (h : groundOne P sched fuel st c = .ok (rs, st')) :
    TabR P.nconsts st'.table ∧ ∀ r ∈ rs, inR P.nconsts r.1 = true := by
  simp only [groundOne, bind, Except.bind] at h
  cases he : evalGoal P sched fuel ⟨c.pred, c.args⟩ st with
  | error e => rw [he] at h; cases h
  | ok r =>
    obtain ⟨rs1, st1⟩ := r
    rw [he] at h
    obtain ⟨ht1, hr1⟩ := evalGoal_R hs sched fuel _ _ _ _ ht he
    simp only at h
    split at h
    · simp only [pure, Except.pure, Except.ok.injEq, Prod.mk.injEq] at h
      obtain ⟨rfl, rfl⟩ := h
      exact ⟨ht1, fun r hr => by cases hr⟩
    · simp only [pure, Except.pure, Except.ok.injEq, Prod.mk.injEq] at h
      obtain ⟨rfl, rfl⟩ := h
      refine ⟨ht1, fun r hr => ?_⟩
      obtain ⟨hm, hf⟩ := List.mem_filter.1 hr
      exact hr1 r hm (by simpa using hf)

theorem groundAll_R (hs : SpecOK P natoms ar rk) (sched : Sched) (fuel : Nat) :
    ∀ (calls : List Call) (st : St) (rss : List Results) (st' : St), TabR P.nconsts st.table →
      groundAll P sched fuel calls st = .ok (rss, st') →
      TabR P.nconsts st'.table ∧ ∀ rs ∈ rss, ∀ r ∈ rs, inR P.nconsts r.1 = true
  | [], st, rss, st', ht, h => by
    simp only [groundAll, pure, Except.pure, Except.ok.injEq, Prod.mk.injEq] at h
    obtain ⟨rfl, rfl⟩ := h
    exact ⟨ht, fun rs hrs => by cases hrs⟩
  | c :: cs, st, rss, st', ht, h => by
    simp only [groundAll, bind, Except.bind] at h
    cases h1 : groundOne P sched fuel st c with
    | error e => rw [h1] at h; cases h
    | ok r1 =>
      obtain ⟨r, st1⟩ := r1
      rw [h1] at h
      simp only at h
      cases h2 : groundAll P sched fuel cs st1 with
      | error e => rw [h2] at h; cases h
      | ok r2 =>
        obtain ⟨rs2, st2⟩ := r2
        rw [h2] at h
        simp only [pure, Except.pure, Except.ok.injEq, Prod.mk.injEq] at h
        obtain ⟨rfl, rfl⟩ := h
        obtain ⟨ht1, hr1⟩ := groundOne_R hs sched fuel st c r st1 ht h1
        obtain ⟨ht2, hr2⟩ := groundAll_R hs sched fuel cs st1 rs2 st2 ht1 h2
        refine ⟨ht2, fun rs hrs => ?_⟩
        rcases List.mem_cons.1 hrs with rfl | hrs
        · exact hr1
        · exact hr2 rs hrs

end ProbLogProofs.GroundFOSem
