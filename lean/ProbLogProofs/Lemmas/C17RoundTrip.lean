import ProbLogModel.PrintTokens
/-!
# C17 — lemmas for `C17_roundtrip_partial`: the parser model reads the token list of an operator-free term back
-/
namespace ProbLogProofs.C17
open ProbLogModel.Parser ProbLogModel.Syntax ProbLogModel.PrintTokens

/-- The sub-expression built for the argument list `( a1, …, an )` of a compound term. -/
def argSub (args : List Tm) : Sub :=
  { kind := .paren, commaList := true, atom := true, functor := false, arglistFlag := true, value := .many args,
    enum := some args }

/-- Items contributed by one operand (unlabelled), with the value it denotes. -/
inductive Opnd : Tm → List Item → Prop
  | var (n) : Opnd (.var n) [.tok (tk n (some .variable)) false]
  | int (t v) : t.toInt? = some v → Opnd (.const (.int v)) [.tok (tk t (some .integer)) false]
  | flt (t) : Opnd (.const (.flt t)) [.tok (tk t (some .float)) false]
  | str (t) : Opnd (.const (.str t)) [.tok (tk t (some .string)) false]
  | atom (f) : Opnd (.term f [] none none) [.tok (tk f) false]
  | app (f args) : Opnd (.term f args none none) [.tok (tk f none true) false, .sub (argSub args)]
  | sub (k cl en v) : Opnd v [.sub { kind := k, commaList := cl, atom := true, functor := false, arglistFlag := true,
                                     value := .one v, enum := en }]

/-- The same operand after `label_tokens`. -/
inductive LOpnd : Tm → List Item → Prop
  | var (n) : LOpnd (.var n) [.tok (tk n (some .variable)) false]
  | int (t v) : t.toInt? = some v → LOpnd (.const (.int v)) [.tok (tk t (some .integer)) false]
  | flt (t) : LOpnd (.const (.flt t)) [.tok (tk t (some .float)) false]
  | str (t) : LOpnd (.const (.str t)) [.tok (tk t (some .string)) false]
  | atom (f) : LOpnd (.term f [] none none) [.tok (tk f) false]
  | app (f args) : LOpnd (.term f args none none)
      [.tok { tk f none true with atom := false } false, .sub { argSub args with atom := false }]
  | sub (k cl en v) : LOpnd v [.sub { kind := k, commaList := cl, atom := true, functor := false, arglistFlag := false,
                                      value := .one v, enum := en }]

theorem findMax_none_of_noOps : ∀ (its : List Item) (i : Nat),
    (∀ it ∈ its, it.binop = none ∧ it.unop = none) → findMax its i none = none
  | [], _, _ => rfl
  | it :: rest, i, h => by
    have h1 := h it (by simp)
    simp only [findMax, h1.1, h1.2]
    exact findMax_none_of_noOps rest (i + 1) (fun x hx => h x (by simp [hx]))

theorem LOpnd.noOps {v its} (h : LOpnd v its) : ∀ it ∈ its, it.binop = none ∧ it.unop = none := by
  cases h <;> simp [Item.binop, Item.unop, tk, argSub]

/-- `fold` of a labelled operand gives its value. -/
theorem foldN_LOpnd {v its} (h : LOpnd v its) (fuel : Nat) (px) : foldN (fuel + 1) its px = .ok v := by
  have hm := findMax_none_of_noOps its 0 h.noOps
  simp only [foldN, hm]
  cases h <;> simp [buildOpFree, tk, Factory.function, Factory.ofInt, argSub, *] <;> rfl


/-! ## `label_tokens` on separated operand sequences -/

def IsSep (t : Tok) : Prop := t = tComma ∨ t = tPipe

/-- previous token of an operand: nothing, or a separator -/
def PrevOK (p : Option Item) : Prop := p = none ∨ ∃ sp, IsSep sp ∧ p = some (.tok sp false)
/-- next token of an operand: nothing, or a separator -/
def NextOK (n : Option Item) : Prop := n = none ∨ ∃ sp, IsSep sp ∧ n = some (.tok sp false)

/-- `labelGo p l` succeeds, leaves `p` unchanged and labels `l` as `X`. -/
def LabelsTo (p : Option Item) (l X : List Item) : Prop := labelGo p l = .ok (p.toList ++ X)

theorem LabelsTo.nil (p) : LabelsTo p [] [] := by
  cases p <;> simp [LabelsTo, labelGo] <;> rfl

theorem LabelsTo.step {p t t' rest X} (h : labelStep p t rest.head? = .ok (p, t'))
    (hr : LabelsTo (some t') rest X) : LabelsTo p (t :: rest) (t' :: X) := by
  unfold LabelsTo at *
  simp only [labelGo, h, hr, bind, Except.bind, pure, Except.pure]
  cases p <;> simp

macro "label_eval" : tactic => `(tactic|
  simp [labelStep, labelA, labelB, labelC, labelD, bind, Except.bind, pure, Except.pure, Item.functor, Item.isCommaList, Item.unop, Item.binop,
        Item.priority, Item.clearUnop, Item.clearBinop, Item.setFunctor, Item.setAtom, Item.setArglist, Item.aggregate,
        Item.arglist, Item.atom, Item.countOptions, Tok.countOptions, Tok.priority, tk, tComma, tPipe, argSub])

theorem step_leaf (s sp) {p n} (hp : PrevOK p) (hn : NextOK n) :
    labelStep p (.tok (tk s sp) false) n = .ok (p, .tok (tk s sp) false) := by
  rcases hp with rfl | ⟨x, (rfl | rfl), rfl⟩ <;> rcases hn with rfl | ⟨y, (rfl | rfl), rfl⟩ <;> label_eval


theorem step_functor (f args) {p} (hp : PrevOK p) :
    labelStep p (.tok (tk f none true) false) (some (.sub (argSub args)))
      = .ok (p, .tok { tk f none true with atom := false } false) := by
  rcases hp with rfl | ⟨x, (rfl | rfl), rfl⟩ <;> label_eval

theorem step_argsub (f args) {n} (hn : NextOK n) :
    labelStep (some (.tok { tk f none true with atom := false } false)) (.sub (argSub args)) n
      = .ok (some (.tok { tk f none true with atom := false } false), .sub { argSub args with atom := false }) := by
  rcases hn with rfl | ⟨y, (rfl | rfl), rfl⟩ <;> label_eval

theorem step_sub (k cl en v) {p n} (hp : PrevOK p) (hn : NextOK n) :
    labelStep p (.sub { kind := k, commaList := cl, atom := true, functor := false, arglistFlag := true,
                        value := .one v, enum := en }) n
      = .ok (p, .sub { kind := k, commaList := cl, atom := true, functor := false, arglistFlag := false,
                       value := .one v, enum := en }) := by
  rcases hp with rfl | ⟨x, (rfl | rfl), rfl⟩ <;> rcases hn with rfl | ⟨y, (rfl | rfl), rfl⟩ <;> label_eval

/-- the last labelled item of an operand -/
inductive LastOK : Item → Prop
  | leaf (s sp) : LastOK (.tok (tk s sp) false)
  | argsub (args) : LastOK (.sub { argSub args with atom := false })
  | sub (k cl en v) : LastOK (.sub { kind := k, commaList := cl, atom := true, functor := false, arglistFlag := false,
                                     value := .one v, enum := en })

theorem step_sep {sp} (hs : IsSep sp) {prev x} (hprev : LastOK prev) :
    labelStep (some prev) (.tok sp false) (some x) = .ok (some prev, .tok sp false) := by
  rcases hs with rfl | rfl <;> cases hprev <;> label_eval

/-- label one operand followed by `rest` -/
theorem label_opnd {v o} (h : Opnd v o) {p rest X} (hp : PrevOK p) (hn : NextOK rest.head?)
    (hk : ∀ last, LastOK last → LabelsTo (some last) rest X) :
    ∃ o', LOpnd v o' ∧ LabelsTo p (o ++ rest) (o' ++ X) := by
  cases h with
  | var n => exact ⟨_, .var n, .step (step_leaf _ _ hp hn) (hk _ (.leaf _ _))⟩
  | int t v ht => exact ⟨_, .int t v ht, .step (step_leaf _ _ hp hn) (hk _ (.leaf _ _))⟩
  | flt t => exact ⟨_, .flt t, .step (step_leaf _ _ hp hn) (hk _ (.leaf _ _))⟩
  | str t => exact ⟨_, .str t, .step (step_leaf _ _ hp hn) (hk _ (.leaf _ _))⟩
  | atom f => exact ⟨_, .atom f, .step (step_leaf _ _ hp hn) (hk _ (.leaf _ _))⟩
  | app f args =>
    refine ⟨_, .app f args, ?_⟩
    exact .step (step_functor f args hp) (.step (step_argsub f args hn) (hk _ (.argsub args)))
  | sub k cl en v => exact ⟨_, .sub k cl en v, .step (step_sub k cl en v hp hn) (hk _ (.sub k cl en v))⟩

/-- operands separated by commas, optionally ending in `| tail`; `pipe` says whether a pipe occurs -/
inductive SeqG (P : Tm → List Item → Prop) : List Tm → Tm → Bool → List Item → Prop
  | last {v o} : P v o → SeqG P [v] .none false o
  | lastPipe {v o tv ot} : P v o → P tv ot → SeqG P [v] tv true (o ++ .tok tPipe false :: ot)
  | cons {v o pre tl b its} : P v o → SeqG P pre tl b its → SeqG P (v :: pre) tl b (o ++ .tok tComma false :: its)

theorem Opnd.ne_nil {v o} (h : Opnd v o) : ∃ x r, o = x :: r := by cases h <;> exact ⟨_, _, rfl⟩

theorem SeqG.head {vs tl b its} (h : SeqG Opnd vs tl b its) : ∃ x, its.head? = some x := by
  cases h with
  | last h => obtain ⟨x, r, rfl⟩ := h.ne_nil; exact ⟨x, rfl⟩
  | lastPipe h _ => obtain ⟨x, r, rfl⟩ := h.ne_nil; exact ⟨x, rfl⟩
  | cons h _ => obtain ⟨x, r, rfl⟩ := h.ne_nil; exact ⟨x, rfl⟩

theorem label_seq {vs tl b its} (h : SeqG Opnd vs tl b its) :
    ∀ {p}, PrevOK p → ∃ its', SeqG LOpnd vs tl b its' ∧ LabelsTo p its its' := by
  induction h with
  | last h =>
    intro p hp
    obtain ⟨o', ho', hl⟩ := label_opnd h (rest := []) (X := []) hp (Or.inl rfl) (fun _ _ => LabelsTo.nil _)
    exact ⟨o', .last ho', by simpa using hl⟩
  | @lastPipe v o tv ot h ht =>
    intro p hp
    obtain ⟨x, r, hx⟩ := ht.ne_nil
    obtain ⟨ot', hot', hlt⟩ := label_opnd ht (rest := []) (X := []) (p := some (.tok tPipe false))
      (Or.inr ⟨_, Or.inr rfl, rfl⟩) (Or.inl rfl) (fun _ _ => LabelsTo.nil _)
    simp only [List.append_nil] at hlt
    obtain ⟨o', ho', hl⟩ := label_opnd h (rest := .tok tPipe false :: ot) (X := .tok tPipe false :: ot') hp
      (Or.inr ⟨_, Or.inr rfl, rfl⟩)
      (fun last hlast => .step (by subst hx; exact step_sep (Or.inr rfl) hlast) hlt)
    exact ⟨_, .lastPipe ho' hot', hl⟩
  | @cons v o pre tl b its h hs ih =>
    intro p hp
    obtain ⟨x, hx⟩ := hs.head
    obtain ⟨its', hs', hl'⟩ := ih (p := some (.tok tComma false)) (Or.inr ⟨_, Or.inl rfl, rfl⟩)
    obtain ⟨o', ho', hl⟩ := label_opnd h (rest := .tok tComma false :: its) (X := .tok tComma false :: its') hp
      (Or.inr ⟨_, Or.inl rfl, rfl⟩)
      (fun last hlast => .step (by rw [hx]; exact step_sep (Or.inl rfl) hlast) hl')
    exact ⟨_, .cons ho' hs', hl⟩


/-! ## folding the segments of a labelled sequence -/

theorem LOpnd.notSep {v o} (h : LOpnd v o) : ∀ it ∈ o, it.isSpecial .comma = false ∧ it.isSpecial .pipe = false := by
  cases h <;> simp [Item.isSpecial, tk, argSub]

theorem fold_LOpnd {v o} (h : LOpnd v o) : fold o = .ok v := foldN_LOpnd h _ _

theorem foldSegments_skip : ∀ (o rest cur : List Item), (∀ it ∈ o, it.isSpecial .comma = false) →
    foldSegments (o ++ rest) cur = foldSegments rest (o.reverse ++ cur)
  | [], _, _, _ => by simp
  | it :: o, rest, cur, h => by
    have h1 := h it (by simp)
    simp only [List.cons_append, foldSegments, h1]
    rw [foldSegments_skip o rest (it :: cur) (fun x hx => h x (by simp [hx]))]
    simp

theorem listSegments_skip : ∀ (o rest cur : List Item),
    (∀ it ∈ o, it.isSpecial .comma = false ∧ it.isSpecial .pipe = false) →
    listSegments (o ++ rest) cur = listSegments rest (o.reverse ++ cur)
  | [], _, _, _ => by simp
  | it :: o, rest, cur, h => by
    have h1 := h it (by simp)
    simp only [List.cons_append, listSegments, h1.1, h1.2]
    rw [listSegments_skip o rest (it :: cur) (fun x hx => h x (by simp [hx]))]
    simp

theorem foldSegments_seq {vs tl its} (h : SeqG LOpnd vs tl false its) : foldSegments its [] = .ok vs := by
  generalize hb : false = b at h
  induction h with
  | @last v o h =>
    have := foldSegments_skip o [] [] (fun it hit => (h.notSep it hit).1)
    simp only [List.append_nil] at this
    rw [this]
    simp [foldSegments, fold_LOpnd h, bind, Except.bind, pure, Except.pure]
  | lastPipe _ _ => cases hb
  | @cons v o pre tl b its h hs ih =>
    rw [foldSegments_skip o _ [] (fun it hit => (h.notSep it hit).1)]
    simp [foldSegments, Item.isSpecial, tComma, fold_LOpnd h, ih hb, bind, Except.bind, pure, Except.pure]

theorem listSegments_seq {vs tl b its} (h : SeqG LOpnd vs tl b its) : listSegments its [] = .ok (vs, tl) := by
  induction h with
  | @last v o h =>
    obtain ⟨o1, o2, ho⟩ : ∃ x r, o = x :: r := by cases h <;> exact ⟨_, _, rfl⟩
    have := listSegments_skip o [] [] (h.notSep)
    simp only [List.append_nil] at this
    rw [this]
    subst ho
    have hf := fold_LOpnd h
    simp [listSegments, hf, bind, Except.bind, pure, Except.pure]
  | @lastPipe v o tv ot h ht =>
    rw [listSegments_skip o _ [] (h.notSep)]
    simp [listSegments, Item.isSpecial, tPipe, fold_LOpnd h, fold_LOpnd ht, bind, Except.bind, pure, Except.pure]
  | @cons v o pre tl b its h hs ih =>
    rw [listSegments_skip o _ [] (h.notSep)]
    simp [listSegments, Item.isSpecial, tComma, fold_LOpnd h, ih, bind, Except.bind, pure, Except.pure]


/-! ## parsing a closed bracket group -/

def CommaOk : Item → Prop
  | .tok t _ => (t.str == "," || decide (t.priority < 1000)) = true
  | .sub _ => True

theorem commaListOf_true (l : List Item) (mi : Option Nat) (h : ∀ it ∈ l, CommaOk it) : commaListOf l mi = true := by
  unfold commaListOf
  cases mi with
  | none => rfl
  | some i =>
    simp only
    cases hg : l[i]? with
    | none => rfl
    | some it =>
      have hm : it ∈ l := List.mem_of_getElem? hg
      have := h it hm
      cases it with
      | tok t a => simpa [CommaOk] using this
      | sub _ => rfl

theorem LOpnd.commaOk {v o} (h : LOpnd v o) : ∀ it ∈ o, CommaOk it := by
  cases h <;> simp [CommaOk, tk, Tok.priority, argSub]

theorem seq_commaOk {vs tl its} (h : SeqG LOpnd vs tl false its) : ∀ it ∈ its, CommaOk it := by
  generalize hb : false = b at h
  induction h with
  | last h => exact h.commaOk
  | lastPipe _ _ => cases hb
  | cons h _ ih =>
    intro it hit
    simp only [List.mem_append, List.mem_cons] at hit
    rcases hit with hit | rfl | hit
    · exact h.commaOk it hit
    · simp [CommaOk, tComma]
    · exact ih hb it hit

theorem label_of_LabelsTo {its its'} (h : LabelsTo none its its') : label its = .ok its' := by
  simpa [LabelsTo, label] using h

theorem parseParen_seq {vs tl its} (h : SeqG Opnd vs tl false its) (mi : Option Nat) :
    parseParen .paren its mi = .ok (argSub vs) := by
  obtain ⟨its', hs', hl⟩ := label_seq h (p := none) (Or.inl rfl)
  simp [parseParen, label_of_LabelsTo hl, commaListOf_true its' mi (seq_commaOk hs'), foldSegments_seq hs',
        bind, Except.bind, pure, Except.pure, argSub]

theorem parseList_seq {vs tl b its} (h : SeqG Opnd vs tl b its) (mi : Option Nat) :
    ∃ cl, parseList its mi = .ok { kind := .list, commaList := cl, atom := true, functor := false, arglistFlag := true,
                                   value := .one (Factory.list vs tl), enum := some [Factory.index vs] } := by
  obtain ⟨its', hs', hl⟩ := label_seq h (p := none) (Or.inl rfl)
  exact ⟨commaListOf its' mi, by
    simp [parseList, label_of_LabelsTo hl, listSegments_seq hs', bind, Except.bind, pure, Except.pure]⟩

theorem parseList_nil (mi : Option Nat) :
    parseList [] mi = .ok { kind := .list, commaList := commaListOf [] mi, atom := true, functor := false,
                            arglistFlag := true, value := .one (.term "[]" [] none none), enum := some [Factory.index []] } := by
  simp [parseList, label, labelGo, listSegments, bind, Except.bind, pure, Except.pure, Factory.list]


/-! ## `collapse` on the token list of a surface term -/

def pushItem (c : List Item × List Frame) (it : Item) : List Item × List Frame :=
  match c.2 with
  | [] => (c.1 ++ [it], [])
  | fr :: more => (c.1, fr.push it :: more)

def pushItems (c : List Item × List Frame) (its : List Item) : List Item × List Frame := its.foldl pushItem c

def pushAll (f : Frame) (its : List Item) : Frame := its.foldl Frame.push f

theorem pushItems_frame (root : List Item) (F : Frame) (more : List Frame) :
    ∀ its, pushItems (root, F :: more) its = (root, pushAll F its :: more) := by
  intro its
  induction its generalizing F with
  | nil => rfl
  | cons it its ih => simp only [pushItems, pushAll, List.foldl_cons, pushItem] at *; exact ih _

theorem pushAll_append (F : Frame) (a b : List Item) : pushAll F (a ++ b) = pushAll (pushAll F a) b := by
  simp [pushAll, List.foldl_append]

theorem push_toks (F : Frame) (it : Item) : (F.push it).toks = F.toks ++ [it] ∧ (F.push it).kind = F.kind := by
  unfold Frame.push
  cases it.binop with
  | none => simp
  | some b => by_cases h : (F.maxIdx.isNone || decide (b.prio > F.maxPrio)) = true <;> simp [h]

theorem pushAll_toks : ∀ (its : List Item) (F : Frame), (pushAll F its).toks = F.toks ++ its ∧ (pushAll F its).kind = F.kind
  | [], F => by simp [pushAll]
  | it :: its, F => by
    have h1 := push_toks F it
    have h2 := pushAll_toks its (F.push it)
    simp only [pushAll, List.foldl_cons] at *
    rw [h2.1, h2.2, h1.1, h1.2]
    simp

/-- tokens that `collapse` simply appends to the current container -/
def PlainB (t : Tok) : Bool :=
  t.special != some .sharpOpen && t.special != some .parenOpen && t.special != some .brackOpen &&
  t.special != some .parenClose && t.special != some .brackClose && t.special != some .sharpClose

theorem collapseGo_cons (t : Tok) (rest : List Tok) (root : List Item) (stack : List Frame) :
    collapseGo (t :: rest) root stack =
      (collapseStep t rest root stack >>= fun rs => collapseGo rest rs.1 rs.2) := by
  simp only [collapseGo]

theorem collapse_plain (t : Tok) (rest : List Tok) (root : List Item) (stack : List Frame) (h : PlainB t = true) :
    collapseGo (t :: rest) root stack
      = collapseGo rest (pushItem (root, stack) (.tok t false)).1 (pushItem (root, stack) (.tok t false)).2 := by
  simp only [PlainB, Bool.and_eq_true, bne_iff_ne, ne_eq] at h
  obtain ⟨⟨⟨⟨⟨h1, h2⟩, h3⟩, h4⟩, h5⟩, h6⟩ := h
  rw [collapseGo_cons]
  cases stack with
  | nil => simp [collapseStep, pushItem, h1, h2, h3, h4, h5, bind, Except.bind, pure, Except.pure]
  | cons fr more => simp [collapseStep, pushItem, h1, h2, h3, h4, h5, h6, bind, Except.bind, pure, Except.pure]

theorem collapse_open_paren (rest : List Tok) (root : List Item) (stack : List Frame) :
    collapseGo (tLP :: rest) root stack
      = collapseGo rest root ({ kind := .paren, toks := [], maxIdx := none, maxPrio := 0 } :: stack) := by
  rw [collapseGo_cons]; simp [collapseStep, tLP, bind, Except.bind, pure, Except.pure]

theorem collapse_open_brack (rest : List Tok) (root : List Item) (stack : List Frame) :
    collapseGo (tLB :: rest) root stack
      = collapseGo rest root ({ kind := .list, toks := [], maxIdx := none, maxPrio := 0 } :: stack) := by
  rw [collapseGo_cons]; simp [collapseStep, tLB, bind, Except.bind, pure, Except.pure]

theorem collapse_close_paren (rest : List Tok) (root : List Item) (F : Frame) (more : List Frame) (sub : Sub)
    (hk : F.kind = .paren) (hp : parseParen .paren F.toks F.maxIdx = .ok sub) :
    collapseGo (tRP :: rest) root (F :: more)
      = collapseGo rest (pushItem (root, more) (.sub sub)).1 (pushItem (root, more) (.sub sub)).2 := by
  rw [collapseGo_cons]
  cases more <;>
    simp [collapseStep, tRP, accepts, hk, closeFrame, closeChar, hp, catchIndexError, pushItem, bind, Except.bind, pure,
          Except.pure]

theorem collapse_close_brack (rest : List Tok) (root : List Item) (F : Frame) (more : List Frame) (sub : Sub)
    (hk : F.kind = .list) (hp : parseList F.toks F.maxIdx = .ok sub) :
    collapseGo (tRB :: rest) root (F :: more)
      = collapseGo rest (pushItem (root, more) (.sub sub)).1 (pushItem (root, more) (.sub sub)).2 := by
  rw [collapseGo_cons]
  cases more <;>
    simp [collapseStep, tRB, accepts, hk, closeFrame, closeChar, hp, catchIndexError, pushItem, bind, Except.bind, pure,
          Except.pure]


/-- Reading `toks` in any state of the `collapse` loop appends the items `its` to the current container. -/
def Goes (toks : List Tok) (its : List Item) : Prop :=
  ∀ rest root stack, collapseGo (toks ++ rest) root stack
    = collapseGo rest (pushItems (root, stack) its).1 (pushItems (root, stack) its).2

theorem Goes.nil : Goes [] [] := fun _ _ _ => rfl

theorem Goes.append {t1 t2 i1 i2} (h1 : Goes t1 i1) (h2 : Goes t2 i2) : Goes (t1 ++ t2) (i1 ++ i2) := by
  intro rest root stack
  rw [List.append_assoc, h1, h2]
  simp [pushItems, List.foldl_append]

theorem Goes.plain (t : Tok) (h : PlainB t = true) : Goes [t] [.tok t false] := by
  intro rest root stack
  simpa [pushItems] using collapse_plain t rest root stack h

theorem Goes.paren {inner its vs tl} (hg : Goes inner its) (hs : SeqG Opnd vs tl false its) :
    Goes (tLP :: (inner ++ [tRP])) [.sub (argSub vs)] := by
  intro rest root stack
  have e : (tLP :: (inner ++ [tRP])) ++ rest = tLP :: (inner ++ (tRP :: rest)) := by simp
  rw [e, collapse_open_paren, hg, pushItems_frame]
  have ht := pushAll_toks its { kind := .paren, toks := [], maxIdx := none, maxPrio := 0 }
  rw [collapse_close_paren (sub := argSub vs) (hk := ht.2)]
  · rfl
  · rw [ht.1]; simpa using parseParen_seq hs _

theorem Goes.brack {inner its vs tl b} (hg : Goes inner its) (hs : SeqG Opnd vs tl b its) :
    ∃ cl, Goes (tLB :: (inner ++ [tRB]))
      [.sub { kind := .list, commaList := cl, atom := true, functor := false, arglistFlag := true,
              value := .one (Factory.list vs tl), enum := some [Factory.index vs] }] := by
  have ht := pushAll_toks its { kind := .list, toks := [], maxIdx := none, maxPrio := 0 }
  obtain ⟨cl, hcl⟩ := parseList_seq hs (pushAll { kind := .list, toks := [], maxIdx := none, maxPrio := 0 } its).maxIdx
  refine ⟨cl, ?_⟩
  intro rest root stack
  have e : (tLB :: (inner ++ [tRB])) ++ rest = tLB :: (inner ++ (tRB :: rest)) := by simp
  rw [e, collapse_open_brack, hg, pushItems_frame]
  rw [collapse_close_brack (hk := ht.2) (hp := by rw [ht.1]; simpa using hcl)]
  rfl

theorem Goes.emptyList : ∃ cl en, Goes [tLB, tRB]
      [.sub { kind := .list, commaList := cl, atom := true, functor := false, arglistFlag := true,
              value := .one (.term "[]" [] none none), enum := en }] := by
  refine ⟨commaListOf [] none, some [Factory.index []], ?_⟩
  intro rest root stack
  have e : [tLB, tRB] ++ rest = tLB :: tRB :: rest := rfl
  rw [e, collapse_open_brack, collapse_close_brack (hk := rfl) (hp := parseList_nil none)]
  rfl

inductive ArgItems : List Tm → List Item → Prop
  | nil : ArgItems [] []
  | cons {v o vs its} : Opnd v o → ArgItems vs its → ArgItems (v :: vs) (.tok tComma false :: (o ++ its))

theorem seq_of_args {vs its} (h : ArgItems vs its) : ∀ {v0 o0}, Opnd v0 o0 → SeqG Opnd (v0 :: vs) .none false (o0 ++ its) := by
  induction h with
  | nil => intro v0 o0 h0; simpa using SeqG.last h0
  | cons h _ ih => intro v0 o0 h0; exact .cons h0 (ih h)

theorem seq_of_args_tail {vs its} (h : ArgItems vs its) {tv ot} (ht : Opnd tv ot) :
    ∀ {v0 o0}, Opnd v0 o0 → SeqG Opnd (v0 :: vs) tv true (o0 ++ (its ++ .tok tPipe false :: ot)) := by
  induction h with
  | nil => intro v0 o0 h0; simpa using SeqG.lastPipe h0 ht
  | cons h _ ih =>
    intro v0 o0 h0
    have := SeqG.cons h0 (ih h)
    simpa [List.append_assoc] using this

theorem plain_tk (s sp f) (h : sp = none ∨ sp = some .variable ∨ sp = some .integer ∨ sp = some .float ∨ sp = some .string) :
    PlainB (tk s sp f) = true := by
  rcases h with rfl | rfl | rfl | rfl | rfl <;> rfl

mutual
theorem CT : ∀ (s : S), s.valid = true → ∃ its, Opnd s.tm its ∧ Goes s.toks its
  | .var n, _ => ⟨_, .var n, by simpa [S.toks] using Goes.plain _ (plain_tk n _ _ (by simp))⟩
  | .int t v, h => ⟨_, .int t v (by simpa [S.valid] using h), by simpa [S.toks] using Goes.plain _ (plain_tk t _ _ (by simp))⟩
  | .flt t, _ => ⟨_, .flt t, by simpa [S.toks] using Goes.plain _ (plain_tk t _ _ (by simp))⟩
  | .str t, _ => ⟨_, .str t, by simpa [S.toks] using Goes.plain _ (plain_tk t _ _ (by simp))⟩
  | .atom f, _ => ⟨_, .atom f, by simpa [S.toks] using Goes.plain _ (plain_tk f _ _ (by simp))⟩
  | .nil, _ => by
    obtain ⟨cl, en, hg⟩ := Goes.emptyList
    exact ⟨_, .sub _ cl en _, by simpa [S.toks, S.tm] using hg⟩
  | .app f a as, h => by
    simp only [S.valid, Bool.and_eq_true] at h
    obtain ⟨o0, h0, g0⟩ := CT a h.1
    obtain ⟨its, hi, gi⟩ := CTargs as h.2
    have hs := seq_of_args hi h0
    have hg := Goes.paren (g0.append gi) hs
    have hf := Goes.plain (tk f none true) (plain_tk f _ _ (by simp))
    refine ⟨_, .app f (a.tm :: tmList as), ?_⟩
    have := hf.append hg
    simpa [S.toks, S.tm, List.append_assoc] using this
  | .lst hd hs tl, h => by
    simp only [S.valid, Bool.and_eq_true] at h
    obtain ⟨o0, h0, g0⟩ := CT hd h.1.1
    obtain ⟨its, hi, gi⟩ := CTargs hs h.1.2
    cases tl with
    | none =>
      have hsq := seq_of_args hi h0
      obtain ⟨cl, hg⟩ := Goes.brack (g0.append gi) hsq
      exact ⟨_, .sub _ cl _ _, by simpa [S.toks, S.tm, toksTail, tmTail, List.append_assoc] using hg⟩
    | some t =>
      obtain ⟨ot, ht, gt⟩ := CT t (by simpa [validTail] using h.2)
      have hsq := seq_of_args_tail hi ht h0
      have gp := Goes.plain tPipe rfl
      obtain ⟨cl, hg⟩ := Goes.brack (g0.append (gi.append (gp.append gt))) hsq
      exact ⟨_, .sub _ cl _ _, by simpa [S.toks, S.tm, toksTail, tmTail, List.append_assoc] using hg⟩
theorem CTargs : ∀ (as : List S), validList as = true → ∃ its, ArgItems (tmList as) its ∧ Goes (toksArgs as) its
  | [], _ => ⟨[], .nil, by simpa [toksArgs] using Goes.nil⟩
  | a :: as, h => by
    simp only [validList, Bool.and_eq_true] at h
    obtain ⟨o, ho, go⟩ := CT a h.1
    obtain ⟨its, hi, gi⟩ := CTargs as h.2
    refine ⟨_, .cons ho hi, ?_⟩
    have := (Goes.plain tComma rfl).append (go.append gi)
    simpa [toksArgs, tmList] using this
end


theorem pushItems_root : ∀ (its root : List Item), pushItems (root, []) its = (root ++ its, [])
  | [], root => by simp [pushItems]
  | it :: its, root => by
    have := pushItems_root its (root ++ [it])
    simp only [pushItems, List.foldl_cons, pushItem] at *
    rw [this]; simp

theorem premark_head (t : Tok) (r : List Tok) (h : (t.special == some .sharpOpen) = false) : premark (t :: r) = t :: r := by
  unfold premark
  split
  · rename_i a v c tl heq
    simp only [List.cons.injEq] at heq
    obtain ⟨rfl, _⟩ := heq
    simp [h]
  · rfl

theorem premark_toks (s : S) : premark s.toks = s.toks := by
  cases s <;> simp only [S.toks] <;> exact premark_head _ _ rfl

/-- The parser model reads the token list of an operator-free surface term back to the term it denotes. -/
theorem collapse_toks (s : S) (h : s.valid = true) : collapse s.toks = .ok s.tm := by
  obtain ⟨its, ho, hg⟩ := CT s h
  have h1 := hg [] [] []
  rw [List.append_nil, pushItems_root] at h1
  obtain ⟨o', ho', hl⟩ := label_opnd ho (rest := []) (X := []) (p := none) (Or.inl rfl) (Or.inl rfl)
    (fun _ _ => LabelsTo.nil _)
  simp only [List.append_nil] at hl
  simp [collapse, premark_toks, h1, collapseGo, label_of_LabelsTo hl, fold_LOpnd ho', bind, Except.bind, pure, Except.pure]

end ProbLogProofs.C17
