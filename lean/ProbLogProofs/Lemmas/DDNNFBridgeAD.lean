/-
Explicit weight bookkeeping of `extractWeights` for separated AD constraints: members get `(p, 1)`, the extra node
`(1 - Σ p, 1)`, every other key keeps the pair of its stored weight. Core only.
-/
import ProbLogProofs.Lemmas.DDNNFBridgeExtract
namespace ProbLogProofs.DDNNF
open ProbLogModel.DDNNF ProbLogModel.Formula ProbLogModel.Clark

/-- members of a constraint: the choice nodes and the extra node -/
def adMembers (a : ADC) : List Nat := a.nodes ++ a.extra.toList

theorem inner_spec (nodes : List Nat) :
    ∀ (ws : List (Nat × (Rat × Rat))), nodes.Nodup → ∀ x,
      wfun (nodes.foldl (fun ws n => assocSet ws n (((lookup ws n).getD (1, 1)).1, (1 : Rat))) ws) x =
        if x ∈ nodes then ((wfun ws x).1, 1) else wfun ws x := by
  induction nodes with
  | nil => intro ws _ x; simp
  | cons n r ih =>
    intro ws hnd x
    obtain ⟨hn, hr⟩ := List.nodup_cons.mp hnd
    simp only [List.foldl_cons]
    rw [ih _ hr x]
    by_cases hx : x ∈ r
    · have hxn : x ≠ n := fun e => hn (e ▸ hx)
      rw [if_pos hx, if_pos (List.mem_cons_of_mem _ hx), wfun_assocSet, if_neg hxn]
    · rw [if_neg hx, wfun_assocSet]
      by_cases hxn : x = n
      · subst hxn
        rw [if_pos rfl, if_pos List.mem_cons_self]; rfl
      · rw [if_neg hxn, if_neg (by simp [hxn, hx])]

/-- one `update_weights` step on a constraint with at least two members -/
theorem adStep_spec {ws ws1 : List (Nat × (Rat × Rat))} {a : ADC} (h : adStep ws a = .ok ws1)
    (hlen : 2 ≤ a.nodes.length) (hnd : (adMembers a).Nodup) :
    ∃ e, a.extra = some e ∧
      (∀ x, x ∉ adMembers a → wfun ws1 x = wfun ws x) ∧
      (∀ n ∈ a.nodes, wfun ws1 n = ((wfun ws n).1, 1)) ∧
      wfun ws1 e = (1 - (a.nodes.map (fun n => (wfun ws n).1)).foldl (· + ·) 0, 1) := by
  unfold adStep at h
  rw [if_neg (by omega)] at h
  simp only at h
  split at h
  · cases h
  · cases he : a.extra with
    | none => rw [he] at h; cases h
    | some e =>
      rw [he] at h
      injection h with h
      subst h
      unfold adMembers at hnd
      rw [he] at hnd
      simp only [Option.toList_some] at hnd
      have hn : a.nodes.Nodup := (List.nodup_append.mp hnd).1
      have hen : e ∉ a.nodes := by
        intro hh
        exact (List.nodup_append.mp hnd).2.2 e hh e (by simp) rfl
      refine ⟨e, rfl, ?_, ?_, ?_⟩
      · intro x hx
        unfold adMembers at hx
        rw [he] at hx
        simp only [Option.toList_some, List.mem_append, List.mem_singleton, not_or] at hx
        rw [wfun_assocSet, if_neg hx.2, inner_spec _ _ hn, if_neg hx.1]
      · intro n hn'
        have : n ≠ e := fun hh => hen (hh ▸ hn')
        rw [wfun_assocSet, if_neg this, inner_spec _ _ hn, if_pos hn']
      · rw [wfun_assocSet, if_pos rfl]; rfl

theorem adStep_trivial {ws ws1 : List (Nat × (Rat × Rat))} {a : ADC} (h : adStep ws a = .ok ws1)
    (hlen : a.nodes.length ≤ 1) : ws1 = ws := by
  unfold adStep at h
  rw [if_pos hlen] at h
  injection h with h; exact h.symm

/-- all `update_weights` steps, for constraints with pairwise disjoint, duplicate-free member lists -/
theorem foldlM_adStep_spec (ads : List ADC) :
    ∀ (ws wsF : List (Nat × (Rat × Rat))), ads.foldlM adStep ws = .ok wsF →
      (∀ a ∈ ads, (adMembers a).Nodup) →
      ads.Pairwise (fun a b => ∀ x, x ∈ adMembers a → x ∉ adMembers b) →
      (∀ x, (∀ a ∈ ads, 2 ≤ a.nodes.length → x ∉ adMembers a) → wfun wsF x = wfun ws x) ∧
      (∀ a ∈ ads, 2 ≤ a.nodes.length → ∃ e, a.extra = some e ∧
        (∀ n ∈ a.nodes, wfun wsF n = ((wfun ws n).1, 1)) ∧
        wfun wsF e = (1 - (a.nodes.map (fun n => (wfun ws n).1)).foldl (· + ·) 0, 1)) := by
  induction ads with
  | nil =>
    intro ws wsF h _ _
    simp [List.foldlM, pure, Except.pure] at h; subst h
    exact ⟨fun x _ => rfl, fun a ha => by simp at ha⟩
  | cons a r ih =>
    intro ws wsF h hnd hpw
    simp only [List.foldlM, bind, Except.bind] at h
    cases h1 : adStep ws a with
    | error e => rw [h1] at h; cases h
    | ok ws1 =>
      rw [h1] at h
      obtain ⟨hpa, hpr⟩ := List.pairwise_cons.mp hpw
      obtain ⟨ihA, ihB⟩ := ih ws1 wsF h (fun b hb => hnd b (List.mem_cons_of_mem _ hb)) hpr
      -- what the first step does outside / inside `a`
      have hout : ∀ x, x ∉ adMembers a → wfun ws1 x = wfun ws x := by
        intro x hx
        by_cases hl : 2 ≤ a.nodes.length
        · obtain ⟨_, _, h2, _⟩ := adStep_spec h1 hl (hnd a List.mem_cons_self)
          exact h2 x hx
        · rw [adStep_trivial h1 (by omega)]
      constructor
      · intro x hx
        rw [ihA x (fun b hb hl => hx b (List.mem_cons_of_mem _ hb) hl)]
        by_cases hl : 2 ≤ a.nodes.length
        · exact hout x (hx a List.mem_cons_self hl)
        · rw [adStep_trivial h1 (by omega)]
      · intro b hb hl
        rcases List.mem_cons.mp hb with rfl | hb'
        · obtain ⟨e, he, _, h3, h4⟩ := adStep_spec h1 hl (hnd b List.mem_cons_self)
          have hkeep : ∀ x, x ∈ adMembers b → wfun wsF x = wfun ws1 x := by
            intro x hx
            exact ihA x (fun d hd _ => hpa d hd x hx)
          refine ⟨e, he, ?_, ?_⟩
          · intro n hn
            rw [hkeep n (by unfold adMembers; simp [hn]), h3 n hn]
          · rw [hkeep e (by unfold adMembers; simp [he]), h4]
        · obtain ⟨e, he, h3, h4⟩ := ihB b hb' hl
          have hsame : ∀ x, x ∈ adMembers b → wfun ws1 x = wfun ws x := by
            intro x hx
            exact hout x (fun hxa => hpa b hb' x hxa hx)
          refine ⟨e, he, ?_, ?_⟩
          · intro n hn
            rw [h3 n hn, hsame n (by unfold adMembers; simp [hn])]
          · rw [h4]
            congr 2
            congr 1
            apply List.map_congr_left
            intro n hn
            rw [hsame n (by unfold adMembers; simp [hn])]

/-- **`extractWeights`, explicitly** (separated constraints): a key outside every non-trivial constraint carries the
pair of its stored weight (`(1,1)` without weight); a member `n` of a non-trivial constraint carries `(p_n, 1)` and
the extra node `(1 - Σ p, 1)`, `p_n` the positive entry of the stored weight. -/
theorem extractWeights_spec (weights : List (Nat × Weight)) (ads : List ADC) (ws : List (Nat × (Rat × Rat)))
    (h : extractWeights weights ads = .ok ws) (hnd : ∀ a ∈ ads, (adMembers a).Nodup)
    (hpw : ads.Pairwise (fun a b => ∀ x, x ∈ adMembers a → x ∉ adMembers b)) :
    (∀ x, (∀ a ∈ ads, 2 ≤ a.nodes.length → x ∉ adMembers a) →
        wfun ws x = pairOf ((lookup weights x).getD .neutral)) ∧
    (∀ a ∈ ads, 2 ≤ a.nodes.length → ∃ e, a.extra = some e ∧
      (∀ n ∈ a.nodes, wfun ws n = ((pairOf ((lookup weights n).getD .neutral)).1, 1)) ∧
      wfun ws e = (1 - (a.nodes.map (fun n => (pairOf ((lookup weights n).getD .neutral)).1)).foldl (· + ·) 0, 1)) := by
  rw [extractWeights_eq] at h
  cases hb : weights.mapM baseStep with
  | error e => rw [hb] at h; cases h
  | ok base =>
    rw [hb] at h
    simp only [Except.bind] at h
    obtain ⟨hA, hB⟩ := foldlM_adStep_spec ads base ws h hnd hpw
    constructor
    · intro x hx; rw [hA x hx, wfun_base weights base hb]
    · intro a ha hl
      obtain ⟨e, he, h3, h4⟩ := hB a ha hl
      refine ⟨e, he, ?_, ?_⟩
      · intro n hn; rw [h3 n hn, wfun_base weights base hb]
      · rw [h4]
        congr 2
        congr 1
        apply List.map_congr_left
        intro n _
        rw [wfun_base weights base hb]

end ProbLogProofs.DDNNF
