import ProbLogModel.Builtins
/-! Helper lemmas for the builtin theorems of C16. -/
namespace ProbLogProofs.BuiltinLemmas
open ProbLogModel ProbLogModel.Builtins

/-- The code's number tests look through one shape of compound: `'-'(N)` with the functor spelled *with quotes*
    (`_is_integer_neg`, `_is_float_neg`); such a term is a compound in Prolog. -/
def quotedMinus : Tm → Bool
  | .cmp "'-'" [a] => isIntegerPos a || isFloatPos a
  | _ => false


theorem listElements_mkList (xs : List Tm) : listElements (mkList xs nil) = xs := by
  induction xs with
  | nil => rfl
  | cons x xs ih => simp [mkList, listElements, ih]

theorem listTail_mkList (xs : List Tm) : listTail (mkList xs nil) = nil := by
  induction xs with
  | nil => rfl
  | cons x xs ih => simp [mkList, listTail, ih]

theorem isFixedList_mkList (xs : List Tm) : isFixedList (mkList xs nil) = true := by
  cases xs with
  | nil => rfl
  | cons x xs =>
    have h := listTail_mkList (x :: xs)
    simp only [mkList] at h
    simp only [isFixedList, isFixedListNonempty, mkList, isListMaybe, h]
    simp [isListEmpty, nil]

theorem negs_false (t : Tm) (h : quotedMinus t = false) : isIntegerNeg t = false ∧ isFloatNeg t = false := by
  unfold quotedMinus at h
  unfold isIntegerNeg isFloatNeg
  split at h
  · simp only [Bool.or_eq_false_iff] at h
    exact ⟨h.1, h.2⟩
  · rename_i hne
    constructor <;> split <;> first | rfl | (rename_i a; exact absurd rfl (hne a))


end ProbLogProofs.BuiltinLemmas
