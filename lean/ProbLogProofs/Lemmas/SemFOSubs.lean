import ProbLogModel.SemFO
import ProbLogProofs.Lemmas.SemFOGround
import ProbLogProofs.Lemmas.SemFORename
import ProbLogProofs.Lemmas.SemFOPerm
import ProbLogProofs.Lemmas.SemFOVars
/-!
# The instances of one statement along an explicit list of substitutions

`groundStmt cs c0 s` is `subsFrom s c0 Θ` for the list `Θ` of the substitutions `s.vars.zip vals`, `vals` ranging over
`tuples cs s.vars.length`: every substitution uses one block of `blockSize s` choice ids.  Permuting `Θ` only permutes
the rules and the groups and renames the choice ids injectively; substitutions that agree on the variables of `s` give
the same instances.
-/
namespace ProbLogProofs.SemFOSubs
open ProbLogModel ProbLogModel.SemFO ProbLogProofs.SemFOGround ProbLogProofs.SemFORename ProbLogProofs.SemFOPerm
open ProbLogProofs.SemFOVars

abbrev Subst := List (String × String)

/-- number of choice ids one instance of `s` uses -/
def blockSize (s : Stmt) : Nat := if s.isProb then s.heads.length else 0

/-- the rules of the instance of `s` under `θ` whose choice ids start at `b` -/
def instAt (s : Stmt) (b : Nat) (θ : Subst) : List SRule :=
  s.heads.zipIdx.flatMap (fun (ph, hi) =>
    (expandOr s.body).map (fun alt =>
      { head := ph.2.subst θ
        body := alt.map (fun (b, a) => (b, a.subst θ))
        choice := if s.isProb then some (b + hi) else none }))

def groupAt (s : Stmt) (b : Nat) : Sem.Group := ⟨s.heads.zipIdx.map (fun (ph, hi) => (ph.1, b + hi))⟩

theorem groundInst_eq (s : Stmt) (c0 k : Nat) (vals : List String) :
    groundInst s c0 k vals = instAt s (c0 + k * s.heads.length) (s.vars.zip vals) := rfl

theorem groupInst_eq (s : Stmt) (c0 k : Nat) : groupInst s c0 k = groupAt s (c0 + k * s.heads.length) := rfl

def subsFrom (s : Stmt) : Nat → List Subst → List SRule × List Sem.Group
  | _, [] => ([], [])
  | b, θ :: Θ =>
    let r := subsFrom s (b + blockSize s) Θ
    (instAt s b θ ++ r.1, (if s.isProb then [groupAt s b] else []) ++ r.2)

theorem instAt_base (s : Stmt) (hp : s.isProb = false) (b b' : Nat) (θ : Subst) : instAt s b θ = instAt s b' θ := by
  unfold instAt; simp [hp]

/-- `groundStmt` enumerates `subsFrom` along the assignments -/
theorem zipIdx_eq_subsFrom (s : Stmt) (c0 : Nat) (T : List (List String)) (k0 : Nat) :
    ((T.zipIdx k0).flatMap (fun (vals, k) => groundInst s c0 k vals),
     if s.isProb then (T.zipIdx k0).map (fun (_, k) => groupInst s c0 k) else []) =
      subsFrom s (c0 + k0 * blockSize s) (T.map (fun vals => s.vars.zip vals)) := by
  induction T generalizing k0 with
  | nil => simp [subsFrom]
  | cons vals T ih =>
    have ih' := ih (k0 + 1)
    simp only [List.zipIdx_cons, List.flatMap_cons, List.map_cons, subsFrom]
    rw [Nat.add_mul, Nat.one_mul, ← Nat.add_assoc] at ih'
    rw [← ih']
    by_cases hp : s.isProb = true
    · simp only [hp, if_true, blockSize, groundInst_eq, groupInst_eq, List.singleton_append]
    · have hp' : s.isProb = false := by simpa using hp
      simp only [hp', blockSize, Nat.mul_zero, Nat.add_zero, groundInst_eq, List.nil_append, Bool.false_eq_true,
        if_false]
      rw [instAt_base s hp' _ c0]

theorem groundStmt_eq_subsFrom (cs : List String) (c0 : Nat) (s : Stmt) :
    groundStmt cs c0 s = subsFrom s c0 ((tuples cs s.vars.length).map (fun vals => s.vars.zip vals)) := by
  have := zipIdx_eq_subsFrom s c0 (tuples cs s.vars.length) 0
  simpa [groundStmt, Stmt.insts] using this

/-- total number of choice ids of `n` instances -/
theorem nchoices_eq (cs : List String) (s : Stmt) :
    s.nchoices cs = (tuples cs s.vars.length).length * blockSize s := by
  unfold Stmt.nchoices blockSize
  rw [length_insts]
  by_cases hp : s.isProb = true <;> simp [hp]

/-! ### moving a block -/

theorem instAt_ren (σ : Nat → Nat) (s : Stmt) (b b' : Nat) (θ : Subst)
    (hσ : ∀ j, j < blockSize s → σ (b + j) = b' + j) :
    (instAt s b θ).map (renS σ) = instAt s b' θ := by
  unfold instAt
  rw [List.map_flatMap]
  apply flatMap_congr'
  rintro ⟨ph, hi⟩ hmem
  have hh := mem_zipIdx_lt hmem
  simp only [List.map_map]
  apply List.map_congr_left
  intro alt _
  simp only [Function.comp, renS]
  by_cases hp : s.isProb = true
  · simp only [hp, if_true, Option.map_some]
    rw [hσ hi (by unfold blockSize; simpa [hp] using hh)]
  · simp [hp]

theorem groupAt_ren (σ : Nat → Nat) (s : Stmt) (b b' : Nat) (hp : s.isProb = true)
    (hσ : ∀ j, j < blockSize s → σ (b + j) = b' + j) :
    renGroup σ (groupAt s b) = groupAt s b' := by
  unfold groupAt renGroup
  simp only [List.map_map]
  congr 1
  apply List.map_congr_left
  rintro ⟨ph, hi⟩ hmem
  have hh := mem_zipIdx_lt hmem
  simp only [Function.comp]
  rw [hσ hi (by unfold blockSize; simpa [hp] using hh)]

theorem subsFrom_ren (σ : Nat → Nat) (s : Stmt) (Θ : List Subst) (b b' : Nat)
    (hσ : ∀ j, j < Θ.length * blockSize s → σ (b + j) = b' + j) :
    (subsFrom s b Θ).1.map (renS σ) = (subsFrom s b' Θ).1 ∧
    (subsFrom s b Θ).2.map (renGroup σ) = (subsFrom s b' Θ).2 := by
  induction Θ generalizing b b' with
  | nil => exact ⟨rfl, rfl⟩
  | cons θ Θ ih =>
    rw [List.length_cons, Nat.add_mul, Nat.one_mul] at hσ
    have h1 : ∀ j, j < blockSize s → σ (b + j) = b' + j := fun j hj => hσ j (by omega)
    have h2 := ih (b + blockSize s) (b' + blockSize s) (fun j hj => by
      have := hσ (blockSize s + j) (by omega)
      rw [Nat.add_assoc, this, Nat.add_assoc])
    simp only [subsFrom, List.map_append]
    refine ⟨by rw [instAt_ren σ s b b' θ h1, h2.1], ?_⟩
    rw [h2.2]
    by_cases hp : s.isProb = true
    · simp only [hp, if_true, List.map_cons, List.map_nil, groupAt_ren σ s b b' hp h1]
    · simp [hp]

/-! ### permuting the substitutions -/

theorem subsFrom_perm (s : Stmt) {Θ Θ' : List Subst} (hp : Θ.Perm Θ') :
    ∀ b, ∃ σ : Nat → Nat, Function.Injective σ ∧
      (∀ c, c < b ∨ b + Θ.length * blockSize s ≤ c → σ c = c) ∧
      ((subsFrom s b Θ).1.map (renS σ)).Perm (subsFrom s b Θ').1 ∧
      ((subsFrom s b Θ).2.map (renGroup σ)).Perm (subsFrom s b Θ').2 := by
  induction hp with
  | nil =>
    intro b
    exact ⟨id, fun _ _ h => h, fun _ _ => rfl, by simp [subsFrom], by simp [subsFrom]⟩
  | @cons θ l l' _ ih =>
    intro b
    obtain ⟨σ, hinj, hfix, hr, hg⟩ := ih (b + blockSize s)
    have hb : ∀ j, j < blockSize s → σ (b + j) = b + j := fun j hj => hfix _ (by omega)
    refine ⟨σ, hinj, ?_, ?_, ?_⟩
    · intro c hc
      apply hfix
      rw [List.length_cons, Nat.add_mul, Nat.one_mul] at hc
      omega
    · simp only [subsFrom, List.map_append, instAt_ren σ s b b θ hb]
      exact hr.append_left _
    · simp only [subsFrom, List.map_append]
      have : (if s.isProb = true then [groupAt s b] else []).map (renGroup σ) =
          (if s.isProb = true then [groupAt s b] else []) := by
        by_cases hp : s.isProb = true
        · simp only [hp, if_true, List.map_cons, List.map_nil, groupAt_ren σ s b b hp hb]
        · simp [hp]
      rw [this]
      exact hg.append_left _
  | swap x y l =>
    intro b
    -- Θ = y :: x :: l, Θ' = x :: y :: l : exchange the first two blocks
    have hσ1 : ∀ j, j < blockSize s → swapBlocks b (blockSize s) (blockSize s) (b + j) = b + blockSize s + j := by
      intro j hj; unfold swapBlocks; split_ifs <;> omega
    have hσ2 : ∀ j, j < blockSize s →
        swapBlocks b (blockSize s) (blockSize s) (b + blockSize s + j) = b + j := by
      intro j hj; unfold swapBlocks; split_ifs <;> omega
    have hl := subsFrom_ren (swapBlocks b (blockSize s) (blockSize s)) s l
      (b + blockSize s + blockSize s) (b + blockSize s + blockSize s)
      (fun j _ => by unfold swapBlocks; split_ifs <;> omega)
    refine ⟨swapBlocks b (blockSize s) (blockSize s), swapBlocks_inj _ _ _, ?_, ?_, ?_⟩
    · intro c hc
      simp only [List.length_cons, Nat.add_mul, Nat.one_mul] at hc
      unfold swapBlocks
      split_ifs <;> omega
    · simp only [subsFrom, List.map_append, instAt_ren _ s _ _ _ hσ1, instAt_ren _ s _ _ _ hσ2, hl.1,
        ← List.append_assoc]
      exact List.perm_append_comm.append_right _
    · simp only [subsFrom, List.map_append, hl.2, ← List.append_assoc]
      by_cases hp : s.isProb = true
      · simp only [hp, if_true, List.map_cons, List.map_nil, groupAt_ren _ s _ _ hp hσ1,
          groupAt_ren _ s _ _ hp hσ2]
        exact List.perm_append_comm.append_right _
      · simp [hp]
  | @trans l₁ l₂ l₃ h12 _ ih1 ih2 =>
    intro b
    obtain ⟨σ₁, hinj₁, hfix₁, hr₁, hg₁⟩ := ih1 b
    obtain ⟨σ₂, hinj₂, hfix₂, hr₂, hg₂⟩ := ih2 b
    refine ⟨σ₂ ∘ σ₁, hinj₂.comp hinj₁, ?_, ?_, ?_⟩
    · intro c hc
      have e := h12.length_eq
      simp only [Function.comp]
      rw [hfix₁ c hc, hfix₂ c (by rw [← e]; exact hc)]
    · have := (hr₁.map (renS σ₂)).trans hr₂
      simpa only [List.map_map, Function.comp_def, renS_comp] using this
    · have := (hg₁.map (renGroup σ₂)).trans hg₂
      simpa only [List.map_map, Function.comp_def, renGroup_comp] using this

/-! ### substitutions that agree on the variables of the statement -/

theorem subst_term_congr (θ θ' : Subst) (t : Term) (h : ∀ v ∈ t.vars, θ.lookup v = θ'.lookup v) :
    Term.subst θ t = Term.subst θ' t := by
  cases t with
  | const c => rfl
  | var v => simp only [Term.subst, h v (by simp [Term.vars])]

theorem subst_atom_congr (θ θ' : Subst) (a : Atom) (h : ∀ v ∈ a.vars, θ.lookup v = θ'.lookup v) :
    Atom.subst θ a = Atom.subst θ' a := by
  unfold Atom.subst
  congr 1
  apply List.map_congr_left
  intro t ht
  exact subst_term_congr θ θ' t (fun v hv => h v (by unfold Atom.vars; exact List.mem_flatMap.2 ⟨t, ht, hv⟩))

theorem instAt_congr (s : Stmt) (b : Nat) (θ θ' : Subst) (h : ∀ v ∈ s.vars, θ.lookup v = θ'.lookup v) :
    instAt s b θ = instAt s b θ' := by
  unfold instAt
  apply flatMap_congr'
  rintro ⟨ph, hi⟩ hmem
  have hph : ph ∈ s.heads := List.mem_of_getElem? (List.mem_zipIdx_iff_getElem?.1 hmem)
  have hha : ph.2 ∈ s.atoms := by
    unfold Stmt.atoms
    exact List.mem_append_left _ (List.mem_map.2 ⟨ph, hph, rfl⟩)
  apply List.map_congr_left
  intro alt halt
  congr 1
  · exact subst_atom_congr θ θ' ph.2 (fun v hv => h v (vars_sub s ph.2 hha v hv))
  · apply List.map_congr_left
    intro l hl
    have hla : l.2 ∈ s.atoms := by
      unfold Stmt.atoms
      exact List.mem_append_right _ (atoms_of_alt s.body alt halt l hl)
    simp only [subst_atom_congr θ θ' l.2 (fun v hv => h v (vars_sub s l.2 hla v hv))]

theorem subsFrom_congr {α : Type} (s : Stmt) (F G : α → Subst) (T : List α)
    (h : ∀ x ∈ T, ∀ v ∈ s.vars, (F x).lookup v = (G x).lookup v) (b : Nat) :
    subsFrom s b (T.map F) = subsFrom s b (T.map G) := by
  induction T generalizing b with
  | nil => rfl
  | cons x T ih =>
    simp only [List.map_cons, subsFrom]
    rw [instAt_congr s b (F x) (G x) (h x List.mem_cons_self), ih (fun y hy => h y (List.mem_cons_of_mem _ hy))]

end ProbLogProofs.SemFOSubs
