import ProbLogModel.PyPl
/-!
Helper lemmas for C28: the terms built by `py2pl` are right-nested `foldr`s, and the two loops of `pl2py`
read such a term back element by element.
-/
namespace ProbLogProofs.PyPlLemmas
open ProbLogModel.PyPl

abbrev consT (e t : Pl) : Pl := .app2 "." e t
abbrev commaT (e t : Pl) : Pl := .app2 "," e t
abbrev nilT : Pl := .atom "[]"

theorem py2plAll_eq_map (xs : List PyVal) : py2plAll xs = xs.map py2pl := by
  induction xs with
  | nil => simp [py2plAll]
  | cons x xs ih => simp [py2plAll, ih]

theorem buildSeq_eq (f : String) (base : Pl) (ri : List Pl) :
    buildSeq f base ri = ri.reverse.foldr (fun el tail => .app2 f el tail) base := by
  unfold buildSeq
  rw [List.foldr_reverse]

/-- `py2pl` of a list is the right-nested `'.'/2` term ending in `[]`. -/
theorem py2pl_list (xs : List PyVal) : py2pl (.list xs) = (py2plAll xs).foldr consT nilT := by
  rw [py2pl]
  rcases List.eq_nil_or_concat (py2plAll xs) with h | ⟨init, last, h⟩
  · rw [h]; rfl
  · rw [h]
    simp only [List.concat_eq_append, List.reverse_append, List.reverse_cons, List.reverse_nil,
      List.nil_append, List.singleton_append, buildSeq_eq, List.reverse_reverse, List.foldr_append,
      List.foldr_cons, List.foldr_nil]

/-- `py2pl` of a tuple: `()`, or the right-nested `','/2` term ending in the last element itself. -/
theorem py2pl_tup_nil : py2pl (.tup []) = .atom "()" := by
  rw [py2pl]; rfl

theorem py2pl_tup_concat (init : List PyVal) (last : PyVal) :
    py2pl (.tup (init ++ [last])) = (py2plAll init).foldr commaT (py2pl last) := by
  rw [py2pl]
  have : py2plAll (init ++ [last]) = py2plAll init ++ [py2pl last] := by
    simp [py2plAll_eq_map]
  rw [this]
  simp only [List.reverse_append, List.reverse_cons, List.reverse_nil, List.nil_append,
    List.singleton_append, buildSeq_eq, List.reverse_reverse]

section readback
variable (dec : String → String)

theorem listRest_foldr (ts : List Pl) :
    listRest dec (ts.foldr consT nilT) = ts.map (pl2pyWith dec) := by
  induction ts with
  | nil => simp [listRest]
  | cons t ts ih => simp [listRest, ih]

theorem pl2py_foldr_list (ts : List Pl) :
    pl2pyWith dec (ts.foldr consT nilT) = .list (ts.map (pl2pyWith dec)) := by
  cases ts with
  | nil => simp [pl2pyWith, nonSeq]
  | cons t ts => simp [pl2pyWith, listRest_foldr]

theorem tupRest_foldr (init : List Pl) (lastT : Pl) :
    tupRest dec (init.foldr commaT lastT) = init.map (pl2pyWith dec) ++ tupRest dec lastT := by
  induction init with
  | nil => simp
  | cons t ts ih => simp [tupRest, ih]

theorem pl2py_foldr_tup (x : Pl) (init : List Pl) (lastT : Pl) :
    pl2pyWith dec ((x :: init).foldr commaT lastT)
      = .tup ((x :: init).map (pl2pyWith dec) ++ tupRest dec lastT) := by
  simp [pl2pyWith, tupRest_foldr]

/-- Not a `','/2` term. -/
def notComma : Pl → Bool
  | .app2 f _ _ => f != ","
  | _ => true

theorem tupRest_notComma (t : Pl) (h : notComma t = true) : tupRest dec t = [pl2pyWith dec t] := by
  cases t with
  | app2 f a b =>
    have hf : (f == ",") = false := by simpa [notComma] using h
    simp [tupRest, pl2pyWith, hf]
  | cstr s => simp [tupRest, pl2pyWith]
  | cint i => simp [tupRest, pl2pyWith]
  | cflt q => simp [tupRest, pl2pyWith]
  | atom f => simp [tupRest, pl2pyWith]
  | other f n r => simp [tupRest, pl2pyWith]
  | pvar n => simp [tupRest, pl2pyWith]
  | ivar i => simp [tupRest, pl2pyWith]

end readback

theorem notComma_foldr_list (ts : List Pl) : notComma (ts.foldr consT nilT) = true := by
  cases ts <;> simp [notComma]

/-! ### the string decoders on `py2pl`'s strings -/

theorem quoteStr_toList (s : String) : (quoteStr s).toList = '"' :: (s.toList ++ ['"']) := by
  simp [quoteStr, String.toList_append]

theorem stripPair_quoteStr (s : String) : stripPair (quoteStr s) = s := by
  unfold stripPair
  rw [quoteStr_toList]
  simp [List.getLast?_concat, List.dropLast_concat, String.ofList_toList]

theorem stripAll_quoteStr (s : String) (h : ∀ c ∈ s.toList, c ≠ '"' ∧ c ≠ '\'') :
    stripAll (quoteStr s) = s := by
  unfold stripAll
  rw [quoteStr_toList]
  have : List.filter (fun c => c != '"' && c != '\'') s.toList = s.toList := by
    rw [List.filter_eq_self]
    intro c hc
    have := h c hc
    simp [this.1, this.2]
  simp [List.filter_cons, List.filter_append, this, String.ofList_toList]

/-- The current decoder loses every quote character. -/
theorem stripAll_quoteStr_ne (s : String) (h : ∃ c ∈ s.toList, c = '"' ∨ c = '\'') :
    stripAll (quoteStr s) ≠ s := by
  intro e
  have hl : (stripAll (quoteStr s)).toList.length = s.toList.length := by rw [e]
  unfold stripAll at hl
  rw [quoteStr_toList, String.toList_ofList] at hl
  have hlt : (List.filter (fun c => c != '"' && c != '\'') s.toList).length < s.toList.length := by
    rw [List.length_filter_lt_length_iff_exists]
    obtain ⟨c, hc, hq⟩ := h
    refine ⟨c, hc, ?_⟩
    rcases hq with rfl | rfl <;> simp
  have hf : List.filter (fun c => c != '"' && c != '\'') ('"' :: (s.toList ++ ['"']))
      = List.filter (fun c => c != '"' && c != '\'') s.toList := by
    simp [List.filter_append]
  rw [hf] at hl
  omega

end ProbLogProofs.PyPlLemmas
