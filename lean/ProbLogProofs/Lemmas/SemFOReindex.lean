import ProbLogModel.SemFO
import ProbLogProofs.Lemmas.SemFOGround
import ProbLogProofs.Lemmas.SemFOVars
import Mathlib.Data.List.Nodup
import Mathlib.Data.List.Perm.Basic
/-!
# Reordering the variables of a statement permutes its assignments

For two duplicate-free variable lists `vs ~ vs'` the map `reindex vs vs'` (read the values of `vs'` off the assignment
`vs := vals`) is a bijection of `tuples cs n` onto itself, and `vs'.zip (reindex vs vs' vals)` is the same substitution
as `vs.zip vals`.
-/
namespace ProbLogProofs.SemFOReindex
open ProbLogModel ProbLogModel.SemFO ProbLogProofs.SemFOGround ProbLogProofs.SemFOVars

/-- the values of the variables `vs'` under the assignment `vs := vals` -/
def reindex (vs vs' : List String) (vals : List String) : List String :=
  vs'.map (fun v => ((vs.zip vals).lookup v).getD "")

theorem lookup_zip_map_self (l : List String) (g : String → String) (v : String) (hv : v ∈ l) :
    (l.zip (l.map g)).lookup v = some (g v) := by
  induction l with
  | nil => cases hv
  | cons a l ih =>
    simp only [List.map_cons, List.zip_cons_cons, List.lookup_cons]
    by_cases h : v = a
    · subst h; simp
    · have hb : (v == a) = false := by simp [h]
      rw [hb]
      rcases List.mem_cons.1 hv with e | e
      · exact absurd e h
      · exact ih e

theorem map_lookup_zip (l : List String) (hn : l.Nodup) (vals : List String) (hl : vals.length = l.length) :
    l.map (fun v => ((l.zip vals).lookup v).getD "") = vals := by
  induction l generalizing vals with
  | nil =>
    cases vals with
    | nil => rfl
    | cons x xs => simp at hl
  | cons a l ih =>
    cases vals with
    | nil => simp at hl
    | cons x xs =>
      have hna : a ∉ l := (List.nodup_cons.1 hn).1
      simp only [List.map_cons, List.zip_cons_cons, List.lookup_cons, beq_self_eq_true, Option.getD_some]
      congr 1
      rw [← ih (List.nodup_cons.1 hn).2 xs (by simpa using hl)]
      apply List.map_congr_left
      intro v hv
      have h : v ≠ a := fun e => hna (e ▸ hv)
      have hb : (v == a) = false := by simp [h]
      rw [hb]
      rw [ih (List.nodup_cons.1 hn).2 xs (by simpa using hl)]

theorem lookup_mem (vs vals : List String) (v x : String) (h : (vs.zip vals).lookup v = some x) : x ∈ vals := by
  induction vs generalizing vals with
  | nil => simp at h
  | cons a vs ih =>
    cases vals with
    | nil => simp at h
    | cons y ys =>
      simp only [List.zip_cons_cons, List.lookup_cons] at h
      cases hb : (v == a) with
      | true => rw [hb] at h; simp only [Option.some.injEq] at h; subst h; exact List.mem_cons_self
      | false => rw [hb] at h; exact List.mem_cons_of_mem _ (ih ys h)

/-- the reordered assignment denotes the same substitution on the common variables -/
theorem lookup_reindex (vs vs' vals : List String) (hl : vals.length = vs.length) (v : String) (hv : v ∈ vs)
    (hv' : v ∈ vs') : (vs'.zip (reindex vs vs' vals)).lookup v = (vs.zip vals).lookup v := by
  unfold reindex
  rw [lookup_zip_map_self vs' _ v hv']
  obtain ⟨x, hx⟩ := lookup_zip_some vs vals hl v hv
  rw [hx]; rfl

theorem length_reindex (vs vs' vals : List String) : (reindex vs vs' vals).length = vs'.length := by
  unfold reindex; simp

theorem reindex_reindex (vs vs' : List String) (hn : vs.Nodup) (hp : vs.Perm vs') (vals : List String)
    (hl : vals.length = vs.length) : reindex vs' vs (reindex vs vs' vals) = vals := by
  conv_rhs => rw [← map_lookup_zip vs hn vals hl]
  unfold reindex
  apply List.map_congr_left
  intro v hv
  have := lookup_reindex vs vs' vals hl v hv (hp.mem_iff.1 hv)
  unfold reindex at this
  rw [this]

theorem reindex_mem_tuples (cs vs vs' : List String) (hp : vs.Perm vs') (vals : List String)
    (h : vals ∈ tuples cs vs.length) : reindex vs vs' vals ∈ tuples cs vs.length := by
  obtain ⟨hl, hc⟩ := (mem_tuples cs _ vals).1 h
  rw [mem_tuples]
  refine ⟨by rw [length_reindex, hp.length_eq], ?_⟩
  intro x hx
  unfold reindex at hx
  obtain ⟨v, hv, rfl⟩ := List.mem_map.1 hx
  obtain ⟨y, hy⟩ := lookup_zip_some vs vals hl v (hp.mem_iff.2 hv)
  rw [hy]
  exact hc y (lookup_mem vs vals v y hy)

theorem tuples_nodup (cs : List String) (hc : cs.Nodup) (n : Nat) : (tuples cs n).Nodup := by
  induction n with
  | zero => simp [tuples, product]
  | succ n ih =>
    rw [tuples_succ, List.nodup_flatMap]
    refine ⟨fun x _ => ih.map (fun a b h => by simpa using h), ?_⟩
    refine List.Pairwise.imp ?_ hc
    intro a b hab t hta htb
    obtain ⟨t1, _, rfl⟩ := List.mem_map.1 hta
    obtain ⟨t2, _, e⟩ := List.mem_map.1 htb
    simp only [List.cons.injEq] at e
    exact hab e.1.symm

/-- reordering the variables permutes the list of assignments -/
theorem reindex_perm (cs vs vs' : List String) (hc : cs.Nodup) (hn : vs.Nodup) (hp : vs.Perm vs') :
    ((tuples cs vs.length).map (reindex vs vs')).Perm (tuples cs vs.length) := by
  have hn' : vs'.Nodup := hp.nodup_iff.1 hn
  have hlen := hp.length_eq
  rw [List.perm_ext_iff_of_nodup _ (tuples_nodup cs hc _)]
  · intro a
    constructor
    · intro ha
      obtain ⟨vals, hv, rfl⟩ := List.mem_map.1 ha
      exact reindex_mem_tuples cs vs vs' hp vals hv
    · intro ha
      have hl : a.length = vs'.length := by rw [← hlen]; exact ((mem_tuples cs _ a).1 ha).1
      refine List.mem_map.2 ⟨reindex vs' vs a, ?_, reindex_reindex vs' vs hn' hp.symm a hl⟩
      have := reindex_mem_tuples cs vs' vs hp.symm a (by rw [← hlen]; exact ha)
      rw [← hlen] at this
      exact this
  · apply (tuples_nodup cs hc _).map_on
    intro x hx y hy hxy
    have hlx := ((mem_tuples cs _ x).1 hx).1
    have hly := ((mem_tuples cs _ y).1 hy).1
    rw [← reindex_reindex vs vs' hn hp x hlx, ← reindex_reindex vs vs' hn hp y hly, hxy]

end ProbLogProofs.SemFOReindex
