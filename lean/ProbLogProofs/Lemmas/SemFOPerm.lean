import ProbLogModel.SemFO
import ProbLogProofs.Lemmas.SemFOGround
import ProbLogProofs.Lemmas.SemFORename
/-!
# Permuting the statements of a first-order program

`groundStmts` of a permuted statement list is the same ground program up to a permutation of the rules, a permutation
of the groups and an injective renaming of the choice ids (the blocks of ids of the statements are moved around).
-/
namespace ProbLogProofs.SemFOPerm
open ProbLogModel ProbLogModel.SemFO ProbLogProofs.SemFOGround ProbLogProofs.SemFORename

/-- rename the choice id of a symbolic ground rule -/
def renS (σ : Nat → Nat) (r : SRule) : SRule := { r with choice := r.choice.map σ }

theorem toRule_renS (aid : GAtom → Nat) (σ : Nat → Nat) (r : SRule) :
    SRule.toRule aid (renS σ r) = renRule σ (SRule.toRule aid r) := rfl

theorem renS_id (r : SRule) : renS id r = r := by
  cases r with
  | mk h b c => cases c <;> rfl

theorem renS_comp (σ τ : Nat → Nat) (r : SRule) : renS τ (renS σ r) = renS (τ ∘ σ) r := by
  cases r with
  | mk h b c => cases c <;> rfl

theorem renGroup_id (g : Sem.Group) : renGroup id g = g := by
  cases g with
  | mk alts => simp [renGroup]

theorem flatMap_congr' {α β : Type} {l : List α} {f g : α → List β} (h : ∀ a ∈ l, f a = g a) :
    l.flatMap f = l.flatMap g := by
  induction l with
  | nil => rfl
  | cons a l ih =>
    simp only [List.flatMap_cons]
    rw [h a List.mem_cons_self, ih (fun b hb => h b (List.mem_cons_of_mem _ hb))]

/-- the local index of a choice id inside the block of its statement -/
theorem local_lt (cs : List String) (s : Stmt) (k hi : Nat) (hp : s.isProb = true)
    (hk : k < (tuples cs s.vars.length).length) (hh : hi < s.heads.length) :
    k * s.heads.length + hi < s.nchoices cs := by
  have := (cidOf_lt cs s 0 k hi hp hk hh).2
  unfold cidOf at this
  omega

theorem mem_zipIdx_lt {α : Type} {l : List α} {x : α} {i : Nat} (h : (x, i) ∈ l.zipIdx) : i < l.length := by
  have := List.mem_zipIdx h
  omega

/-! ### moving the block of one statement -/

theorem groundInst_ren (σ : Nat → Nat) (cs : List String) (s : Stmt) (c0 c1 k : Nat) (vals : List String)
    (hk : k < (tuples cs s.vars.length).length) (hσ : ∀ j, j < s.nchoices cs → σ (c0 + j) = c1 + j) :
    (groundInst s c0 k vals).map (renS σ) = groundInst s c1 k vals := by
  unfold groundInst
  rw [List.map_flatMap]
  apply flatMap_congr'
  rintro ⟨ph, hi⟩ hmem
  have hh := mem_zipIdx_lt hmem
  simp only [List.map_map]
  apply List.map_congr_left
  intro alt _
  simp only [Function.comp, renS]
  by_cases hp : s.isProb = true
  · simp only [hp, if_true, Option.map_some]
    have := hσ _ (local_lt cs s k hi hp hk hh)
    unfold cidOf
    rw [Nat.add_assoc, this, Nat.add_assoc]
  · simp [hp]

theorem groupInst_ren (σ : Nat → Nat) (cs : List String) (s : Stmt) (c0 c1 k : Nat) (hp : s.isProb = true)
    (hk : k < (tuples cs s.vars.length).length) (hσ : ∀ j, j < s.nchoices cs → σ (c0 + j) = c1 + j) :
    renGroup σ (groupInst s c0 k) = groupInst s c1 k := by
  unfold groupInst renGroup
  simp only [List.map_map]
  congr 1
  apply List.map_congr_left
  rintro ⟨ph, hi⟩ hmem
  have hh := mem_zipIdx_lt hmem
  simp only [Function.comp]
  have := hσ _ (local_lt cs s k hi hp hk hh)
  unfold cidOf
  rw [Nat.add_assoc, this, Nat.add_assoc]

theorem groundStmt_ren (σ : Nat → Nat) (cs : List String) (s : Stmt) (c0 c1 : Nat)
    (hσ : ∀ j, j < s.nchoices cs → σ (c0 + j) = c1 + j) :
    (groundStmt cs c0 s).1.map (renS σ) = (groundStmt cs c1 s).1 ∧
    (groundStmt cs c0 s).2.map (renGroup σ) = (groundStmt cs c1 s).2 := by
  unfold groundStmt
  constructor
  · simp only
    rw [List.map_flatMap]
    apply flatMap_congr'
    rintro ⟨vals, k⟩ hmem
    have hk : k < (tuples cs s.vars.length).length := by
      have := mem_zipIdx_lt hmem
      exact this
    exact groundInst_ren σ cs s c0 c1 k vals hk hσ
  · simp only
    by_cases hp : s.isProb = true
    · simp only [hp, if_true, List.map_map]
      apply List.map_congr_left
      rintro ⟨vals, k⟩ hmem
      have hk : k < (tuples cs s.vars.length).length := mem_zipIdx_lt hmem
      exact groupInst_ren σ cs s c0 c1 k hp hk hσ
    · simp [hp]

theorem groundStmts_ren (σ : Nat → Nat) (cs : List String) (ss : List Stmt) (c0 c1 : Nat)
    (hσ : ∀ j, j < totalChoices cs ss → σ (c0 + j) = c1 + j) :
    (groundStmts cs c0 ss).1.map (renS σ) = (groundStmts cs c1 ss).1 ∧
    (groundStmts cs c0 ss).2.map (renGroup σ) = (groundStmts cs c1 ss).2 := by
  induction ss generalizing c0 c1 with
  | nil => exact ⟨rfl, rfl⟩
  | cons s ss ih =>
    rw [totalChoices_cons] at hσ
    have h1 := groundStmt_ren σ cs s c0 c1 (fun j hj => hσ j (by omega))
    have h2 := ih (c0 + s.nchoices cs) (c1 + s.nchoices cs) (fun j hj => by
      have := hσ (s.nchoices cs + j) (by omega)
      rw [Nat.add_assoc, this, Nat.add_assoc])
    simp only [groundStmts, List.map_append]
    exact ⟨by rw [h1.1, h2.1], by rw [h1.2, h2.2]⟩

theorem totalChoices_perm (cs : List String) {ss ss' : List Stmt} (h : ss.Perm ss') :
    totalChoices cs ss = totalChoices cs ss' := by
  unfold totalChoices
  exact (h.map _).sum_nat

/-! ### the permutation theorem -/

/-- exchange the adjacent blocks `[c0, c0+ny)` and `[c0+ny, c0+ny+nx)` -/
def swapBlocks (c0 ny nx : Nat) (c : Nat) : Nat :=
  if c < c0 then c else if c < c0 + ny then c + nx else if c < c0 + ny + nx then c - ny else c

theorem swapBlocks_inj (c0 ny nx : Nat) : Function.Injective (swapBlocks c0 ny nx) := by
  intro a b h
  unfold swapBlocks at h
  split_ifs at h <;> omega

theorem groundStmts_perm (cs : List String) {ss ss' : List Stmt} (hp : ss.Perm ss') :
    ∀ c0, ∃ σ : Nat → Nat, Function.Injective σ ∧
      (∀ c, c < c0 ∨ c0 + totalChoices cs ss ≤ c → σ c = c) ∧
      ((groundStmts cs c0 ss).1.map (renS σ)).Perm (groundStmts cs c0 ss').1 ∧
      ((groundStmts cs c0 ss).2.map (renGroup σ)).Perm (groundStmts cs c0 ss').2 := by
  induction hp with
  | nil =>
    intro c0
    exact ⟨id, fun _ _ h => h, fun _ _ => rfl, by simp [groundStmts], by simp [groundStmts]⟩
  | @cons s l l' _ ih =>
    intro c0
    obtain ⟨σ, hinj, hfix, hr, hg⟩ := ih (c0 + s.nchoices cs)
    refine ⟨σ, hinj, ?_, ?_, ?_⟩
    · intro c hc
      apply hfix
      rw [totalChoices_cons] at hc
      omega
    · have h1 := (groundStmt_ren σ cs s c0 c0 (fun j hj => hfix _ (by omega))).1
      simp only [groundStmts, List.map_append, h1]
      exact hr.append_left _
    · have h1 := (groundStmt_ren σ cs s c0 c0 (fun j hj => hfix _ (by omega))).2
      simp only [groundStmts, List.map_append, h1]
      exact hg.append_left _
  | swap x y l =>
    intro c0
    -- ss = y :: x :: l, ss' = x :: y :: l
    refine ⟨swapBlocks c0 (y.nchoices cs) (x.nchoices cs), swapBlocks_inj _ _ _, ?_, ?_, ?_⟩
    · intro c hc
      rw [totalChoices_cons, totalChoices_cons] at hc
      unfold swapBlocks
      split_ifs <;> omega
    all_goals
      have hy := groundStmt_ren (swapBlocks c0 (y.nchoices cs) (x.nchoices cs)) cs y c0 (c0 + x.nchoices cs)
        (fun j hj => by unfold swapBlocks; split_ifs <;> omega)
      have hx := groundStmt_ren (swapBlocks c0 (y.nchoices cs) (x.nchoices cs)) cs x (c0 + y.nchoices cs) c0
        (fun j hj => by unfold swapBlocks; split_ifs <;> omega)
      have hl := groundStmts_ren (swapBlocks c0 (y.nchoices cs) (x.nchoices cs)) cs l
        (c0 + y.nchoices cs + x.nchoices cs) (c0 + x.nchoices cs + y.nchoices cs)
        (fun j hj => by unfold swapBlocks; split_ifs <;> omega)
      simp only [groundStmts, List.map_append, hy.1, hx.1, hl.1, hy.2, hx.2, hl.2, ← List.append_assoc]
      exact List.perm_append_comm.append_right _
  | @trans l₁ l₂ l₃ h12 _ ih1 ih2 =>
    intro c0
    obtain ⟨σ₁, hinj₁, hfix₁, hr₁, hg₁⟩ := ih1 c0
    obtain ⟨σ₂, hinj₂, hfix₂, hr₂, hg₂⟩ := ih2 c0
    refine ⟨σ₂ ∘ σ₁, hinj₂.comp hinj₁, ?_, ?_, ?_⟩
    · intro c hc
      have e := totalChoices_perm cs h12
      simp only [Function.comp]
      rw [hfix₁ c hc, hfix₂ c (by omega)]
    · have := (hr₁.map (renS σ₂)).trans hr₂
      simpa only [List.map_map, Function.comp_def, renS_comp] using this
    · have := (hg₁.map (renGroup σ₂)).trans hg₂
      simpa only [List.map_map, Function.comp_def, renGroup_comp] using this

/-- a renaming that is injective and the identity from `n` on maps `[0, n)` into itself -/
theorem lt_iff_of_fix {σ : Nat → Nat} (hinj : Function.Injective σ) {n : Nat} (hfix : ∀ c, n ≤ c → σ c = c)
    (c : Nat) : σ c < n ↔ c < n := by
  constructor
  · intro h
    by_contra hc
    rw [hfix c (by omega)] at h
    exact hc h
  · intro h
    by_contra hc
    have h1 : σ (σ c) = σ c := hfix _ (by omega)
    have := hinj h1
    omega

end ProbLogProofs.SemFOPerm
