import ProbLogModel.Containers
/-!
Helper lemmas for C34 (UHeap), part 1: the index map, `_swap`, and the entries (key,item) of the heap array.
-/
namespace ProbLogProofs.ContainersHeap
open ProbLogModel.Containers
open ProbLogModel.Containers.UHeap

theorem lookup_setIdx (idx : List (Int × Nat)) (item : Int) (p : Nat) (x : Int) :
    lookup (setIdx idx item p) x = if item = x then some p else lookup idx x := by
  induction idx with
  | nil => simp [setIdx, lookup]
  | cons e r ih =>
    obtain ⟨i, q⟩ := e
    simp only [setIdx]
    by_cases hi : i = item
    · subst hi
      by_cases hx : i = x <;> simp [lookup, hx]
    · by_cases hx : i = x
      · subst hx
        have : ¬ item = i := fun e => hi e.symm
        simp [lookup, hi, this]
      · simp [lookup, hi, hx, ih]

theorem lookup_delIdx (idx : List (Int × Nat)) (item : Int) (x : Int) :
    lookup (delIdx idx item) x = if item = x then none else lookup idx x := by
  induction idx with
  | nil => simp [delIdx, lookup]
  | cons e r ih =>
    obtain ⟨i, q⟩ := e
    unfold delIdx at ih ⊢
    simp only [List.filter_cons]
    by_cases hi : i = item
    · subst hi
      by_cases hx : i = x
      · simp [hx] at ih ⊢; simpa [hx] using ih
      · simp [lookup, hx] at ih ⊢; simpa [hx] using ih
    · have h1 : (i != item) = true := by simp [hi]
      simp only [h1, if_true, lookup]
      by_cases hx : i = x
      · subst hx
        have : ¬ item = i := fun e => hi e.symm
        simp [this]
      · simp [hx, ih]

/-- `(k, it)` is stored in the heap array. -/
def Entry (h : UHeap) (k it : Int) : Prop := ∃ p : Nat, h.heap[p]? = some (k, it)

/-- The index map and the array describe each other: `_index[it] = p` iff slot `p` holds item `it`. -/
def IdxOK (h : UHeap) : Prop := ∀ (it : Int) (p : Nat), lookup h.index it = some p ↔ ∃ k, h.heap[p]? = some (k, it)

theorem IdxOK.inj {h : UHeap} (ok : IdxOK h) {p q : Nat} {k k' it : Int}
    (hp : h.heap[p]? = some (k, it)) (hq : h.heap[q]? = some (k', it)) : p = q := by
  have h1 := (ok it p).2 ⟨k, hp⟩
  have h2 := (ok it q).2 ⟨k', hq⟩
  rw [h1] at h2
  exact Option.some.inj h2

theorem IdxOK.functional {h : UHeap} (ok : IdxOK h) {k k' it : Int}
    (h1 : Entry h k it) (h2 : Entry h k' it) : k = k' := by
  obtain ⟨p, hp⟩ := h1
  obtain ⟨q, hq⟩ := h2
  have := ok.inj hp hq
  subst this
  rw [hp] at hq
  simpa using hq

theorem swap_getElem? (h : UHeap) (i j p : Nat) (hi : i < h.heap.size) (hj : j < h.heap.size) :
    (h.swap i j).heap[p]? = if p = j then h.heap[i]? else if p = i then h.heap[j]? else h.heap[p]? := by
  unfold swap
  simp only [hi, hj, dite_true]
  rw [Array.getElem?_set, Array.getElem?_set]
  by_cases h1 : p = j
  · subst h1; simp
  · by_cases h2 : p = i
    · subst h2
      have : ¬ j = p := fun e => h1 e.symm
      simp [this, h1]
    · have a : ¬ j = p := fun e => h1 e.symm
      have b : ¬ i = p := fun e => h2 e.symm
      simp [a, b, h1, h2]

theorem swap_index (h : UHeap) (i j : Nat) (hi : i < h.heap.size) (hj : j < h.heap.size) :
    (h.swap i j).index = setIdx (setIdx h.index h.heap[i].2 j) h.heap[j].2 i := by
  unfold swap
  simp only [hi, hj, dite_true]

theorem swap_oob (h : UHeap) (i j : Nat) (hb : ¬ (i < h.heap.size ∧ j < h.heap.size)) : h.swap i j = h := by
  unfold swap
  split
  · split
    · rename_i a b; exact absurd ⟨a, b⟩ hb
    · rfl
  · rfl

theorem swap_idxOK (h : UHeap) (i j : Nat) (ok : IdxOK h) : IdxOK (h.swap i j) := by
  by_cases hb : i < h.heap.size ∧ j < h.heap.size
  · obtain ⟨hi, hj⟩ := hb
    intro it p
    rw [swap_index h i j hi hj, swap_getElem? h i j p hi hj, lookup_setIdx, lookup_setIdx]
    have ei : h.heap[i]? = some (h.heap[i].1, h.heap[i].2) := by simp [Array.getElem?_eq_getElem hi]
    have ej : h.heap[j]? = some (h.heap[j].1, h.heap[j].2) := by simp [Array.getElem?_eq_getElem hj]
    by_cases hjt : h.heap[j].2 = it
    · -- `it` is the item that was at j, now at i
      simp only [hjt, if_true]
      constructor
      · intro e
        have e : i = p := Option.some.inj e
        subst e
        by_cases hij : i = j
        · subst hij; simp only [if_true]; exact ⟨_, by rw [ei, ← hjt]⟩
        · simp only [hij, if_false, if_true]; exact ⟨_, by rw [ej, ← hjt]⟩
      · rintro ⟨k, hk⟩
        by_cases h1 : p = j
        · simp only [h1, if_true] at hk
          rw [hjt] at ej
          have := ok.inj hk ej
          rw [h1, this]
        · simp only [h1, if_false] at hk
          by_cases h2 : p = i
          · rw [h2]
          · simp only [h2, if_false] at hk
            rw [hjt] at ej
            exact absurd (ok.inj hk ej) h1
    · simp only [hjt, if_false]
      by_cases hit : h.heap[i].2 = it
      · simp only [hit, if_true]
        constructor
        · intro e
          have e : j = p := Option.some.inj e
          subst e
          simp only [if_true]
          exact ⟨_, by rw [ei, ← hit]⟩
        · rintro ⟨k, hk⟩
          by_cases h1 : p = j
          · rw [h1]
          · simp only [h1, if_false] at hk
            rw [hit] at ei
            by_cases h2 : p = i
            · simp only [h2, if_true] at hk
              rw [ej] at hk
              exact absurd (by simpa using (congrArg (fun o => o.map Prod.snd) hk)) hjt
            · simp only [h2, if_false] at hk
              exact absurd (ok.inj hk ei) h2
      · simp only [hit, if_false]
        rw [ok it p]
        by_cases h1 : p = j
        · subst h1
          simp only [if_true]
          constructor
          · rintro ⟨k, hk⟩
            rw [ej] at hk
            exact absurd (by simpa using (congrArg (fun o => o.map Prod.snd) hk)) hjt
          · rintro ⟨k, hk⟩
            rw [ei] at hk
            exact absurd (by simpa using (congrArg (fun o => o.map Prod.snd) hk)) hit
        · simp only [h1, if_false]
          by_cases h2 : p = i
          · subst h2
            simp only [if_true]
            constructor
            · rintro ⟨k, hk⟩
              rw [ei] at hk
              exact absurd (by simpa using (congrArg (fun o => o.map Prod.snd) hk)) hit
            · rintro ⟨k, hk⟩
              rw [ej] at hk
              exact absurd (by simpa using (congrArg (fun o => o.map Prod.snd) hk)) hjt
          · simp only [h2, if_false]
  · rw [swap_oob h i j hb]; exact ok

theorem swap_entry (h : UHeap) (i j : Nat) (k it : Int) : Entry (h.swap i j) k it ↔ Entry h k it := by
  by_cases hb : i < h.heap.size ∧ j < h.heap.size
  · obtain ⟨hi, hj⟩ := hb
    unfold Entry
    constructor
    · rintro ⟨p, hp⟩
      rw [swap_getElem? h i j p hi hj] at hp
      by_cases h1 : p = j
      · simp only [h1, if_true] at hp; exact ⟨i, hp⟩
      · simp only [h1, if_false] at hp
        by_cases h2 : p = i
        · simp only [h2, if_true] at hp; exact ⟨j, hp⟩
        · simp only [h2, if_false] at hp; exact ⟨p, hp⟩
    · rintro ⟨p, hp⟩
      by_cases h1 : p = i
      · refine ⟨j, ?_⟩
        rw [swap_getElem? h i j j hi hj]; simp only [if_true]; rw [← h1]; exact hp
      · by_cases h2 : p = j
        · refine ⟨i, ?_⟩
          rw [swap_getElem? h i j i hi hj]
          by_cases hij : i = j
          · simp only [hij, if_true]; rw [← h2]; exact hp
          · simp only [hij, if_false, if_true]; rw [← h2]; exact hp
        · refine ⟨p, ?_⟩
          rw [swap_getElem? h i j p hi hj]; simp only [h1, h2, if_false]; exact hp
  · rw [swap_oob h i j hb]

/-! ### keys by position -/

theorem keyAt_eq (h : UHeap) (i : Nat) : h.keyAt i = (h.heap[i]?.getD (0, 0)).1 := by
  unfold keyAt; rw [Array.getD_eq_getD_getElem?]

theorem swap_keyAt (h : UHeap) (i j p : Nat) (hi : i < h.heap.size) (hj : j < h.heap.size) :
    (h.swap i j).keyAt p = if p = j then h.keyAt i else if p = i then h.keyAt j else h.keyAt p := by
  simp only [keyAt_eq, swap_getElem? h i j p hi hj]
  split
  · rfl
  · split <;> rfl

/-! ### swimUp / sinkDown only swap -/

theorem swimUp_size (h : UHeap) (i : Nat) : (swimUp h i).heap.size = h.heap.size := by
  induction i using Nat.strongRecOn generalizing h with
  | _ i ih =>
    unfold swimUp
    split
    · rfl
    · simp only
      split
      · rw [ih _ (by omega), swap_size]
      · rfl

theorem swimUp_idxOK (h : UHeap) (i : Nat) (ok : IdxOK h) : IdxOK (swimUp h i) := by
  induction i using Nat.strongRecOn generalizing h with
  | _ i ih =>
    unfold swimUp
    split
    · exact ok
    · simp only
      split
      · exact ih _ (by omega) _ (swap_idxOK _ _ _ ok)
      · exact ok

theorem swimUp_entry (h : UHeap) (i : Nat) (k it : Int) : Entry (swimUp h i) k it ↔ Entry h k it := by
  induction i using Nat.strongRecOn generalizing h with
  | _ i ih =>
    unfold swimUp
    split
    · rfl
    · simp only
      split
      · rw [ih _ (by omega), swap_entry]
      · rfl

theorem sinkDownAux_size (fuel : Nat) (h : UHeap) (i : Nat) :
    (sinkDownAux fuel h i).heap.size = h.heap.size := by
  induction fuel generalizing h i with
  | zero => rfl
  | succ f ih =>
    unfold sinkDownAux
    simp only
    split <;> (repeat' split) <;> simp [ih, swap_size]

theorem sinkDownAux_idxOK (fuel : Nat) (h : UHeap) (i : Nat) (ok : IdxOK h) :
    IdxOK (sinkDownAux fuel h i) := by
  induction fuel generalizing h i with
  | zero => exact ok
  | succ f ih =>
    unfold sinkDownAux
    simp only
    split <;> (repeat' split) <;> first | exact ok | exact ih _ _ (swap_idxOK _ _ _ ok)

theorem sinkDownAux_entry (fuel : Nat) (h : UHeap) (i : Nat) (k it : Int) :
    Entry (sinkDownAux fuel h i) k it ↔ Entry h k it := by
  induction fuel generalizing h i with
  | zero => rfl
  | succ f ih =>
    unfold sinkDownAux
    simp only
    split <;> (repeat' split) <;> first | rfl | (rw [ih, swap_entry])

end ProbLogProofs.ContainersHeap
