import ProbLogModel.SemFO
import Mathlib.Data.List.Forall2
/-!
# Membership characterisations for the Herbrand instantiation `SemFO.ground`
-/
namespace ProbLogProofs.SemFOGround
open ProbLogModel ProbLogModel.SemFO

/-! ### `product`, `tuples` -/

theorem mem_product {α : Type} (ss : List (List α)) (t : List α) :
    t ∈ product ss ↔ List.Forall₂ (fun x s => x ∈ s) t ss := by
  induction ss generalizing t with
  | nil => simp [product]
  | cons s ss ih =>
    simp only [product, List.mem_flatMap, List.mem_map, List.forall₂_cons_right_iff]
    constructor
    · rintro ⟨x, hx, t', ht', rfl⟩
      exact ⟨x, t', hx, (ih t').1 ht', rfl⟩
    · rintro ⟨x, t', hx, ht', rfl⟩
      exact ⟨x, hx, t', (ih t').2 ht', rfl⟩

theorem tuples_succ {α : Type} (cs : List α) (n : Nat) :
    tuples cs (n + 1) = cs.flatMap (fun x => (tuples cs n).map (fun t => x :: t)) := by
  simp [tuples, List.replicate_succ, product]

/-- the assignments are exactly the lists of `n` constants -/
theorem mem_tuples {α : Type} (cs : List α) (n : Nat) (t : List α) :
    t ∈ tuples cs n ↔ t.length = n ∧ ∀ x ∈ t, x ∈ cs := by
  induction n generalizing t with
  | zero =>
    simp only [tuples, List.replicate_zero, product, List.mem_singleton, List.length_eq_zero_iff]
    constructor
    · rintro rfl; simp
    · exact fun h => h.1
  | succ n ih =>
    rw [tuples_succ]
    simp only [List.mem_flatMap, List.mem_map]
    constructor
    · rintro ⟨x, hx, t', ht', rfl⟩
      obtain ⟨h1, h2⟩ := (ih t').1 ht'
      refine ⟨by simp [h1], ?_⟩
      intro y hy
      rcases List.mem_cons.1 hy with rfl | hy
      · exact hx
      · exact h2 y hy
    · rintro ⟨hl, hall⟩
      cases t with
      | nil => simp at hl
      | cons x t' =>
        refine ⟨x, hall x (List.mem_cons_self), t', (ih t').2 ⟨by simpa using hl, ?_⟩, rfl⟩
        intro y hy
        exact hall y (List.mem_cons_of_mem _ hy)

theorem length_tuples {α : Type} (cs : List α) (n : Nat) : (tuples cs n).length = cs.length ^ n := by
  induction n with
  | zero => simp [tuples, product]
  | succ n ih =>
    rw [tuples_succ, List.length_flatMap]
    simp only [List.length_map, ih, List.map_const', List.sum_replicate_nat]
    rw [Nat.pow_succ, Nat.mul_comm]

/-! ### `expandOr` -/

/-- `x` is the literal `l`, or one of the disjuncts of `l` -/
def LitSel : Lit → Bool × Atom → Prop
  | .pos a, x => x = (true, a)
  | .neg a, x => x = (false, a)
  | .or a b, x => x = (true, a) ∨ x = (true, b)

/-- the alternative bodies are exactly the selections of one disjunct per literal -/
theorem mem_expandOr (body : List Lit) (alt : List (Bool × Atom)) :
    alt ∈ expandOr body ↔ List.Forall₂ LitSel body alt := by
  induction body generalizing alt with
  | nil => simp [expandOr]
  | cons l ls ih =>
    rw [List.forall₂_cons_left_iff]
    cases l with
    | pos a =>
      simp only [expandOr, List.mem_map, LitSel]
      constructor
      · rintro ⟨r, hr, rfl⟩; exact ⟨_, r, rfl, (ih r).1 hr, rfl⟩
      · rintro ⟨x, r, rfl, hr, rfl⟩; exact ⟨r, (ih r).2 hr, rfl⟩
    | neg a =>
      simp only [expandOr, List.mem_map, LitSel]
      constructor
      · rintro ⟨r, hr, rfl⟩; exact ⟨_, r, rfl, (ih r).1 hr, rfl⟩
      · rintro ⟨x, r, rfl, hr, rfl⟩; exact ⟨r, (ih r).2 hr, rfl⟩
    | or a b =>
      simp only [expandOr, List.mem_append, List.mem_map, LitSel]
      constructor
      · rintro (⟨r, hr, rfl⟩ | ⟨r, hr, rfl⟩)
        · exact ⟨_, r, Or.inl rfl, (ih r).1 hr, rfl⟩
        · exact ⟨_, r, Or.inr rfl, (ih r).1 hr, rfl⟩
      · rintro ⟨x, r, (rfl | rfl), hr, rfl⟩
        · exact Or.inl ⟨r, (ih r).2 hr, rfl⟩
        · exact Or.inr ⟨r, (ih r).2 hr, rfl⟩

theorem expandOr_ne_nil (body : List Lit) : expandOr body ≠ [] := by
  induction body with
  | nil => simp [expandOr]
  | cons l ls ih =>
    cases l <;> simp [expandOr, ih]

/-! ### instances of one statement -/

/-- the ground rule of head `ph` / alternative body `alt` under the assignment `vals` with choice `ch` -/
def instRule (s : Stmt) (vals : List String) (ph : Rat × Atom) (alt : List (Bool × Atom)) (ch : Option Nat) : SRule :=
  { head := ph.2.subst (s.vars.zip vals)
    body := alt.map (fun (b, a) => (b, a.subst (s.vars.zip vals)))
    choice := ch }

theorem mem_groundInst (s : Stmt) (c0 k : Nat) (vals : List String) (r : SRule) :
    r ∈ groundInst s c0 k vals ↔
      ∃ hi ph alt, s.heads[hi]? = some ph ∧ alt ∈ expandOr s.body ∧
        r = instRule s vals ph alt (if s.isProb then some (cidOf s c0 k hi) else none) := by
  unfold groundInst
  simp only [List.mem_flatMap, List.mem_map]
  constructor
  · rintro ⟨⟨ph, hi⟩, hmem, alt, halt, rfl⟩
    exact ⟨hi, ph, alt, List.mem_zipIdx_iff_getElem?.1 hmem, halt, rfl⟩
  · rintro ⟨hi, ph, alt, hh, halt, rfl⟩
    exact ⟨(ph, hi), List.mem_zipIdx_iff_getElem?.2 hh, alt, halt, rfl⟩

theorem mem_insts (cs : List String) (s : Stmt) (vals : List String) (k : Nat) :
    (vals, k) ∈ s.insts cs ↔ (tuples cs s.vars.length)[k]? = some vals := by
  unfold Stmt.insts
  rw [List.mem_zipIdx_iff_getElem?]

theorem length_insts (cs : List String) (s : Stmt) : (s.insts cs).length = (tuples cs s.vars.length).length := by
  unfold Stmt.insts; simp

theorem mem_groundStmt_rules (cs : List String) (c0 : Nat) (s : Stmt) (r : SRule) :
    r ∈ (groundStmt cs c0 s).1 ↔
      ∃ k vals, (tuples cs s.vars.length)[k]? = some vals ∧ r ∈ groundInst s c0 k vals := by
  unfold groundStmt
  simp only [List.mem_flatMap, Prod.exists, mem_insts]
  constructor
  · rintro ⟨vals, k, h, hr⟩; exact ⟨k, vals, h, hr⟩
  · rintro ⟨k, vals, h, hr⟩; exact ⟨vals, k, h, hr⟩

theorem mem_groundStmt_groups (cs : List String) (c0 : Nat) (s : Stmt) (g : Sem.Group) :
    g ∈ (groundStmt cs c0 s).2 ↔
      s.isProb = true ∧ ∃ k vals, (tuples cs s.vars.length)[k]? = some vals ∧ g = groupInst s c0 k := by
  unfold groundStmt
  by_cases hp : s.isProb = true
  · simp only [hp, if_true, List.mem_map, Prod.exists, mem_insts, true_and]
    constructor
    · rintro ⟨vals, k, h, rfl⟩; exact ⟨k, vals, h, rfl⟩
    · rintro ⟨k, vals, h, rfl⟩; exact ⟨vals, k, h, rfl⟩
  · simp [hp]

/-! ### the statement list -/

theorem totalChoices_nil (cs : List String) : totalChoices cs [] = 0 := rfl

theorem totalChoices_cons (cs : List String) (s : Stmt) (ss : List Stmt) :
    totalChoices cs (s :: ss) = s.nchoices cs + totalChoices cs ss := by
  simp [totalChoices]

theorem totalChoices_append (cs : List String) (l l' : List Stmt) :
    totalChoices cs (l ++ l') = totalChoices cs l + totalChoices cs l' := by
  simp [totalChoices]

/-- first choice id of statement number `si` when the list starts at `c0` -/
def offsetIn (cs : List String) (c0 : Nat) (ss : List Stmt) (si : Nat) : Nat := c0 + totalChoices cs (ss.take si)

theorem mem_groundStmts_rules (cs : List String) (c0 : Nat) (ss : List Stmt) (r : SRule) :
    r ∈ (groundStmts cs c0 ss).1 ↔
      ∃ si s, ss[si]? = some s ∧ r ∈ (groundStmt cs (offsetIn cs c0 ss si) s).1 := by
  induction ss generalizing c0 with
  | nil => simp [groundStmts]
  | cons s ss ih =>
    simp only [groundStmts, List.mem_append, ih]
    constructor
    · rintro (h | ⟨si, s', hs, h⟩)
      · exact ⟨0, s, rfl, by simpa [offsetIn, totalChoices] using h⟩
      · refine ⟨si + 1, s', by simpa using hs, ?_⟩
        simpa [offsetIn, totalChoices_cons, Nat.add_assoc] using h
    · rintro ⟨si, s', hs, h⟩
      cases si with
      | zero =>
        simp only [List.getElem?_cons_zero, Option.some.injEq] at hs
        subst hs
        exact Or.inl (by simpa [offsetIn, totalChoices] using h)
      | succ si =>
        refine Or.inr ⟨si, s', by simpa using hs, ?_⟩
        simpa [offsetIn, totalChoices_cons, Nat.add_assoc] using h

theorem mem_groundStmts_groups (cs : List String) (c0 : Nat) (ss : List Stmt) (g : Sem.Group) :
    g ∈ (groundStmts cs c0 ss).2 ↔
      ∃ si s, ss[si]? = some s ∧ g ∈ (groundStmt cs (offsetIn cs c0 ss si) s).2 := by
  induction ss generalizing c0 with
  | nil => simp [groundStmts]
  | cons s ss ih =>
    simp only [groundStmts, List.mem_append, ih]
    constructor
    · rintro (h | ⟨si, s', hs, h⟩)
      · exact ⟨0, s, rfl, by simpa [offsetIn, totalChoices] using h⟩
      · refine ⟨si + 1, s', by simpa using hs, ?_⟩
        simpa [offsetIn, totalChoices_cons, Nat.add_assoc] using h
    · rintro ⟨si, s', hs, h⟩
      cases si with
      | zero =>
        simp only [List.getElem?_cons_zero, Option.some.injEq] at hs
        subst hs
        exact Or.inl (by simpa [offsetIn, totalChoices] using h)
      | succ si =>
        refine Or.inr ⟨si, s', by simpa using hs, ?_⟩
        simpa [offsetIn, totalChoices_cons, Nat.add_assoc] using h

/-! ### choice ids: ranges -/

/-- the ids of a statement lie in its own block -/
theorem cidOf_lt (cs : List String) (s : Stmt) (c0 k hi : Nat) (hp : s.isProb = true)
    (hk : k < (tuples cs s.vars.length).length) (hh : hi < s.heads.length) :
    c0 ≤ cidOf s c0 k hi ∧ cidOf s c0 k hi < c0 + s.nchoices cs := by
  unfold cidOf Stmt.nchoices
  rw [if_pos hp, length_insts]
  refine ⟨by omega, ?_⟩
  have h1 : (k + 1) * s.heads.length ≤ (tuples cs s.vars.length).length * s.heads.length :=
    Nat.mul_le_mul_right _ hk
  rw [Nat.succ_mul] at h1
  omega

theorem cidOf_inj (s : Stmt) (c0 k hi k' hi' : Nat) (hh : hi < s.heads.length) (hh' : hi' < s.heads.length)
    (h : cidOf s c0 k hi = cidOf s c0 k' hi') : k = k' ∧ hi = hi' := by
  unfold cidOf at h
  have key : ∀ a b x y : Nat, x < s.heads.length → y < s.heads.length → a < b →
      a * s.heads.length + x < b * s.heads.length + y := by
    intro a b x y hx _ hab
    have : (a + 1) * s.heads.length ≤ b * s.heads.length := Nat.mul_le_mul_right _ hab
    rw [Nat.succ_mul] at this
    omega
  rcases Nat.lt_trichotomy k k' with hlt | heq | hgt
  · have := key k k' hi hi' hh hh' hlt; omega
  · subst heq; exact ⟨rfl, by omega⟩
  · have := key k' k hi' hi hh' hh hgt; omega

theorem offsetIn_mono (cs : List String) (c0 : Nat) (ss : List Stmt) {si sj : Nat} {s : Stmt}
    (hs : ss[si]? = some s) (hlt : si < sj) :
    offsetIn cs c0 ss si + s.nchoices cs ≤ offsetIn cs c0 ss sj := by
  unfold offsetIn
  have h1 : ss.take (si + 1) = ss.take si ++ [s] := by
    rw [List.take_add_one, hs]; rfl
  have h2 : ss.take sj = ss.take (si + 1) ++ (ss.take sj).drop (si + 1) := by
    conv_lhs => rw [← List.take_append_drop (si + 1) (ss.take sj)]
    rw [List.take_take, Nat.min_eq_left (by omega)]
  rw [h2, totalChoices_append, h1, totalChoices_append, totalChoices_cons, totalChoices_nil]
  omega

theorem offsetIn_le_total (cs : List String) (c0 : Nat) (ss : List Stmt) {si : Nat} {s : Stmt}
    (hs : ss[si]? = some s) :
    offsetIn cs c0 ss si + s.nchoices cs ≤ c0 + totalChoices cs ss := by
  unfold offsetIn
  have h1 : ss.take (si + 1) = ss.take si ++ [s] := by
    rw [List.take_add_one, hs]; rfl
  have h2 : ss = ss.take (si + 1) ++ ss.drop (si + 1) := (List.take_append_drop _ _).symm
  conv_rhs => rw [h2]
  rw [totalChoices_append, h1, totalChoices_append, totalChoices_cons, totalChoices_nil]
  omega

/-! ### atom numbering -/

theorem mem_herbrand (P : FOProgram) (a : GAtom) :
    a ∈ herbrand P ↔ (a.pred, a.args.length) ∈ P.preds ∧ ∀ x ∈ a.args, x ∈ P.consts := by
  unfold herbrand
  simp only [List.mem_flatMap, List.mem_map, Prod.exists, mem_tuples]
  constructor
  · rintro ⟨p, ar, hp, t, ⟨hl, hall⟩, rfl⟩
    exact ⟨by simpa [hl] using hp, hall⟩
  · rintro ⟨hp, hall⟩
    exact ⟨a.pred, a.args.length, hp, a.args, ⟨rfl, hall⟩, rfl⟩

/-- the numbering is injective on the Herbrand base (and separates it from everything else) -/
theorem atomId_inj (P : FOProgram) {a b : GAtom} (ha : a ∈ herbrand P) (h : atomId P a = atomId P b) : a = b := by
  unfold atomId idIn at h
  have hlt : (herbrand P).idxOf a < (herbrand P).length := List.idxOf_lt_length_iff.2 ha
  have hlt' : (herbrand P).idxOf b < (herbrand P).length := h ▸ hlt
  have e1 := List.getElem_idxOf hlt
  have e2 := List.getElem_idxOf hlt'
  rw [← e1, ← e2]
  simp only [h]

theorem atomId_lt (P : FOProgram) (a : GAtom) : atomId P a < (ground P).natoms ↔ a ∈ herbrand P := by
  unfold atomId idIn ground
  exact List.idxOf_lt_length_iff

/-! ### the fields of `ground` -/

theorem ground_rules (P : FOProgram) : (ground P).rules = (groundSym P).1.map (SRule.toRule (atomId P)) := rfl
theorem ground_groups (P : FOProgram) : (ground P).groups = (groundSym P).2 := rfl
theorem ground_natoms (P : FOProgram) : (ground P).natoms = (herbrand P).length := rfl
theorem ground_nchoices (P : FOProgram) : (ground P).nchoices = totalChoices P.consts P.stmts := rfl
theorem queryIds_eq (P : FOProgram) : queryIds P = (queryInstances P).map (atomId P) := rfl
theorem evidenceIds_eq (P : FOProgram) :
    evidenceIds P = P.evidence.map (fun av => (atomId P (av.1.subst []), av.2)) := rfl

end ProbLogProofs.SemFOGround
