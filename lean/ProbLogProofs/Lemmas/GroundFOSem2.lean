import ProbLogProofs.Lemmas.GroundFOSem
/-!
# First-order grounder model: semantics of clauses, of the buffer of a define node, and of goals (core Lean only)
-/
namespace ProbLogProofs.GroundFOSem
open ProbLogModel ProbLogModel.Formula ProbLogModel.GroundFO ProbLogProofs.GroundInv ProbLogProofs.GroundFOInv
open ProbLogModel.Sem (getB)

/-! ### the buffer -/

def bufVal (ρ : Nat → Bool) (buf : Buf) (a : List Const) : Bool :=
  buf.any (fun e => e.1 == a && e.2.any (keyVal ρ))

def BufInv (g : Goal) (buf : Buf) (n : Nat) : Prop :=
  BufOK buf n ∧ (∀ e ∈ buf, Fits g.args e.1) ∧ (buf.map (·.1)).Nodup

theorem BufInv.mono (g : Goal) (buf : Buf) (n m : Nat) (h : n ≤ m) (hb : BufInv g buf n) : BufInv g buf m :=
  ⟨BufOK.mono buf n m h hb.1, hb.2⟩

theorem bufVal_bufAdd (ρ : Nat → Bool) : ∀ (buf : Buf) (ans : List Const) (k : Key) (a : List Const),
    bufVal ρ (bufAdd buf ans k) a = true ↔ bufVal ρ buf a = true ∨ (ans = a ∧ keyVal ρ k = true)
  | [], ans, k, a => by
    simp [bufVal, bufAdd]
  | (b, ks) :: r, ans, k, a => by
    have ih := bufVal_bufAdd ρ r ans k a
    unfold bufAdd
    by_cases hb : (b == ans) = true
    · have hbe : b = ans := by simpa using hb
      subst hbe
      simp only [hb, if_true]
      simp only [bufVal, List.any_cons, List.any_append, List.any_nil, Bool.or_false, Bool.or_eq_true,
        Bool.and_eq_true, beq_iff_eq] at ih ⊢
      constructor
      · rintro (⟨h1, h2 | h2⟩ | h)
        · exact Or.inl (Or.inl ⟨h1, h2⟩)
        · exact Or.inr ⟨h1, h2⟩
        · exact Or.inl (Or.inr h)
      · rintro ((⟨h1, h2⟩ | h) | ⟨h1, h2⟩)
        · exact Or.inl ⟨h1, Or.inl h2⟩
        · exact Or.inr h
        · exact Or.inl ⟨h1, Or.inr h2⟩
    · simp only [hb, Bool.false_eq_true, if_false]
      have : bufVal ρ ((b, ks) :: bufAdd r ans k) a = ((b == a && ks.any (keyVal ρ)) || bufVal ρ (bufAdd r ans k) a) := rfl
      rw [this, Bool.or_eq_true, ih]
      have h2 : bufVal ρ ((b, ks) :: r) a = ((b == a && ks.any (keyVal ρ)) || bufVal ρ r a) := rfl
      rw [h2, Bool.or_eq_true]
      constructor
      · rintro (h | h | h)
        · exact Or.inl (Or.inl h)
        · exact Or.inl (Or.inr h)
        · exact Or.inr h
      · rintro ((h | h) | h)
        · exact Or.inl h
        · exact Or.inr (Or.inl h)
        · exact Or.inr (Or.inr h)

theorem mem_bufAdd_fst : ∀ (buf : Buf) (ans : List Const) (k : Key) (x : List Const),
    x ∈ (bufAdd buf ans k).map (·.1) ↔ x ∈ buf.map (·.1) ∨ x = ans
  | [], ans, k, x => by simp [bufAdd]
  | (b, ks) :: r, ans, k, x => by
    unfold bufAdd
    split
    · rename_i hb
      have hbe : b = ans := by simpa using hb
      subst hbe
      simp only [List.map_cons, List.mem_cons]
      constructor
      · exact fun h => Or.inl h
      · rintro (h | h)
        · exact h
        · exact Or.inl h
    · simp only [List.map_cons, List.mem_cons, mem_bufAdd_fst r ans k x]
      constructor
      · rintro (h | h | h)
        · exact Or.inl (Or.inl h)
        · exact Or.inl (Or.inr h)
        · exact Or.inr h
      · rintro ((h | h) | h)
        · exact Or.inl h
        · exact Or.inr (Or.inl h)
        · exact Or.inr (Or.inr h)

theorem nodup_bufAdd : ∀ (buf : Buf) (ans : List Const) (k : Key), (buf.map (·.1)).Nodup →
    ((bufAdd buf ans k).map (·.1)).Nodup
  | [], ans, k, _ => by simp [bufAdd]
  | (b, ks) :: r, ans, k, h => by
    simp only [List.map_cons, List.nodup_cons] at h
    unfold bufAdd
    split
    · simpa using h
    · rename_i hb
      simp only [List.map_cons, List.nodup_cons]
      refine ⟨fun hm => ?_, nodup_bufAdd r ans k h.2⟩
      rcases (mem_bufAdd_fst r ans k b).1 hm with h' | h'
      · exact h.1 h'
      · exact hb (by simp [h'])

theorem mem_bufAdd : ∀ (buf : Buf) (ans : List Const) (k : Key) (e : List Const × List Key), e ∈ bufAdd buf ans k →
    e.1 = ans ∨ e ∈ buf
  | [], ans, k, e, h => by
    simp only [bufAdd, List.mem_singleton] at h
    subst h; exact Or.inl rfl
  | (b, ks) :: r, ans, k, e, h => by
    unfold bufAdd at h
    split at h
    · rename_i hb
      rcases List.mem_cons.1 h with h | h
      · subst h; exact Or.inl (by simpa using hb)
      · exact Or.inr (List.mem_cons_of_mem _ h)
    · rcases List.mem_cons.1 h with h | h
      · subst h; exact Or.inr List.mem_cons_self
      · rcases mem_bufAdd r ans k e h with h | h
        · exact Or.inl h
        · exact Or.inr (List.mem_cons_of_mem _ h)

theorem BufInv.add {g : Goal} {buf : Buf} {n : Nat} (h : BufInv g buf n) {ans : List Const} {k : Key}
    (hk : keyBelow n k) (hf : Fits g.args ans) : BufInv g (bufAdd buf ans k) n :=
  ⟨bufAdd_ok buf ans k n h.1 hk, fun e he => by
    rcases mem_bufAdd buf ans k e he with h' | h'
    · rw [h']; exact hf
    · exact h.2.1 e h', nodup_bufAdd buf ans k h.2.2⟩

theorem bufVal_of_mem : ∀ (buf : Buf) (ρ : Nat → Bool) (a : List Const) (nodes : List Key),
    (buf.map (·.1)).Nodup → (a, nodes) ∈ buf → bufVal ρ buf a = nodes.any (keyVal ρ)
  | [], _, _, _, _, h => by cases h
  | (b, ks) :: r, ρ, a, nodes, hn, h => by
    simp only [List.map_cons, List.nodup_cons] at hn
    have h2 : bufVal ρ ((b, ks) :: r) a = ((b == a && ks.any (keyVal ρ)) || bufVal ρ r a) := rfl
    rw [h2]
    rcases List.mem_cons.1 h with h | h
    · have e1 : a = b := (Prod.mk.inj h).1
      have e2 : nodes = ks := (Prod.mk.inj h).2
      subst e1 e2
      have hr : bufVal ρ r a = false := by
        rw [Bool.eq_false_iff]
        intro hc
        obtain ⟨e, he, hev⟩ := List.any_eq_true.1 hc
        simp only [Bool.and_eq_true, beq_iff_eq] at hev
        exact hn.1 (List.mem_map.2 ⟨e, he, hev.1⟩)
      simp [hr]
    · have hne : (b == a) = false := by
        rw [Bool.eq_false_iff]
        intro hc
        have : b = a := by simpa using hc
        subst this
        exact hn.1 (List.mem_map.2 ⟨(b, nodes), h, rfl⟩)
      rw [hne, Bool.false_and, Bool.false_or]
      exact bufVal_of_mem r ρ a nodes hn.2 h

theorem bufVal_true_mem {buf : Buf} {ρ : Nat → Bool} {a : List Const} (h : bufVal ρ buf a = true) :
    a ∈ buf.map (·.1) := by
  obtain ⟨e, he, hev⟩ := List.any_eq_true.1 h
  simp only [Bool.and_eq_true, beq_iff_eq] at hev
  exact List.mem_map.2 ⟨e, he, hev.1⟩

/-! ### one clause -/

section
variable {chosen : Array Bool} {M : Model}

theorem consts_ground (args : List Const) (θ : List Const) : (args.map Term.const).map (Term.ground θ) = args := by
  induction args with
  | nil => rfl
  | cons x r ih => simp only [List.map_cons, Term.ground, ih]

theorem evalClause_sem (U : UnifOK) (P : Prog) {ev : Eval} (hev : EvalSem chosen M ev) (g : Goal) (c : Clause)
    (hvars : ∀ head n body ch, c = Clause.rule head n body ch →
      (∀ t ∈ head, Term.inRange n t) ∧ ∀ i ∈ items body ch, Item.inRange n i)
    (hne : c ≠ Clause.rule [] 0 [] none → True)
    (buf : Buf) (st : St) (buf' : Buf) (st' : St) (hs : SemInv chosen M st)
    (ha : BufInv g buf st.store.nodes.length) (h : evalClause P ev g c (buf, st) = .ok (buf', st')) :
    SemInv chosen M st' ∧ Grows st.store st'.store ∧ BufInv g buf' st'.store.nodes.length ∧
    ∀ ρ, Val chosen st'.store ρ → ∀ a, Fits g.args a →
      (bufVal ρ buf' a = true ↔ bufVal ρ buf a = true ∨ Derives P.nconsts chosen M c a) := by
  cases c with
  | fact args ident prob =>
    simp only [evalClause] at h
    split at h
    · rename_i hu
      have hsome : ∃ ctx, unifyHead 0 g.args (args.map Term.const) = some ctx := by
        unfold unifyFact at hu
        cases hh : unifyHead 0 g.args (args.map Term.const) with
        | none => rw [hh] at hu; cases hu
        | some ctx => exact ⟨ctx, rfl⟩
      obtain ⟨ctx, hctx⟩ := hsome
      have hfit : Fits g.args args := by
        have := U.head_sound 0 g.args (args.map Term.const) ctx (fun t ht => by
          obtain ⟨x, _, rfl⟩ := List.mem_map.1 ht; trivial) hctx (fun _ => 0)
        rwa [consts_ground] at this
      cases prob with
      | none =>
        simp only [addAtom_pNone hs.ti.s.keepAll, pure, Except.pure, Except.ok.injEq, Prod.mk.injEq] at h
        obtain ⟨rfl, rfl⟩ := h
        have hf : Formula.isFalse TRUE = false := rfl
        rw [hf]
        simp only [Bool.false_eq_true, if_false]
        refine ⟨hs, Grows.refl _, ha.add (Nat.zero_le _) hfit, fun ρ _ a _ => ?_⟩
        rw [bufVal_bufAdd]
        simp only [Derives]
        constructor
        · rintro (h | ⟨h1, _⟩)
          · exact Or.inl h
          · exact Or.inr ⟨h1, by simp⟩
        · rintro (h | ⟨h1, _⟩)
          · exact Or.inl h
          · exact Or.inr ⟨h1, rfl⟩
      | some p =>
        have hat := addAtom_step hs.ti.s chosen ident (.prob p) none (some (.pos (P.atomName g.pred args)))
        simp only [pure, Except.pure, Except.ok.injEq, Prod.mk.injEq] at h
        generalize st.store.addAtom (.user (ident : Int)) .normal (.prob p) none
          (some (.pos (P.atomName g.pred args))) = R at h hat
        obtain ⟨S1, k⟩ := R
        obtain ⟨hs1, hg1, _, hf1, hd1⟩ := hat
        simp only at h hs1 hg1 hf1 hd1
        obtain ⟨rfl, rfl⟩ := h
        rw [hf1]
        simp only [Bool.false_eq_true, if_false]
        refine ⟨hs.store_step hs1 hg1, hg1, (BufInv.mono g _ _ _ (grows_length hg1) ha).add hd1.1 hfit, fun ρ hρ a _ => ?_⟩
        rw [bufVal_bufAdd, hd1.2 ρ hρ]
        simp [Derives]
    · rename_i hu
      simp only [pure, Except.pure, Except.ok.injEq, Prod.mk.injEq] at h
      obtain ⟨rfl, rfl⟩ := h
      refine ⟨hs, Grows.refl _, ha, fun ρ _ a hfa => ⟨fun h => Or.inl h, fun h => ?_⟩⟩
      rcases h with h | hd
      · exact h
      · exfalso
        have hnone : unifyHead 0 g.args (args.map Term.const) = none := by
          unfold unifyFact at hu
          cases hh : unifyHead 0 g.args (args.map Term.const) with
          | none => rfl
          | some ctx => rw [hh] at hu; simp at hu
        have := U.head_none 0 g.args (args.map Term.const) (fun t ht => by
          obtain ⟨x, _, rfl⟩ := List.mem_map.1 ht; trivial) hnone [] rfl
        rw [consts_ground] at this
        rw [hd.1] at this
        exact this hfa
  | rule head n body ch =>
    obtain ⟨hvh, hvb⟩ := hvars head n body ch rfl
    simp only [evalClause] at h
    split at h
    · rename_i hnone
      simp only [pure, Except.pure, Except.ok.injEq, Prod.mk.injEq] at h
      obtain ⟨rfl, rfl⟩ := h
      refine ⟨hs, Grows.refl _, ha, fun ρ _ a hfa => ⟨fun h => Or.inl h, fun h => ?_⟩⟩
      rcases h with h | ⟨θ, hθ, hh, _⟩
      · exact h
      · exfalso
        exact U.head_none n g.args head hvh hnone θ hθ (by rw [hh]; exact hfa)
    · rename_i ctx hctx
      have hlen : ctx.length = n := U.head_len _ _ _ _ hctx
      have htop : SinkSem chosen M (BufInv g) n ctx (fun θ => head.map (Term.ground θ)) (fun b ρ x => bufVal ρ b x)
          (fun _ => true) (fun _ => True)
          (fun ctx' k (x : Buf × St) => match x with
            | (buf, st) => match headAnswer ctx' head with
              | none => .error .nonGroundAnswer
              | some ans => pure (bufAdd buf ans k, st)) := by
        intro ctx' k acc1 st1 acc1' st1' hl1 href1 hs1 ha1 hk1 h1
        simp only at h1
        split at h1
        · cases h1
        · rename_i ans hans
          simp only [pure, Except.pure, Except.ok.injEq, Prod.mk.injEq] at h1
          obtain ⟨rfl, rfl⟩ := h1
          have hhead : ∀ τ, head.map (Term.ground (gl τ ctx')) = ans := fun τ => by
            rw [← vals_ground τ ctx' head (by rw [hl1]; exact hvh)]
            exact allConsts_gl hans τ
          have hfit : Fits g.args ans := by
            obtain ⟨τ, hτ⟩ := href1 (fun _ => 0)
            have := U.head_sound n g.args head ctx hvh hctx τ
            rw [hτ, hhead] at this
            exact this
          refine ⟨hs1, Grows.refl _, ha1.add hk1 hfit, fun ρ _ x => ?_⟩
          rw [bufVal_bufAdd]
          constructor
          · rintro (h | ⟨h1, h2⟩)
            · exact Or.inl h
            · exact Or.inr ⟨rfl, h2, fun _ => 0, (by
                show head.map (Term.ground (gl (fun _ => 0) ctx')) = x
                rw [hhead]; exact h1), trivial⟩
          · rintro (h | ⟨_, h2, τ, h1, _⟩)
            · exact Or.inl h
            · have h1' : head.map (Term.ground (gl τ ctx')) = x := h1
              exact Or.inr ⟨by rw [← h1', hhead], h2⟩
      obtain ⟨s1, g1, a1, d1⟩ := evalItems_sem U P hev (items body ch) (BufInv g) (BufInv.mono g) (fun _ => true)
        (fun _ => True) _ ctx htop ctx hlen (Refines.refl ctx) hvb buf st buf' st' hs ha h
      refine ⟨s1, g1, a1, fun ρ hρ a hfa => ?_⟩
      rw [d1 ρ hρ a]
      constructor
      · rintro (h | ⟨_, τ, hx, ht, _⟩)
        · exact Or.inl h
        · exact Or.inr ⟨gl τ ctx, by rw [gl_length, hlen], hx, ht⟩
      · rintro (h | ⟨θ, hθ, hh, ht⟩)
        · exact Or.inl h
        · obtain ⟨τ, hτ⟩ := U.head_complete n g.args head ctx hvh hctx θ hθ (by rw [hh]; exact hfa)
          exact Or.inr ⟨rfl, τ, by rw [hτ]; exact hh, by rw [hτ]; exact ht, trivial⟩

end

end ProbLogProofs.GroundFOSem
