import ProbLogModel.SemFO
import ProbLogProofs.Lemmas.SemFOGround
import ProbLogProofs.Lemmas.SemFORename
import ProbLogProofs.Lemmas.SemFOPerm
import ProbLogProofs.Lemmas.SemFOVars
import ProbLogProofs.Lemmas.SemFOSubs
import ProbLogProofs.Lemmas.SemFOReindex
import ProbLogProofs.Lemmas.SemRules
import Mathlib.Data.List.Perm.Basic
/-!
# Permuting the literals of the body of one statement

The ground instances change by: a permutation inside every rule body, a permutation of the rules, a permutation of
the groups and an injective renaming of the choice ids (the order of the variables, hence of the assignments, changes).
-/
namespace ProbLogProofs.SemFOBody
open ProbLogModel ProbLogModel.SemFO ProbLogProofs.SemFOGround ProbLogProofs.SemFORename ProbLogProofs.SemFOPerm
open ProbLogProofs.SemFOVars ProbLogProofs.SemFOSubs ProbLogProofs.SemFOReindex ProbLogProofs.SemGamma
open ProbLogProofs.SemRules

/-! ### rules up to the order of their bodies -/

/-- same head and choice, bodies permutations of each other -/
def SEquiv (r r' : SRule) : Prop := r.head = r'.head ∧ r.choice = r'.choice ∧ r.body.Perm r'.body

def SSub (R R' : List SRule) : Prop := ∀ r ∈ R, ∃ r' ∈ R', SEquiv r r'

def SEqv (R R' : List SRule) : Prop := SSub R R' ∧ SSub R' R

theorem SEquiv.refl (r : SRule) : SEquiv r r := ⟨rfl, rfl, .refl _⟩
theorem SEquiv.symm {r r' : SRule} (h : SEquiv r r') : SEquiv r' r := ⟨h.1.symm, h.2.1.symm, h.2.2.symm⟩
theorem SEquiv.trans {a b c : SRule} (h : SEquiv a b) (h' : SEquiv b c) : SEquiv a c :=
  ⟨h.1.trans h'.1, h.2.1.trans h'.2.1, h.2.2.trans h'.2.2⟩

theorem SSub.refl (R : List SRule) : SSub R R := fun r hr => ⟨r, hr, .refl r⟩
theorem SSub.trans {A B C : List SRule} (h : SSub A B) (h' : SSub B C) : SSub A C := by
  intro r hr
  obtain ⟨r1, h1, e1⟩ := h r hr
  obtain ⟨r2, h2, e2⟩ := h' r1 h1
  exact ⟨r2, h2, e1.trans e2⟩
theorem SSub.of_subset {A B : List SRule} (h : ∀ r ∈ A, r ∈ B) : SSub A B := fun r hr => ⟨r, h r hr, .refl r⟩
theorem SSub.append {A A' B B' : List SRule} (h : SSub A A') (h' : SSub B B') : SSub (A ++ B) (A' ++ B') := by
  intro r hr
  rcases List.mem_append.1 hr with hr | hr
  · obtain ⟨r', hr', e⟩ := h r hr; exact ⟨r', List.mem_append_left _ hr', e⟩
  · obtain ⟨r', hr', e⟩ := h' r hr; exact ⟨r', List.mem_append_right _ hr', e⟩
theorem SSub.map_renS {A B : List SRule} (h : SSub A B) (σ : Nat → Nat) : SSub (A.map (renS σ)) (B.map (renS σ)) := by
  intro r hr
  obtain ⟨a, ha, rfl⟩ := List.mem_map.1 hr
  obtain ⟨b, hb, e⟩ := h a ha
  refine ⟨renS σ b, List.mem_map.2 ⟨b, hb, rfl⟩, e.1, ?_, e.2.2⟩
  show a.choice.map σ = b.choice.map σ
  rw [e.2.1]

theorem SEqv.refl (R : List SRule) : SEqv R R := ⟨.refl R, .refl R⟩
theorem SEqv.trans {A B C : List SRule} (h : SEqv A B) (h' : SEqv B C) : SEqv A C :=
  ⟨h.1.trans h'.1, h'.2.trans h.2⟩
theorem SEqv.of_perm {A B : List SRule} (h : A.Perm B) : SEqv A B :=
  ⟨.of_subset (fun _ hr => h.mem_iff.1 hr), .of_subset (fun _ hr => h.mem_iff.2 hr)⟩
theorem SEqv.append {A A' B B' : List SRule} (h : SEqv A A') (h' : SEqv B B') : SEqv (A ++ B) (A' ++ B') :=
  ⟨h.1.append h'.1, h.2.append h'.2⟩
theorem SEqv.map_renS {A B : List SRule} (h : SEqv A B) (σ : Nat → Nat) : SEqv (A.map (renS σ)) (B.map (renS σ)) :=
  ⟨h.1.map_renS σ, h.2.map_renS σ⟩

theorem SEquiv.toRule (aid : GAtom → Nat) {r r' : SRule} (h : SEquiv r r') :
    REquiv (SRule.toRule aid r) (SRule.toRule aid r') := by
  refine ⟨by simp [SRule.toRule, h.1], by simp [SRule.toRule, h.2.1], ?_, ?_⟩
  · intro a
    exact ((h.2.2.filter _).map _).mem_iff
  · intro a
    exact ((h.2.2.filter _).map _).mem_iff

theorem SEqv.toRule (aid : GAtom → Nat) {R R' : List SRule} (h : SEqv R R') :
    REqv (R.map (SRule.toRule aid)) (R'.map (SRule.toRule aid)) := by
  constructor
  · intro x hx
    obtain ⟨r, hr, rfl⟩ := List.mem_map.1 hx
    obtain ⟨r', hr', e⟩ := h.1 r hr
    exact ⟨_, List.mem_map.2 ⟨r', hr', rfl⟩, e.toRule aid⟩
  · intro x hx
    obtain ⟨r, hr, rfl⟩ := List.mem_map.1 hx
    obtain ⟨r', hr', e⟩ := h.2 r hr
    exact ⟨_, List.mem_map.2 ⟨r', hr', rfl⟩, e.toRule aid⟩

/-! ### same heads, permuted body: one instance -/

theorem mem_instAt (s : Stmt) (b : Nat) (θ : Subst) (r : SRule) :
    r ∈ instAt s b θ ↔ ∃ hi ph alt, s.heads[hi]? = some ph ∧ alt ∈ expandOr s.body ∧
      r = { head := ph.2.subst θ, body := alt.map (fun l => (l.1, l.2.subst θ)),
            choice := if s.isProb then some (b + hi) else none } := by
  unfold instAt
  simp only [List.mem_flatMap, List.mem_map]
  constructor
  · rintro ⟨⟨ph, hi⟩, hmem, alt, halt, rfl⟩
    exact ⟨hi, ph, alt, List.mem_zipIdx_iff_getElem?.1 hmem, halt, rfl⟩
  · rintro ⟨hi, ph, alt, hh, halt, rfl⟩
    exact ⟨(ph, hi), List.mem_zipIdx_iff_getElem?.2 hh, alt, halt, rfl⟩

theorem instAt_ssub {s s' : Stmt} (hh : s'.heads = s.heads) (hp : s'.isProb = s.isProb)
    (hb : s.body.Perm s'.body) (b : Nat) (θ : Subst) : SSub (instAt s b θ) (instAt s' b θ) := by
  intro r hr
  obtain ⟨hi, ph, alt, hhd, halt, rfl⟩ := (mem_instAt s b θ r).1 hr
  rw [mem_expandOr] at halt
  obtain ⟨alt', hsel, hperm⟩ := List.perm_comp_forall₂ hb.symm halt
  refine ⟨_, (mem_instAt s' b θ _).2 ⟨hi, ph, alt', by rw [hh]; exact hhd, (mem_expandOr _ _).2 hsel, rfl⟩, rfl, ?_, ?_⟩
  · simp only [hp]
  · exact (hperm.map _).symm

theorem blockSize_eq {s s' : Stmt} (hh : s'.heads = s.heads) (hp : s'.isProb = s.isProb) :
    blockSize s' = blockSize s := by
  unfold blockSize; rw [hh, hp]

theorem subsFrom_body {s s' : Stmt} (hh : s'.heads = s.heads) (hp : s'.isProb = s.isProb)
    (hb : s.body.Perm s'.body) (Θ : List Subst) (b : Nat) :
    SEqv (subsFrom s b Θ).1 (subsFrom s' b Θ).1 ∧ (subsFrom s b Θ).2 = (subsFrom s' b Θ).2 := by
  induction Θ generalizing b with
  | nil => exact ⟨.refl _, rfl⟩
  | cons θ Θ ih =>
    simp only [subsFrom]
    rw [blockSize_eq hh hp]
    obtain ⟨h1, h2⟩ := ih (b + blockSize s)
    refine ⟨SEqv.append ⟨instAt_ssub hh hp hb b θ, instAt_ssub hh.symm hp.symm hb.symm b θ⟩ h1, ?_⟩
    rw [h2, hp]
    congr 2
    unfold groupAt
    rw [hh]

/-! ### the variables of the permuted statement -/

theorem nodup_dedup {α : Type} [DecidableEq α] (l : List α) : (dedup l).Nodup := by
  induction l with
  | nil => simp [dedup]
  | cons a l ih =>
    simp only [dedup, List.nodup_cons]
    refine ⟨?_, ih.filter _⟩
    simp [List.mem_filter]

theorem dedup_perm {α : Type} [DecidableEq α] {l l' : List α} (h : l.Perm l') : (dedup l).Perm (dedup l') := by
  rw [List.perm_ext_iff_of_nodup (nodup_dedup l) (nodup_dedup l')]
  intro a
  rw [mem_dedup, mem_dedup, h.mem_iff]

theorem vars_perm {s s' : Stmt} (hh : s'.heads = s.heads) (hb : s.body.Perm s'.body) : s.vars.Perm s'.vars := by
  unfold Stmt.vars
  apply dedup_perm
  apply List.Perm.flatMap_right
  unfold Stmt.atoms
  rw [hh]
  exact (hb.flatMap_right _).append_left _

/-! ### one statement -/

theorem groundStmt_body (cs : List String) (hc : cs.Nodup) {s s' : Stmt} (hh : s'.heads = s.heads)
    (hp : s'.isProb = s.isProb) (hb : s.body.Perm s'.body) (c0 : Nat) :
    s'.nchoices cs = s.nchoices cs ∧
    ∃ σ : Nat → Nat, Function.Injective σ ∧ (∀ c, c < c0 ∨ c0 + s.nchoices cs ≤ c → σ c = c) ∧
      SEqv ((groundStmt cs c0 s).1.map (renS σ)) (groundStmt cs c0 s').1 ∧
      ((groundStmt cs c0 s).2.map (renGroup σ)).Perm (groundStmt cs c0 s').2 := by
  have hv := vars_perm hh hb
  have hlen := hv.length_eq
  have hn : s.vars.Nodup := nodup_dedup _
  refine ⟨by rw [nchoices_eq, nchoices_eq, blockSize_eq hh hp, hlen], ?_⟩
  -- the assignments of `s` read as assignments to the variables of `s'`
  have e1 : groundStmt cs c0 s =
      subsFrom s c0 (((tuples cs s.vars.length).map (reindex s.vars s'.vars)).map (fun vals => s'.vars.zip vals)) := by
    rw [groundStmt_eq_subsFrom, List.map_map]
    apply subsFrom_congr
    intro vals hvals v hv'
    have hl := ((mem_tuples cs _ vals).1 hvals).1
    exact (lookup_reindex s.vars s'.vars vals hl v hv' (hv.mem_iff.1 hv')).symm
  have e2 : groundStmt cs c0 s' = subsFrom s' c0 ((tuples cs s.vars.length).map (fun vals => s'.vars.zip vals)) := by
    rw [groundStmt_eq_subsFrom, hlen]
  have hperm := (reindex_perm cs s.vars s'.vars hc hn hv).map (fun vals => s'.vars.zip vals)
  obtain ⟨σ, hinj, hfix, hr, hg⟩ := subsFrom_perm s hperm c0
  obtain ⟨hb1, hb2⟩ := subsFrom_body hh hp hb ((tuples cs s.vars.length).map (fun vals => s'.vars.zip vals)) c0
  refine ⟨σ, hinj, ?_, ?_, ?_⟩
  · intro c hcc
    apply hfix
    rw [nchoices_eq] at hcc
    simpa using hcc
  · rw [e1, e2]
    exact (SEqv.of_perm hr).trans hb1
  · rw [e1, e2, ← hb2]
    exact hg

/-! ### the statement list -/

theorem groundStmts_append (cs : List String) (c0 : Nat) (l l' : List Stmt) :
    groundStmts cs c0 (l ++ l') =
      ((groundStmts cs c0 l).1 ++ (groundStmts cs (c0 + totalChoices cs l) l').1,
       (groundStmts cs c0 l).2 ++ (groundStmts cs (c0 + totalChoices cs l) l').2) := by
  induction l generalizing c0 with
  | nil => simp [groundStmts, totalChoices]
  | cons s l ih =>
    simp only [List.cons_append, groundStmts, ih, totalChoices_cons, List.append_assoc, Nat.add_assoc]

theorem groundStmts_body (cs : List String) (hc : cs.Nodup) {s s' : Stmt} (hh : s'.heads = s.heads)
    (hp : s'.isProb = s.isProb) (hb : s.body.Perm s'.body) (l₁ l₂ : List Stmt) :
    totalChoices cs (l₁ ++ s' :: l₂) = totalChoices cs (l₁ ++ s :: l₂) ∧
    ∃ σ : Nat → Nat, Function.Injective σ ∧ (∀ c, totalChoices cs (l₁ ++ s :: l₂) ≤ c → σ c = c) ∧
      SEqv ((groundStmts cs 0 (l₁ ++ s :: l₂)).1.map (renS σ)) (groundStmts cs 0 (l₁ ++ s' :: l₂)).1 ∧
      ((groundStmts cs 0 (l₁ ++ s :: l₂)).2.map (renGroup σ)).Perm (groundStmts cs 0 (l₁ ++ s' :: l₂)).2 := by
  obtain ⟨hn, σ, hinj, hfix, hr, hg⟩ := groundStmt_body cs hc hh hp hb (0 + totalChoices cs l₁)
  refine ⟨by simp only [totalChoices_append, totalChoices_cons, hn], σ, hinj, ?_, ?_, ?_⟩
  · intro c hcc
    apply hfix
    rw [totalChoices_append, totalChoices_cons] at hcc
    omega
  all_goals
    have hA := groundStmts_ren σ cs l₁ 0 0 (fun j hj => hfix _ (by omega))
    have hC := groundStmts_ren σ cs l₂ (0 + totalChoices cs l₁ + s.nchoices cs) (0 + totalChoices cs l₁ + s.nchoices cs)
      (fun j hj => hfix _ (by omega))
    simp only [groundStmts_append, groundStmts, List.map_append, hA.1, hA.2, hC.1, hC.2, hn]
  · exact (SEqv.refl _).append (hr.append (SEqv.refl _))
  · exact (hg.append_right _).append_left _

/-! ### replacing the body of a statement -/

/-- `s` with body `b` (facts have no body: unchanged) -/
def withBody (s : Stmt) (b : List Lit) : Stmt :=
  match s with
  | .fact a => .fact a
  | .pf p a => .pf p a
  | .rule h _ => .rule h b
  | .prule p h _ => .prule p h b
  | .ad hs _ => .ad hs b

theorem heads_withBody (s : Stmt) (b : List Lit) : (withBody s b).heads = s.heads := by cases s <;> rfl
theorem isProb_withBody (s : Stmt) (b : List Lit) : (withBody s b).isProb = s.isProb := by cases s <;> rfl
theorem body_withBody (s : Stmt) (b : List Lit) (h : s.body.Perm b) : (withBody s b).body = b := by
  cases s with
  | fact a => exact (List.nil_perm.1 h).symm
  | pf p a => exact (List.nil_perm.1 h).symm
  | rule _ _ => rfl
  | prule _ _ _ => rfl
  | ad _ _ => rfl

end ProbLogProofs.SemFOBody
