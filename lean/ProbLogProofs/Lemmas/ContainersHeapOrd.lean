import ProbLogProofs.Lemmas.ContainersHeapIdx
/-!
Helper lemmas for C34 (UHeap), part 2: the heap order and its restoration by `_swim_up` / `_sink_down`.
-/
namespace ProbLogProofs.ContainersHeap
open ProbLogModel.Containers
open ProbLogModel.Containers.UHeap

/-- Heap order: the key of the parent is at most the key of the child, for every non-root position. -/
def Ordered (h : UHeap) : Prop :=
  ∀ j, 0 < j → j < h.heap.size → h.keyAt ((j - 1) / 2) ≤ h.keyAt j

/-- In an ordered heap the root carries a minimum key. -/
theorem Ordered.root_min {h : UHeap} (o : Ordered h) (j : Nat) (hj : j < h.heap.size) :
    h.keyAt 0 ≤ h.keyAt j := by
  induction j using Nat.strongRecOn with
  | _ j ih =>
    by_cases h0 : j = 0
    · subst h0; exact Int.le_refl _
    · have h1 := o j (by omega) hj
      have h2 := ih ((j - 1) / 2) (by omega) (by omega)
      exact Int.le_trans h2 h1

/-- `_swim_up i` restores the heap order when position `i` is the only one that may be smaller than its
    parent (and the children of `i` already respect `i`'s parent). -/
theorem swimUp_ordered (h : UHeap) (i : Nat) :
    i < h.heap.size →
    (∀ j, 0 < j → j < h.heap.size → j ≠ i → h.keyAt ((j - 1) / 2) ≤ h.keyAt j) →
    (∀ c, 0 < i → 0 < c → c < h.heap.size → (c - 1) / 2 = i → h.keyAt ((i - 1) / 2) ≤ h.keyAt c) →
    Ordered (swimUp h i) := by
  induction i using Nat.strongRecOn generalizing h with
  | _ i ih =>
    intro hi H1 H2
    unfold swimUp
    split
    · rename_i hz
      subst hz
      intro j hj0 hjs
      exact H1 j hj0 hjs (by omega)
    · rename_i hz
      simp only
      split
      · rename_i hgt
        have hp : (i - 1) / 2 < h.heap.size := by omega
        have hpi : (i - 1) / 2 < i := by omega
        apply ih ((i - 1) / 2) hpi (h.swap ((i - 1) / 2) i)
        · rw [swap_size]; exact hp
        · intro j hj0 hjs hjp
          rw [swap_size] at hjs
          rw [swap_keyAt h _ _ _ hp hi, swap_keyAt h _ _ _ hp hi]
          by_cases hji : j = i
          · subst hji
            have e1 : ¬ (j - 1) / 2 = j := by omega
            simp only [e1, if_false, if_true]
            omega
          · have e0 : ¬ (j - 1) / 2 = i ∨ (j - 1) / 2 = i := by omega
            simp only [hji, hjp, if_false]
            by_cases hpj : (j - 1) / 2 = i
            · simp only [hpj, if_true]
              exact H2 j (by omega) hj0 hjs hpj
            · simp only [hpj, if_false]
              by_cases hpp : (j - 1) / 2 = (i - 1) / 2
              · simp only [hpp, if_true]
                have := H1 j hj0 hjs hji
                rw [hpp] at this
                omega
              · simp only [hpp, if_false]
                exact H1 j hj0 hjs hji
        · intro c hp0 hc0 hcs hcp
          rw [swap_size] at hcs
          rw [swap_keyAt h _ _ _ hp hi, swap_keyAt h _ _ _ hp hi]
          have e1 : ¬ ((i - 1) / 2 - 1) / 2 = i := by omega
          have e2 : ¬ ((i - 1) / 2 - 1) / 2 = (i - 1) / 2 := by omega
          simp only [e1, e2, if_false]
          have hpar := H1 ((i - 1) / 2) hp0 hp (by omega)
          by_cases hci : c = i
          · simp only [hci, if_true]
            exact hpar
          · have e3 : ¬ c = (i - 1) / 2 := by omega
            simp only [hci, e3, if_false]
            have := H1 c hc0 hcs hci
            rw [hcp] at this
            exact Int.le_trans hpar this
      · rename_i hle
        intro j hj0 hjs
        by_cases hji : j = i
        · subst hji; omega
        · exact H1 j hj0 hjs hji

/-- `_sink_down i` restores the heap order when position `i` is the only one that may be larger than its
    children (and the children of `i` already respect `i`'s parent). -/
theorem sinkDownAux_ordered (fuel : Nat) (h : UHeap) (i : Nat) :
    i < h.heap.size → h.heap.size ≤ i + fuel →
    (∀ j, 0 < j → j < h.heap.size → (j - 1) / 2 ≠ i → h.keyAt ((j - 1) / 2) ≤ h.keyAt j) →
    (∀ c, 0 < i → 0 < c → c < h.heap.size → (c - 1) / 2 = i → h.keyAt ((i - 1) / 2) ≤ h.keyAt c) →
    Ordered (sinkDownAux fuel h i) := by
  induction fuel generalizing h i with
  | zero =>
    intro hi hf H1 H2
    omega
  | succ f ih =>
    intro hi hf H1 H2
    -- generic step: swapping with a child `c` that is a minimum child and smaller than `i`
    have stepc : ∀ c, c < h.heap.size → (c - 1) / 2 = i → 0 < c → h.keyAt c < h.keyAt i →
        (∀ d, 0 < d → d < h.heap.size → (d - 1) / 2 = i → h.keyAt c ≤ h.keyAt d) →
        Ordered (sinkDownAux f (h.swap i c) c) := by
      intro c hc hcp hc0 hlt hmin
      apply ih (h.swap i c) c
      · rw [swap_size]; exact hc
      · rw [swap_size]; omega
      · intro j hj0 hjs hjp
        rw [swap_size] at hjs
        rw [swap_keyAt h _ _ _ hi hc, swap_keyAt h _ _ _ hi hc]
        simp only [hjp, if_false]
        by_cases hjc : j = c
        · subst hjc
          simp only [if_true, hcp]
          omega
        · simp only [hjc, if_false]
          by_cases hpi : (j - 1) / 2 = i
          · simp only [hpi, if_true]
            have e : ¬ j = i := by omega
            simp only [e, if_false]
            exact hmin j hj0 hjs hpi
          · simp only [hpi, if_false]
            by_cases hji : j = i
            · simp only [hji, if_true]
              subst hji
              exact H2 c hj0 hc0 hc hcp
            · simp only [hji, if_false]
              exact H1 j hj0 hjs hpi
      · intro d _ hd0 hds hdp
        rw [swap_size] at hds
        rw [swap_keyAt h _ _ _ hi hc, swap_keyAt h _ _ _ hi hc]
        have e1 : ¬ (c - 1) / 2 = c := by omega
        have e2 : ¬ d = c := by omega
        have e3 : ¬ d = i := by omega
        simp only [hcp, e2, e3, if_false, if_true]
        have e4 : ¬ i = c := by omega
        simp only [e4, if_false]
        have := H1 d hd0 hds (by omega)
        rw [hdp] at this
        exact this
    -- the no-swap situation: `i` is at most its children
    have stay : (∀ d, 0 < d → d < h.heap.size → (d - 1) / 2 = i → h.keyAt i ≤ h.keyAt d) → Ordered h := by
      intro hch j hj0 hjs
      by_cases hpi : (j - 1) / 2 = i
      · rw [hpi]; exact hch j hj0 hjs hpi
      · exact H1 j hj0 hjs hpi
    unfold sinkDownAux
    simp only
    by_cases hc1 : 2 * i + 1 < h.heap.size
    · by_cases hc2 : 2 * i + 2 < h.heap.size
      · simp only [hc1, hc2, if_true, Bool.and_self, decide_true]
        have kids : ∀ d, 0 < d → (d - 1) / 2 = i → d = 2 * i + 1 ∨ d = 2 * i + 2 := by
          intro d _ _; omega
        split
        · split
          · apply stepc (2 * i + 2) hc2 (by omega) (by omega) (by omega)
            intro d hd0 _ hdp
            rcases kids d hd0 hdp with rfl | rfl <;> omega
          · apply stepc (2 * i + 1) hc1 (by omega) (by omega) (by omega)
            intro d hd0 _ hdp
            rcases kids d hd0 hdp with rfl | rfl <;> omega
        · split
          · apply stepc (2 * i + 2) hc2 (by omega) (by omega) (by omega)
            intro d hd0 _ hdp
            rcases kids d hd0 hdp with rfl | rfl <;> omega
          · apply stay
            intro d hd0 _ hdp
            rcases kids d hd0 hdp with rfl | rfl <;> omega
      · simp only [hc1, hc2, if_true, decide_true, decide_false, Bool.and_false, Bool.false_eq_true, if_false]
        have kids : ∀ d, 0 < d → d < h.heap.size → (d - 1) / 2 = i → d = 2 * i + 1 := by
          intro d _ _ _; omega
        split
        · apply stepc (2 * i + 1) hc1 (by omega) (by omega) (by omega)
          intro d hd0 hds hdp
          rw [kids d hd0 hds hdp]; omega
        · apply stay
          intro d hd0 hds hdp
          rw [kids d hd0 hds hdp]; omega
    · simp only [hc1, if_false, decide_false, Bool.false_and, Bool.false_eq_true]
      apply stay
      intro d hd0 hds hdp
      omega

end ProbLogProofs.ContainersHeap
