import ProbLogProofs.Lemmas.ContainersHeapOrd
/-!
Helper lemmas for C34 (UHeap), part 3: `push` and `pop_with_key` preserve well-formedness and act on the
entries as insert/update and delete-min.
-/
namespace ProbLogProofs.ContainersHeap
open ProbLogModel.Containers
open ProbLogModel.Containers.UHeap

/-- Well-formed heap: index map consistent with the array (hence items distinct) and heap order. -/
def WF (h : UHeap) : Prop := IdxOK h ∧ Ordered h

theorem empty_wf : WF UHeap.empty := by
  refine ⟨?_, ?_⟩
  · intro it p; simp [UHeap.empty, lookup]
  · intro j _ hj; simp [UHeap.empty] at hj

theorem entry_keyAt {h : UHeap} {p : Nat} {k it : Int} (hp : h.heap[p]? = some (k, it)) : h.keyAt p = k := by
  rw [keyAt_eq, hp]; rfl

theorem lt_of_getElem? {h : UHeap} {p : Nat} {e : Int × Int} (hp : h.heap[p]? = some e) : p < h.heap.size := by
  rcases Array.getElem?_eq_some_iff.1 hp with ⟨hlt, _⟩; exact hlt

theorem sinkDown_ordered (h : UHeap) (i : Nat) (hi : i < h.heap.size)
    (H1 : ∀ j, 0 < j → j < h.heap.size → (j - 1) / 2 ≠ i → h.keyAt ((j - 1) / 2) ≤ h.keyAt j)
    (H2 : ∀ c, 0 < i → 0 < c → c < h.heap.size → (c - 1) / 2 = i → h.keyAt ((i - 1) / 2) ≤ h.keyAt c) :
    Ordered (sinkDown h i) :=
  sinkDownAux_ordered h.heap.size h i hi (by omega) H1 H2

/-! ### push, new item -/

section pushNew
variable (h : UHeap) (key item : Int)

def pushed : UHeap := ⟨h.heap.push (key, item), setIdx h.index item h.heap.size⟩

theorem pushed_getElem? (p : Nat) :
    (pushed h key item).heap[p]? = if p = h.heap.size then some (key, item) else h.heap[p]? := by
  simp [pushed, Array.getElem?_push]

theorem pushed_size : (pushed h key item).heap.size = h.heap.size + 1 := by simp [pushed]

theorem pushed_idxOK (ok : IdxOK h) (hn : lookup h.index item = none) : IdxOK (pushed h key item) := by
  intro it p
  rw [pushed_getElem?]
  have hidx : (pushed h key item).index = setIdx h.index item h.heap.size := rfl
  rw [hidx, lookup_setIdx]
  by_cases hit : item = it
  · subst hit
    simp only [if_true]
    constructor
    · intro e
      have e : h.heap.size = p := Option.some.inj e
      subst e
      exact ⟨key, by simp⟩
    · rintro ⟨k, hk⟩
      by_cases hp : p = h.heap.size
      · rw [hp]
      · simp only [hp, if_false] at hk
        have := (ok item p).2 ⟨k, hk⟩
        rw [hn] at this
        cases this
  · simp only [hit, if_false]
    rw [ok it p]
    by_cases hp : p = h.heap.size
    · subst hp
      simp only [if_true]
      constructor
      · rintro ⟨k, hk⟩
        rw [Array.getElem?_eq_none (Nat.le_refl _)] at hk
        cases hk
      · rintro ⟨k, hk⟩
        exact absurd (by simpa using (congrArg (fun o => o.map Prod.snd) hk)) hit
    · simp only [hp, if_false]

theorem pushed_entry (k it : Int) :
    Entry (pushed h key item) k it ↔ (k = key ∧ it = item) ∨ Entry h k it := by
  unfold Entry
  constructor
  · rintro ⟨p, hp⟩
    rw [pushed_getElem?] at hp
    by_cases hps : p = h.heap.size
    · simp only [hps, if_true] at hp
      left
      have := Option.some.inj hp
      exact ⟨(congrArg Prod.fst this).symm, (congrArg Prod.snd this).symm⟩
    · simp only [hps, if_false] at hp
      exact Or.inr ⟨p, hp⟩
  · rintro (⟨rfl, rfl⟩ | ⟨p, hp⟩)
    · exact ⟨h.heap.size, by rw [pushed_getElem?]; simp⟩
    · refine ⟨p, ?_⟩
      rw [pushed_getElem?]
      have := lt_of_getElem? hp
      have : ¬ p = h.heap.size := by omega
      simp only [this, if_false]; exact hp

theorem pushed_keyAt (p : Nat) (hp : p < h.heap.size) : (pushed h key item).keyAt p = h.keyAt p := by
  rw [keyAt_eq, keyAt_eq, pushed_getElem?]
  have : ¬ p = h.heap.size := by omega
  simp only [this, if_false]

theorem pushed_swim_ordered (o : Ordered h) : Ordered (swimUp (pushed h key item) h.heap.size) := by
  apply swimUp_ordered
  · rw [pushed_size]; omega
  · intro j hj0 hjs hjn
    rw [pushed_size] at hjs
    rw [pushed_keyAt h key item _ (by omega), pushed_keyAt h key item _ (by omega)]
    exact o j hj0 (by omega)
  · intro c _ _ hcs hcp
    rw [pushed_size] at hcs
    omega

end pushNew

/-! ### push, existing item with a new key -/

section pushUpd
variable (h : UHeap) (key item : Int) (i : Nat)

def updated : UHeap := ⟨h.heap.setIfInBounds i (key, item), h.index⟩

theorem updated_getElem? (hi : i < h.heap.size) (p : Nat) :
    (updated h key item i).heap[p]? = if p = i then some (key, item) else h.heap[p]? := by
  simp only [updated, Array.getElem?_setIfInBounds, hi, if_true]
  by_cases hp : p = i
  · subst hp; simp
  · have : ¬ i = p := fun e => hp e.symm
    simp [hp, this]

theorem updated_size : (updated h key item i).heap.size = h.heap.size := by simp [updated]

theorem updated_idxOK (ok : IdxOK h) (ko : Int) (hi : h.heap[i]? = some (ko, item)) :
    IdxOK (updated h key item i) := by
  have hlt := lt_of_getElem? hi
  intro it p
  rw [updated_getElem? h key item i hlt]
  have hidx : (updated h key item i).index = h.index := rfl
  rw [hidx, ok it p]
  by_cases hp : p = i
  · subst hp
    simp only [if_true]
    constructor
    · rintro ⟨k, hk⟩
      rw [hi] at hk
      have := congrArg Prod.snd (Option.some.inj hk)
      simp only at this
      subst this
      exact ⟨key, rfl⟩
    · rintro ⟨k, hk⟩
      have := congrArg Prod.snd (Option.some.inj hk)
      simp only at this
      subst this
      exact ⟨ko, hi⟩
  · simp only [hp, if_false]

theorem updated_entry (ok : IdxOK h) (ko : Int) (hi : h.heap[i]? = some (ko, item)) (k it : Int) :
    Entry (updated h key item i) k it ↔ (it = item ∧ k = key) ∨ (it ≠ item ∧ Entry h k it) := by
  have hlt := lt_of_getElem? hi
  unfold Entry
  constructor
  · rintro ⟨p, hp⟩
    rw [updated_getElem? h key item i hlt] at hp
    by_cases hpi : p = i
    · simp only [hpi, if_true] at hp
      have := Option.some.inj hp
      exact Or.inl ⟨(congrArg Prod.snd this).symm, (congrArg Prod.fst this).symm⟩
    · simp only [hpi, if_false] at hp
      refine Or.inr ⟨?_, p, hp⟩
      intro e
      subst e
      exact hpi (ok.inj hp hi)
  · rintro (⟨rfl, rfl⟩ | ⟨hne, p, hp⟩)
    · exact ⟨i, by rw [updated_getElem? h _ _ i hlt]; simp⟩
    · refine ⟨p, ?_⟩
      rw [updated_getElem? h key item i hlt]
      have : ¬ p = i := by
        intro e; subst e; rw [hi] at hp
        exact hne (congrArg Prod.snd (Option.some.inj hp)).symm
      simp only [this, if_false]; exact hp

theorem updated_keyAt (hi : i < h.heap.size) (p : Nat) :
    (updated h key item i).keyAt p = if p = i then key else h.keyAt p := by
  rw [keyAt_eq, keyAt_eq, updated_getElem? h key item i hi]
  split <;> rfl

theorem updated_swim_ordered (o : Ordered h) (hi : i < h.heap.size) (h0 : i ≠ 0)
    (hlt : key < h.keyAt ((i - 1) / 2)) : Ordered (swimUp (updated h key item i) i) := by
  apply swimUp_ordered
  · rw [updated_size]; exact hi
  · intro j hj0 hjs hji
    rw [updated_size] at hjs
    rw [updated_keyAt h key item i hi, updated_keyAt h key item i hi]
    simp only [hji, if_false]
    split
    · rename_i hp
      have a := o j hj0 hjs
      have b := o i (by omega) hi
      rw [hp] at a
      omega
    · exact o j hj0 hjs
  · intro c hi0 hc0 hcs hcp
    rw [updated_size] at hcs
    rw [updated_keyAt h key item i hi, updated_keyAt h key item i hi]
    have e1 : ¬ (i - 1) / 2 = i := by omega
    have e2 : ¬ c = i := by omega
    simp only [e1, e2, if_false]
    have a := o c hc0 hcs
    have b := o i hi0 hi
    rw [hcp] at a
    omega

theorem updated_sink_ordered (o : Ordered h) (hi : i < h.heap.size)
    (hge : ¬ (i ≠ 0 ∧ key < h.keyAt ((i - 1) / 2))) : Ordered (sinkDown (updated h key item i) i) := by
  apply sinkDown_ordered
  · rw [updated_size]; exact hi
  · intro j hj0 hjs hjp
    rw [updated_size] at hjs
    rw [updated_keyAt h key item i hi, updated_keyAt h key item i hi]
    simp only [hjp, if_false]
    split
    · rename_i hji
      subst hji
      have : ¬ key < h.keyAt ((j - 1) / 2) := fun hk => hge ⟨by omega, hk⟩
      omega
    · exact o j hj0 hjs
  · intro c hi0 hc0 hcs hcp
    rw [updated_size] at hcs
    rw [updated_keyAt h key item i hi, updated_keyAt h key item i hi]
    have e1 : ¬ (i - 1) / 2 = i := by omega
    have e2 : ¬ c = i := by omega
    simp only [e1, e2, if_false]
    have a := o c hc0 hcs
    have b := o i hi0 hi
    rw [hcp] at a
    omega

end pushUpd

/-! ### the three facts about push -/

theorem push_spec (h : UHeap) (key item : Int) (wf : WF h) :
    WF (h.push key item).1 ∧
    (∀ k it, Entry (h.push key item).1 k it ↔ (it = item ∧ k = key) ∨ (it ≠ item ∧ Entry h k it)) ∧
    ((h.push key item).2 = true ↔ ¬ ∃ k, Entry h k item) := by
  obtain ⟨ok, ord⟩ := wf
  unfold push
  split
  · rename_i hn
    have noent : ¬ ∃ k, Entry h k item := by
      rintro ⟨k, p, hp⟩
      have := (ok item p).2 ⟨k, hp⟩
      rw [hn] at this; cases this
    have hsz : (h.heap.push (key, item)).size - 1 = h.heap.size := by simp
    have hpd : (⟨h.heap.push (key, item), setIdx h.index item h.heap.size⟩ : UHeap)
        = pushed h key item := rfl
    simp only [hsz, hpd]
    refine ⟨⟨swimUp_idxOK _ _ (pushed_idxOK h key item ok hn), pushed_swim_ordered h key item ord⟩, ?_, ?_⟩
    · intro k it
      rw [swimUp_entry, pushed_entry]
      constructor
      · rintro (⟨rfl, rfl⟩ | he)
        · exact Or.inl ⟨rfl, rfl⟩
        · refine Or.inr ⟨?_, he⟩
          intro e; subst e; exact noent ⟨k, he⟩
      · rintro (⟨rfl, rfl⟩ | ⟨_, he⟩)
        · exact Or.inl ⟨rfl, rfl⟩
        · exact Or.inr he
    · simp [noent]
  · rename_i i hs
    obtain ⟨ko, hko⟩ := (ok item i).1 hs
    have hlt := lt_of_getElem? hko
    have hold : h.heap.getD i (0, 0) = (ko, item) := by
      rw [Array.getD_eq_getD_getElem?, hko]; rfl
    have isent : ∃ k, Entry h k item := ⟨ko, i, hko⟩
    simp only [hold]
    split
    · rename_i heq
      have heq : ko = key := by simpa using heq
      subst heq
      refine ⟨⟨ok, ord⟩, ?_, by simp [isent]⟩
      intro k it
      constructor
      · intro he
        by_cases hit : it = item
        · subst hit
          exact Or.inl ⟨rfl, ok.functional he ⟨i, hko⟩⟩
        · exact Or.inr ⟨hit, he⟩
      · rintro (⟨rfl, rfl⟩ | ⟨_, he⟩)
        · exact ⟨i, hko⟩
        · exact he
    · have hup : (⟨h.heap.setIfInBounds i (key, item), h.index⟩ : UHeap) = updated h key item i := rfl
      simp only [hup]
      have hk : (updated h key item i).keyAt ((i - 1) / 2) = h.keyAt ((i - 1) / 2) ∨ i = 0 := by
        by_cases h0 : i = 0
        · exact Or.inr h0
        · left
          rw [updated_keyAt h key item i hlt]
          have : ¬ (i - 1) / 2 = i := by omega
          simp only [this, if_false]
      split
      · rename_i hc
        have hlt' : key < h.keyAt ((i - 1) / 2) := by
          rcases hk with e | e
          · rw [← e]; exact hc.2
          · exact absurd e hc.1
        refine ⟨⟨swimUp_idxOK _ _ (updated_idxOK h key item i ok ko hko),
          updated_swim_ordered h key item i ord hlt hc.1 hlt'⟩, ?_, by simp [isent]⟩
        intro k it
        rw [swimUp_entry, updated_entry h key item i ok ko hko]
      · rename_i hc
        have hge : ¬ (i ≠ 0 ∧ key < h.keyAt ((i - 1) / 2)) := by
          rintro ⟨a, b⟩
          rcases hk with e | e
          · exact hc ⟨a, by rw [e]; exact b⟩
          · exact a e
        refine ⟨⟨sinkDownAux_idxOK _ _ _ (updated_idxOK h key item i ok ko hko),
          updated_sink_ordered h key item i ord hlt hge⟩, ?_, by simp [isent]⟩
        intro k it
        unfold sinkDown
        rw [sinkDownAux_entry, updated_entry h key item i ok ko hko]

/-! ### pop_with_key -/

section popLemmas
variable (h : UHeap) (hs : 0 < h.heap.size)

def popped : UHeap :=
  ⟨(h.swap 0 (h.heap.size - 1)).heap.pop, delIdx (h.swap 0 (h.heap.size - 1)).index h.heap[0].2⟩

theorem popped_size : (popped h hs).heap.size = h.heap.size - 1 := by
  simp [popped, swap_size]

theorem swapped_last : (h.swap 0 (h.heap.size - 1)).heap[h.heap.size - 1]? = some h.heap[0] := by
  rw [swap_getElem? h 0 (h.heap.size - 1) _ hs (by omega)]
  simp [Array.getElem?_eq_getElem hs]

theorem popped_getElem? (p : Nat) :
    (popped h hs).heap[p]? =
      if p < h.heap.size - 1 then (h.swap 0 (h.heap.size - 1)).heap[p]? else none := by
  simp [popped, Array.getElem?_pop, swap_size]

theorem popped_idxOK (ok : IdxOK h) : IdxOK (popped h hs) := by
  have ok1 := swap_idxOK h 0 (h.heap.size - 1) ok
  have hl := swapped_last h hs
  have hl' : (h.swap 0 (h.heap.size - 1)).heap[h.heap.size - 1]? = some (h.heap[0].1, h.heap[0].2) := hl
  intro it p
  have hidx : (popped h hs).index = delIdx (h.swap 0 (h.heap.size - 1)).index h.heap[0].2 := rfl
  rw [hidx, lookup_delIdx, popped_getElem?]
  by_cases hit : h.heap[0].2 = it
  · simp only [hit, if_true]
    constructor
    · intro e; cases e
    · rintro ⟨k, hk⟩
      split at hk
      · rename_i hp
        rw [hit] at hl'
        have := ok1.inj hk hl'
        omega
      · cases hk
  · simp only [hit, if_false]
    rw [ok1 it p]
    split
    · rfl
    · rename_i hp
      constructor
      · rintro ⟨k, hk⟩
        have hlt := lt_of_getElem? hk
        rw [swap_size] at hlt
        have : p = h.heap.size - 1 := by omega
        subst this
        rw [hl'] at hk
        exact absurd (congrArg Prod.snd (Option.some.inj hk)) hit
      · rintro ⟨k, hk⟩; cases hk

theorem popped_entry (ok : IdxOK h) (k it : Int) :
    Entry (popped h hs) k it ↔ Entry h k it ∧ it ≠ h.heap[0].2 := by
  have ok1 := swap_idxOK h 0 (h.heap.size - 1) ok
  have hl' : (h.swap 0 (h.heap.size - 1)).heap[h.heap.size - 1]? = some (h.heap[0].1, h.heap[0].2) :=
    swapped_last h hs
  rw [← swap_entry h 0 (h.heap.size - 1)]
  unfold Entry
  constructor
  · rintro ⟨p, hp⟩
    rw [popped_getElem?] at hp
    split at hp
    · rename_i hlt
      refine ⟨⟨p, hp⟩, ?_⟩
      intro e
      subst e
      have := ok1.inj hp hl'
      omega
    · cases hp
  · rintro ⟨⟨p, hp⟩, hne⟩
    refine ⟨p, ?_⟩
    rw [popped_getElem?]
    have hlt := lt_of_getElem? hp
    rw [swap_size] at hlt
    have : p ≠ h.heap.size - 1 := by
      intro e; subst e; rw [hl'] at hp
      exact hne (congrArg Prod.snd (Option.some.inj hp)).symm
    have : p < h.heap.size - 1 := by omega
    simp only [this, if_true]; exact hp

theorem popped_keyAt (p : Nat) (hp0 : 0 < p) (hp : p < h.heap.size - 1) :
    (popped h hs).keyAt p = h.keyAt p := by
  rw [keyAt_eq, keyAt_eq, popped_getElem?, swap_getElem? h 0 (h.heap.size - 1) _ hs (by omega)]
  have a : ¬ p = h.heap.size - 1 := by omega
  have b : ¬ p = 0 := by omega
  simp only [hp, a, b, if_true, if_false]

theorem popped_sink_ordered (o : Ordered h) (hne : 0 < (popped h hs).heap.size) :
    Ordered (sinkDown (popped h hs) 0) := by
  apply sinkDown_ordered _ _ hne
  · intro j hj0 hjs hjp
    rw [popped_size] at hjs
    rw [popped_keyAt h hs _ (by omega) (by omega), popped_keyAt h hs _ hj0 hjs]
    exact o j hj0 (by omega)
  · intro c h0; omega

end popLemmas

theorem pop_spec (h : UHeap) (wf : WF h) (k0 it0 : Int) (h' : UHeap)
    (hp : h.popWithKey = some ((k0, it0), h')) :
    WF h' ∧ Entry h k0 it0 ∧ (∀ k it, Entry h k it → k0 ≤ k) ∧
    (∀ k it, Entry h' k it ↔ Entry h k it ∧ it ≠ it0) ∧ h'.heap.size + 1 = h.heap.size := by
  obtain ⟨ok, ord⟩ := wf
  unfold popWithKey at hp
  split at hp
  · rename_i hs
    have hpd : (⟨(h.swap 0 (h.heap.size - 1)).heap.pop,
        delIdx (h.swap 0 (h.heap.size - 1)).index h.heap[0].2⟩ : UHeap) = popped h hs := rfl
    simp only [hpd] at hp
    have hp := Option.some.inj hp
    have htop : h.heap[0] = (k0, it0) := congrArg Prod.fst hp
    have hh : (if (popped h hs).heap.size > 0 then sinkDown (popped h hs) 0 else popped h hs) = h' :=
      congrArg Prod.snd hp
    have h0 : h.heap[0]? = some (k0, it0) := by rw [Array.getElem?_eq_getElem hs, htop]
    have hit0 : h.heap[0].2 = it0 := by rw [htop]
    have hent : ∀ k it, Entry h' k it ↔ Entry h k it ∧ it ≠ it0 := by
      intro k it
      rw [← hh, ← hit0]
      split
      · unfold sinkDown; rw [sinkDownAux_entry, popped_entry h hs ok]
      · rw [popped_entry h hs ok]
    have hwf : WF h' := by
      rw [← hh]
      split
      · rename_i hne
        exact ⟨sinkDownAux_idxOK _ _ _ (popped_idxOK h hs ok), popped_sink_ordered h hs ord hne⟩
      · rename_i hne
        refine ⟨popped_idxOK h hs ok, ?_⟩
        intro j _ hj
        omega
    have hsz : h'.heap.size + 1 = h.heap.size := by
      rw [← hh]
      split
      · unfold sinkDown; rw [sinkDownAux_size, popped_size]; omega
      · rw [popped_size]; omega
    refine ⟨hwf, ⟨0, h0⟩, ?_, hent, hsz⟩
    rintro k it ⟨p, hp⟩
    have := ord.root_min p (lt_of_getElem? hp)
    rw [entry_keyAt hp, entry_keyAt h0] at this
    exact this
  · cases hp

theorem pop_none_iff (h : UHeap) : h.popWithKey = none ↔ h.heap.size = 0 := by
  unfold popWithKey
  split
  · rename_i hs
    constructor
    · intro e; cases e
    · intro e; omega
  · rename_i hs
    constructor
    · intro _; omega
    · intro _; rfl

end ProbLogProofs.ContainersHeap
