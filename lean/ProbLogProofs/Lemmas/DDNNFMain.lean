/-
The line-by-line theorem: in a circuit accepted by `validate`, the value `evalLines` computes for line `i` is the
weighted model count of line `i` over its own variables — for every commutative semiring and all weights.
-/
import ProbLogProofs.Lemmas.DDNNFLines
import ProbLogProofs.Lemmas.DDNNFWmc

open Finset

namespace ProbLogProofs.DDNNF
open ProbLogModel.DDNNF

variable {R : Type} [CommSemiring R]

/-- a Mathlib commutative semiring as the model's semiring record -/
def srOf (R : Type) [CommSemiring R] : SR R := ⟨0, 1, (· + ·), (· * ·)⟩

/-- the assignment "x is true iff x ∈ T" -/
def assign (T : Finset Nat) : Nat → Bool := fun x => decide (x ∈ T)

/-- variables of line `i` -/
def vars (c : Circuit) (i : Nat) : Finset Nat := ((varsLines c).getD i []).toFinset

/-- truth of line `i` under the assignment `T` -/
def sat (c : Circuit) (i : Nat) (T : Finset Nat) : Bool := satAt (assign T) c i

/-- value of line `i` -/
def valAt (w : Int → R) (c : Circuit) (i : Nat) : R := (evalLines (srOf R) w c).getD i 0

/-! ### sorted variable lists as finite sets -/

theorem mem_insertSorted (x y : Nat) (l : List Nat) : y ∈ insertSorted x l ↔ y = x ∨ y ∈ l := by
  induction l with
  | nil => simp [insertSorted]
  | cons z zs ih =>
    unfold insertSorted
    split
    · simp
    · split
      · rename_i h; have : x = z := by simpa using h
        subst this; simp
      · simp [ih]; tauto

theorem mem_mergeVars (a b : List Nat) (y : Nat) : y ∈ mergeVars a b ↔ y ∈ a ∨ y ∈ b := by
  unfold mergeVars
  induction a generalizing b with
  | nil => simp
  | cons x xs ih => simp [List.foldl_cons, ih, mem_insertSorted]; tauto

theorem mem_foldl_merge (g : Nat → List Nat) (cs : List Nat) (v0 : List Nat) (x : Nat) :
    x ∈ cs.foldl (fun v ch => mergeVars (g ch) v) v0 ↔ x ∈ v0 ∨ ∃ ch ∈ cs, x ∈ g ch := by
  induction cs generalizing v0 with
  | nil => simp
  | cons c cs ih => simp [List.foldl_cons, ih, mem_mergeVars]; tauto

theorem disjointVars_iff (a b : List Nat) : disjointVars a b = true ↔ Disjoint a.toFinset b.toFinset := by
  unfold disjointVars
  rw [Finset.disjoint_left]
  simp [List.all_eq_true]

theorem pairwise_iff {α} (p : α → α → Bool) (l : List α) :
    pairwise p l = true ↔ l.Pairwise (fun a b => p a b = true) := by
  induction l with
  | nil => simp [pairwise]
  | cons x xs ih => simp [pairwise, ih, List.all_eq_true]

/-! ### the three tables at a line -/

theorem vars_eq {c : Circuit} (hf : Forward c) {i : Nat} (hi : i < c.length) :
    (varsLines c).getD i [] = varsLine (varsLines c) c[i] := by
  rw [varsLines_eq, linesOf_fix varsLine_local c i hi (hf i hi)]

theorem vars_lit {c : Circuit} (hf : Forward c) {i : Nat} (hi : i < c.length) {l : Int}
    (hnd : c[i] = .lit l) : vars c i = {l.natAbs} := by
  unfold vars; rw [vars_eq hf hi, hnd]; simp [varsLine]

theorem mem_vars_and {c : Circuit} (hf : Forward c) {i : Nat} (hi : i < c.length) {cs : List Nat}
    (hnd : c[i] = .and cs) (x : Nat) : x ∈ vars c i ↔ ∃ ch ∈ cs, x ∈ vars c ch := by
  unfold vars; rw [vars_eq hf hi, hnd]
  simp [varsLine, mem_foldl_merge]

theorem mem_vars_or {c : Circuit} (hf : Forward c) {i : Nat} (hi : i < c.length) {j : Nat} {cs : List Nat}
    (hnd : c[i] = .or j cs) (x : Nat) : x ∈ vars c i ↔ ∃ ch ∈ cs, x ∈ vars c ch := by
  unfold vars; rw [vars_eq hf hi, hnd]
  simp [varsLine, mem_foldl_merge]

theorem val_eq {c : Circuit} (hf : Forward c) (w : Int → R) {i : Nat} (hi : i < c.length) :
    valAt w c i = evalLine (srOf R) w (evalLines (srOf R) w c) c[i] := by
  unfold valAt
  rw [evalLines_eq]
  exact linesOf_fix (evalLine_local (srOf R) w) c i hi (hf i hi)

theorem sat_eq {c : Circuit} (hf : Forward c) (T : Finset Nat) {i : Nat} (hi : i < c.length) :
    sat c i T = match c[i] with
      | .lit l => litTrue (assign T) l
      | .and cs => cs.all (fun ch => sat c ch T)
      | .or _ cs => cs.any (fun ch => sat c ch T) := satAt_eq hf (assign T) hi

/-! ### truth of a line depends only on its variables -/

theorem sat_dependsOn {c : Circuit} (hf : Forward c) :
    ∀ i, i < c.length → DependsOn (sat c i) (vars c i) := by
  intro i
  induction i using Nat.strongRecOn with
  | ind i ih =>
    intro hi T
    rw [sat_eq hf _ hi, sat_eq hf _ hi]
    cases hnd : c[i] with
    | lit l =>
      simp only
      rw [vars_lit hf hi hnd]
      unfold litTrue assign
      simp
    | and cs =>
      simp only
      have hch : ∀ ch ∈ cs, sat c ch (T ∩ vars c i) = sat c ch T := by
        intro ch hc
        have hlt : ch < i := hf i hi ch (by rw [hnd]; exact hc)
        exact (ih ch hlt (by omega)).mono
          (fun x hx => (mem_vars_and hf hi hnd x).mpr ⟨ch, hc, hx⟩) T
      rw [Bool.eq_iff_iff]
      simp only [List.all_eq_true]
      constructor
      · intro H ch hc; rw [← hch ch hc]; exact H ch hc
      · intro H ch hc; rw [hch ch hc]; exact H ch hc
    | or j cs =>
      simp only
      have hch : ∀ ch ∈ cs, sat c ch (T ∩ vars c i) = sat c ch T := by
        intro ch hc
        have hlt : ch < i := hf i hi ch (by rw [hnd]; exact hc)
        exact (ih ch hlt (by omega)).mono
          (fun x hx => (mem_vars_or hf hi hnd x).mpr ⟨ch, hc, hx⟩) T
      rw [Bool.eq_iff_iff]
      simp only [List.any_eq_true]
      constructor
      · rintro ⟨ch, hc, H⟩; exact ⟨ch, hc, by rw [← hch ch hc]; exact H⟩
      · rintro ⟨ch, hc, H⟩; exact ⟨ch, hc, by rw [hch ch hc]; exact H⟩

/-! ### the line theorem -/

theorem wmc_lit (w : Int → R) (l : Int) :
    wmc w {l.natAbs} (fun T => litTrue (assign T) l) = w l := by
  by_cases h : l > 0
  · have e : ((l.natAbs : Nat) : Int) = l := by omega
    have := wmc_lit_pos w l.natAbs
    rw [e] at this
    rw [← this]
    apply wmc_congr w rfl
    intro T; simp [litTrue, assign, h]
  · have e : -((l.natAbs : Nat) : Int) = l := by omega
    have := wmc_lit_neg w l.natAbs
    rw [e] at this
    rw [← this]
    apply wmc_congr w rfl
    intro T; simp [litTrue, assign, h]

theorem val_is_wmc {c : Circuit} (hv : Valid c) (w : Int → R) :
    ∀ i, i < c.length → valAt w c i = wmc w (vars c i) (sat c i) := by
  have hf := hv.forward
  intro i
  induction i using Nat.strongRecOn with
  | ind i ih =>
    intro hi
    have hsat : sat c i = fun T => sat c i T := rfl
    rw [val_eq hf w hi, hsat]
    simp only [sat_eq hf _ hi]
    cases hnd : c[i] with
    | lit l =>
      simp only [evalLine]
      rw [vars_lit hf hi hnd, wmc_lit]
    | and cs =>
      simp only [evalLine]
      have hlt : ∀ ch ∈ cs, ch < i := fun ch hc => hf i hi ch (by rw [hnd]; exact hc)
      show cs.foldl (fun p ch => p * valAt w c ch) 1 = _
      rw [foldl_mul_eq_prod]
      have hmap : cs.map (fun ch => valAt w c ch) =
          cs.map (fun ch => wmc w (vars c ch) (sat c ch)) := by
        apply List.map_congr_left
        intro ch hc; exact ih ch (hlt ch hc) (by have := hlt ch hc; omega)
      rw [hmap]
      apply wmc_list_and w (vars c) (sat c) cs (vars c i) (mem_vars_and hf hi hnd)
      · have := hv.and_decomposable hi hnd
        rw [pairwise_iff, List.pairwise_map] at this
        refine this.imp ?_
        intro a b hab
        exact (disjointVars_iff _ _).mp hab
      · intro ch hc; exact sat_dependsOn hf ch (by have := hlt ch hc; omega)
    | or j cs =>
      simp only [evalLine]
      have hlt : ∀ ch ∈ cs, ch < i := fun ch hc => hf i hi ch (by rw [hnd]; exact hc)
      show cs.foldl (fun p ch => p + valAt w c ch) 0 = _
      rcases hv.or_cases hi hnd with rfl | ⟨a, rfl⟩ | ⟨a, b, rfl, hsm, _, l, hl, ha, hb⟩
      · have : vars c i = ∅ := by ext x; simp [mem_vars_or hf hi hnd]
        simp [this, wmc_false]
      · have : vars c i = vars c a := by ext x; simp [mem_vars_or hf hi hnd]
        have ha := hlt a (by simp)
        simp only [List.foldl_cons, List.foldl_nil, zero_add, List.any_cons, List.any_nil, Bool.or_false]
        rw [this, ih a ha (by omega)]
      · have hab : vars c a = vars c b := by unfold vars; rw [hsm]
        have : vars c i = vars c a := by ext x; simp [mem_vars_or hf hi hnd, hab]
        have ha' := hlt a (by simp)
        have hb' := hlt b (by simp)
        simp only [List.foldl_cons, List.foldl_nil, zero_add, List.any_cons, List.any_nil, Bool.or_false]
        rw [this, ih a ha' (by omega), ih b hb' (by omega), ← hab]
        exact wmc_or w (vars c a) (sat c a) (sat c b)
          (fun T => hv.or_exclusive (assign T) hl ha hb)

end ProbLogProofs.DDNNF
