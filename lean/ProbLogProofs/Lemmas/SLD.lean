import ProbLogModel.SLD
/-!
Helper lemmas for C13: substitution algebra, soundness of `unifyF`, `bindAll`, soundness of `solveSt`.
-/
namespace ProbLogProofs.SLDLemmas
open ProbLogModel.SLD

theorem lookup_compose (σ θ : Subst) (x : Nat) :
    lookup (compose σ θ) x = match lookup σ x with
      | some t => some (t.subst θ)
      | none => lookup θ x := by
  induction σ with
  | nil => simp [compose, lookup]
  | cons p r ih =>
    obtain ⟨y, t⟩ := p
    simp only [compose, List.map_cons, List.cons_append, lookup] at *
    by_cases h : y = x
    · simp [h]
    · simp [h, ih]

theorem subst_compose (σ θ : Subst) (t : Tm) : t.subst (compose σ θ) = (t.subst σ).subst θ := by
  induction t with
  | var x =>
    simp only [Tm.subst, lookup_compose]
    cases h : lookup σ x with
    | none => simp [Tm.subst]
    | some u => simp
  | sym s => simp [Tm.subst]
  | app f a ihf iha => simp [Tm.subst, ihf, iha]

theorem subst_nil (t : Tm) : t.subst [] = t := by
  induction t with
  | var x => simp [Tm.subst, lookup]
  | sym s => simp [Tm.subst]
  | app f a ihf iha => simp [Tm.subst, ihf, iha]

theorem subst_ground (σ : Subst) (t : Tm) (h : t.ground = true) : t.subst σ = t := by
  induction t with
  | var x => simp [Tm.ground] at h
  | sym s => simp [Tm.subst]
  | app f a ihf iha =>
    simp only [Tm.ground, Bool.and_eq_true] at h
    simp [Tm.subst, ihf h.1, iha h.2]

theorem rename_ground (k : Nat) (t : Tm) (h : t.ground = true) : t.rename k = t := by
  induction t with
  | var x => simp [Tm.ground] at h
  | sym s => simp [Tm.rename]
  | app f a ihf iha =>
    simp only [Tm.ground, Bool.and_eq_true] at h
    simp [Tm.rename, ihf h.1, iha h.2]

theorem subst_single_not_occurs (x : Nat) (u t : Tm) (h : t.occurs x = false) : t.subst [(x, u)] = t := by
  induction t with
  | var y =>
    simp only [Tm.occurs, beq_eq_false_iff_ne, ne_eq] at h
    simp [Tm.subst, lookup, h]
  | sym s => simp [Tm.subst]
  | app f a ihf iha =>
    simp only [Tm.occurs, Bool.or_eq_false_iff] at h
    simp [Tm.subst, ihf h.1, iha h.2]

namespace G
theorem subst_compose (σ θ : Subst) (g : Goal) : g.subst (compose σ θ) = (g.subst σ).subst θ := by
  induction g with
  | tt => rfl
  | ff => rfl
  | call t => simp [Goal.subst, SLDLemmas.subst_compose]
  | unif a b => simp [Goal.subst, SLDLemmas.subst_compose]
  | conj a b iha ihb => simp [Goal.subst, iha, ihb]
  | disj a b iha ihb => simp [Goal.subst, iha, ihb]
  | neg g ih => simp [Goal.subst, ih]
  | findall t g r ih => simp [Goal.subst, SLDLemmas.subst_compose, ih]

theorem subst_nil (g : Goal) : g.subst [] = g := by
  induction g with
  | tt => rfl
  | ff => rfl
  | call t => simp [Goal.subst, SLDLemmas.subst_nil]
  | unif a b => simp [Goal.subst, SLDLemmas.subst_nil]
  | conj a b iha ihb => simp [Goal.subst, iha, ihb]
  | disj a b iha ihb => simp [Goal.subst, iha, ihb]
  | neg g ih => simp [Goal.subst, ih]
  | findall t g r ih => simp [Goal.subst, SLDLemmas.subst_nil, ih]

theorem subst_ground (σ : Subst) (g : Goal) (h : g.ground = true) : g.subst σ = g := by
  induction g with
  | tt => rfl
  | ff => rfl
  | call t => simp only [Goal.ground] at h; simp [Goal.subst, SLDLemmas.subst_ground σ t h]
  | unif a b =>
    simp only [Goal.ground, Bool.and_eq_true] at h
    simp [Goal.subst, SLDLemmas.subst_ground σ a h.1, SLDLemmas.subst_ground σ b h.2]
  | conj a b iha ihb =>
    simp only [Goal.ground, Bool.and_eq_true] at h
    simp [Goal.subst, iha h.1, ihb h.2]
  | disj a b iha ihb =>
    simp only [Goal.ground, Bool.and_eq_true] at h
    simp [Goal.subst, iha h.1, ihb h.2]
  | neg g ih => simp only [Goal.ground] at h; simp [Goal.subst, ih h]
  | findall t g r ih =>
    simp only [Goal.ground, Bool.and_eq_true] at h
    simp [Goal.subst, SLDLemmas.subst_ground σ t h.1.1, SLDLemmas.subst_ground σ r h.2, ih h.1.2]

/-- Extensionally equal substitutions act equally on goals. -/
theorem subst_ext (σ₁ σ θ : Subst) (h : ∀ t : Tm, t.subst σ₁ = (t.subst σ).subst θ) (g : Goal) :
    g.subst σ₁ = (g.subst σ).subst θ := by
  induction g with
  | tt => rfl
  | ff => rfl
  | call t => simp [Goal.subst, h]
  | unif a b => simp [Goal.subst, h]
  | conj a b iha ihb => simp [Goal.subst, iha, ihb]
  | disj a b iha ihb => simp [Goal.subst, iha, ihb]
  | neg g ih => simp [Goal.subst, ih]
  | findall t g r ih => simp [Goal.subst, h, ih]
end G

/-- A computed unifier unifies. -/
theorem unifyF_sound : ∀ (n : Nat) (a b : Tm) (θ : Subst), unifyF n a b = some (some θ) → a.subst θ = b.subst θ := by
  intro n
  induction n with
  | zero => intro a b θ h; simp [unifyF] at h
  | succ n ih =>
    intro a b θ h
    unfold unifyF at h
    cases a with
    | var x =>
      cases b with
      | var y =>
        simp only at h
        by_cases hxy : x = y
        · subst hxy; rfl
        · simp only [hxy, if_false, Option.some.injEq] at h
          subst h
          simp [Tm.subst, lookup, hxy]
      | sym s =>
        simp only [Tm.occurs, Bool.false_eq_true, if_false, Option.some.injEq] at h
        subst h; simp [Tm.subst, lookup]
      | app b1 b2 =>
        simp only at h
        by_cases ho : (Tm.app b1 b2).occurs x = true
        · simp [ho] at h
        · have ho' : (Tm.app b1 b2).occurs x = false := by simpa using ho
          simp only [ho', Bool.false_eq_true, if_false, Option.some.injEq] at h
          subst h
          rw [subst_single_not_occurs x _ _ ho']
          simp [Tm.subst, lookup]
    | sym s =>
      cases b with
      | var y =>
        simp only [Option.some.injEq] at h
        subst h; simp [Tm.subst, lookup]
      | sym s' =>
        simp only at h
        by_cases hs : s = s'
        · subst hs; rfl
        · simp [hs] at h
      | app b1 b2 => simp at h
    | app a1 a2 =>
      cases b with
      | var y =>
        simp only at h
        by_cases ho : (Tm.app a1 a2).occurs y = true
        · simp [ho] at h
        · have ho' : (Tm.app a1 a2).occurs y = false := by simpa using ho
          simp only [ho', Bool.false_eq_true, if_false, Option.some.injEq] at h
          subst h
          rw [subst_single_not_occurs y _ _ ho']
          simp [Tm.subst, lookup]
      | sym s => simp at h
      | app b1 b2 =>
        simp only at h
        cases h1 : unifyF n a1 b1 with
        | none => simp [h1] at h
        | some r1 =>
          cases r1 with
          | none => simp [h1] at h
          | some θ1 =>
            simp only [h1] at h
            cases h2 : unifyF n (a2.subst θ1) (b2.subst θ1) with
            | none => simp [h2] at h
            | some r2 =>
              cases r2 with
              | none => simp [h2] at h
              | some θ2 =>
                simp only [h2, Option.some.injEq] at h
                subst h
                have e1 := ih a1 b1 θ1 h1
                have e2 := ih _ _ θ2 h2
                simp only [Tm.subst, subst_compose, e1, e2]

theorem mem_bindAll {α β : Type} (f : α → Option (List β)) :
    ∀ (l : List α) (r : List β), bindAll f l = some r →
      ∀ b, b ∈ r ↔ ∃ a ∈ l, ∃ ys, f a = some ys ∧ b ∈ ys := by
  intro l
  induction l with
  | nil => intro r h b; simp [bindAll] at h; subst h; simp
  | cons x xs ih =>
    intro r h b
    simp only [bindAll] at h
    cases hx : f x with
    | none => simp [hx] at h
    | some ys =>
      simp only [hx] at h
      cases hr : bindAll f xs with
      | none => simp [hr] at h
      | some zs =>
        simp only [hr, Option.some.injEq] at h
        subst h
        have := ih zs hr b
        simp only [List.mem_append, this, List.mem_cons, exists_eq_or_imp, hx, Option.some.injEq,
          exists_eq_left']

/-- `a.σ` extends `s.σ`. -/
def Extends (σ σ' : Subst) : Prop := ∃ θ : Subst, ∀ t : Tm, t.subst σ' = (t.subst σ).subst θ

theorem Extends.refl (σ : Subst) : Extends σ σ := ⟨[], fun t => (subst_nil _).symm⟩

theorem Extends.trans {a b c : Subst} (h1 : Extends a b) (h2 : Extends b c) : Extends a c := by
  obtain ⟨θ1, e1⟩ := h1
  obtain ⟨θ2, e2⟩ := h2
  exact ⟨compose θ1 θ2, fun t => by rw [e2, e1, subst_compose]⟩

theorem Extends.compose (σ θ : Subst) : Extends σ (compose σ θ) := ⟨θ, fun t => subst_compose σ θ t⟩

/-- Soundness of the SLD search: every computed answer extends the input substitution, and every instance of
    the goal under the answer is derivable. -/
theorem solveSt_sound (P : Program) : ∀ (n : Nat) (g : Goal) (s : St) (as : List St), solveSt P n g s = some as →
    ∀ a ∈ as, Extends s.σ a.σ ∧ ∀ γ : Subst, Derivable P ((g.subst a.σ).subst γ) := by
  intro n
  induction n with
  | zero => intro g s as h; simp [solveSt] at h
  | succ n ih =>
    intro g s as h a ha
    unfold solveSt at h
    cases g with
    | tt =>
      simp only [Option.some.injEq] at h; subst h
      simp only [List.mem_singleton] at ha; subst ha
      exact ⟨Extends.refl _, fun γ => Derivable.tt⟩
    | ff => simp only [Option.some.injEq] at h; subst h; simp at ha
    | unif x y =>
      simp only at h
      cases hu : unifyF n (x.subst s.σ) (y.subst s.σ) with
      | none => simp [hu] at h
      | some r =>
        cases r with
        | none => simp [hu] at h; subst h; simp at ha
        | some θ =>
          simp only [hu, Option.some.injEq] at h; subst h
          simp only [List.mem_singleton] at ha; subst ha
          refine ⟨Extends.compose _ _, fun γ => ?_⟩
          have e := unifyF_sound n _ _ θ hu
          simp only [Goal.subst, subst_compose, e]
          exact Derivable.unif _
    | conj x y =>
      simp only at h
      cases hx : solveSt P n x s with
      | none => simp [hx] at h
      | some xs =>
        simp only [hx] at h
        obtain ⟨s1, hs1, ys, hy, hay⟩ := (mem_bindAll _ xs as h a).1 ha
        obtain ⟨ex, dx⟩ := ih x s xs hx s1 hs1
        obtain ⟨ey, dy⟩ := ih y s1 ys hy a hay
        refine ⟨ex.trans ey, fun γ => ?_⟩
        obtain ⟨θ, eθ⟩ := ey
        have : x.subst a.σ = (x.subst s1.σ).subst θ := G.subst_ext _ _ _ eθ x
        simp only [Goal.subst]
        refine Derivable.conj ?_ (dy γ)
        rw [this, ← G.subst_compose]
        exact dx _
    | disj x y =>
      simp only at h
      cases hx : solveSt P n x s with
      | none => simp [hx] at h
      | some xs =>
        simp only [hx] at h
        cases hy : solveSt P n y s with
        | none => simp [hy] at h
        | some ys =>
          simp only [hy, Option.some.injEq] at h; subst h
          rcases List.mem_append.1 ha with hm | hm
          · obtain ⟨e, d⟩ := ih x s xs hx a hm
            exact ⟨e, fun γ => Derivable.disjL (d γ)⟩
          · obtain ⟨e, d⟩ := ih y s ys hy a hm
            exact ⟨e, fun γ => Derivable.disjR (d γ)⟩
    | neg x =>
      simp only at h
      by_cases hg : (x.subst s.σ).ground = true
      · simp only [hg, if_true] at h
        cases hx : solveSt P n (x.subst s.σ) ⟨[], s.next⟩ with
        | none => simp [hx] at h
        | some xs =>
          cases xs with
          | nil =>
            simp only [hx, Option.some.injEq] at h; subst h
            simp only [List.mem_singleton] at ha; subst ha
            refine ⟨Extends.refl _, fun γ => ?_⟩
            simp only [Goal.subst, G.subst_ground γ _ hg]
            exact Derivable.neg _ n a.next hg hx
          | cons z zs => simp only [hx, Option.some.injEq] at h; subst h; simp at ha
      · simp [hg] at h
    | call t =>
      simp only at h
      obtain ⟨c, hc, ys, hy, hay⟩ := (mem_bindAll _ P as h a).1 ha
      cases hu : unifyF n (t.subst s.σ) ((c.head.rename s.next).subst s.σ) with
      | none => simp [hu] at hy
      | some r =>
        cases r with
        | none => simp only [hu, Option.some.injEq] at hy; subst hy; simp at hay
        | some θ =>
          simp only [hu] at hy
          obtain ⟨e, d⟩ := ih _ _ ys hy a hay
          have e0 : Extends s.σ (compose s.σ θ) := Extends.compose _ _
          refine ⟨e0.trans e, fun γ => ?_⟩
          obtain ⟨θ', eθ'⟩ := e
          have eu := unifyF_sound n _ _ θ hu
          -- t·a.σ = head'·a.σ
          have key : t.subst a.σ = (c.head.rename s.next).subst a.σ := by
            have h1 := eθ' t
            have h2 := eθ' (c.head.rename s.next)
            simp only at h1 h2
            rw [h1, h2, subst_compose, subst_compose, eu]
          have := Derivable.call c s.next (compose a.σ γ) hc (by rw [G.subst_compose]; exact d γ)
          simp only [Goal.subst, key]
          rw [subst_compose] at this
          exact this
    | findall t x r =>
      simp only at h
      cases hx : solveSt P n (x.subst s.σ) ⟨[], s.next⟩ with
      | none => simp [hx] at h
      | some xs =>
        simp only [hx] at h
        cases hu : unifyF n (r.subst s.σ) (mkList (xs.map (fun a => (t.subst s.σ).subst a.σ))) with
        | none => simp [hu] at h
        | some u =>
          cases u with
          | none => simp only [hu, Option.some.injEq] at h; subst h; simp at ha
          | some θ =>
            simp only [hu, Option.some.injEq] at h; subst h
            simp only [List.mem_singleton] at ha; subst ha
            refine ⟨Extends.compose _ _, fun γ => ?_⟩
            have eu := unifyF_sound n _ _ θ hu
            have := Derivable.findall (P := P) (t.subst s.σ) (x.subst s.σ) n s.next xs (compose θ γ) hx
            simp only [Goal.subst, subst_compose, G.subst_compose] at this ⊢
            rw [eu]
            exact this


/-! ## Bottom-up evaluation -/

theorem rename_zero (t : Tm) : t.rename 0 = t := by
  induction t with
  | var x => simp [Tm.rename]
  | sym s => simp [Tm.rename]
  | app f a ihf iha => simp [Tm.rename, ihf, iha]

namespace G
theorem rename_zero (g : Goal) : g.rename 0 = g := by
  induction g with
  | tt => rfl
  | ff => rfl
  | call t => simp [Goal.rename, SLDLemmas.rename_zero]
  | unif a b => simp [Goal.rename, SLDLemmas.rename_zero]
  | conj a b iha ihb => simp [Goal.rename, iha, ihb]
  | disj a b iha ihb => simp [Goal.rename, iha, ihb]
  | neg g ih => simp [Goal.rename, ih]
  | findall t g r ih => simp [Goal.rename, SLDLemmas.rename_zero, ih]

theorem positive_subst (σ : Subst) (g : Goal) : (g.subst σ).positive = g.positive := by
  induction g with
  | tt => rfl
  | ff => rfl
  | call t => rfl
  | unif a b => rfl
  | conj a b iha ihb => simp [Goal.subst, Goal.positive, iha, ihb]
  | disj a b iha ihb => simp [Goal.subst, Goal.positive, iha, ihb]
  | neg g _ => rfl
  | findall t g r _ => rfl
end G

/-- Facts that hold in `P` may replace `P` for positive goals. -/
theorem derivable_transfer (P : Program) (F : List Tm)
    (hF : ∀ f ∈ F, f.ground = true ∧ Derivable P (.call f)) :
    ∀ g, Derivable (factProgram F) g → g.positive = true → Derivable P g := by
  intro g h
  induction h with
  | tt => intro _; exact Derivable.tt
  | unif a => intro _; exact Derivable.unif a
  | conj _ _ iha ihb =>
    intro hp
    simp only [Goal.positive, Bool.and_eq_true] at hp
    exact Derivable.conj (iha hp.1) (ihb hp.2)
  | disjL _ iha =>
    intro hp
    simp only [Goal.positive, Bool.and_eq_true] at hp
    exact Derivable.disjL (iha hp.1)
  | disjR _ ihb =>
    intro hp
    simp only [Goal.positive, Bool.and_eq_true] at hp
    exact Derivable.disjR (ihb hp.2)
  | call c k ρ hc _ _ =>
    intro _
    simp only [factProgram, List.mem_map] at hc
    obtain ⟨f, hf, rfl⟩ := hc
    obtain ⟨hg, hd⟩ := hF f hf
    simp only
    rw [rename_ground k f hg, subst_ground ρ f hg]
    exact hd
  | neg g n k _ _ => intro hp; simp [Goal.positive] at hp
  | findall t g n k as δ _ => intro hp; simp [Goal.subst, Goal.positive] at hp

theorem mem_foldl_insertNew (new F : List Tm) (x : Tm) : x ∈ new.foldl insertNew F → x ∈ F ∨ x ∈ new := by
  induction new generalizing F with
  | nil => intro h; exact Or.inl h
  | cons y ys ih =>
    intro h
    simp only [List.foldl_cons] at h
    rcases ih _ h with h1 | h1
    · unfold insertNew at h1
      split at h1
      · exact Or.inl h1
      · rcases List.mem_append.1 h1 with h2 | h2
        · exact Or.inl h2
        · simp only [List.mem_singleton] at h2
          exact Or.inr (h2 ▸ List.mem_cons_self)
    · exact Or.inr (List.mem_cons_of_mem _ h1)

theorem tpStep_sound (P : Program) (hpos : ∀ c ∈ P, c.body.positive = true) (fuel : Nat) (F new : List Tm)
    (hF : ∀ f ∈ F, f.ground = true ∧ Derivable P (.call f)) (h : tpStep P fuel F = some new) :
    ∀ f ∈ new, f.ground = true ∧ Derivable P (.call f) := by
  intro f hf
  unfold tpStep at h
  obtain ⟨c, hc, ys, hy, hfy⟩ := (mem_bindAll _ P new h f).1 hf
  cases hs : solveSt (factProgram F) fuel c.body ⟨[], c.nvars⟩ with
  | none => simp [hs] at hy
  | some as =>
    simp only [hs] at hy
    by_cases hall : (as.map (fun a => c.head.subst a.σ)).all Tm.ground = true
    · simp only [hall, if_true, Option.some.injEq] at hy
      subst hy
      have hg : f.ground = true := (List.all_eq_true.1 hall) f hfy
      refine ⟨hg, ?_⟩
      obtain ⟨a, ha, rfl⟩ := List.mem_map.1 hfy
      obtain ⟨_, d⟩ := solveSt_sound (factProgram F) fuel c.body ⟨[], c.nvars⟩ as hs a ha
      have d0 := d []
      rw [G.subst_nil] at d0
      have dP : Derivable P (c.body.subst a.σ) :=
        derivable_transfer P F hF _ d0 (by rw [G.positive_subst]; exact hpos c hc)
      have := Derivable.call c 0 a.σ hc (by rw [G.rename_zero]; exact dP)
      rw [rename_zero] at this
      exact this
    · simp [hall] at hy

theorem bottomUp_sound (P : Program) (hpos : ∀ c ∈ P, c.body.positive = true) (fuel : Nat) :
    ∀ (k : Nat) (F0 F : List Tm), (∀ f ∈ F0, f.ground = true ∧ Derivable P (.call f)) →
      bottomUp P fuel k F0 = some F → ∀ f ∈ F, f.ground = true ∧ Derivable P (.call f) := by
  intro k
  induction k with
  | zero => intro F0 F _ h; simp [bottomUp] at h
  | succ k ih =>
    intro F0 F hF0 h
    simp only [bottomUp] at h
    cases ht : tpStep P fuel F0 with
    | none => simp [ht] at h
    | some new =>
      simp only [ht] at h
      have hnew := tpStep_sound P hpos fuel F0 new hF0 ht
      by_cases hl : (new.foldl insertNew F0).length = F0.length
      · simp only [hl, if_true, Option.some.injEq] at h
        subst h; exact hF0
      · simp only [hl, if_false] at h
        apply ih _ F _ h
        intro f hf
        rcases mem_foldl_insertNew new F0 f hf with h1 | h1
        · exact hF0 f h1
        · exact hnew f h1


/-! ## Completeness for ground (propositional) positive programs -/

namespace G
theorem rename_ground (k : Nat) (g : Goal) (h : g.ground = true) : g.rename k = g := by
  induction g with
  | tt => rfl
  | ff => rfl
  | call t => simp only [Goal.ground] at h; simp [Goal.rename, SLDLemmas.rename_ground k t h]
  | unif a b =>
    simp only [Goal.ground, Bool.and_eq_true] at h
    simp [Goal.rename, SLDLemmas.rename_ground k a h.1, SLDLemmas.rename_ground k b h.2]
  | conj a b iha ihb =>
    simp only [Goal.ground, Bool.and_eq_true] at h
    simp [Goal.rename, iha h.1, ihb h.2]
  | disj a b iha ihb =>
    simp only [Goal.ground, Bool.and_eq_true] at h
    simp [Goal.rename, iha h.1, ihb h.2]
  | neg g ih => simp only [Goal.ground] at h; simp [Goal.rename, ih h]
  | findall t g r ih =>
    simp only [Goal.ground, Bool.and_eq_true] at h
    simp [Goal.rename, SLDLemmas.rename_ground k t h.1.1, SLDLemmas.rename_ground k r h.2, ih h.1.2]
end G

/-- Unifying a ground term with itself never fails (it may only run out of fuel). -/
theorem unifyF_refl_ground : ∀ (n : Nat) (a : Tm), a.ground = true →
    unifyF n a a = none ∨ unifyF n a a = some (some []) := by
  intro n
  induction n with
  | zero => intro a _; left; simp [unifyF]
  | succ n ih =>
    intro a ha
    cases a with
    | var x => simp [Tm.ground] at ha
    | sym s => right; simp [unifyF]
    | app a1 a2 =>
      simp only [Tm.ground, Bool.and_eq_true] at ha
      unfold unifyF
      simp only
      rcases ih a1 ha.1 with h1 | h1
      · left; simp [h1]
      · rw [h1]
        simp only [subst_nil]
        rcases ih a2 ha.2 with h2 | h2
        · left; simp [h2]
        · right; simp [h2, compose]

theorem bindAll_ne_nil {α β : Type} (f : α → Option (List β)) (l : List α) (r : List β)
    (h : bindAll f l = some r) (a : α) (ha : a ∈ l) (ys : List β) (hy : f a = some ys) (hne : ys ≠ []) : r ≠ [] := by
  obtain ⟨y, hy'⟩ := List.exists_mem_of_ne_nil ys hne
  have := (mem_bindAll f l r h y).2 ⟨a, ha, ys, hy, hy'⟩
  intro e; rw [e] at this; simp at this

theorem bindAll_some_of_mem {α β : Type} (f : α → Option (List β)) : ∀ (l : List α) (r : List β),
    bindAll f l = some r → ∀ a ∈ l, ∃ ys, f a = some ys := by
  intro l
  induction l with
  | nil => intro r _ a ha; simp at ha
  | cons x xs ih =>
    intro r h a ha
    simp only [bindAll] at h
    cases hx : f x with
    | none => simp [hx] at h
    | some ys =>
      simp only [hx] at h
      cases hr : bindAll f xs with
      | none => simp [hr] at h
      | some zs =>
        rcases List.mem_cons.1 ha with rfl | ha'
        · exact ⟨ys, hx⟩
        · exact ih zs hr a ha'

/-- For a ground positive program, a derivable ground positive goal never fails finitely: whenever the search
    terminates (`some as`), it has an answer. -/
theorem ground_complete (P : Program)
    (hP : ∀ c ∈ P, c.head.ground = true ∧ c.body.ground = true ∧ c.body.positive = true) :
    ∀ g, Derivable P g → g.ground = true → g.positive = true →
      ∀ (n : Nat) (s : St) (as : List St), solveSt P n g s = some as → as ≠ [] := by
  intro g hd
  induction hd with
  | tt =>
    intro _ _ n s as h
    cases n with
    | zero => simp [solveSt] at h
    | succ n => simp [solveSt] at h; subst h; simp
  | unif a =>
    intro hg _ n s as h
    cases n with
    | zero => simp [solveSt] at h
    | succ n =>
      simp only [Goal.ground, Bool.and_self] at hg
      unfold solveSt at h
      simp only [subst_ground s.σ a hg] at h
      rcases unifyF_refl_ground n a hg with hu | hu
      · simp [hu] at h
      · simp [hu] at h; subst h; simp
  | @conj a b _ _ iha ihb =>
    intro hg hp n s as h
    simp only [Goal.ground, Bool.and_eq_true] at hg
    simp only [Goal.positive, Bool.and_eq_true] at hp
    cases n with
    | zero => simp [solveSt] at h
    | succ n =>
      unfold solveSt at h
      simp only at h
      cases hx : solveSt P n a s with
      | none => simp [hx] at h
      | some xs =>
        simp only [hx] at h
        have hne := iha hg.1 hp.1 n s xs hx
        obtain ⟨s1, hs1⟩ := List.exists_mem_of_ne_nil xs hne
        obtain ⟨ys, hy⟩ := bindAll_some_of_mem _ xs as h s1 hs1
        exact bindAll_ne_nil _ xs as h s1 hs1 ys hy (ihb hg.2 hp.2 n s1 ys hy)
  | @disjL a b _ iha =>
    intro hg hp n s as h
    simp only [Goal.ground, Bool.and_eq_true] at hg
    simp only [Goal.positive, Bool.and_eq_true] at hp
    cases n with
    | zero => simp [solveSt] at h
    | succ n =>
      unfold solveSt at h
      simp only at h
      cases hx : solveSt P n a s with
      | none => simp [hx] at h
      | some xs =>
        simp only [hx] at h
        cases hy : solveSt P n b s with
        | none => simp [hy] at h
        | some ys =>
          simp only [hy, Option.some.injEq] at h; subst h
          have := iha hg.1 hp.1 n s xs hx
          intro e; exact this (List.append_eq_nil_iff.1 e).1
  | @disjR a b _ ihb =>
    intro hg hp n s as h
    simp only [Goal.ground, Bool.and_eq_true] at hg
    simp only [Goal.positive, Bool.and_eq_true] at hp
    cases n with
    | zero => simp [solveSt] at h
    | succ n =>
      unfold solveSt at h
      simp only at h
      cases hx : solveSt P n a s with
      | none => simp [hx] at h
      | some xs =>
        simp only [hx] at h
        cases hy : solveSt P n b s with
        | none => simp [hy] at h
        | some ys =>
          simp only [hy, Option.some.injEq] at h; subst h
          have := ihb hg.2 hp.2 n s ys hy
          intro e; exact this (List.append_eq_nil_iff.1 e).2
  | call c k ρ hc _ ih =>
    intro _ _ n s as h
    obtain ⟨hh, hb, hbp⟩ := hP c hc
    have ehead : (c.head.rename k).subst ρ = c.head := by
      rw [rename_ground k _ hh, subst_ground ρ _ hh]
    have ebody : (c.body.rename k).subst ρ = c.body := by
      rw [G.rename_ground k _ hb, G.subst_ground ρ _ hb]
    rw [ehead] at h
    rw [ebody] at ih
    cases n with
    | zero => simp [solveSt] at h
    | succ n =>
      unfold solveSt at h
      simp only at h
      obtain ⟨ys, hy⟩ := bindAll_some_of_mem _ P as h c hc
      refine bindAll_ne_nil _ P as h c hc ys hy ?_
      simp only [rename_ground s.next _ hh, subst_ground s.σ _ hh, G.rename_ground s.next _ hb] at hy
      rcases unifyF_refl_ground n c.head hh with hu | hu
      · simp [hu] at hy
      · simp only [hu] at hy
        exact ih hb hbp n _ ys hy
  | neg g n k _ _ => intro _ hp; simp [Goal.positive] at hp
  | findall t g n k as δ _ => intro _ hp; simp [Goal.subst, Goal.positive] at hp

end ProbLogProofs.SLDLemmas
