import ProbLogProofs.Lemmas.FormulaBasic
/-!
# C11 helper lemmas (2): `addName`, node creation, `_add_compound`
-/
namespace ProbLogModel.Formula

/-! ### `addName` only renames -/

theorem addName_spec (S : Store) (n : Name) (k : Key) (l : Label) (keep : Bool) :
    (S.addName n k l keep).nodes.map Node.erase = S.nodes.map Node.erase ∧
    (S.addName n k l keep).idxConj = S.idxConj ∧ (S.addName n k l keep).idxDisj = S.idxDisj ∧
    (S.addName n k l keep).idxAtom = S.idxAtom ∧ (S.addName n k l keep).opts = S.opts := by
  unfold Store.addName
  simp only
  split
  · split
    · split
      · rename_i i nd h
        refine ⟨?_, rfl, rfl, rfl, rfl⟩
        exact map_erase_set_setName _ _ _ _ h
      · exact ⟨rfl, rfl, rfl, rfl, rfl⟩
    · exact ⟨rfl, rfl, rfl, rfl, rfl⟩
  · exact ⟨rfl, rfl, rfl, rfl, rfl⟩

theorem addName_length (S : Store) (n : Name) (k : Key) (l : Label) (keep : Bool) :
    (S.addName n k l keep).nodes.length = S.nodes.length := by
  have h := congrArg List.length (addName_spec S n k l keep).1
  simpa using h

theorem addName_grows (S : Store) (n : Name) (k : Key) (l : Label) (keep : Bool) :
    Grows S (S.addName n k l keep) := ⟨[], by simp [(addName_spec S n k l keep).1]⟩

theorem addName_grows' (S : Store) (n : Name) (k : Key) (l : Label) (keep : Bool) :
    Grows (S.addName n k l keep) S := ⟨[], by simp [(addName_spec S n k l keep).1]⟩

theorem addName_wf {S : Store} (hw : WF S) (n : Name) (k : Key) (l : Label) (keep : Bool) :
    WF (S.addName n k l keep) :=
  have h := addName_spec S n k l keep
  hw.of_grows (addName_grows S n k l keep) h.2.1 h.2.2.1 h.2.2.2.1

/-! ### fresh node creation -/

/-- `S'` is `S` plus one new node `kind.mk c2 name` (index entry added or not). -/
structure Fresh (kind : Kind) (c2 : List Key) (name : Option Name) (S S' : Store) : Prop where
  nodes : S'.nodes = S.nodes ++ [kind.mk c2 name]
  atom : S'.idxAtom = S.idxAtom
  conj : S'.idxConj = S.idxConj ∨
    (kind = .conj ∧ lookup S.idxConj c2 = none ∧ S'.idxConj = S.idxConj ++ [(c2, S.nodes.length + 1)])
  disj : S'.idxDisj = S.idxDisj ∨
    (kind = .disj ∧ lookup S.idxDisj c2 = none ∧ S'.idxDisj = S.idxDisj ++ [(c2, S.nodes.length + 1)])
  opts : S'.opts = S.opts

theorem Fresh.grows {kind c2 name S S'} (h : Fresh kind c2 name S S') : Grows S S' :=
  Grows.of_append _ h.nodes

theorem Fresh.get {kind c2 name S S'} (h : Fresh kind c2 name S S') :
    S'.nodes[S.nodes.length + 1 - 1]? = some (kind.mk c2 name) := by
  rw [h.nodes]; simp

theorem Fresh.wf {kind c2 name S S'} (h : Fresh kind c2 name S S') (hw : WF S) : WF S' := by
  have hg := h.grows
  refine ⟨fun cs i hl => ?_, fun cs i hl => ?_, fun id i hl => ?_⟩
  · rcases h.conj with hc | ⟨hk, hnone, hc⟩
    · rw [hc] at hl
      obtain ⟨h1, nm, h2⟩ := hw.conj cs i hl
      exact ⟨h1, hg.get_conj h2⟩
    · rw [hc, lookup_append] at hl
      cases hl' : lookup S.idxConj cs with
      | some v =>
        rw [hl'] at hl
        simp only [Option.some.injEq] at hl; subst hl
        obtain ⟨h1, nm, h2⟩ := hw.conj cs v hl'
        exact ⟨h1, hg.get_conj h2⟩
      | none =>
        rw [hl'] at hl
        simp only at hl
        split at hl
        · rename_i heq
          have heq : c2 = cs := by simpa using heq
          simp only [Option.some.injEq] at hl
          subst heq; subst hl; subst hk
          exact ⟨by omega, name, h.get⟩
        · cases hl
  · rcases h.disj with hc | ⟨hk, hnone, hc⟩
    · rw [hc] at hl
      obtain ⟨h1, nm, h2⟩ := hw.disj cs i hl
      exact ⟨h1, hg.get_disj h2⟩
    · rw [hc, lookup_append] at hl
      cases hl' : lookup S.idxDisj cs with
      | some v =>
        rw [hl'] at hl
        simp only [Option.some.injEq] at hl; subst hl
        obtain ⟨h1, nm, h2⟩ := hw.disj cs v hl'
        exact ⟨h1, hg.get_disj h2⟩
      | none =>
        rw [hl'] at hl
        simp only at hl
        split at hl
        · rename_i heq
          have heq : c2 = cs := by simpa using heq
          simp only [Option.some.injEq] at hl
          subst heq; subst hl; subst hk
          exact ⟨by omega, name, h.get⟩
        · cases hl
  · rw [h.atom] at hl
    obtain ⟨h1, g, e, nm, h2⟩ := hw.atom id i hl
    obtain ⟨nm', h3⟩ := hg.get_atom h2
    exact ⟨h1, g, e, nm', h3⟩

theorem addConjNode_spec (S : Store) (cs : List Key) (nm : Option Name) (reuse : Bool) (S' : Store) (i : Nat)
    (h : S.addConjNode cs nm reuse = (S', i)) :
    (S' = S ∧ lookup S.idxConj cs = some i) ∨ (i = S.nodes.length + 1 ∧ Fresh .conj cs nm S S') := by
  unfold Store.addConjNode at h
  split at h
  · split at h
    · rename_i j hj
      simp only [Prod.mk.injEq] at h
      obtain ⟨rfl, rfl⟩ := h
      exact Or.inl ⟨rfl, hj⟩
    · rename_i hj
      simp only [Prod.mk.injEq] at h
      obtain ⟨rfl, rfl⟩ := h
      exact Or.inr ⟨rfl, ⟨rfl, rfl, Or.inr ⟨rfl, hj, rfl⟩, Or.inl rfl, rfl⟩⟩
  · simp only [Prod.mk.injEq] at h
    obtain ⟨rfl, rfl⟩ := h
    exact Or.inr ⟨rfl, ⟨rfl, rfl, Or.inl rfl, Or.inl rfl, rfl⟩⟩

theorem addDisjNode_spec (S : Store) (cs : List Key) (nm : Option Name) (reuse : Bool) (S' : Store) (i : Nat)
    (h : S.addDisjNode cs nm reuse = (S', i)) :
    (S' = S ∧ lookup S.idxDisj cs = some i) ∨ (i = S.nodes.length + 1 ∧ Fresh .disj cs nm S S') := by
  unfold Store.addDisjNode at h
  split at h
  · split at h
    · rename_i j hj
      simp only [Prod.mk.injEq] at h
      obtain ⟨rfl, rfl⟩ := h
      exact Or.inl ⟨rfl, hj⟩
    · rename_i hj
      simp only [Prod.mk.injEq] at h
      obtain ⟨rfl, rfl⟩ := h
      exact Or.inr ⟨rfl, ⟨rfl, rfl, Or.inl rfl, Or.inr ⟨rfl, hj, rfl⟩, rfl⟩⟩
  · simp only [Prod.mk.injEq] at h
    obtain ⟨rfl, rfl⟩ := h
    exact Or.inr ⟨rfl, ⟨rfl, rfl, Or.inl rfl, Or.inl rfl, rfl⟩⟩

/-! ### `_add_compound` -/

/-- The node-creating tail of `_add_compound` (lines 873-893), as a top-level function. -/
def finishC (kind : Kind) (readonly : Bool) (name : Option Name) (S : Store) (content : List Key)
    (nameClash : Bool) : Except Err (Store × Key) :=
  match kind with
  | .conj =>
    let (S', i) := S.addConjNode content name (S.opts.autoCompact && !S.opts.keepAll)
    .ok (S', some (i : Int))
  | .disj =>
    if readonly then
      let (S', i) := S.addDisjNode content name (S.opts.autoCompact && !nameClash && !S.opts.keepAll)
      .ok (S', some (i : Int))
    else
      let (S', i) := S.addDisjNode content name false
      .ok (S', some (i : Int))

def doCompactOf (compact : Option Bool) (S : Store) : Bool :=
  match compact with
  | some b => b
  | none => S.opts.autoCompact

theorem addCompound_eq (S : Store) (kind : Kind) (content : List Key) (readonly : Bool)
    (name : Option Name) (placeholder : Bool) (compact : Option Bool) :
    addCompound S kind content readonly name placeholder compact =
      if !placeholder && content.isEmpty then .error .assertion
      else
        if doCompactOf compact S then
          if content.contains kind.t then .ok (S, kind.t)
          else
            let c2 := if S.opts.keepDuplicates then content.filter (· != kind.f)
                else dedup (content.filter (· != kind.f))
            if c2.isEmpty && !placeholder then .ok (S, kind.f)
            else if hasOpp c2 then .ok (S, kind.t)
            else
              match readonly, c2 with
              | true, [c] =>
                match singleChild S c name with
                | (some r, _) => .ok r
                | (none, clash) => finishC kind readonly name S c2 clash
              | _, _ => finishC kind readonly name S c2 false
        else finishC kind readonly name S content false := by
  rfl

/-- The possible outcomes of `_add_compound`. -/
inductive CRes (S : Store) (kind : Kind) (content : List Key) (name : Option Name) (S' : Store) (k : Key) : Prop
  /-- constant folding / single child without renaming: nothing changes, `k` means the right thing in any valuation -/
  | const : S' = S → (∀ ρ, keyVal ρ k = kind.sem content ρ) → (k = kind.t ∨ k = kind.f ∨ k ∈ content) →
      CRes S kind content name S' k
  /-- single child, the child gets the name -/
  | named (n : Name) : name = some n → S' = S.addName n k .named → (∀ ρ, keyVal ρ k = kind.sem content ρ) →
      k ∈ content → CRes S kind content name S' k
  /-- hash-consing hit -/
  | reuse (i : Nat) (c2 : List Key) : S' = S → k = some (i : Int) → lookup (kind.idx S) c2 = some i →
      (∀ ρ, kind.sem c2 ρ = kind.sem content ρ) → CRes S kind content name S' k
  /-- a new node -/
  | fresh (c2 : List Key) : k = some ((S.nodes.length + 1 : Nat) : Int) → Fresh kind c2 name S S' →
      (∀ ρ, kind.sem c2 ρ = kind.sem content ρ) → (∀ x ∈ c2, x ∈ content) → CRes S kind content name S' k

theorem finishC_spec (kind : Kind) (readonly : Bool) (name : Option Name) (S : Store) (c2 content : List Key)
    (clash : Bool) (S' : Store) (k : Key) (hsem : ∀ ρ, kind.sem c2 ρ = kind.sem content ρ)
    (hsub : ∀ x ∈ c2, x ∈ content)
    (h : finishC kind readonly name S c2 clash = .ok (S', k)) : CRes S kind content name S' k := by
  unfold finishC at h
  cases kind with
  | conj =>
    simp only at h
    generalize hr : S.addConjNode c2 name (S.opts.autoCompact && !S.opts.keepAll) = r at h
    obtain ⟨S1, i⟩ := r
    simp only [Except.ok.injEq, Prod.mk.injEq] at h
    obtain ⟨rfl, rfl⟩ := h
    rcases addConjNode_spec _ _ _ _ _ _ hr with ⟨rfl, hl⟩ | ⟨rfl, hf⟩
    · exact .reuse i c2 rfl rfl hl hsem
    · exact .fresh c2 rfl hf hsem hsub
  | disj =>
    simp only at h
    split at h
    · generalize hr : S.addDisjNode c2 name (S.opts.autoCompact && !clash && !S.opts.keepAll) = r at h
      obtain ⟨S1, i⟩ := r
      simp only [Except.ok.injEq, Prod.mk.injEq] at h
      obtain ⟨rfl, rfl⟩ := h
      rcases addDisjNode_spec _ _ _ _ _ _ hr with ⟨rfl, hl⟩ | ⟨rfl, hf⟩
      · exact .reuse i c2 rfl rfl hl hsem
      · exact .fresh c2 rfl hf hsem hsub
    · generalize hr : S.addDisjNode c2 name false = r at h
      obtain ⟨S1, i⟩ := r
      simp only [Except.ok.injEq, Prod.mk.injEq] at h
      obtain ⟨rfl, rfl⟩ := h
      rcases addDisjNode_spec _ _ _ _ _ _ hr with ⟨rfl, hl⟩ | ⟨rfl, hf⟩
      · exact .reuse i c2 rfl rfl hl hsem
      · exact .fresh c2 rfl hf hsem hsub

theorem singleChild_spec (S : Store) (c : Key) (name : Option Name) (S' : Store) (k : Key) (b : Bool)
    (h : singleChild S c name = (some (S', k), b)) :
    k = c ∧ (S' = S ∨ ∃ n, name = some n ∧ S' = S.addName n c .named) := by
  unfold singleChild at h
  simp only at h
  repeat' split at h
  all_goals first
    | (simp only [Prod.mk.injEq, Option.some.injEq] at h
       obtain ⟨⟨rfl, rfl⟩, _⟩ := h
       first | exact ⟨rfl, Or.inl rfl⟩ | exact ⟨rfl, Or.inr ⟨_, rfl, rfl⟩⟩)
    | simp at h

/-- Structural specification of `_add_compound`, for every option record. -/
theorem addCompound_cres (S : Store) (kind : Kind) (content : List Key) (readonly : Bool)
    (name : Option Name) (placeholder : Bool) (compact : Option Bool) (S' : Store) (k : Key)
    (h : addCompound S kind content readonly name placeholder compact = .ok (S', k)) :
    CRes S kind content name S' k := by
  rw [addCompound_eq] at h
  by_cases h1 : (!placeholder && content.isEmpty) = true
  · rw [if_pos h1] at h; cases h
  rw [if_neg h1] at h
  by_cases h2 : doCompactOf compact S = true
  · rw [if_pos h2] at h
    by_cases ht : content.contains kind.t = true
    · -- t in content
      rw [if_pos ht] at h
      simp only [Except.ok.injEq, Prod.mk.injEq] at h
      obtain ⟨rfl, rfl⟩ := h
      refine .const rfl (fun ρ => (sem_t kind ρ content ?_).symm) (Or.inl rfl)
      simpa using ht
    · rw [if_neg ht] at h
      dsimp only at h
      have hsem : ∀ ρ, kind.sem (if S.opts.keepDuplicates then content.filter (· != kind.f)
          else dedup (content.filter (· != kind.f))) ρ = kind.sem content ρ :=
        fun ρ => sem_congr_mem kind ρ _ _ (mem_c2 kind _ content)
      have hsub : ∀ x ∈ (if S.opts.keepDuplicates then content.filter (· != kind.f)
          else dedup (content.filter (· != kind.f))), x ∈ content :=
        fun x hx => ((mem_c2 kind _ content x).1 hx).1
      generalize (if S.opts.keepDuplicates then content.filter (· != kind.f)
          else dedup (content.filter (· != kind.f))) = c2 at h hsem hsub
      by_cases he : (c2.isEmpty && !placeholder) = true
      · rw [if_pos he] at h
        simp only [Except.ok.injEq, Prod.mk.injEq] at h
        obtain ⟨rfl, rfl⟩ := h
        simp only [Bool.and_eq_true, List.isEmpty_iff] at he
        obtain ⟨rfl, _⟩ := he
        exact .const rfl (fun ρ => by rw [← hsem ρ, sem_nil]) (Or.inr (Or.inl rfl))
      · rw [if_neg he] at h
        by_cases ho : hasOpp c2 = true
        · rw [if_pos ho] at h
          simp only [Except.ok.injEq, Prod.mk.injEq] at h
          obtain ⟨rfl, rfl⟩ := h
          exact .const rfl (fun ρ => by rw [← hsem ρ, sem_hasOpp kind ρ c2 ho]) (Or.inl rfl)
        · rw [if_neg ho] at h
          split at h
          · rename_i c
            split at h
            · rename_i r b hs
              simp only [Except.ok.injEq] at h
              subst h
              obtain ⟨rfl, hS⟩ := singleChild_spec S c name _ _ _ hs
              have hk : ∀ ρ, keyVal ρ k = kind.sem content ρ := fun ρ => by rw [← hsem ρ, sem_single]
              rcases hS with rfl | ⟨n, rfl, rfl⟩
              · exact .const rfl hk (Or.inr (Or.inr (hsub _ List.mem_cons_self)))
              · exact .named n rfl rfl hk (hsub _ List.mem_cons_self)
            · exact finishC_spec _ _ _ _ _ _ _ _ _ hsem hsub h
          · exact finishC_spec _ _ _ _ _ _ _ _ _ hsem hsub h
  · rw [if_neg h2] at h
    exact finishC_spec _ _ _ _ _ _ _ _ _ (fun _ => rfl) (fun _ hx => hx) h

theorem addCompound_error {S : Store} {kind : Kind} {content : List Key} {readonly : Bool}
    {name : Option Name} {placeholder : Bool} {compact : Option Bool} {e : Err}
    (h : addCompound S kind content readonly name placeholder compact = .error e) :
    e = .assertion ∧ placeholder = false ∧ content = [] := by
  rw [addCompound_eq] at h
  by_cases h1 : (!placeholder && content.isEmpty) = true
  · rw [if_pos h1] at h
    simp only [Bool.and_eq_true, Bool.not_eq_true', List.isEmpty_iff] at h1
    cases h; exact ⟨rfl, h1.1, h1.2⟩
  · exfalso
    rw [if_neg h1] at h
    have hfin : ∀ c2 clash, finishC kind readonly name S c2 clash ≠ .error e := by
      intro c2 clash hf
      unfold finishC at hf
      cases kind <;> simp only at hf
      · cases hf
      · split at hf <;> cases hf
    by_cases h2 : doCompactOf compact S = true
    · rw [if_pos h2] at h
      by_cases ht : content.contains kind.t = true
      · rw [if_pos ht] at h; cases h
      · rw [if_neg ht] at h
        dsimp only at h
        generalize (if S.opts.keepDuplicates then content.filter (· != kind.f)
          else dedup (content.filter (· != kind.f))) = c2 at h
        by_cases he : (c2.isEmpty && !placeholder) = true
        · rw [if_pos he] at h; cases h
        · rw [if_neg he] at h
          by_cases ho : hasOpp c2 = true
          · rw [if_pos ho] at h; cases h
          · rw [if_neg ho] at h
            split at h
            · split at h
              · cases h
              · exact hfin _ _ h
            · exact hfin _ _ h
    · rw [if_neg h2] at h
      exact hfin _ _ h

/-! ### consequences of `CRes` -/

theorem CRes.wf {S kind content name S' k} (h : CRes S kind content name S' k) (hw : WF S) : WF S' := by
  cases h with
  | const h1 _ _ => subst h1; exact hw
  | named n _ h2 _ _ => subst h2; exact addName_wf hw _ _ _ _
  | reuse i c2 h1 _ _ _ => subst h1; exact hw
  | fresh c2 _ hf _ _ => exact hf.wf hw

theorem CRes.grows {S kind content name S' k} (h : CRes S kind content name S' k) : Grows S S' := by
  cases h with
  | const h1 _ _ => subst h1; exact Grows.refl _
  | named n _ h2 _ _ => subst h2; exact addName_grows _ _ _ _ _
  | reuse i c2 h1 _ _ _ => subst h1; exact Grows.refl _
  | fresh c2 _ hf _ _ => exact hf.grows

theorem CRes.opts {S kind content name S' k} (h : CRes S kind content name S' k) : S'.opts = S.opts := by
  cases h with
  | const h1 _ _ => subst h1; rfl
  | named n _ h2 _ _ => subst h2; exact (addName_spec _ _ _ _ _).2.2.2.2
  | reuse i c2 h1 _ _ _ => subst h1; rfl
  | fresh c2 _ hf _ _ => exact hf.opts

theorem idx_get {S : Store} (hw : WF S) (kind : Kind) (c2 : List Key) (i : Nat)
    (h : lookup (kind.idx S) c2 = some i) : 1 ≤ i ∧ ∃ nm, S.nodes[i - 1]? = some (kind.mk c2 nm) := by
  cases kind
  · exact hw.conj c2 i h
  · exact hw.disj c2 i h

theorem consistent_mk {S : Store} {ρ : Nat → Bool} (hc : Consistent S ρ) (kind : Kind) (c2 : List Key)
    (nm : Option Name) (j : Nat) (h : S.nodes[j]? = some (kind.mk c2 nm)) : ρ (j + 1) = kind.sem c2 ρ := by
  cases kind
  · exact (hc j).1 c2 nm h
  · exact (hc j).2 c2 nm h

theorem CRes.sem {S kind content name S' k} (h : CRes S kind content name S' k) (hw : WF S)
    (ρ : Nat → Bool) (hc : Consistent S' ρ) : keyVal ρ k = kind.sem content ρ := by
  cases h with
  | const _ h2 _ => exact h2 ρ
  | named n _ _ h3 _ => exact h3 ρ
  | reuse i c2 h1 h2 h3 h4 =>
    subst h1; subst h2
    obtain ⟨hi, nm, hn⟩ := idx_get hw kind c2 i h3
    rw [keyVal_pos ρ i hi, ← h4 ρ]
    have := consistent_mk hc kind c2 nm (i - 1) hn
    rwa [Nat.sub_add_cancel hi] at this
  | fresh c2 h1 hf h4 _ =>
    subst h1
    rw [keyVal_pos ρ _ (by omega), ← h4 ρ]
    exact consistent_mk hc kind c2 name S.nodes.length hf.get

end ProbLogModel.Formula
