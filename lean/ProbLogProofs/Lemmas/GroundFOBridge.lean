import ProbLogModel.GroundFOSpec
import ProbLogProofs.Lemmas.GroundSem
import ProbLogProofs.Lemmas.GroundFOSemDefs
/-!
# From the well-founded model of the Herbrand instantiation to a model of the first-order completion (core Lean only)

`Mspec P natoms ar chosen p a` = "`a` has the arity of `p`, its constants are `< nconsts`, and the atom `p(a)` is true in
`Sem.wfm (toSem (inst P natoms))`".  Under the hypotheses `SpecOK` (decidable in principle: distinct predicates in
`defs`, arities respected, constants in range, range restriction, injective naming below `natoms`, and the
instantiation acyclic) it satisfies `IsModelFO`.
-/
namespace ProbLogProofs.GroundFOSem
open ProbLogModel ProbLogModel.Formula ProbLogModel.GroundFO ProbLogProofs.GroundSem
open ProbLogModel.Sem (getB wfm)


theorem mem_tuples (nc : Nat) : ∀ (n : Nat) (θ : List Const), θ ∈ tuples nc n ↔ θ.length = n ∧ inR nc θ = true
  | 0, θ => by
    simp only [tuples, List.mem_singleton]
    constructor
    · rintro rfl; exact ⟨rfl, rfl⟩
    · rintro ⟨h, _⟩; exact List.length_eq_zero_iff.1 h
  | n + 1, θ => by
    simp only [tuples, List.mem_flatMap, List.mem_range, List.mem_map]
    constructor
    · rintro ⟨c, hc, t, ht, rfl⟩
      obtain ⟨h1, h2⟩ := (mem_tuples nc n t).1 ht
      exact ⟨by simp [h1], by simp [inR, hc] at h2 ⊢; exact h2⟩
    · rintro ⟨hl, hr⟩
      cases θ with
      | nil => simp at hl
      | cons c t =>
        simp only [inR, List.all_cons, Bool.and_eq_true, decide_eq_true_eq] at hr
        exact ⟨c, hr.1, t, (mem_tuples nc n t).2 ⟨by simpa using hl, hr.2⟩, rfl⟩

theorem lookup_range_map {β} (f : Nat → β) : ∀ (n id : Nat),
    lookup ((List.range n).map (fun a => (a, f a))) id = if id < n then some (f id) else none
  | 0, id => by simp [lookup]
  | n + 1, id => by
    rw [List.range_succ, List.map_append, lookup_append']
    rw [lookup_range_map f n id]
    by_cases h : id < n
    · simp [h]; omega
    · simp only [h, if_false, List.map_cons, List.map_nil, lookup]
      by_cases he : id = n
      · subst he; simp
      · have : ¬ id < n + 1 := by omega
        simp [this]; intro e; exact he e.symm
where
  lookup_append' {β} (l1 l2 : List (Nat × β)) (x : Nat) :
      lookup (l1 ++ l2) x = (lookup l1 x).orElse (fun _ => lookup l2 x) := by
    induction l1 with
    | nil => rfl
    | cons p r ih =>
      obtain ⟨a, b⟩ := p
      simp only [List.cons_append, lookup]
      split
      · rfl
      · exact ih

/-! ### the clauses of an atom of the instantiation -/

theorem clausesOf_inst (P : Prog) (natoms id : Nat) (h : id < natoms) :
    (inst P natoms).clausesOf id = (allInstances P).filterMap (fun x => if x.1 == id then some x.2 else none) := by
  unfold GroundAcyclic.Prog.clausesOf inst
  simp only
  rw [lookup_range_map (fun a => (allInstances P).filterMap (fun x => if x.1 == a then some x.2 else none)), if_pos h]
  rfl

theorem mem_clausesOf_inst (P : Prog) (natoms id : Nat) (h : id < natoms) (gc : GroundAcyclic.Clause) :
    gc ∈ (inst P natoms).clausesOf id ↔ (id, gc) ∈ allInstances P := by
  rw [clausesOf_inst P natoms id h, List.mem_filterMap]
  constructor
  · rintro ⟨x, hx, he⟩
    split at he
    · rename_i hid
      have : x.1 = id := by simpa using hid
      cases he
      rw [← this]; exact hx
    · cases he
  · intro hm
    exact ⟨(id, gc), hm, by simp⟩

theorem mem_allInstances (P : Prog) (hn : (P.defs.map (·.1)).Nodup) (x : Nat × GroundAcyclic.Clause) :
    x ∈ allInstances P ↔ ∃ p c, c ∈ P.clausesOf p ∧ x ∈ instClause P p c := by
  unfold allInstances
  simp only [List.mem_flatMap]
  constructor
  · rintro ⟨d, hd, c, hc, hx⟩
    refine ⟨d.1, c, ?_, hx⟩
    have : P.clausesOf d.1 = d.2 := by
      unfold Prog.clausesOf
      rw [lookup_of_mem_nodup P.defs d.1 d.2 hn (by cases d; exact hd)]; rfl
    rw [this]; exact hc
  · rintro ⟨p, c, hc, hx⟩
    unfold Prog.clausesOf at hc
    cases hl : lookup P.defs p with
    | none => rw [hl] at hc; cases hc
    | some cs =>
      rw [hl] at hc
      exact ⟨(p, cs), lookup_mem _ _ _ hl, c, hc, hx⟩

/-! ### the specification as a model of the completion -/

def litAtom : Lit → Option Atom
  | .pos a => some a
  | .neg a => some a
  | .tt => none

def Term.cIn (nc : Nat) : Term → Prop
  | .const c => c < nc
  | .var _ => True

/-- `ar p = some k`: `p` is a predicate of the program (it has a name base) and has arity `k`; `none` for every other
    predicate number (so that `inj` is about the program's predicates only). -/
structure SpecOK (P : Prog) (natoms : Nat) (ar : Pred → Option Nat) (rk : Nat → Nat) : Prop where
  nodup : (P.defs.map (·.1)).Nodup
  wf : WfP (inst P natoms) natoms rk
  vars : VarsOK P
  factOK : ∀ p args ident prob, Clause.fact args ident prob ∈ P.clausesOf p → ar p = some args.length ∧ inR P.nconsts args = true
  headOK : ∀ p head n body ch, Clause.rule head n body ch ∈ P.clausesOf p →
    ar p = some head.length ∧ ∀ t ∈ head, Term.cIn P.nconsts t
  bodyOK : ∀ p head n body ch, Clause.rule head n body ch ∈ P.clausesOf p → ∀ l ∈ body, ∀ b, litAtom l = some b →
    ar b.pred = some b.args.length ∧ ∀ t ∈ b.args, Term.cIn P.nconsts t
  /-- range restriction: every clause variable occurs in a positive body literal -/
  rr : ∀ p head n body ch, Clause.rule head n body ch ∈ P.clausesOf p → ∀ i, i < n →
    ∃ b, Lit.pos b ∈ body ∧ Term.var i ∈ b.args
  inj : ∀ p a p' a', ar p = some a.length → ar p' = some a'.length → inR P.nconsts a = true → inR P.nconsts a' = true →
    P.atomName p a = P.atomName p' a' → p = p' ∧ a = a'
  bound : ∀ p a, ar p = some a.length → inR P.nconsts a = true → P.atomName p a < natoms

section
variable {P : Prog} {natoms : Nat} {ar : Pred → Option Nat} {rk : Nat → Nat}

/-- truth of the atom with id `a` in the instantiation -/
def Tspec (P : Prog) (natoms : Nat) (chosen : Array Bool) (a : Nat) : Bool :=
  getB (wfm (toSem (inst P natoms)) chosen natoms).1 a

def Mspec (P : Prog) (natoms : Nat) (ar : Pred → Option Nat) (chosen : Array Bool) : Model :=
  fun p a => (ar p == some a.length) && inR P.nconsts a && Tspec P natoms chosen (P.atomName p a)

theorem inR_ground {nc : Nat} {θ : List Const} (hθ : inR nc θ = true) {n : Nat} (hl : θ.length = n)
    (ts : List Term) (hc : ∀ t ∈ ts, Term.cIn nc t) (hv : ∀ t ∈ ts, Term.inRange n t) :
    inR nc (ts.map (Term.ground θ)) = true := by
  unfold inR at hθ ⊢
  simp only [List.all_eq_true, decide_eq_true_eq] at hθ ⊢
  intro x hx
  obtain ⟨t, ht, rfl⟩ := List.mem_map.1 hx
  cases t with
  | const c => exact hc _ ht
  | var i =>
    have hi : i < θ.length := by rw [hl]; exact hv _ ht
    have : Term.ground θ (.var i) = θ[i] := by
      simp [Term.ground, List.getD_eq_getElem?_getD, List.getElem?_eq_getElem hi]
    rw [this]; exact hθ _ (List.getElem_mem hi)

theorem lit_mem_items {body : List Lit} {l : Lit} (h : l ∈ body) (ch : Option Choice) : Item.lit l ∈ items body ch := by
  cases ch with
  | none => exact List.mem_map.2 ⟨l, h, rfl⟩
  | some c => exact List.mem_append_left _ (List.mem_map.2 ⟨l, h, rfl⟩)

theorem Mspec_body (hs : SpecOK P natoms ar rk) (chosen : Array Bool) {p : Pred} {head : List Term} {n : Nat}
    {body : List Lit} {ch : Option Choice} (hc : Clause.rule head n body ch ∈ P.clausesOf p) {θ : List Const}
    (hθ : inR P.nconsts θ = true) (hl : θ.length = n) (l : Lit) (hlm : l ∈ body) :
    GroundSem.litTrue (Tspec P natoms chosen) (instLit P θ l) = litTrueFO (Mspec P natoms ar chosen) θ l := by
  have hvars := (hs.vars p _ hc head n body ch rfl).2
  cases l with
  | tt => rfl
  | pos b =>
    obtain ⟨h1, h2⟩ := hs.bodyOK p head n body ch hc _ hlm b rfl
    have hv : ∀ t ∈ b.args, Term.inRange n t := hvars (.lit (.pos b)) (lit_mem_items hlm ch)
    have hin := inR_ground hθ hl b.args h2 hv
    simp only [instLit, GroundSem.litTrue, litTrueFO, Mspec, Atom.groundId, hin, List.length_map, h1, beq_self_eq_true,
      Bool.true_and]
  | neg b =>
    obtain ⟨h1, h2⟩ := hs.bodyOK p head n body ch hc _ hlm b rfl
    have hv : ∀ t ∈ b.args, Term.inRange n t := hvars (.lit (.neg b)) (lit_mem_items hlm ch)
    have hin := inR_ground hθ hl b.args h2 hv
    simp only [instLit, GroundSem.litTrue, litTrueFO, Mspec, Atom.groundId, hin, List.length_map, h1, beq_self_eq_true,
      Bool.true_and]

/-- the truth of an instantiated clause = the truth of the clause's items under `Mspec` -/
theorem Mspec_clause (hs : SpecOK P natoms ar rk) (chosen : Array Bool) {p : Pred} {head : List Term} {n : Nat}
    {body : List Lit} {ch : Option Choice} (hc : Clause.rule head n body ch ∈ P.clausesOf p) {θ : List Const}
    (hθ : inR P.nconsts θ = true) (hl : θ.length = n) :
    clauseTrue chosen (Tspec P natoms chosen) (.rule (body.map (instLit P θ))
      (ch.map (fun c => ⟨c.ident + enc P.nconsts θ, c.group + enc P.nconsts θ, c.prob, c.name + enc P.nconsts θ⟩))) =
    (items body ch).all (itemTrueFO P.nconsts chosen (Mspec P natoms ar chosen) θ) := by
  have hb : (body.map (instLit P θ)).all (GroundSem.litTrue (Tspec P natoms chosen)) =
      (body.map Item.lit).all (itemTrueFO P.nconsts chosen (Mspec P natoms ar chosen) θ) := by
    rw [List.all_map, List.all_map, Bool.eq_iff_iff, List.all_eq_true, List.all_eq_true]
    constructor
    · intro h l hlm
      have := h l hlm
      simp only [Function.comp_apply] at this ⊢
      rw [Mspec_body hs chosen hc hθ hl l hlm] at this
      exact this
    · intro h l hlm
      have := h l hlm
      simp only [Function.comp_apply] at this ⊢
      rw [Mspec_body hs chosen hc hθ hl l hlm]
      exact this
  cases ch with
  | none => simp only [clauseTrue, items, Option.map_none, choiceTrue, Bool.and_true, hb]
  | some c =>
    simp only [clauseTrue, items, Option.map_some, choiceTrue, List.all_append, hb, List.all_cons, List.all_nil,
      Bool.and_true, itemTrueFO]

theorem mspec_isModelFO (hs : SpecOK P natoms ar rk) (chosen : Array Bool) :
    IsModelFO P chosen (Mspec P natoms ar chosen) := by
  have hIM : IsModel (inst P natoms) chosen (Tspec P natoms chosen) := wfm_isModel hs.wf chosen
  intro p a
  constructor
  · intro hM
    simp only [Mspec, Bool.and_eq_true, beq_iff_eq] at hM
    obtain ⟨⟨hlen, hin⟩, hT⟩ := hM
    have hid := hs.bound p a hlen hin
    rw [hIM (P.atomName p a), List.any_eq_true] at hT
    obtain ⟨gc, hgc, htrue⟩ := hT
    obtain ⟨p', c, hc, hx⟩ := (mem_allInstances P hs.nodup _).1 ((mem_clausesOf_inst P natoms _ hid gc).1 hgc)
    cases c with
    | fact args ident prob =>
      simp only [instClause, List.mem_singleton, Prod.mk.injEq] at hx
      obtain ⟨hname, rfl⟩ := hx
      obtain ⟨hl', hi'⟩ := hs.factOK p' args ident prob hc
      obtain ⟨rfl, rfl⟩ := hs.inj p a p' args hlen hl' hin hi' hname
      refine ⟨_, hc, rfl, ?_⟩
      cases prob with
      | none => exact Or.inl rfl
      | some q => exact Or.inr htrue
    | rule head n body ch =>
      simp only [instClause, List.mem_map, Prod.mk.injEq] at hx
      obtain ⟨θ, hθm, hname, rfl⟩ := hx
      obtain ⟨hθl, hθr⟩ := (mem_tuples _ _ _).1 hθm
      obtain ⟨hhl, hhc⟩ := hs.headOK p' head n body ch hc
      have hhv := (hs.vars p' _ hc head n body ch rfl).1
      have hinh := inR_ground hθr hθl head hhc hhv
      obtain ⟨rfl, rfl⟩ := hs.inj p a p' (head.map (Term.ground θ)) hlen (by simp [hhl]) hin hinh hname.symm
      refine ⟨_, hc, θ, hθl, rfl, ?_⟩
      rw [← Mspec_clause hs chosen hc hθr hθl]
      exact htrue
  · rintro ⟨c, hc, hd⟩
    cases c with
    | fact args ident prob =>
      obtain ⟨rfl, hpr⟩ := hd
      obtain ⟨hl', hi'⟩ := hs.factOK p args ident prob hc
      have hid := hs.bound p args hl' hi'
      simp only [Mspec, hl', hi', beq_self_eq_true, Bool.true_and]
      rw [hIM (P.atomName p args), List.any_eq_true]
      refine ⟨.fact ident prob (P.atomName p args), ?_, ?_⟩
      · rw [mem_clausesOf_inst P natoms _ hid, mem_allInstances P hs.nodup]
        exact ⟨p, _, hc, by simp [instClause]⟩
      · cases prob with
        | none => rfl
        | some q =>
          rcases hpr with h | h
          · cases h
          · exact h
    | rule head n body ch =>
      obtain ⟨θ, hθl, rfl, hall⟩ := hd
      -- range restriction: every value of `θ` occurs in a true positive body atom, whose constants are in range
      have hθr : inR P.nconsts θ = true := by
        unfold inR
        simp only [List.all_eq_true, decide_eq_true_eq]
        intro x hx
        obtain ⟨i, hi, rfl⟩ := List.getElem_of_mem hx
        obtain ⟨b, hb, hvb⟩ := hs.rr p head n body ch hc i (by rw [← hθl]; exact hi)
        have htb := List.all_eq_true.1 hall _ (lit_mem_items hb ch)
        simp only [itemTrueFO, litTrueFO, Mspec, Bool.and_eq_true] at htb
        have hinb := htb.1.2
        unfold inR at hinb
        simp only [List.all_eq_true, decide_eq_true_eq] at hinb
        have := hinb _ (List.mem_map.2 ⟨_, hvb, rfl⟩)
        simpa [Term.ground, List.getD_eq_getElem?_getD, List.getElem?_eq_getElem hi] using this
      obtain ⟨hhl, hhc⟩ := hs.headOK p head n body ch hc
      have hhv := (hs.vars p _ hc head n body ch rfl).1
      have hinh := inR_ground hθr hθl head hhc hhv
      have hlen : ar p = some (head.map (Term.ground θ)).length := by simp [hhl]
      have hid := hs.bound p _ hlen hinh
      simp only [Mspec, hlen, hinh, beq_self_eq_true, Bool.true_and]
      rw [hIM (P.atomName p _), List.any_eq_true]
      refine ⟨_, ?_, (Mspec_clause hs chosen hc hθr hθl).trans hall⟩
      rw [mem_clausesOf_inst P natoms _ hid, mem_allInstances P hs.nodup]
      refine ⟨p, _, hc, ?_⟩
      simp only [instClause, List.mem_map, Prod.mk.injEq]
      exact ⟨θ, (mem_tuples _ _ _).2 ⟨hθl, hθr⟩, rfl, rfl⟩

end

end ProbLogProofs.GroundFOSem
