import ProbLogProofs.Lemmas.Cycles
/-!
The loop-cut lemma: in a positive store, whatever the Kleene iteration derives has a derivation that never re-enters a
node on its own path (port of the scratch lemmas `avoid_or_smaller` / `prov_der`), and conversely.
-/
namespace ProbLogProofs.Cycles
open ProbLogModel.Formula ProbLogModel.Cycles

/-- Stage-indexed derivations in the store with the nodes of `A` removed: the propositional form of the Kleene stages
    (`Prov S α [] n k` is `lfpEval S α n k = true`, `prov_of_lfpEval`). -/
inductive Prov (S : Store) (α : Nat → Bool) : List Nat → Nat → Key → Prop
  | tt {A : List Nat} {n : Nat} : Prov S α A n (some 0)
  | lit {A : List Nat} {n : Nat} {k : Int} {id : Ident} {g : Option Nat} {e : Bool} {nm : Option Name} :
      k ≠ 0 → S.nodes[k.natAbs - 1]? = some (.atom id g e nm) →
      (if k < 0 then !α k.natAbs else α k.natAbs) = true → Prov S α A n (some k)
  | conj {A : List Nat} {n : Nat} {k : Int} {cs : List Key} {nm : Option Name} :
      0 < k → k.natAbs ∉ A → S.nodes[k.natAbs - 1]? = some (.conj cs nm) →
      (∀ c ∈ cs, Prov S α A n c) → Prov S α A (n + 1) (some k)
  | disj {A : List Nat} {n : Nat} {k : Int} {cs : List Key} {nm : Option Name} {c : Key} :
      0 < k → k.natAbs ∉ A → S.nodes[k.natAbs - 1]? = some (.disj cs nm) →
      c ∈ cs → Prov S α A n c → Prov S α A (n + 1) (some k)

theorem prov_of_lfpEval {S : Store} {α : Nat → Bool} (hS : Positive S) :
    ∀ (n : Nat) (k : Key), PosKey S k → lfpEval S α n k = true → Prov S α [] n k := by
  intro n
  induction n with
  | zero =>
    intro k hk h
    cases k with
    | none => simp [lfpEval] at h
    | some k =>
      rw [lfpEval_zero] at h
      by_cases hk0 : k = 0
      · subst hk0; exact Prov.tt
      · simp only [hk0, ↓reduceIte] at h
        cases hn : S.nodes[k.natAbs - 1]? with
        | none =>
          exfalso
          simp only [PosKey, posKey, hn] at hk
          by_cases h0 : 0 ≤ k
          · have : ¬ k < 0 := by omega
            simp [hn, this] at h
          · simp [h0] at hk
        | some nd =>
          cases nd with
          | atom id g e nm => rw [hn] at h; exact Prov.lit hk0 hn h
          | conj cs nm =>
            have hpos := pos_of_posKey_conj hk hk0 hn
            have hnl : ¬ k < 0 := by omega
            rw [hn] at h
            simp [hnl] at h
          | disj cs nm =>
            have hpos := pos_of_posKey_disj hk hk0 hn
            have hnl : ¬ k < 0 := by omega
            rw [hn] at h
            simp [hnl] at h
  | succ n ih =>
    intro k hk h
    cases k with
    | none => simp [lfpEval] at h
    | some k =>
      rw [lfpEval_succ] at h
      by_cases hk0 : k = 0
      · subst hk0; exact Prov.tt
      · simp only [hk0, ↓reduceIte] at h
        cases hn : S.nodes[k.natAbs - 1]? with
        | none =>
          exfalso
          simp only [PosKey, posKey, hn] at hk
          by_cases h0 : 0 ≤ k
          · have : ¬ k < 0 := by omega
            simp [hn, this] at h
          · simp [h0] at hk
        | some nd =>
          cases nd with
          | atom id g e nm => rw [hn] at h; exact Prov.lit hk0 hn h
          | conj cs nm =>
            have hpos := pos_of_posKey_conj hk hk0 hn
            have hnl : ¬ k < 0 := by omega
            rw [hn] at h
            simp only [hnl, ↓reduceIte, List.all_eq_true] at h
            exact Prov.conj hpos (by simp) hn (fun c hc => ih c (posKey_conj hS hn c hc) (h c hc))
          | disj cs nm =>
            have hpos := pos_of_posKey_disj hk hk0 hn
            have hnl : ¬ k < 0 := by omega
            rw [hn] at h
            simp only [hnl, ↓reduceIte, List.any_eq_true] at h
            obtain ⟨c, hc, hv⟩ := h
            exact Prov.disj hpos (by simp) hn hc (ih c (posKey_disj hS hn c hc) hv)

/-- Key lemma: a stage-`h` derivation of `c` either avoids `x`, or contains a derivation of `x` of stage `≤ h`. -/
theorem avoid_or_smaller {S : Store} {α : Nat → Bool} (x : Nat) {A : List Nat} {h : Nat} {c : Key}
    (hp : Prov S α A h c) :
    Prov S α (x :: A) h c ∨ ∃ h', h' ≤ h ∧ Prov S α A h' (some (x : Int)) := by
  induction hp with
  | tt => exact Or.inl Prov.tt
  | lit hk0 hn hv => exact Or.inl (Prov.lit hk0 hn hv)
  | @conj n k cs nm hpos hA hn hch ih =>
    by_cases hx : k.natAbs = x
    · have hkx : k = (x : Int) := by omega
      exact Or.inr ⟨n + 1, Nat.le_refl _, hkx ▸ Prov.conj hpos hA hn hch⟩
    · by_cases hex : ∃ d ∈ cs, ∃ h', h' ≤ n ∧ Prov S α A h' (some (x : Int))
      · obtain ⟨d, _, h', hle, hp'⟩ := hex
        exact Or.inr ⟨h', Nat.le_succ_of_le hle, hp'⟩
      · refine Or.inl (Prov.conj hpos ?_ hn ?_)
        · simp only [List.mem_cons, not_or]; exact ⟨hx, hA⟩
        · intro d hd
          rcases ih d hd with hl | hr
          · exact hl
          · exact absurd ⟨d, hd, hr⟩ hex
  | @disj n k cs nm d hpos hA hn hd hpd ih =>
    by_cases hx : k.natAbs = x
    · have hkx : k = (x : Int) := by omega
      exact Or.inr ⟨n + 1, Nat.le_refl _, hkx ▸ Prov.disj hpos hA hn hd hpd⟩
    · rcases ih with hl | ⟨h', hle, hp'⟩
      · refine Or.inl (Prov.disj hpos ?_ hn hd hl)
        simp only [List.mem_cons, not_or]; exact ⟨hx, hA⟩
      · exact Or.inr ⟨h', Nat.le_succ_of_le hle, hp'⟩

/-- Completeness of loop cutting: a least-fixpoint derivation never needs a node below itself. -/
theorem der_of_prov {S : Store} {α : Nat → Bool} :
    ∀ (h : Nat) (A : List Nat) (k : Key), Prov S α A h k → Der S α A k := by
  intro h
  induction h using Nat.strongRecOn with
  | _ h IH =>
    intro A k hp
    cases hp with
    | tt => exact Der.tt
    | lit hk0 hn hv => exact Der.lit hk0 hn hv
    | @conj n k cs nm hpos hA hn hch =>
      have hkx : k = ((k.natAbs : Nat) : Int) := by omega
      by_cases hex : ∃ d ∈ cs, ∃ h', h' ≤ n ∧ Prov S α A h' (some ((k.natAbs : Nat) : Int))
      · obtain ⟨d, _, h', hle, hp'⟩ := hex
        have := IH h' (Nat.lt_succ_of_le hle) A _ hp'
        rw [← hkx] at this; exact this
      · refine Der.conj hpos hA hn ?_
        intro d hd
        rcases avoid_or_smaller k.natAbs (hch d hd) with hl | hr
        · exact IH n (Nat.lt_succ_self n) _ d hl
        · exact absurd ⟨d, hd, hr⟩ hex
    | @disj n k cs nm d hpos hA hn hd hpd =>
      have hkx : k = ((k.natAbs : Nat) : Int) := by omega
      rcases avoid_or_smaller k.natAbs hpd with hl | ⟨h', hle, hp'⟩
      · exact Der.disj hpos hA hn hd (IH n (Nat.lt_succ_self n) _ d hl)
      · have := IH h' (Nat.lt_succ_of_le hle) A _ hp'
        rw [← hkx] at this; exact this

/-- Soundness: a `Der` derivation below the ancestors `A` is found by the Kleene iteration after more stages than there
    are nodes outside `A`. -/
theorem lfpEval_of_der {S : Store} {α : Nat → Bool} {A : List Nat} {k : Key} (hd : Der S α A k) :
    ∀ n, free S A < n → lfpEval S α n k = true := by
  induction hd with
  | tt =>
    intro n _
    cases n <;> rfl
  | @lit A k id g e nm hk0 hn hv =>
    intro n _
    cases n with
    | zero => rw [lfpEval_zero]; simp only [hk0, ↓reduceIte, hn]; exact hv
    | succ n => rw [lfpEval_succ]; simp only [hk0, ↓reduceIte, hn]; exact hv
  | @conj A k cs nm hpos hA hn _ ih =>
    intro n hf
    cases n with
    | zero => omega
    | succ n =>
      have hlen : k.natAbs - 1 < S.nodes.length := by
        rcases Nat.lt_or_ge (k.natAbs - 1) S.nodes.length with h | h
        · exact h
        · rw [List.getElem?_eq_none h] at hn; cases hn
      have hlt := free_cons_lt S A k.natAbs (by omega) hlen hA
      have hk0 : k ≠ 0 := by omega
      have hnl : ¬ k < 0 := by omega
      rw [lfpEval_succ]
      simp only [hk0, ↓reduceIte, hn, hnl, List.all_eq_true]
      exact fun c hc => ih c hc n (by omega)
  | @disj A k cs nm c hpos hA hn hc _ ih =>
    intro n hf
    cases n with
    | zero => omega
    | succ n =>
      have hlen : k.natAbs - 1 < S.nodes.length := by
        rcases Nat.lt_or_ge (k.natAbs - 1) S.nodes.length with h | h
        · exact h
        · rw [List.getElem?_eq_none h] at hn; cases hn
      have hlt := free_cons_lt S A k.natAbs (by omega) hlen hA
      have hk0 : k ≠ 0 := by omega
      have hnl : ¬ k < 0 := by omega
      rw [lfpEval_succ]
      simp only [hk0, ↓reduceIte, hn, hnl, List.any_eq_true]
      exact ⟨c, hc, ih n (by omega)⟩

end ProbLogProofs.Cycles
