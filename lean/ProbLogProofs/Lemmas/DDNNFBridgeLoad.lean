/-
`loadNnf` (model of `_load_nnf`) as a fold, and the representation invariant `Rep c ld` relating the lines of the
circuit to the nodes of the loaded store: `L` lines ↦ (shared) atom nodes through `idxAtom`, `A`/`O` lines ↦ freshly
appended conj/disj nodes whose children are the keys of the child lines. Core only.
-/
import ProbLogProofs.Lemmas.DDNNFBridgeStore
namespace ProbLogProofs.DDNNF
open ProbLogModel.DDNNF ProbLogModel.Formula ProbLogModel.Clark

/-! ### `loadNnf` as a fold -/

def loadInit : Store := { opts := { autoCompact := false } }

/-- the per-line step of `loadNnf` (verbatim) -/
def loadStep (cnf : CNF) (namesOrdered : List (Label × Name × Key)) (st : Loaded × List Int) (nd : NNode) :
    Loaded × List Int :=
  let (ld, seen) := st
  match nd with
  | .lit name =>
    let w := (lookup cnf.weights name.natAbs).getD .neutral
    let pc : PClass := match w with | .tt => .pNone | .ff => .pFalse | _ => .normal
    let (S1, k) := ld.store.addAtom (.user (name.natAbs : Int)) pc w
    let node : Key := if name < 0 then negKey k else k
    let S2 := if seen.contains name then S1 else
      (namesOf namesOrdered (some name)).foldl (fun S (l, n) => S.addName n node l) S1
    (⟨S2, ld.line2node ++ [node]⟩, name :: seen)
  | .and cs =>
    let (S1, i) := ld.store.addConjNode (cs.map (fun ch => ld.line2node.getD ch none)) none false
    (⟨S1, ld.line2node ++ [some (i : Int)]⟩, seen)
  | .or _ cs =>
    let (S1, i) := ld.store.addDisjNode (cs.map (fun ch => ld.line2node.getD ch none)) none false
    (⟨S1, ld.line2node ++ [some (i : Int)]⟩, seen)

/-- what `loadNnf` does after the last line (verbatim): names of absent literals, renamed AD constraints -/
def loadFinish (cnf : CNF) (namesOrdered : List (Label × Name × Key)) (st : Loaded × List Int) : Loaded :=
  let (ld, seen) := st
  let rest := namesOrdered.filter (fun e => match e.2.2 with
    | some k => !seen.contains k
    | none => true)
  let S := rest.foldl (fun S (l, n, k) => S.addName n (if k == some 0 then some 0 else none) l) ld.store
  let rename (x : Nat) : Nat := (lookup S.idxAtom (.user (x : Int))).getD x
  let ads := cnf.ads.map (fun c => { c with nodes := c.nodes.map rename, extra := c.extra.map rename })
  ⟨{ S with ads := ads }, ld.line2node⟩

/-- the explicit root node for a circuit whose last line is a literal (verbatim) -/
def loadRoot (c : Circuit) (ld0 : Loaded) : Loaded :=
  match c.getLast? with
  | some (.lit _) =>
    let (S1, _) := ld0.store.addConjNode [ld0.line2node.getLast?.getD none] none false
    ⟨S1, ld0.line2node⟩
  | _ => ld0

theorem loadNnf_eq (c : Circuit) (cnf : CNF) (ns : List (Label × Name × Key)) :
    loadNnf c cnf ns =
      loadFinish cnf ns (loadRoot c (c.foldl (loadStep cnf ns) (⟨loadInit, []⟩, [])).1,
        (c.foldl (loadStep cnf ns) (⟨loadInit, []⟩, [])).2) := rfl

/-! ### side condition: every literal line creates an atom node -/

/-- the CNF weight of the variable of `l` is not `None` (certainly true) / `False`: `add_atom` creates (or reuses)
an atom node instead of returning the constant key TRUE / FALSE -/
def litNormal (cnf : CNF) (l : Int) : Bool :=
  match (lookup cnf.weights l.natAbs).getD .neutral with
  | .tt => false
  | .ff => false
  | _ => true

def litsNormal (cnf : CNF) (c : Circuit) : Bool :=
  c.all (fun nd => match nd with
    | .lit l => litNormal cnf l
    | _ => true)

def isCompound : NNode → Bool
  | .lit _ => false
  | _ => true

/-! ### the representation invariant -/

structure Rep (c : Circuit) (ld : Loaded) : Prop where
  len : ld.line2node.length = c.length
  idx : ∀ x i, lookup ld.store.idxAtom x = some i →
    1 ≤ i ∧ ∃ a g e, (shapes ld.store)[i - 1]? = some (.atom a g e none)
  inj : ∀ x y i, lookup ld.store.idxAtom x = some i → lookup ld.store.idxAtom y = some i → x = y
  lit : ∀ (j : Nat) (l : Int), c[j]? = some (NNode.lit l) → ∃ i : Nat, lookup ld.store.idxAtom (.user (l.natAbs : Int)) = some i ∧
    ld.line2node[j]? = some (some (if l < 0 then -(i : Int) else (i : Int)))
  conj : ∀ (j : Nat) (cs : List Nat), c[j]? = some (NNode.and cs) → ∃ m : Nat, ld.line2node[j]? = some (some (m : Int)) ∧ 1 ≤ m ∧
    (shapes ld.store)[m - 1]? = some (.conj (cs.map (fun ch => (ld.line2node.take j).getD ch none)) none)
  disj : ∀ (j d : Nat) (cs : List Nat), c[j]? = some (NNode.or d cs) → ∃ m : Nat, ld.line2node[j]? = some (some (m : Int)) ∧ 1 ≤ m ∧
    (shapes ld.store)[m - 1]? = some (.disj (cs.map (fun ch => (ld.line2node.take j).getD ch none)) none)
  mono : ∀ (j j' : Nat) (nd nd' : NNode) (m m' : Nat), j' < j → c[j]? = some nd → c[j']? = some nd' →
    isCompound nd = true → isCompound nd' = true →
    ld.line2node[j]? = some (some (m : Int)) → ld.line2node[j']? = some (some (m' : Int)) → m' < m
  last : ∀ nd : NNode, c.getLast? = some nd → isCompound nd = true →
    ld.line2node.getLast? = some (some (ld.store.nodes.length : Int))

theorem Rep_nil : Rep [] ⟨loadInit, []⟩ where
  len := rfl
  idx := by intro x i h; simp [loadInit, lookup] at h
  inj := by intro x y i h; simp [loadInit, lookup] at h
  lit := by intro j l h; simp at h
  conj := by intro j cs h; simp at h
  disj := by intro j d cs h; simp at h
  mono := by intro j j' nd nd' m m' _ h; simp at h
  last := by intro nd h; simp at h

theorem snoc_getElem?_cases {α} (c : List α) (a x : α) (j : Nat) (h : (c ++ [a])[j]? = some x) :
    (j < c.length ∧ c[j]? = some x) ∨ (j = c.length ∧ x = a) := by
  by_cases hj : j < c.length
  · rw [List.getElem?_append_left hj] at h
    exact Or.inl ⟨hj, h⟩
  · have hlen : c.length ≤ j := by omega
    rw [List.getElem?_append_right hlen] at h
    by_cases hj' : j = c.length
    · subst hj'
      simp at h
      exact Or.inr ⟨rfl, h.symm⟩
    · have : j - c.length ≠ 0 := by omega
      cases hk : j - c.length with
      | zero => exact absurd hk this
      | succ n => rw [hk] at h; simp at h

theorem getElem?_some_of_prefix {α} (l r : List α) (k : Nat) (x : α) (h : l[k]? = some x) :
    (l ++ r)[k]? = some x := by
  have hk : k < l.length := by
    rcases Nat.lt_or_ge k l.length with hh | hh
    · exact hh
    · rw [List.getElem?_eq_none hh] at h; cases h
  rw [List.getElem?_append_left hk]; exact h

/-- one more line: the new store extends the old one (shapes appended, `idxAtom` lookups kept) and the new line is
represented by `key` -/
theorem Rep_snoc {c : Circuit} {ld : Loaded} (h : Rep c ld) (nd : NNode) (S' : Store) (key : Key)
    (hsh : ∃ extra, shapes S' = shapes ld.store ++ extra)
    (hold : ∀ x i, lookup ld.store.idxAtom x = some i → lookup S'.idxAtom x = some i)
    (hidx : ∀ x i, lookup S'.idxAtom x = some i →
      1 ≤ i ∧ ∃ a g e, (shapes S')[i - 1]? = some (.atom a g e none))
    (hinj : ∀ x y i, lookup S'.idxAtom x = some i → lookup S'.idxAtom y = some i → x = y)
    (hnew : match nd with
      | .lit l => ∃ i : Nat, lookup S'.idxAtom (.user (l.natAbs : Int)) = some i ∧
          key = some (if l < 0 then -(i : Int) else (i : Int))
      | .and cs => key = some (S'.nodes.length : Int) ∧ ld.store.nodes.length < S'.nodes.length ∧
          (shapes S')[S'.nodes.length - 1]? = some (.conj (cs.map (fun ch => ld.line2node.getD ch none)) none)
      | .or _ cs => key = some (S'.nodes.length : Int) ∧ ld.store.nodes.length < S'.nodes.length ∧
          (shapes S')[S'.nodes.length - 1]? = some (.disj (cs.map (fun ch => ld.line2node.getD ch none)) none)) :
    Rep (c ++ [nd]) ⟨S', ld.line2node ++ [key]⟩ := by
  obtain ⟨extra, hsh⟩ := hsh
  have hlen := h.len
  have shOld : ∀ (k : Nat) (x : Node), (shapes ld.store)[k]? = some x → (shapes S')[k]? = some x := by
    intro k x hx; rw [hsh]; exact getElem?_some_of_prefix _ _ _ _ hx
  have l2nOld : ∀ j : Nat, j < c.length → (ld.line2node ++ [key])[j]? = ld.line2node[j]? := by
    intro j hj; exact List.getElem?_append_left (by omega)
  have takeOld : ∀ j : Nat, j ≤ c.length → (ld.line2node ++ [key]).take j = ld.line2node.take j := by
    intro j hj; exact List.take_append_of_le_length (by omega)
  have l2nNew : (ld.line2node ++ [key])[c.length]? = some key := by
    rw [← hlen]; simp
  have boundOld : ∀ (j : Nat) (nd0 : NNode) (m : Nat), j < c.length → c[j]? = some nd0 → isCompound nd0 = true →
      ld.line2node[j]? = some (some (m : Int)) → m ≤ ld.store.nodes.length := by
    intro j nd0 m hj hc hcomp hm
    have key1 : ∀ (m0 : Nat) (x : Node), ld.line2node[j]? = some (some (m0 : Int)) → 1 ≤ m0 →
        (shapes ld.store)[m0 - 1]? = some x → m ≤ ld.store.nodes.length := by
      intro m0 x h1 h2 h3
      rw [hm] at h1
      have : m = m0 := by
        have : (m : Int) = (m0 : Int) := by simpa using h1
        omega
      subst this
      have : m - 1 < (shapes ld.store).length := by
        rcases Nat.lt_or_ge (m - 1) (shapes ld.store).length with hh | hh
        · exact hh
        · rw [List.getElem?_eq_none hh] at h3; cases h3
      rw [shapes_length] at this
      omega
    cases nd0 with
    | lit l => simp [isCompound] at hcomp
    | and cs => obtain ⟨m0, h1, h2, h3⟩ := h.conj j cs hc; exact key1 m0 _ h1 h2 h3
    | or d cs => obtain ⟨m0, h1, h2, h3⟩ := h.disj j d cs hc; exact key1 m0 _ h1 h2 h3
  refine ⟨by simp [hlen], hidx, hinj, ?_, ?_, ?_, ?_, ?_⟩
  · -- lit
    intro j l hj
    rcases snoc_getElem?_cases c nd _ j hj with ⟨hlt, hc⟩ | ⟨hje, hx⟩
    · obtain ⟨i, h1, h2⟩ := h.lit j l hc
      exact ⟨i, hold _ _ h1, by rw [l2nOld j hlt]; exact h2⟩
    · subst hje; subst hx
      obtain ⟨i, h1, h2⟩ := hnew
      exact ⟨i, h1, by rw [l2nNew, h2]⟩
  · -- conj
    intro j cs hj
    rcases snoc_getElem?_cases c nd _ j hj with ⟨hlt, hc⟩ | ⟨hje, hx⟩
    · obtain ⟨m, h1, h2, h3⟩ := h.conj j cs hc
      refine ⟨m, by rw [l2nOld j hlt]; exact h1, h2, ?_⟩
      show (shapes S')[m - 1]? = _
      rw [takeOld j (by omega)]
      exact shOld _ _ h3
    · subst hje; subst hx
      obtain ⟨h1, h2, h3⟩ := hnew
      refine ⟨S'.nodes.length, by rw [l2nNew, h1], by omega, ?_⟩
      show (shapes S')[S'.nodes.length - 1]? = _
      rw [takeOld c.length (Nat.le_refl _), ← hlen, List.take_length]
      exact h3
  · -- disj
    intro j d cs hj
    rcases snoc_getElem?_cases c nd _ j hj with ⟨hlt, hc⟩ | ⟨hje, hx⟩
    · obtain ⟨m, h1, h2, h3⟩ := h.disj j d cs hc
      refine ⟨m, by rw [l2nOld j hlt]; exact h1, h2, ?_⟩
      show (shapes S')[m - 1]? = _
      rw [takeOld j (by omega)]
      exact shOld _ _ h3
    · subst hje; subst hx
      obtain ⟨h1, h2, h3⟩ := hnew
      refine ⟨S'.nodes.length, by rw [l2nNew, h1], by omega, ?_⟩
      show (shapes S')[S'.nodes.length - 1]? = _
      rw [takeOld c.length (Nat.le_refl _), ← hlen, List.take_length]
      exact h3
  · -- mono
    intro j j' nd1 nd1' m m' hjj hj hj' hc1 hc1' hm hm'
    rcases snoc_getElem?_cases c nd _ j' hj' with ⟨hlt', hc'⟩ | ⟨hje', _⟩
    · rw [l2nOld j' hlt'] at hm'
      rcases snoc_getElem?_cases c nd _ j hj with ⟨hlt, hc⟩ | ⟨hje, hx⟩
      · rw [l2nOld j hlt] at hm
        exact h.mono j j' nd1 nd1' m m' hjj hc hc' hc1 hc1' hm hm'
      · subst hje; subst hx
        have hb := boundOld j' nd1' m' hlt' hc' hc1' hm'
        rw [l2nNew] at hm
        cases nd1 with
        | lit l => simp [isCompound] at hc1
        | and cs =>
          obtain ⟨h1, h2, _⟩ := hnew
          rw [h1] at hm
          have : (S'.nodes.length : Int) = (m : Int) := by simpa using hm
          omega
        | or d cs =>
          obtain ⟨h1, h2, _⟩ := hnew
          rw [h1] at hm
          have : (S'.nodes.length : Int) = (m : Int) := by simpa using hm
          omega
    · rcases snoc_getElem?_cases c nd _ j hj with ⟨hlt, _⟩ | ⟨hje, _⟩ <;> omega
  · -- last
    intro nd1 hl hc1
    simp only [List.getLast?_append, List.getLast?_singleton, Option.some_or, Option.some.injEq] at hl ⊢
    subst hl
    cases nd with
    | lit l => simp [isCompound] at hc1
    | and cs => exact hnew.1
    | or d cs => exact hnew.1

end ProbLogProofs.DDNNF
