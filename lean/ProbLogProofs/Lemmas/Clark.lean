import ProbLogModel.Clark
/-!
Helper lemmas for C09 (Clark half): local correctness of the clauses emitted for one node.
-/
namespace ProbLogProofs.Lemmas.Clark
open ProbLogModel.Formula ProbLogModel.Clark

theorem litVal_ofNat (v : Nat → Bool) (i : Nat) : litVal v (i : Int) = v i := by
  unfold litVal
  have : ¬ ((i : Int) < 0) := by omega
  simp [this]

theorem litVal_neg (v : Nat → Bool) (c : Int) (h : c ≠ 0) : litVal v (-c) = !(litVal v c) := by
  unfold litVal
  by_cases hc : c < 0
  · have h1 : ¬ (-c < 0) := by omega
    simp [hc, Int.natAbs_neg]; omega
  · have h1 : -c < 0 := by omega
    simp [hc, Int.natAbs_neg]; omega

/-- `Formula.keyVal` of a proper (non-constant) key is `Clark.litVal` of the literal. -/
theorem keyVal_some (v : Nat → Bool) (k : Int) (h : k ≠ 0) : keyVal v (some k) = litVal v k := by
  simp [keyVal, litVal, h]

/-- `childLits` succeeds exactly when no child is `None`; the literals are the children. -/
theorem childLits_ok (i : Nat) : ∀ (cs : List Key) (ls : List Int),
    childLits i cs = .ok ls → cs = ls.map some := by
  intro cs
  induction cs with
  | nil => intro ls h; simp [childLits, pure, Except.pure] at h; subst h; rfl
  | cons c cs ih =>
    intro ls h
    unfold childLits at h
    rw [List.mapM_cons] at h
    cases c with
    | none => simp [bind, Except.bind] at h
    | some k =>
      simp only [bind, Except.bind] at h
      split at h
      · cases h
      · rename_i r hr
        simp only [pure, Except.pure] at h
        cases h
        have := ih r hr
        rw [this]; rfl

theorem childLits_of_map (i : Nat) (ls : List Int) : childLits i (ls.map some) = .ok ls := by
  induction ls with
  | nil => rfl
  | cons a ls ih =>
    unfold childLits at ih ⊢
    rw [List.map_cons, List.mapM_cons, ih]; rfl

/-- conj clauses: `i ∨ ¬c₁ ∨ … ∨ ¬cₙ` and `¬i ∨ cⱼ` hold iff `v i = ⋀ cⱼ`. -/
theorem conj_clauses_iff (v : Nat → Bool) (i : Nat) (hi : 0 < i) (ls : List Int) (hz : ∀ c ∈ ls, c ≠ 0) :
    satCNF v (((i : Int) :: ls.map (fun x => -x)) :: ls.map (fun c => [-(i : Int), c])) = true ↔
      v i = ls.all (litVal v) := by
  have hli : litVal v (i : Int) = v i := litVal_ofNat v i
  have hlni : litVal v (-(i : Int)) = !(v i) := by rw [litVal_neg v i (by omega), hli]
  simp only [satCNF, List.all_cons, Bool.and_eq_true, List.all_map]
  constructor
  · rintro ⟨h1, h2⟩
    by_cases hv : v i = true
    · rw [hv]; symm
      rw [List.all_eq_true]
      intro c hc
      have := (List.all_eq_true.mp h2) c hc
      simp [satClause, hlni, hv] at this
      exact this
    · have hv' : v i = false := by simpa using hv
      rw [hv']; symm
      simp only [satClause, List.any_cons, hli, hv', Bool.false_or, List.any_map] at h1
      rw [List.any_eq_true] at h1
      obtain ⟨c, hc, hcl⟩ := h1
      simp only [Function.comp] at hcl
      rw [litVal_neg v c (hz c hc)] at hcl
      rw [List.all_eq_false]
      exact ⟨c, hc, by simpa using hcl⟩
  · intro h
    constructor
    · simp only [satClause, List.any_cons, hli, List.any_map]
      by_cases hv : v i = true
      · simp [hv]
      · have hv' : v i = false := by simpa using hv
        rw [hv'] at h
        have := h.symm
        rw [List.all_eq_false] at this
        obtain ⟨c, hc, hcl⟩ := this
        simp only [hv', Bool.false_or]
        rw [List.any_eq_true]
        exact ⟨c, hc, by simp only [Function.comp]; rw [litVal_neg v c (hz c hc)]; simpa using hcl⟩
    · rw [List.all_eq_true]
      intro c hc
      simp only [Function.comp, satClause, List.any_cons, hlni, List.any_nil, Bool.or_false]
      by_cases hv : v i = true
      · rw [hv] at h
        have := (List.all_eq_true.mp h.symm) c hc
        simp [hv, this]
      · have hv' : v i = false := by simpa using hv
        simp [hv']

/-- disj clauses: `¬i ∨ c₁ ∨ … ∨ cₙ` and `i ∨ ¬cⱼ` hold iff `v i = ⋁ cⱼ`. -/
theorem disj_clauses_iff (v : Nat → Bool) (i : Nat) (hi : 0 < i) (ls : List Int) (hz : ∀ c ∈ ls, c ≠ 0) :
    satCNF v ((-(i : Int) :: ls) :: ls.map (fun c => [(i : Int), -c])) = true ↔
      v i = ls.any (litVal v) := by
  have hli : litVal v (i : Int) = v i := litVal_ofNat v i
  have hlni : litVal v (-(i : Int)) = !(v i) := by rw [litVal_neg v i (by omega), hli]
  simp only [satCNF, List.all_cons, Bool.and_eq_true, List.all_map]
  constructor
  · rintro ⟨h1, h2⟩
    by_cases hv : v i = true
    · rw [hv]; symm
      simpa [satClause, hlni, hv] using h1
    · have hv' : v i = false := by simpa using hv
      rw [hv']; symm
      rw [List.any_eq_false]
      intro c hc
      have := (List.all_eq_true.mp h2) c hc
      simp only [Function.comp, satClause, List.any_cons, hli, hv', Bool.false_or, List.any_nil,
        Bool.or_false] at this
      rw [litVal_neg v c (hz c hc)] at this
      simpa using this
  · intro h
    constructor
    · simp only [satClause, List.any_cons, hlni]
      by_cases hv : v i = true
      · rw [hv] at h; simp [hv, ← h]
      · have hv' : v i = false := by simpa using hv
        simp [hv']
    · rw [List.all_eq_true]
      intro c hc
      simp only [Function.comp, satClause, List.any_cons, hli, List.any_nil, Bool.or_false]
      rw [litVal_neg v c (hz c hc)]
      by_cases hv : v i = true
      · simp [hv]
      · have hv' : v i = false := by simpa using hv
        rw [hv'] at h
        have := (List.any_eq_false.mp h.symm) c hc
        simp [hv', this]

/-- children of a compound node -/
def children : Node → List Key
  | .atom .. => []
  | .conj cs _ => cs
  | .disj cs _ => cs

/-- what Clark's completion demands of valuation `v` at node `i`. -/
def nodeOK (v : Nat → Bool) (i : Nat) : Node → Prop
  | .atom .. => True
  | .conj cs _ => v i = cs.all (keyVal v)
  | .disj cs _ => v i = cs.any (keyVal v)

theorem all_keyVal (v : Nat → Bool) (ls : List Int) (hz : ∀ c ∈ ls, c ≠ 0) :
    (ls.map some).all (keyVal v) = ls.all (litVal v) := by
  induction ls with
  | nil => rfl
  | cons a ls ih =>
    simp only [List.map_cons, List.all_cons]
    rw [ih (fun c hc => hz c (List.mem_cons_of_mem _ hc)), keyVal_some v a (hz a List.mem_cons_self)]

theorem any_keyVal (v : Nat → Bool) (ls : List Int) (hz : ∀ c ∈ ls, c ≠ 0) :
    (ls.map some).any (keyVal v) = ls.any (litVal v) := by
  induction ls with
  | nil => rfl
  | cons a ls ih =>
    simp only [List.map_cons, List.any_cons]
    rw [ih (fun c hc => hz c (List.mem_cons_of_mem _ hc)), keyVal_some v a (hz a List.mem_cons_self)]

/-- Local correctness: the clauses emitted for node `i` hold iff `v i` is the AND / OR of its children
    (children must not be the constant TRUE key `0`; `None` children make `nodeClauses` fail). -/
theorem nodeClauses_iff (v : Nat → Bool) (i : Nat) (hi : 0 < i) (nd : Node) (cls : List Clause)
    (hz : some 0 ∉ children nd) (h : nodeClauses i nd = .ok cls) :
    satCNF v cls = true ↔ nodeOK v i nd := by
  cases nd with
  | atom a g e n =>
    simp only [nodeClauses] at h
    cases h; simp [nodeOK, satCNF]
  | conj cs nm =>
    simp only [nodeClauses, bind, Except.bind] at h
    split at h
    · cases h
    · rename_i ls hls
      cases h
      have hcs := childLits_ok i cs ls hls
      subst hcs
      have hz' : ∀ c ∈ ls, c ≠ 0 := by
        intro c hc h0; subst h0
        exact hz (by simpa [children] using hc)
      rw [conj_clauses_iff v i hi ls hz']
      simp only [nodeOK]
      rw [all_keyVal v ls hz']
  | disj cs nm =>
    simp only [nodeClauses, bind, Except.bind] at h
    split at h
    · cases h
    · rename_i ls hls
      cases h
      have hcs := childLits_ok i cs ls hls
      subst hcs
      have hz' : ∀ c ∈ ls, c ≠ 0 := by
        intro c hc h0; subst h0
        exact hz (by simpa [children] using hc)
      rw [disj_clauses_iff v i hi ls hz']
      simp only [nodeOK]
      rw [any_keyVal v ls hz']

end ProbLogProofs.Lemmas.Clark
