import ProbLogProofs.Lemmas.Clark
/-!
Helper lemmas for C09 (Clark half): the node clauses of the whole store, bottom-up evaluation `dagVals`.
-/
namespace ProbLogProofs.Lemmas.Clark
open ProbLogModel.Formula ProbLogModel.Clark

/-- the `nc.flatten` part of `clark`: clauses of all nodes, in node order -/
def nodeClausesAll (S : Store) : Except CErr (List Clause) := do
  let nc ← (enumFrom 1 S.nodes).mapM (fun (i, nd) => nodeClauses i nd)
  .ok nc.flatten

/-- the `ac.flatten` part of `clark`: clauses of all AD constraints, in constraint order -/
def adClausesAll (S : Store) : Except CErr (List Clause) := do
  let ac ← S.ads.mapM adClauses
  .ok ac.flatten

theorem clark_ok (S : Store) (cnf : CNF) (h : clark S = .ok cnf) :
    ∃ nc ac, nodeClausesAll S = .ok nc ∧ adClausesAll S = .ok ac ∧
      cnf = { atomcount := S.nodes.length, clauses := nc ++ ac, weights := S.weights,
              names := S.names, ads := S.ads } := by
  unfold clark at h
  simp only [bind, Except.bind] at h
  split at h
  · cases h
  · rename_i nc hnc
    split at h
    · cases h
    · rename_i ac hac
      cases h
      refine ⟨nc.flatten, ac.flatten, ?_, ?_, rfl⟩
      · simp only [nodeClausesAll, bind, Except.bind, hnc]
      · simp only [adClausesAll, bind, Except.bind, hac]

theorem satCNF_append (v : Nat → Bool) (a b : List Clause) :
    satCNF v (a ++ b) = (satCNF v a && satCNF v b) := by
  simp [satCNF, List.all_append]

/-- generalised (offset `n`) characterisation of the flattened node clauses -/
theorem mapM_nodeClauses_sat (v : Nat → Bool) : ∀ (ns : List Node) (n : Nat) (r : List (List Clause)),
    (enumFrom n ns).mapM (fun (p : Nat × Node) => nodeClauses p.1 p.2) = .ok r →
    (satCNF v r.flatten = true ↔
      ∀ j nd, ns[j]? = some nd → ∃ cls, nodeClauses (n + j) nd = .ok cls ∧ satCNF v cls = true) := by
  intro ns
  induction ns with
  | nil =>
    intro n r h
    simp only [enumFrom, List.mapM_nil, pure, Except.pure] at h
    cases h
    simp [satCNF]
  | cons nd ns ih =>
    intro n r h
    simp only [enumFrom, List.mapM_cons, bind, Except.bind] at h
    split at h
    · cases h
    · rename_i cls hcls
      split at h
      · cases h
      · rename_i r' hr'
        simp only [pure, Except.pure] at h
        cases h
        rw [List.flatten_cons, satCNF_append, Bool.and_eq_true, ih (n + 1) r' hr']
        constructor
        · rintro ⟨h1, h2⟩ j nd' hj
          cases j with
          | zero =>
            simp only [List.getElem?_cons_zero, Option.some.injEq] at hj
            subst hj
            exact ⟨cls, hcls, h1⟩
          | succ j =>
            simp only [List.getElem?_cons_succ] at hj
            have := h2 j nd' hj
            rwa [show n + 1 + j = n + (j + 1) by omega] at this
        · intro H
          constructor
          · obtain ⟨cls', hc', hs⟩ := H 0 nd (by simp)
            rw [Nat.add_zero, hcls] at hc'
            cases hc'; exact hs
          · intro j nd' hj
            have := H (j + 1) nd' (by simpa using hj)
            rwa [show n + (j + 1) = n + 1 + j by omega] at this

theorem nodeClausesAll_sat (v : Nat → Bool) (S : Store) (nc : List Clause) (h : nodeClausesAll S = .ok nc) :
    satCNF v nc = true ↔
      ∀ j nd, S.nodes[j]? = some nd → ∃ cls, nodeClauses (j + 1) nd = .ok cls ∧ satCNF v cls = true := by
  unfold nodeClausesAll at h
  simp only [bind, Except.bind] at h
  split at h
  · cases h
  · rename_i r hr
    cases h
    rw [mapM_nodeClauses_sat v S.nodes 1 r hr]
    constructor
    · intro H j nd hj
      have := H j nd hj
      rwa [Nat.add_comm] at this
    · intro H j nd hj
      have := H j nd hj
      rwa [Nat.add_comm] at this

/-- `acyclic` pointwise -/
theorem all_enumFrom {α} (p : Nat × α → Bool) : ∀ (l : List α) (n : Nat),
    (enumFrom n l).all p = true ↔ ∀ j x, l[j]? = some x → p (n + j, x) = true := by
  intro l
  induction l with
  | nil => intro n; simp [enumFrom]
  | cons a l ih =>
    intro n
    simp only [enumFrom, List.all_cons, Bool.and_eq_true, ih (n + 1)]
    constructor
    · rintro ⟨h1, h2⟩ j x hj
      cases j with
      | zero => simp only [List.getElem?_cons_zero, Option.some.injEq] at hj; subst hj; exact h1
      | succ j =>
        simp only [List.getElem?_cons_succ] at hj
        have := h2 j x hj
        rwa [show n + 1 + j = n + (j + 1) by omega] at this
    · intro H
      refine ⟨H 0 a (by simp), ?_⟩
      intro j x hj
      have := H (j + 1) x (by simpa using hj)
      rwa [show n + (j + 1) = n + 1 + j by omega] at this

theorem acyclic_iff (S : Store) :
    acyclic S = true ↔ ∀ j nd, S.nodes[j]? = some nd → acyclicNode (j + 1) nd = true := by
  unfold acyclic
  rw [all_enumFrom]
  constructor
  · intro H j nd hj; have := H j nd hj; rwa [Nat.add_comm] at this
  · intro H j nd hj; have := H j nd hj; rwa [Nat.add_comm]

/-- children of an acyclic node are proper literals pointing below the node -/
theorem acyclicNode_children (i : Nat) (nd : Node) (h : acyclicNode i nd = true) :
    ∀ c ∈ children nd, ∃ k : Int, c = some k ∧ k ≠ 0 ∧ k.natAbs < i := by
  intro c hc
  cases nd with
  | atom => simp [children] at hc
  | conj cs nm =>
    simp only [acyclicNode, List.all_eq_true] at h
    have := h c hc
    cases c with
    | none => simp at this
    | some k => exact ⟨k, rfl, by simpa using this⟩
  | disj cs nm =>
    simp only [acyclicNode, List.all_eq_true] at h
    have := h c hc
    cases c with
    | none => simp at this
    | some k => exact ⟨k, rfl, by simpa using this⟩

/-- an acyclic node's clauses exist -/
theorem nodeClauses_ok_of_acyclic (i : Nat) (nd : Node) (h : acyclicNode i nd = true) :
    ∃ cls, nodeClauses i nd = .ok cls := by
  have hch := acyclicNode_children i nd h
  have key : ∀ cs : List Key, (∀ c ∈ cs, ∃ k : Int, c = some k ∧ k ≠ 0 ∧ k.natAbs < i) →
      ∃ ls, childLits i cs = .ok ls := by
    intro cs
    induction cs with
    | nil => intro _; exact ⟨[], rfl⟩
    | cons c cs ih =>
      intro H
      obtain ⟨k, rfl, _, _⟩ := H c List.mem_cons_self
      obtain ⟨ls, hls⟩ := ih (fun c hc => H c (List.mem_cons_of_mem _ hc))
      refine ⟨k :: ls, ?_⟩
      unfold childLits at hls ⊢
      rw [List.mapM_cons, hls]; rfl
  cases nd with
  | atom => exact ⟨[], rfl⟩
  | conj cs nm =>
    obtain ⟨ls, hls⟩ := key cs hch
    simp only [nodeClauses, bind, Except.bind, hls]
    exact ⟨_, rfl⟩
  | disj cs nm =>
    obtain ⟨ls, hls⟩ := key cs hch
    simp only [nodeClauses, bind, Except.bind, hls]
    exact ⟨_, rfl⟩

/-- For an acyclic store, the node clauses say exactly `Formula.Consistent`. -/
theorem nodeClausesAll_iff_nodeOK (v : Nat → Bool) (S : Store) (hac : acyclic S = true) (nc : List Clause)
    (h : nodeClausesAll S = .ok nc) :
    satCNF v nc = true ↔ ∀ (j : Nat) nd, S.nodes[j]? = some nd → nodeOK v (j + 1) nd := by
  rw [nodeClausesAll_sat v S nc h]
  have hac' := (acyclic_iff S).mp hac
  have hz : ∀ (j : Nat) nd, S.nodes[j]? = some nd → some 0 ∉ children nd := by
    intro j nd hj h0
    obtain ⟨k, hk, hk0, _⟩ := acyclicNode_children _ nd (hac' j nd hj) _ h0
    cases hk; exact hk0 rfl
  constructor
  · intro H j nd hj
    obtain ⟨cls, hc, hs⟩ := H j nd hj
    exact (nodeClauses_iff v (j + 1) (by omega) nd cls (hz j nd hj) hc).mp hs
  · intro H j nd hj
    obtain ⟨cls, hc⟩ := nodeClauses_ok_of_acyclic (j + 1) nd (hac' j nd hj)
    exact ⟨cls, hc, (nodeClauses_iff v (j + 1) (by omega) nd cls (hz j nd hj) hc).mpr (H j nd hj)⟩

/-- the node part of the completion of an acyclic store never fails -/
theorem mapM_nodeClauses_ok : ∀ (ns : List Node) (n : Nat),
    (∀ (j : Nat) nd, ns[j]? = some nd → acyclicNode (n + j) nd = true) →
    ∃ r, (enumFrom n ns).mapM (fun (p : Nat × Node) => nodeClauses p.1 p.2) = .ok r := by
  intro ns
  induction ns with
  | nil => intro n _; exact ⟨[], rfl⟩
  | cons nd ns ih =>
    intro n H
    obtain ⟨cls, hcls⟩ := nodeClauses_ok_of_acyclic n nd (by simpa using H 0 nd (by simp))
    obtain ⟨r, hr⟩ := ih (n + 1) (by
      intro j nd' hj
      have := H (j + 1) nd' (by simpa using hj)
      rwa [show n + (j + 1) = n + 1 + j by omega] at this)
    refine ⟨cls :: r, ?_⟩
    simp only [enumFrom, List.mapM_cons, bind, Except.bind, hcls, hr]
    rfl

theorem nodeClausesAll_ok_of_acyclic (S : Store) (hac : acyclic S = true) :
    ∃ nc, nodeClausesAll S = .ok nc := by
  obtain ⟨r, hr⟩ := mapM_nodeClauses_ok S.nodes 1 (by
    intro j nd hj
    have := (acyclic_iff S).mp hac j nd hj
    rwa [Nat.add_comm] at this)
  exact ⟨r.flatten, by simp only [nodeClausesAll, bind, Except.bind, hr]⟩

/-- the AD part of the CNF holds iff every constraint's clauses hold -/
theorem mapM_adClauses_sat (v : Nat → Bool) : ∀ (ads : List ADC) (r : List (List Clause)),
    ads.mapM adClauses = .ok r →
    (satCNF v r.flatten = true ↔ ∀ c ∈ ads, ∃ cls, adClauses c = .ok cls ∧ satCNF v cls = true) := by
  intro ads
  induction ads with
  | nil =>
    intro r h
    simp only [List.mapM_nil, pure, Except.pure] at h
    cases h; simp [satCNF]
  | cons c ads ih =>
    intro r h
    simp only [List.mapM_cons, bind, Except.bind] at h
    split at h
    · cases h
    · rename_i cls hcls
      split at h
      · cases h
      · rename_i r' hr'
        simp only [pure, Except.pure] at h
        cases h
        rw [List.flatten_cons, satCNF_append, Bool.and_eq_true, ih r' hr']
        constructor
        · rintro ⟨h1, h2⟩ c' hc'
          rcases List.mem_cons.mp hc' with rfl | hc'
          · exact ⟨cls, hcls, h1⟩
          · exact h2 c' hc'
        · intro H
          refine ⟨?_, fun c' hc' => H c' (List.mem_cons_of_mem _ hc')⟩
          obtain ⟨cls', hc', hs⟩ := H c List.mem_cons_self
          rw [hcls] at hc'; cases hc'; exact hs

theorem adClausesAll_sat (v : Nat → Bool) (S : Store) (ac : List Clause) (h : adClausesAll S = .ok ac) :
    satCNF v ac = true ↔ ∀ c ∈ S.ads, ∃ cls, adClauses c = .ok cls ∧ satCNF v cls = true := by
  unfold adClausesAll at h
  simp only [bind, Except.bind] at h
  split at h
  · cases h
  · rename_i r hr
    cases h
    exact mapM_adClauses_sat v S.ads r hr

end ProbLogProofs.Lemmas.Clark
