import ProbLogModel.Lexer
import ProbLogModel.Printer
/-!
# C17 — witnesses on which the printer/parser pair does not round-trip (model level)

Every witness `w` is the term the parser model builds from a source text (`parseString src = ok [w]`, so it is "built
from supported syntax"); `reprTop w` is computed with the equation lemmas of the printer model, and parsing that text
again gives a different term or a parse error. The harness replays the same source texts on the real code.
-/
namespace ProbLogProofs.C17
open ProbLogModel.Parser ProbLogModel.Syntax ProbLogModel.Lexer ProbLogModel.Printer

/-- evaluate the printer model on a closed term -/
macro "print_simp" : tactic => `(tactic|
  simp [reprTop, reprIn, argList, argRest, Tm.app, Tm.atom, term2str, joinTop, isOr, isAndOr, isNil, noParenL, noParenR,
        opPrio, opText, stripQuotes, alphaOp, orTail, andTail, andElem, listTail, Spec.isBin, constStr])

/-- The property on the model: the text printed for `t` parses to exactly `t`. -/
def RoundTrips (t : Tm) : Prop := parseString (reprTop t ++ ".") = .ok [t]

private abbrev a := Tm.atom "a"
private abbrev b := Tm.atom "b"
private abbrev c := Tm.atom "c"
private abbrev d := Tm.atom "d"

/-- `q(X) :- X = (a;b), true.` -/
def wOr : Tm := .clause (Tm.app "q" [.var "X"]) (.and (.term "'='" [.var "X", .or a b] (some (700, .xfx)) none) (Tm.atom "true"))
theorem wOr_src : parseString "q(X) :- X = (a;b), true." = .ok [wOr] := rfl
theorem wOr_print : reprTop wOr = "q(X) :- X=a; b, true" := by unfold wOr; print_simp
theorem wOr_reparse : parseString ("q(X) :- X=a; b, true" ++ ".") =
    .ok [.clause (Tm.app "q" [.var "X"]) (.or (.term "'='" [.var "X", a] (some (700, .xfx)) none) (.and b (Tm.atom "true")))] := rfl

/-- `x(- (a+b)).` -/
def wPrefix : Tm := Tm.app "x" [.term "'-'" [.term "'+'" [a, b] (some (500, .yfx)) none] (some (200, .fy)) none]
theorem wPrefix_src : parseString "x(- (a+b))." = .ok [wPrefix] := rfl
theorem wPrefix_print : reprTop wPrefix = "x(-a+b)" := by unfold wPrefix; print_simp
theorem wPrefix_reparse : parseString ("x(-a+b)" ++ ".") =
    .ok [Tm.app "x" [.term "'+'" [.term "'-'" [a] (some (200, .fy)) none, b] (some (500, .yfx)) none]] := rfl

/-- `a :- (b, c), d.` -/
def wLeftAnd : Tm := .clause a (.and (.and b c) d)
theorem wLeftAnd_src : parseString "a :- (b, c), d." = .ok [wLeftAnd] := rfl
theorem wLeftAnd_print : reprTop wLeftAnd = "a :- b, c, d" := by unfold wLeftAnd; print_simp
theorem wLeftAnd_reparse : parseString ("a :- b, c, d" ++ ".") = .ok [.clause a (.and b (.and c d))] := rfl

/-- `p(a:(-b)).` — printed `p(a:-b)`: the tokenizer reads `:-`. -/
def wGlue : Tm := Tm.app "p" [.term "':'" [a, .term "'-'" [b] (some (200, .fy)) none] (some (600, .xfy)) none]
theorem wGlue_src : parseString "p(a:(-b))." = .ok [wGlue] := rfl
theorem wGlue_print : reprTop wGlue = "p(a:-b)" := by unfold wGlue; print_simp
theorem wGlue_reparse : parseString ("p(a:-b)" ++ ".") = .error (.parse "Ambiguous token role") := rfl

/-- `p(2.0**(-1.5)).` — printed `p(2.0**-1.5)`: a negative number has no operator priority for the printer. -/
def wNeg : Tm := Tm.app "p" [.term "'**'" [.const (.flt "2.0"), .const (.flt "-1.5")] (some (200, .xfx)) none]
theorem wNeg_src : parseString "p(2.0**(-1.5))." = .ok [wNeg] := rfl
theorem wNeg_print : reprTop wNeg = "p(2.0**-1.5)" := by unfold wNeg; print_simp
theorem wNeg_reparse : parseString ("p(2.0**-1.5)" ++ ".") = .error (.parse "Operator priority clash") := rfl

/-- `p((a^b)*c).` — printed `p(a^b*c)`, read as `a^(b*c)`. -/
def wMixed : Tm := Tm.app "p" [.term "'*'" [.term "'^'" [a, b] (some (400, .xfy)) none, c] (some (400, .yfx)) none]
theorem wMixed_src : parseString "p((a^b)*c)." = .ok [wMixed] := rfl
theorem wMixed_print : reprTop wMixed = "p(a^b*c)" := by unfold wMixed; print_simp
theorem wMixed_reparse : parseString ("p(a^b*c)" ++ ".") =
    .ok [Tm.app "p" [.term "'^'" [a, .term "'*'" [b, c] (some (400, .yfx)) none] (some (400, .xfy)) none]] := rfl

/-- `p((a->b)).` — printed `p(a->b)`. -/
def wHigh : Tm := Tm.app "p" [.term "'->'" [a, b] (some (1050, .xfy)) none]
theorem wHigh_src : parseString "p((a->b))." = .ok [wHigh] := rfl
theorem wHigh_print : reprTop wHigh = "p(a->b)" := by unfold wHigh; print_simp
theorem wHigh_reparse : parseString ("p(a->b)" ++ ".") = .error (.parse "Ambiguous token role") := rfl

/-- `a :- b, (c :- d).` -/
def wClause : Tm := .clause a (.and b (.clause c d))
theorem wClause_src : parseString "a :- b, (c :- d)." = .ok [wClause] := rfl
theorem wClause_print : reprTop wClause = "a :- b, c :- d" := by unfold wClause; print_simp
theorem wClause_reparse : parseString ("a :- b, c :- d" ++ ".") = .error (.parse "Operator priority clash") := rfl

/-- `p :- findall(X, not q(X), L).` — a nested `Not` is printed `not(q(X))`, which is the compound term `not/1`. -/
def wNot : Tm := .clause (Tm.atom "p") (Tm.app "findall" [.var "X", .not "not" (Tm.app "q" [.var "X"]), .var "L"])
theorem wNot_src : parseString "p :- findall(X, not q(X), L)." = .ok [wNot] := rfl
theorem wNot_print : reprTop wNot = "p :- findall(X,not(q(X)),L)" := by unfold wNot; print_simp
theorem wNot_reparse : parseString ("p :- findall(X,not(q(X)),L)" ++ ".") =
    .ok [.clause (Tm.atom "p") (Tm.app "findall" [.var "X", Tm.app "not" [Tm.app "q" [.var "X"]], .var "L"])] := rfl

end ProbLogProofs.C17
