import ProbLogProofs.Lemmas.OrderBridge
/-!
Lemmas for C15: order laws of `stdCompare`; `sortModel` sorts.
-/
set_option linter.unusedSimpArgs false
set_option linter.unusedVariables false
namespace ProbLogProofs.OrderLemmas
open ProbLogModel ProbLogModel.Order Term

/-- `a` is not after `b` in the standard order. -/
def stdLe (a b : Term) : Prop := stdCompare a b ≠ .gt

theorem std_refl (a : Term) : stdCompare a a = .eq := stdCore_refl _
theorem std_eq_iff (a b : Term) : stdCompare a b = .eq ↔ unq a = unq b :=
  ⟨stdCore_eq _ _, fun h => by unfold stdCompare; rw [h]; exact stdCore_refl _⟩
theorem std_swap (a b : Term) : stdCompare b a = (stdCompare a b).swap := stdCore_swap _ _
theorem std_trans_lt {a b c : Term} : stdCompare a b = .lt → stdCompare b c = .lt → stdCompare a c = .lt :=
  stdCore_trans _ _ _

theorem std_lt_of_lt_of_le {a b c : Term} (h1 : stdCompare a b = .lt) (h2 : stdLe b c) : stdCompare a c = .lt := by
  unfold stdLe at h2
  cases h : stdCompare b c
  · exact std_trans_lt h1 h
  · have := (std_eq_iff b c).mp h
    unfold stdCompare at *; rw [← this]; exact h1
  · exact absurd h h2

theorem std_lt_of_le_of_lt {a b c : Term} (h1 : stdLe a b) (h2 : stdCompare b c = .lt) : stdCompare a c = .lt := by
  unfold stdLe at h1
  cases h : stdCompare a b
  · exact std_trans_lt h h2
  · have := (std_eq_iff a b).mp h
    unfold stdCompare at *; rw [this]; exact h2
  · exact absurd h h1

theorem stdLe_trans {a b c : Term} (h1 : stdLe a b) (h2 : stdLe b c) : stdLe a c := by
  cases h : stdCompare a b
  · have := std_lt_of_lt_of_le h h2; unfold stdLe; rw [this]; simp
  · have e := (std_eq_iff a b).mp h
    unfold stdLe stdCompare at *; rw [e]; exact h2
  · exact absurd h h1

theorem stdLe_total (a b : Term) : stdLe a b ∨ stdLe b a := by
  unfold stdLe; rw [std_swap a b]; cases stdCompare a b <;> simp

theorem stdLe_of_not_lt {a b : Term} (h : stdCompare a b ≠ .lt) : stdLe b a := by
  unfold stdLe; rw [std_swap a b]; cases h' : stdCompare a b <;> simp_all

theorem stdLe_of_lt {a b : Term} (h : stdCompare a b = .lt) : stdLe a b := by
  unfold stdLe; rw [h]; simp

/-- The patched `struct_cmp` is the standard order on plain terms. -/
theorem structCmp_eq_std (a b : Term) (ha : plain a = true) (hb : plain b = true) : structCmp a b = stdCompare a b :=
  structCmp_eq_stdCore a b ha hb

/-! ## dedup -/

theorem mem_dedup (l : List Term) (x : Term) : x ∈ dedup l ↔ x ∈ l := by
  induction l with
  | nil => simp [dedup]
  | cons k ks ih =>
    simp only [dedup, List.mem_cons, List.mem_filter, ih]
    by_cases h : x = k <;> simp [h]

theorem dedup_nodup (l : List Term) : (dedup l).Nodup := by
  induction l with
  | nil => simp [dedup]
  | cons k ks ih =>
    simp only [dedup, List.nodup_cons]
    exact ⟨by simp, ih.filter _⟩

/-! ## insertion sort -/

theorem insertSorted_perm (x : Term) (l : List Term) : (insertSorted x l).Perm (x :: l) := by
  induction l with
  | nil => simp [insertSorted]
  | cons y ys ih =>
    unfold insertSorted
    split
    · exact List.Perm.refl _
    · exact ((List.Perm.cons y ih).trans (List.Perm.swap x y ys))

theorem insertSorted_sorted (x : Term) (l : List Term) (hs : l.Pairwise stdLe)
    (hc : ∀ y ∈ l, structCmp x y = stdCompare x y) : (insertSorted x l).Pairwise stdLe := by
  induction l with
  | nil => simp [insertSorted]
  | cons y ys ih =>
    unfold insertSorted
    rw [List.pairwise_cons] at hs
    split
    · rename_i hlt
      rw [hc y (by simp)] at hlt
      refine List.Pairwise.cons ?_ (List.Pairwise.cons hs.1 hs.2)
      intro z hz
      rcases List.mem_cons.mp hz with rfl | hz
      · exact stdLe_of_lt hlt
      · exact stdLe_of_lt (std_lt_of_lt_of_le hlt (hs.1 z hz))
    · rename_i hlt
      rw [hc y (by simp)] at hlt
      refine List.Pairwise.cons ?_ (ih hs.2 (fun z hz => hc z (by simp [hz])))
      intro z hz
      rcases List.mem_cons.mp ((insertSorted_perm x ys).mem_iff.mp hz) with rfl | hz
      · exact stdLe_of_not_lt hlt
      · exact hs.1 z hz

theorem foldl_insert_spec (l acc : List Term) (hs : acc.Pairwise stdLe)
    (hc : ∀ x ∈ acc ++ l, ∀ y ∈ acc ++ l, structCmp x y = stdCompare x y) :
    (l.foldl (fun acc x => insertSorted x acc) acc).Pairwise stdLe ∧
      (l.foldl (fun acc x => insertSorted x acc) acc).Perm (acc ++ l) := by
  induction l generalizing acc with
  | nil => simpa using hs
  | cons x xs ih =>
    simp only [List.foldl_cons]
    have p := insertSorted_perm x acc
    have hs' := insertSorted_sorted x acc hs (fun y hy => hc x (by simp) y (by simp [hy]))
    have hc' : ∀ a ∈ insertSorted x acc ++ xs, ∀ b ∈ insertSorted x acc ++ xs, structCmp a b = stdCompare a b := by
      intro a ha b hb
      have conv : ∀ t, t ∈ insertSorted x acc ++ xs → t ∈ acc ++ x :: xs := by
        intro t ht
        rcases List.mem_append.mp ht with h | h
        · rcases List.mem_cons.mp (p.mem_iff.mp h) with rfl | h <;> simp [*]
        · simp [h]
      exact hc a (conv a ha) b (conv b hb)
    obtain ⟨s, q⟩ := ih (insertSorted x acc) hs' hc'
    refine ⟨s, q.trans ?_⟩
    have : (insertSorted x acc ++ xs).Perm ((x :: acc) ++ xs) := List.Perm.append_right xs p
    refine this.trans ?_
    simpa using (List.perm_middle (l₁ := acc) (l₂ := xs) (a := x)).symm

theorem sortList_spec (l : List Term) (hc : ∀ x ∈ l, ∀ y ∈ l, structCmp x y = stdCompare x y) :
    (sortList l).Pairwise stdLe ∧ (sortList l).Perm l := by
  have := foldl_insert_spec l [] (by simp) (by simpa using hc)
  simpa [sortList] using this

theorem sortList_perm (l : List Term) : (sortList l).Perm l := by
  unfold sortList
  suffices h : ∀ acc : List Term, (l.foldl (fun acc x => insertSorted x acc) acc).Perm (acc ++ l) by simpa using h []
  induction l with
  | nil => intro acc; simp
  | cons x xs ih =>
    intro acc
    simp only [List.foldl_cons]
    refine (ih _).trans ?_
    refine (List.Perm.append_right xs (insertSorted_perm x acc)).trans ?_
    simpa using (List.perm_middle (l₁ := acc) (l₂ := xs) (a := x)).symm

end ProbLogProofs.OrderLemmas
