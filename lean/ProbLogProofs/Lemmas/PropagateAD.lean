import ProbLogProofs.Lemmas.PropagateKeys
/-!
# C06 helper lemmas (5): the evidence branch of `ConstraintAD.add` is sound under the AD's mutual exclusion
-/
namespace ProbLogModel.Propagate
open ProbLogModel.Formula

def ADResOK (ρ : Nat → Bool) (tbl : Cur) (node : Nat) : ADRes → Prop
  | .retFalse => ρ node = false
  | .retNode t => t = tbl ∧ ρ node = false
  | .continue_ t => CurOK ρ t

theorem keyVal_nat (ρ : Nat → Bool) (m : Nat) (h : m ≠ 0) : keyVal ρ (some (m : Int)) = ρ m := by
  unfold keyVal
  have h0 : ¬ ((m : Int) = 0) := by omega
  have h1 : ¬ ((m : Int) < 0) := by omega
  simp only [h0, h1, if_false, Int.natAbs_natCast]

theorem CurOK.setFalse {ρ : Nat → Bool} {tbl : Cur} (h : CurOK ρ tbl) (m : Nat) (hm : m ≠ 0) (hρ : ρ m = false) :
    CurOK ρ (setEvValue tbl (m : Int) FALSE) := by
  have hne : -(m : Int) ≠ 0 := by omega
  have hlit : litTrue ρ (-(m : Int)) := by
    rw [litTrue_iff ρ _ hne]
    simp only [Int.natAbs_neg, Int.natAbs_natCast, hρ]
    have : ¬ (-(m : Int) > 0) := by omega
    exact (decide_eq_false this).symm
  have := h.set (-(m : Int)) hne hlit
  have hng : ¬ (-(m : Int) > 0) := by omega
  simp only [Int.natAbs_neg, Int.natAbs_natCast, hng, if_false] at this
  unfold setEvValue
  have hlt : ¬ ((m : Int) < 0) := by omega
  simp only [hlt, if_false, Int.natAbs_natCast]
  exact this

theorem adAddEv_sound {ρ : Nat → Bool} {tbl : Cur} (h : CurOK ρ tbl) (members : List Nat) (node : Nat)
    (hm0 : ∀ m, m ∈ members → m ≠ 0) (hn0 : node ≠ 0)
    (hex : ∀ m, m ∈ members → ¬ (ρ m = true ∧ ρ node = true)) :
    ADResOK ρ tbl node (adAddEv tbl members node) := by
  unfold adAddEv
  split
  · rename_i hany
    obtain ⟨m, hm, hv⟩ := List.any_eq_true.1 hany
    have hv' : evValue (some tbl) (some (m : Int)) = TRUE := by simpa using hv
    have := evValue_sound h (some (m : Int))
    rw [hv', keyVal_nat ρ m (hm0 m hm)] at this
    show ρ node = false
    cases hn : ρ node with
    | false => rfl
    | true => exact absurd ⟨this.symm, hn⟩ (hex m hm)
  · split
    · rename_i hv
      have hv' : evValue (some tbl) (some (node : Int)) = FALSE := by simpa using hv
      have := evValue_sound h (some (node : Int))
      rw [hv', keyVal_nat ρ node hn0] at this
      exact ⟨rfl, this.symm⟩
    · split
      · rename_i hv
        have hv' : evValue (some tbl) (some (node : Int)) = TRUE := by simpa using hv
        have := evValue_sound h (some (node : Int))
        rw [hv', keyVal_nat ρ node hn0] at this
        have hnode : ρ node = true := this.symm
        show CurOK ρ _
        have : ∀ (l : List Nat) (t : Cur), (∀ m, m ∈ l → m ∈ members) → CurOK ρ t →
            CurOK ρ (l.foldl (fun (t : Cur) (n : Nat) => setEvValue t (n : Int) FALSE) t) := by
          intro l
          induction l with
          | nil => intro t _ ht; exact ht
          | cons a r ih =>
            intro t hsub ht
            simp only [List.foldl_cons]
            apply ih _ (fun m hm => hsub m (List.mem_cons_of_mem _ hm))
            have ham := hsub a List.mem_cons_self
            apply ht.setFalse a (hm0 a ham)
            cases ha : ρ a with
            | false => rfl
            | true => exact absurd ⟨ha, hnode⟩ (hex a ham)
        exact this members tbl (fun _ hm => hm) h
      · exact h

end ProbLogModel.Propagate
