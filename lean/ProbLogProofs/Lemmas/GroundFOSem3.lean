import ProbLogProofs.Lemmas.GroundFOSem2
/-!
# First-order grounder model: semantics of goals and of `ground` calls (core Lean only)
-/
namespace ProbLogProofs.GroundFOSem
open ProbLogModel ProbLogModel.Formula ProbLogModel.GroundFO ProbLogProofs.GroundInv ProbLogProofs.GroundFOInv
open ProbLogModel.Sem (getB)

section
variable {chosen : Array Bool} {M : Model}

theorem SemInv.of_sem {st : St} (hs : SInv st.store)
    (hg : ∀ e ∈ st.table.ground, Den chosen st.store e.2 (M e.1.1 e.1.2))
    (hn : ∀ e ∈ st.table.ng, ResOK chosen M e.1 e.2 st.store) : SemInv chosen M st :=
  ⟨⟨hs, fun e he => (hg e he).1, fun e he => (hn e he).keys⟩, hg, hn⟩

theorem evalClauses_sem (U : UnifOK) (P : Prog) {ev : Eval} (hev : EvalSem chosen M ev) (g : Goal) :
    ∀ (cs : List Clause), (∀ c ∈ cs, ∀ head n body ch, c = Clause.rule head n body ch →
        (∀ t ∈ head, Term.inRange n t) ∧ ∀ i ∈ items body ch, Item.inRange n i) →
      ∀ (buf : Buf) (st : St) (buf' : Buf) (st' : St), SemInv chosen M st → BufInv g buf st.store.nodes.length →
      evalClauses P ev g cs (buf, st) = .ok (buf', st') →
      SemInv chosen M st' ∧ Grows st.store st'.store ∧ BufInv g buf' st'.store.nodes.length ∧
      ∀ ρ, Val chosen st'.store ρ → ∀ a, Fits g.args a →
        (bufVal ρ buf' a = true ↔ bufVal ρ buf a = true ∨ ∃ c ∈ cs, Derives P.nconsts chosen M c a)
  | [], _, buf, st, buf', st', hs, ha, h => by
    simp only [evalClauses, pure, Except.pure, Except.ok.injEq, Prod.mk.injEq] at h
    obtain ⟨rfl, rfl⟩ := h
    refine ⟨hs, Grows.refl _, ha, fun ρ _ a _ => ⟨fun h => Or.inl h, fun h => ?_⟩⟩
    rcases h with h | ⟨c, hc, _⟩
    · exact h
    · cases hc
  | c :: cs, hv, buf, st, buf', st', hs, ha, h => by
    simp only [evalClauses, bind, Except.bind] at h
    cases h1 : evalClause P ev g c (buf, st) with
    | error e => rw [h1] at h; cases h
    | ok w1 =>
      obtain ⟨buf1, st1⟩ := w1
      rw [h1] at h
      obtain ⟨s1, g1, a1, d1⟩ := evalClause_sem U P hev g c (hv c List.mem_cons_self) (fun _ => trivial) buf st buf1 st1
        hs ha h1
      obtain ⟨s2, g2, a2, d2⟩ := evalClauses_sem U P hev g cs (fun c' hc' => hv c' (List.mem_cons_of_mem _ hc'))
        buf1 st1 buf' st' s1 a1 h
      refine ⟨s2, g1.trans g2, a2, fun ρ hρ a hfa => ?_⟩
      rw [d2 ρ hρ a hfa, d1 ρ (hρ.of_grows g2) a hfa]
      constructor
      · rintro ((h | h) | ⟨c', hc', hd⟩)
        · exact Or.inl h
        · exact Or.inr ⟨c, List.mem_cons_self, h⟩
        · exact Or.inr ⟨c', List.mem_cons_of_mem _ hc', hd⟩
      · rintro (h | ⟨c', hc', hd⟩)
        · exact Or.inl (Or.inl h)
        · rcases List.mem_cons.1 hc' with h | h
          · subst h; exact Or.inl (Or.inr hd)
          · exact Or.inr ⟨c', h, hd⟩

/-! ### `flushBuffer` -/

theorem flush_sem : ∀ (buf : Buf) (S : Store) (rs : Results) (S' : Store), SInv S → BufOK buf S.nodes.length →
    flush buf S = .ok (rs, S') →
    rs.map (·.1) = buf.map (·.1) ∧
    ∀ x ∈ rs, ∃ nodes, (x.1, nodes) ∈ buf ∧ ∀ ρ, Consistent S' ρ → keyVal ρ x.2 = nodes.any (keyVal ρ)
  | [], S, rs, S', _, _, h => by
    simp only [flush, pure, Except.pure, Except.ok.injEq, Prod.mk.injEq] at h
    obtain ⟨rfl, rfl⟩ := h
    exact ⟨rfl, fun _ hx => (by cases hx)⟩
  | (ans, nodes) :: r, S, rs, S', hs, hb, h => by
    simp only [flush, bind, Except.bind] at h
    cases hor : S.addOr nodes with
    | error e => rw [hor] at h; simp [liftF] at h
    | ok r1 =>
      obtain ⟨S1, k⟩ := r1
      rw [hor] at h
      simp only [liftF] at h
      have hcr := addCompound_cres _ _ _ _ _ _ _ _ _ hor
      obtain ⟨hs1, hg1, _⟩ := addOr_ok hs (fun c hc => hb (ans, nodes) List.mem_cons_self c hc) hor
      cases hfl : flush r S1 with
      | error e => rw [hfl] at h; cases h
      | ok r2 =>
        obtain ⟨rs2, S2⟩ := r2
        rw [hfl] at h
        simp only [pure, Except.pure, Except.ok.injEq, Prod.mk.injEq] at h
        obtain ⟨rfl, rfl⟩ := h
        have hb1 : BufOK r S1.nodes.length :=
          BufOK.mono _ _ _ (grows_length hg1) (fun e he => hb e (List.mem_cons_of_mem _ he))
        obtain ⟨hm, hx⟩ := flush_sem r S1 rs2 S2 hs1 hb1 hfl
        obtain ⟨_, hg2, _⟩ := flush_ok r S1 rs2 S2 hs1 hb1 hfl
        refine ⟨by simp [hm], fun x hxm => ?_⟩
        rcases List.mem_cons.1 hxm with h | h
        · subst h
          exact ⟨nodes, List.mem_cons_self, fun ρ hρ => hcr.sem hs.wf ρ (hg2.consistent hρ)⟩
        · obtain ⟨nd, hnd, hv⟩ := hx x h
          exact ⟨nd, List.mem_cons_of_mem _ hnd, hv⟩

/-! ### tables -/

theorem mem_assocSet'_eq {α β} [BEq α] : ∀ (l : List (α × β)) (x : α) (v : β) (e : α × β), e ∈ assocSet' l x v →
    e ∈ l ∨ e = (x, v) ∨ (∃ a, (a == x) = true ∧ e = (a, v))
  | [], x, v, e, h => by
    simp only [assocSet', List.mem_singleton] at h
    exact Or.inr (Or.inl h)
  | (a, b) :: r, x, v, e, h => by
    unfold assocSet' at h
    split at h
    · rename_i hax
      rcases List.mem_cons.1 h with h | h
      · exact Or.inr (Or.inr ⟨a, hax, h⟩)
      · exact Or.inl (List.mem_cons_of_mem _ h)
    · rcases List.mem_cons.1 h with h | h
      · subst h; exact Or.inl List.mem_cons_self
      · rcases mem_assocSet'_eq r x v e h with h | h
        · exact Or.inl (List.mem_cons_of_mem _ h)
        · exact Or.inr h

theorem mem_assocSet'_law {α β} [BEq α] [LawfulBEq α] (l : List (α × β)) (x : α) (v : β) (e : α × β)
    (h : e ∈ assocSet' l x v) : e ∈ l ∨ e = (x, v) := by
  rcases mem_assocSet'_eq l x v e h with h | h | ⟨a, ha, he⟩
  · exact Or.inl h
  · exact Or.inr h
  · have : a = x := by simpa using ha
    subst this; exact Or.inr he

theorem mem_storeGround_eq (p : Pred) : ∀ (rs : Results) (t : List ((Pred × List Const) × Key))
    (e : (Pred × List Const) × Key), e ∈ storeGround p rs t → e ∈ t ∨ ∃ r ∈ rs, e = ((p, r.1), r.2)
  | [], t, e, h => Or.inl h
  | (ans, k) :: r, t, e, h => by
    simp only [storeGround] at h
    rcases mem_storeGround_eq p r _ e h with h | ⟨x, hx, he⟩
    · rcases mem_assocSet'_law t _ _ e h with h | h
      · exact Or.inl h
      · exact Or.inr ⟨(ans, k), List.mem_cons_self, h⟩
    · exact Or.inr ⟨x, List.mem_cons_of_mem _ hx, he⟩

/-- a clause that `ClauseIndex.find` filters out cannot derive an instance of the call -/
theorem headMatches_of_derives {nc : Nat} {call : List Val} {c : Clause} {a : List Const} (hf : Fits call a)
    (hd : Derives nc chosen M c a) : headMatches call c = true := by
  obtain ⟨τ, hτ⟩ := hf
  have key : ∀ (l : List Val) (hs : List Const), gl τ l = hs →
      ∀ p ∈ l.zip hs, (match p.1 with | Val.c x => x == p.2 | Val.v _ => true) = true := by
    intro l
    induction l with
    | nil => intro hs _ p hp; simp at hp
    | cons x xs ih =>
      intro hs hl p hp
      cases hs with
      | nil => simp at hp
      | cons y ys =>
        simp only [gl, List.map_cons, List.cons.injEq] at hl
        simp only [List.zip_cons_cons, List.mem_cons] at hp
        rcases hp with rfl | hp
        · cases x with
          | c z => simp only [gv] at hl; simp [hl.1]
          | v i => rfl
        · exact ih ys hl.2 p hp
  cases c with
  | fact args ident prob =>
    obtain ⟨rfl, _⟩ := hd
    unfold headMatches
    rw [List.all_eq_true]
    intro p hp
    have := key call args hτ p hp
    obtain ⟨pa, pc⟩ := p
    cases pa <;> simpa using this
  | rule head n body ch =>
    obtain ⟨θ, _, hh, _⟩ := hd
    unfold headMatches
    rw [List.all_eq_true]
    intro p hp
    obtain ⟨pa, ph⟩ := p
    cases pa with
    | v i => cases ph <;> rfl
    | c x =>
      cases ph with
      | var i => rfl
      | const cc =>
        -- position of `p` in the zip: the same position in `call.zip a`
        have hzip : ((Val.c x, cc) : Val × Const) ∈ call.zip (head.map (Term.ground θ)) := by
          have : ((Val.c x, Term.const cc) : Val × Term) ∈ call.zip head := hp
          obtain ⟨i, hi, hget⟩ := List.getElem_of_mem this
          simp only [List.getElem_zip, Prod.mk.injEq] at hget
          have hi' : i < (call.zip (head.map (Term.ground θ))).length := by
            simp only [List.length_zip, List.length_map] at hi ⊢; exact hi
          have : (call.zip (head.map (Term.ground θ)))[i] = (Val.c x, cc) := by
            simp only [List.getElem_zip, List.getElem_map, hget.1, hget.2, Term.ground]
          rw [← this]; exact List.getElem_mem hi'
        have := key call (head.map (Term.ground θ)) (by rw [hh]; exact hτ) _ hzip
        simpa using this

/-! ### a goal that is not in the table -/

theorem evalFresh_sem (U : UnifOK) (P : Prog) (hv : VarsOK P) (hM : IsModelFO P chosen M) (sched : Sched) {ev : Eval}
    (hev : EvalSem chosen M ev) (g : Goal) (st : St) (gc : Option (List Const))
    (hgc : ∀ consts, gc = some consts → allConsts g.args = some consts) (rs : Results) (st' : St)
    (hs : SemInv chosen M st) (h : evalFresh P sched ev g st gc = .ok (rs, st')) :
    SemInv chosen M st' ∧ Grows st.store st'.store ∧ ResOK chosen M g rs st'.store := by
  have hcompl : ∀ a, Fits g.args a → (M g.pred a = true ↔
      ∃ c ∈ (P.clausesOf g.pred).filter (headMatches g.args), Derives P.nconsts chosen M c a) := by
    intro a hfa
    rw [hM g.pred a]
    constructor
    · rintro ⟨c, hc, hd⟩
      exact ⟨c, List.mem_filter.2 ⟨hc, headMatches_of_derives hfa hd⟩, hd⟩
    · rintro ⟨c, hc, hd⟩
      exact ⟨c, (List.mem_filter.1 hc).1, hd⟩
  unfold evalFresh at h
  simp only at h
  split at h
  · rename_i hemp
    simp only [pure, Except.pure, Except.ok.injEq, Prod.mk.injEq] at h
    obtain ⟨rfl, rfl⟩ := h
    refine ⟨hs, Grows.refl _, fun _ hr => (by cases hr), fun a hfa hMa => ?_⟩
    obtain ⟨c, hc, _⟩ := (hcompl a hfa).1 hMa
    rw [List.isEmpty_iff.1 hemp] at hc
    cases hc
  · simp only [bind, Except.bind] at h
    cases hc : evalClauses P ev g (GroundAcyclic.permute (sched g) ((P.clausesOf g.pred).filter (headMatches g.args)))
        ([], st) with
    | error e => rw [hc] at h; cases h
    | ok w1 =>
      obtain ⟨buf, st1⟩ := w1
      rw [hc] at h
      have hmemp : ∀ c, c ∈ GroundAcyclic.permute (sched g) ((P.clausesOf g.pred).filter (headMatches g.args)) ↔
          c ∈ (P.clausesOf g.pred).filter (headMatches g.args) := fun c => GroundEval.mem_permute _ _ c
      obtain ⟨s1, g1, a1, d1⟩ := evalClauses_sem U P hev g _ (fun c hcm head n body ch he =>
          hv g.pred c (List.mem_filter.1 ((hmemp c).1 hcm)).1 head n body ch he) [] st buf st1 hs
        ⟨fun _ he => (by cases he), fun _ he => (by cases he), List.nodup_nil⟩ hc
      simp only at h
      cases hf : flush buf st1.store with
      | error e => rw [hf] at h; cases h
      | ok r2 =>
        obtain ⟨rs2, S2⟩ := r2
        rw [hf] at h
        simp only [pure, Except.pure, Except.ok.injEq, Prod.mk.injEq] at h
        obtain ⟨rfl, rfl⟩ := h
        obtain ⟨hs2, hg2, hk2⟩ := flush_ok buf st1.store rs2 S2 s1.ti.s a1.1 hf
        obtain ⟨hm2, hx2⟩ := flush_sem buf st1.store rs2 S2 s1.ti.s a1.1 hf
        -- value of the bucket of a fitting instance
        have hbuf : ∀ ρ, Val chosen S2 ρ → ∀ a, Fits g.args a → (bufVal ρ buf a = true ↔ M g.pred a = true) := by
          intro ρ hρ a hfa
          rw [d1 ρ (hρ.of_grows hg2) a hfa, hcompl a hfa]
          constructor
          · rintro (h | ⟨c, hc, hd⟩)
            · cases h
            · exact ⟨c, (hmemp c).1 hc, hd⟩
          · rintro ⟨c, hc, hd⟩
            exact Or.inr ⟨c, (hmemp c).2 hc, hd⟩
        have hres : ResOK chosen M g rs2 S2 := by
          refine ⟨fun r hr => ?_, fun a hfa hMa => ?_⟩
          · obtain ⟨nodes, hn, hv2⟩ := hx2 r hr
            have hfit : Fits g.args r.1 := a1.2.1 _ hn
            refine ⟨hfit, hk2 r hr, fun ρ hρ => ?_⟩
            rw [hv2 ρ hρ.1, ← bufVal_of_mem buf ρ r.1 nodes a1.2.2 hn, Bool.eq_iff_iff]
            exact hbuf ρ hρ r.1 hfit
          · obtain ⟨ρ, hρ⟩ := val_exists hs2.acyc chosen
            have := (hbuf ρ hρ a hfa).2 hMa
            rw [hm2]; exact bufVal_true_mem this
        have hgold : ∀ e ∈ st1.table.ground, Den chosen S2 e.2 (M e.1.1 e.1.2) := fun e he => (s1.g e he).mono hg2
        have hnold : ∀ e ∈ st1.table.ng, ResOK chosen M e.1 e.2 S2 := fun e he => (s1.n e he).mono hg2
        have hsg : ∀ e ∈ storeGround g.pred rs2 st1.table.ground, Den chosen S2 e.2 (M e.1.1 e.1.2) := by
          intro e he
          rcases mem_storeGround_eq _ _ _ e he with h | ⟨r, hr, rfl⟩
          · exact hgold e h
          · exact (hres.1 r hr).2
        refine ⟨?_, g1.trans hg2, hres⟩
        cases gc with
        | none =>
          refine SemInv.of_sem hs2 hsg (fun e he => ?_)
          rcases mem_assocSet'_law _ _ _ e he with h | h
          · exact hnold e h
          · rw [h]; exact hres
        | some consts =>
          simp only
          split
          · rename_i hemp
            refine SemInv.of_sem hs2 (fun e he => ?_) hnold
            rcases mem_assocSet'_law _ _ _ e he with h | h
            · exact hgold e h
            · rw [h]
              refine ⟨trivial, fun ρ _ => ?_⟩
              show false = M g.pred consts
              symm
              rw [Bool.eq_false_iff]
              intro hMt
              have hfit : Fits g.args consts := ⟨fun _ => 0, allConsts_gl (hgc consts rfl) _⟩
              have := hres.2 consts hfit hMt
              rw [List.isEmpty_iff.1 hemp] at this
              cases this
          · exact SemInv.of_sem hs2 hsg hnold

/-! ### goals -/

theorem fits_ground {args : List Val} {consts : List Const} (h : allConsts args = some consts) (a : List Const) :
    Fits args a ↔ a = consts :=
  ⟨fun ⟨τ, hτ⟩ => by rw [← hτ]; exact allConsts_gl h τ, fun e => ⟨fun _ => 0, by rw [e]; exact allConsts_gl h _⟩⟩

theorem evalGoalWith_sem (U : UnifOK) (P : Prog) (hv : VarsOK P) (hM : IsModelFO P chosen M) (sched : Sched) {ev : Eval}
    (hev : EvalSem chosen M ev) : EvalSem chosen M (evalGoalWith P sched ev) := by
  intro g st rs st' hs h
  unfold evalGoalWith at h
  split at h
  · rename_i consts hc
    split at h
    · rename_i k hl
      simp only [pure, Except.pure, Except.ok.injEq, Prod.mk.injEq] at h
      obtain ⟨rfl, rfl⟩ := h
      have hd := hs.g _ (lookup_mem' _ _ _ hl)
      refine ⟨hs, Grows.refl _, fun r hr => ?_, fun a hfa _ => ?_⟩
      · rw [List.mem_singleton.1 hr]
        exact ⟨(fits_ground hc consts).2 rfl, hd⟩
      · rw [(fits_ground hc a).1 hfa]; simp
    · exact evalFresh_sem U P hv hM sched hev g st (some consts) (fun c hc' => by cases hc'; exact hc) rs st' hs h
  · split at h
    · rename_i rs0 hl
      simp only [pure, Except.pure, Except.ok.injEq, Prod.mk.injEq] at h
      obtain ⟨rfl, rfl⟩ := h
      exact ⟨hs, Grows.refl _, hs.n _ (lookup_mem' _ _ _ hl)⟩
    · exact evalFresh_sem U P hv hM sched hev g st none (fun c hc' => by cases hc') rs st' hs h

theorem evalGoal_sem (U : UnifOK) (P : Prog) (hv : VarsOK P) (hM : IsModelFO P chosen M) (sched : Sched) :
    ∀ fuel, EvalSem chosen M (evalGoal P sched fuel)
  | 0 => fun _ _ _ _ _ h => by simp [evalGoal] at h
  | fuel + 1 => evalGoalWith_sem U P hv hM sched (evalGoal_sem U P hv hM sched fuel)

/-! ### `ground`, `ground_all` -/

/-- what is reported for one call: every reported instance fits the call and its key has the truth value of the instance;
    every instance of the call that is not reported is false -/
def CallOK (chosen : Array Bool) (M : Model) (c : Call) (rs : Results) (S : Store) : Prop :=
  (∀ r ∈ rs, Fits c.args r.1 ∧ Den chosen S r.2 (M c.pred r.1)) ∧
  (∀ a, Fits c.args a → a ∉ rs.map (·.1) → M c.pred a = false)

theorem CallOK.mono {c : Call} {rs : Results} {S S' : Store} (hg : Grows S S') (h : CallOK chosen M c rs S) :
    CallOK chosen M c rs S' :=
  ⟨fun r hr => ⟨(h.1 r hr).1, (h.1 r hr).2.mono hg⟩, h.2⟩

theorem nameResults_grows (P : Prog) (p : Pred) (l : Label) (rs : Results) (S : Store) (hs : SInv S) :
    Grows S (nameResults P p l rs S) := (nameResults_ok P p l rs S hs).2.1

theorem groundOne_sem (U : UnifOK) (P : Prog) (hv : VarsOK P) (hM : IsModelFO P chosen M) (sched : Sched) (fuel : Nat)
    (st : St) (c : Call) (rs : Results) (st' : St) (hs : SemInv chosen M st)
    (h : groundOne P sched fuel st c = .ok (rs, st')) :
    SemInv chosen M st' ∧ Grows st.store st'.store ∧ CallOK chosen M c rs st'.store := by
  simp only [groundOne, bind, Except.bind] at h
  cases he : evalGoal P sched fuel ⟨c.pred, c.args⟩ st with
  | error e => rw [he] at h; cases h
  | ok r =>
    obtain ⟨rs1, st1⟩ := r
    rw [he] at h
    obtain ⟨hs1, hg1, hres⟩ := evalGoal_sem U P hv hM sched fuel _ _ _ _ hs he
    -- what the filter keeps / drops
    have hcall : ∀ S', Grows st1.store S' → SInv S' →
        CallOK chosen M c (rs1.filter (fun r => !Formula.isFalse r.2)) S' := by
      intro S' hg' hsS'
      refine ⟨fun r hr => ?_, fun a hfa hna => ?_⟩
      · have := hres.1 r (List.mem_filter.1 hr).1
        exact ⟨this.1, this.2.mono hg'⟩
      · rw [Bool.eq_false_iff]
        intro hMt
        have hmem := hres.2 a hfa hMt
        obtain ⟨r, hr, hr1⟩ := List.mem_map.1 hmem
        obtain ⟨ρ, hρ⟩ := val_exists hs1.ti.s.acyc chosen
        have hkv := (hres.1 r hr).2.2 ρ hρ
        have hr1' : r.1 = a := hr1
        rw [hr1', hMt] at hkv
        have hnf : Formula.isFalse r.2 = false := by
          cases hfb : Formula.isFalse r.2 with
          | false => rfl
          | true => rw [(GroundEval.isFalse_iff r.2).1 hfb] at hkv; cases hkv
        exact hna (List.mem_map.2 ⟨r, List.mem_filter.2 ⟨hr, by simp [hnf]⟩, hr1⟩)
    simp only at h
    split at h
    · rename_i hemp
      simp only [pure, Except.pure, Except.ok.injEq, Prod.mk.injEq] at h
      obtain ⟨rfl, rfl⟩ := h
      have hgn := addName_grows st1.store (.pos c.failName) FALSE c.label false
      have hsn := addName_sinv hs1.ti.s (.pos c.failName) FALSE c.label
      have := hcall _ hgn hsn
      rw [List.isEmpty_iff.1 hemp] at this
      exact ⟨hs1.store_step hsn hgn, hg1.trans hgn, this⟩
    · simp only [pure, Except.pure, Except.ok.injEq, Prod.mk.injEq] at h
      obtain ⟨rfl, rfl⟩ := h
      obtain ⟨h2, hg2, _⟩ := nameResults_ok P c.pred c.label (rs1.filter (fun r => !Formula.isFalse r.2)) st1.store hs1.ti.s
      exact ⟨hs1.store_step h2 hg2, hg1.trans hg2, hcall _ hg2 h2⟩

theorem groundAll_sem (U : UnifOK) (P : Prog) (hv : VarsOK P) (hM : IsModelFO P chosen M) (sched : Sched) (fuel : Nat) :
    ∀ (calls : List Call) (st : St) (rss : List Results) (st' : St), SemInv chosen M st →
      groundAll P sched fuel calls st = .ok (rss, st') →
      SemInv chosen M st' ∧ Grows st.store st'.store ∧ rss.length = calls.length ∧
        ∀ i (hc : i < calls.length) (hr : i < rss.length), CallOK chosen M calls[i] rss[i] st'.store
  | [], st, rss, st', hs, h => by
    simp only [groundAll, pure, Except.pure, Except.ok.injEq, Prod.mk.injEq] at h
    obtain ⟨rfl, rfl⟩ := h
    exact ⟨hs, Grows.refl _, rfl, fun i hc _ => absurd hc (Nat.not_lt_zero i)⟩
  | c :: cs, st, rss, st', hs, h => by
    simp only [groundAll, bind, Except.bind] at h
    cases h1 : groundOne P sched fuel st c with
    | error e => rw [h1] at h; cases h
    | ok r =>
      obtain ⟨rs1, st1⟩ := r
      rw [h1] at h
      obtain ⟨hs1, hg1, hc1⟩ := groundOne_sem U P hv hM sched fuel st c rs1 st1 hs h1
      simp only at h
      cases h2 : groundAll P sched fuel cs st1 with
      | error e => rw [h2] at h; cases h
      | ok r2 =>
        obtain ⟨rss2, st2⟩ := r2
        rw [h2] at h
        simp only [pure, Except.pure, Except.ok.injEq, Prod.mk.injEq] at h
        obtain ⟨rfl, rfl⟩ := h
        obtain ⟨hs2, hg2, hl2, hc2⟩ := groundAll_sem U P hv hM sched fuel cs st1 rss2 st2 hs1 h2
        refine ⟨hs2, hg1.trans hg2, by simp [hl2], fun i hc hr => ?_⟩
        cases i with
        | zero => exact hc1.mono hg2
        | succ i => exact hc2 i (by simpa using hc) (by simpa using hr)

end

end ProbLogProofs.GroundFOSem
