/-
Ingredients for `evaluate` = conditional weighted model count: congruence of `evalLines` in the weights of the
literal lines, every root variable has a literal line, `atomLit` is injective on circuit literals, what a successful
`prepare` returns, what `setEvidence` does to the weight table. Core + the Finset wrappers of `DDNNFRoot`.
-/
import ProbLogProofs.Lemmas.DDNNFBridgeRoot
import ProbLogProofs.Lemmas.DDNNFRoot
import ProbLogProofs.Lemmas.DDNNFWeights
namespace ProbLogProofs.DDNNF
open ProbLogModel.DDNNF ProbLogModel.Formula ProbLogModel.Clark

/-! ### congruence -/

theorem evalLines_congr {R} (sr : SR R) (w w' : Int → R) (c : Circuit)
    (h : ∀ (j : Nat) (l : Int), c[j]? = some (NNode.lit l) → w l = w' l) : evalLines sr w c = evalLines sr w' c := by
  rw [evalLines_eq, evalLines_eq]
  induction c using snoc_induction with
  | nil => rfl
  | snoc c nd ih =>
    have ih' := ih (fun j l hj => h j l (getElem?_some_of_prefix _ _ _ _ hj))
    rw [linesOf_snoc, linesOf_snoc, ih']
    congr 2
    cases nd with
    | lit l =>
      have : (c ++ [NNode.lit l])[c.length]? = some (NNode.lit l) := by simp
      exact h _ _ this
    | and cs => rfl
    | or d cs => rfl

theorem evalC_congr {R} (sr : SR R) (w w' : Int → R) (c : Circuit)
    (h : ∀ (j : Nat) (l : Int), c[j]? = some (NNode.lit l) → w l = w' l) : evalC sr w c = evalC sr w' c := by
  unfold evalC; rw [evalLines_congr sr w w' c h]

/-! ### every variable of a line comes from a literal line -/

theorem var_has_lit {c : Circuit} (hf : Forward c) :
    ∀ i, i < c.length → ∀ x, x ∈ vars c i → ∃ (j : Nat) (l : Int), c[j]? = some (NNode.lit l) ∧ l.natAbs = x := by
  intro i
  induction i using Nat.strongRecOn with
  | _ i ih =>
    intro hi x hx
    cases hnd : c[i] with
    | lit l =>
      rw [vars_lit hf hi hnd] at hx
      have : x = l.natAbs := by simpa using hx
      exact ⟨i, l, by rw [List.getElem?_eq_getElem hi, hnd], this.symm⟩
    | and cs =>
      obtain ⟨ch, hch, hxc⟩ := (mem_vars_and hf hi hnd x).mp hx
      have hlt : ch < i := hf i hi ch (by rw [hnd]; exact hch)
      exact ih ch hlt (by omega) x hxc
    | or d cs =>
      obtain ⟨ch, hch, hxc⟩ := (mem_vars_or hf hi hnd x).mp hx
      have hlt : ch < i := hf i hi ch (by rw [hnd]; exact hch)
      exact ih ch hlt (by omega) x hxc

theorem rootVar_has_lit {c : Circuit} (hf : Forward c) (x : Nat) (hx : x ∈ rootVarsF c) :
    ∃ (j : Nat) (l : Int), c[j]? = some (NNode.lit l) ∧ l.natAbs = x := by
  by_cases hne : c = []
  · subst hne; simp [rootVarsF_nil] at hx
  · have hpos : 0 < c.length := List.length_pos_iff.mpr hne
    rw [rootVarsF_root hne] at hx
    exact var_has_lit hf (c.length - 1) (by omega) x hx

/-! ### `atomLit` on circuit literals -/

theorem Rep.atomOf_lit {c : Circuit} {ld : Loaded} (h : Rep c ld) {j : Nat} {l : Int}
    (hj : c[j]? = some (NNode.lit l)) :
    1 ≤ atomOf ld.store l.natAbs ∧ lookup ld.store.idxAtom (.user (l.natAbs : Int)) = some (atomOf ld.store l.natAbs) := by
  obtain ⟨i, h1, _⟩ := h.lit j l hj
  have : atomOf ld.store l.natAbs = i := by unfold atomOf; rw [h1]; rfl
  rw [this]
  exact ⟨(h.idx _ _ h1).1, h1⟩

/-- literal lines are mapped to the literal `atomLit` of the loaded store -/
theorem Rep.line2node_lit {c : Circuit} {ld : Loaded} (h : Rep c ld) (hz : LitsNonzero c) {j : Nat} {l : Int}
    (hj : c[j]? = some (NNode.lit l)) : ld.line2node[j]? = some (some (atomLit ld.store l)) := by
  obtain ⟨i, h1, h2⟩ := h.lit j l hj
  have : atomOf ld.store l.natAbs = i := by unfold atomOf; rw [h1]; rfl
  have hl := hz j l hj
  rw [h2]; unfold atomLit; rw [this]
  by_cases hneg : l < 0
  · have : ¬ l > 0 := by omega
    simp [hneg, this]
  · have : l > 0 := by omega
    simp [hneg, this]

theorem Rep.atomLit_eq_neg_iff {c : Circuit} {ld : Loaded} (h : Rep c ld) (hz : LitsNonzero c) {j j' : Nat}
    {l q : Int} (hj : c[j]? = some (NNode.lit l)) (hq : c[j']? = some (NNode.lit q) ∨ c[j']? = some (NNode.lit (-q)))
    : atomLit ld.store l = -(atomLit ld.store q) ↔ l = -q := by
  obtain ⟨hl1, hl2⟩ := h.atomOf_lit hj
  have hl0 := hz j l hj
  have hq12 : 1 ≤ atomOf ld.store q.natAbs ∧
      lookup ld.store.idxAtom (.user (q.natAbs : Int)) = some (atomOf ld.store q.natAbs) := by
    rcases hq with hq | hq
    · exact h.atomOf_lit hq
    · have := h.atomOf_lit hq
      rwa [Int.natAbs_neg] at this
  obtain ⟨hq1, hq2⟩ := hq12
  constructor
  · intro he
    unfold atomLit at he
    have habs : atomOf ld.store l.natAbs = atomOf ld.store q.natAbs := by
      by_cases h1 : l > 0 <;> by_cases h2 : q > 0 <;> simp only [h1, h2, if_true, if_false] at he <;> omega
    rw [habs] at hl2
    have := h.inj _ _ _ hl2 hq2
    have hn : l.natAbs = q.natAbs := by
      have : ((l.natAbs : Nat) : Int) = ((q.natAbs : Nat) : Int) := by
        injection this
      omega
    by_cases h1 : l > 0 <;> by_cases h2 : q > 0 <;> simp only [h1, h2, if_true, if_false] at he <;> omega
  · intro he
    subst he
    unfold atomLit
    rw [Int.natAbs_neg]
    split <;> split <;> omega

theorem Rep.atomLit_ne_zero {c : Circuit} {ld : Loaded} (h : Rep c ld) {j : Nat} {q : Int}
    (hq : c[j]? = some (NNode.lit q) ∨ c[j]? = some (NNode.lit (-q))) : atomLit ld.store q ≠ 0 := by
  have hq1 : 1 ≤ atomOf ld.store q.natAbs := by
    rcases hq with hq | hq
    · exact (h.atomOf_lit hq).1
    · have := (h.atomOf_lit hq).1
      rwa [Int.natAbs_neg] at this
  unfold atomLit
  split <;> omega

theorem atomLit_pos_iff {S : Store} {q : Int} (h1 : 1 ≤ atomOf S q.natAbs) : atomLit S q > 0 ↔ q > 0 := by
  unfold atomLit
  split <;> omega

theorem litW_wfun (ws : List (Nat × (Rat × Rat))) : litW (wfun ws) = litWeight ws := rfl

/-! ### a successful `prepare` -/

/-- the evidence literals `prepare` applies (over atom indices of the store) -/
def evidenceLits (S : Store) : List Int :=
  (evidenceAll S).filterMap (fun (k, v) => match k with
    | some i => if i = 0 then none else some (v * i)
    | none => none)

/-- `prepare` with the `do` block written out -/
def prepare' (S : Store) : Except EvalErr Prepared :=
  match extractWeights S.weights S.ads with
  | .error e => .error e
  | .ok ws0 =>
    if (evidenceAll S).any (fun (k, v) => (k == some 0 && v < 0) || (k == none && v > 0)) then .error .inconsistent
    else
      match (evidenceLits S).foldlM setEvidence ws0 with
      | .error e => .error e
      | .ok ws =>
        if isZero (rootWeight S ws) then .error .inconsistent
        else .ok ⟨S, ws, rootWeight S ws, !(evidenceLits S).isEmpty⟩

theorem prepare_eq (S : Store) : prepare S = prepare' S := by
  unfold prepare prepare'
  cases extractWeights S.weights S.ads with
  | error e => rfl
  | ok ws0 =>
    simp only [bind, Except.bind]
    split
    · rfl
    · unfold evidenceLits
      cases List.foldlM setEvidence ws0 _ with
      | error e => rfl
      | ok ws => rfl

theorem prepare_ok {S : Store} {P : Prepared} (h : prepare S = .ok P) :
    ∃ ws0, extractWeights S.weights S.ads = .ok ws0 ∧
      (evidenceLits S).foldlM setEvidence ws0 = .ok P.ws ∧
      P.store = S ∧ P.z = rootWeight S P.ws ∧ isZero P.z = false ∧
      P.hasEvidence = !(evidenceLits S).isEmpty := by
  rw [prepare_eq] at h
  unfold prepare' at h
  cases he : extractWeights S.weights S.ads with
  | error e => rw [he] at h; cases h
  | ok ws0 =>
    rw [he] at h
    simp only at h
    split at h
    · cases h
    · cases hf : (evidenceLits S).foldlM setEvidence ws0 with
      | error e => rw [hf] at h; cases h
      | ok ws =>
        rw [hf] at h
        simp only at h
        split at h
        · cases h
        · rename_i hz
          injection h with h
          subst h
          exact ⟨ws0, rfl, hf, rfl, rfl, by simpa using hz, rfl⟩

/-! ### evidence -/

/-- the pair evidence literal `e` puts into the table: `(1, 0)` for a positive, `(0, 1)` for a negative literal -/
def evPair (e : Int) : Rat × Rat := if e > 0 then (1, 0) else (0, 1)

theorem setEvidence_ok {ws ws' : List (Nat × (Rat × Rat))} {e : Int} (h : setEvidence ws e = .ok ws') :
    ws' = assocSet ws e.natAbs (evPair e) ∧
      ¬ ((e > 0 ∧ isZero (wfun ws e.natAbs).1 = true) ∨ (e < 0 ∧ isZero (wfun ws e.natAbs).2 = true)) := by
  unfold setEvidence at h
  simp only at h
  split at h
  · cases h
  · rename_i hc
    injection h with h
    refine ⟨h.symm, ?_⟩
    simpa using hc

theorem isZero_zero : isZero 0 = true := by decide +kernel

/-- once an atom carries the pair of an evidence literal, later (successful) evidence steps keep it -/
theorem foldlM_setEvidence_keep (evi : List Int) :
    ∀ (ws0 ws : List (Nat × (Rat × Rat))) (e : Int), e ≠ 0 → evi.foldlM setEvidence ws0 = .ok ws →
      wfun ws0 e.natAbs = evPair e → wfun ws e.natAbs = evPair e := by
  induction evi with
  | nil => intro ws0 ws e _ h hw; simp [List.foldlM, pure, Except.pure] at h; subst h; exact hw
  | cons e0 rest ih =>
    intro ws0 ws e he h hw
    simp only [List.foldlM, bind, Except.bind] at h
    cases h1 : setEvidence ws0 e0 with
    | error x => rw [h1] at h; cases h
    | ok ws1 =>
      rw [h1] at h
      obtain ⟨hws1, hcons⟩ := setEvidence_ok h1
      apply ih ws1 ws e he h
      rw [hws1, wfun_assocSet]
      by_cases hi : e.natAbs = e0.natAbs
      · rw [if_pos hi]
        rw [← hi, hw] at hcons
        unfold evPair at hcons ⊢
        by_cases hp : e > 0
        · simp only [hp, if_true] at hcons
          have : e0 > 0 := by
            by_contra hn
            have : e0 < 0 := by omega
            exact hcons (Or.inr ⟨this, isZero_zero⟩)
          simp [hp, this]
        · simp only [hp, if_false] at hcons
          have : ¬ e0 > 0 := by
            intro hn
            exact hcons (Or.inl ⟨hn, isZero_zero⟩)
          simp [hp, this]
      · rw [if_neg hi]; exact hw

/-- **what evidence does to the table**: an atom without evidence keeps its pair, an atom with evidence literal `e`
gets `(1, 0)` (`e > 0`) or `(0, 1)` (`e < 0`) -/
theorem foldlM_setEvidence_spec (evi : List Int) :
    ∀ (ws0 ws : List (Nat × (Rat × Rat))), evi.foldlM setEvidence ws0 = .ok ws →
      (∀ i, (∀ e ∈ evi, e.natAbs ≠ i) → wfun ws i = wfun ws0 i) ∧
      (∀ e ∈ evi, e ≠ 0 → wfun ws e.natAbs = evPair e) := by
  induction evi with
  | nil =>
    intro ws0 ws h
    simp [List.foldlM, pure, Except.pure] at h; subst h
    exact ⟨fun i _ => rfl, fun e he => by simp at he⟩
  | cons e0 rest ih =>
    intro ws0 ws h
    have hfull := h
    simp only [List.foldlM, bind, Except.bind] at h
    cases h1 : setEvidence ws0 e0 with
    | error x => rw [h1] at h; cases h
    | ok ws1 =>
      rw [h1] at h
      obtain ⟨hws1, _⟩ := setEvidence_ok h1
      obtain ⟨ihA, ihB⟩ := ih ws1 ws h
      constructor
      · intro i hi
        rw [ihA i (fun e he => hi e (List.mem_cons_of_mem _ he)), hws1, wfun_assocSet]
        have : i ≠ e0.natAbs := fun hh => hi e0 (List.mem_cons_self) hh.symm
        simp [this]
      · intro e he hne
        rcases List.mem_cons.mp he with rfl | he'
        · apply foldlM_setEvidence_keep rest ws1 ws e hne h
          rw [hws1, wfun_assocSet]; simp
        · exact ihB e he' hne

end ProbLogProofs.DDNNF
