import ProbLogModel.Sem
import ProbLogProofs.Lemmas.SemGamma
/-!
# `Sem.wfm`, `Sem.relevantAtoms`, `Sem.restrict`, `Sem.run` only depend on the *set* of rules (core Lean only)
-/
namespace ProbLogProofs.SemRules
open ProbLogModel.Sem ProbLogProofs.SemGamma

/-- two rule lists denote the same set of rules (each rule up to the sets of its body atoms) -/
def REqv (rules rules' : List Rule) : Prop := RSub rules rules' ∧ RSub rules' rules

theorem REquiv.refl (r : Rule) : REquiv r r := ⟨rfl, rfl, fun _ => Iff.rfl, fun _ => Iff.rfl⟩
theorem REquiv.symm {r r' : Rule} (h : REquiv r r') : REquiv r' r :=
  ⟨h.1.symm, h.2.1.symm, fun a => (h.2.2.1 a).symm, fun a => (h.2.2.2 a).symm⟩

theorem REqv.symm {rules rules' : List Rule} (h : REqv rules rules') : REqv rules' rules := ⟨h.2, h.1⟩

theorem RSub.of_subset {rules rules' : List Rule} (h : ∀ r ∈ rules, r ∈ rules') : RSub rules rules' :=
  fun r hr => ⟨r, h r hr, REquiv.refl r⟩

theorem REqv.of_perm {rules rules' : List Rule} (h : rules.Perm rules') : REqv rules rules' :=
  ⟨RSub.of_subset fun _ hr => h.mem_iff.1 hr, RSub.of_subset fun _ hr => h.mem_iff.2 hr⟩

/-- `r'` is `r` with the atoms inside its positive and inside its negative body permuted -/
def BodyPerm (r r' : Rule) : Prop :=
  r.head = r'.head ∧ r.choice = r'.choice ∧ r.pos.Perm r'.pos ∧ r.neg.Perm r'.neg

/-- rule by rule, `rules'` is `rules` with permuted bodies -/
inductive BodyPerms : List Rule → List Rule → Prop
  | nil : BodyPerms [] []
  | cons {r r' : Rule} {rs rs' : List Rule} : BodyPerm r r' → BodyPerms rs rs' → BodyPerms (r :: rs) (r' :: rs')

theorem BodyPerm.requiv {r r' : Rule} (h : BodyPerm r r') : REquiv r r' :=
  ⟨h.1, h.2.1, fun _ => h.2.2.1.mem_iff, fun _ => h.2.2.2.mem_iff⟩

theorem REqv.of_bodyPerms {rules rules' : List Rule} (h : BodyPerms rules rules') : REqv rules rules' := by
  induction h with
  | nil => exact ⟨fun _ h => (nomatch h), fun _ h => (nomatch h)⟩
  | @cons r r' rs rs' hb _ ih =>
    constructor
    · intro x hx
      rcases List.mem_cons.1 hx with rfl | hx
      · exact ⟨r', List.mem_cons_self, hb.requiv⟩
      · obtain ⟨y, hy, he⟩ := ih.1 x hx
        exact ⟨y, List.mem_cons_of_mem _ hy, he⟩
    · intro x hx
      rcases List.mem_cons.1 hx with rfl | hx
      · exact ⟨r, List.mem_cons_self, REquiv.symm hb.requiv⟩
      · obtain ⟨y, hy, he⟩ := ih.2 x hx
        exact ⟨y, List.mem_cons_of_mem _ hy, he⟩

/-! ## wfm -/

theorem wfm_go_congr {rules rules' : List Rule} (chosen : Array Bool) (natoms : Nat)
    (hg : ∀ ctx, gamma rules chosen natoms ctx = gamma rules' chosen natoms ctx) :
    ∀ fuel t, wfm.go rules chosen natoms fuel t = wfm.go rules' chosen natoms fuel t := by
  intro fuel
  induction fuel with
  | zero => intro t; unfold wfm.go; rw [hg]
  | succ fuel ih =>
    intro t
    unfold wfm.go
    simp only [hg, ih]

theorem wfm_congr {rules rules' : List Rule} (h : REqv rules rules') (chosen : Array Bool) (natoms : Nat) :
    wfm rules chosen natoms = wfm rules' chosen natoms := by
  unfold wfm
  exact wfm_go_congr chosen natoms (fun ctx => gamma_congr h.1 h.2 chosen natoms ctx) _ _

/-! ## relevant atoms -/

theorem mem_depRules {rules : List Rule} {roots : List Nat} {d : Rule} :
    d ∈ depRules rules roots ↔
      (∃ a ∈ roots, d = ⟨a, [], [], none⟩) ∨
      (∃ r ∈ rules, ∃ b, (b ∈ r.pos ∨ b ∈ r.neg) ∧ d = ⟨b, [r.head], [], none⟩) := by
  unfold depRules
  simp only [List.mem_append, List.mem_map, List.mem_flatMap]
  constructor
  · rintro (⟨a, ha, rfl⟩ | ⟨r, hr, b, hb, rfl⟩)
    · exact Or.inl ⟨a, ha, rfl⟩
    · exact Or.inr ⟨r, hr, b, hb, rfl⟩
  · rintro (⟨a, ha, rfl⟩ | ⟨r, hr, b, hb, rfl⟩)
    · exact Or.inl ⟨a, ha, rfl⟩
    · exact Or.inr ⟨r, hr, b, hb, rfl⟩

theorem depRules_rsub {rules rules' : List Rule} (h : RSub rules rules') (roots : List Nat) :
    RSub (depRules rules roots) (depRules rules' roots) := by
  intro d hd
  rcases mem_depRules.1 hd with ⟨a, ha, rfl⟩ | ⟨r, hr, b, hb, rfl⟩
  · exact ⟨_, mem_depRules.2 (Or.inl ⟨a, ha, rfl⟩), REquiv.refl _⟩
  · obtain ⟨r', hr', hh, _, hp, hn⟩ := h r hr
    refine ⟨⟨b, [r'.head], [], none⟩, mem_depRules.2 (Or.inr ⟨r', hr', b, ?_, rfl⟩), ?_⟩
    · exact hb.imp (hp b).1 (hn b).1
    · rw [hh]; exact REquiv.refl _

theorem relevantAtoms_congr {rules rules' : List Rule} (h : REqv rules rules') (natoms : Nat)
    (roots : List Nat) : relevantAtoms rules natoms roots = relevantAtoms rules' natoms roots := by
  unfold relevantAtoms
  exact gamma_congr (depRules_rsub h.1 roots) (depRules_rsub h.2 roots) _ _ _

theorem relevantAtoms_roots_congr (rules : List Rule) (natoms : Nat) {roots roots' : List Nat}
    (h : ∀ a, a ∈ roots ↔ a ∈ roots') : relevantAtoms rules natoms roots = relevantAtoms rules natoms roots' := by
  unfold relevantAtoms
  have key : ∀ {r1 r2 : List Nat}, (∀ a, a ∈ r1 → a ∈ r2) → RSub (depRules rules r1) (depRules rules r2) := by
    intro r1 r2 h12 d hd
    refine ⟨d, ?_, REquiv.refl d⟩
    rcases mem_depRules.1 hd with ⟨a, ha, rfl⟩ | hx
    · exact mem_depRules.2 (Or.inl ⟨a, h12 a ha, rfl⟩)
    · exact mem_depRules.2 (Or.inr hx)
  exact gamma_congr (key fun a => (h a).1) (key fun a => (h a).2) _ _ _

/-- reachability from the roots through rule bodies, staying inside the atoms `< n` -/
inductive Reach (n : Nat) (rules : List Rule) (roots : List Nat) : Nat → Prop
  | root {a : Nat} : a ∈ roots → a < n → Reach n rules roots a
  | step {r : Rule} {b : Nat} : Reach n rules roots r.head → r ∈ rules → (b ∈ r.pos ∨ b ∈ r.neg) → b < n →
      Reach n rules roots b

theorem relevant_iff_reach (rules : List Rule) (natoms : Nat) (roots : List Nat) (a : Nat) :
    getB (relevantAtoms rules natoms roots) a = true ↔ Reach natoms rules roots a := by
  unfold relevantAtoms
  constructor
  · intro h
    have := gamma_least (depRules rules roots) #[] natoms #[]
      (fun x => @decide (Reach natoms rules roots x) (Classical.propDecidable _)) ?_ a h
    · simpa using this
    · intro d hd _ hpos _ hlt
      simp only [decide_eq_true_eq]
      rcases mem_depRules.1 hd with ⟨a, ha, rfl⟩ | ⟨r, hr, b, hb, rfl⟩
      · exact Reach.root ha hlt
      · have := hpos r.head (by simp)
        simp only [decide_eq_true_eq] at this
        exact Reach.step this hr hb hlt
  · intro h
    induction h with
    | @root a ha hlt =>
      exact gamma_closedBelow (depRules rules roots) #[] natoms #[] ⟨a, [], [], none⟩
        (mem_depRules.2 (Or.inl ⟨a, ha, rfl⟩)) rfl (by simp) (by simp) hlt
    | @step r b _ hr hb hlt ih =>
      exact gamma_closedBelow (depRules rules roots) #[] natoms #[] ⟨b, [r.head], [], none⟩
        (mem_depRules.2 (Or.inr ⟨r, hr, b, hb, rfl⟩)) rfl (by simpa using ih) (by simp) hlt

/-! ## restrict -/

theorem filter_head_rsub {rules rules' : List Rule} (h : RSub rules rules') (p : Nat → Bool) :
    RSub (rules.filter (fun r => p r.head)) (rules'.filter (fun r => p r.head)) := by
  intro r hr
  obtain ⟨hr1, hr2⟩ := List.mem_filter.1 hr
  obtain ⟨r', hr', he⟩ := h r hr1
  exact ⟨r', List.mem_filter.2 ⟨hr', by rw [← he.1]; exact hr2⟩, he⟩

theorem any_choice_of_rsub {rules rules' : List Rule} (h : RSub rules rules') (c : Nat)
    (hc : rules.any (fun r => r.choice == some c) = true) : rules'.any (fun r => r.choice == some c) = true := by
  rw [List.any_eq_true] at *
  obtain ⟨r, hr, hrc⟩ := hc
  obtain ⟨r', hr', he⟩ := h r hr
  exact ⟨r', hr', by rw [← he.2.1]; exact hrc⟩

theorem any_choice_congr {rules rules' : List Rule} (h : REqv rules rules') (c : Nat) :
    rules.any (fun r => r.choice == some c) = rules'.any (fun r => r.choice == some c) := by
  cases h1 : rules.any (fun r => r.choice == some c)
  · cases h2 : rules'.any (fun r => r.choice == some c)
    · rfl
    · rw [any_choice_of_rsub h.2 c h2] at h1; cases h1
  · exact (any_choice_of_rsub h.1 c h1).symm

theorem restrict_rules (P : Prog) (roots : List Nat) :
    (restrict P roots).rules = P.rules.filter (fun r => getB (relevantAtoms P.rules P.natoms roots) r.head) := rfl

theorem restrict_groups (P : Prog) (roots : List Nat) :
    (restrict P roots).groups = P.groups.filter (fun g => g.alts.any (fun (_, c) =>
      (restrict P roots).rules.any (fun r => r.choice == some c))) := rfl

theorem restrict_rules_eqv (P : Prog) {rules' : List Rule} (h : REqv P.rules rules') (roots : List Nat) :
    REqv (restrict P roots).rules (restrict { P with rules := rules' } roots).rules := by
  rw [restrict_rules, restrict_rules]
  simp only
  rw [← relevantAtoms_congr h]
  exact ⟨filter_head_rsub h.1 _, filter_head_rsub h.2 _⟩

theorem restrict_groups_congr (P : Prog) {rules' : List Rule} (h : REqv P.rules rules') (roots : List Nat) :
    (restrict { P with rules := rules' } roots).groups = (restrict P roots).groups := by
  rw [restrict_groups, restrict_groups]
  simp only
  congr 1
  funext g
  congr 1
  funext pc
  exact (any_choice_congr (restrict_rules_eqv P h roots) pc.2).symm

/-! ## run -/

theorem run_congr_rules (P : Prog) {rules' : List Rule} (h : REqv P.rules rules')
    (queries : List Nat) (evidence : List (Nat × Bool)) :
    run { P with rules := rules' } queries evidence = run P queries evidence := by
  have hw := fun c => wfm_congr (restrict_rules_eqv P h (queries ++ evidence.map (·.1))).symm c P.natoms
  unfold run
  simp only [restrict_groups_congr P h, ← relevantAtoms_congr h, hw]

end ProbLogProofs.SemRules
