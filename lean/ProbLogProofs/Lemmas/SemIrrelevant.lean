import ProbLogModel.Sem
import ProbLogProofs.Lemmas.SemRules
import ProbLogProofs.Lemmas.SemWfm
import ProbLogProofs.Lemmas.SemRun
import ProbLogProofs.Lemmas.SemGroupsRun
import ProbLogProofs.Lemmas.SemMarginal
/-!
# Enlarging the root set does not change `z` and the numerators of the old queries
(choices that are irrelevant for the old roots marginalise out)
-/
namespace ProbLogProofs.SemIrrelevant
open ProbLogModel.Sem ProbLogProofs.SemGamma ProbLogProofs.SemRules ProbLogProofs.SemWfm ProbLogProofs.SemRun
  ProbLogProofs.SemGroups ProbLogProofs.SemGroupsRun ProbLogProofs.SemMarginal

/-- choice `c` guards some rule of the program restricted to `roots` -/
def usedBy (P : Prog) (roots : List Nat) (c : Nat) : Bool :=
  (restrict P roots).rules.any (fun r => r.choice == some c)

theorem depRules_roots_rsub (rules : List Rule) {r1 r2 : List Nat} (h : ∀ a ∈ r1, a ∈ r2) :
    RSub (depRules rules r1) (depRules rules r2) := by
  intro d hd
  refine ⟨d, ?_, REquiv.refl d⟩
  rcases mem_depRules.1 hd with ⟨a, ha, rfl⟩ | hx
  · exact mem_depRules.2 (Or.inl ⟨a, h a ha, rfl⟩)
  · exact mem_depRules.2 (Or.inr hx)

theorem rel_le (P : Prog) {roots1 roots2 : List Nat} (hsub : ∀ a ∈ roots1, a ∈ roots2) :
    Le (relevantAtoms P.rules P.natoms roots1) (relevantAtoms P.rules P.natoms roots2) :=
  gamma_mono_rules (depRules_roots_rsub P.rules hsub) _ _ _

theorem getB_of_size_le {a : Array Bool} {i : Nat} (h : a.size ≤ i) : getB a i = false := by
  cases hx : getB a i
  · rfl
  · have := getB_lt hx; omega

theorem all_congr_mem {α : Type} {f g : α → Bool} {xs : List α} (h : ∀ x ∈ xs, f x = g x) :
    xs.all f = xs.all g := by
  induction xs with
  | nil => rfl
  | cons x xs ih =>
    simp only [List.all_cons, h x List.mem_cons_self, ih (fun y hy => h y (List.mem_cons_of_mem _ hy))]

section
variable (P : Prog) {roots1 roots2 : List Nat} (hsub : ∀ a ∈ roots1, a ∈ roots2)
  {l l' : List Nat} (hl : ∀ c, usedBy P roots1 c = true → (c ∈ l ↔ c ∈ l'))
include hsub hl

theorem relPart :
    RelPart P.natoms (getB (relevantAtoms P.rules P.natoms roots1)) (restrict P roots1).rules
      (restrict P roots2).rules (chosenArr P.nchoices l) (chosenArr P.nchoices l') := by
  refine ⟨?_, ?_, ?_⟩
  · intro r
    rw [restrict_rules, restrict_rules, List.mem_filter, List.mem_filter]
    constructor
    · rintro ⟨hr, hD⟩; exact ⟨⟨hr, rel_le P hsub _ hD⟩, hD⟩
    · rintro ⟨⟨hr, _⟩, hD⟩; exact ⟨hr, hD⟩
  · intro r hr hD b hb
    rw [restrict_rules, List.mem_filter] at hr
    by_cases hlt : b < P.natoms
    · left
      rw [relevant_iff_reach] at hD ⊢
      exact Reach.step hD hr.1 hb hlt
    · right; omega
  · intro r hr
    unfold chOk
    cases hc : r.choice with
    | none => rfl
    | some c =>
      have hu : usedBy P roots1 c = true := by
        unfold usedBy
        rw [List.any_eq_true]
        exact ⟨r, hr, by simp [hc]⟩
      simp only [getB_chosenArr, hl c hu]

theorem model_agree :
    AgreeOn (getB (relevantAtoms P.rules P.natoms roots1)) (model P roots1 l).1 (model P roots2 l').1 ∧
    AgreeOn (getB (relevantAtoms P.rules P.natoms roots1)) (model P roots1 l).2 (model P roots2 l').2 :=
  wfm_relevant (relPart P hsub hl)

theorem root_agree {a : Nat} (ha : a ∈ roots1) :
    getB (model P roots1 l).1 a = getB (model P roots2 l').1 a := by
  by_cases hlt : a < P.natoms
  · exact (model_agree P hsub hl).1 a ((relevant_iff_reach _ _ _ _).2 (Reach.root ha hlt))
  · have s1 := (wfm_size (restrict P roots1).rules (chosenArr P.nchoices l) P.natoms).1
    have s2 := (wfm_size (restrict P roots2).rules (chosenArr P.nchoices l') P.natoms).1
    unfold model
    rw [getB_of_size_le (by omega), getB_of_size_le (by omega)]

theorem evHolds_agree {evidence : List (Nat × Bool)} (hev : ∀ e ∈ evidence, e.1 ∈ roots1) :
    evHolds P roots1 evidence l = evHolds P roots2 evidence l' := by
  unfold evHolds
  apply all_congr_mem
  intro e he
  obtain ⟨a, v⟩ := e
  show (getB (model P roots1 l).1 a == v) = (getB (model P roots2 l').1 a == v)
  rw [root_agree P hsub hl (hev (a, v) he)]

theorem undefIn_imp (h : undefIn P roots1 l = true) : undefIn P roots2 l' = true := by
  unfold undefIn at *
  rw [List.any_eq_true] at *
  obtain ⟨a, ha, hx⟩ := h
  refine ⟨a, ha, ?_⟩
  simp only [Bool.and_eq_true] at hx ⊢
  obtain ⟨hD, hne⟩ := hx
  refine ⟨rel_le P hsub a hD, ?_⟩
  rw [← (model_agree P hsub hl).1 a hD, ← (model_agree P hsub hl).2 a hD]
  exact hne

end

/-- `z`-indicator of the small problem as a function of the selected choices -/
def Jz (P : Prog) (roots : List Nat) (evidence : List (Nat × Bool)) (l : List Nat) : Rat :=
  if !undefIn P roots l && evHolds P roots evidence l then 1 else 0

def Jq (P : Prog) (roots : List Nat) (evidence : List (Nat × Bool)) (q : Nat) (l : List Nat) : Rat :=
  if (!undefIn P roots l && evHolds P roots evidence l) && getB (model P roots l).1 q then 1 else 0

theorem undefIn_dep (P : Prog) (roots : List Nat) {l l' : List Nat}
    (hl : ∀ c, usedBy P roots c = true → (c ∈ l ↔ c ∈ l')) : undefIn P roots l = undefIn P roots l' := by
  have h1 := undefIn_imp P (roots1 := roots) (roots2 := roots) (fun _ h => h) hl
  have h2 := undefIn_imp P (roots1 := roots) (roots2 := roots) (fun _ h => h) (fun c hc => (hl c hc).symm)
  cases ha : undefIn P roots l
  · cases hb : undefIn P roots l'
    · rfl
    · rw [h2 hb] at ha; cases ha
  · exact (h1 ha).symm

theorem Jz_dep (P : Prog) (roots : List Nat) (evidence : List (Nat × Bool))
    (hev : ∀ e ∈ evidence, e.1 ∈ roots) : DependsOn (usedBy P roots) (Jz P roots evidence) := by
  intro l l' hl
  unfold Jz
  rw [undefIn_dep P roots hl, evHolds_agree P (fun _ h => h) hl hev]

theorem Jq_dep (P : Prog) (roots : List Nat) (evidence : List (Nat × Bool))
    (hev : ∀ e ∈ evidence, e.1 ∈ roots) (q : Nat) (hq : q ∈ roots) :
    DependsOn (usedBy P roots) (Jq P roots evidence q) := by
  intro l l' hl
  unfold Jq
  rw [undefIn_dep P roots hl, evHolds_agree P (fun _ h => h) hl hev, root_agree P (fun _ h => h) hl hq]

theorem nat_sum_zero {α : Type} (f : α → Nat) (xs : List α) (h : (xs.map f).sum = 0) : ∀ x ∈ xs, f x = 0 := by
  induction xs with
  | nil => intro x hx; cases hx
  | cons y ys ih =>
    simp only [List.map_cons, List.sum_cons] at h
    intro x hx
    rcases List.mem_cons.1 hx with rfl | hx
    · omega
    · exact ih (by omega) x hx

/-- the group filter of `restrict` -/
def pGroup (P : Prog) (roots : List Nat) (g : Group) : Bool := g.alts.any (fun pc => usedBy P roots pc.2)

theorem restrict_groups_eq (P : Prog) (roots : List Nat) :
    (restrict P roots).groups = P.groups.filter (pGroup P roots) := rfl

theorem usedBy_mono (P : Prog) {roots1 roots2 : List Nat} (hsub : ∀ a ∈ roots1, a ∈ roots2) (c : Nat)
    (h : usedBy P roots1 c = true) : usedBy P roots2 c = true := by
  unfold usedBy at *
  rw [List.any_eq_true] at *
  obtain ⟨r, hr, hc⟩ := h
  refine ⟨r, ?_, hc⟩
  rw [restrict_rules, List.mem_filter] at *
  exact ⟨hr.1, rel_le P hsub _ hr.2⟩

theorem E_small_eq_big (P : Prog) {roots1 roots2 : List Nat} (hsub : ∀ a ∈ roots1, a ∈ roots2)
    (I : List Nat → Rat) (hI : DependsOn (usedBy P roots1) I) :
    E (restrict P roots2).groups I = E (restrict P roots1).groups I := by
  rw [restrict_groups_eq, restrict_groups_eq]
  apply marginal (usedBy P roots1) (pGroup P roots1) (pGroup P roots2) _ P.groups I hI
  · intro g _ hp pc hpc
    unfold pGroup at hp
    cases hu : usedBy P roots1 pc.2
    · rfl
    · have : g.alts.any (fun pc => usedBy P roots1 pc.2) = true := List.any_eq_true.2 ⟨pc, hpc, hu⟩
      rw [this] at hp; cases hp
  · intro g hg
    unfold pGroup at *
    rw [List.any_eq_true] at *
    obtain ⟨pc, hpc, hu⟩ := hg
    exact ⟨pc, hpc, usedBy_mono P hsub _ hu⟩

theorem beq_zero_false {x : Rat} (hx : x ≠ 0) : (x == 0) = false := by simpa using hx

theorem irrelevant (P : Prog) {roots1 roots2 : List Nat} (hsub : ∀ a ∈ roots1, a ∈ roots2)
    (evidence : List (Nat × Bool)) (hev : ∀ e ∈ evidence, e.1 ∈ roots1) (H : undefOf P roots2 = 0) :
    zOf P roots2 evidence = zOf P roots1 evidence ∧
    ∀ q ∈ roots1, numOf P roots2 evidence q = numOf P roots1 evidence q := by
  have hH : ∀ w ∈ worlds (restrict P roots2).groups, w.weight ≠ 0 → undefIn P roots2 w.chosen = false := by
    intro w hw hx
    have := nat_sum_zero _ _ H w hw
    unfold undefTerm at this
    cases hu : undefIn P roots2 w.chosen
    · rfl
    · simp [hu, beq_zero_false hx] at this
  have hself : ∀ l : List Nat, ∀ c, usedBy P roots1 c = true → (c ∈ l ↔ c ∈ l) := fun _ _ _ => Iff.rfl
  have hu1 : ∀ w ∈ worlds (restrict P roots2).groups, w.weight ≠ 0 → undefIn P roots1 w.chosen = false := by
    intro w hw hx
    cases hu : undefIn P roots1 w.chosen
    · rfl
    · have := undefIn_imp P hsub (hself w.chosen) hu
      rw [hH w hw hx] at this; cases this
  constructor
  · rw [zOf_eq_S, zOf_eq_S]
    rw [S_eq_E (restrict P roots1).groups (Fz P roots1 evidence) (Jz P roots1 evidence),
      S_eq_E (restrict P roots2).groups (Fz P roots2 evidence) (Jz P roots1 evidence)]
    · exact E_small_eq_big P hsub _ (Jz_dep P roots1 evidence hev)
    · intro w hw
      unfold Fz Jz
      by_cases hx : w.weight = 0
      · simp [hx]
      · rw [hH w hw hx, hu1 w hw hx, ← evHolds_agree P hsub (hself w.chosen) hev, beq_zero_false hx]
        cases evHolds P roots1 evidence w.chosen <;> simp
    · intro w _
      unfold Fz Jz
      by_cases hx : w.weight = 0
      · simp [hx]
      · rw [beq_zero_false hx]
        cases undefIn P roots1 w.chosen <;> cases evHolds P roots1 evidence w.chosen <;> simp
  · intro q hq
    rw [numOf_eq_S, numOf_eq_S]
    rw [S_eq_E (restrict P roots1).groups (Fn P roots1 evidence q) (Jq P roots1 evidence q),
      S_eq_E (restrict P roots2).groups (Fn P roots2 evidence q) (Jq P roots1 evidence q)]
    · exact E_small_eq_big P hsub _ (Jq_dep P roots1 evidence hev q hq)
    · intro w hw
      unfold Fn Jq
      by_cases hx : w.weight = 0
      · simp [hx]
      · rw [hH w hw hx, hu1 w hw hx, ← evHolds_agree P hsub (hself w.chosen) hev,
          ← root_agree P hsub (hself w.chosen) hq, beq_zero_false hx]
        cases evHolds P roots1 evidence w.chosen <;> cases getB (model P roots1 w.chosen).1 q <;> simp
    · intro w _
      unfold Fn Jq
      by_cases hx : w.weight = 0
      · simp [hx]
      · rw [beq_zero_false hx]
        cases undefIn P roots1 w.chosen <;> cases evHolds P roots1 evidence w.chosen <;>
          cases getB (model P roots1 w.chosen).1 q <;> simp

theorem nat_sum_zero' {α : Type} (f : α → Nat) (xs : List α) (h : ∀ x ∈ xs, f x = 0) : (xs.map f).sum = 0 := by
  induction xs with
  | nil => rfl
  | cons y ys ih =>
    simp only [List.map_cons, List.sum_cons, h y List.mem_cons_self,
      ih (fun x hx => h x (List.mem_cons_of_mem _ hx))]

/-- if the larger problem has no undefined world, neither has the smaller one -/
theorem undefOf_small (P : Prog) {roots1 roots2 : List Nat} (hsub : ∀ a ∈ roots1, a ∈ roots2)
    (H : undefOf P roots2 = 0) : undefOf P roots1 = 0 := by
  unfold undefOf
  apply nat_sum_zero'
  intro w1 hw1
  unfold undefTerm
  by_cases hx : w1.weight = 0
  · simp [hx]
  · cases hu : undefIn P roots1 w1.chosen
    · simp
    · exfalso
      rw [restrict_groups_eq] at hw1
      obtain ⟨w2, hw2, hx2, hag⟩ := extend_world (usedBy P roots1) (pGroup P roots1) (pGroup P roots2)
        (by
          intro g hg
          unfold pGroup at *
          rw [List.any_eq_true] at *
          obtain ⟨pc, hpc, hu⟩ := hg
          exact ⟨pc, hpc, usedBy_mono P hsub _ hu⟩)
        P.groups
        (by
          intro g _ hp pc hpc
          unfold pGroup at hp
          cases hu : usedBy P roots1 pc.2
          · rfl
          · have : g.alts.any (fun pc => usedBy P roots1 pc.2) = true := List.any_eq_true.2 ⟨pc, hpc, hu⟩
            rw [this] at hp; cases hp)
        w1 hw1 hx
      have h2 := undefIn_imp P hsub hag hu
      have := nat_sum_zero _ _ H w2 (by rw [restrict_groups_eq]; exact hw2)
      unfold undefTerm at this
      simp [h2, beq_zero_false hx2] at this

end ProbLogProofs.SemIrrelevant
