import ProbLogModel.GroundFO
import ProbLogModel.GroundFOSpec
import ProbLogProofs.Lemmas.GroundInv
import ProbLogProofs.Lemmas.GroundFOInv
/-!
# First-order grounder model: semantic definitions (core Lean only)

`M : Pred → List Const → Bool` is a model of the first-order completion of the program under the total choice
`chosen` (`IsModelFO`): an atom `p(a)` is true iff some clause of `p` has an instance with head `p(a)` whose body is
true.  `gl τ l` grounds run-time values with an assignment `τ` of the unbound variables; `Fits args a`: the ground
tuple `a` is an instance of the call arguments.
-/
namespace ProbLogProofs.GroundFOSem
open ProbLogModel ProbLogModel.Formula ProbLogModel.GroundFO ProbLogProofs.GroundInv ProbLogProofs.GroundFOInv
open ProbLogModel.Sem (getB)

abbrev Model := Pred → List Const → Bool

def gv (τ : Nat → Const) : Val → Const
  | .c x => x
  | .v i => τ i

def gl (τ : Nat → Const) (l : List Val) : List Const := l.map (gv τ)

def Fits (args : List Val) (a : List Const) : Prop := ∃ τ, gl τ args = a

def litTrueFO (M : Model) (θ : List Const) : Lit → Bool
  | .pos a => M a.pred (a.args.map (Term.ground θ))
  | .neg a => !M a.pred (a.args.map (Term.ground θ))
  | .tt => true

def itemTrueFO (nc : Nat) (chosen : Array Bool) (M : Model) (θ : List Const) : Item → Bool
  | .lit l => litTrueFO M θ l
  | .choice c => getB chosen (c.ident + enc nc θ)

/-- clause `c` of predicate `p` derives the ground atom `p(a)` in `M` -/
def Derives (nc : Nat) (chosen : Array Bool) (M : Model) (c : Clause) (a : List Const) : Prop :=
  match c with
  | .fact args ident prob => args = a ∧ (prob = none ∨ getB chosen ident = true)
  | .rule head n body ch =>
    ∃ θ : List Const, θ.length = n ∧ head.map (Term.ground θ) = a ∧
      (items body ch).all (itemTrueFO nc chosen M θ) = true

def IsModelFO (P : Prog) (chosen : Array Bool) (M : Model) : Prop :=
  ∀ p a, M p a = true ↔ ∃ c ∈ P.clausesOf p, Derives P.nconsts chosen M c a

/-! ### variables in range -/

def Term.inRange (n : Nat) : Term → Prop
  | .const _ => True
  | .var i => i < n

def Item.inRange (n : Nat) : Item → Prop
  | .lit (.pos a) => ∀ t ∈ a.args, Term.inRange n t
  | .lit (.neg a) => ∀ t ∈ a.args, Term.inRange n t
  | .lit .tt => True
  | .choice _ => True

/-- every variable index of a clause is below its variable count (what ClauseDB produces) -/
def VarsOK (P : Prog) : Prop :=
  ∀ p, ∀ c ∈ P.clausesOf p, ∀ head n body ch, c = Clause.rule head n body ch →
    (∀ t ∈ head, Term.inRange n t) ∧ ∀ i ∈ items body ch, Item.inRange n i

theorem gl_length (τ : Nat → Const) (l : List Val) : (gl τ l).length = l.length := by simp [gl]

theorem val_ground (τ : Nat → Const) (ctx : Ctx) (t : Term) (h : Term.inRange ctx.length t) :
    gv τ (Term.val ctx t) = Term.ground (gl τ ctx) t := by
  cases t with
  | const c => rfl
  | var i =>
    have hi : i < ctx.length := h
    simp only [Term.val, Term.ground, gl]
    rw [List.getD_eq_getElem?_getD, List.getD_eq_getElem?_getD, List.getElem?_map,
      List.getElem?_eq_getElem hi]
    rfl

theorem vals_ground (τ : Nat → Const) (ctx : Ctx) (ts : List Term) (h : ∀ t ∈ ts, Term.inRange ctx.length t) :
    gl τ (ts.map (Term.val ctx)) = ts.map (Term.ground (gl τ ctx)) := by
  induction ts with
  | nil => rfl
  | cons t r ih =>
    simp only [gl, List.map_cons] at ih ⊢
    rw [show gv τ (Term.val ctx t) = Term.ground (gl τ ctx) t from val_ground τ ctx t (h t List.mem_cons_self)]
    rw [ih (fun t' ht' => h t' (List.mem_cons_of_mem _ ht'))]
    rfl

theorem allConsts_gl {l : List Val} {cs : List Const} (h : allConsts l = some cs) (τ : Nat → Const) : gl τ l = cs := by
  induction l generalizing cs with
  | nil => simp [allConsts] at h; subst h; rfl
  | cons x r ih =>
    cases x with
    | v i => simp [allConsts] at h
    | c y =>
      simp only [allConsts, Option.map_eq_some_iff] at h
      obtain ⟨cs', h1, rfl⟩ := h
      simp only [gl, List.map_cons, gv]
      rw [show List.map (gv τ) r = cs' from ih h1]

/-- every grounding of `ctx'` is a grounding of `ctx` (`ctx'` is `ctx` with more variables bound) -/
def Refines (ctx ctx' : Ctx) : Prop := ∀ τ', ∃ τ, gl τ ctx = gl τ' ctx'

theorem Refines.refl (ctx : Ctx) : Refines ctx ctx := fun τ => ⟨τ, rfl⟩

theorem Refines.trans {a b c : Ctx} (h1 : Refines a b) (h2 : Refines b c) : Refines a c := fun τ'' => by
  obtain ⟨τ', h'⟩ := h2 τ''
  obtain ⟨τ, h⟩ := h1 τ'
  exact ⟨τ, h.trans h'⟩

/-! ### the unification facts the semantic layer needs (proved in `GroundFOUnify.lean`) -/

structure UnifOK : Prop where
  /-- `unifyHead` returns the `n` values of the clause variables -/
  head_len : ∀ n call head ctx, unifyHead n call head = some ctx → ctx.length = n
  /-- soundness: every grounding of the context makes the head an instance of the call -/
  head_sound : ∀ n call head ctx, (∀ t ∈ head, Term.inRange n t) → unifyHead n call head = some ctx →
    ∀ τ, Fits call (head.map (Term.ground (gl τ ctx)))
  /-- completeness: every clause instance whose head is an instance of the call is a grounding of the context -/
  head_complete : ∀ n call head ctx, (∀ t ∈ head, Term.inRange n t) → unifyHead n call head = some ctx →
    ∀ θ : List Const, θ.length = n → Fits call (head.map (Term.ground θ)) → ∃ τ, gl τ ctx = θ
  /-- failure: no clause instance has a head that is an instance of the call -/
  head_none : ∀ n call head, (∀ t ∈ head, Term.inRange n t) → unifyHead n call head = none →
    ∀ θ : List Const, θ.length = n → ¬ Fits call (head.map (Term.ground θ))
  /-- binding an answer: the groundings of the new context are the groundings of the old one under which the call
      arguments are the answer -/
  bind_len : ∀ args ans ctx ctx', bindAnswer args ans ctx = some ctx' → ctx'.length = ctx.length
  bind_fwd : ∀ args ans ctx ctx', bindAnswer args ans ctx = some ctx' →
    ∀ τ', ∃ τ, gl τ args = ans ∧ gl τ ctx = gl τ' ctx'
  bind_bwd : ∀ args ans ctx, ∀ τ, gl τ args = ans → ∃ ctx', bindAnswer args ans ctx = some ctx' ∧ gl τ ctx' = gl τ ctx
  /-- renaming the variables of a call apart does not change its instances -/
  canon_fits : ∀ args a, Fits (canon args []).1 a ↔ Fits args a

end ProbLogProofs.GroundFOSem
