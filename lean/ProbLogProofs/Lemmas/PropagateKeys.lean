import ProbLogProofs.Lemmas.PropagateTerm
/-!
# C06 helper lemmas (4): the dict `current` keeps one entry per node; evidence-value helpers
-/
namespace ProbLogModel.Propagate
open ProbLogModel.Formula

def keys (cur : Cur) : List Nat := cur.map Prod.fst

theorem keys_assocSet (cur : Cur) (k : Nat) (v : Key) :
    keys (assocSet cur k v) = if k ∈ keys cur then keys cur else keys cur ++ [k] := by
  unfold keys
  induction cur with
  | nil => simp [assocSet]
  | cons p r ih =>
    obtain ⟨a, b⟩ := p
    by_cases hak : a = k
    · subst hak; simp [assocSet]
    · have hka : ¬ (k = a) := fun e => hak e.symm
      simp only [assocSet, beq_iff_eq, hak, if_false, List.map_cons, ih, List.mem_cons, hka, false_or]
      split <;> simp

theorem keys_nodup_assocSet {cur : Cur} (h : (keys cur).Nodup) (k : Nat) (v : Key) : (keys (assocSet cur k v)).Nodup := by
  rw [keys_assocSet]
  split
  · exact h
  · rename_i hk
    rw [List.nodup_append]
    refine ⟨h, by simp, ?_⟩
    intro a ha b hb
    have : b = k := by simpa using hb
    subst this
    intro e; subst e; exact hk ha

theorem lookup_of_mem {cur : Cur} (h : (keys cur).Nodup) {n : Nat} {v : Key} (hm : (n, v) ∈ cur) : lookup cur n = some v := by
  induction cur with
  | nil => cases hm
  | cons p r ih =>
    obtain ⟨a, b⟩ := p
    have hnd := List.nodup_cons.1 (show (a :: keys r).Nodup from h)
    rcases List.mem_cons.1 hm with e | hr
    · cases e; simp [lookup]
    · have hne : a ≠ n := by
        intro e; subst e
        exact hnd.1 (List.mem_map.2 ⟨(a, v), hr, rfl⟩)
      simp only [lookup, beq_iff_eq, hne, if_false]
      exact ih hnd.2 hr

theorem popStep_cur (S : Store) (st st' : PState) (nid : Int) (h : popStep S st nid = .ok st') :
    st'.cur = assocSet st.cur nid.natAbs (if nid > 0 then TRUE else FALSE) := by
  unfold popStep at h
  simp only at h
  split at h
  · cases h
  · split at h
    · cases h
    · split at h
      · cases h; rfl
      · exact (compound_shape _ _ _ _ _ _ _ h).1
      · exact (compound_shape _ _ _ _ _ _ _ h).1

theorem run_keys (S : Store) (pick : Nat → List Int → Nat) :
    ∀ (fuel : Nat) (st : PState) (res : Cur), (keys st.cur).Nodup → run S pick fuel st = .ok res → (keys res).Nodup := by
  intro fuel
  induction fuel with
  | zero =>
    intro st res hk h
    unfold run at h
    split at h
    · cases h; exact hk
    · cases h
  | succ f ih =>
    intro st res hk h
    unfold run at h
    split at h
    · cases h; exact hk
    · cases hget : st.queue[pick f st.queue % st.queue.length]? with
      | none => rw [hget] at h; cases h
      | some nid =>
        rw [hget] at h
        simp only at h
        cases hps : popStep S { st with queue := st.queue.erase nid } nid with
        | error e => rw [hps] at h; cases h
        | ok st' =>
          rw [hps] at h
          have := popStep_cur S _ st' nid hps
          exact ih st' res (by rw [this]; exact keys_nodup_assocSet hk _ _) h

theorem mkQueue_nodup (l : List Int) : (mkQueue l).Nodup := by
  unfold mkQueue
  have : ∀ (l acc : List Int), acc.Nodup → (l.foldl qAdd acc).Nodup := by
    intro l
    induction l with
    | nil => intro acc h; exact h
    | cons a r ih => intro acc h; exact ih _ (qAdd_nodup h a)
  exact this l [] List.nodup_nil

/-! ### evidence values -/

theorem evValue_sound {ρ : Nat → Bool} {tbl : Cur} (h : CurOK ρ tbl) (k : Key) :
    keyVal ρ (evValue (some tbl) k) = keyVal ρ k := by
  cases k with
  | none => rfl
  | some i =>
    unfold evValue
    by_cases h0 : i = 0
    · simp [h0]
    · simp only [h0, if_false]
      have := childVal_sound h (some i) _ rfl
      exact this

theorem engineLookup_sound {ρ : Nat → Bool} {tbl : Cur} (h : CurOK ρ tbl) (k : Key) :
    keyVal ρ (engineLookup (some tbl) k) = keyVal ρ k := by
  -- what a hit in the table means
  have hit : ∀ (i : Int) (v : Key), 0 < i → lookup tbl i.natAbs = some v → keyVal ρ v = keyVal ρ (some i) := by
    intro i v hi hl
    have hne : i ≠ 0 := by omega
    have hlit := litTrue_iff ρ i hne
    unfold litTrue at hlit
    simp only [gt_iff_lt, hi, decide_true] at hlit
    rcases h.val _ v hl with ⟨hv, hρ⟩ | ⟨hv, hρ⟩
    · subst hv; rw [hlit.2 hρ]; rfl
    · subst hv
      cases hkv : keyVal ρ (some i) with
      | true => have := hlit.1 hkv; rw [hρ] at this; cases this
      | false => rfl
  unfold engineLookup
  simp only
  cases k with
  | none =>
    -- FALSE: `None in lookup` is false; negate(None) = 0: `0 in lookup` is false
    simp [negate]
  | some i =>
    by_cases hpos : 0 < i
    · simp only [hpos, if_true]
      cases hl : lookup tbl i.natAbs with
      | some v => simp only; exact hit i v hpos hl
      | none =>
        simp only
        have hne : i ≠ 0 := by omega
        rw [negate_some i hne]
        have : ¬ (0 < -i) := by omega
        simp only [this, if_false]
    · simp only [hpos, if_false]
      by_cases h0 : i = 0
      · subst h0; simp [negate]
      · rw [negate_some i h0]
        have hneg : 0 < -i := by omega
        simp only [hneg, if_true]
        cases hl : lookup tbl (-i).natAbs with
        | none => rfl
        | some v =>
          simp only
          rw [keyVal_negate, hit (-i) v hneg hl]
          have := keyVal_negate ρ (some i)
          rw [negate_some i h0] at this
          rw [this]; simp

theorem substitute_consistent {ρ : Nat → Bool} {tbl : Cur} (h : CurOK ρ tbl) {S : Store} (hS : Consistent S ρ) :
    Consistent (substitute S tbl) ρ := by
  have hall : ∀ cs : List Key, (cs.map (evValue (some tbl))).all (keyVal ρ) = cs.all (keyVal ρ) := by
    intro cs; induction cs with
    | nil => rfl
    | cons c r ih => simp only [List.map_cons, List.all_cons, ih, evValue_sound h]
  have hany : ∀ cs : List Key, (cs.map (evValue (some tbl))).any (keyVal ρ) = cs.any (keyVal ρ) := by
    intro cs; induction cs with
    | nil => rfl
    | cons c r ih => simp only [List.map_cons, List.any_cons, ih, evValue_sound h]
  intro i
  have hget : (substitute S tbl).nodes[i]? = (S.nodes[i]?).map (substNode tbl) := by
    simp [substitute, List.getElem?_map]
  constructor
  · intro cs nm hn
    rw [hget] at hn
    cases hs : S.nodes[i]? with
    | none => rw [hs] at hn; cases hn
    | some nd =>
      rw [hs] at hn
      cases nd with
      | atom a b c d => simp [substNode] at hn
      | conj cs' nm' =>
        simp only [Option.map_some, substNode, Option.some.injEq, Node.conj.injEq] at hn
        rw [← hn.1, hall]
        exact (hS i).1 cs' nm' hs
      | disj cs' nm' => simp [substNode] at hn
  · intro cs nm hn
    rw [hget] at hn
    cases hs : S.nodes[i]? with
    | none => rw [hs] at hn; cases hn
    | some nd =>
      rw [hs] at hn
      cases nd with
      | atom a b c d => simp [substNode] at hn
      | conj cs' nm' => simp [substNode] at hn
      | disj cs' nm' =>
        simp only [Option.map_some, substNode, Option.some.injEq, Node.disj.injEq] at hn
        rw [← hn.1, hany]
        exact (hS i).2 cs' nm' hs

end ProbLogModel.Propagate
