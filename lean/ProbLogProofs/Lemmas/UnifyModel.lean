import ProbLogProofs.Lemmas.UnifyMgu
/-!
Helper lemmas for C14 about the model of `unify_value`: it never raises `UnifyError` or `OccursCheck` when the two
values have a unifier that respects the bindings already in the dictionary.
-/
namespace ProbLogProofs.UnifyLemmas
open ProbLogModel.Unify

/-- `θ` respects the bindings of a `source_values` dictionary (`None` values are "unbound"). -/
def Resp (θ : Int → Tm) (sv : Dict) : Prop :=
  ∀ x v, sv.find (some x) = some v → v.isAnon = false → θ x = v.subst θ

/-- `θ` solves `a ≐ b`, where a top-level `None` is a wildcard. -/
def Sol (θ : Int → Tm) (a b : Tm) : Prop := a.isAnon = true ∨ b.isAnon = true ∨ a.subst θ = b.subst θ

/-- What `unify_value` promises about its result `r`. -/
def Res (θ : Int → Tm) (a b r : Tm) : Prop :=
  (a.isAnon = true → b.isAnon = true → r.isAnon = true) ∧
  (a.isAnon = false ∨ b.isAnon = false → r.isAnon = false) ∧
  (a.isAnon = false → r.subst θ = a.subst θ) ∧
  (b.isAnon = false → r.subst θ = b.subst θ)

def Good (θ : Int → Tm) (a b : Tm) : M (Tm × Dict) → Prop
  | .ok (r, sv') => Resp θ sv' ∧ Res θ a b r
  | .error e => e = .fuel

def GoodL (θ : Int → Tm) (as : List Tm) : M (List Tm × Dict) → Prop
  | .ok (rs, sv') => Resp θ sv' ∧ rs.map (Tm.subst θ) = as.map (Tm.subst θ)
  | .error e => e = .fuel

theorem find_set_same (d : Dict) (k : Key) (v : Tm) : (d.set k v).find k = some v := by
  induction d with
  | nil => simp [Dict.set, Dict.find]
  | cons p d ih =>
    obtain ⟨k', v'⟩ := p
    simp only [Dict.set]
    split
    · simp [Dict.find]
    · rename_i h
      simp only [Dict.find, List.find?_cons, h] at ih ⊢
      simpa using ih

theorem find_set_other (d : Dict) (k k' : Key) (v : Tm) (hne : k' ≠ k) : (d.set k v).find k' = d.find k' := by
  induction d with
  | nil =>
    have : (k == k') = false := by simpa using fun e => hne e.symm
    simp [Dict.set, Dict.find, this]
  | cons p d ih =>
    obtain ⟨k1, v1⟩ := p
    simp only [Dict.set]
    split
    · rename_i h
      have h1 : k1 = k := by simpa using h
      have : (k == k') = false := by simpa using fun e => hne e.symm
      subst h1
      simp [Dict.find, this]
    · simp only [Dict.find, List.find?_cons] at ih ⊢
      split
      · rfl
      · exact ih

theorem resp_set {θ : Int → Tm} {sv : Dict} {x : Int} {v : Tm} (h : Resp θ sv)
    (hv : v.isAnon = false → θ x = v.subst θ) : Resp θ (sv.set (some x) v) := by
  intro y w hw hw2
  by_cases e : y = x
  · subst e
    rw [find_set_same] at hw
    cases hw
    exact hv hw2
  · rw [find_set_other _ _ _ _ (by simpa using e)] at hw
    exact h y w hw hw2

theorem resp_get {θ : Int → Tm} {sv : Dict} {x : Int} (h : Resp θ sv)
    (hn : (sv.get (some x)).isAnon = false) : θ x = (sv.get (some x)).subst θ := by
  unfold Dict.get at hn ⊢
  cases hf : sv.find (some x) with
  | none => rw [hf] at hn; simp [Tm.isAnon] at hn
  | some w =>
    rw [hf] at hn
    exact h x w hf (by simpa using hn)

theorem hasKeyL_eq_any (k : Key) (as : List Tm) : Tm.hasKey.hasKeyL k as = as.any (Tm.hasKey k) := by
  induction as with
  | nil => simp [Tm.hasKey.hasKeyL]
  | cons a as ih => simp [Tm.hasKey.hasKeyL, ih]

theorem any_congr_mem {α} (l : List α) (p q : α → Bool) (h : ∀ a ∈ l, p a = q a) : l.any p = l.any q := by
  induction l with
  | nil => rfl
  | cons a l ih =>
    simp only [List.any_cons]
    rw [h a (by simp), ih (fun b hb => h b (by simp [hb]))]

theorem hasKey_eq_occ (x : Int) : ∀ t : Tm, t.hasKey (some x) = t.occ x := by
  apply Tm.ind
  · intro v
    simp only [Tm.hasKey, occ_var]
    rw [Bool.eq_iff_iff]
    simp only [beq_iff_eq, Option.some.injEq]
    exact eq_comm
  · simp [Tm.hasKey]
  · intro c; simp [Tm.hasKey]
  · intro f as ih
    simp only [Tm.hasKey, hasKeyL_eq_any, occ_app]
    exact any_congr_mem as _ _ ih

/-! ### `unifyValue` by kinds of arguments -/

theorem tm_kind (a : Tm) : (∃ x, a = .var x) ∨ a = .anon ∨ a.key? = none := by
  cases a <;> simp [Tm.key?]

theorem nonvar_not_anon {a : Tm} (h : a.key? = none) : a.isAnon = false := by
  cases a <;> simp_all [Tm.key?, Tm.isAnon]

theorem uv_anon_left (n : Nat) (b : Tm) (sv : Dict) : unifyValue (n + 1) .anon b sv = .ok (b, sv) := by
  cases b <;> simp [unifyValue, Tm.key?]

theorem uv_anon_right (n : Nat) (a : Tm) (sv : Dict) (h : a.isAnon = false) :
    unifyValue (n + 1) a .anon sv = .ok (a, sv) := by
  cases a <;> simp_all [unifyValue, Tm.key?, Tm.isAnon]

theorem uv_var_nonvar (n : Nat) (x : Int) (t : Tm) (sv : Dict) (ht : t.key? = none) :
    unifyValue (n + 1) (.var x) t sv =
      if t.hasKey (some x) then .error .occurs
      else match unifyValue n (sv.get (some x)) t sv with
        | .error e => .error e
        | .ok (value, sv) => .ok (value, sv.set (some x) value) := by
  cases t <;> first | (simp [Tm.key?] at ht; done) | (simp only [unifyValue, Tm.key?]; rfl)

theorem uv_nonvar_var (n : Nat) (x : Int) (t : Tm) (sv : Dict) (ht : t.key? = none) :
    unifyValue (n + 1) t (.var x) sv =
      if t.hasKey (some x) then .error .occurs
      else match unifyValue n (sv.get (some x)) t sv with
        | .error e => .error e
        | .ok (value, sv) => .ok (value, sv.set (some x) value) := by
  cases t <;> first | (simp [Tm.key?] at ht; done) | (simp only [unifyValue, Tm.key?]; rfl)

theorem uv_nonvar_nonvar (n : Nat) (a b : Tm) (sv : Dict) (ha : a.key? = none) (hb : b.key? = none) :
    unifyValue (n + 1) a b sv =
      if a.sig == b.sig then
        match unifyArgs n a.args b.args sv with
        | .error e => .error e
        | .ok (as, sv) => .ok (a.withArgs as, sv)
      else .error .unify := by
  cases a <;> cases b <;>
    first
    | (simp [Tm.key?] at ha; done)
    | (simp [Tm.key?] at hb; done)
    | (simp only [unifyValue, Tm.key?]; done)
    | (simp only [unifyValue, Tm.key?]; rfl)

theorem res_symm {θ : Int → Tm} {a b r : Tm} (h : Res θ a b r) : Res θ b a r := by
  obtain ⟨h1, h2, h3, h4⟩ := h
  exact ⟨fun hb ha => h1 ha hb, fun h => h2 (Or.symm h), h4, h3⟩

theorem good_symm {θ : Int → Tm} {a b : Tm} {m : M (Tm × Dict)} (h : Good θ a b m) : Good θ b a m := by
  cases m with
  | error e => exact h
  | ok p => obtain ⟨r, sv⟩ := p; exact ⟨h.1, res_symm h.2⟩

theorem sig_subst (θ : Int → Tm) (a : Tm) (h : a.key? = none) : (a.subst θ).sig = a.sig := by
  cases a <;> simp_all [Tm.key?, Tm.sig]

theorem sig_len (a : Tm) (h : a.key? = none) : a.sig.2 = a.args.length := by
  cases a <;> simp_all [Tm.key?, Tm.sig, Tm.args]

theorem nonvar_args_eq (θ : Int → Tm) (a b : Tm) (ha : a.key? = none) (hb : b.key? = none)
    (h : a.subst θ = b.subst θ) : a.args.map (Tm.subst θ) = b.args.map (Tm.subst θ) := by
  cases a <;> cases b <;> simp_all [Tm.key?, Tm.args]

theorem withArgs_subst (θ : Int → Tm) (a : Tm) (rs : List Tm) (ha : a.key? = none)
    (h : rs.map (Tm.subst θ) = a.args.map (Tm.subst θ)) : (a.withArgs rs).subst θ = a.subst θ := by
  cases a <;> simp_all [Tm.key?, Tm.args, Tm.withArgs]

theorem withArgs_nonvar (a : Tm) (rs : List Tm) (ha : a.key? = none) : (a.withArgs rs).isAnon = false := by
  cases a <;> simp_all [Tm.key?, Tm.withArgs, Tm.isAnon]

/-- Binding a variable to a non-variable term (engine_unify.py:110-127). -/
theorem bind_good (θ : Int → Tm) (n : Nat)
    (ihV : ∀ a b sv, Sol θ a b → Resp θ sv → Good θ a b (unifyValue n a b sv))
    (x : Int) (t : Tm) (sv : Dict) (ht : t.key? = none) (hxt : θ x = t.subst θ) (hresp : Resp θ sv) :
    Good θ (.var x) t
      (if t.hasKey (some x) then .error .occurs
       else match unifyValue n (sv.get (some x)) t sv with
         | .error e => .error e
         | .ok (value, sv) => .ok (value, sv.set (some x) value)) := by
  have htn := nonvar_not_anon ht
  split
  · rename_i hocc
    rw [hasKey_eq_occ] at hocc
    exfalso
    refine no_unifier_of_occ θ x t hocc ?_ hxt
    intro y e; subst e; simp [Tm.key?] at ht
  · have hsol : Sol θ (sv.get (some x)) t := by
      cases ha : (sv.get (some x)).isAnon with
      | true => exact Or.inl ha
      | false => exact Or.inr (Or.inr (by rw [← resp_get hresp ha, hxt]))
    have := ihV _ _ sv hsol hresp
    cases hr : unifyValue n (sv.get (some x)) t sv with
    | error e => rw [hr] at this; exact this
    | ok p =>
      obtain ⟨r, sv'⟩ := p
      rw [hr] at this
      obtain ⟨h1, _, h3, _, h5⟩ := this
      have hrn : r.isAnon = false := h3 (Or.inr htn)
      have hrt : r.subst θ = t.subst θ := h5 htn
      refine ⟨resp_set h1 (fun _ => by rw [hrt, hxt]), ?_, ?_, ?_, ?_⟩
      · intro h; simp [Tm.isAnon] at h
      · intro _; exact hrn
      · intro _; rw [hrt]; simpa using hxt.symm
      · intro _; exact hrt

/-- Two named variables (engine_unify.py:95-108). -/
theorem varvar_good (θ : Int → Tm) (n : Nat)
    (ihV : ∀ a b sv, Sol θ a b → Resp θ sv → Good θ a b (unifyValue n a b sv))
    (x y : Int) (sv : Dict) (hxy : θ x = θ y) (hresp : Resp θ sv) :
    Good θ (.var x) (.var y) (unifyValue (n + 1) (.var x) (.var y) sv) := by
  simp only [unifyValue, Tm.key?]
  split
  · rename_i he
    have : x = y := by simpa using he
    subst this
    refine ⟨hresp, ?_, ?_, ?_, ?_⟩ <;> simp [Tm.isAnon]
  · have hsol : Sol θ (sv.get (some x)) (sv.get (some y)) := by
      cases ha : (sv.get (some x)).isAnon with
      | true => exact Or.inl ha
      | false =>
        cases hb : (sv.get (some y)).isAnon with
        | true => exact Or.inr (Or.inl hb)
        | false => exact Or.inr (Or.inr (by rw [← resp_get hresp ha, ← resp_get hresp hb, hxy]))
    have := ihV _ _ sv hsol hresp
    cases hr : unifyValue n (sv.get (some x)) (sv.get (some y)) sv with
    | error e => rw [hr] at this; exact this
    | ok p =>
      obtain ⟨r, sv'⟩ := p
      rw [hr] at this
      obtain ⟨h1, h2, h3, h4, h5⟩ := this
      -- whatever value `V` is stored for both variables
      have key : ∀ V : Tm, V.isAnon = false → V.subst θ = θ x →
          Good θ (.var x) (.var y) (.ok (V,
            if (!Key.eqTm (some y) V) = true then
              (if (!Key.eqTm (some x) V) = true then sv'.set (some x) V else sv').set (some y) V
            else if (!Key.eqTm (some x) V) = true then sv'.set (some x) V else sv')) := by
        intro V hVn hVs
        refine ⟨?_, ?_, ?_, ?_, ?_⟩
        · have hx : Resp θ (if (!Key.eqTm (some x) V) = true then sv'.set (some x) V else sv') := by
            split
            · exact resp_set h1 (fun _ => hVs.symm)
            · exact h1
          split
          · exact resp_set hx (fun _ => by rw [hVs, hxy])
          · exact hx
        · intro h; simp [Tm.isAnon] at h
        · intro _; exact hVn
        · intro _; simpa using hVs
        · intro _; simpa [hxy] using hVs
      cases hra : r.isAnon with
      | true =>
        simp only [hra, ↓reduceIte]
        apply key
        · simp [Tm.isAnon]
        · simp only [subst_var]
          rcases Int.le_total x y with h | h
          · rw [Int.max_eq_right h]; exact hxy.symm
          · rw [Int.max_eq_left h]
      | false =>
        simp only [hra, Bool.false_eq_true, ↓reduceIte]
        apply key _ hra
        cases ha : (sv.get (some x)).isAnon with
        | false => rw [h4 ha, ← resp_get hresp ha]
        | true =>
          cases hb : (sv.get (some y)).isAnon with
          | false => rw [h5 hb, ← resp_get hresp hb, hxy]
          | true => rw [h2 ha hb] at hra; cases hra

/-- The model of `unify_value` never raises `UnifyError`/`OccursCheck` on a solvable pair. -/
theorem uv_good (θ : Int → Tm) : ∀ n : Nat,
    (∀ a b sv, Sol θ a b → Resp θ sv → Good θ a b (unifyValue n a b sv)) ∧
    (∀ as bs sv, as.length = bs.length → (∀ p ∈ as.zip bs, p.1.subst θ = p.2.subst θ) → Resp θ sv →
      GoodL θ as (unifyArgs n as bs sv)) := by
  intro n
  induction n with
  | zero =>
    constructor
    · intro a b sv _ _; simp [unifyValue, Good]
    · intro as bs sv _ _ _; simp [unifyArgs, GoodL]
  | succ n ih =>
    obtain ⟨ihV, ihL⟩ := ih
    constructor
    · intro a b sv hsol hresp
      rcases tm_kind a with ⟨x, rfl⟩ | rfl | ha
      · rcases tm_kind b with ⟨y, rfl⟩ | rfl | hb
        · apply varvar_good θ n ihV x y sv _ hresp
          rcases hsol with h | h | h
          · simp [Tm.isAnon] at h
          · simp [Tm.isAnon] at h
          · simpa using h
        · rw [uv_anon_right n _ sv (by simp [Tm.isAnon])]
          refine ⟨hresp, ?_, ?_, ?_, ?_⟩ <;> simp [Tm.isAnon]
        · rw [uv_var_nonvar n x b sv hb]
          apply bind_good θ n ihV x b sv hb _ hresp
          rcases hsol with h | h | h
          · simp [Tm.isAnon] at h
          · rw [nonvar_not_anon hb] at h; cases h
          · simpa using h
      · rw [uv_anon_left]
        refine ⟨hresp, ?_, ?_, ?_, ?_⟩
        · intro _ h; exact h
        · intro h; rcases h with h | h
          · simp [Tm.isAnon] at h
          · exact h
        · intro h; simp [Tm.isAnon] at h
        · intro _; rfl
      · have han := nonvar_not_anon ha
        rcases tm_kind b with ⟨y, rfl⟩ | rfl | hb
        · rw [uv_nonvar_var n y a sv ha]
          apply good_symm
          apply bind_good θ n ihV y a sv ha _ hresp
          rcases hsol with h | h | h
          · rw [han] at h; cases h
          · simp [Tm.isAnon] at h
          · simpa using h.symm
        · rw [uv_anon_right n a sv han]
          refine ⟨hresp, ?_, ?_, ?_, ?_⟩
          · intro h; rw [han] at h; cases h
          · intro _; exact han
          · intro _; rfl
          · intro h; simp [Tm.isAnon] at h
        · have hbn := nonvar_not_anon hb
          have heq : a.subst θ = b.subst θ := by
            rcases hsol with h | h | h
            · rw [han] at h; cases h
            · rw [hbn] at h; cases h
            · exact h
          rw [uv_nonvar_nonvar n a b sv ha hb]
          have hsig : a.sig = b.sig := by rw [← sig_subst θ a ha, ← sig_subst θ b hb, heq]
          have hargs := nonvar_args_eq θ a b ha hb heq
          have hlen : a.args.length = b.args.length := by
            rw [← sig_len a ha, ← sig_len b hb, hsig]
          simp only [hsig, beq_self_eq_true, if_true]
          have := ihL a.args b.args sv hlen ((map_eq_iff_zip θ _ _ hlen).1 hargs) hresp
          cases hr : unifyArgs n a.args b.args sv with
          | error e => rw [hr] at this; exact this
          | ok p =>
            obtain ⟨rs, sv'⟩ := p
            rw [hr] at this
            obtain ⟨h1, h2⟩ := this
            have hw := withArgs_subst θ a rs ha h2
            refine ⟨h1, ?_, ?_, ?_, ?_⟩
            · intro h; rw [han] at h; cases h
            · intro _; exact withArgs_nonvar a rs ha
            · intro _; exact hw
            · intro _; rw [hw, heq]
    · intro as bs sv hlen hp hresp
      cases as with
      | nil =>
        cases bs with
        | nil => simp [unifyArgs, GoodL, hresp]
        | cons b bs => simp at hlen
      | cons a as =>
        cases bs with
        | nil => simp at hlen
        | cons b bs =>
          simp only [List.length_cons, Nat.add_right_cancel_iff] at hlen
          simp only [List.zip_cons_cons, List.mem_cons, forall_eq_or_imp] at hp
          simp only [unifyArgs]
          have h1 := ihV a b sv (Or.inr (Or.inr hp.1)) hresp
          cases hr : unifyValue n a b sv with
          | error e => rw [hr] at h1; simp only [Good, GoodL] at h1 ⊢; exact h1
          | ok p =>
            obtain ⟨r, sv1⟩ := p
            rw [hr] at h1
            obtain ⟨hresp1, hres⟩ := h1
            have h2 := ihL as bs sv1 hlen hp.2 hresp1
            show GoodL θ (a :: as) (match unifyArgs n as bs sv1 with
              | .error e => .error e
              | .ok (rs, sv) => .ok (r :: rs, sv))
            cases hr2 : unifyArgs n as bs sv1 with
            | error e => rw [hr2] at h2; simp only [GoodL] at h2 ⊢; exact h2
            | ok p2 =>
              obtain ⟨rs, sv2⟩ := p2
              rw [hr2] at h2
              obtain ⟨hresp2, hrs⟩ := h2
              simp only [GoodL]
              refine ⟨hresp2, ?_⟩
              simp only [List.map_cons, hrs, List.cons.injEq, and_true]
              -- the head: r is θ-equal to a
              obtain ⟨q1, q2, q3, q4⟩ := hres
              cases haa : a.isAnon with
              | false => exact q3 haa
              | true =>
                cases hba : b.isAnon with
                | false => rw [q4 hba, hp.1]
                | true =>
                  have hra := q1 haa hba
                  cases r <;> cases a <;> simp_all [Tm.isAnon]
