import ProbLogProofs.Lemmas.ClarkDag
/-!
Helper lemmas for C09 (Clark half): the clauses of an annotated-disjunction constraint say "exactly one".
-/
namespace ProbLogProofs.Lemmas.Clark
open ProbLogModel.Formula ProbLogModel.Clark

theorem litVal_negOfNat (v : Nat → Bool) (n : Nat) (h : 0 < n) : litVal v (-(Int.ofNat n)) = !(v n) := by
  have : (Int.ofNat n) = (n : Int) := rfl
  rw [this, litVal_neg v n (by omega), litVal_ofNat]

/-- the pairwise clauses hold iff at most one listed variable (counted by position) is true -/
theorem exclusive_iff (v : Nat → Bool) : ∀ (l : List Nat), (∀ x ∈ l, 0 < x) →
    (satCNF v (exclusive (l.map Int.ofNat)) = true ↔ l.countP v ≤ 1) := by
  intro l
  induction l with
  | nil => intro _; simp [exclusive, satCNF]
  | cons n rest ih =>
    intro hpos
    have hn : 0 < n := hpos n List.mem_cons_self
    have hrest : ∀ x ∈ rest, 0 < x := fun x hx => hpos x (List.mem_cons_of_mem _ hx)
    simp only [List.map_cons, exclusive, satCNF_append, Bool.and_eq_true, ih hrest]
    have hfirst : satCNF v ((rest.map Int.ofNat).map (fun m => [-(Int.ofNat n), -m])) = true ↔
        (v n = true → rest.countP v = 0) := by
      simp only [satCNF, List.all_map, List.all_eq_true, Function.comp, satClause, List.any_cons,
        List.any_nil, Bool.or_false, List.countP_eq_zero]
      constructor
      · intro H hv x hx
        have := H x hx
        rw [litVal_negOfNat v n hn, litVal_negOfNat v x (hrest x hx), hv] at this
        simpa using this
      · intro H x hx
        rw [litVal_negOfNat v n hn, litVal_negOfNat v x (hrest x hx)]
        by_cases hv : v n = true
        · have := H hv x hx
          simp [hv, this]
        · have hv' : v n = false := by simpa using hv
          simp [hv']
    rw [hfirst, List.countP_cons]
    by_cases hv : v n = true
    · simp only [hv, if_true, forall_const]; omega
    · simp only [hv]
      constructor
      · intro h; exact h.2
      · intro h; exact ⟨fun h' => absurd h' (by simp), h⟩

/-- the long clause holds iff at least one listed variable is true -/
theorem clause_iff (v : Nat → Bool) (l : List Nat) :
    satClause v (l.map Int.ofNat) = true ↔ 1 ≤ l.countP v := by
  simp only [satClause, List.any_map, List.any_eq_true, Function.comp]
  have : ∀ x : Nat, litVal v (Int.ofNat x) = v x := fun x => litVal_ofNat v x
  simp only [this]
  rw [Nat.succ_le_iff, List.countP_pos_iff]

theorem adClauses_iff (v : Nat → Bool) (c : ADC) (e : Nat) (cls : List Clause) (hlen : 1 < c.nodes.length)
    (hex : c.extra = some e) (hpos : ∀ x ∈ c.nodes ++ [e], 0 < x) (h : adClauses c = .ok cls) :
    satCNF v cls = true ↔ (c.nodes ++ [e]).countP v = 1 := by
  unfold adClauses at h
  rw [if_neg (by omega), hex] at h
  simp only at h
  cases h
  have hm : c.nodes.map (fun n => Int.ofNat n) ++ [Int.ofNat e] = (c.nodes ++ [e]).map Int.ofNat := by simp
  rw [hm, satCNF_append, Bool.and_eq_true, exclusive_iff v _ hpos]
  simp only [satCNF, List.all_cons, List.all_nil, Bool.and_true]
  rw [clause_iff]
  omega

end ProbLogProofs.Lemmas.Clark
