import Mathlib.Analysis.SpecialFunctions.Log.Basic
import ProbLogModel.SemiringPrelude
/-!
# Real-valued instance of `LogNum` for the generated log-probability semiring

`LogVal` = ℝ ∪ {−∞} plus an absorbing `nan` standing for every float result outside that set (`+inf`, `nan`):
`toProb nan = none`, so a theorem concluding `toProb r = some …` also says that no such value was produced.
`exp`, `log` are Mathlib's `Real.exp`, `Real.log`; `log1p x = log (1 + x)`.
-/
namespace ProbLogProofs
open ProbLogModel.SemiringPrelude

inductive LogVal where
  | ninf
  | fin (r : ℝ)
  | nan

namespace LogVal

noncomputable section

def add : LogVal → LogVal → LogVal
  | fin x, fin y => fin (x + y)
  | ninf, ninf => ninf
  | ninf, fin _ => ninf
  | fin _, ninf => ninf
  | _, _ => nan

/-- `fin − (−∞) = +∞` and `(−∞) − (−∞) = nan` are outside ℝ ∪ {−∞}. -/
def sub : LogVal → LogVal → LogVal
  | fin x, fin y => fin (x - y)
  | ninf, fin _ => ninf
  | _, _ => nan

def neg : LogVal → LogVal
  | fin x => fin (-x)
  | _ => nan

def lt : LogVal → LogVal → Prop
  | fin x, fin y => x < y
  | ninf, fin _ => True
  | _, _ => False

def le : LogVal → LogVal → Prop
  | fin x, fin y => x ≤ y
  | ninf, fin _ => True
  | ninf, ninf => True
  | _, _ => False

open Classical in
def beq : LogVal → LogVal → Bool
  | fin x, fin y => decide (x = y)
  | ninf, ninf => true
  | _, _ => false

def exp : LogVal → LogVal
  | fin x => fin (Real.exp x)
  | ninf => fin 0
  | nan => nan

/-- raw `log` (the Python-level `math.log` is `pyLog`, which raises unless the argument is positive) -/
def log : LogVal → LogVal
  | fin x => if 0 < x then fin (Real.log x) else if x = 0 then ninf else nan
  | _ => nan

def log1p : LogVal → LogVal
  | fin x => if -1 < x then fin (Real.log (1 + x)) else nan
  | _ => nan

instance : LogNum LogVal where
  add := add
  sub := sub
  neg := neg
  beq := beq
  lt := lt
  le := le
  ofRat := fun q => fin (q : ℝ)
  inf := nan
  ninf := ninf
  exp := exp
  log := log
  log1p := log1p
  decLt := fun _ _ => Classical.propDecidable _
  decLe := fun _ _ => Classical.propDecidable _

/-- The probability denoted by a log-value. -/
def toProb : LogVal → Option ℝ
  | ninf => some 0
  | fin x => some (Real.exp x)
  | nan => none

end

@[simp] theorem add_def (a b : LogVal) : a + b = add a b := rfl
@[simp] theorem sub_def (a b : LogVal) : a - b = sub a b := rfl
@[simp] theorem neg_def (a : LogVal) : -a = neg a := rfl
/-! Order facts are stated as `Iff` (not as definitional unfoldings) so that `simp` can rewrite them under `decide`. -/
@[simp] theorem fin_lt_fin (x y : ℝ) : (fin x < fin y) ↔ x < y := Iff.rfl
@[simp] theorem ninf_lt_fin (y : ℝ) : (ninf < fin y) ↔ True := Iff.rfl
@[simp] theorem lt_ninf (a : LogVal) : (a < ninf) ↔ False := by cases a <;> exact Iff.rfl
@[simp] theorem nan_lt (a : LogVal) : (nan < a) ↔ False := by cases a <;> exact Iff.rfl
@[simp] theorem lt_nan (a : LogVal) : (a < nan) ↔ False := by cases a <;> exact Iff.rfl
@[simp] theorem fin_le_fin (x y : ℝ) : (fin x ≤ fin y) ↔ x ≤ y := Iff.rfl
@[simp] theorem ninf_le_fin (y : ℝ) : (ninf ≤ fin y) ↔ True := Iff.rfl
@[simp] theorem ninf_le_ninf : (ninf ≤ ninf) ↔ True := Iff.rfl
@[simp] theorem fin_le_ninf (x : ℝ) : (fin x ≤ ninf) ↔ False := Iff.rfl
@[simp] theorem nan_le (a : LogVal) : (nan ≤ a) ↔ False := by cases a <;> exact Iff.rfl
@[simp] theorem le_nan (a : LogVal) : (a ≤ nan) ↔ False := by cases a <;> exact Iff.rfl
@[simp] theorem beq_def (a b : LogVal) : (a == b) = beq a b := rfl
@[simp] theorem ofRat_def (q : Rat) : (LogNum.ofRat q : LogVal) = fin (q : ℝ) := rfl
@[simp] theorem ninf_def : (LogNum.ninf : LogVal) = ninf := rfl
@[simp] theorem exp_def (a : LogVal) : LogNum.exp a = exp a := rfl
@[simp] theorem log_def (a : LogVal) : LogNum.log a = log a := rfl
@[simp] theorem log1p_def (a : LogVal) : LogNum.log1p a = log1p a := rfl

theorem toProb_eq_some {a : LogVal} {p : ℝ} (h : toProb a = some p) :
    (a = ninf ∧ p = 0) ∨ ∃ x, a = fin x ∧ p = Real.exp x := by
  cases a with
  | ninf => left; simp [toProb] at h; exact ⟨rfl, h.symm⟩
  | fin x => right; simp [toProb] at h; exact ⟨x, rfl, h.symm⟩
  | nan => simp [toProb] at h

/-- log-sum-exp: the identity behind `SemiringLogProbability.plus`. -/
theorem log_sum_exp (a b : ℝ) : Real.exp (b + Real.log (1 + Real.exp (a - b))) = Real.exp a + Real.exp b := by
  have hb : 0 < Real.exp b := Real.exp_pos b
  have h1 : 0 < 1 + Real.exp (a - b) := by positivity
  rw [Real.exp_add, Real.exp_log h1, Real.exp_sub]
  field_simp
  ring

theorem exp_le_inv_one_sub (x : ℝ) (hx1 : x < 1) : Real.exp x ≤ 1 / (1 - x) := by
  have := Real.add_one_le_exp (-x)
  rw [Real.exp_neg] at this
  have hpos : 0 < 1 - x := by linarith
  have hexp := Real.exp_pos x
  have h1 : (1 - x) * Real.exp x ≤ 1 := by
    have : (1 - x) * Real.exp x ≤ (Real.exp x)⁻¹ * Real.exp x := by
      apply mul_le_mul_of_nonneg_right _ hexp.le; linarith
    rwa [inv_mul_cancel₀ hexp.ne'] at this
  rw [le_div_iff₀ hpos]; linarith

theorem exp_small : Real.exp ((1000000000000:ℝ)⁻¹) ≤ 1 + 1/1000000000 := by
  have h := exp_le_inv_one_sub ((1000000000000:ℝ)⁻¹) (by norm_num)
  have h3 : 1 / (1 - (1000000000000:ℝ)⁻¹) ≤ 1 + 1/1000000000 := by norm_num
  linarith

end LogVal
end ProbLogProofs
