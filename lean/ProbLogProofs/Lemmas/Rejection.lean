import ProbLogModel.Tasks.Sample
/-! C22: law of the rejection sampler on a finite distribution (core Lean only). -/
namespace ProbLogProofs.Sample
open ProbLogModel.Tasks.Sample

theorem mass_append {α : Type} (d1 d2 : Dist α) (f : α → Bool) : mass (d1 ++ d2) f = mass d1 f + mass d2 f := by
  induction d1 with
  | nil => simp [mass]; grind
  | cons e d ih => simp only [List.cons_append, mass, ih]; grind

theorem mass_scale {α : Type} (d : Dist α) (q : Rat) (f : α → Bool) :
    mass (d.map (fun e => (e.1, q * e.2))) f = q * mass d f := by
  induction d with
  | nil => simp [mass]
  | cons e d ih =>
    simp only [List.map_cons, mass, ih]
    split <;> grind

/-- an event about the accepted sample (`none` = nothing accepted) -/
def onSome {α : Type} (f : α → Bool) : Option α → Bool
  | some a => f a
  | none => false

theorem mass_accept {α : Type} (D : Dist α) (ev f : α → Bool) :
    mass ((D.filter (fun e => ev e.1)).map (fun e => (some e.1, e.2))) (onSome f) = mass D (fun a => f a && ev a) := by
  induction D with
  | nil => simp [mass]
  | cons e D ih =>
    by_cases he : ev e.1 = true
    · simp only [List.filter_cons, he, if_true, List.map_cons, mass, ih, onSome, Bool.and_true]
      rfl
    · have he' : ev e.1 = false := by simpa using he
      simp only [List.filter_cons, he', Bool.false_eq_true, if_false, mass, ih, Bool.and_false]
      grind

/-- 1 + q + … + q^(n-1) -/
def geom (q : Rat) : Nat → Rat
  | 0 => 0
  | n + 1 => 1 + q * geom q n

theorem rejection_mass {α : Type} (D : Dist α) (ev f : α → Bool) (n : Nat) :
    mass (rejection D ev n) (onSome f) = geom (mass D (fun a => !ev a)) n * mass D (fun a => f a && ev a) := by
  induction n with
  | zero => simp [rejection, mass, onSome, geom]; grind
  | succ n ih =>
    simp only [rejection, mass_append, mass_accept, geom]
    rw [mass_scale, ih]
    grind

end ProbLogProofs.Sample
