/-
The binary steps of the max-product evaluation preserve `Spec`.
-/
import ProbLogProofs.Lemmas.MPEMaxProd

open Finset
namespace ProbLogProofs.MPE
open ProbLogModel.MPE

variable {W : Weights}

theorem spec_tt : Spec W (fun _ => true) ⟨one, []⟩ where
  nodup := List.nodup_nil
  nonneg := by simp [one]
  dep := fun _ _ _ => rfl
  bound := fun m _ => by simp [prodF, one]
  wit := fun _ => ⟨fun _ => false, rfl, by simp [prodF, one], by intro x; simp [one]⟩

theorem spec_ff (U : List Nat) (hU : U.Nodup) : Spec W (fun _ => false) ⟨zero, U⟩ where
  nodup := hU
  nonneg := by simp [zero]
  dep := fun _ _ _ => rfl
  bound := fun m h => by simp at h
  wit := fun h => by simp [zero] at h

theorem spec_lit (hW : NonNeg W) (l : Int) :
    Spec W (fun m => if l < 0 then !(m l.natAbs) else m l.natAbs)
      ⟨if l < 0 then (W l.natAbs).2 else (W l.natAbs).1, [l.natAbs]⟩ where
  nodup := by simp
  nonneg := by
    by_cases h : l < 0
    · simp only [h, if_true]; exact (hW _).2
    · simp only [h, if_false]; exact (hW _).1
  dep := fun m m' h => by
    have := h l.natAbs (by simp)
    simp [this]
  bound := fun m hm => by
    by_cases h : l < 0
    · simp only [h, if_true, Bool.not_eq_eq_eq_not, Bool.not_true] at hm ⊢
      simp [prodF, wOf, hm]
    · simp only [h, if_false] at hm ⊢
      simp [prodF, wOf, hm]
  wit := fun _ => by
    by_cases h : l < 0
    · refine ⟨fun _ => false, by simp [h], by simp [prodF, wOf, h], ?_⟩
      intro x; simp [labOf, h]
    · refine ⟨fun _ => true, by simp [h], by simp [prodF, wOf, h], ?_⟩
      intro x; simp [labOf, h]

theorem prodF_union (m : Nat → Bool) (a b : List Nat) (hd : ∀ x ∈ a, x ∉ b) :
    prodF W m (unionU a b) = prodF W m a * prodF W m b := by
  unfold prodF
  have h1 : (unionU a b).toFinset = a.toFinset ∪ b.toFinset := by
    ext x; simp [mem_unionU]
  rw [h1]
  apply Finset.prod_union
  rw [Finset.disjoint_left]
  intro x hx hx'
  exact hd x (List.mem_toFinset.mp hx) (List.mem_toFinset.mp hx')

/-- conjunction of two results over disjoint atom sets (one iteration of the conj loop) -/
theorem spec_and_step (hW : NonNeg W) {s1 s2 : (Nat → Bool) → Bool} {r1 r2 : Res}
    (h1 : Spec W s1 r1) (h2 : Spec W s2 r2) (hd : ∀ x ∈ r1.used, x ∉ r2.used) :
    Spec W (fun m => s1 m && s2 m) ⟨times r1.val r2.val, unionU r1.used r2.used⟩ where
  nodup := nodup_unionU _ _ h1.nodup h2.nodup
  nonneg := mul_nonneg h1.nonneg h2.nonneg
  dep := fun m m' h => by
    have e1 := h1.dep m m' (fun v hv => h v ((mem_unionU _ _ _).mpr (Or.inl hv)))
    have e2 := h2.dep m m' (fun v hv => h v ((mem_unionU _ _ _).mpr (Or.inr hv)))
    simp [e1, e2]
  bound := fun m hm => by
    simp only [Bool.and_eq_true] at hm
    show prodF W m (unionU r1.used r2.used) ≤ r1.val.p * r2.val.p
    rw [prodF_union m _ _ hd]
    exact mul_le_mul (h1.bound m hm.1) (h2.bound m hm.2) (prodF_nonneg hW m _) h1.nonneg
  wit := fun hp => by
    have hp' : 0 < r1.val.p * r2.val.p := hp
    have hpos : 0 < r1.val.p ∧ 0 < r2.val.p := by
      rcases pos_and_pos_or_neg_and_neg_of_mul_pos hp' with h' | h'
      · exact h'
      · exact absurd h'.1 (not_lt.mpr h1.nonneg)
    obtain ⟨m1, hs1, hp1, hl1⟩ := h1.wit hpos.1
    obtain ⟨m2, hs2, hp2, hl2⟩ := h2.wit hpos.2
    let m : Nat → Bool := fun v => if v ∈ r1.used then m1 v else m2 v
    have a1 : ∀ v ∈ r1.used, m v = m1 v := fun v hv => by simp [m, hv]
    have a2 : ∀ v ∈ r2.used, m v = m2 v := fun v hv => by
      have : v ∉ r1.used := fun hv1 => hd v hv1 hv
      simp [m, this]
    refine ⟨m, ?_, ?_, ?_⟩
    · simp only [Bool.and_eq_true]
      exact ⟨(h1.dep m m1 a1).trans hs1, (h2.dep m m2 a2).trans hs2⟩
    · show prodF W m (unionU r1.used r2.used) = r1.val.p * r2.val.p
      rw [prodF_union m _ _ hd, prodF_congr W m m1 _ a1, prodF_congr W m m2 _ a2, hp1, hp2]
    · intro x
      show x ∈ r1.val.lab ++ r2.val.lab ↔ ∃ v ∈ unionU r1.used r2.used, x ∈ labOf W m v
      rw [List.mem_append, hl1 x, hl2 x]
      constructor
      · rintro (⟨v, hv, hx⟩ | ⟨v, hv, hx⟩)
        · exact ⟨v, (mem_unionU _ _ _).mpr (Or.inl hv), by simpa [labOf, a1 v hv] using hx⟩
        · exact ⟨v, (mem_unionU _ _ _).mpr (Or.inr hv), by simpa [labOf, a2 v hv] using hx⟩
      · rintro ⟨v, hv, hx⟩
        rcases (mem_unionU _ _ _).mp hv with hv | hv
        · exact Or.inl ⟨v, hv, by simpa [labOf, a1 v hv] using hx⟩
        · exact Or.inr ⟨v, hv, by simpa [labOf, a2 v hv] using hx⟩

theorem prodF_split (m : Nat → Bool) (U u extra : List Nat) (hd : ∀ v ∈ extra, v ∉ u)
    (hU : ∀ v, v ∈ U ↔ v ∈ u ∨ v ∈ extra) : prodF W m U = prodF W m u * prodF W m extra := by
  unfold prodF
  have h1 : U.toFinset = u.toFinset ∪ extra.toFinset := by
    ext x; simp [hU]
  rw [h1]
  apply Finset.prod_union
  rw [Finset.disjoint_left]
  intro x hx hx'
  exact hd x (List.mem_toFinset.mp hx') (List.mem_toFinset.mp hx)

/-- smoothing a result with the atoms `extra` it does not use -/
theorem spec_smooth (hW : NonNeg W) {s : (Nat → Bool) → Bool} {r : Res} (h : Spec W s r)
    (extra U : List Nat) (he : extra.Nodup) (hd : ∀ v ∈ extra, v ∉ r.used) (hUn : U.Nodup)
    (hU : ∀ v, v ∈ U ↔ v ∈ r.used ∨ v ∈ extra) :
    Spec W s ⟨smooth plus W r.val extra, U⟩ := by
  have hbest : (extra.map (wOf W (mBest W))).prod = prodF W (mBest W) extra := by
    unfold prodF; rw [List.prod_toFinset _ he]
  have hbn : 0 ≤ prodF W (mBest W) extra := prodF_nonneg hW _ _
  refine ⟨hUn, ?_, ?_, ?_, ?_⟩
  · show 0 ≤ (smooth plus W r.val extra).p
    rw [smooth_p, hbest]; exact mul_nonneg h.nonneg hbn
  · intro m m' hm
    exact h.dep m m' (fun v hv => hm v ((hU v).mpr (Or.inl hv)))
  · intro m hm
    show prodF W m U ≤ (smooth plus W r.val extra).p
    rw [smooth_p, hbest, prodF_split m U r.used extra hd hU]
    refine mul_le_mul (h.bound m hm) ?_ (prodF_nonneg hW m _) h.nonneg
    unfold prodF
    exact Finset.prod_le_prod (fun v _ => wOf_nonneg hW m v) (fun v _ => wOf_le_best m v)
  · intro hp
    have hp' : 0 < r.val.p * prodF W (mBest W) extra := by
      have : 0 < (smooth plus W r.val extra).p := hp
      rwa [smooth_p, hbest] at this
    have hpos : 0 < r.val.p := by
      rcases pos_and_pos_or_neg_and_neg_of_mul_pos hp' with h' | h'
      · exact h'.1
      · exact absurd h'.1 (not_lt.mpr h.nonneg)
    obtain ⟨m0, hs0, hp0, hl0⟩ := h.wit hpos
    let m : Nat → Bool := fun v => if v ∈ r.used then m0 v else mBest W v
    have a1 : ∀ v ∈ r.used, m v = m0 v := fun v hv => by simp [m, hv]
    have a2 : ∀ v ∈ extra, m v = mBest W v := fun v hv => by simp [m, hd v hv]
    refine ⟨m, (h.dep m m0 a1).trans hs0, ?_, ?_⟩
    · show prodF W m U = (smooth plus W r.val extra).p
      rw [smooth_p, hbest, prodF_split m U r.used extra hd hU, prodF_congr W m m0 _ a1,
        prodF_congr W m (mBest W) _ a2, hp0]
    · intro x
      show x ∈ (smooth plus W r.val extra).lab ↔ ∃ v ∈ U, x ∈ labOf W m v
      rw [smooth_lab, hl0 x]
      constructor
      · rintro (⟨v, hv, hx⟩ | ⟨v, hv, hx⟩)
        · exact ⟨v, (hU v).mpr (Or.inl hv), by simpa [labOf, a1 v hv] using hx⟩
        · exact ⟨v, (hU v).mpr (Or.inr hv), by simpa [labOf, a2 v hv] using hx⟩
      · rintro ⟨v, hv, hx⟩
        rcases (hU v).mp hv with hv | hv
        · exact Or.inl ⟨v, hv, by simpa [labOf, a1 v hv] using hx⟩
        · exact Or.inr ⟨v, hv, by simpa [labOf, a2 v hv] using hx⟩

/-- maximum of two results over the same atom set (one iteration of the disj loop) -/
theorem spec_plus_step {s1 s2 : (Nat → Bool) → Bool} {v1 v2 : Val} {U : List Nat}
    (h1 : Spec W s1 ⟨v1, U⟩) (h2 : Spec W s2 ⟨v2, U⟩) :
    Spec W (fun m => s1 m || s2 m) ⟨plus v1 v2, U⟩ := by
  have hmax := plus_p v1 v2
  refine ⟨h1.nodup, ?_, ?_, ?_, ?_⟩
  · show 0 ≤ (plus v1 v2).p
    rw [hmax]; exact le_trans h1.nonneg (le_max_left _ _)
  · intro m m' hm
    have e1 := h1.dep m m' hm
    have e2 := h2.dep m m' hm
    simp [e1, e2]
  · intro m hm
    show prodF W m U ≤ (plus v1 v2).p
    rw [hmax]
    simp only [Bool.or_eq_true] at hm
    rcases hm with hm | hm
    · exact le_trans (h1.bound m hm) (le_max_left _ _)
    · exact le_trans (h2.bound m hm) (le_max_right _ _)
  · intro hp
    have hp' : 0 < (plus v1 v2).p := hp
    unfold plus at hp' ⊢
    by_cases c1 : v2.p < v1.p
    · simp only [c1, if_true] at hp' ⊢
      obtain ⟨m, hs, hpm, hl⟩ := h1.wit hp'
      exact ⟨m, by simp [hs], hpm, hl⟩
    · by_cases c2 : v1.p < v2.p
      · simp only [c1, c2, if_true, if_false] at hp' ⊢
        obtain ⟨m, hs, hpm, hl⟩ := h2.wit hp'
        exact ⟨m, by simp [hs], hpm, hl⟩
      · simp only [c1, c2, if_false] at hp' ⊢
        obtain ⟨m, hs, hpm, hl⟩ := h1.wit hp'
        exact ⟨m, by simp [hs], hpm, hl⟩

end ProbLogProofs.MPE
