import ProbLogProofs.Lemmas.UnrollFix
/-!
Helper lemmas for C09Unroll (5): the invariant of the `translation` reuse table of `_break_cycles` and its basic
properties (monotone under building steps, `transAppend`, signs, the atom case).

The invariant is a *sandwich*, not an equation: the key stored for node `n` with cut set `cb` is
* below the perfect-model value `Pv n` (`Up`), and
* above the cut evaluation of `n` under every ancestor list that contains `cb` (`Low`).
An equation with `cutEval` does not hold for reused entries (see `C09_reuse_not_cutEval` in the property file); the
sandwich is what makes the reuse rule `cb ⊆ ancestors ∪ {n}` sound, and it collapses to an equation at a root
(empty ancestor list) and under every negative edge.
-/
namespace ProbLogProofs.Unroll
open ProbLogModel.Formula ProbLogModel.Cycles ProbLogProofs.Cycles

/-- The key's value is below the perfect-model value of the (signed) source reference. -/
def Up (src : Store) (α ρ : Nat → Bool) (node : Int) (k : Key) : Prop :=
  keyVal ρ k = true → Pv src α (some node) = true

/-- The key's value is above the cut evaluation of the source reference under every admissible ancestor list. -/
def Low (src : Store) (lvl : Nat → Nat) (α ρ : Nat → Bool) (node : Int) (k : Key) (adm : List Nat → Prop) : Prop :=
  ∀ A f, adm A → AncOK src lvl A node → free src A < f → cutEval src α f A (some node) = true → keyVal ρ k = true

/-- Invariant of one table entry `translation[n] ∋ (newnode, cb, cn)`, relative to the current target `T`. -/
structure EntryOK (src : Store) (lvl : Nat → Nat) (α : Nat → Bool) (T : Store) (n : Nat) (e : TEntry) : Prop where
  kb : keyBelow T.nodes.length e.newnode
  sem : ∀ ρ, Consistent T ρ → Carries src T α ρ →
    Up src α ρ (n : Int) e.newnode ∧
    Low src lvl α ρ (n : Int) e.newnode (fun A => ∀ x ∈ e.cb, x ∈ A ∨ x = n)

def TransOK (src : Store) (lvl : Nat → Nat) (α : Nat → Bool) (T : Store) (tr : Trans) : Prop :=
  ∀ n e, e ∈ transGet tr n → EntryOK src lvl α T n e

/-- What a call `_break_cycles(node, ancestors)` guarantees about its result. -/
structure CallOK (src : Store) (lvl : Nat → Nat) (α : Nat → Bool) (T : Store) (node : Int) (anc : List Nat)
    (r : Res) : Prop where
  step : Step T r.st.target
  trans : TransOK src lvl α r.st.target r.st.trans
  kb : keyBelow r.st.target.nodes.length r.key
  sem : ∀ ρ, Consistent r.st.target ρ → Carries src r.st.target α ρ →
    Up src α ρ node r.key ∧
    Low src lvl α ρ node r.key (fun A => (∀ x, x ∈ A ↔ x ∈ anc) ∨ ∀ x ∈ r.cb, x ∈ A)

theorem EntryOK.mono {src : Store} {lvl : Nat → Nat} {α : Nat → Bool} {T T' : Store} {n : Nat} {e : TEntry}
    (hs : Step T T') (h : EntryOK src lvl α T n e) : EntryOK src lvl α T' n e :=
  ⟨keyBelow_step hs h.kb, fun ρ hc hcar => h.sem ρ (hs.2.1.consistent hc) (Carries.mono hs hcar)⟩

theorem TransOK.mono {src : Store} {lvl : Nat → Nat} {α : Nat → Bool} {T T' : Store} {tr : Trans}
    (hs : Step T T') (h : TransOK src lvl α T tr) : TransOK src lvl α T' tr :=
  fun n e he => (h n e he).mono hs

theorem TransOK.nil (src : Store) (lvl : Nat → Nat) (α : Nat → Bool) (T : Store) : TransOK src lvl α T [] :=
  fun _ _ he => by cases he

/-! ### the table -/

theorem lookup_assocSet {β} (l : List (Nat × β)) (x y : Nat) (v : β) :
    lookup (assocSet l x v) y = if x = y then some v else lookup l y := by
  induction l with
  | nil =>
    simp only [assocSet, lookup, beq_iff_eq]
  | cons p r ih =>
    obtain ⟨a, b⟩ := p
    simp only [assocSet]
    by_cases hax : a = x
    · subst hax
      simp only [beq_self_eq_true, ↓reduceIte, lookup, beq_iff_eq]
      by_cases hay : a = y <;> simp [hay]
    · have : (a == x) = false := by simpa using hax
      simp only [this, Bool.false_eq_true, ↓reduceIte, lookup, beq_iff_eq, ih]
      by_cases hay : a = y
      · subst hay; simp [Ne.symm hax]
      · simp [hay]

theorem mem_transGet_transAppend {t : Trans} {n m : Nat} {e e' : TEntry}
    (h : e' ∈ transGet (transAppend t n e) m) : e' ∈ transGet t m ∨ (m = n ∧ e' = e) := by
  unfold transGet transAppend at h
  rw [lookup_assocSet] at h
  by_cases hnm : n = m
  · subst hnm
    simp only [↓reduceIte, Option.getD_some, List.mem_append, List.mem_singleton] at h
    rcases h with h | h
    · exact Or.inl h
    · exact Or.inr ⟨rfl, h⟩
  · simp only [hnm, ↓reduceIte] at h
    exact Or.inl h

theorem TransOK.append {src : Store} {lvl : Nat → Nat} {α : Nat → Bool} {T : Store} {tr : Trans} {n : Nat}
    {e : TEntry} (h : TransOK src lvl α T tr) (he : EntryOK src lvl α T n e) :
    TransOK src lvl α T (transAppend tr n e) := by
  intro m e' hm
  rcases mem_transGet_transAppend hm with h1 | ⟨rfl, rfl⟩
  · exact h m e' h1
  · exact he

theorem mem_union {a b : List Nat} {x : Nat} : x ∈ union a b ↔ x ∈ a ∨ x ∈ b := by
  unfold union
  simp only [List.mem_append, List.mem_filter, Bool.not_eq_true', List.contains_eq_mem, decide_eq_false_iff_not]
  constructor
  · rintro (h | ⟨h, _⟩)
    · exact Or.inl h
    · exact Or.inr h
  · rintro (h | h)
    · exact Or.inl h
    · by_cases ha : x ∈ a
      · exact Or.inl ha
      · exact Or.inr ⟨h, ha⟩

theorem subset_spec {a b : List Nat} (h : subset a b = true) : ∀ x ∈ a, x ∈ b := by
  unfold subset at h
  intro x hx
  have := List.all_eq_true.1 h x hx
  simpa using this

theorem isProb_natCast {n : Nat} (h : n ≠ 0) : isProbabilistic (some ((n : Nat) : Int)) = true := by
  simp [isProbabilistic, ProbLogModel.Formula.isTrue, ProbLogModel.Formula.isFalse, h]

/-! ### signs -/

/-- From the sandwich of the positive node to the sandwich of the signed reference: under a negative edge the
    sandwich is an equation (ancestors are on strictly higher levels there). -/
theorem sign_sem {src : Store} {lvl : Nat → Nat} (hst : Stratified src lvl) {α ρ : Nat → Bool} {node : Int}
    {anc : List Nat} {k0 : Key} {cb : List Nat} (h0 : node ≠ 0) (hanc : AncOK src lvl anc node)
    (hU : Up src α ρ (node.natAbs : Int) k0)
    (hL : Low src lvl α ρ (node.natAbs : Int) k0
      (fun A => (∀ x, x ∈ A ↔ x ∈ anc) ∨ ∀ x ∈ cb, x ∈ A ∨ x = node.natAbs)) :
    Up src α ρ node (sgn node k0) ∧
    Low src lvl α ρ node (sgn node k0) (fun A => (∀ x, x ∈ A ↔ x ∈ anc) ∨ ∀ x ∈ cb, x ∈ A) := by
  by_cases hneg : node < 0
  · have e : (node.natAbs : Int) = -node := by omega
    have hex : keyVal ρ k0 = Pv src α (some (node.natAbs : Int)) := by
      rw [Bool.eq_iff_iff]
      refine ⟨hU, fun hp => ?_⟩
      have hf : free src anc < src.nodes.length + 1 := by have := free_le src anc; omega
      have hs := strict_eq_Pv (α := α) hst (n := node.natAbs) (by omega)
        (fun x hx hc => (hanc x hx).2.2 hneg hc) hf
      exact hL anc _ (Or.inl (fun _ => Iff.rfl)) hanc.pos hf (by rw [hs]; exact hp)
    have hval : keyVal ρ (sgn node k0) = Pv src α (some node) := by
      rw [keyVal_sgn, if_pos hneg, hex, e, Pv_neg src α node h0, Bool.not_not]
    refine ⟨fun h => by rw [← hval]; exact h, fun A f _ hA hf hc => ?_⟩
    rw [hval, ← neg_eq_Pv hst hneg hA hf]; exact hc
  · have e : (node.natAbs : Int) = node := by omega
    have hs : sgn node k0 = k0 := by unfold sgn; rw [if_neg hneg]
    rw [hs]
    rw [e] at hU hL
    exact ⟨hU, fun A f hadm hA hf hc =>
      hL A f (hadm.imp id (fun h x hx => Or.inl (h x hx))) hA hf hc⟩

theorem ite_decide_sgn (node : Int) (k : Key) :
    (if decide (node < 0) = true then negate k else k) = sgn node k := by
  unfold sgn
  by_cases h : node < 0 <;> simp [h]

/-! ### atoms -/

/-- `target.add_atom` for a source atom: a building step whose key has the atom's value. -/
theorem atom_key_val {src : Store} {α : Nat → Bool} (hdet : DetOK src α) {T T' : Store} {n : Nat} (hn0 : 0 < n)
    {ident : Ident} {group : Option Nat} {isExtra : Bool} {name : Option Name} {k : Key} (hw : WF T)
    (hn : src.nodes[n - 1]? = some (.atom ident group isExtra name))
    (h : T.addAtom ident (weightClass ((lookup src.weights n).getD .neutral))
      ((lookup src.weights n).getD .neutral) group name true isExtra = (T', k)) :
    Step T T' ∧ keyBelow T'.nodes.length k ∧ ∀ ρ, Carries src T' α ρ → keyVal ρ k = α n := by
  have hi : n - 1 + 1 = n := by omega
  have hd := hdet (n - 1) ident group isExtra name hn
  rw [hi] at hd
  generalize (lookup src.weights n).getD Weight.neutral = w at h hd
  have hstep := addAtom_step T ident (weightClass w) w group name true isExtra
  rw [h] at hstep
  have hwT' := hstep.1 hw
  rcases addAtom_cases T ident w group name true isExtra with ⟨he, hwt⟩ | ⟨he, hwf⟩ | ⟨i, hi1, hi2⟩
  · rw [h] at he
    simp only [Prod.mk.injEq] at he
    obtain ⟨rfl, rfl⟩ := he
    exact ⟨hstep, by show (0 : Int).natAbs ≤ _; simp, fun ρ _ => by rw [hd.1 hwt]; rfl⟩
  · rw [h] at he
    simp only [Prod.mk.injEq] at he
    obtain ⟨rfl, rfl⟩ := he
    exact ⟨hstep, trivial, fun ρ _ => by rw [hd.2 hwf]; rfl⟩
  · rw [h] at hi1 hi2
    simp only at hi1 hi2
    subst hi1
    obtain ⟨h1, g', e', nm', hnode⟩ := hwT'.atom ident i hi2
    have hlen : i - 1 < T'.nodes.length := lt_length_of_get hnode
    refine ⟨hstep, by show (i : Int).natAbs ≤ _; rw [Int.natAbs_natCast]; omega, fun ρ hcar => ?_⟩
    rw [keyVal_pos ρ i h1, hcar (n - 1) ident group isExtra name i hn hi2, hi]

theorem cutEval_atom {src : Store} {α : Nat → Bool} {n : Nat} (hn0 : 0 < n) {ident : Ident} {group : Option Nat}
    {isExtra : Bool} {name : Option Name} (hn : src.nodes[n - 1]? = some (.atom ident group isExtra name))
    (f : Nat) (A : List Nat) : cutEval src α (f + 1) A (some (n : Int)) = α n := by
  rw [cutEval_succ]
  have h0 : ¬ ((n : Int) = 0) := by omega
  have h1 : ¬ ((n : Int) < 0) := by omega
  simp only [h0, ↓reduceIte, Int.natAbs_natCast, hn, h1]

/-- The sandwich of a fresh atom entry. -/
theorem atom_sem {src : Store} {lvl : Nat → Nat} {α ρ : Nat → Bool} {n : Nat} (hn0 : 0 < n) {ident : Ident}
    {group : Option Nat} {isExtra : Bool} {name : Option Name}
    (hn : src.nodes[n - 1]? = some (.atom ident group isExtra name)) {k : Key} (hk : keyVal ρ k = α n)
    (adm : List Nat → Prop) : Up src α ρ (n : Int) k ∧ Low src lvl α ρ (n : Int) k adm := by
  refine ⟨fun h => ?_, fun A f _ _ hf hc => ?_⟩
  · unfold Pv; rw [cutEval_atom hn0 hn, ← hk]; exact h
  · cases f with
    | zero => omega
    | succ f => rw [cutEval_atom hn0 hn] at hc; rw [hk]; exact hc

end ProbLogProofs.Unroll
