import ProbLogModel.Parser
/-!
# C17 — lemmas for `C17_fold_total_partial`: which `Err.internal` outcomes the parser model can produce
-/
namespace ProbLogProofs.C17
open ProbLogModel.Parser ProbLogModel.Syntax

/-- the two raise sites of `_build_clause` for which witnesses exist (C17_fold_total_refuted_*) -/
def Allowed (k : String) : Prop := k = "AttributeError:_build_clause" ∨ k = "IndexError:_build_clause"

/-- `r` is not an internal error, except at an allowed site -/
def NoBad {α} (r : R α) : Prop := ∀ k, r = .error (.internal k) → Allowed k

/-- `r` is not an internal error at all -/
def NoInt {α} (r : R α) : Prop := ∀ k, r ≠ .error (.internal k)

theorem NoInt.noBad {α} {r : R α} (h : NoInt r) : NoBad r := fun k hk => absurd hk (h k)

theorem NoBad.ok {α} (a : α) : NoBad (.ok a : R α) := fun _ h => by cases h
theorem NoInt.ok {α} (a : α) : NoInt (.ok a : R α) := fun _ h => by cases h
theorem NoInt.pure {α} (a : α) : NoInt (pure a : R α) := fun _ h => by cases h

theorem NoBad.bind {α β} {r : R α} {f : α → R β} (hr : NoBad r) (hf : ∀ a, r = .ok a → NoBad (f a)) : NoBad (r >>= f) := by
  intro k hk
  cases r with
  | error e =>
    have he : e = Err.internal k := Except.error.inj hk
    exact hr k (by rw [he])
  | ok a => exact hf a rfl k hk

theorem NoInt.bind {α β} {r : R α} {f : α → R β} (hr : NoInt r) (hf : ∀ a, r = .ok a → NoInt (f a)) : NoInt (r >>= f) := by
  intro k hk
  cases r with
  | error e =>
    have he : e = Err.internal k := Except.error.inj hk
    exact hr k (by rw [he])
  | ok a => exact hf a rfl k hk

theorem NoBad.map {α β} {r : R α} {f : α → β} (hr : NoBad r) : NoBad (f <$> r) := by
  intro k hk
  cases r with
  | error e =>
    have he : e = Err.internal k := Except.error.inj hk
    exact hr k (by rw [he])
  | ok a => cases hk

theorem NoInt.mapM {α β} (f : α → R β) (hf : ∀ a, NoInt (f a)) : ∀ l : List α, NoInt (l.mapM f)
  | [] => by simp [List.mapM_nil]; exact NoInt.pure _
  | a :: l => by
    rw [List.mapM_cons]
    exact (hf a).bind (fun b _ => (NoInt.mapM f hf l).bind (fun bs _ => NoInt.pure _))

/-! ## the factory never produces `internal` -/

theorem renameNeg_noInt (t : Tm) : NoInt (Factory.renameNeg t) := by
  intro k; unfold Factory.renameNeg; split <;> simp [pure, Except.pure, throw, throwThe, MonadExceptOf.throw]

theorem probabilistic_noInt (p t : Tm) : NoInt (Factory.probabilistic p t) := by
  unfold Factory.probabilistic
  refine NoInt.bind ?_ (fun t' _ => ?_)
  · split
    · intro k; simp [throw, throwThe, MonadExceptOf.throw]
    · exact renameNeg_noInt _
    · exact NoInt.pure _
  · intro k; split <;> simp [pure, Except.pure, throw, throwThe, MonadExceptOf.throw]

theorem clause_noInt (heads : List Tm) (body : Tm) : NoInt (Factory.clause heads body) := by
  unfold Factory.clause
  refine NoInt.bind (NoInt.mapM _ (fun h => ?_) heads) (fun hs _ => ?_)
  · split
    · exact renameNeg_noInt _
    · exact NoInt.pure _
  · intro k hk
    simp only [bind, Except.bind, pure, Except.pure, throw, throwThe, MonadExceptOf.throw] at hk
    repeat' split at hk
    all_goals (first | cases hk | skip)
    all_goals (rename_i heq; repeat' split at heq)
    all_goals (first | cases heq | skip)

theorem unop_noInt (f a n s) : NoInt (Factory.unop f a n s) := by
  intro k; unfold Factory.unop
  repeat' split
  all_goals simp [pure, Except.pure, throw, throwThe, MonadExceptOf.throw]

theorem uncurryOr_noBad : ∀ t : Tm, NoBad (uncurryOr t) := by
  intro t
  fun_induction uncurryOr t <;> (first
    | exact NoBad.map (by assumption)
    | (intro k hk; cases hk; first | exact Or.inl rfl | exact Or.inr rfl)
    | exact NoBad.ok _)

theorem buildBin_noBad (op : OpDef) (f : String) (a b : Tm) : NoBad (buildBin op f a b) := by
  unfold buildBin
  split
  · exact NoBad.ok _
  · exact NoBad.ok _
  · exact NoBad.ok _
  · exact (probabilistic_noInt a b).noBad
  · exact NoBad.bind (uncurryOr_noBad a) (fun hs _ => (clause_noInt hs b).noBad)
  · intro k hk; cases hk

theorem buildUn_noBad (op : OpDef) (f : String) (a : Tm) : NoBad (buildUn op f a) := by
  unfold buildUn
  split
  · exact (unop_noInt _ _ _ _).noBad
  · exact NoBad.ok _
  · exact (clause_noInt _ _).noBad
  · intro k hk; cases hk


/-! ## invariants of a labelled token list and what `fold` needs from them -/

def isOp (x : Item) : Bool := x.binop.isSome || x.unop.isSome

def SubFin (s : Sub) : Prop :=
  s.functor = false ∧ (s.commaList = true → s.enum.isSome = true) ∧ (∀ l, s.value = .many l → l ≠ [])

def FinItem : Item → Prop
  | .tok _ _ => True
  | .sub s => SubFin s

/-- a sub-expression that starts a segment is still an `atom` and not an argument list -/
def StartP : Item → Prop
  | .sub s => s.atom = true ∧ (s.arglistFlag && s.commaList) = false
  | .tok _ _ => True

/-- what `label_tokens` guarantees about two consecutive labelled tokens -/
def Rel (x y : Item) : Prop :=
  (∀ t a, x = .tok t a → t.functor = true → ∃ s, y = .sub s ∧ s.commaList = true) ∧
  (∀ t a, x = .tok t a → t.functor = false → isOp x = false → isOp y = true) ∧
  (∀ s, x = .sub s → s.atom = true → (s.arglistFlag && s.commaList) = false → isOp y = true) ∧
  (isOp x = true → StartP y)

structure SegGood (l : List Item) : Prop where
  fin : ∀ x ∈ l, FinItem x
  rel : ∀ i x y, l[i]? = some x → l[i + 1]? = some y → Rel x y
  start : ∀ x, l[0]? = some x → StartP x
  last : ∀ t a, l[l.length - 1]? = some (.tok t a) → t.functor = false

theorem isOp_sub (s : Sub) : isOp (.sub s) = false := rfl

theorem conjoin_isSome : ∀ l : List Tm, l ≠ [] → (conjoin l).isSome = true
  | [], h => absurd rfl h
  | [t], _ => rfl
  | t :: u :: l, _ => by
    have := conjoin_isSome (u :: l) (by simp)
    cases hc : conjoin (u :: l) with
    | none => simp [hc] at this
    | some c => simp [conjoin, hc]

theorem ofInt_noInt (s : String) : NoInt (Factory.ofInt s) := by
  intro k; unfold Factory.ofInt; split <;> simp [pure, Except.pure, throw, throwThe, MonadExceptOf.throw]

theorem ofHex_noInt (s : String) : NoInt (Factory.ofHex s) := by
  intro k; unfold Factory.ofHex
  repeat' split
  all_goals simp [pure, Except.pure, throw, throwThe, MonadExceptOf.throw]

theorem buildOpFree_noInt (l : List Item) (hg : SegGood l) (hn : ∀ x ∈ l, isOp x = false) : NoInt (buildOpFree l) := by
  match l, hg, hn with
  | [], _, _ => exact NoInt.pure _
  | [.sub s], hg, _ =>
    have hf : SubFin s := hg.fin (.sub s) (by simp)
    simp only [buildOpFree]
    cases hv : s.value with
    | one v => exact NoInt.pure _
    | many vs =>
      have := conjoin_isSome vs (hf.2.2 vs hv)
      cases hc : conjoin vs with
      | none => simp [hc] at this
      | some c => simp only [hc]; exact NoInt.pure _
  | [.tok t a], _, _ =>
    simp only [buildOpFree]
    intro k
    repeat' split
    all_goals (first | exact ofInt_noInt _ k | exact ofHex_noInt _ k | simp [pure, Except.pure])
  | [x, y], hg, hn =>
    have hrel := hg.rel 0 x y rfl rfl
    have hx := hn x (by simp)
    have hy := hn y (by simp)
    cases x with
    | tok t a =>
      by_cases hf : t.functor = true
      · obtain ⟨s, rfl, hs⟩ := hrel.1 t a rfl hf
        have hfin : SubFin s := hg.fin (.sub s) (by simp)
        have he := hfin.2.1 hs
        simp only [buildOpFree]
        cases hen : s.enum with
        | none => simp [hen] at he
        | some args =>
          intro k; simp only []; split <;> simp [pure, Except.pure]
      · have := hrel.2.1 t a rfl (by simpa using hf) hx
        rw [hy] at this; cases this
    | sub s =>
      have hs := hg.start (.sub s) rfl
      have := hrel.2.2.1 s rfl hs.1 hs.2
      rw [hy] at this; cases this
  | _ :: _ :: _ :: _, _, _ =>
    simp only [buildOpFree]
    intro k; simp [throw, throwThe, MonadExceptOf.throw]


/-! ## `fold` -/

theorem findMax_spec : ∀ (l : List Item) (j : Nat) (acc res : Option (Nat × OpDef)), findMax l j acc = res →
    (res = none → acc = none ∧ ∀ x ∈ l, isOp x = false) ∧
    (∀ i op, res = some (i, op) → acc = some (i, op) ∨ (j ≤ i ∧ ∃ x, l[i - j]? = some x ∧ isOp x = true))
  | [], j, acc, res, h => by
    simp only [findMax] at h; subst h
    exact ⟨fun h => ⟨h, by simp⟩, fun i op h => Or.inl h⟩
  | it :: rest, j, acc, res, h => by
    simp only [findMax] at h
    have ih := findMax_spec rest (j + 1) _ res h
    constructor
    · intro hr
      obtain ⟨hacc, hall⟩ := ih.1 hr
      -- the updated accumulator is none, so `it` has no operator and acc was none
      cases hb : it.binop with
      | some b => simp [hb] at hacc; cases acc <;> simp at hacc; (try split at hacc) <;> simp at hacc
      | none =>
        cases hu : it.unop with
        | some u => simp [hb, hu] at hacc; cases acc <;> simp at hacc; (try split at hacc) <;> simp at hacc
        | none =>
          simp [hb, hu] at hacc
          refine ⟨hacc, ?_⟩
          intro x hx
          simp only [List.mem_cons] at hx
          rcases hx with rfl | hx
          · simp [isOp, hb, hu]
          · exact hall x hx
    · intro i op hr
      rcases ih.2 i op hr with hacc | ⟨hj, x, hx, hop⟩
      · -- the updated accumulator is some (i, op): either acc itself or the current item
        by_cases hcur : isOp it = true
        · by_cases hacc' : acc = some (i, op)
          · exact Or.inl hacc'
          · right
            have hij : i = j := by
              cases hb : it.binop with
              | some b =>
                simp only [hb] at hacc
                cases acc with
                | none => simp at hacc; omega
                | some m =>
                  simp only at hacc
                  split at hacc
                  · simp at hacc; omega
                  · exact absurd hacc hacc'
              | none =>
                cases hu : it.unop with
                | none => simp [isOp, hb, hu] at hcur
                | some u =>
                  simp only [hb, hu] at hacc
                  cases acc with
                  | none => simp at hacc; omega
                  | some m =>
                    simp only at hacc
                    split at hacc
                    · simp at hacc; omega
                    · exact absurd hacc hacc'
            subst hij
            exact ⟨Nat.le_refl _, it, by simp, hcur⟩
        · left
          have hb : it.binop = none := by
            cases h' : it.binop with
            | none => rfl
            | some b => simp [isOp, h'] at hcur
          have hu : it.unop = none := by
            cases h' : it.unop with
            | none => rfl
            | some b => simp [isOp, h'] at hcur
          simpa [hb, hu] using hacc
      · right
        refine ⟨by omega, x, ?_, hop⟩
        have : i - j = (i - (j + 1)) + 1 := by omega
        rw [this]; simpa using hx


theorem SegGood.take {l : List Item} (hg : SegGood l) {i : Nat} {o : Item} (hi : l[i]? = some o) (ho : isOp o = true) :
    SegGood (l.take i) where
  fin := fun x hx => hg.fin x (List.mem_of_mem_take hx)
  rel := by
    intro k x y hx hy
    rw [List.getElem?_take] at hx hy
    by_cases h1 : k < i
    · by_cases h2 : k + 1 < i
      · rw [if_pos h1] at hx; rw [if_pos h2] at hy; exact hg.rel k x y hx hy
      · rw [if_neg h2] at hy; cases hy
    · rw [if_neg h1] at hx; cases hx
  start := by
    intro x hx
    rw [List.getElem?_take] at hx
    by_cases h1 : 0 < i
    · rw [if_pos h1] at hx; exact hg.start x hx
    · rw [if_neg h1] at hx; cases hx
  last := by
    intro t a h
    have hil : i < l.length := by
      rcases Nat.lt_or_ge i l.length with h' | h'
      · exact h'
      · rw [List.getElem?_eq_none (by omega)] at hi; cases hi
    rw [List.length_take, Nat.min_eq_left (Nat.le_of_lt hil), List.getElem?_take] at h
    split at h
    · rename_i hlt
      have hi' : l[(i - 1) + 1]? = some o := by
        have : i - 1 + 1 = i := by omega
        rw [this]; exact hi
      have hr := hg.rel (i - 1) _ o h hi'
      by_cases hf : t.functor = true
      · obtain ⟨s, rfl, _⟩ := hr.1 t a rfl hf
        simp [isOp_sub] at ho
      · simpa using hf
    · cases h

theorem SegGood.drop {l : List Item} (hg : SegGood l) {i : Nat} {o : Item} (hi : l[i]? = some o) (ho : isOp o = true) :
    SegGood (l.drop (i + 1)) where
  fin := fun x hx => hg.fin x (List.mem_of_mem_drop hx)
  rel := by
    intro k x y hx hy
    rw [List.getElem?_drop] at hx hy
    exact hg.rel (i + 1 + k) x y hx (by rw [← hy]; congr 1)
  start := by
    intro x hx
    rw [List.getElem?_drop] at hx
    exact (hg.rel i o x hi (by simpa using hx)).2.2.2 ho
  last := by
    intro t a h
    rw [List.getElem?_drop, List.length_drop] at h
    have hlt : i + 1 + (l.length - (i + 1) - 1) < l.length := by
      rcases Nat.lt_or_ge (i + 1 + (l.length - (i + 1) - 1)) l.length with h' | h'
      · exact h'
      · rw [List.getElem?_eq_none h'] at h; cases h
    have : i + 1 + (l.length - (i + 1) - 1) = l.length - 1 := by omega
    rw [this] at h
    exact hg.last t a h

theorem NoBad.ite {α} {c : Prop} [Decidable c] {a b : R α} (ha : c → NoBad a) (hb : ¬c → NoBad b) :
    NoBad (if c then a else b) := by
  split
  · exact ha ‹_›
  · exact hb ‹_›

theorem parse_noBad {α} (m : String) : NoBad (throw (Err.parse m) : R α) := fun k h => by cases h

theorem foldN_noBad : ∀ (fuel : Nat) (l : List Item) (px : Option (Nat × Bool)), l.length < fuel → SegGood l →
    NoBad (foldN fuel l px)
  | 0, _, _, h, _ => absurd h (Nat.not_lt_zero _)
  | fuel + 1, l, px, hlen, hg => by
    simp only [foldN]
    cases hm : findMax l 0 none with
    | none =>
      exact (buildOpFree_noInt l hg ((findMax_spec l 0 none none hm).1 rfl).2).noBad
    | some r =>
      obtain ⟨i, op⟩ := r
      have hsp := (findMax_spec l 0 none _ hm).2 i op rfl
      rcases hsp with h0 | ⟨_, o, hio, hop⟩
      · cases h0
      · simp only [Nat.sub_zero] at hio
        have hil : i < l.length := by
          rcases Nat.lt_or_ge i l.length with h' | h'
          · exact h'
          · rw [List.getElem?_eq_none h'] at hio; cases hio
        dsimp only
        refine NoBad.ite (fun _ => parse_noBad _) (fun _ => ?_)
        refine NoBad.ite (fun _ => ?_) (fun _ => ?_)
        · refine NoBad.bind (foldN_noBad fuel _ _ (by rw [List.length_take]; omega) (hg.take hio hop)) (fun lf _ => ?_)
          refine NoBad.bind (foldN_noBad fuel _ _ (by rw [List.length_drop]; omega) (hg.drop hio hop)) (fun rf _ => ?_)
          exact buildBin_noBad _ _ _ _
        · refine NoBad.ite (fun _ => parse_noBad _) (fun h0 => ?_)
          have hi0' : i = 0 := by simpa using h0
          subst hi0'
          refine NoBad.bind (foldN_noBad fuel _ _ (by rw [List.length_drop]; omega) (hg.drop hio hop)) (fun lf _ => ?_)
          exact buildUn_noBad _ _ _

theorem fold_noBad (l : List Item) (hg : SegGood l) : NoBad (fold l) :=
  foldN_noBad _ l none (Nat.lt_succ_self _) hg


/-! ## segments of a labelled list -/

/-- separators (`,` and `|` tokens) of a labelled list are operators -/
def SepOp (l : List Item) : Prop := ∀ x ∈ l, (x.isSpecial .comma = true ∨ x.isSpecial .pipe = true) → isOp x = true

theorem getElem?_rev_append (cur rest : List Item) (it : Item) : (cur.reverse ++ it :: rest)[cur.length]? = some it := by
  rw [List.getElem?_append_right (by simp)]; simp

theorem take_rev_append (cur rest : List Item) (it : Item) :
    (cur.reverse ++ it :: rest).take cur.length = cur.reverse := List.take_left' (by simp)

theorem drop_rev_append (cur rest : List Item) (it : Item) :
    (cur.reverse ++ it :: rest).drop (cur.length + 1) = rest := by
  have : cur.reverse ++ it :: rest = (cur.reverse ++ [it]) ++ rest := by simp
  rw [this, List.drop_left' (by simp)]

theorem foldSegments_noBad : ∀ (rest cur : List Item), SegGood (cur.reverse ++ rest) → SepOp (cur.reverse ++ rest) →
    NoBad (foldSegments rest cur)
  | [], cur, hg, _ => by
    simp only [foldSegments]
    exact NoBad.bind (fold_noBad _ (by simpa using hg)) (fun v _ => NoBad.ok _)
  | it :: rest, cur, hg, hs => by
    simp only [foldSegments]
    split
    · rename_i hc
      have hop : isOp it = true := hs it (by simp) (Or.inl hc)
      have hi := getElem?_rev_append cur rest it
      have h1 := hg.take hi hop
      have h2 := hg.drop hi hop
      have e1 := take_rev_append cur rest it
      have e2 := drop_rev_append cur rest it
      rw [e1] at h1; rw [e2] at h2
      refine NoBad.bind (fold_noBad _ h1) (fun v _ => ?_)
      refine NoBad.bind (foldSegments_noBad rest [] (by simpa using h2) ?_) (fun vs _ => NoBad.ok _)
      intro x hx; exact hs x (by simp at hx ⊢; exact Or.inr (Or.inr hx))
    · exact foldSegments_noBad rest (it :: cur) (by simpa using hg) (by simpa using hs)

theorem foldSegments_ne_nil : ∀ (rest cur : List Item) (vs : List Tm), foldSegments rest cur = .ok vs → vs ≠ []
  | [], cur, vs, h => by
    simp only [foldSegments, bind, Except.bind] at h
    split at h <;> simp [pure, Except.pure] at h
    subst h; simp
  | it :: rest, cur, vs, h => by
    simp only [foldSegments] at h
    split at h
    · simp only [bind, Except.bind] at h
      split at h
      · cases h
      · split at h
        · cases h
        · simp [pure, Except.pure] at h; subst h; simp
    · exact foldSegments_ne_nil rest (it :: cur) vs h

theorem listSegments_noBad : ∀ (rest cur : List Item), SegGood (cur.reverse ++ rest) → SepOp (cur.reverse ++ rest) →
    NoBad (listSegments rest cur)
  | [], cur, hg, _ => by
    simp only [listSegments]
    split
    · exact NoBad.ok _
    · exact NoBad.bind (fold_noBad _ (by simpa using hg)) (fun v _ => NoBad.ok _)
  | it :: rest, cur, hg, hs => by
    have hi := getElem?_rev_append cur rest it
    have e1 := take_rev_append cur rest it
    have e2 := drop_rev_append cur rest it
    simp only [listSegments]
    split
    · rename_i hc
      have hop : isOp it = true := hs it (by simp) (Or.inr hc)
      have h1 := hg.take hi hop
      have h2 := hg.drop hi hop
      rw [e1] at h1; rw [e2] at h2
      refine NoBad.bind (fold_noBad _ h1) (fun v _ => ?_)
      exact NoBad.bind (fold_noBad _ h2) (fun tl _ => NoBad.ok _)
    · split
      · rename_i hc
        have hop : isOp it = true := hs it (by simp) (Or.inl hc)
        have h1 := hg.take hi hop
        have h2 := hg.drop hi hop
        rw [e1] at h1; rw [e2] at h2
        refine NoBad.bind (fold_noBad _ h1) (fun v _ => ?_)
        refine NoBad.bind (listSegments_noBad rest [] (by simpa using h2) ?_) (fun r _ => NoBad.ok _)
        intro x hx; exact hs x (by simp at hx ⊢; exact Or.inr (Or.inr hx))
      · exact listSegments_noBad rest (it :: cur) (by simpa using hg) (by simpa using hs)


/-! ## `label_tokens`: flags through the setters -/

/-- the part of an item that labelling never changes -/
def core : Item → (Option Special × Bool) ⊕ (Bool × Option (List Tm) × SubVal × SubKind)
  | .tok t _ => .inl (t.special, t.aggregate)
  | .sub s => .inr (s.commaList, s.enum, s.value, s.kind)

def clOrTok : Item → Bool
  | .tok _ _ => true
  | .sub s => s.commaList

section flags
variable (x : Item) (b : Bool)
@[simp] theorem core_setAtom : core (x.setAtom b) = core x := by cases x <;> rfl
@[simp] theorem core_setFunctor : core (x.setFunctor b) = core x := by cases x <;> rfl
@[simp] theorem core_clearBinop : core x.clearBinop = core x := by cases x <;> rfl
@[simp] theorem core_clearUnop : core x.clearUnop = core x := by cases x <;> rfl
@[simp] theorem core_setArglist : core (x.setArglist b) = core x := by cases x <;> rfl
@[simp] theorem atom_setAtom : (x.setAtom b).atom = b := by cases x <;> rfl
@[simp] theorem atom_setFunctor : (x.setFunctor b).atom = x.atom := by cases x <;> rfl
@[simp] theorem atom_clearBinop : x.clearBinop.atom = x.atom := by cases x <;> rfl
@[simp] theorem atom_clearUnop : x.clearUnop.atom = x.atom := by cases x <;> rfl
@[simp] theorem atom_setArglist : (x.setArglist b).atom = x.atom := by cases x <;> rfl
@[simp] theorem functor_setAtom : (x.setAtom b).functor = x.functor := by cases x <;> rfl
@[simp] theorem functor_setFunctor : (x.setFunctor b).functor = b := by cases x <;> rfl
@[simp] theorem functor_clearBinop : x.clearBinop.functor = x.functor := by cases x <;> rfl
@[simp] theorem functor_clearUnop : x.clearUnop.functor = x.functor := by cases x <;> rfl
@[simp] theorem functor_setArglist : (x.setArglist b).functor = x.functor := by cases x <;> rfl
@[simp] theorem binop_setAtom : (x.setAtom b).binop = x.binop := by cases x <;> rfl
@[simp] theorem binop_setFunctor : (x.setFunctor b).binop = x.binop := by cases x <;> rfl
@[simp] theorem binop_clearBinop : x.clearBinop.binop = none := by cases x <;> rfl
@[simp] theorem binop_clearUnop : x.clearUnop.binop = x.binop := by cases x <;> rfl
@[simp] theorem binop_setArglist : (x.setArglist b).binop = x.binop := by cases x <;> rfl
@[simp] theorem unop_setAtom : (x.setAtom b).unop = x.unop := by cases x <;> rfl
@[simp] theorem unop_setFunctor : (x.setFunctor b).unop = x.unop := by cases x <;> rfl
@[simp] theorem unop_clearBinop : x.clearBinop.unop = x.unop := by cases x <;> rfl
@[simp] theorem unop_clearUnop : x.clearUnop.unop = none := by cases x <;> rfl
@[simp] theorem unop_setArglist : (x.setArglist b).unop = x.unop := by cases x <;> rfl
@[simp] theorem agg_setAtom : (x.setAtom b).aggregate = x.aggregate := by cases x <;> rfl
@[simp] theorem agg_setFunctor : (x.setFunctor b).aggregate = x.aggregate := by cases x <;> rfl
@[simp] theorem agg_clearBinop : x.clearBinop.aggregate = x.aggregate := by cases x <;> rfl
@[simp] theorem agg_clearUnop : x.clearUnop.aggregate = x.aggregate := by cases x <;> rfl
@[simp] theorem agg_setArglist : (x.setArglist b).aggregate = x.aggregate := by cases x <;> rfl
@[simp] theorem icl_setAtom : (x.setAtom b).isCommaList = x.isCommaList := by cases x <;> rfl
@[simp] theorem icl_setFunctor : (x.setFunctor b).isCommaList = x.isCommaList := by cases x <;> rfl
@[simp] theorem icl_clearBinop : x.clearBinop.isCommaList = x.isCommaList := by cases x <;> rfl
@[simp] theorem icl_clearUnop : x.clearUnop.isCommaList = x.isCommaList := by cases x <;> rfl
@[simp] theorem icl_setArglist : (x.setArglist b).isCommaList = x.isCommaList := by cases x <;> rfl
@[simp] theorem arglist_setAtom : (x.setAtom b).arglist = x.arglist := by cases x <;> rfl
@[simp] theorem arglist_setFunctor : (x.setFunctor b).arglist = x.arglist := by cases x <;> rfl
@[simp] theorem arglist_clearBinop : x.clearBinop.arglist = x.arglist := by cases x <;> rfl
@[simp] theorem arglist_clearUnop : x.clearUnop.arglist = x.arglist := by cases x <;> rfl
@[simp] theorem clOrTok_setAtom : clOrTok (x.setAtom b) = clOrTok x := by cases x <;> rfl
@[simp] theorem clOrTok_setFunctor : clOrTok (x.setFunctor b) = clOrTok x := by cases x <;> rfl
@[simp] theorem clOrTok_clearBinop : clOrTok x.clearBinop = clOrTok x := by cases x <;> rfl
@[simp] theorem clOrTok_clearUnop : clOrTok x.clearUnop = clOrTok x := by cases x <;> rfl
@[simp] theorem clOrTok_setArglist : clOrTok (x.setArglist b) = clOrTok x := by cases x <;> rfl
@[simp] theorem arglist_setArglist : (x.setArglist b).arglist = (b && clOrTok x) := by
  cases x <;> simp [Item.setArglist, Item.arglist, clOrTok]
end flags

theorem core_tok {x : Item} {t a} (h : core x = core (.tok t a)) : ∃ t' a', x = .tok t' a' ∧ t'.special = t.special ∧ t'.aggregate = t.aggregate := by
  cases x with
  | tok t' a' => simp [core] at h; exact ⟨t', a', rfl, h.1, h.2⟩
  | sub s => simp [core] at h

theorem core_sub {x : Item} {s} (h : core x = core (.sub s)) :
    ∃ s', x = .sub s' ∧ s'.commaList = s.commaList ∧ s'.enum = s.enum ∧ s'.value = s.value := by
  cases x with
  | tok t' a' => simp [core] at h
  | sub s' => simp [core] at h; exact ⟨s', rfl, h.1, h.2.1, h.2.2.1⟩

/-! ### the stages of one `label_tokens` iteration -/

theorem labelA_core (t n) : core (labelA t n) = core t := by
  unfold labelA; split
  · simp
  · split
    · simp
    · split <;> simp

theorem labelA_agg (t n) : (labelA t n).aggregate = t.aggregate := by
  unfold labelA; split
  · simp
  · split
    · simp
    · split <;> simp

theorem labelA_arglist (t n) : (labelA t n).arglist = t.arglist := by
  unfold labelA; split
  · simp
  · split
    · simp
    · split <;> simp

theorem labelA_functor (t n) (h : (labelA t n).functor = true) : t.functor = true ∧ ∃ nx, n = some nx := by
  unfold labelA at h; split at h
  · simp at h
  · split at h
    · simp at h; exact ⟨h, _, rfl⟩
    · split at h <;> (try simp at h) <;> exact ⟨h, _, rfl⟩

theorem labelA_atom_false (t n) (h : (labelA t n).atom = false) :
    t.atom = false ∨ (t.functor = true ∧ ∃ nx, n = some nx ∧ nx.isCommaList = true) := by
  unfold labelA at h; split at h
  · simp at h; exact Or.inl h
  · split at h
    · rename_i hc; simp at hc; exact Or.inr ⟨hc.1, _, rfl, hc.2⟩
    · split at h <;> (try simp at h) <;> exact Or.inl h

theorem labelA_atom_of_false (t n) (h : t.atom = false) : (labelA t n).atom = false := by
  unfold labelA; split
  · simpa using h
  · split
    · simp
    · split <;> simpa using h

theorem labelA_atom_true_of (t n) (ha : t.atom = true) (hf : t.functor = false) : (labelA t n).atom = true := by
  unfold labelA; split
  · simpa using ha
  · split
    · rename_i hc; simp [hf] at hc
    · split <;> simpa using ha

theorem labelA_binop (t n) : (labelA t n).binop = t.binop ∨ (labelA t n).binop = none := by
  unfold labelA; split
  · simp
  · split
    · simp
    · split <;> simp

theorem labelA_unop_none (t) : (labelA t none).unop = none := by
  simp [labelA]

theorem labelA_unop (t n) (h : t.unop = none) : (labelA t n).unop = none := by
  unfold labelA; split
  · simp
  · split
    · simpa using h
    · split <;> simp [h]


theorem labelB_cases {p : Option Item} {x : Item} {p1 : Option Item} {y : Item} (h : labelB p x = .ok (p1, y))
    (hp : ∀ q, p = some q → q.aggregate = false) :
    p1 = p ∧ (
      (p = none ∧ y = (x.clearBinop).setArglist false) ∨
      (∃ q, p = some q ∧ q.functor = true ∧ y = (x.setAtom false).setArglist x.isCommaList) ∨
      (∃ q, p = some q ∧ q.functor = false ∧ q.arglist = true ∧ y = ((x.clearUnop).setAtom false).setFunctor false) ∨
      (∃ q, p = some q ∧ q.functor = false ∧ q.arglist = false ∧ q.atom = true ∧ x.binop.isSome = true ∧
          y = (((x.clearUnop).setAtom false).setFunctor false).setArglist false) ∨
      (∃ q, p = some q ∧ q.functor = false ∧ q.arglist = false ∧ q.atom = false ∧
          (y = (x.clearBinop).setArglist false ∨ y = x.setArglist false))) := by
  unfold labelB at h
  cases p with
  | none =>
    simp only [pure, Except.pure, Except.ok.injEq, Prod.mk.injEq] at h
    exact ⟨h.1.symm, Or.inl ⟨rfl, h.2.symm⟩⟩
  | some q =>
    have hq := hp q rfl
    simp only [hq, Bool.false_eq_true, if_false] at h
    by_cases h1 : q.functor = true
    · simp only [h1, if_true, pure, Except.pure, Except.ok.injEq, Prod.mk.injEq] at h
      exact ⟨h.1.symm, Or.inr (Or.inl ⟨q, rfl, h1, h.2.symm⟩)⟩
    · have h1' : q.functor = false := by simpa using h1
      simp only [h1', Bool.false_eq_true, if_false] at h
      by_cases h2 : q.arglist = true
      · simp only [h2, if_true, pure, Except.pure, Except.ok.injEq, Prod.mk.injEq] at h
        exact ⟨h.1.symm, Or.inr (Or.inr (Or.inl ⟨q, rfl, h1', h2, h.2.symm⟩))⟩
      · have h2' : q.arglist = false := by simpa using h2
        simp only [h2', Bool.false_eq_true, if_false] at h
        by_cases h3 : q.atom = true
        · simp only [h3, if_true] at h
          by_cases h4 : x.binop.isNone = true
          · simp [h4, throw, throwThe, MonadExceptOf.throw] at h
          · have h4f : x.binop.isNone = false := by cases hb : x.binop <;> simp [hb] at h4 ⊢
            simp only [h4f, Bool.false_eq_true, if_false, pure, Except.pure, Except.ok.injEq, Prod.mk.injEq] at h
            have h4' : x.binop.isSome = true := by
              cases hb : x.binop <;> simp [hb] at h4 ⊢
            exact ⟨h.1.symm, Or.inr (Or.inr (Or.inr (Or.inl ⟨q, rfl, h1', h2', h3, h4', h.2.symm⟩)))⟩
        · have h3' : q.atom = false := by simpa using h3
          simp only [h3', Bool.false_eq_true, if_false] at h
          by_cases h5 : q.binop.isSome = true
          · simp only [h5, if_true, pure, Except.pure, Except.ok.injEq, Prod.mk.injEq] at h
            exact ⟨h.1.symm, Or.inr (Or.inr (Or.inr (Or.inr ⟨q, rfl, h1', h2', h3', Or.inl h.2.symm⟩)))⟩
          · have h5f : q.binop.isSome = false := by simpa using h5
            simp only [h5f, Bool.false_eq_true, if_false, pure, Except.pure, Except.ok.injEq, Prod.mk.injEq] at h
            exact ⟨h.1.symm, Or.inr (Or.inr (Or.inr (Or.inr ⟨q, rfl, h1', h2', h3', Or.inr h.2.symm⟩)))⟩

theorem labelC_cases (y : Item) : (labelC y = y.clearUnop ∧ y.unop.isSome = true ∧ y.functor = true) ∨
    (labelC y = y ∧ (y.unop.isSome = false ∨ y.functor = false)) := by
  unfold labelC
  by_cases h : (y.unop.isSome && y.functor) = true
  · rw [h]; simp at h; exact Or.inl ⟨by simp, h.1, h.2⟩
  · have hf : (y.unop.isSome && y.functor) = false := by simpa using h
    rw [hf]
    right; refine ⟨by simp, ?_⟩
    cases h1 : y.unop.isSome <;> cases h2 : y.functor <;> simp_all

theorem labelD_cases {z : Item} {n : Option Item} {w : Item} (h : labelD z n = .ok w) :
    w = z ∨ (w = z.setAtom false ∧ z.unop.isSome = true ∧ z.atom = true) := by
  unfold labelD at h
  by_cases hc : (z.unop.isSome && z.atom) = true
  · simp only [hc, if_true] at h
    cases n with
    | none => simp [throw, throwThe, MonadExceptOf.throw] at h
    | some nx =>
      simp only [pure, Except.pure, Except.ok.injEq] at h
      simp at hc
      split at h
      · exact Or.inr ⟨h.symm, hc.1, hc.2⟩
      · exact Or.inl h.symm
  · have hf : (z.unop.isSome && z.atom) = false := by simpa using hc
    rw [hf] at h
    simp only [Bool.false_eq_true, if_false, pure, Except.pure, Except.ok.injEq] at h
    exact Or.inl h.symm

theorem labelD_noInt (z : Item) (n : Option Item) (h : n = none → z.unop = none) : NoInt (labelD z n) := by
  intro k hk
  unfold labelD at hk
  split at hk
  · rename_i hc
    cases n with
    | none => simp [h rfl] at hc
    | some nx => simp [pure, Except.pure] at hk
  · simp [pure, Except.pure] at hk


theorem labelStep_decomp {p : Option Item} {t : Item} {n p' : Option Item} {t' : Item}
    (h : labelStep p t n = .ok (p', t')) :
    ∃ p1 y, labelB p (labelA t n) = .ok (p1, y) ∧ labelD (labelC y) n = .ok t' ∧ t'.countOptions = 1 ∧ p' = p1 := by
  unfold labelStep at h
  simp only [bind, Except.bind] at h
  split at h
  · cases h
  · rename_i r hB
    obtain ⟨p1, y⟩ := r
    simp only at h
    split at h
    · cases h
    · rename_i w hD
      split at h
      · cases h
      · rename_i hc
        simp only [pure, Except.pure, Except.ok.injEq, Prod.mk.injEq] at h
        obtain ⟨rfl, rfl⟩ := h
        exact ⟨p1, y, hB, hD, by simpa using hc, rfl⟩

/-- the shape of the labelled token in terms of `x = labelA t n`: the branch of the second if-chain, then the two
    small adjustments -/
structure StepShape (p : Option Item) (x : Item) (t' : Item) : Prop where
  shapeB : ∃ y,
    ((p = none ∧ y = (x.clearBinop).setArglist false) ∨
      (∃ q, p = some q ∧ q.functor = true ∧ y = (x.setAtom false).setArglist x.isCommaList) ∨
      (∃ q, p = some q ∧ q.functor = false ∧ q.arglist = true ∧ y = ((x.clearUnop).setAtom false).setFunctor false) ∨
      (∃ q, p = some q ∧ q.functor = false ∧ q.arglist = false ∧ q.atom = true ∧ x.binop.isSome = true ∧
          y = (((x.clearUnop).setAtom false).setFunctor false).setArglist false) ∨
      (∃ q, p = some q ∧ q.functor = false ∧ q.arglist = false ∧ q.atom = false ∧
          (y = (x.clearBinop).setArglist false ∨ y = x.setArglist false))) ∧
    ∃ z, ((z = y.clearUnop ∧ y.unop.isSome = true ∧ y.functor = true) ∨ (z = y ∧ (y.unop.isSome = false ∨ y.functor = false))) ∧
      (t' = z ∨ (t' = z.setAtom false ∧ z.unop.isSome = true ∧ z.atom = true))

theorem labelStep_shape {p : Option Item} {t : Item} {n p' : Option Item} {t' : Item}
    (h : labelStep p t n = .ok (p', t')) (hp : ∀ q, p = some q → q.aggregate = false) :
    p' = p ∧ t'.countOptions = 1 ∧ StepShape p (labelA t n) t' := by
  obtain ⟨p1, y, hB, hD, hc, rfl⟩ := labelStep_decomp h
  obtain ⟨rfl, hBc⟩ := labelB_cases hB hp
  refine ⟨rfl, hc, ⟨y, hBc, labelC y, ?_, labelD_cases hD⟩⟩
  rcases labelC_cases y with ⟨h1, h2, h3⟩ | ⟨h1, h2⟩
  · exact Or.inl ⟨h1, h2, h3⟩
  · exact Or.inr ⟨h1, h2⟩


set_option hygiene false in
macro "shape_cases" h:ident : tactic => `(tactic| (
  obtain ⟨y, hB, z, hC, hD⟩ := ($h).shapeB
  rcases hB with ⟨hp0, rfl⟩ | ⟨q, hp0, hq1, rfl⟩ | ⟨q, hp0, hq1, hq2, rfl⟩ | ⟨q, hp0, hq1, hq2, hq3, hx, rfl⟩ |
      ⟨q, hp0, hq1, hq2, hq3, (rfl | rfl)⟩ <;>
    rcases hC with ⟨rfl, hc1, hc2⟩ | ⟨rfl, hc1⟩ <;>
    rcases hD with rfl | ⟨rfl, hd1, hd2⟩))

section shapeFacts
variable {p : Option Item} {x t' : Item}

theorem StepShape.core_eq (hs : StepShape p x t') : core t' = core x := by
  shape_cases hs <;> simp

theorem StepShape.agg_eq (hs : StepShape p x t') : t'.aggregate = x.aggregate := by
  shape_cases hs <;> simp

theorem StepShape.atom_false (hs : StepShape p x t') (h : x.atom = false) : t'.atom = false := by
  shape_cases hs <;> simp_all

theorem StepShape.functor_false (hs : StepShape p x t') (h : x.functor = false) : t'.functor = false := by
  shape_cases hs <;> simp_all

theorem StepShape.functor_true (hs : StepShape p x t') (h : t'.functor = true) :
    x.functor = true ∧ ∀ q, p = some q → q.functor = true ∨ (q.arglist = false ∧ q.atom = false) := by
  shape_cases hs <;> simp_all

theorem StepShape.functor_atom (hs : StepShape p x t') (h : t'.functor = true) (ha : t'.atom = false) :
    x.atom = false ∨ ∃ q, p = some q ∧ q.functor = true := by
  shape_cases hs <;> simp_all

theorem StepShape.first (hs : StepShape p x t') (h : p = none) :
    t'.arglist = false ∧ (x.unop.isSome = false → t'.atom = x.atom) := by
  shape_cases hs <;> simp_all

theorem StepShape.afterOp (hs : StepShape p x t') {q} (h : p = some q) (h1 : q.functor = false) (h2 : q.arglist = false)
    (h3 : q.atom = false) : t'.arglist = false ∧ (x.unop.isSome = false → t'.atom = x.atom) := by
  shape_cases hs <;> simp_all

theorem StepShape.afterAtom (hs : StepShape p x t') {q} (h : p = some q) (h1 : q.functor = false) (h2 : q.arglist = false)
    (h3 : q.atom = true) : t'.binop.isSome = true := by
  shape_cases hs <;> simp_all

theorem StepShape.tokArglist (hs : StepShape p x t') {t a} (hx : x = .tok t a) (h : a = false) : t'.arglist = false := by
  subst hx h
  have h0 : (Item.tok t false).arglist = false := rfl
  have h1 : (Item.tok t false).isCommaList = false := rfl
  shape_cases hs <;> simp [h0, h1]


end shapeFacts

/-! ### one iteration: what the labelled token satisfies -/

def RawItem : Item → Prop
  | .tok t a => t.aggregate = false ∧ a = false ∧ (t.atom = false → t.functor = false) ∧
      (t.special = some .comma ∨ t.special = some .pipe → t.atom = false)
  | .sub s => s.atom = true ∧ s.arglistFlag = true ∧ SubFin s

def LabItem : Item → Prop
  | .tok t a => t.aggregate = false ∧ a = false ∧ t.countOptions = 1
  | .sub s => SubFin s

theorem cnt_cases (t : Tok) (h : t.countOptions = 1) :
    (t.atom = true ∧ t.functor = false ∧ t.binop = none ∧ t.unop = none) ∨
    (t.atom = false ∧ t.functor = true ∧ t.binop = none ∧ t.unop = none) ∨
    (t.atom = false ∧ t.functor = false ∧ (t.binop.isSome = true ∨ t.unop.isSome = true)) := by
  unfold Tok.countOptions at h
  cases ha : t.atom <;> cases hf : t.functor <;> cases hb : t.binop <;> cases hu : t.unop <;> simp_all

theorem LabItem.agg {q : Item} (h : LabItem q) : q.aggregate = false := by
  cases q with
  | tok t a => exact h.1
  | sub s => rfl

theorem labelStep_out {p : Option Item} {t : Item} {n p' : Option Item} {t' : Item}
    (h : labelStep p t n = .ok (p', t')) (ht : RawItem t) (hp : ∀ q, p = some q → LabItem q)
    (hJ : ∀ q tq a, p = some q → q = .tok tq a → tq.functor = true → ∃ s, t = .sub s ∧ s.commaList = true) :
    p' = p ∧ LabItem t' ∧ core t' = core t ∧ (p = none → StartP t') ∧ (∀ q, p = some q → Rel q t') ∧
    (∀ tt a, t' = .tok tt a → tt.functor = true → ∃ s, n = some (.sub s) ∧ s.commaList = true) ∧
    (∀ tt a, t = .tok tt a → tt.atom = false → isOp t' = true) := by
  obtain ⟨hp', hc, hs⟩ := labelStep_shape h (fun q hq => (hp q hq).agg)
  have hcore : core t' = core t := by rw [hs.core_eq, labelA_core]
  have hxf : (labelA t n).functor = true → t.functor = true := fun h => (labelA_functor t n h).1
  refine ⟨hp', ?_, hcore, ?_, ?_, ?_, ?_⟩
  · -- LabItem t'
    cases t with
    | tok tt a =>
      obtain ⟨tt', a', rfl, _, hagg⟩ := core_tok hcore
      obtain ⟨t1, a1, hx, _, _⟩ := core_tok (labelA_core (.tok tt a) n)
      have ha1 : a1 = false := by
        have := labelA_arglist (.tok tt a) n
        rw [hx] at this; simpa [Item.arglist, ht.2.1] using this
      have := hs.tokArglist hx ha1
      exact ⟨by rw [hagg]; exact ht.1, by simpa [Item.arglist] using this, hc⟩
    | sub s =>
      obtain ⟨s', rfl, h1, h2, h3⟩ := core_sub hcore
      have hf : (Item.sub s').functor = false := hs.functor_false (by
        cases hxx : (labelA (.sub s) n).functor with
        | false => rfl
        | true => have := hxf hxx; simp [Item.functor, ht.2.2.1] at this)
      exact ⟨hf, by rw [h1, h2]; exact ht.2.2.2.1, by rw [h3]; exact ht.2.2.2.2⟩
  · -- first token
    intro hp0
    cases t with
    | tok tt a => obtain ⟨tt', a', rfl, _, _⟩ := core_tok hcore; trivial
    | sub s =>
      obtain ⟨s', rfl, _, _, _⟩ := core_sub hcore
      have h1 := hs.first hp0
      have hu : (labelA (.sub s) n).unop.isSome = false := by rw [labelA_unop _ _ rfl]; rfl
      have ha := labelA_atom_true_of (.sub s) n ht.1 ht.2.2.1
      exact ⟨by have := h1.2 hu; rw [ha] at this; exact this, h1.1⟩
  · -- relation with the previous token
    intro q hq
    have hlq := hp q hq
    refine ⟨?_, ?_, ?_, ?_⟩
    · intro tq a hqe hf
      obtain ⟨s, rfl, hs'⟩ := hJ q tq a hq hqe hf
      obtain ⟨s', rfl, h1, _, _⟩ := core_sub hcore
      exact ⟨s', rfl, by rw [h1]; exact hs'⟩
    · intro tq a hqe hf hop
      subst hqe
      have hcnt := cnt_cases tq hlq.2.2
      have hatom : tq.atom = true := by
        rcases hcnt with h1 | h1 | h1
        · exact h1.1
        · rw [hf] at h1; simp at h1
        · simp [isOp, Item.binop, Item.unop] at hop
          rcases h1.2.2 with h2 | h2 <;> simp [hop.1, hop.2] at h2
      have := hs.afterAtom hq hf (by simpa [Item.arglist] using hlq.2.1) hatom
      simp [isOp, this]
    · intro s hqe ha hal
      subst hqe
      have := hs.afterAtom hq hlq.1 hal ha
      simp [isOp, this]
    · intro hop
      cases q with
      | sub s => simp [isOp_sub] at hop
      | tok tq a =>
        have hcnt := cnt_cases tq hlq.2.2
        have hq3 : tq.atom = false ∧ tq.functor = false := by
          simp [isOp, Item.binop, Item.unop] at hop
          rcases hcnt with h1 | h1 | h1
          · rcases hop with h2 | h2 <;> simp [h1.2.2.1, h1.2.2.2] at h2
          · rcases hop with h2 | h2 <;> simp [h1.2.2.1, h1.2.2.2] at h2
          · exact ⟨h1.1, h1.2.1⟩
        have h1 := hs.afterOp hq hq3.2 (by simpa [Item.arglist] using hlq.2.1) hq3.1
        cases t with
        | tok tt a => obtain ⟨tt', a', rfl, _, _⟩ := core_tok hcore; trivial
        | sub s =>
          obtain ⟨s', rfl, _, _, _⟩ := core_sub hcore
          have hu : (labelA (.sub s) n).unop.isSome = false := by rw [labelA_unop _ _ rfl]; rfl
          have ha := labelA_atom_true_of (.sub s) n ht.1 ht.2.2.1
          exact ⟨by have := h1.2 hu; rw [ha] at this; exact this, h1.1⟩
  · -- a labelled functor token is followed by a comma-list sub-expression
    intro tt' a' hte hf
    subst hte
    cases t with
    | sub s => obtain ⟨s', hh, _⟩ := core_sub hcore; cases hh
    | tok tt a =>
      have hft : (Item.tok tt' a').functor = true := hf
      have h1 := hs.functor_true hft
      have hat : (Item.tok tt' a').atom = false := by
        rcases cnt_cases tt' hc with h2 | h2 | h2
        · rw [hf] at h2; simp at h2
        · exact h2.1
        · rw [hf] at h2; simp at h2
      rcases hs.functor_atom hft hat with h2 | ⟨q, hq, hqf⟩
      · rcases labelA_atom_false _ _ h2 with h3 | ⟨_, nx, rfl, hcl⟩
        · have := ht.2.2.1 h3
          have h4 := hxf h1.1
          simp [Item.functor, this] at h4
        · cases nx with
          | tok _ _ => simp [Item.isCommaList] at hcl
          | sub s => exact ⟨s, rfl, hcl⟩
      · cases q with
        | sub s => have := (hp _ hq).1; simp [Item.functor, this] at hqf
        | tok tq aq =>
          obtain ⟨s, hh, _⟩ := hJ _ tq aq hq rfl hqf
          cases hh
  · -- a token that cannot be an atom ends up as an operator
    intro tt a hte hat
    subst hte
    have hff := ht.2.2.1 hat
    have hxa := labelA_atom_of_false (.tok tt a) n hat
    have hxf' : (labelA (.tok tt a) n).functor = false := by
      cases hxx : (labelA (.tok tt a) n).functor with
      | false => rfl
      | true => have := hxf hxx; simp [Item.functor, hff] at this
    have h1 := hs.atom_false hxa
    have h2 := hs.functor_false hxf'
    obtain ⟨tt', a', rfl, _, _⟩ := core_tok hcore
    rcases cnt_cases tt' hc with h3 | h3 | h3
    · simp [Item.atom, h3.1] at h1
    · simp [Item.functor, h3.2.1] at h2
    · rcases h3.2.2 with h4 | h4 <;> simp [isOp, Item.binop, Item.unop, h4]


/-! ### the whole list -/

inductive ChainR : Option Item → List Item → Prop
  | nil (p) : (∀ t a, p = some (.tok t a) → t.functor = false) → ChainR p []
  | cons (p x l) : LabItem x → (p = none → StartP x) → (∀ q, p = some q → Rel q x) → ChainR (some x) l →
      ChainR p (x :: l)

theorem LabItem.fin {x : Item} (h : LabItem x) : FinItem x := by
  cases x with
  | tok t a => trivial
  | sub s => exact h

theorem ChainR.segGood {p : Option Item} {L : List Item} (h : ChainR p L) :
    (∀ x ∈ L, FinItem x) ∧ (∀ i x y, L[i]? = some x → L[i + 1]? = some y → Rel x y) ∧
    (∀ x, L[0]? = some x → (p = none → StartP x) ∧ ∀ q, p = some q → Rel q x) ∧
    (∀ t a, L[L.length - 1]? = some (.tok t a) → t.functor = false) := by
  induction h with
  | nil p hp => exact ⟨by simp, by simp, by simp, by simp⟩
  | cons p x l hx hs hr hc ih =>
    obtain ⟨i1, i2, i3, i4⟩ := ih
    refine ⟨?_, ?_, ?_, ?_⟩
    · intro y hy
      simp only [List.mem_cons] at hy
      rcases hy with rfl | hy
      · exact hx.fin
      · exact i1 y hy
    · intro i a b ha hb
      cases i with
      | zero =>
        simp at ha; subst ha
        exact (i3 b (by simpa using hb)).2 _ rfl
      | succ i => exact i2 i a b (by simpa using ha) (by simpa using hb)
    · intro y hy
      simp at hy; subst hy
      exact ⟨hs, hr⟩
    · intro t a hl
      cases l with
      | nil =>
        simp at hl; subst hl
        cases hc with
        | nil _ hp => exact hp t a rfl
      | cons y l' =>
        simp only [List.length_cons, Nat.add_sub_cancel] at hl i4
        exact i4 t a (by simpa using hl)

theorem labelGo_chain : ∀ (rest : List Item) (p : Option Item) (out : List Item),
    (∀ x ∈ rest, RawItem x) → (∀ q, p = some q → LabItem q) →
    (∀ q tq a, p = some q → q = .tok tq a → tq.functor = true → ∃ s r, rest = .sub s :: r ∧ s.commaList = true) →
    labelGo p rest = .ok out →
    ∃ L, out = p.toList ++ L ∧ ChainR p L ∧
      (∀ x ∈ L, (x.isSpecial .comma = true ∨ x.isSpecial .pipe = true) → isOp x = true)
  | [], p, out, _, _, hJ, h => by
    simp only [labelGo, pure, Except.pure, Except.ok.injEq] at h
    refine ⟨[], ?_, .nil p ?_, by simp⟩
    · subst h; cases p <;> rfl
    · intro t a hp
      cases hf : t.functor with
      | false => rfl
      | true => obtain ⟨s, r, hh, _⟩ := hJ _ t a hp rfl hf; cases hh
  | t :: rest, p, out, hraw, hp, hJ, h => by
    simp only [labelGo, bind, Except.bind] at h
    split at h
    · cases h
    · rename_i r hstep
      obtain ⟨p', t'⟩ := r
      simp only at h
      split at h
      · cases h
      · rename_i out' hgo
        simp only [pure, Except.pure, Except.ok.injEq] at h
        have hJ' : ∀ q tq a, p = some q → q = .tok tq a → tq.functor = true → ∃ s, t = .sub s ∧ s.commaList = true := by
          intro q tq a h1 h2 h3
          obtain ⟨s, r, hh, hs⟩ := hJ q tq a h1 h2 h3
          simp only [List.cons.injEq] at hh
          exact ⟨s, hh.1, hs⟩
        obtain ⟨hp', hlab, hcore, hstart, hrel, hnext, hsep⟩ :=
          labelStep_out hstep (hraw t (by simp)) hp hJ'
        subst hp'
        obtain ⟨L', hout', hch', hsep'⟩ := labelGo_chain rest (some t') out'
          (fun x hx => hraw x (by simp [hx])) (fun q hq => by cases hq; exact hlab)
          (by
            intro q tq a h1 h2 h3
            cases h1
            obtain ⟨s, hn, hs⟩ := hnext tq a h2 h3
            cases rest with
            | nil => simp at hn
            | cons y r => simp at hn; exact ⟨s, r, by rw [hn], hs⟩)
          hgo
        refine ⟨t' :: L', ?_, .cons p' t' L' hlab hstart hrel hch', ?_⟩
        · subst h; rw [hout']; cases p' <;> simp
        · intro x hx hsp
          simp only [List.mem_cons] at hx
          rcases hx with rfl | hx
          · cases t with
            | sub s => obtain ⟨s', rfl, _⟩ := core_sub hcore; simp [Item.isSpecial] at hsp
            | tok tt a =>
              obtain ⟨tt', a', rfl, hspc, _⟩ := core_tok hcore
              have hr := hraw (.tok tt a) (by simp)
              apply hsep tt a rfl
              apply hr.2.2.2
              simp only [Item.isSpecial, beq_iff_eq] at hsp
              rw [hspc] at hsp; exact hsp
          · exact hsep' x hx hsp

theorem label_good (raw L : List Item) (hraw : ∀ x ∈ raw, RawItem x) (h : label raw = .ok L) : SegGood L ∧ SepOp L := by
  obtain ⟨L', hout, hch, hsep⟩ := labelGo_chain raw none L hraw (by simp) (by simp) h
  simp at hout; subst hout
  obtain ⟨h1, h2, h3, h4⟩ := hch.segGood
  exact ⟨⟨h1, h2, fun x hx => (h3 x hx).1 rfl, h4⟩, hsep⟩

theorem labelB_unop {p : Option Item} {x : Item} {p1 : Option Item} {y : Item} (h : labelB p x = .ok (p1, y))
    (hx : x.unop = none) : y.unop = none := by
  unfold labelB at h
  repeat' split at h
  all_goals (simp [pure, Except.pure, throw, throwThe, MonadExceptOf.throw] at h)
  all_goals (obtain ⟨_, rfl⟩ := h; simp [hx])

theorem labelB_noInt (p : Option Item) (x : Item) : NoInt (labelB p x) := by
  intro k hk
  unfold labelB at hk
  repeat' split at hk
  all_goals simp [pure, Except.pure, throw, throwThe, MonadExceptOf.throw] at hk

theorem labelStep_noInt (p : Option Item) (t : Item) (n : Option Item) : NoInt (labelStep p t n) := by
  unfold labelStep
  refine NoInt.bind (labelB_noInt _ _) (fun r hr => ?_)
  obtain ⟨p1, y⟩ := r
  refine NoInt.bind ?_ (fun w _ => ?_)
  · apply labelD_noInt
    intro hn
    subst hn
    have := labelB_unop hr (labelA_unop_none t)
    rcases labelC_cases y with ⟨h1, _, _⟩ | ⟨h1, _⟩
    · simp only [h1]; simp
    · simp only [h1]; exact this
  · intro k hk
    by_cases hc : (w.countOptions != 1) = true
    · simp [hc, throw, throwThe, MonadExceptOf.throw, bind, Except.bind] at hk
    · simp [hc, pure, Except.pure] at hk

theorem labelGo_noInt : ∀ (rest : List Item) (p : Option Item), NoInt (labelGo p rest)
  | [], p => by simp only [labelGo]; exact NoInt.pure _
  | t :: rest, p => by
    simp only [labelGo]
    exact NoInt.bind (labelStep_noInt _ _ _) (fun r _ => NoInt.bind (labelGo_noInt rest _) (fun _ _ => NoInt.pure _))


/-! ## closing a bracket, and the `collapse` loop -/

theorem label_noBad (raw : List Item) : NoBad (label raw) := (labelGo_noInt raw none).noBad

theorem parseParen_spec (k : SubKind) (toks : List Item) (mi : Option Nat) (hraw : ∀ x ∈ toks, RawItem x) :
    NoBad (parseParen k toks mi) ∧ ∀ s, parseParen k toks mi = .ok s → RawItem (.sub s) := by
  unfold parseParen
  constructor
  · refine NoBad.bind (label_noBad _) (fun ls hls => ?_)
    obtain ⟨hg, hs⟩ := label_good toks ls hraw hls
    dsimp only
    split
    · exact NoBad.bind (foldSegments_noBad ls [] (by simpa using hg) (by simpa using hs)) (fun _ _ => NoBad.ok _)
    · exact NoBad.bind (fold_noBad ls hg) (fun _ _ => NoBad.ok _)
  · intro s hs
    simp only [bind, Except.bind] at hs
    split at hs
    · cases hs
    · rename_i ls hls
      split at hs
      · split at hs
        · cases hs
        · rename_i vs hvs
          simp only [pure, Except.pure, Except.ok.injEq] at hs
          subst hs
          refine ⟨rfl, rfl, rfl, fun _ => rfl, ?_⟩
          intro l hl
          simp only [SubVal.many.injEq] at hl
          subst hl
          exact foldSegments_ne_nil _ _ _ hvs
      · split at hs
        · cases hs
        · simp only [pure, Except.pure, Except.ok.injEq] at hs
          subst hs
          rename_i hcl _ _ _
          refine ⟨rfl, rfl, rfl, fun h => ?_, fun l hl => by cases hl⟩
          exact absurd h hcl

theorem parseList_spec (toks : List Item) (mi : Option Nat) (hraw : ∀ x ∈ toks, RawItem x) :
    NoBad (parseList toks mi) ∧ ∀ s, parseList toks mi = .ok s → RawItem (.sub s) := by
  unfold parseList
  constructor
  · refine NoBad.bind (label_noBad _) (fun ls hls => ?_)
    obtain ⟨hg, hs⟩ := label_good toks ls hraw hls
    exact NoBad.bind (listSegments_noBad ls [] (by simpa using hg) (by simpa using hs)) (fun _ _ => NoBad.ok _)
  · intro s hs
    simp only [bind, Except.bind] at hs
    split at hs
    · cases hs
    · split at hs
      · cases hs
      · simp only [pure, Except.pure, Except.ok.injEq] at hs
        subst hs
        exact ⟨rfl, rfl, rfl, fun _ => rfl, fun l hl => by cases hl⟩

def StateOK (root : List Item) (stack : List Frame) : Prop :=
  (∀ x ∈ root, RawItem x) ∧ ∀ fr ∈ stack, ∀ x ∈ fr.toks, RawItem x

theorem push_toks' (F : Frame) (it : Item) : (F.push it).toks = F.toks ++ [it] := by
  unfold Frame.push
  cases it.binop with
  | none => simp
  | some b => by_cases h : (F.maxIdx.isNone || decide (b.prio > F.maxPrio)) = true <;> simp [h]

theorem push_raw (F : Frame) (it : Item) (hF : ∀ x ∈ F.toks, RawItem x) (hit : RawItem it) :
    ∀ x ∈ (F.push it).toks, RawItem x := by
  intro x hx
  rw [push_toks'] at hx
  simp only [List.mem_append, List.mem_singleton] at hx
  rcases hx with hx | rfl
  · exact hF x hx
  · exact hit

theorem catch_noBad {α} {r : R α} (h : NoBad r) : NoBad (catchIndexError r) := by
  unfold catchIndexError
  split
  · exact parse_noBad _
  · exact parse_noBad _
  · exact parse_noBad _
  · exact parse_noBad _
  · exact h

theorem catch_ok {α} {r : R α} {a : α} (h : catchIndexError r = .ok a) : r = .ok a := by
  unfold catchIndexError at h
  split at h <;> first | exact h | (cases h; done) | (cases h; rfl)

theorem closeFrame_spec (fr : Frame) (t : Tok) (root : List Item) (stack : List Frame)
    (hfr : ∀ x ∈ fr.toks, RawItem x) (ht : RawItem (.tok t false)) (hst : StateOK root stack) :
    NoBad (closeFrame fr t root stack) ∧ ∀ r s, closeFrame fr t root stack = .ok (r, s) → StateOK r s := by
  unfold closeFrame
  have hfr' : ∀ x ∈ (if t.special == some (closeChar fr.kind) then fr else fr.push (.tok t false)).toks, RawItem x := by
    split
    · exact hfr
    · exact push_raw fr _ hfr ht
  generalize (if t.special == some (closeChar fr.kind) then fr else fr.push (.tok t false)) = fr' at hfr'
  have hsub : NoBad (match fr'.kind with
      | .list => parseList fr'.toks fr'.maxIdx
      | k => parseParen k fr'.toks fr'.maxIdx) ∧ ∀ sub, (match fr'.kind with
      | .list => parseList fr'.toks fr'.maxIdx
      | k => parseParen k fr'.toks fr'.maxIdx) = .ok sub → RawItem (.sub sub) := by
    split
    · exact parseList_spec _ _ hfr'
    · exact parseParen_spec _ _ _ hfr'
  constructor
  · refine NoBad.bind hsub.1 (fun sub _ => ?_)
    split <;> exact NoBad.ok _
  · intro r s h
    simp only [bind, Except.bind] at h
    split at h
    · cases h
    · rename_i sub hsubok
      have hraw := hsub.2 sub hsubok
      split at h
      · simp only [pure, Except.pure, Except.ok.injEq, Prod.mk.injEq] at h
        obtain ⟨rfl, rfl⟩ := h
        refine ⟨?_, by simp⟩
        intro x hx
        simp only [List.mem_append, List.mem_singleton] at hx
        rcases hx with hx | rfl
        · exact hst.1 x hx
        · exact hraw
      · rename_i par more
        simp only [pure, Except.pure, Except.ok.injEq, Prod.mk.injEq] at h
        obtain ⟨rfl, rfl⟩ := h
        refine ⟨hst.1, ?_⟩
        intro f hf
        simp only [List.mem_cons] at hf
        rcases hf with rfl | hf
        · exact push_raw par _ (hst.2 par (by simp)) hraw
        · exact hst.2 f (by simp [hf])


/-- hypotheses on a raw token of the theorem: flags as the tokenizer creates them, and not `<` -/
def RawTok (t : Tok) : Prop :=
  RawItem (.tok t false) ∧ (t.special == some .sharpOpen) = false

theorem collapseStep_spec (t : Tok) (rest : List Tok) (root : List Item) (stack : List Frame)
    (ht : RawTok t) (hst : StateOK root stack) :
    NoBad (collapseStep t rest root stack) ∧ ∀ r s, collapseStep t rest root stack = .ok (r, s) → StateOK r s := by
  unfold collapseStep
  simp only [ht.2, Bool.false_eq_true, if_false]
  by_cases h1 : (t.special == some .parenOpen) = true
  · simp only [h1, if_true]
    refine ⟨NoBad.ok _, ?_⟩
    intro r s h
    simp only [pure, Except.pure, Except.ok.injEq, Prod.mk.injEq] at h
    obtain ⟨rfl, rfl⟩ := h
    refine ⟨hst.1, ?_⟩
    intro f hf
    simp only [List.mem_cons] at hf
    rcases hf with rfl | hf
    · simp
    · exact hst.2 f hf
  · simp only [h1, Bool.false_eq_true, if_false]
    by_cases h2 : (t.special == some .brackOpen) = true
    · simp only [h2, if_true]
      refine ⟨NoBad.ok _, ?_⟩
      intro r s h
      simp only [pure, Except.pure, Except.ok.injEq, Prod.mk.injEq] at h
      obtain ⟨rfl, rfl⟩ := h
      refine ⟨hst.1, ?_⟩
      intro f hf
      simp only [List.mem_cons] at hf
      rcases hf with rfl | hf
      · simp
      · exact hst.2 f hf
    · simp only [h2, Bool.false_eq_true, if_false]
      by_cases h3 : (t.special == some .parenClose || t.special == some .brackClose) = true
      · simp only [h3, if_true]
        cases stack with
        | nil => exact ⟨parse_noBad _, fun r s h => by cases h⟩
        | cons fr more =>
          dsimp only
          by_cases h4 : (!accepts fr.kind t) = true
          · simp only [h4, if_true]
            exact ⟨parse_noBad _, fun r s h => by cases h⟩
          · simp only [h4, Bool.false_eq_true, if_false]
            have hc := closeFrame_spec fr t root more (hst.2 fr (by simp)) ht.1
              ⟨hst.1, fun f hf => hst.2 f (by simp [hf])⟩
            exact ⟨catch_noBad hc.1, fun r s h => hc.2 r s (catch_ok h)⟩
      · simp only [h3, Bool.false_eq_true, if_false]
        cases stack with
        | nil =>
          dsimp only
          refine ⟨NoBad.ok _, ?_⟩
          intro r s h
          simp only [pure, Except.pure, Except.ok.injEq, Prod.mk.injEq] at h
          obtain ⟨rfl, rfl⟩ := h
          refine ⟨?_, by simp⟩
          intro x hx
          simp only [List.mem_append, List.mem_singleton] at hx
          rcases hx with hx | rfl
          · exact hst.1 x hx
          · exact ht.1
        | cons fr more =>
          dsimp only
          split
          · have hc := closeFrame_spec fr t root more (hst.2 fr (by simp)) ht.1
              ⟨hst.1, fun f hf => hst.2 f (by simp [hf])⟩
            exact hc
          · refine ⟨NoBad.ok _, ?_⟩
            intro r s h
            simp only [pure, Except.pure, Except.ok.injEq, Prod.mk.injEq] at h
            obtain ⟨rfl, rfl⟩ := h
            refine ⟨hst.1, ?_⟩
            intro f hf
            simp only [List.mem_cons] at hf
            rcases hf with rfl | hf
            · exact push_raw fr _ (hst.2 fr (by simp)) ht.1
            · exact hst.2 f (by simp [hf])

theorem collapseGo_spec : ∀ (toks : List Tok) (root : List Item) (stack : List Frame),
    (∀ t ∈ toks, RawTok t) → StateOK root stack →
    NoBad (collapseGo toks root stack) ∧ ∀ r, collapseGo toks root stack = .ok r → ∀ x ∈ r, RawItem x
  | [], root, stack, _, hst => by
    simp only [collapseGo]
    cases stack with
    | nil => exact ⟨NoBad.ok _, fun r h => by simp only [pure, Except.pure, Except.ok.injEq] at h; subst h; exact hst.1⟩
    | cons f fs => exact ⟨parse_noBad _, fun r h => by cases h⟩
  | t :: rest, root, stack, htoks, hst => by
    simp only [collapseGo]
    have hs := collapseStep_spec t rest root stack (htoks t (by simp)) hst
    constructor
    · refine NoBad.bind hs.1 (fun rs hrs => ?_)
      obtain ⟨r, s⟩ := rs
      exact (collapseGo_spec rest r s (fun x hx => htoks x (by simp [hx])) (hs.2 r s hrs)).1
    · intro out h
      simp only [bind, Except.bind] at h
      split at h
      · cases h
      · rename_i rs hrs
        obtain ⟨r, s⟩ := rs
        exact (collapseGo_spec rest r s (fun x hx => htoks x (by simp [hx])) (hs.2 r s hrs)).2 out h

theorem premark_raw (toks : List Tok) (h : ∀ t ∈ toks, RawTok t) : premark toks = toks := by
  unfold premark
  split
  · rename_i a v c tl
    have := (h a (by simp)).2
    simp [this]
  · rfl

/-- **Totality of the modelled `collapse`** for token lists without `<`: the only internal (non-ProbLog) outcomes are
    the two raise sites of `_build_clause`. -/
theorem collapse_noBad (toks : List Tok) (h : ∀ t ∈ toks, RawTok t) : NoBad (collapse toks) := by
  unfold collapse
  rw [premark_raw toks h]
  have hg := collapseGo_spec toks [] [] h ⟨by simp, by simp⟩
  refine NoBad.bind hg.1 (fun root hroot => ?_)
  refine NoBad.bind (label_noBad _) (fun ls hls => ?_)
  exact fold_noBad ls (label_good root ls (hg.2 root hroot) hls).1

end ProbLogProofs.C17
