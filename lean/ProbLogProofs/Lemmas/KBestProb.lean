/-
Finite probability over an explicit list of weighted worlds: monotonicity, additivity, pairwise exclusive events;
blocking clauses give exclusive solutions.
-/
import Mathlib.Algebra.Order.Ring.Rat
import Mathlib.Algebra.BigOperators.Group.List.Basic
import Mathlib.Tactic.Linarith
import Mathlib.Tactic.Ring
import ProbLogProofs.Lemmas.KBestPartial

namespace ProbLogProofs.KBest
open ProbLogModel.KBest ProbLogModel.Clark

section prob
variable {ω : Type}

/-- probability of the event `E`: total weight of the worlds in `E` -/
def Pr (w : ω → Rat) (ws : List ω) (E : ω → Bool) : Rat := ((ws.filter E).map w).sum

theorem Pr_cons (w : ω → Rat) (x : ω) (ws : List ω) (E : ω → Bool) :
    Pr w (x :: ws) E = (if E x then w x else 0) + Pr w ws E := by
  unfold Pr
  by_cases h : E x = true <;> simp [h]

theorem Pr_nonneg (w : ω → Rat) (ws : List ω) (hw : ∀ x ∈ ws, 0 ≤ w x) (E : ω → Bool) : 0 ≤ Pr w ws E := by
  induction ws with
  | nil => simp [Pr]
  | cons x ws ih =>
    rw [Pr_cons]
    have := ih (fun y hy => hw y (List.mem_cons_of_mem _ hy))
    have := hw x List.mem_cons_self
    split <;> linarith

theorem Pr_mono (w : ω → Rat) (ws : List ω) (hw : ∀ x ∈ ws, 0 ≤ w x) (E F : ω → Bool)
    (h : ∀ x ∈ ws, E x = true → F x = true) : Pr w ws E ≤ Pr w ws F := by
  induction ws with
  | nil => simp [Pr]
  | cons x ws ih =>
    rw [Pr_cons, Pr_cons]
    have ih' := ih (fun y hy => hw y (List.mem_cons_of_mem _ hy)) (fun y hy => h y (List.mem_cons_of_mem _ hy))
    have hx := hw x List.mem_cons_self
    have hEF := h x List.mem_cons_self
    by_cases hE : E x = true
    · simp only [hE, hEF hE, if_true]; linarith
    · by_cases hF : F x = true
      · simp [hE, hF]; linarith
      · simp [hE, hF]; linarith

theorem Pr_congr (w : ω → Rat) (ws : List ω) (E F : ω → Bool) (h : ∀ x ∈ ws, E x = F x) : Pr w ws E = Pr w ws F := by
  induction ws with
  | nil => simp [Pr]
  | cons x ws ih =>
    rw [Pr_cons, Pr_cons, ih (fun y hy => h y (List.mem_cons_of_mem _ hy)), h x List.mem_cons_self]

theorem Pr_or_disjoint (w : ω → Rat) (ws : List ω) (E F : ω → Bool) (h : ∀ x ∈ ws, ¬ (E x = true ∧ F x = true)) :
    Pr w ws (fun x => E x || F x) = Pr w ws E + Pr w ws F := by
  induction ws with
  | nil => simp [Pr]
  | cons x ws ih =>
    rw [Pr_cons, Pr_cons, Pr_cons, ih (fun y hy => h y (List.mem_cons_of_mem _ hy))]
    have hx := h x List.mem_cons_self
    by_cases hE : E x = true <;> by_cases hF : F x = true
    · exact absurd ⟨hE, hF⟩ hx
    · simp [hE, hF]; ring
    · simp [hE, hF]; ring
    · simp [hE, hF]

theorem Pr_not (w : ω → Rat) (ws : List ω) (E : ω → Bool) :
    Pr w ws (fun x => !E x) = Pr w ws (fun _ => true) - Pr w ws E := by
  have h := Pr_or_disjoint w ws E (fun x => !E x) (by intro x _ ⟨h1, h2⟩; simp [h1] at h2)
  have h2 : Pr w ws (fun x => E x || !E x) = Pr w ws (fun _ => true) := Pr_congr w ws _ _ (by intro x _; simp)
  rw [h2] at h
  linarith

/-- the sum of the probabilities of pairwise exclusive events is the probability of their union -/
theorem sum_exclusive (w : ω → Rat) (ws : List ω) : ∀ (A : List (ω → Bool)),
    A.Pairwise (fun a a' => ∀ x ∈ ws, ¬ (a x = true ∧ a' x = true)) →
    (A.map (Pr w ws)).sum = Pr w ws (fun x => A.any (fun a => a x)) := by
  intro A
  induction A with
  | nil => intro _; simp [Pr]
  | cons a A ih =>
    intro hp
    rw [List.pairwise_cons] at hp
    simp only [List.map_cons, List.sum_cons, List.any_cons]
    rw [ih hp.2, ← Pr_or_disjoint w ws a (fun x => A.any (fun a => a x))]
    intro x hx ⟨h1, h2⟩
    obtain ⟨a', ha', h3⟩ := List.any_eq_true.mp h2
    exact hp.1 a' ha' x hx ⟨h1, h3⟩

end prob

/-! ### solutions as events over assignments -/

/-- the assignment `α` extends the solution (list of literals) `s` -/
def ext (s : List Int) (α : Nat → Bool) : Bool := s.all (litVal α)

/-- two solutions containing complementary literals exclude each other -/
theorem ext_exclusive (s s' : List Int) (x : Int) (hx0 : x ≠ 0) (hx : x ∈ s) (hx' : -x ∈ s') (α : Nat → Bool) :
    ¬ (ext s α = true ∧ ext s' α = true) := by
  rintro ⟨h1, h2⟩
  have a := List.all_eq_true.mp h1 x hx
  have b := List.all_eq_true.mp h2 (-x) hx'
  rw [litVal_neg' α x hx0, a] at b
  cases b

/-- A complete solver answer that satisfies the blocking clause of `s` translates (`from_partial`) to a solution that
    contains the negation of a literal of `s`. -/
theorem blocking_gives_negation (weighted : Nat → Bool) (sol s : List Int)
    (hcomplete : ∀ k : Nat, 0 < k → ((k : Int) ∈ sol ∨ -(k : Int) ∈ sol))
    (hs : ∀ x ∈ s, x ≠ 0 ∧ weighted x.natAbs = true)
    (hsat : satClause (fun k => sol.contains (k : Int)) (blockingLits s) = true) :
    ∃ x ∈ s, -x ∈ fromPartial weighted sol := by
  unfold blockingLits satClause at hsat
  simp only [List.map_map, List.any_map, List.any_eq_true, Function.comp] at hsat
  obtain ⟨x, hx, hv⟩ := hsat
  refine ⟨x, hx, ?_⟩
  obtain ⟨hx0, hw⟩ := hs x hx
  have hcert : certLit (fun k => sol.contains (k : Int)) (-x) = true := hv
  unfold fromPartial
  rw [List.mem_filterMap]
  by_cases hpos : 0 < x
  · -- -x < 0: `pt x` is false in the answer, so `-(pt x)` is in it
    rw [certLit_neg _ (-x) (by omega)] at hcert
    simp only [Int.natAbs_neg, Bool.not_eq_eq_eq_not, Bool.not_true, List.contains_eq_mem,
      decide_eq_false_iff_not] at hcert
    have hk : 0 < pt x.natAbs := pt_pos _ (by omega)
    have hmem : -((pt x.natAbs : Nat) : Int) ∈ sol := by
      rcases hcomplete (pt x.natAbs) hk with h | h
      · exact absurd h hcert
      · exact h
    refine ⟨_, hmem, ?_⟩
    have e1 : (-((pt x.natAbs : Nat) : Int)) % 2 = 1 := by unfold pt; omega
    have e2 : (-((pt x.natAbs : Nat) : Int)) < 0 := by omega
    have e3 : ((-((pt x.natAbs : Nat) : Int)).natAbs + 1) / 2 = x.natAbs := by unfold pt; omega
    simp only [e1, e2, and_self, if_true, e3, hw]
    have hab : ((x.natAbs : Nat) : Int) = x := Int.natAbs_of_nonneg (by omega)
    rw [hab]
  · have hneg : x < 0 := by omega
    rw [certLit_pos _ (-x) (by omega)] at hcert
    simp only [Int.natAbs_neg, List.contains_eq_mem, decide_eq_true_eq] at hcert
    refine ⟨_, hcert, ?_⟩
    have e1 : ¬ ((((ct x.natAbs : Nat) : Int)) % 2 = 1 ∧ (((ct x.natAbs : Nat) : Int)) < 0) := by omega
    have e2 : (((ct x.natAbs : Nat) : Int)) % 2 = 0 ∧ 0 < (((ct x.natAbs : Nat) : Int)) := by unfold ct; omega
    have e3 : ((((ct x.natAbs : Nat) : Int)).natAbs + 1) / 2 = x.natAbs := by unfold ct; omega
    simp only [e1, e2, and_self, if_true, if_false, e3, hw]
    have hab : ((x.natAbs : Nat) : Int) = -x := by omega
    rw [hab]
    simp

end ProbLogProofs.KBest
