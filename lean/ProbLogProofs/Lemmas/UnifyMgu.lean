import ProbLogProofs.Lemmas.Unify
/-!
Helper lemmas for C14: what each step of Robinson's algorithm does to the set of unifiers, and the
induction on the fuel of `mguFuel`.
-/
namespace ProbLogProofs.UnifyLemmas
open ProbLogModel.Unify

/-- `θ` solves every equation of `E`. -/
def Unifies (θ : Int → Tm) (E : Eqs) : Prop := ∀ p ∈ E, p.1.subst θ = p.2.subst θ

theorem unifies_cons (θ : Int → Tm) (s t : Tm) (E : Eqs) :
    Unifies θ ((s, t) :: E) ↔ s.subst θ = t.subst θ ∧ Unifies θ E := by
  simp [Unifies]

theorem unifies_append (θ : Int → Tm) (E F : Eqs) : Unifies θ (E ++ F) ↔ Unifies θ E ∧ Unifies θ F := by
  simp only [Unifies, List.mem_append]
  constructor
  · intro h; exact ⟨fun p hp => h p (Or.inl hp), fun p hp => h p (Or.inr hp)⟩
  · rintro ⟨h1, h2⟩ p (hp | hp)
    · exact h1 p hp
    · exact h2 p hp

theorem map_eq_iff_zip (θ : Int → Tm) : ∀ (as bs : List Tm), as.length = bs.length →
    (as.map (Tm.subst θ) = bs.map (Tm.subst θ) ↔ Unifies θ (as.zip bs)) := by
  intro as
  induction as with
  | nil => intro bs h; cases bs <;> simp_all [Unifies]
  | cons a as ih =>
    intro bs h
    cases bs with
    | nil => simp at h
    | cons b bs =>
      simp only [List.length_cons, Nat.add_right_cancel_iff] at h
      simp only [List.map_cons, List.cons.injEq, List.zip_cons_cons, unifies_cons, ih bs h]

/-- The subst function of a triangular substitution. -/
theorem apply_eq_subst : ∀ (σ : Subst) (t : Tm), σ.apply t = t.subst σ.fn := by
  intro σ
  induction σ with
  | nil => intro t; simp [Subst.apply]; exact (subst_id t).symm
  | cons b σ ih =>
    intro t
    obtain ⟨x, u⟩ := b
    simp only [Subst.apply]
    rw [ih, Tm.elim, subst_subst]
    congr 1
    funext y
    simp only [Subst.fn, Subst.apply]
    rw [ih, Tm.elim]
    simp

theorem apply_cons (x : Int) (u : Tm) (σ : Subst) (t : Tm) :
    Subst.apply ((x, u) :: σ) t = σ.apply (t.elim x u) := by simp [Subst.apply]

theorem apply_append (σ τ : Subst) (t : Tm) : Subst.apply (σ ++ τ) t = τ.apply (σ.apply t) := by
  induction σ generalizing t with
  | nil => simp [Subst.apply]
  | cons b σ ih => obtain ⟨x, u⟩ := b; simp [Subst.apply, ih]

/-! ### classification of one equation -/

theorem classify_drop {s t : Tm} (h : classify s t = .drop) : s = t := by
  unfold classify at h
  split at h <;> simp_all
  all_goals (split at h <;> simp_all)

theorem classify_decomp {s t : Tm} {new : Eqs} (h : classify s t = .decomp new) (θ : Int → Tm) :
    s.subst θ = t.subst θ ↔ Unifies θ new := by
  unfold classify at h
  split at h
  · split at h <;> simp at h
  · split at h <;> simp at h
  · split at h <;> simp at h
  · rename_i f as g bs
    split at h
    · rename_i hc
      simp only [Step.decomp.injEq] at h
      subst h
      obtain ⟨rfl, hl⟩ := hc
      simp only [subst_app, Tm.app.injEq, true_and]
      exact map_eq_iff_zip θ as bs hl
    · simp at h
  · split at h <;> simp at h
  · simp at h
  · simp at h

theorem classify_bind {s t : Tm} {x : Int} {u : Tm} (h : classify s t = .bind x u) :
    u.occ x = false ∧ ((s = .var x ∧ t = u) ∨ (t = .var x ∧ s = u)) := by
  unfold classify at h
  split at h
  · rename_i a b
    split at h
    · simp at h
    · rename_i hne
      simp only [Step.bind.injEq] at h
      obtain ⟨rfl, rfl⟩ := h
      refine ⟨?_, Or.inl ⟨rfl, rfl⟩⟩
      simp only [occ_var, beq_eq_false_iff_ne, ne_eq]
      exact fun e => hne e.symm
  · split at h
    · simp at h
    · rename_i hocc
      simp only [Step.bind.injEq] at h
      obtain ⟨rfl, rfl⟩ := h
      exact ⟨by simpa using hocc, Or.inl ⟨rfl, rfl⟩⟩
  · split at h
    · simp at h
    · rename_i hocc
      simp only [Step.bind.injEq] at h
      obtain ⟨rfl, rfl⟩ := h
      exact ⟨by simpa using hocc, Or.inr ⟨rfl, rfl⟩⟩
  · split at h <;> simp at h
  · split at h <;> simp at h
  · simp at h
  · simp at h

theorem classify_occurs {s t : Tm} (h : classify s t = .occurs) (θ : Int → Tm) : s.subst θ ≠ t.subst θ := by
  unfold classify at h
  split at h
  · split at h <;> simp at h
  · rename_i x hnv
    split at h
    · rename_i hocc
      simp only [subst_var]
      exact no_unifier_of_occ θ x t hocc (fun y e => hnv y e)
    · simp at h
  · rename_i y hnv
    split at h
    · rename_i hocc
      simp only [subst_var]
      exact fun e => no_unifier_of_occ θ y s hocc (fun z e => hnv z e) e.symm
    · simp at h
  · split at h <;> simp at h
  · split at h <;> simp at h
  · simp at h
  · simp at h

theorem classify_clash {s t : Tm} (h : classify s t = .clash) (θ : Int → Tm) : s.subst θ ≠ t.subst θ := by
  cases s <;> cases t <;> simp [classify] at h ⊢
  · split at h <;> simp at h
  · split at h <;> simp at h
  · exact h
  · split at h <;> simp at h
  · intro e hm
    apply h e
    have := congrArg List.length hm
    simpa using this

/-! ### the effect of one step on the set of unifiers -/

theorem unifies_elimAll {θ : Int → Tm} {x : Int} {u : Tm} (hx : θ x = u.subst θ) (E : Eqs) :
    Unifies θ (elimAll x u E) ↔ Unifies θ E := by
  simp only [Unifies, elimAll, List.mem_map, forall_exists_index, and_imp, forall_apply_eq_imp_iff₂,
    subst_elim θ x u _ hx]

/-- The fuel induction, unifier part: every binding made is forced and every unifier of the input
    is a unifier of what is still pending. -/
theorem mguFuel_unifier : ∀ (n : Nat) (E : Eqs) (σ : Subst), mguFuel n E = some (.unifier σ) →
    Unifies σ.fn E ∧ (∀ θ, Unifies θ E → ∀ t : Tm, (σ.apply t).subst θ = t.subst θ) ∧
    (∀ b ∈ σ, b.2.occ b.1 = false) := by
  intro n
  induction n with
  | zero => intro E σ h; simp [mguFuel] at h
  | succ n ih =>
    intro E σ h
    cases E with
    | nil =>
      simp only [mguFuel, Option.some.injEq, Outcome.unifier.injEq] at h
      subst h
      refine ⟨by simp [Unifies], ?_, by simp⟩
      intro θ _ t; simp [Subst.apply]
    | cons p rest =>
      obtain ⟨s, t⟩ := p
      simp only [mguFuel] at h
      split at h
      · rename_i hc
        have hst := classify_drop hc
        obtain ⟨h1, h2, h3⟩ := ih rest σ h
        refine ⟨?_, ?_, h3⟩
        · rw [unifies_cons]; exact ⟨by rw [hst], h1⟩
        · intro θ hθ; exact h2 θ ((unifies_cons θ s t rest).1 hθ).2
      · rename_i new hc
        obtain ⟨h1, h2, h3⟩ := ih (new ++ rest) σ h
        rw [unifies_append] at h1
        refine ⟨?_, ?_, h3⟩
        · rw [unifies_cons]; exact ⟨(classify_decomp hc σ.fn).2 h1.1, h1.2⟩
        · intro θ hθ
          rw [unifies_cons] at hθ
          apply h2 θ
          rw [unifies_append]
          exact ⟨(classify_decomp hc θ).1 hθ.1, hθ.2⟩
      · rename_i x u hc
        obtain ⟨hocc, hxu⟩ := classify_bind hc
        split at h
        · rename_i σ' hr
          simp only [Option.some.injEq, Outcome.unifier.injEq] at h
          subst h
          obtain ⟨h1, h2, h3⟩ := ih _ σ' hr
          -- the new substitution solves x ≐ u
          have hfn : ∀ v : Tm, v.subst (Subst.fn ((x, u) :: σ')) = (v.elim x u).subst σ'.fn := by
            intro v; rw [← apply_eq_subst, ← apply_eq_subst, apply_cons]
          have hx : Subst.fn ((x, u) :: σ') x = u.subst (Subst.fn ((x, u) :: σ')) := by
            have := hfn (.var x)
            simp only [subst_var] at this
            rw [this, hfn u, elim_of_not_occ x u u hocc]
            simp [Tm.elim, single]
          refine ⟨?_, ?_, ?_⟩
          · rw [unifies_cons]
            refine ⟨?_, ?_⟩
            · rcases hxu with ⟨rfl, rfl⟩ | ⟨rfl, rfl⟩
              · simpa using hx
              · simpa using hx.symm
            · intro p hp
              rw [hfn, hfn]
              exact h1 (p.1.elim x u, p.2.elim x u) (by
                simp only [elimAll, List.mem_map]; exact ⟨p, hp, rfl⟩)
          · intro θ hθ v
            rw [unifies_cons] at hθ
            have hθx : θ x = u.subst θ := by
              rcases hxu with ⟨rfl, rfl⟩ | ⟨rfl, rfl⟩
              · simpa using hθ.1
              · simpa using hθ.1.symm
            rw [apply_cons, h2 θ ((unifies_elimAll hθx rest).2 hθ.2), subst_elim θ x u v hθx]
          · intro b hb
            simp only [List.mem_cons] at hb
            rcases hb with rfl | hb
            · exact hocc
            · exact h3 b hb
        · rename_i r hne
          exact absurd h (hne σ)
      · simp at h
      · simp at h

/-- The fuel induction, failure part: a `clash`/`occurs` outcome means the input has no unifier. -/
theorem mguFuel_fail : ∀ (n : Nat) (E : Eqs), (mguFuel n E = some .clash ∨ mguFuel n E = some .occurs) →
    ∀ θ, ¬ Unifies θ E := by
  intro n
  induction n with
  | zero => intro E h; simp [mguFuel] at h
  | succ n ih =>
    intro E h θ hθ
    cases E with
    | nil => simp [mguFuel] at h
    | cons p rest =>
      obtain ⟨s, t⟩ := p
      rw [unifies_cons] at hθ
      simp only [mguFuel] at h
      split at h
      · exact ih rest h θ hθ.2
      · rename_i new hc
        apply ih (new ++ rest) h θ
        rw [unifies_append]
        exact ⟨(classify_decomp hc θ).1 hθ.1, hθ.2⟩
      · rename_i x u hc
        obtain ⟨hocc, hxu⟩ := classify_bind hc
        have hθx : θ x = u.subst θ := by
          rcases hxu with ⟨rfl, rfl⟩ | ⟨rfl, rfl⟩
          · simpa using hθ.1
          · simpa using hθ.1.symm
        split at h
        · simp at h
        · rename_i r hne
          exact ih _ h θ ((unifies_elimAll hθx rest).2 hθ.2)
      · rename_i hc
        exact classify_clash hc θ hθ.1
      · rename_i hc
        exact classify_occurs hc θ hθ.1

end ProbLogProofs.UnifyLemmas
