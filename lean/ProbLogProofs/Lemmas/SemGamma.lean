import ProbLogModel.Sem
/-!
# `Sem.gamma` computes the least model of the reduct (core Lean only)

`Closed`/`ClosedBelow` are the specification-level notions; the main results are `gamma_closedBelow`,
`gamma_least` and the congruence `gamma_congr` (the result only depends on the *set* of rules, each rule read
up to the sets of its positive / negative body atoms).
-/
namespace ProbLogProofs.SemGamma
open ProbLogModel.Sem

/-! ## `Array Bool` as a finite set of naturals -/

theorem getB_set (a : Array Bool) (h i : Nat) :
    getB (a.setIfInBounds h true) i = (getB a i || (decide (h = i) && decide (h < a.size))) := by
  unfold getB
  simp only [Array.getD_eq_getD_getElem?, Array.getElem?_setIfInBounds]
  by_cases hi : h = i
  · subst hi
    by_cases hs : h < a.size <;> simp [hs]
  · simp [hi]

theorem getB_lt {a : Array Bool} {i : Nat} (h : getB a i = true) : i < a.size := by
  unfold getB at h
  by_cases hs : i < a.size
  · exact hs
  · simp [Array.getD_eq_getD_getElem?, Array.getElem?_eq_none (Nat.le_of_not_lt hs)] at h

theorem arr_ext {a b : Array Bool} (hs : a.size = b.size) (h : ∀ i, i < a.size → getB a i = getB b i) :
    a = b := by
  apply Array.ext hs
  intro i h1 h2
  have := h i h1
  unfold getB at this
  simpa [Array.getD_eq_getD_getElem?, h1, h2] using this

theorem getB_replicate (n i : Nat) : getB (Array.replicate n false) i = false := by
  unfold getB
  by_cases hs : i < n <;> simp [Array.getD_eq_getD_getElem?, hs]

/-- pointwise inclusion -/
def Le (a b : Array Bool) : Prop := ∀ i, getB a i = true → getB b i = true

theorem Le.refl (a : Array Bool) : Le a a := fun _ h => h
theorem Le.trans {a b c : Array Bool} (h1 : Le a b) (h2 : Le b c) : Le a c := fun i h => h2 i (h1 i h)

theorem Le.antisymm {a b : Array Bool} (hs : a.size = b.size) (h1 : Le a b) (h2 : Le b a) : a = b := by
  apply arr_ext hs
  intro i _
  cases ha : getB a i <;> cases hb : getB b i <;> simp_all [Le]

/-- number of members below `n` -/
def cntN (n : Nat) (a : Array Bool) : Nat := (List.range n).countP (getB a)

theorem cntN_le (n : Nat) (a : Array Bool) : cntN n a ≤ n := by
  unfold cntN
  exact Nat.le_trans List.countP_le_length (by simp)

theorem cntN_mono {a b : Array Bool} (h : Le a b) (n : Nat) : cntN n a ≤ cntN n b :=
  List.countP_mono_left (fun x _ hx => h x hx)

theorem cntN_lt {a b : Array Bool} (h : Le a b) {n i : Nat} (hi : i < n) (ha : getB a i = false)
    (hb : getB b i = true) : cntN n a < cntN n b := by
  induction n with
  | zero => omega
  | succ n ih =>
    unfold cntN
    simp only [List.range_succ, List.countP_append, List.countP_singleton]
    have hm := cntN_mono h n
    unfold cntN at hm ih
    by_cases hin : i = n
    · subst hin
      simp only [ha, hb]
      simp
      omega
    · have := ih (by omega)
      have hl : (if getB a n = true then 1 else 0) ≤ (if getB b n = true then 1 else 0) := by
        by_cases hn : getB a n = true
        · simp [hn, h n hn]
        · simp [hn]
      omega

theorem cntN_lt_of_ne {a b : Array Bool} (hs : a.size = b.size) (h : Le a b) (hne : a ≠ b) :
    cntN a.size a < cntN a.size b := by
  have : ∃ i, i < a.size ∧ getB a i ≠ getB b i := by
    apply Classical.byContradiction
    intro hc
    apply hne
    apply arr_ext hs
    intro i hi
    apply Classical.byContradiction
    intro hx
    exact hc ⟨i, hi, hx⟩
  obtain ⟨i, hi, hx⟩ := this
  cases ha : getB a i
  · cases hb : getB b i
    · simp_all
    · exact cntN_lt h hi ha hb
  · have := h i ha; simp_all

/-! ## one rule application, one pass -/

/-- the guard of a rule: its choice (if any) is selected -/
def chOk (chosen : Array Bool) (r : Rule) : Bool :=
  match r.choice with
  | none => true
  | some c => getB chosen c

def fires (chosen ctx acc : Array Bool) (r : Rule) : Bool :=
  chOk chosen r && r.pos.all (getB acc) && r.neg.all (fun a => !getB ctx a)

def step (chosen ctx : Array Bool) (acc : Array Bool) (r : Rule) : Array Bool :=
  if fires chosen ctx acc r then acc.setIfInBounds r.head true else acc

theorem tpPass_eq (rules : List Rule) (chosen ctx cur : Array Bool) :
    tpPass rules chosen ctx cur = rules.foldl (step chosen ctx) cur := rfl

theorem step_size (chosen ctx acc : Array Bool) (r : Rule) : (step chosen ctx acc r).size = acc.size := by
  unfold step; split <;> simp

theorem foldl_size (chosen ctx : Array Bool) (rs : List Rule) (acc : Array Bool) :
    (rs.foldl (step chosen ctx) acc).size = acc.size := by
  induction rs generalizing acc with
  | nil => rfl
  | cons r rs ih => simp only [List.foldl_cons, ih, step_size]

theorem le_step (chosen ctx acc : Array Bool) (r : Rule) : Le acc (step chosen ctx acc r) := by
  intro i h
  unfold step; split
  · rw [getB_set, h]; rfl
  · exact h

theorem le_foldl (chosen ctx : Array Bool) (rs : List Rule) (acc : Array Bool) :
    Le acc (rs.foldl (step chosen ctx) acc) := by
  induction rs generalizing acc with
  | nil => exact Le.refl _
  | cons r rs ih => exact Le.trans (le_step chosen ctx acc r) (ih _)

theorem fires_mono {chosen ctx a b : Array Bool} (h : Le a b) {r : Rule} (hf : fires chosen ctx a r = true) :
    fires chosen ctx b r = true := by
  unfold fires at *
  simp only [Bool.and_eq_true, List.all_eq_true] at *
  exact ⟨⟨hf.1.1, fun x hx => h x (hf.1.2 x hx)⟩, hf.2⟩

/-- If a pass adds nothing, every rule that fires already has its head in the set. -/
theorem fixed_closed (chosen ctx : Array Bool) (rs : List Rule) (acc : Array Bool)
    (hfix : Le (rs.foldl (step chosen ctx) acc) acc) :
    ∀ r ∈ rs, fires chosen ctx acc r = true → r.head < acc.size → getB acc r.head = true := by
  induction rs generalizing acc with
  | nil => intro r hr; cases hr
  | cons r0 rs ih =>
    intro r hr hf hlt
    simp only [List.foldl_cons] at hfix
    have h01 : Le acc (step chosen ctx acc r0) := le_step chosen ctx acc r0
    have hback : Le (step chosen ctx acc r0) acc := Le.trans (le_foldl chosen ctx rs _) hfix
    rcases List.mem_cons.1 hr with rfl | hr'
    · apply hback
      unfold step; rw [if_pos hf, getB_set]; simp [hlt]
    · apply hback
      apply ih (step chosen ctx acc r0) (Le.trans hfix h01) r hr' (fires_mono h01 hf)
      rw [step_size]; exact hlt

/-! ## specification-level closure -/

/-- `M` is closed under every rule whose choice is selected, whose positive body lies in `M` and whose negative
    body is false in `ctx`. -/
def Closed (rules : List Rule) (chosen ctx : Array Bool) (M : Nat → Bool) : Prop :=
  ∀ r ∈ rules, chOk chosen r = true → (∀ a ∈ r.pos, M a = true) → (∀ a ∈ r.neg, getB ctx a = false) →
    M r.head = true

/-- Same, restricted to rules whose head is an atom `< n` (heads `≥ n` are ignored by `tpPass`). -/
def ClosedBelow (n : Nat) (rules : List Rule) (chosen ctx : Array Bool) (M : Nat → Bool) : Prop :=
  ∀ r ∈ rules, chOk chosen r = true → (∀ a ∈ r.pos, M a = true) → (∀ a ∈ r.neg, getB ctx a = false) →
    r.head < n → M r.head = true

/-- well-formedness: every atom mentioned by a rule is `< natoms` (decidable) -/
def wfProg (natoms : Nat) (rules : List Rule) : Bool :=
  rules.all (fun r => decide (r.head < natoms) && r.pos.all (· < natoms) && r.neg.all (· < natoms))

/-- the part of `wfProg` that `gamma`'s closure needs: every head is `< natoms` -/
def wfHeads (natoms : Nat) (rules : List Rule) : Bool := rules.all (fun r => decide (r.head < natoms))

theorem wfHeads_of_wfProg {natoms : Nat} {rules : List Rule} (h : wfProg natoms rules = true) :
    wfHeads natoms rules = true := by
  unfold wfProg at h; unfold wfHeads
  rw [List.all_eq_true] at *
  intro r hr
  have := h r hr
  simp only [Bool.and_eq_true] at this
  exact this.1.1

theorem ClosedBelow.closed {n rules chosen ctx M} (hwf : wfHeads n rules = true)
    (h : ClosedBelow n rules chosen ctx M) : Closed rules chosen ctx M := by
  intro r hr h1 h2 h3
  unfold wfHeads at hwf
  rw [List.all_eq_true] at hwf
  exact h r hr h1 h2 h3 (by simpa using hwf r hr)

theorem Closed.below {rules chosen ctx M} (h : Closed rules chosen ctx M) (n : Nat) :
    ClosedBelow n rules chosen ctx M := fun r hr h1 h2 h3 _ => h r hr h1 h2 h3

theorem fires_iff (chosen ctx acc : Array Bool) (r : Rule) :
    fires chosen ctx acc r = true ↔
      chOk chosen r = true ∧ (∀ a ∈ r.pos, getB acc a = true) ∧ (∀ a ∈ r.neg, getB ctx a = false) := by
  unfold fires
  simp only [Bool.and_eq_true, List.all_eq_true, Bool.not_eq_true', and_assoc]

/-- One pass stays below every closed set. -/
theorem foldl_below {n : Nat} {rules : List Rule} {chosen ctx : Array Bool} {M : Nat → Bool}
    (rs : List Rule) (hsub : ∀ r ∈ rs, r ∈ rules) (hM : ClosedBelow n rules chosen ctx M)
    (acc : Array Bool) (hn : acc.size = n) (hacc : ∀ i, getB acc i = true → M i = true) :
    ∀ i, getB (rs.foldl (step chosen ctx) acc) i = true → M i = true := by
  induction rs generalizing acc with
  | nil => exact hacc
  | cons r rs ih =>
    simp only [List.foldl_cons]
    apply ih (fun r' hr' => hsub r' (List.mem_cons_of_mem _ hr'))
    · rw [step_size]; exact hn
    · intro i hi
      unfold step at hi
      split at hi
      · rename_i hf
        rw [getB_set] at hi
        simp only [Bool.or_eq_true, Bool.and_eq_true, decide_eq_true_eq] at hi
        rcases hi with hi | ⟨rfl, hlt⟩
        · exact hacc i hi
        · obtain ⟨h1, h2, h3⟩ := (fires_iff _ _ _ _).1 hf
          exact hM r (hsub r List.mem_cons_self) h1 (fun a ha => hacc a (h2 a ha)) h3 (hn ▸ hlt)
      · exact hacc i hi

/-! ## the iteration -/

theorem go_spec (rules : List Rule) (chosen ctx : Array Bool) (n : Nat) :
    ∀ (fuel : Nat) (cur : Array Bool), cur.size = n → n < fuel + cntN n cur →
      (gamma.go rules chosen ctx fuel cur).size = n ∧
      Le cur (gamma.go rules chosen ctx fuel cur) ∧
      tpPass rules chosen ctx (gamma.go rules chosen ctx fuel cur) = gamma.go rules chosen ctx fuel cur ∧
      (∀ M, ClosedBelow n rules chosen ctx M → (∀ i, getB cur i = true → M i = true) →
        ∀ i, getB (gamma.go rules chosen ctx fuel cur) i = true → M i = true) := by
  intro fuel
  induction fuel with
  | zero =>
    intro cur _ hf
    have := cntN_le n cur
    omega
  | succ fuel ih =>
    intro cur hn hf
    unfold gamma.go
    simp only
    by_cases heq : (tpPass rules chosen ctx cur == cur) = true
    · rw [if_pos heq]
      have heq' : tpPass rules chosen ctx cur = cur := by simpa using heq
      exact ⟨hn, Le.refl _, heq', fun M _ h => h⟩
    · rw [if_neg heq]
      have hne : cur ≠ tpPass rules chosen ctx cur := by
        intro h; apply heq; rw [← h]; simp
      have hle : Le cur (tpPass rules chosen ctx cur) := le_foldl chosen ctx rules cur
      have hsz : (tpPass rules chosen ctx cur).size = cur.size := foldl_size chosen ctx rules cur
      have hlt := cntN_lt_of_ne hsz.symm hle hne
      rw [hn] at hlt
      obtain ⟨h1, h2, h3, h4⟩ := ih (tpPass rules chosen ctx cur) (hsz.trans hn) (by omega)
      refine ⟨h1, Le.trans hle h2, h3, ?_⟩
      intro M hM hcur
      apply h4 M hM
      exact foldl_below rules (fun _ h => h) hM cur hn hcur

theorem gamma_spec (rules : List Rule) (chosen : Array Bool) (natoms : Nat) (ctx : Array Bool) :
    (gamma rules chosen natoms ctx).size = natoms ∧
    tpPass rules chosen ctx (gamma rules chosen natoms ctx) = gamma rules chosen natoms ctx ∧
    (∀ M, ClosedBelow natoms rules chosen ctx M →
        ∀ i, getB (gamma rules chosen natoms ctx) i = true → M i = true) := by
  have h := go_spec rules chosen ctx natoms (natoms + 1) (Array.replicate natoms false) (by simp) (by omega)
  unfold gamma
  refine ⟨h.1, h.2.2.1, fun M hM => h.2.2.2 M hM ?_⟩
  intro i hi
  rw [getB_replicate] at hi
  cases hi

theorem gamma_size (rules : List Rule) (chosen : Array Bool) (natoms : Nat) (ctx : Array Bool) :
    (gamma rules chosen natoms ctx).size = natoms := (gamma_spec rules chosen natoms ctx).1

theorem gamma_lt {rules : List Rule} {chosen : Array Bool} {natoms : Nat} {ctx : Array Bool} {i : Nat}
    (h : getB (gamma rules chosen natoms ctx) i = true) : i < natoms := by
  have := getB_lt h
  rwa [gamma_size] at this

theorem gamma_closedBelow (rules : List Rule) (chosen : Array Bool) (natoms : Nat) (ctx : Array Bool) :
    ClosedBelow natoms rules chosen ctx (getB (gamma rules chosen natoms ctx)) := by
  intro r hr h1 h2 h3 hlt
  obtain ⟨hs, hfix, _⟩ := gamma_spec rules chosen natoms ctx
  apply fixed_closed chosen ctx rules (gamma rules chosen natoms ctx)
    (by rw [← tpPass_eq, hfix]; exact Le.refl _) r hr
  · exact (fires_iff _ _ _ _).2 ⟨h1, h2, h3⟩
  · rw [hs]; exact hlt

theorem gamma_least (rules : List Rule) (chosen : Array Bool) (natoms : Nat) (ctx : Array Bool)
    (M : Nat → Bool) (hM : ClosedBelow natoms rules chosen ctx M) :
    ∀ i, getB (gamma rules chosen natoms ctx) i = true → M i = true :=
  (gamma_spec rules chosen natoms ctx).2.2 M hM

/-! ## the result depends only on the set of rules, each read up to its body sets -/

/-- `r'` has the same head and choice as `r`, and bodies with the same members. -/
def REquiv (r r' : Rule) : Prop :=
  r.head = r'.head ∧ r.choice = r'.choice ∧ (∀ a, a ∈ r.pos ↔ a ∈ r'.pos) ∧ (∀ a, a ∈ r.neg ↔ a ∈ r'.neg)

/-- every rule of `rules` has an equivalent in `rules'` -/
def RSub (rules rules' : List Rule) : Prop := ∀ r ∈ rules, ∃ r' ∈ rules', REquiv r r'

theorem closedBelow_of_rsub {rules rules' : List Rule} (h : RSub rules rules') {n chosen ctx M}
    (hM : ClosedBelow n rules' chosen ctx M) : ClosedBelow n rules chosen ctx M := by
  intro r hr h1 h2 h3 hlt
  obtain ⟨r', hr', hh, hc, hp, hn⟩ := h r hr
  rw [hh]
  apply hM r' hr'
  · unfold chOk at *; rw [← hc]; exact h1
  · exact fun a ha => h2 a ((hp a).2 ha)
  · exact fun a ha => h3 a ((hn a).2 ha)
  · rw [← hh]; exact hlt

/-- more rules, larger least model -/
theorem gamma_mono_rules {rules rules' : List Rule} (h : RSub rules rules') (chosen : Array Bool)
    (natoms : Nat) (ctx : Array Bool) :
    Le (gamma rules chosen natoms ctx) (gamma rules' chosen natoms ctx) :=
  gamma_least rules chosen natoms ctx _ (closedBelow_of_rsub h (gamma_closedBelow rules' chosen natoms ctx))

theorem gamma_congr {rules rules' : List Rule} (h : RSub rules rules') (h' : RSub rules' rules)
    (chosen : Array Bool) (natoms : Nat) (ctx : Array Bool) :
    gamma rules chosen natoms ctx = gamma rules' chosen natoms ctx :=
  Le.antisymm (by rw [gamma_size, gamma_size]) (gamma_mono_rules h chosen natoms ctx)
    (gamma_mono_rules h' chosen natoms ctx)

end ProbLogProofs.SemGamma
