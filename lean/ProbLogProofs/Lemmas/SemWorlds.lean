import ProbLogModel.Sem
import Mathlib.Algebra.Ring.Rat
import Mathlib.Tactic.Ring
/-!
# Lemmas about `Sem.worlds`: total weight and number of total choices
-/
namespace ProbLogProofs.SemWorlds
open ProbLogModel.Sem

/-- Sum of the weights of a list of worlds. -/
def wsum (ws : List World) : Rat := (ws.map (·.weight)).sum

theorem wsum_nil : wsum [] = 0 := rfl

theorem wsum_cons (w : World) (ws : List World) : wsum (w :: ws) = w.weight + wsum ws := by
  simp [wsum]

theorem wsum_append (a b : List World) : wsum (a ++ b) = wsum a + wsum b := by
  induction a with
  | nil => simp [wsum]
  | cons w a ih => simp only [List.cons_append, wsum_cons, ih]; ring

theorem wsum_scale (p : Rat) (f : World → List Nat) (ws : List World) :
    wsum (ws.map (fun w => (⟨p * w.weight, f w⟩ : World))) = p * wsum ws := by
  induction ws with
  | nil => simp [wsum]
  | cons w ws ih => simp only [List.map_cons, wsum_cons, ih]; ring

theorem foldl_add_eq (l : List Rat) (a : Rat) : l.foldl (· + ·) a = a + l.sum := by
  induction l generalizing a with
  | nil => simp
  | cons x l ih => simp only [List.foldl_cons, ih, List.sum_cons]; ring

theorem wsum_alts (alts : List (Rat × Nat)) (rest : List World) :
    wsum (alts.flatMap (fun (p, c) => rest.map (fun w => (⟨p * w.weight, c :: w.chosen⟩ : World))))
      = (alts.map (·.1)).sum * wsum rest := by
  induction alts with
  | nil => simp [wsum]
  | cons pc alts ih =>
    obtain ⟨p, c⟩ := pc
    simp only [List.flatMap_cons, wsum_append, ih, List.map_cons, List.sum_cons]
    rw [wsum_scale p (fun w => c :: w.chosen)]
    ring

theorem worlds_cons (g : Group) (gs : List Group) :
    worlds (g :: gs) =
      (g.alts.flatMap (fun (p, c) => (worlds gs).map (fun w => (⟨p * w.weight, c :: w.chosen⟩ : World)))) ++
        (worlds gs).map (fun w => (⟨(1 - (g.alts.map (·.1)).foldl (· + ·) 0) * w.weight, w.chosen⟩ : World)) := rfl

theorem wsum_worlds (gs : List Group) : wsum (worlds gs) = 1 := by
  induction gs with
  | nil => simp [worlds, wsum]
  | cons g gs ih =>
    rw [worlds_cons, wsum_append, wsum_alts, wsum_scale _ (fun w => w.chosen), ih, foldl_add_eq]
    ring

theorem length_alts (alts : List (Rat × Nat)) (rest : List World) :
    (alts.flatMap (fun (p, c) => rest.map (fun w => (⟨p * w.weight, c :: w.chosen⟩ : World)))).length
      = alts.length * rest.length := by
  induction alts with
  | nil => simp
  | cons pc alts ih =>
    simp only [List.flatMap_cons, List.length_append, ih, List.length_map, List.length_cons]; ring

theorem length_worlds (gs : List Group) :
    (worlds gs).length = (gs.map (fun g => g.alts.length + 1)).prod := by
  induction gs with
  | nil => simp [worlds]
  | cons g gs ih =>
    rw [worlds_cons, List.length_append, length_alts, List.length_map, List.map_cons, List.prod_cons, ih]
    ring

end ProbLogProofs.SemWorlds
