import ProbLogModel.Propagate
/-!
# C06 helper lemmas (1): soundness invariant of the propagation worklist

`CurOK ρ cur` : every entry of the dict `current` holds in the valuation `ρ`;
`QOK ρ q`     : every queued literal is true in `ρ`.
Both are preserved by one iteration (`popStep_sound`) whatever element is popped, and an iteration raises
`inconsistent` only if no such `ρ` exists.
-/
namespace ProbLogModel.Propagate
open ProbLogModel.Formula

instance {ε α} [DecidableEq ε] [DecidableEq α] : DecidableEq (Except ε α) := fun a b =>
  match a, b with
  | .ok x, .ok y => if h : x = y then isTrue (by rw [h]) else isFalse (by intro e; cases e; exact h rfl)
  | .error x, .error y => if h : x = y then isTrue (by rw [h]) else isFalse (by intro e; cases e; exact h rfl)
  | .ok _, .error _ => isFalse (by intro e; cases e)
  | .error _, .ok _ => isFalse (by intro e; cases e)

/-! ### association lists -/

theorem lookup_assocSet {β} (l : List (Nat × β)) (k : Nat) (v : β) (x : Nat) :
    lookup (assocSet l k v) x = if x = k then some v else lookup l x := by
  induction l with
  | nil =>
    by_cases h : x = k
    · subst h; simp [assocSet, lookup]
    · have : ¬ (k = x) := fun e => h e.symm
      simp [assocSet, lookup, h, this]
  | cons p r ih =>
    obtain ⟨a, b⟩ := p
    by_cases hak : a = k
    · subst hak
      by_cases hx : x = a
      · subst hx; simp [assocSet, lookup]
      · have : ¬ (a = x) := fun e => hx e.symm
        simp [assocSet, lookup, hx, this]
    · by_cases hx : x = k
      · subst hx
        simp only [assocSet, beq_iff_eq, hak, if_false, lookup, ih, if_true]
      · simp only [assocSet, beq_iff_eq, hak, if_false, lookup, ih, hx]

/-! ### keys -/

theorem negate_some (k : Int) (h : k ≠ 0) : negate (some k) = some (-k) := by
  unfold negate
  split <;> simp_all

theorem keyVal_negate (ρ : Nat → Bool) (k : Key) : keyVal ρ (negate k) = !(keyVal ρ k) := by
  cases k with
  | none => rfl
  | some i =>
    by_cases h0 : i = 0
    · subst h0; rfl
    · rw [negate_some i h0]
      unfold keyVal
      have h1 : -i ≠ 0 := by omega
      simp only [h0, h1, if_false]
      by_cases hk : i < 0
      · have : ¬ (-i < 0) := by omega
        simp [hk, Int.natAbs_neg]; omega
      · have : -i < 0 := by omega
        simp [hk, Int.natAbs_neg]; omega

/-- A queued literal `q` (node `|q|` is true if `q > 0`, false if `q < 0`) holds in `ρ`. -/
def litTrue (ρ : Nat → Bool) (q : Int) : Prop := keyVal ρ (some q) = true

theorem litTrue_iff (ρ : Nat → Bool) (q : Int) (h : q ≠ 0) : litTrue ρ q ↔ ρ q.natAbs = decide (q > 0) := by
  unfold litTrue keyVal
  simp only [h, if_false]
  by_cases hq : q < 0
  · have : ¬ (q > 0) := by omega
    simp [hq, this]
  · have : q > 0 := by omega
    simp [hq, this]

theorem litTrue_neg (ρ : Nat → Bool) (k : Int) (h : k ≠ 0) : litTrue ρ (-k) ↔ keyVal ρ (some k) = false := by
  unfold litTrue
  have := keyVal_negate ρ (some k)
  rw [negate_some k h] at this
  rw [this]
  cases keyVal ρ (some k) <;> simp

/-! ### the invariant -/

structure CurOK (ρ : Nat → Bool) (cur : Cur) : Prop where
  zero : lookup cur 0 = none
  val : ∀ n v, lookup cur n = some v → (v = TRUE ∧ ρ n = true) ∨ (v = FALSE ∧ ρ n = false)

def QOK (ρ : Nat → Bool) (q : List Int) : Prop := ∀ x, x ∈ q → litTrue ρ x

theorem CurOK.nil (ρ : Nat → Bool) : CurOK ρ [] := ⟨rfl, by intro n v h; cases h⟩

theorem CurOK.set {ρ : Nat → Bool} {cur : Cur} (h : CurOK ρ cur) (nid : Int) (hn : nid ≠ 0) (ht : litTrue ρ nid) :
    CurOK ρ (assocSet cur nid.natAbs (if nid > 0 then TRUE else FALSE)) := by
  have ha : nid.natAbs ≠ 0 := by omega
  refine ⟨?_, ?_⟩
  · rw [lookup_assocSet]
    have : ¬ (0 = nid.natAbs) := fun e => ha e.symm
    simp only [this, if_false]; exact h.zero
  · intro n v hv
    rw [lookup_assocSet] at hv
    by_cases hna : n = nid.natAbs
    · simp only [hna, if_true] at hv
      have hρ := (litTrue_iff ρ nid hn).1 ht
      subst hna
      by_cases hp : nid > 0
      · simp only [hp, if_true] at hv
        left; exact ⟨(Option.some.inj hv).symm, by rw [hρ]; simp [hp]⟩
      · simp only [hp, if_false] at hv
        right; exact ⟨(Option.some.inj hv).symm, by rw [hρ]; simp [hp]⟩
    · simp only [hna, if_false] at hv
      exact h.val n v hv

theorem QOK.qAdd {ρ : Nat → Bool} {q : List Int} (h : QOK ρ q) {x : Int} (hx : litTrue ρ x) : QOK ρ (qAdd q x) := by
  unfold Propagate.qAdd
  split
  · exact h
  · intro y hy
    rcases List.mem_append.1 hy with hy | hy
    · exact h y hy
    · have : y = x := by simpa using hy
      subst this; exact hx

theorem QOK.erase {ρ : Nat → Bool} {q : List Int} (h : QOK ρ q) (x : Int) : QOK ρ (q.erase x) :=
  fun y hy => h y (List.mem_of_mem_erase hy)

theorem QOK.foldl_addIfNew {ρ : Nat → Bool} (cur : Cur) (g : Int → Int) (l : List Int) :
    ∀ (q : List Int), QOK ρ q → (∀ c, c ∈ l → litTrue ρ (g c)) →
      QOK ρ (l.foldl (fun q c => addIfNew cur q (g c)) q) := by
  induction l with
  | nil => intro q hq _; exact hq
  | cons a r ih =>
    intro q hq hl
    simp only [List.foldl_cons]
    apply ih
    · unfold addIfNew
      split
      · exact hq.qAdd (hl a (List.mem_cons_self))
      · exact hq
    · intro c hc; exact hl c (List.mem_cons_of_mem _ hc)

theorem requeue_ok {ρ : Nat → Bool} {cur : Cur} (hc : CurOK ρ cur) (parents : List Nat) :
    ∀ (q : List Int), QOK ρ q → QOK ρ (requeue cur q parents) := by
  unfold requeue
  induction parents with
  | nil => intro q hq; exact hq
  | cons a r ih =>
    intro q hq
    simp only [List.foldl_cons]
    apply ih
    cases hl : lookup cur a with
    | none => exact hq
    | some v =>
      have ha : a ≠ 0 := by
        intro e; subst e; rw [hc.zero] at hl; cases hl
      have ha' : ((a : Nat) : Int) ≠ 0 := by omega
      rcases hc.val a v hl with ⟨hv, hρ⟩ | ⟨hv, hρ⟩
      · subst hv
        simp only [beq_self_eq_true, if_true]
        apply hq.qAdd
        rw [litTrue_iff ρ _ ha']
        simp only [Int.natAbs_natCast, hρ]
        have : ((a : Nat) : Int) > 0 := by omega
        exact (decide_eq_true this).symm
      · subst hv
        have : (FALSE == TRUE) = false := by decide
        simp only [this]
        apply hq.qAdd
        have hne : -((a : Nat) : Int) ≠ 0 := by omega
        rw [litTrue_iff ρ _ hne]
        simp only [Int.natAbs_neg, Int.natAbs_natCast, hρ]
        have : ¬ (-((a : Nat) : Int) > 0) := by omega
        exact (decide_eq_false this).symm

/-! ### children -/

theorem childVal_sound {ρ : Nat → Bool} {cur : Cur} (hc : CurOK ρ cur) (c v : Key)
    (h : childVal cur c = .ok v) : keyVal ρ v = keyVal ρ c := by
  cases c with
  | none => simp [childVal] at h
  | some k =>
    simp only [childVal, Except.ok.injEq] at h
    have hch : keyVal ρ ((lookup cur k.natAbs).getD (some (k.natAbs : Int))) = keyVal ρ (some (k.natAbs : Int)) := by
      cases hl : lookup cur k.natAbs with
      | none => rfl
      | some w =>
        have hk0 : k.natAbs ≠ 0 := by
          intro e; rw [e, hc.zero] at hl; cases hl
        have hk1 : ((k.natAbs : Nat) : Int) ≠ 0 := by omega
        have hpos : ((k.natAbs : Nat) : Int) > 0 := by omega
        have hlit := litTrue_iff ρ (k.natAbs : Int) hk1
        simp only [Int.natAbs_natCast, hpos, decide_true] at hlit
        rcases hc.val _ w hl with ⟨hw, hρ⟩ | ⟨hw, hρ⟩
        · subst hw
          simp only [Option.getD_some]
          have := hlit.2 hρ
          unfold litTrue at this
          rw [this]; rfl
        · subst hw
          simp only [Option.getD_some]
          have hnot : ¬ litTrue ρ (k.natAbs : Int) := by
            intro hh; have := hlit.1 hh; rw [hρ] at this; cases this
          unfold litTrue at hnot
          cases hkv : keyVal ρ (some (k.natAbs : Int)) with
          | true => exact absurd hkv hnot
          | false => rfl
    by_cases hk : k < 0
    · simp only [hk, if_true] at h
      rw [← h, keyVal_negate, hch]
      have hk0 : k ≠ 0 := by omega
      have e : ((k.natAbs : Nat) : Int) = -k := by omega
      rw [e]
      have := keyVal_negate ρ (some (-k))
      have hn : negate (some (-k)) = some k := by
        rw [negate_some (-k) (by omega)]; simp
      rw [hn] at this
      rw [this]
    · simp only [hk, if_false] at h
      rw [← h, hch]
      have e : ((k.natAbs : Nat) : Int) = k := by omega
      rw [e]

theorem childVals_err {cur : Cur} {cs : List Key} {e : PErr} (h : childVals cur cs = .error e) : e = .typeError := by
  induction cs with
  | nil => simp [childVals] at h
  | cons c r ih =>
    unfold childVals at h
    cases hc : childVal cur c with
    | error e' =>
      rw [hc] at h
      simp only [Except.error.injEq] at h
      subst h
      cases c with
      | none => simp [childVal] at hc; exact hc.symm
      | some k => simp [childVal] at hc
    | ok v =>
      rw [hc] at h
      cases hr : childVals cur r with
      | error e' =>
        rw [hr] at h
        simp only [Except.error.injEq] at h
        subst h; exact ih hr
      | ok vs => rw [hr] at h; simp at h

theorem childVals_sound {ρ : Nat → Bool} {cur : Cur} (hc : CurOK ρ cur) :
    ∀ (cs vs : List Key), childVals cur cs = .ok vs →
      vs.all (keyVal ρ) = cs.all (keyVal ρ) ∧ vs.any (keyVal ρ) = cs.any (keyVal ρ) := by
  intro cs
  induction cs with
  | nil => intro vs h; simp only [childVals, Except.ok.injEq] at h; subst h; exact ⟨rfl, rfl⟩
  | cons c r ih =>
    intro vs h
    unfold childVals at h
    cases hcv : childVal cur c with
    | error e => rw [hcv] at h; simp at h
    | ok v =>
      rw [hcv] at h
      cases hr : childVals cur r with
      | error e => rw [hr] at h; simp at h
      | ok ws =>
        rw [hr] at h
        simp only [Except.ok.injEq] at h
        subst h
        have := ih ws hr
        have hv := childVal_sound hc c v hcv
        simp only [List.all_cons, List.any_cons, hv, this.1, this.2, and_self]

theorem mem_nondet (cs : List Key) (k : Int) : k ∈ nondet cs ↔ (some k ∈ cs ∧ k ≠ 0) := by
  unfold nondet
  rw [List.mem_filterMap]
  constructor
  · rintro ⟨a, ha, h⟩
    cases a with
    | none => simp at h
    | some j =>
      by_cases hj : j = 0
      · simp [hj] at h
      · simp only [hj, if_false, Option.some.injEq] at h
        subst h; exact ⟨ha, hj⟩
  · rintro ⟨h, h0⟩
    exact ⟨some k, h, by simp [h0]⟩

end ProbLogModel.Propagate
