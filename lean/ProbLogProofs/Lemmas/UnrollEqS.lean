import ProbLogModel.CyclesSimple
/-!
Helper lemmas for C09Unroll (8): `breakNode = breakNodeS` (the structurally recursive copy that `decide` can run).
-/
namespace ProbLogProofs.Unroll
open ProbLogModel.Formula ProbLogModel.Cycles

theorem breakChildren_eq_R (src : Store) (ev : Option (List (Nat × Key))) (fuel : Nat) (ancset : List Nat)
    (isEv : Bool) : ∀ (cs : List Key) (st : BC) (acc : List Key) (cb content : List Nat),
    breakChildren src ev fuel st cs ancset isEv acc cb content =
      childrenR (fun st c => breakNode src ev fuel st c ancset isEv) st cs acc cb content := by
  intro cs
  induction cs with
  | nil => intro st acc cb content; rw [breakChildren.eq_1]; rfl
  | cons c rest ih =>
    intro st acc cb content
    cases c with
    | none => rw [breakChildren.eq_2]; rfl
    | some c =>
      rw [breakChildren.eq_3]
      simp only [childrenR]
      by_cases hc : c = 0
      · rw [if_pos hc, if_pos hc]; exact ih _ _ _ _
      · rw [if_neg hc, if_neg hc]
        cases breakNode src ev fuel st c ancset isEv with
        | error e => rfl
        | ok r => exact ih _ _ _ _

theorem breakCompound_eq_R (src : Store) (ev : Option (List (Nat × Key))) (fuel : Nat) (st : BC) (nodeid : Nat)
    (negative : Bool) (kind : Kind) (children : List Key) (name : Option Name) (ancset : List Nat) (isEv : Bool) :
    breakCompound src ev fuel st nodeid negative kind children name ancset isEv =
      compoundR nodeid negative kind name
        (childrenR (fun st c => breakNode src ev fuel st c ancset isEv) st children [] [] []) := by
  rw [breakCompound.eq_1, breakChildren_eq_R]
  rfl

theorem breakNode_eq_S (src : Store) (ev : Option (List (Nat × Key))) :
    ∀ (fuel : Nat) (st : BC) (node : Int) (anc : List Nat) (isEv : Bool),
      breakNode src ev fuel st node anc isEv = breakNodeS src ev fuel st node anc isEv := by
  intro fuel
  induction fuel with
  | zero => intro st node anc isEv; rw [breakNode.eq_1]; rfl
  | succ fuel ih =>
    intro st node anc isEv
    have hf : ∀ ancset, (fun st c => breakNode src ev fuel st c ancset isEv) =
        (fun st c => breakNodeS src ev fuel st c ancset isEv) := fun ancset =>
      funext (fun st => funext (fun c => ih st c ancset isEv))
    rw [breakNode.eq_2]
    simp only [breakCompound_eq_R, hf, breakNodeS]
    rfl

end ProbLogProofs.Unroll
