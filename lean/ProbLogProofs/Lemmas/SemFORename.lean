import ProbLogModel.Sem
import ProbLogProofs.Lemmas.SemGamma
import ProbLogProofs.Lemmas.SemRules
import ProbLogProofs.Lemmas.SemRun
import ProbLogProofs.Lemmas.SemGroupsRun
/-!
# `Sem.run` is invariant under an injective renaming of the choice ids

`σ` renames the choice ids in the rules and in the groups; it must be injective and respect the bound `nchoices`
(`σ c < nchoices ↔ c < nchoices`: the bit array of selected choices has that size).
-/
namespace ProbLogProofs.SemFORename
open ProbLogModel.Sem ProbLogProofs.SemGamma ProbLogProofs.SemRules ProbLogProofs.SemRun ProbLogProofs.SemGroupsRun

def renRule (σ : Nat → Nat) (r : Rule) : Rule := { r with choice := r.choice.map σ }

def renGroup (σ : Nat → Nat) (g : Group) : Group := ⟨g.alts.map (fun pc => (pc.1, σ pc.2))⟩

def renWorld (σ : Nat → Nat) (w : World) : World := ⟨w.weight, w.chosen.map σ⟩

def renProg (σ : Nat → Nat) (P : Prog) : Prog :=
  { P with rules := P.rules.map (renRule σ), groups := P.groups.map (renGroup σ) }

theorem renRule_id (r : Rule) : renRule id r = r := by
  cases r with
  | mk h p n c => cases c <;> rfl

theorem renRule_comp (σ τ : Nat → Nat) (r : Rule) : renRule τ (renRule σ r) = renRule (τ ∘ σ) r := by
  cases r with
  | mk h p n c => cases c <;> rfl

theorem renGroup_comp (σ τ : Nat → Nat) (g : Group) : renGroup τ (renGroup σ g) = renGroup (τ ∘ σ) g := by
  simp [renGroup, List.map_map, Function.comp_def]

/-! ### least model / well-founded model -/

theorem step_ren (σ : Nat → Nat) (chosen chosen' ctx acc : Array Bool) (r : Rule)
    (h : ∀ c, r.choice = some c → getB chosen' (σ c) = getB chosen c) :
    step chosen' ctx acc (renRule σ r) = step chosen ctx acc r := by
  unfold step fires chOk renRule
  cases hc : r.choice with
  | none => simp
  | some c => simp [h c hc]

theorem tpPass_ren (σ : Nat → Nat) (rules : List Rule) (chosen chosen' ctx : Array Bool)
    (h : ∀ r ∈ rules, ∀ c, r.choice = some c → getB chosen' (σ c) = getB chosen c) (cur : Array Bool) :
    tpPass (rules.map (renRule σ)) chosen' ctx cur = tpPass rules chosen ctx cur := by
  rw [tpPass_eq, tpPass_eq, List.foldl_map]
  induction rules generalizing cur with
  | nil => rfl
  | cons r rs ih =>
    simp only [List.foldl_cons]
    rw [step_ren σ chosen chosen' ctx cur r (h r List.mem_cons_self)]
    exact ih (fun r' hr' => h r' (List.mem_cons_of_mem _ hr')) _

theorem gamma_go_ren (σ : Nat → Nat) (rules : List Rule) (chosen chosen' ctx : Array Bool)
    (h : ∀ r ∈ rules, ∀ c, r.choice = some c → getB chosen' (σ c) = getB chosen c) :
    ∀ fuel cur, gamma.go (rules.map (renRule σ)) chosen' ctx fuel cur = gamma.go rules chosen ctx fuel cur := by
  intro fuel
  induction fuel with
  | zero => intro cur; unfold gamma.go; rfl
  | succ fuel ih =>
    intro cur
    unfold gamma.go
    simp only [tpPass_ren σ rules chosen chosen' ctx h, ih]

theorem gamma_ren (σ : Nat → Nat) (rules : List Rule) (chosen chosen' : Array Bool) (natoms : Nat)
    (h : ∀ r ∈ rules, ∀ c, r.choice = some c → getB chosen' (σ c) = getB chosen c) (ctx : Array Bool) :
    gamma (rules.map (renRule σ)) chosen' natoms ctx = gamma rules chosen natoms ctx := by
  unfold gamma
  exact gamma_go_ren σ rules chosen chosen' ctx h _ _

theorem wfm_go_ren (σ : Nat → Nat) (rules : List Rule) (chosen chosen' : Array Bool) (natoms : Nat)
    (h : ∀ r ∈ rules, ∀ c, r.choice = some c → getB chosen' (σ c) = getB chosen c) :
    ∀ fuel t, wfm.go (rules.map (renRule σ)) chosen' natoms fuel t = wfm.go rules chosen natoms fuel t := by
  intro fuel
  induction fuel with
  | zero => intro t; unfold wfm.go; rw [gamma_ren σ rules chosen chosen' natoms h]
  | succ fuel ih =>
    intro t
    unfold wfm.go
    simp only [gamma_ren σ rules chosen chosen' natoms h, ih]

theorem wfm_ren (σ : Nat → Nat) (rules : List Rule) (chosen chosen' : Array Bool) (natoms : Nat)
    (h : ∀ r ∈ rules, ∀ c, r.choice = some c → getB chosen' (σ c) = getB chosen c) :
    wfm (rules.map (renRule σ)) chosen' natoms = wfm rules chosen natoms := by
  unfold wfm
  exact wfm_go_ren σ rules chosen chosen' natoms h _ _

/-- the selected-choices bit array of the renamed world, read at a renamed id -/
theorem getB_chosenArr_ren {σ : Nat → Nat} (hinj : Function.Injective σ) {n : Nat} (hb : ∀ c, σ c < n ↔ c < n)
    (ch : List Nat) (c : Nat) : getB (chosenArr n (ch.map σ)) (σ c) = getB (chosenArr n ch) c := by
  rw [getB_chosenArr, getB_chosenArr]
  simp only [List.mem_map_of_injective hinj, hb c]

/-! ### relevance restriction -/

theorem depRules_ren (σ : Nat → Nat) (rules : List Rule) (roots : List Nat) :
    depRules (rules.map (renRule σ)) roots = depRules rules roots := by
  unfold depRules
  rw [List.flatMap_map]
  rfl

theorem relevantAtoms_ren (σ : Nat → Nat) (rules : List Rule) (natoms : Nat) (roots : List Nat) :
    relevantAtoms (rules.map (renRule σ)) natoms roots = relevantAtoms rules natoms roots := by
  unfold relevantAtoms
  rw [depRules_ren]

theorem restrict_rules_ren (σ : Nat → Nat) (P : Prog) (roots : List Nat) :
    (restrict (renProg σ P) roots).rules = (restrict P roots).rules.map (renRule σ) := by
  rw [restrict_rules, restrict_rules]
  show (P.rules.map (renRule σ)).filter _ = _
  rw [List.filter_map]
  show List.map (renRule σ) (List.filter _ P.rules) = _
  simp only [renProg, relevantAtoms_ren]
  rfl

theorem choice_ren_beq {σ : Nat → Nat} (hinj : Function.Injective σ) (r : Rule) (c : Nat) :
    ((renRule σ r).choice == some (σ c)) = (r.choice == some c) := by
  unfold renRule
  cases hc : r.choice with
  | none => simp
  | some d => simp [hinj.eq_iff]

theorem restrict_groups_ren {σ : Nat → Nat} (hinj : Function.Injective σ) (P : Prog) (roots : List Nat) :
    (restrict (renProg σ P) roots).groups = (restrict P roots).groups.map (renGroup σ) := by
  rw [restrict_groups, restrict_groups, restrict_rules_ren]
  show (P.groups.map (renGroup σ)).filter _ = _
  rw [List.filter_map]
  congr 1
  apply List.filter_congr
  intro g _
  simp only [Function.comp, renGroup, List.any_map]
  congr 1
  funext pc
  simp only [Function.comp]
  congr 1
  funext r
  exact choice_ren_beq hinj r pc.2

/-! ### worlds -/

theorem worlds_ren (σ : Nat → Nat) (gs : List Group) :
    worlds (gs.map (renGroup σ)) = (worlds gs).map (renWorld σ) := by
  induction gs with
  | nil => rfl
  | cons g gs ih =>
    rw [List.map_cons, SemWorlds.worlds_cons, SemWorlds.worlds_cons, ih]
    simp only [renGroup, List.map_map, List.map_append, List.flatMap_map, List.map_flatMap, Function.comp_def,
      renWorld, List.map_cons]

/-! ### the model of a world -/

theorem model_ren {σ : Nat → Nat} (hinj : Function.Injective σ) (P : Prog)
    (hb : ∀ c, σ c < P.nchoices ↔ c < P.nchoices) (roots : List Nat) (ch : List Nat) :
    model (renProg σ P) roots (ch.map σ) = model P roots ch := by
  unfold model
  rw [restrict_rules_ren]
  exact wfm_ren σ _ _ _ _ (fun r _ c _ => getB_chosenArr_ren hinj hb ch c)

theorem undefIn_ren {σ : Nat → Nat} (hinj : Function.Injective σ) (P : Prog)
    (hb : ∀ c, σ c < P.nchoices ↔ c < P.nchoices) (roots : List Nat) (ch : List Nat) :
    undefIn (renProg σ P) roots (ch.map σ) = undefIn P roots ch := by
  unfold undefIn
  rw [model_ren hinj P hb]
  show (List.range P.natoms).any (fun a => getB (relevantAtoms (P.rules.map (renRule σ)) P.natoms roots) a && _) = _
  rw [relevantAtoms_ren]

theorem evHolds_ren {σ : Nat → Nat} (hinj : Function.Injective σ) (P : Prog)
    (hb : ∀ c, σ c < P.nchoices ↔ c < P.nchoices) (roots : List Nat) (ev : List (Nat × Bool)) (ch : List Nat) :
    evHolds (renProg σ P) roots ev (ch.map σ) = evHolds P roots ev ch := by
  unfold evHolds
  rw [model_ren hinj P hb]

/-- **`Sem.run` does not depend on the names of the choices.** -/
theorem run_ren {σ : Nat → Nat} (hinj : Function.Injective σ) (P : Prog)
    (hb : ∀ c, σ c < P.nchoices ↔ c < P.nchoices) (queries : List Nat) (evidence : List (Nat × Bool)) :
    run (renProg σ P) queries evidence = run P queries evidence := by
  rw [run_eq_sums, run_eq_sums]
  have hw : worlds (restrict (renProg σ P) (queries ++ evidence.map (·.1))).groups =
      (worlds (restrict P (queries ++ evidence.map (·.1))).groups).map (renWorld σ) := by
    rw [restrict_groups_ren hinj, worlds_ren]
  have hc : ∀ w : World, contributes (renProg σ P) (queries ++ evidence.map (·.1)) evidence (renWorld σ w) =
      contributes P (queries ++ evidence.map (·.1)) evidence w := by
    intro w
    unfold contributes renWorld
    simp only [undefIn_ren hinj P hb, evHolds_ren hinj P hb]
  have hz : zOf (renProg σ P) (queries ++ evidence.map (·.1)) evidence =
      zOf P (queries ++ evidence.map (·.1)) evidence := by
    unfold zOf
    rw [hw, List.map_map]
    congr 1
    apply List.map_congr_left
    intro w _
    simp only [Function.comp, zTerm, hc]
    rfl
  have hn : numOf (renProg σ P) (queries ++ evidence.map (·.1)) evidence =
      numOf P (queries ++ evidence.map (·.1)) evidence := by
    funext q
    unfold numOf
    rw [hw, List.map_map]
    congr 1
    apply List.map_congr_left
    intro w _
    simp only [Function.comp, numTerm, hc]
    have : model (renProg σ P) (queries ++ evidence.map (·.1)) (renWorld σ w).chosen =
        model P (queries ++ evidence.map (·.1)) w.chosen := model_ren hinj P hb _ _
    rw [this]
    rfl
  have hu : undefOf (renProg σ P) (queries ++ evidence.map (·.1)) = undefOf P (queries ++ evidence.map (·.1)) := by
    unfold undefOf
    rw [hw, List.map_map]
    congr 1
    apply List.map_congr_left
    intro w _
    simp only [Function.comp, undefTerm]
    have : undefIn (renProg σ P) (queries ++ evidence.map (·.1)) (renWorld σ w).chosen =
        undefIn P (queries ++ evidence.map (·.1)) w.chosen := undefIn_ren hinj P hb _ _
    rw [this]
    rfl
  rw [hz, hn, hu, hw, List.length_map]

end ProbLogProofs.SemFORename
