/-
`nodeWeights` (the evaluator's bottom-up pass over the loaded store) computes, along `line2node`, the values
`evalLines` computes on the circuit, for every weight table. Core only.
-/
import ProbLogProofs.Lemmas.DDNNFBridgeStep
namespace ProbLogProofs.DDNNF
open ProbLogModel.DDNNF ProbLogModel.Formula ProbLogModel.Clark

/-! ### generic bottom-up tables -/

def tbl {α β} (F : List β → α → β) (l : List α) : List β := l.foldl (fun acc x => acc ++ [F acc x]) []

theorem tbl_snoc {α β} (F : List β → α → β) (l : List α) (a : α) :
    tbl F (l ++ [a]) = tbl F l ++ [F (tbl F l) a] := by
  simp [tbl, List.foldl_append]

theorem tbl_length {α β} (F : List β → α → β) (l : List α) : (tbl F l).length = l.length := by
  induction l using snoc_induction with
  | nil => rfl
  | snoc l a ih => rw [tbl_snoc]; simp [ih]

theorem tbl_get {α β} (F : List β → α → β) (l : List α) :
    ∀ (k : Nat) (hk : k < l.length), (tbl F l)[k]? = some (F ((tbl F l).take k) l[k]) := by
  induction l using snoc_induction with
  | nil => intro k hk; simp at hk
  | snoc l a ih =>
    intro k hk
    rw [tbl_snoc]
    have hlen := tbl_length F l
    by_cases hkl : k < l.length
    · rw [List.getElem?_append_left (by omega), ih k hkl, List.take_append_of_le_length (by omega)]
      simp [List.getElem_append_left hkl]
    · have hke : k = l.length := by simp at hk; omega
      subst hke
      have e1 : (tbl F l ++ [F (tbl F l) a])[l.length]? = some (F (tbl F l) a) := by
        rw [← hlen]; simp
      have e2 : (tbl F l ++ [F (tbl F l) a]).take l.length = tbl F l := by
        rw [← hlen]; simp
      rw [e1, e2]
      simp

/-! ### `nodeWeights` as a table -/

def childW (S : Store) (w : Nat → Rat × Rat) (acc : List Rat) (k : Key) : Rat :=
  match k with
  | none => 0
  | some c => if c = 0 then 1 else
    match S.nodes[c.natAbs - 1]? with
    | some (.atom ..) => if c < 0 then (w c.natAbs).2 else (w c.natAbs).1
    | _ => acc.getD (c.natAbs - 1) 0

def nodeW (S : Store) (w : Nat → Rat × Rat) (acc : List Rat) (nd : Node) : Rat :=
  match nd with
  | .atom .. => (w (acc.length + 1)).1
  | .conj cs _ => cs.foldl (fun p c => p * childW S w acc c) 1
  | .disj cs _ => cs.foldl (fun p c => p + childW S w acc c) 0

theorem nodeWeights_eq (S : Store) (w : Nat → Rat × Rat) : nodeWeights S w = tbl (nodeW S w) S.nodes := rfl

/-- weight of an (atom-index) literal under a table `w` -/
def litW (w : Nat → Rat × Rat) (k : Int) : Rat := if k > 0 then (w k.natAbs).1 else (w k.natAbs).2

/-- the atom node of the loaded store that stands for CNF variable `x` (the `rename` of `_load_nnf`) -/
def atomOf (S : Store) (x : Nat) : Nat := (lookup S.idxAtom (.user (x : Int))).getD x

/-- the loaded-store literal of a circuit/CNF literal -/
def atomLit (S : Store) (l : Int) : Int := if l > 0 then (atomOf S l.natAbs : Int) else -(atomOf S l.natAbs : Int)

/-- circuit weights induced by a weight table over the atoms of the loaded store -/
def circW (S : Store) (w : Nat → Rat × Rat) : Int → Rat := fun l => litW w (atomLit S l)

theorem shapes_get_atom {S : Store} {k : Nat} {a g e} (h : (shapes S)[k]? = some (.atom a g e none)) :
    ∃ n, S.nodes[k]? = some (.atom a g e n) := by
  unfold shapes at h
  rw [List.getElem?_map] at h
  cases hnd : S.nodes[k]? with
  | none => rw [hnd] at h; cases h
  | some nd =>
    rw [hnd] at h
    cases nd <;> simp [shape, Node.setName] at h
    obtain ⟨rfl, rfl, rfl⟩ := h
    exact ⟨_, rfl⟩

theorem shapes_get_conj {S : Store} {k : Nat} {ks} (h : (shapes S)[k]? = some (.conj ks none)) :
    ∃ n, S.nodes[k]? = some (.conj ks n) := by
  unfold shapes at h
  rw [List.getElem?_map] at h
  cases hnd : S.nodes[k]? with
  | none => rw [hnd] at h; cases h
  | some nd =>
    rw [hnd] at h
    cases nd <;> simp [shape, Node.setName] at h
    subst h
    exact ⟨_, rfl⟩

theorem shapes_get_disj {S : Store} {k : Nat} {ks} (h : (shapes S)[k]? = some (.disj ks none)) :
    ∃ n, S.nodes[k]? = some (.disj ks n) := by
  unfold shapes at h
  rw [List.getElem?_map] at h
  cases hnd : S.nodes[k]? with
  | none => rw [hnd] at h; cases h
  | some nd =>
    rw [hnd] at h
    cases nd <;> simp [shape, Node.setName] at h
    subst h
    exact ⟨_, rfl⟩

theorem childW_atom (S : Store) (w : Nat → Rat × Rat) (acc : List Rat) (c : Int) (hc : c ≠ 0) {a g e n}
    (h : S.nodes[c.natAbs - 1]? = some (.atom a g e n)) :
    childW S w acc (some c) = if c < 0 then (w c.natAbs).2 else (w c.natAbs).1 := by
  simp only [childW, hc, if_false, h]

theorem childW_conj (S : Store) (w : Nat → Rat × Rat) (acc : List Rat) (c : Int) (hc : c ≠ 0) {ks n}
    (h : S.nodes[c.natAbs - 1]? = some (.conj ks n)) :
    childW S w acc (some c) = acc.getD (c.natAbs - 1) 0 := by
  simp only [childW, hc, if_false, h]

theorem childW_disj (S : Store) (w : Nat → Rat × Rat) (acc : List Rat) (c : Int) (hc : c ≠ 0) {ks n}
    (h : S.nodes[c.natAbs - 1]? = some (.disj ks n)) :
    childW S w acc (some c) = acc.getD (c.natAbs - 1) 0 := by
  simp only [childW, hc, if_false, h]

theorem getD_take {α} (l : List α) (n k : Nat) (d : α) (h : k < n) : (l.take n).getD k d = l.getD k d := by
  simp [List.getD_eq_getElem?_getD, h]

end ProbLogProofs.DDNNF
