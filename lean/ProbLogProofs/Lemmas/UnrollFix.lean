import ProbLogProofs.Lemmas.UnrollMain
import ProbLogProofs.Properties.C09Cycles
/-!
Helper lemmas for C09Unroll (4), used for the translation WITH the reuse table: the top-level cut evaluation `Pv`
(= perfect-model value) is a fixpoint of the store's own operator; under ancestors of strictly higher levels `cutEval`
returns `Pv`; `Forall₂` helpers.
-/
namespace ProbLogProofs.Unroll
open ProbLogModel.Formula ProbLogModel.Cycles ProbLogProofs.Cycles ProbLogProofs.C09

/-- Value of a (signed) key in the perfect model: cut evaluation at top level. -/
def Pv (src : Store) (α : Nat → Bool) (c : Key) : Bool := cutEval src α (src.nodes.length + 1) [] c

theorem Pv_eq_lfp {src : Store} {lvl : Nat → Nat} (hst : Stratified src lvl) (α : Nat → Bool) (c : Key) :
    Pv src α c = lfp (reduct src (cutν src α)) α c := C09_cutEval_eq_reduct_lfp hst α c

theorem Pv_true (src : Store) (α : Nat → Bool) : Pv src α (some 0) = true := rfl

theorem Pv_neg (src : Store) (α : Nat → Bool) (k : Int) (hk : k ≠ 0) :
    Pv src α (some (-k)) = !Pv src α (some k) := cutEval_neg src α _ [] k hk

theorem cutν_eq_Pv (src : Store) (α : Nat → Bool) (n : Nat) : cutν src α n = Pv src α (some (n : Int)) := rfl

/-- In the least model of the reduct w.r.t. the stable model, a key and its reduct have the same value. -/
theorem lfp_reductKey {src : Store} {lvl : Nat → Nat} (hst : Stratified src lvl) (α : Nat → Bool) (c : Key) :
    lfp (reduct src (cutν src α)) α (reductKey src (cutν src α) c) = lfp (reduct src (cutν src α)) α c := by
  cases c with
  | none => rfl
  | some k =>
    by_cases hk : k < 0
    · have hk0 : k ≠ 0 := by omega
      simp only [reductKey, hk, ↓reduceIte]
      have hconst : ∀ b : Bool, b = cutν src α k.natAbs →
          lfp (reduct src (cutν src α)) α (if b = true then none else some 0) =
            lfp (reduct src (cutν src α)) α (some k) := by
        intro b hb
        have hstab := C09_cut_stable_model hst α k.natAbs (by omega)
        have e : ((k.natAbs : Nat) : Int) = -k := by omega
        rw [e] at hstab
        unfold lfp at hstab ⊢
        rw [lfpEval_neg' _ α _ k hk0, ← hstab, ← hb]
        cases b
        · simp only [Bool.false_eq_true, ↓reduceIte]; rw [lfpEval_true]; rfl
        · simp only [↓reduceIte]; rw [lfpEval_none]; rfl
      cases hn : src.nodes[k.natAbs - 1]? with
      | none =>
        simp only
        unfold lfp
        rw [lfpEval_true, lfpEval_succ]
        simp only [hk0, ↓reduceIte, reduct_get, hn, Option.map_none, hk, Bool.not_false]
      | some nd =>
        cases nd with
        | atom id g e nm => rfl
        | conj cs nm => exact hconst _ rfl
        | disj cs nm => exact hconst _ rfl
    · simp only [reductKey, hk, ↓reduceIte]

/-- `Pv` is a fixpoint of the store's own operator (negative edges included). -/
theorem Pv_conj {src : Store} {lvl : Nat → Nat} (hst : Stratified src lvl) (α : Nat → Bool) {n : Nat} (hn0 : 0 < n)
    {cs : List Key} {nm : Option Name} (hn : src.nodes[n - 1]? = some (.conj cs nm)) :
    Pv src α (some (n : Int)) = cs.all (Pv src α) := by
  rw [Pv_eq_lfp hst]
  have hR : (reduct src (cutν src α)).nodes[((n : Int)).natAbs - 1]? =
      some (.conj (cs.map (reductKey src (cutν src α))) nm) := by
    rw [reduct_get, Int.natAbs_natCast, hn]; rfl
  rw [C09_lfp_fixpoint_conj (positive_reduct src _) α (by omega) hR, List.all_map]
  apply ProbLogProofs.Cycles.all_congr_mem
  intro c _
  show lfp _ α (reductKey src _ c) = _
  rw [lfp_reductKey hst, Pv_eq_lfp hst]

theorem Pv_disj {src : Store} {lvl : Nat → Nat} (hst : Stratified src lvl) (α : Nat → Bool) {n : Nat} (hn0 : 0 < n)
    {cs : List Key} {nm : Option Name} (hn : src.nodes[n - 1]? = some (.disj cs nm)) :
    Pv src α (some (n : Int)) = cs.any (Pv src α) := by
  rw [Pv_eq_lfp hst]
  have hR : (reduct src (cutν src α)).nodes[((n : Int)).natAbs - 1]? =
      some (.disj (cs.map (reductKey src (cutν src α))) nm) := by
    rw [reduct_get, Int.natAbs_natCast, hn]; rfl
  rw [C09_lfp_fixpoint_disj (positive_reduct src _) α (by omega) hR, List.any_map]
  apply ProbLogProofs.Cycles.any_congr_mem
  intro c _
  show lfp _ α (reductKey src _ c) = _
  rw [lfp_reductKey hst, Pv_eq_lfp hst]

/-! ### strictly higher ancestors do not matter -/

theorem cutEval_noncompound {S : Store} {α : Nat → Bool} {k : Int} (h : ¬ IsCompound S k.natAbs) (f g : Nat)
    (A B : List Nat) : cutEval S α (f + 1) A (some k) = cutEval S α (g + 1) B (some k) := by
  rw [cutEval_succ, cutEval_succ]
  cases hn : S.nodes[k.natAbs - 1]? with
  | none => rfl
  | some nd =>
    cases nd with
    | atom id gr e nm => rfl
    | conj cs nm => exact absurd (Or.inl ⟨cs, nm, hn⟩) h
    | disj cs nm => exact absurd (Or.inr ⟨cs, nm, hn⟩) h

/-- Under ancestors on strictly higher levels (for a compound node) the cut evaluation of a positive reference is
    the top-level value. -/
theorem strict_eq_Pv {src : Store} {lvl : Nat → Nat} (hst : Stratified src lvl) {α : Nat → Bool} {A : List Nat}
    {n : Nat} (hn0 : 0 < n) {f : Nat} (hA : ∀ x ∈ A, IsCompound src n → lvl n < lvl x) (hf : free src A < f) :
    cutEval src α f A (some (n : Int)) = Pv src α (some (n : Int)) := by
  by_cases hc : IsCompound src n
  · have := cutEval_eq_cutν (α := α) hst (k := (n : Int)) (by omega) hf (by
      intro x hx; rw [Int.natAbs_natCast]; exact hA x hx hc)
    rw [Int.natAbs_natCast] at this
    exact this
  · cases f with
    | zero => omega
    | succ f =>
      have hc' : ¬ IsCompound src ((n : Int)).natAbs := by rw [Int.natAbs_natCast]; exact hc
      exact cutEval_noncompound hc' _ _ _ _

theorem AncOK.pos {src : Store} {lvl : Nat → Nat} {A : List Nat} {node : Int} (h : AncOK src lvl A node) :
    AncOK src lvl A (node.natAbs : Int) := by
  intro x hx
  obtain ⟨h1, h2, _⟩ := h x hx
  refine ⟨h1, by rw [Int.natAbs_natCast]; exact h2, fun hneg => ?_⟩
  omega

/-- A negative reference is never evaluated under ancestors of its own level: its cut evaluation is the top-level
    value. -/
theorem neg_eq_Pv {src : Store} {lvl : Nat → Nat} (hst : Stratified src lvl) {α : Nat → Bool} {A : List Nat}
    {node : Int} (hneg : node < 0) (hA : AncOK src lvl A node) {f : Nat} (hf : free src A < f) :
    cutEval src α f A (some node) = Pv src α (some node) := by
  cases f with
  | zero => omega
  | succ f =>
    have h0 : node ≠ 0 := by omega
    have e : -node = (node.natAbs : Int) := by omega
    unfold Pv
    rw [cutEval_neg' src α f A node h0, cutEval_neg' src α _ [] node h0, e]
    congr 1
    exact strict_eq_Pv hst (by omega) (fun x hx hc => (hA x hx).2.2 hneg hc) hf

/-! ### `Forall₂` (defined here: core Lean has none) -/

/-- Pointwise relation between two lists of the same length. -/
inductive Forall₂ {β γ} (R : β → γ → Prop) : List β → List γ → Prop
  | nil : Forall₂ R [] []
  | cons {a b l1 l2} : R a b → Forall₂ R l1 l2 → Forall₂ R (a :: l1) (b :: l2)

theorem forall2_all {β γ} {R : β → γ → Prop} {l1 : List β} {l2 : List γ} (h : Forall₂ R l1 l2)
    {p : β → Bool} {q : γ → Bool} (hR : ∀ a b, R a b → p a = true → q b = true) :
    l1.all p = true → l2.all q = true := by
  induction h with
  | nil => intro _; rfl
  | cons hab _ ih =>
    simp only [List.all_cons, Bool.and_eq_true]
    exact fun ⟨h1, h2⟩ => ⟨hR _ _ hab h1, ih h2⟩

theorem forall2_all' {β γ} {R : β → γ → Prop} {l1 : List β} {l2 : List γ} (h : Forall₂ R l1 l2)
    {p : β → Bool} {q : γ → Bool} (hR : ∀ a b, R a b → q b = true → p a = true) :
    l2.all q = true → l1.all p = true := by
  induction h with
  | nil => intro _; rfl
  | cons hab _ ih =>
    simp only [List.all_cons, Bool.and_eq_true]
    exact fun ⟨h1, h2⟩ => ⟨hR _ _ hab h1, ih h2⟩

theorem forall2_any {β γ} {R : β → γ → Prop} {l1 : List β} {l2 : List γ} (h : Forall₂ R l1 l2)
    {p : β → Bool} {q : γ → Bool} (hR : ∀ a b, R a b → p a = true → q b = true) :
    l1.any p = true → l2.any q = true := by
  induction h with
  | nil => intro h; cases h
  | cons hab _ ih =>
    simp only [List.any_cons, Bool.or_eq_true]
    exact fun h => h.elim (fun h1 => Or.inl (hR _ _ hab h1)) (fun h2 => Or.inr (ih h2))

theorem forall2_any' {β γ} {R : β → γ → Prop} {l1 : List β} {l2 : List γ} (h : Forall₂ R l1 l2)
    {p : β → Bool} {q : γ → Bool} (hR : ∀ a b, R a b → q b = true → p a = true) :
    l2.any q = true → l1.any p = true := by
  induction h with
  | nil => intro h; cases h
  | cons hab _ ih =>
    simp only [List.any_cons, Bool.or_eq_true]
    exact fun h => h.elim (fun h1 => Or.inl (hR _ _ hab h1)) (fun h2 => Or.inr (ih h2))

theorem forall2_mem_right {β γ} {R : β → γ → Prop} {l1 : List β} {l2 : List γ} (h : Forall₂ R l1 l2) :
    ∀ b ∈ l2, ∃ a ∈ l1, R a b := by
  induction h with
  | nil => intro b hb; cases hb
  | cons hab _ ih =>
    intro b hb
    rcases List.mem_cons.1 hb with rfl | hb
    · exact ⟨_, List.mem_cons_self, hab⟩
    · obtain ⟨a, ha, hr⟩ := ih b hb
      exact ⟨a, List.mem_cons_of_mem _ ha, hr⟩

theorem forall2_imp {β γ} {R R' : β → γ → Prop} {l1 : List β} {l2 : List γ} (h : Forall₂ R l1 l2)
    (hR : ∀ a b, R a b → R' a b) : Forall₂ R' l1 l2 := by
  induction h with
  | nil => exact .nil
  | cons hab _ ih => exact .cons (hR _ _ hab) ih

theorem forall2_mem_left {β γ} {R : β → γ → Prop} {l1 : List β} {l2 : List γ} (h : Forall₂ R l1 l2) :
    Forall₂ (fun a b => a ∈ l1 ∧ R a b) l1 l2 := by
  induction h with
  | nil => exact .nil
  | cons hab _ ih =>
    exact .cons ⟨List.mem_cons_self, hab⟩ (forall2_imp ih (fun a b h => ⟨List.mem_cons_of_mem _ h.1, h.2⟩))

end ProbLogProofs.Unroll
