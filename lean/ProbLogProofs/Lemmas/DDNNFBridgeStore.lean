/-
Store-level bookkeeping for `loadNnf` (model of `_load_nnf`): node shapes (nodes with the name erased, `add_name`
only rewrites names), what `add_atom` / `add_and` / `add_or` do to the node list and to `idxAtom`. Core only.
-/
import ProbLogModel.DDNNFSem
namespace ProbLogProofs.DDNNF
open ProbLogModel.DDNNF ProbLogModel.Formula ProbLogModel.Clark

/-! ### association lists -/

theorem lookup_append_some {α β} [BEq α] (l r : List (α × β)) (x : α) (v : β) (h : lookup l x = some v) :
    lookup (l ++ r) x = some v := by
  induction l with
  | nil => simp [lookup] at h
  | cons p t ih =>
    obtain ⟨a, b⟩ := p
    simp only [List.cons_append, lookup] at h ⊢
    by_cases hax : (a == x) = true
    · simpa [hax] using h
    · simp only [hax] at h ⊢
      exact ih h

theorem lookup_append_none {α β} [BEq α] (l r : List (α × β)) (x : α) (h : lookup l x = none) :
    lookup (l ++ r) x = lookup r x := by
  induction l with
  | nil => rfl
  | cons p t ih =>
    obtain ⟨a, b⟩ := p
    simp only [List.cons_append, lookup] at h ⊢
    by_cases hax : (a == x) = true
    · simp [hax] at h
    · simp only [hax] at h ⊢
      exact ih h

theorem lookup_snoc {α β} [BEq α] [LawfulBEq α] (l : List (α × β)) (a x : α) (b v : β)
    (h : lookup (l ++ [(a, b)]) x = some v) : lookup l x = some v ∨ (lookup l x = none ∧ a = x ∧ b = v) := by
  cases hl : lookup l x with
  | some v' =>
    rw [lookup_append_some l _ x v' hl] at h
    exact Or.inl h
  | none =>
    rw [lookup_append_none l _ x hl] at h
    simp only [lookup] at h
    by_cases hax : (a == x) = true
    · simp only [hax, if_true, Option.some.injEq] at h
      exact Or.inr ⟨rfl, by simpa using hax, h⟩
    · simp [hax] at h

theorem lookup_snoc_self {α β} [BEq α] [LawfulBEq α] (l : List (α × β)) (a : α) (b : β)
    (h : lookup l a = none) : lookup (l ++ [(a, b)]) a = some b := by
  rw [lookup_append_none l _ a h]
  simp [lookup]

/-! ### shapes -/

/-- a node with its name erased -/
def shape (nd : Node) : Node := nd.setName none

/-- the node list with names erased -/
def shapes (S : Store) : List Node := S.nodes.map shape

theorem shape_setName (nd : Node) (n : Option Name) : shape (nd.setName n) = shape nd := by
  cases nd <;> rfl

theorem shapes_length (S : Store) : (shapes S).length = S.nodes.length := by simp [shapes]

theorem shapes_update (S : Store) (i : Nat) (nd : Node) (n : Option Name) (h : S.nodes[i - 1]? = some nd) :
    shapes (S.update i (nd.setName n)) = shapes S := by
  unfold shapes Store.update
  simp only
  apply List.ext_getElem?
  intro j
  simp only [List.getElem?_map, List.getElem?_set]
  by_cases hj : i - 1 = j
  · subst hj
    simp only [if_true]
    rw [h]
    have hlt : i - 1 < S.nodes.length := by
      rcases Nat.lt_or_ge (i - 1) S.nodes.length with hh | hh
      · exact hh
      · rw [List.getElem?_eq_none hh] at h; cases h
    simp [hlt, shape_setName]
  · simp [hj]

/-- the store after the renaming part of `add_name` (before `_names[label][name] = key`) -/
def addNameS1 (S : Store) (n : Name) (k : Key) : Store :=
  if isProbabilistic k then
    match k with
    | some i =>
      match S.nodes[i.natAbs - 1]? with
      | some nd => S.update i.natAbs (nd.setName (some (if i < 0 then n.negate else n)))
      | none => S
    | none => S
  else S

theorem addName_eq (S : Store) (n : Name) (k : Key) (l : Label) :
    S.addName n k l = { addNameS1 S n k with names := setNames (addNameS1 S n k).names l n k } := by
  rfl

theorem addNameS1_shapes (S : Store) (n : Name) (k : Key) : shapes (addNameS1 S n k) = shapes S := by
  unfold addNameS1
  split
  · cases k with
    | none => rfl
    | some i =>
      simp only
      cases hnd : S.nodes[i.natAbs - 1]? with
      | none => rfl
      | some nd => exact shapes_update S _ nd _ hnd
  · rfl

theorem addNameS1_fields (S : Store) (n : Name) (k : Key) :
    (addNameS1 S n k).idxAtom = S.idxAtom ∧ (addNameS1 S n k).weights = S.weights ∧
      (addNameS1 S n k).ads = S.ads := by
  unfold addNameS1
  split
  · cases k with
    | none => exact ⟨rfl, rfl, rfl⟩
    | some i =>
      simp only
      cases S.nodes[i.natAbs - 1]? with
      | none => exact ⟨rfl, rfl, rfl⟩
      | some nd => exact ⟨rfl, rfl, rfl⟩
  · exact ⟨rfl, rfl, rfl⟩

theorem addName_shapes (S : Store) (n : Name) (k : Key) (l : Label) : shapes (S.addName n k l) = shapes S := by
  rw [addName_eq]; exact addNameS1_shapes S n k

theorem addName_idxAtom (S : Store) (n : Name) (k : Key) (l : Label) : (S.addName n k l).idxAtom = S.idxAtom := by
  rw [addName_eq]; exact (addNameS1_fields S n k).1

theorem addName_weights (S : Store) (n : Name) (k : Key) (l : Label) : (S.addName n k l).weights = S.weights := by
  rw [addName_eq]; exact (addNameS1_fields S n k).2.1

theorem addName_ads (S : Store) (n : Name) (k : Key) (l : Label) : (S.addName n k l).ads = S.ads := by
  rw [addName_eq]; exact (addNameS1_fields S n k).2.2

theorem foldl_addName_shapes (S : Store) (node : Key) (ns : List (Label × Name)) :
    shapes (ns.foldl (fun S (p : Label × Name) => S.addName p.2 node p.1) S) = shapes S := by
  induction ns generalizing S with
  | nil => rfl
  | cons p r ih => simp only [List.foldl_cons]; rw [ih, addName_shapes]

theorem foldl_addName_idxAtom (S : Store) (node : Key) (ns : List (Label × Name)) :
    (ns.foldl (fun S (p : Label × Name) => S.addName p.2 node p.1) S).idxAtom = S.idxAtom := by
  induction ns generalizing S with
  | nil => rfl
  | cons p r ih => simp only [List.foldl_cons]; rw [ih, addName_idxAtom]

theorem foldl_addName_weights (S : Store) (node : Key) (ns : List (Label × Name)) :
    (ns.foldl (fun S (p : Label × Name) => S.addName p.2 node p.1) S).weights = S.weights := by
  induction ns generalizing S with
  | nil => rfl
  | cons p r ih => simp only [List.foldl_cons]; rw [ih, addName_weights]

/-! ### `add_atom` with an ordinary weight -/

/-- `add_atom(ident, w)` for a weight that is neither `None` nor `False`: the key is the (old or new) atom node of
`ident`; either nothing but the weight table changes, or one atom node is appended. -/
theorem addAtom_normal (S : Store) (ident : Ident) (w : Weight) :
    ∃ i : Nat, (S.addAtom ident .normal w).2 = some (i : Int) ∧
      lookup (S.addAtom ident .normal w).1.idxAtom ident = some i ∧
      (S.addAtom ident .normal w).1.weights = assocSet S.weights i w ∧
      ((lookup S.idxAtom ident = some i ∧ (S.addAtom ident .normal w).1.nodes = S.nodes ∧
          (S.addAtom ident .normal w).1.idxAtom = S.idxAtom) ∨
       (lookup S.idxAtom ident = none ∧ i = S.nodes.length + 1 ∧
          (S.addAtom ident .normal w).1.nodes = S.nodes ++ [.atom ident none false none] ∧
          (S.addAtom ident .normal w).1.idxAtom = S.idxAtom ++ [(ident, i)])) := by
  cases hl : lookup S.idxAtom ident with
  | some i =>
    refine ⟨i, ?_, ?_, ?_, Or.inl ⟨rfl, ?_, ?_⟩⟩ <;>
      simp [Store.addAtom, Store.addAtomNode, hl]
  | none =>
    refine ⟨S.nodes.length + 1, ?_, ?_, ?_, Or.inr ⟨rfl, rfl, ?_, ?_⟩⟩ <;>
      simp [Store.addAtom, Store.addAtomNode, hl, lookup_snoc_self]

theorem negKey_some (k : Int) : negKey (some k) = some (-k) := rfl

end ProbLogProofs.DDNNF
