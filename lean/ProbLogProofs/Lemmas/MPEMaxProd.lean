/-
Max-product evaluation (`FormulaEvaluatorNSP` with `SemiringMPEState`) on decomposable NNFs:
the binary steps (conjunction of two results over disjoint atom sets, smoothing, maximum of two results over the same
atom set) preserve the specification `Spec`; the n-ary nodes are folds of these steps.
-/
import Mathlib.Algebra.Order.BigOperators.Ring.Finset
import Mathlib.Algebra.BigOperators.Group.Finset.Basic
import Mathlib.Algebra.Order.Ring.Rat
import Mathlib.Data.Finset.Basic
import ProbLogModel.Tasks.MPE

open Finset
namespace ProbLogProofs.MPE
open ProbLogModel.MPE

/-- weight of atom `v` under the assignment `m` -/
def wOf (W : Weights) (m : Nat → Bool) (v : Nat) : Rat := if m v then (W v).1.p else (W v).2.p
/-- literal set the semiring attaches to atom `v` under `m` -/
def labOf (W : Weights) (m : Nat → Bool) (v : Nat) : List Int := if m v then (W v).1.lab else (W v).2.lab
/-- product of the literal weights of `m` over the atoms `U` -/
def prodF (W : Weights) (m : Nat → Bool) (U : List Nat) : Rat := ∏ v ∈ U.toFinset, wOf W m v

def NonNeg (W : Weights) : Prop := ∀ v, 0 ≤ (W v).1.p ∧ 0 ≤ (W v).2.p

/-- the literal set is exactly the union of the sets attached to the literals of `m` over the atoms used -/
def LabOK (W : Weights) (m : Nat → Bool) (r : Res) : Prop :=
  ∀ x, x ∈ r.val.lab ↔ ∃ v ∈ r.used, x ∈ labOf W m v

/-- what a result must satisfy with respect to the Boolean function `s` it was computed for -/
structure Spec (W : Weights) (s : (Nat → Bool) → Bool) (r : Res) : Prop where
  nodup : r.used.Nodup
  nonneg : 0 ≤ r.val.p
  dep : ∀ m m', (∀ v ∈ r.used, m v = m' v) → s m = s m'
  bound : ∀ m, s m = true → prodF W m r.used ≤ r.val.p
  wit : 0 < r.val.p → ∃ m, s m = true ∧ prodF W m r.used = r.val.p ∧ LabOK W m r

theorem wOf_nonneg {W : Weights} (hW : NonNeg W) (m : Nat → Bool) (v : Nat) : 0 ≤ wOf W m v := by
  unfold wOf; split
  · exact (hW v).1
  · exact (hW v).2

theorem prodF_nonneg {W : Weights} (hW : NonNeg W) (m : Nat → Bool) (U : List Nat) : 0 ≤ prodF W m U :=
  Finset.prod_nonneg (fun v _ => wOf_nonneg hW m v)

theorem prodF_congr (W : Weights) (m m' : Nat → Bool) (U : List Nat) (h : ∀ v ∈ U, m v = m' v) :
    prodF W m U = prodF W m' U := by
  unfold prodF
  apply Finset.prod_congr rfl
  intro v hv
  unfold wOf
  rw [h v (List.mem_toFinset.mp hv)]

/-! ### list sets -/

theorem mem_unionU (a b : List Nat) (x : Nat) : x ∈ unionU a b ↔ x ∈ a ∨ x ∈ b := by
  unfold unionU
  simp only [List.mem_append, List.mem_filter, List.contains_eq_mem, Bool.not_eq_eq_eq_not, Bool.not_true,
    decide_eq_false_iff_not]
  constructor
  · rintro (h | ⟨h, _⟩)
    · exact Or.inl h
    · exact Or.inr h
  · rintro (h | h)
    · exact Or.inl h
    · by_cases hx : x ∈ a
      · exact Or.inl hx
      · exact Or.inr ⟨h, hx⟩

theorem nodup_unionU (a b : List Nat) (ha : a.Nodup) (hb : b.Nodup) : (unionU a b).Nodup := by
  unfold unionU
  rw [List.nodup_append]
  refine ⟨ha, hb.filter _, ?_⟩
  intro x hx y hy hxy
  subst hxy
  simp only [List.mem_filter, List.contains_eq_mem, Bool.not_eq_eq_eq_not, Bool.not_true,
    decide_eq_false_iff_not] at hy
  exact hy.2 hx

theorem mem_notUsed (all cu : List Nat) (x : Nat) : x ∈ notUsed all cu ↔ x ∈ all ∧ x ∉ cu := by
  unfold notUsed
  simp [List.mem_filter]

theorem nodup_notUsed (all cu : List Nat) (h : all.Nodup) : (notUsed all cu).Nodup := h.filter _

theorem mem_unionAll_fold (us : List (List Nat)) : ∀ (acc : List Nat) (x : Nat),
    x ∈ us.foldl unionU acc ↔ x ∈ acc ∨ ∃ u ∈ us, x ∈ u := by
  induction us with
  | nil => intro acc x; simp
  | cons u us ih =>
    intro acc x
    simp only [List.foldl_cons, ih, mem_unionU, List.mem_cons, exists_eq_or_imp]
    tauto

theorem mem_unionAll (us : List (List Nat)) (x : Nat) : x ∈ unionAll us ↔ ∃ u ∈ us, x ∈ u := by
  unfold unionAll; rw [mem_unionAll_fold]; simp

theorem nodup_unionAll_fold (us : List (List Nat)) : ∀ (acc : List Nat), acc.Nodup → (∀ u ∈ us, u.Nodup) →
    (us.foldl unionU acc).Nodup := by
  induction us with
  | nil => intro acc h _; simpa using h
  | cons u us ih =>
    intro acc h hu
    simp only [List.foldl_cons]
    exact ih _ (nodup_unionU _ _ h (hu u (List.mem_cons_self))) (fun u' hu' => hu u' (List.mem_cons_of_mem _ hu'))

theorem nodup_unionAll (us : List (List Nat)) (h : ∀ u ∈ us, u.Nodup) : (unionAll us).Nodup :=
  nodup_unionAll_fold us [] List.nodup_nil h

/-! ### the semiring operations -/

/-- the polarity `plus(pos, neg)` selects: positive unless the negative weight is strictly larger -/
def mBest (W : Weights) (v : Nat) : Bool := !decide ((W v).1.p < (W v).2.p)

theorem plus_p (a b : Val) : (plus a b).p = max a.p b.p := by
  unfold plus
  split
  · rename_i h; exact (max_eq_left (le_of_lt h)).symm
  · split
    · rename_i h; exact (max_eq_right (le_of_lt h)).symm
    · rename_i h1 h2
      have : a.p = b.p := le_antisymm (not_lt.mp h1) (not_lt.mp h2)
      simp [this]

theorem plus_pn (W : Weights) (v : Nat) :
    (plus (W v).1 (W v).2).p = wOf W (mBest W) v ∧ (plus (W v).1 (W v).2).lab = labOf W (mBest W) v := by
  unfold plus wOf labOf mBest
  by_cases h1 : (W v).2.p < (W v).1.p
  · have h2 : ¬ (W v).1.p < (W v).2.p := not_lt.mpr (le_of_lt h1)
    simp [h1, h2]
  · by_cases h2 : (W v).1.p < (W v).2.p
    · simp [h1, h2]
    · simp [h1, h2]

theorem wOf_le_best {W : Weights} (m : Nat → Bool) (v : Nat) : wOf W m v ≤ wOf W (mBest W) v := by
  have := (plus_pn W v).1
  rw [plus_p] at this
  rw [← this]
  unfold wOf
  split
  · exact le_max_left _ _
  · exact le_max_right _ _

theorem smooth_p (W : Weights) (nu : List Nat) : ∀ (cp : Val),
    (smooth plus W cp nu).p = cp.p * (nu.map (wOf W (mBest W))).prod := by
  induction nu with
  | nil => intro cp; simp [smooth]
  | cons v nu ih =>
    intro cp
    have := ih (times cp (plus (W v).1 (W v).2))
    unfold smooth at this ⊢
    simp only [List.foldl_cons, List.map_cons, List.prod_cons]
    rw [this]
    simp only [times, (plus_pn W v).1]
    ring

theorem smooth_lab (W : Weights) (nu : List Nat) : ∀ (cp : Val) (x : Int),
    x ∈ (smooth plus W cp nu).lab ↔ x ∈ cp.lab ∨ ∃ v ∈ nu, x ∈ labOf W (mBest W) v := by
  induction nu with
  | nil => intro cp x; simp [smooth]
  | cons v nu ih =>
    intro cp x
    have := ih (times cp (plus (W v).1 (W v).2)) x
    unfold smooth at this ⊢
    simp only [List.foldl_cons]
    rw [this]
    simp only [times, (plus_pn W v).2, List.mem_append, List.mem_cons, exists_eq_or_imp]
    tauto

end ProbLogProofs.MPE
