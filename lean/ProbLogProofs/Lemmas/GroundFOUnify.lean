import ProbLogProofs.Lemmas.GroundFOSemDefs
/-!
# First-order grounder model: the unification facts (`UnifOK`) (core Lean only)

`bindAnswer` (binding the variables of a call to a ground answer), `canon` (renaming the variables of a call apart) and
`unifyHead` (call against clause head, eager substitution on a joint numbering of clause and call variables), each
characterised by the ground assignments it admits.
-/
namespace ProbLogProofs.GroundFOSem
open ProbLogModel ProbLogModel.Formula ProbLogModel.GroundFO

def upd (τ : Nat → Const) (i : Nat) (x : Const) : Nat → Const := fun j => if j = i then x else τ j

theorem upd_self (τ : Nat → Const) (i : Nat) : upd τ i (τ i) = τ := by
  funext j; unfold upd; split
  · rename_i h; rw [h]
  · rfl

/-- binding variable `i` to the value `t`: grounding afterwards = grounding before with `i` set to the value of `t` -/
theorem gv_bind (τ : Nat → Const) (i : Nat) (t x : Val) :
    gv τ (if x == Val.v i then t else x) = gv (upd τ i (gv τ t)) x := by
  cases x with
  | c y => simp [gv]
  | v j =>
    by_cases h : j = i
    · subst h; simp [gv, upd]
    · have : (Val.v j == Val.v i) = false := by simp [h]
      simp [this, gv, upd, h]

theorem gl_bindIn (τ : Nat → Const) (i : Nat) (t : Val) (l : List Val) :
    gl τ (bindIn i t l) = gl (upd τ i (gv τ t)) l := by
  unfold gl bindIn
  rw [List.map_map]
  apply List.map_congr_left
  intro x _
  exact gv_bind τ i t x

theorem bindIn_length (i : Nat) (t : Val) (l : List Val) : (bindIn i t l).length = l.length := by
  simp [bindIn]

/-! ### `bindAnswer` -/

theorem bind_len : ∀ (args : List Val) (ans : List Const) (ctx ctx' : Ctx), bindAnswer args ans ctx = some ctx' →
    ctx'.length = ctx.length
  | [], [], ctx, ctx', h => by simp [bindAnswer] at h; rw [← h]
  | [], _ :: _, _, _, h => by simp [bindAnswer] at h
  | _ :: _, [], _, _, h => by simp [bindAnswer] at h
  | .c x :: as, c :: cs, ctx, ctx', h => by
    simp only [bindAnswer] at h
    split at h
    · exact bind_len as cs ctx ctx' h
    · cases h
  | .v id :: as, c :: cs, ctx, ctx', h => by
    simp only [bindAnswer] at h
    rw [bind_len _ cs _ ctx' h, bindIn_length]

theorem bind_fwd : ∀ (args : List Val) (ans : List Const) (ctx ctx' : Ctx), bindAnswer args ans ctx = some ctx' →
    ∀ τ', ∃ τ, gl τ args = ans ∧ gl τ ctx = gl τ' ctx'
  | [], [], ctx, ctx', h, τ' => by
    simp [bindAnswer] at h; subst h; exact ⟨τ', rfl, rfl⟩
  | [], _ :: _, _, _, h, _ => by simp [bindAnswer] at h
  | _ :: _, [], _, _, h, _ => by simp [bindAnswer] at h
  | .c x :: as, c :: cs, ctx, ctx', h, τ' => by
    simp only [bindAnswer] at h
    split at h
    · rename_i hx
      obtain ⟨τ, h1, h2⟩ := bind_fwd as cs ctx ctx' h τ'
      have : x = c := by simpa using hx
      exact ⟨τ, by simp only [gl, List.map_cons, gv] at h1 ⊢; rw [h1, this], h2⟩
    · cases h
  | .v id :: as, c :: cs, ctx, ctx', h, τ' => by
    simp only [bindAnswer] at h
    obtain ⟨τ1, h1, h2⟩ := bind_fwd _ cs _ ctx' h τ'
    rw [gl_bindIn] at h1 h2
    refine ⟨upd τ1 id c, ?_, h2⟩
    simp only [gl, List.map_cons, gv] at h1 ⊢
    rw [h1]
    simp [upd]

theorem bind_bwd : ∀ (args : List Val) (ans : List Const) (ctx : Ctx) (τ : Nat → Const), gl τ args = ans →
    ∃ ctx', bindAnswer args ans ctx = some ctx' ∧ gl τ ctx' = gl τ ctx
  | [], ans, ctx, τ, h => by
    simp only [gl, List.map_nil] at h; subst h
    exact ⟨ctx, rfl, rfl⟩
  | .c x :: as, ans, ctx, τ, h => by
    simp only [gl, List.map_cons, gv] at h
    subst h
    obtain ⟨ctx', h1, h2⟩ := bind_bwd as _ ctx τ rfl
    exact ⟨ctx', by simp only [bindAnswer, beq_self_eq_true, if_true]; exact h1, h2⟩
  | .v id :: as, ans, ctx, τ, h => by
    simp only [gl, List.map_cons, gv] at h
    subst h
    have hτ : upd τ id (gv τ (Val.c (τ id))) = τ := upd_self τ id
    obtain ⟨ctx', h1, h2⟩ := bind_bwd (bindIn id (.c (τ id)) as) (List.map (gv τ) as) (bindIn id (.c (τ id)) ctx) τ
      (by rw [gl_bindIn, hτ]; rfl)
    refine ⟨ctx', by simp only [bindAnswer]; exact h1, ?_⟩
    rw [h2, gl_bindIn, hτ]
termination_by args => args.length
decreasing_by
  all_goals simp only [bindIn, List.length_map, List.length_cons]
  all_goals omega

/-! ### `canon` -/

theorem get_prefix {l vs ext : List Nat} (h : l = vs ++ ext) {k : Nat} (hk : k < vs.length) (hk2 : k < l.length) :
    l[k] = vs[k] := by
  subst h; exact List.getElem_append_left hk

theorem get_at {l vs ext : List Nat} {id : Nat} (h : l = vs ++ [id] ++ ext) (hk2 : vs.length < l.length) :
    l[vs.length] = id := by
  subst h; simp

theorem canon_spec : ∀ (l : List Val) (vs : List Nat), vs.Nodup →
    ∃ ext, (canon l vs).2 = vs ++ ext ∧ (canon l vs).2.Nodup ∧
      ∀ τ τ' : Nat → Const, (∀ k (hk : k < (canon l vs).2.length), τ ((canon l vs).2[k]) = τ' k) →
        gl τ l = gl τ' (canon l vs).1
  | [], vs, hn => ⟨[], by simp [canon], by simpa [canon] using hn, fun _ _ _ => rfl⟩
  | .c x :: r, vs, hn => by
    obtain ⟨ext, h1, h2, h3⟩ := canon_spec r vs hn
    refine ⟨ext, by simpa [canon] using h1, by simpa [canon] using h2, fun τ τ' hc => ?_⟩
    have := h3 τ τ' (by simpa [canon] using hc)
    simp only [canon, gl, List.map_cons, gv] at this ⊢
    rw [this]
  | .v id :: r, vs, hn => by
    cases hidx : vs.idxOf? id with
    | some k =>
      obtain ⟨hk, hvk, _⟩ := List.idxOf?_eq_some_iff.1 hidx
      obtain ⟨ext, h1, h2, h3⟩ := canon_spec r vs hn
      have hc2 : (canon (.v id :: r) vs).2 = (canon r vs).2 := by simp [canon, hidx]
      have hc1 : (canon (.v id :: r) vs).1 = .v k :: (canon r vs).1 := by simp [canon, hidx]
      refine ⟨ext, by rw [hc2]; exact h1, by rw [hc2]; exact h2, fun τ τ' hc => ?_⟩
      rw [hc1]
      have hcond : ∀ k (hk : k < (canon r vs).2.length), τ ((canon r vs).2[k]) = τ' k := by
        intro k' hk'; have := hc k' (by rw [hc2]; exact hk'); simpa [hc2] using this
      have := h3 τ τ' hcond
      simp only [gl, List.map_cons, gv] at this ⊢
      rw [this]
      congr 1
      have hk2 : k < (canon r vs).2.length := by rw [h1]; simp; omega
      have := hcond k hk2
      rw [← this]
      congr 1
      rw [get_prefix h1 hk hk2]; exact hvk.symm
    | none =>
      have hnot : id ∉ vs := List.idxOf?_eq_none_iff.1 hidx
      have hn1 : (vs ++ [id]).Nodup := by
        rw [List.nodup_append]
        exact ⟨hn, by simp, fun a ha b hb => by
          simp only [List.mem_singleton] at hb; subst hb; intro e; subst e; exact hnot ha⟩
      obtain ⟨ext, h1, h2, h3⟩ := canon_spec r (vs ++ [id]) hn1
      have hc2 : (canon (.v id :: r) vs).2 = (canon r (vs ++ [id])).2 := by simp [canon, hidx]
      have hc1 : (canon (.v id :: r) vs).1 = .v vs.length :: (canon r (vs ++ [id])).1 := by simp [canon, hidx]
      refine ⟨[id] ++ ext, by rw [hc2, h1]; simp, by rw [hc2]; exact h2, fun τ τ' hc => ?_⟩
      rw [hc1]
      have hcond : ∀ k (hk : k < (canon r (vs ++ [id])).2.length), τ ((canon r (vs ++ [id])).2[k]) = τ' k := by
        intro k' hk'; have := hc k' (by rw [hc2]; exact hk'); simpa [hc2] using this
      have := h3 τ τ' hcond
      simp only [gl, List.map_cons, gv] at this ⊢
      rw [this]
      congr 1
      have hk2 : vs.length < (canon r (vs ++ [id])).2.length := by rw [h1]; simp
      have := hcond vs.length hk2
      rw [← this]
      congr 1
      exact (get_at h1 hk2).symm

theorem canon_fits (args : List Val) (a : List Const) : Fits (canon args []).1 a ↔ Fits args a := by
  obtain ⟨_, _, hnd, hsp⟩ := canon_spec args [] List.nodup_nil
  constructor
  · rintro ⟨τ', hτ'⟩
    -- the original variable `vs'[k]` takes the value of the canonical variable `k`
    refine ⟨fun id => match (canon args []).2.idxOf? id with | some k => τ' k | none => 0, ?_⟩
    rw [← hτ']
    apply hsp
    intro k hk
    have : (canon args []).2.idxOf? (canon args []).2[k] = some k := by
      rw [List.idxOf?_eq_some_iff]
      refine ⟨hk, rfl, fun j hj he => ?_⟩
      exact (List.pairwise_iff_getElem.1 hnd) j k (by omega) hk hj he
    simp only [this]
  · rintro ⟨τ, hτ⟩
    refine ⟨fun k => τ ((canon args []).2.getD k 0), ?_⟩
    rw [← hτ]
    symm
    apply hsp
    intro k hk
    simp [List.getD_eq_getElem?_getD, List.getElem?_eq_getElem hk]

/-! ### `unifyHead`: substitutions as lists -/

/-- current value of variable `m` -/
def vat (σ : List Val) (m : Nat) : Val := σ.getD m (Val.v m)

/-- ground every variable through `σ`, then by `τ` -/
def star (σ : List Val) (τ : Nat → Const) : Nat → Const := fun m => gv τ (vat σ m)

/-- a variable that occurs as a value is unbound -/
def Idem (σ : List Val) : Prop := ∀ m j, vat σ m = Val.v j → vat σ j = Val.v j

/-- variables that occur as values have a slot -/
def Rng (σ : List Val) : Prop := ∀ m j, m < σ.length → vat σ m = Val.v j → j < σ.length

def VRng (L : Nat) (x : Val) : Prop := ∀ j, x = Val.v j → j < L

theorem vat_ge {σ : List Val} {m : Nat} (h : σ.length ≤ m) : vat σ m = Val.v m := by
  unfold vat; rw [List.getD_eq_getElem?_getD, List.getElem?_eq_none h]; rfl

theorem vat_bindIn (i : Nat) (t : Val) (σ : List Val) (m : Nat) :
    vat (bindIn i t σ) m = if m < σ.length then (if vat σ m == Val.v i then t else vat σ m) else Val.v m := by
  by_cases hm : m < σ.length
  · rw [if_pos hm]
    unfold vat bindIn
    rw [List.getD_eq_getElem?_getD, List.getD_eq_getElem?_getD, List.getElem?_map, List.getElem?_eq_getElem hm]
    rfl
  · rw [if_neg hm]
    exact vat_ge (by rw [bindIn_length]; omega)

theorem resolve_eq (σ : List Val) (x : Val) : resolve σ x = match x with | .c c => .c c | .v i => vat σ i := by
  cases x <;> rfl

/-- resolved values are final under an idempotent substitution -/
theorem gv_star_resolve {σ : List Val} (hi : Idem σ) (τ : Nat → Const) (x : Val) :
    gv (star σ τ) (resolve σ x) = gv (star σ τ) x := by
  cases x with
  | c y => rfl
  | v m =>
    show gv (star σ τ) (vat σ m) = star σ τ m
    cases hv : vat σ m with
    | c y => simp [gv, star, hv]
    | v j =>
      show star σ τ j = star σ τ m
      simp only [star, hv, hi m j hv, gv]

theorem star_bind {σ : List Val} {i : Nat} (hi : i < σ.length) (t : Val) (τ : Nat → Const) :
    star (bindIn i t σ) τ = star σ (upd τ i (gv τ t)) := by
  funext m
  unfold star
  rw [vat_bindIn]
  by_cases hm : m < σ.length
  · rw [if_pos hm]; exact gv_bind τ i t (vat σ m)
  · rw [if_neg hm, vat_ge (by omega)]
    simp only [gv, upd]
    rw [if_neg (by omega)]

/-- `t` is a final value other than the variable `i` -/
def Final (σ : List Val) (i : Nat) (t : Val) : Prop := ∀ j, t = Val.v j → j ≠ i ∧ vat σ j = Val.v j ∧ j < σ.length

theorem idem_bind {σ : List Val} {i : Nat} {t : Val} (hid : Idem σ) (hi : i < σ.length) (hf : Final σ i t) :
    Idem (bindIn i t σ) := by
  intro m j hm
  rw [vat_bindIn] at hm ⊢
  by_cases hml : m < σ.length
  · rw [if_pos hml] at hm
    have hj : vat σ j = Val.v j ∧ j ≠ i := by
      by_cases hmi : (vat σ m == Val.v i) = true
      · rw [if_pos hmi] at hm
        obtain ⟨h1, h2, _⟩ := hf j hm
        exact ⟨h2, h1⟩
      · rw [if_neg hmi] at hm
        refine ⟨hid m j hm, fun e => ?_⟩
        subst e; rw [hm] at hmi; simp at hmi
    by_cases hjl : j < σ.length
    · rw [if_pos hjl, hj.1]
      have : (Val.v j == Val.v i) = false := by simp [hj.2]
      rw [this]; rfl
    · rw [if_neg hjl]
  · rw [if_neg hml] at hm
    have : m = j := by cases hm; rfl
    subst this
    rw [if_neg hml]

theorem rng_bind {σ : List Val} {i : Nat} {t : Val} (hr : Rng σ) (hf : Final σ i t) : Rng (bindIn i t σ) := by
  intro m j hm hv
  rw [bindIn_length] at hm ⊢
  rw [vat_bindIn, if_pos hm] at hv
  by_cases hmi : (vat σ m == Val.v i) = true
  · rw [if_pos hmi] at hv; exact (hf j hv).2.2
  · rw [if_neg hmi] at hv; exact hr m j hm hv

/-- the invariant of `unifyHead.go` after the equations `E` have been processed -/
structure UInv (σ : List Val) (E : List (Val × Val)) : Prop where
  gen : ∀ τ, (∀ p ∈ E, gv τ p.1 = gv τ p.2) → star σ τ = τ
  sol : ∀ τ, ∀ p ∈ E, gv (star σ τ) p.1 = gv (star σ τ) p.2
  idem : Idem σ
  rng : Rng σ

theorem resolve_final {σ : List Val} (hid : Idem σ) (hr : Rng σ) {x : Val} (hx : VRng σ.length x) :
    ∀ j, resolve σ x = Val.v j → vat σ j = Val.v j ∧ j < σ.length := by
  intro j hj
  cases x with
  | c y => cases hj
  | v m =>
    have hj' : vat σ m = Val.v j := hj
    exact ⟨hid m j hj', hr m j (hx m rfl) hj'⟩

/-- one equation -/
theorem unifyVal_spec {σ : List Val} {E : List (Val × Val)} (hinv : UInv σ E) (xa xb : Val)
    (ha : VRng σ.length xa) (hb : VRng σ.length xb) :
    match unifyVal σ (resolve σ xa) (resolve σ xb) with
    | some σ' => UInv σ' (E ++ [(xa, xb)]) ∧ σ'.length = σ.length
    | none => ∀ τ, (∀ p ∈ E, gv τ p.1 = gv τ p.2) → gv τ xa ≠ gv τ xb := by
  have hfa := resolve_final hinv.idem hinv.rng ha
  have hfb := resolve_final hinv.idem hinv.rng hb
  -- the bind step, shared by the two variable cases
  have bind : ∀ (i : Nat) (t : Val) (x1 x2 : Val), resolve σ x1 = Val.v i → resolve σ x2 = t → t ≠ Val.v i →
      vat σ i = Val.v i → i < σ.length → (∀ j, t = Val.v j → vat σ j = Val.v j ∧ j < σ.length) →
      ((xa, xb) = (x1, x2) ∨ (xa, xb) = (x2, x1)) →
      UInv (bindIn i t σ) (E ++ [(xa, xb)]) ∧ (bindIn i t σ).length = σ.length := by
    intro i t x1 x2 h1 h2 hne hvi hil hft hxy
    have hfin : Final σ i t := fun j hj => ⟨fun e => hne (by rw [hj, e]), hft j hj⟩
    refine ⟨⟨fun τ hτ => ?_, fun τ p hp => ?_, idem_bind hinv.idem hil hfin, rng_bind hinv.rng hfin⟩, bindIn_length _ _ _⟩
    · -- generality
      have hE : ∀ p ∈ E, gv τ p.1 = gv τ p.2 := fun p hp => hτ p (List.mem_append_left _ hp)
      have hs := hinv.gen τ hE
      have hpair : gv τ xa = gv τ xb := hτ (xa, xb) (List.mem_append_right _ List.mem_cons_self)
      have hx12 : gv τ x1 = gv τ x2 := by
        rcases hxy with h | h
        · simp only [Prod.mk.injEq] at h; rw [← h.1, ← h.2]; exact hpair
        · simp only [Prod.mk.injEq] at h; rw [← h.1, ← h.2]; exact hpair.symm
      have e1 : gv τ x1 = τ i := by
        have := gv_star_resolve hinv.idem τ x1
        rw [hs, h1] at this; exact this.symm
      have e2 : gv τ x2 = gv τ t := by
        have := gv_star_resolve hinv.idem τ x2
        rw [hs, h2] at this; exact this.symm
      rw [star_bind hil, ← e2, ← hx12, e1, upd_self]; exact hs
    · -- the instances of the new substitution solve all equations
      rw [star_bind hil]
      rcases List.mem_append.1 hp with hp | hp
      · exact hinv.sol _ p hp
      · rw [List.mem_singleton.1 hp]
        have v1 : gv (star σ (upd τ i (gv τ t))) x1 = gv τ t := by
          rw [← gv_star_resolve hinv.idem, h1]
          show star σ _ i = _
          simp [star, hvi, gv, upd]
        have v2 : gv (star σ (upd τ i (gv τ t))) x2 = gv τ t := by
          rw [← gv_star_resolve hinv.idem, h2]
          cases t with
          | c y => rfl
          | v j =>
            obtain ⟨hj1, _⟩ := hft j rfl
            have hji : j ≠ i := fun e => hne (by rw [e])
            show star σ _ j = _
            simp [star, hj1, gv, upd, hji]
        rcases hxy with h | h <;> (simp only [Prod.mk.injEq] at h; rw [h.1, h.2])
        · show gv _ x1 = gv _ x2; rw [v1, v2]
        · show gv _ x2 = gv _ x1; rw [v1, v2]
  -- no change: the two sides already have the same value
  have same : resolve σ xa = resolve σ xb → UInv σ (E ++ [(xa, xb)]) ∧ σ.length = σ.length := by
    intro he
    refine ⟨⟨fun τ hτ => hinv.gen τ (fun p hp => hτ p (List.mem_append_left _ hp)), fun τ p hp => ?_, hinv.idem,
      hinv.rng⟩, rfl⟩
    rcases List.mem_append.1 hp with hp | hp
    · exact hinv.sol τ p hp
    · rw [List.mem_singleton.1 hp]
      show gv (star σ τ) xa = gv (star σ τ) xb
      rw [← gv_star_resolve hinv.idem τ xa, ← gv_star_resolve hinv.idem τ xb, he]
  cases hra : resolve σ xa with
  | c x =>
    cases hrb : resolve σ xb with
    | c y =>
      simp only [unifyVal]
      by_cases hxy : (x == y) = true
      · rw [if_pos hxy]
        have : x = y := by simpa using hxy
        exact same (by rw [hra, hrb, this])
      · rw [if_neg hxy]
        intro τ hτ he
        have hs := hinv.gen τ hτ
        have e1 := gv_star_resolve hinv.idem τ xa
        have e2 := gv_star_resolve hinv.idem τ xb
        rw [hs, hra] at e1
        rw [hs, hrb] at e2
        apply hxy
        have : x = y := by
          have h1 : x = gv τ xa := e1
          have h2 : y = gv τ xb := e2
          rw [h1, h2, he]
        simp [this]
    | v j =>
      simp only [unifyVal]
      obtain ⟨hj1, hj2⟩ := hfb j hrb
      exact bind j (Val.c x) xb xa hrb hra (by simp) hj1 hj2 (fun j' h => by cases h) (Or.inr rfl)
  | v i =>
    obtain ⟨hi1, hi2⟩ := hfa i hra
    simp only [unifyVal]
    by_cases he : (resolve σ xb == Val.v i) = true
    · rw [if_pos he]
      have : resolve σ xb = Val.v i := by simpa using he
      exact same (by rw [hra, this])
    · rw [if_neg he]
      exact bind i (resolve σ xb) xa xb hra rfl (fun e => he (by simp [e])) hi1 hi2
        (fun j hj => hfb j hj) (Or.inl rfl)

/-! ### the loop of `unifyHead` -/

def hval : Term → Val
  | .const c => .c c
  | .var i => .v i

def pairs (shift : Val → Val) (as : List Val) (hs : List Term) : List (Val × Val) := (as.map shift).zip (hs.map hval)

theorem go_cons (shift : Val → Val) (a : Val) (as : List Val) (t : Term) (hs : List Term) (σ : List Val) :
    unifyHead.go shift (a :: as) (t :: hs) σ =
      match unifyVal σ (resolve σ (shift a)) (resolve σ (hval t)) with
      | some σ' => unifyHead.go shift as hs σ'
      | none => none := by
  cases t <;> rfl

theorem unifyVal_len {σ σ' : List Val} {a b : Val} (h : unifyVal σ a b = some σ') : σ'.length = σ.length := by
  unfold unifyVal at h
  split at h
  · split at h
    · cases h; rfl
    · cases h
  · split at h <;> (cases h; first | rfl | exact bindIn_length _ _ _)
  · cases h; exact bindIn_length _ _ _

theorem go_len (shift : Val → Val) : ∀ (as : List Val) (hs : List Term) (σ σ' : List Val),
    unifyHead.go shift as hs σ = some σ' → σ'.length = σ.length
  | [], [], σ, σ', h => by simp only [unifyHead.go] at h; cases h; rfl
  | [], _ :: _, _, _, h => by simp [unifyHead.go] at h
  | _ :: _, [], _, _, h => by simp [unifyHead.go] at h
  | a :: as, t :: hs, σ, σ', h => by
    rw [go_cons] at h
    split at h
    · rename_i σ1 h1
      rw [go_len shift as hs σ1 σ' h, unifyVal_len h1]
    · cases h

theorem go_spec (shift : Val → Val) : ∀ (as : List Val) (hs : List Term) (σ : List Val) (E : List (Val × Val)),
    UInv σ E → (∀ a ∈ as, VRng σ.length (shift a)) → (∀ t ∈ hs, VRng σ.length (hval t)) →
    match unifyHead.go shift as hs σ with
    | some σ' => as.length = hs.length ∧ UInv σ' (E ++ pairs shift as hs)
    | none => ∀ τ, (∀ p ∈ E, gv τ p.1 = gv τ p.2) →
        ¬ (as.length = hs.length ∧ ∀ p ∈ pairs shift as hs, gv τ p.1 = gv τ p.2)
  | [], [], σ, E, hinv, _, _ => by
    simp only [unifyHead.go, pairs, List.map_nil, List.zip_nil_right, List.append_nil]
    exact ⟨rfl, hinv⟩
  | [], _ :: _, _, _, _, _, _ => by
    simp only [unifyHead.go]
    intro τ _ h; simp at h
  | _ :: _, [], _, _, _, _, _ => by
    simp only [unifyHead.go]
    intro τ _ h; simp at h
  | a :: as, t :: hs, σ, E, hinv, hra, hrh => by
    rw [go_cons]
    have hstep := unifyVal_spec hinv (shift a) (hval t) (hra a List.mem_cons_self) (hrh t List.mem_cons_self)
    have hp : pairs shift (a :: as) (t :: hs) = (shift a, hval t) :: pairs shift as hs := rfl
    cases hu : unifyVal σ (resolve σ (shift a)) (resolve σ (hval t)) with
    | none =>
      rw [hu] at hstep
      simp only
      intro τ hτ hc
      exact hstep τ hτ (hc.2 (shift a, hval t) (by rw [hp]; exact List.mem_cons_self))
    | some σ1 =>
      rw [hu] at hstep
      obtain ⟨hinv1, hl1⟩ := hstep
      simp only
      have ih := go_spec shift as hs σ1 (E ++ [(shift a, hval t)]) hinv1
        (fun a' ha' => by rw [hl1]; exact hra a' (List.mem_cons_of_mem _ ha'))
        (fun t' ht' => by rw [hl1]; exact hrh t' (List.mem_cons_of_mem _ ht'))
      cases hg : unifyHead.go shift as hs σ1 with
      | some σ' =>
        rw [hg] at ih
        simp only at ih ⊢
        refine ⟨by simp [ih.1], ?_⟩
        rw [hp]
        have : E ++ (shift a, hval t) :: pairs shift as hs = E ++ [(shift a, hval t)] ++ pairs shift as hs := by simp
        rw [this]; exact ih.2
      | none =>
        rw [hg] at ih
        simp only at ih ⊢
        intro τ hτ hc
        rw [hp] at hc
        refine ih τ (fun p hp' => ?_) ⟨by simpa using hc.1, fun p hp' => hc.2 p (List.mem_cons_of_mem _ hp')⟩
        rcases List.mem_append.1 hp' with h | h
        · exact hτ p h
        · rw [List.mem_singleton.1 h]; exact hc.2 _ List.mem_cons_self

/-! ### from zipped equations to equal lists -/

theorem map_eq_of_zip {α β γ : Type} (F : α → γ) (G : β → γ) : ∀ (l1 : List α) (l2 : List β), l1.length = l2.length →
    (∀ p ∈ l1.zip l2, F p.1 = G p.2) → l1.map F = l2.map G
  | [], [], _, _ => rfl
  | [], _ :: _, h, _ => by simp at h
  | _ :: _, [], h, _ => by simp at h
  | x :: xs, y :: ys, hl, h => by
    simp only [List.map_cons]
    rw [h (x, y) (by simp), map_eq_of_zip F G xs ys (by simpa using hl) (fun p hp => h p (by simp [hp]))]

theorem zip_of_map_eq {α β γ : Type} (F : α → γ) (G : β → γ) : ∀ (l1 : List α) (l2 : List β), l1.map F = l2.map G →
    l1.length = l2.length ∧ ∀ p ∈ l1.zip l2, F p.1 = G p.2
  | [], [], _ => ⟨rfl, fun _ hp => by simp at hp⟩
  | [], _ :: _, h => by simp at h
  | _ :: _, [], h => by simp at h
  | x :: xs, y :: ys, h => by
    simp only [List.map_cons, List.cons.injEq] at h
    obtain ⟨h1, h2⟩ := zip_of_map_eq F G xs ys h.2
    refine ⟨by simp [h1], fun p hp => ?_⟩
    simp only [List.zip_cons_cons, List.mem_cons] at hp
    rcases hp with rfl | hp
    · exact h.1
    · exact h2 p hp

/-! ### the initial substitution and the result -/

def sigma0 (L : Nat) : List Val := (List.range L).map Val.v

theorem vat_sigma0 (L m : Nat) : vat (sigma0 L) m = Val.v m := by
  by_cases h : m < L
  · unfold vat sigma0
    rw [List.getD_eq_getElem?_getD, List.getElem?_map, List.getElem?_eq_getElem (by simpa using h)]
    simp
  · exact vat_ge (by simp [sigma0]; omega)

theorem uinv_sigma0 (L : Nat) : UInv (sigma0 L) [] where
  gen := fun τ _ => by funext m; simp [star, vat_sigma0, gv]
  sol := fun _ _ hp => by cases hp
  idem := fun m j h => by
    rw [vat_sigma0] at h; cases h; exact vat_sigma0 L m
  rng := fun m j hm h => by
    rw [vat_sigma0] at h; cases h; exact hm

theorem varBound_lt : ∀ (call : List Val) (j : Nat), Val.v j ∈ call → j < varBound call
  | [], _, h => by cases h
  | .c _ :: r, j, h => by
    simp only [varBound]
    rcases List.mem_cons.1 h with h | h
    · cases h
    · exact varBound_lt r j h
  | .v i :: r, j, h => by
    simp only [varBound]
    rcases List.mem_cons.1 h with h | h
    · cases h; omega
    · have := varBound_lt r j h; omega

def shiftBy (n : Nat) : Val → Val := fun x => match x with | .c c => .c c | .v j => .v (n + j)

theorem unifyHead_eq (n : Nat) (call : List Val) (head : List Term) :
    unifyHead n call head = (unifyHead.go (shiftBy n) call head (sigma0 (n + varBound call))).map (fun σ => σ.take n) := rfl

theorem take_get (σ : List Val) (n i : Nat) (hn : n ≤ σ.length) (hi : i < n) :
    (σ.take n).getD i (Val.v i) = vat σ i := by
  unfold vat
  rw [List.getD_eq_getElem?_getD, List.getD_eq_getElem?_getD, List.getElem?_take_of_lt hi]

theorem gl_take (σ : List Val) (n : Nat) (hn : n ≤ σ.length) (τ : Nat → Const) :
    gl τ (σ.take n) = (List.range n).map (star σ τ) := by
  apply List.ext_getElem
  · simp [gl]; omega
  · intro i h1 h2
    have hi : i < n := by simpa using h2
    simp only [gl, List.getElem_map, List.getElem_range, star]
    congr 1
    have := take_get σ n i hn hi
    rw [List.getD_eq_getElem?_getD, List.getElem?_eq_getElem (by simpa [gl] using h1)] at this
    simpa using this

theorem ground_take (σ : List Val) (n : Nat) (hn : n ≤ σ.length) (τ : Nat → Const) (t : Term) (ht : Term.inRange n t) :
    Term.ground (gl τ (σ.take n)) t = gv (star σ τ) (hval t) := by
  cases t with
  | const c => rfl
  | var i =>
    have hi : i < n := ht
    simp only [Term.ground, hval, gv]
    rw [gl_take σ n hn τ, List.getD_eq_getElem?_getD, List.getElem?_map, List.getElem?_eq_getElem (by simpa using hi)]
    simp

/-- the joint assignment of clause variables `θ` and call variables `τc` -/
def joint (n : Nat) (θ : List Const) (τc : Nat → Const) : Nat → Const :=
  fun m => if m < n then θ.getD m 0 else τc (m - n)

theorem gv_joint_shift (n : Nat) (θ : List Const) (τc : Nat → Const) (a : Val) :
    gv (joint n θ τc) (shiftBy n a) = gv τc a := by
  cases a with
  | c x => rfl
  | v j =>
    simp only [shiftBy, gv, joint]
    rw [if_neg (by omega)]
    congr 1; omega

theorem gv_joint_hval (n : Nat) (θ : List Const) (τc : Nat → Const) (t : Term) (ht : Term.inRange n t) :
    gv (joint n θ τc) (hval t) = Term.ground θ t := by
  cases t with
  | const c => rfl
  | var i =>
    have hi : i < n := ht
    simp only [hval, gv, joint, Term.ground]
    rw [if_pos hi]

theorem range_ok (n : Nat) (call : List Val) (head : List Term) (hh : ∀ t ∈ head, Term.inRange n t) :
    (∀ a ∈ call, VRng (sigma0 (n + varBound call)).length (shiftBy n a)) ∧
    (∀ t ∈ head, VRng (sigma0 (n + varBound call)).length (hval t)) := by
  have hl : (sigma0 (n + varBound call)).length = n + varBound call := by simp [sigma0]
  constructor
  · intro a ha j hj
    rw [hl]
    cases a with
    | c x => cases hj
    | v i =>
      have hb := varBound_lt call i ha
      simp only [shiftBy] at hj
      cases hj
      omega
  · intro t ht j hj
    rw [hl]
    cases t with
    | const c => cases hj
    | var i =>
      have hi : i < n := hh _ ht
      simp only [hval] at hj
      cases hj
      omega

theorem unifOK : UnifOK := by
  refine ⟨?_, ?_, ?_, ?_, bind_len, bind_fwd, bind_bwd, canon_fits⟩
  · -- head_len
    intro n call head ctx h
    rw [unifyHead_eq] at h
    cases hg : unifyHead.go (shiftBy n) call head (sigma0 (n + varBound call)) with
    | none => rw [hg] at h; cases h
    | some σ =>
      rw [hg] at h
      simp only [Option.map_some, Option.some.injEq] at h
      subst h
      have := go_len _ _ _ _ _ hg
      simp only [sigma0, List.length_map, List.length_range] at this
      simp [this]
  · -- head_sound
    intro n call head ctx hh h τ
    rw [unifyHead_eq] at h
    obtain ⟨hr1, hr2⟩ := range_ok n call head hh
    have hspec := go_spec (shiftBy n) call head _ [] (uinv_sigma0 _) hr1 hr2
    cases hg : unifyHead.go (shiftBy n) call head (sigma0 (n + varBound call)) with
    | none => rw [hg] at h; cases h
    | some σ =>
      rw [hg] at h hspec
      simp only [Option.map_some, Option.some.injEq] at h
      subst h
      obtain ⟨hlen, hinv⟩ := hspec
      have hσl : n ≤ σ.length := by
        have := go_len _ _ _ _ _ hg
        simp only [sigma0, List.length_map, List.length_range] at this
        omega
      refine ⟨fun j => star σ τ (n + j), ?_⟩
      have hz := map_eq_of_zip (gv (star σ τ)) (gv (star σ τ)) (call.map (shiftBy n)) (head.map hval)
        (by simpa using hlen) (fun p hp => hinv.sol τ p (by simpa [pairs] using hp))
      rw [List.map_map, List.map_map] at hz
      have e1 : gl (fun j => star σ τ (n + j)) call = call.map (gv (star σ τ) ∘ shiftBy n) := by
        unfold gl
        apply List.map_congr_left
        intro a _
        cases a <;> rfl
      have e2 : head.map (Term.ground (gl τ (σ.take n))) = head.map (gv (star σ τ) ∘ hval) := by
        apply List.map_congr_left
        intro t ht
        exact ground_take σ n hσl τ t (hh t ht)
      rw [e1, e2, hz]
  · -- head_complete
    intro n call head ctx hh h θ hθ hfit
    obtain ⟨τc, hτc⟩ := hfit
    rw [unifyHead_eq] at h
    obtain ⟨hr1, hr2⟩ := range_ok n call head hh
    have hspec := go_spec (shiftBy n) call head _ [] (uinv_sigma0 _) hr1 hr2
    cases hg : unifyHead.go (shiftBy n) call head (sigma0 (n + varBound call)) with
    | none => rw [hg] at h; cases h
    | some σ =>
      rw [hg] at h hspec
      simp only [Option.map_some, Option.some.injEq] at h
      subst h
      obtain ⟨_, hinv⟩ := hspec
      have hσl : n ≤ σ.length := by
        have := go_len _ _ _ _ _ hg
        simp only [sigma0, List.length_map, List.length_range] at this
        omega
      have hmaps : (call.map (shiftBy n)).map (gv (joint n θ τc)) = (head.map hval).map (gv (joint n θ τc)) := by
        rw [List.map_map, List.map_map]
        have e1 : call.map (gv (joint n θ τc) ∘ shiftBy n) = gl τc call := by
          unfold gl; apply List.map_congr_left; intro a _; exact gv_joint_shift n θ τc a
        have e2 : head.map (gv (joint n θ τc) ∘ hval) = head.map (Term.ground θ) := by
          apply List.map_congr_left; intro t ht; exact gv_joint_hval n θ τc t (hh t ht)
        rw [e1, e2, hτc]
      have hsol := (zip_of_map_eq _ _ _ _ hmaps).2
      have hstar := hinv.gen (joint n θ τc) (fun p hp => hsol p (by simpa [pairs] using hp))
      refine ⟨joint n θ τc, ?_⟩
      rw [gl_take σ n hσl, hstar]
      apply List.ext_getElem
      · simp [hθ]
      · intro i h1 h2
        have hi : i < n := by simpa using h1
        simp only [List.getElem_map, List.getElem_range, joint, if_pos hi]
        rw [List.getD_eq_getElem?_getD, List.getElem?_eq_getElem h2]; rfl
  · -- head_none
    intro n call head hh h θ hθ hfit
    obtain ⟨τc, hτc⟩ := hfit
    rw [unifyHead_eq] at h
    obtain ⟨hr1, hr2⟩ := range_ok n call head hh
    have hspec := go_spec (shiftBy n) call head _ [] (uinv_sigma0 _) hr1 hr2
    cases hg : unifyHead.go (shiftBy n) call head (sigma0 (n + varBound call)) with
    | some σ => rw [hg] at h; simp at h
    | none =>
      rw [hg] at hspec
      have hmaps : (call.map (shiftBy n)).map (gv (joint n θ τc)) = (head.map hval).map (gv (joint n θ τc)) := by
        rw [List.map_map, List.map_map]
        have e1 : call.map (gv (joint n θ τc) ∘ shiftBy n) = gl τc call := by
          unfold gl; apply List.map_congr_left; intro a _; exact gv_joint_shift n θ τc a
        have e2 : head.map (gv (joint n θ τc) ∘ hval) = head.map (Term.ground θ) := by
          apply List.map_congr_left; intro t ht; exact gv_joint_hval n θ τc t (hh t ht)
        rw [e1, e2, hτc]
      obtain ⟨hl, hsol⟩ := zip_of_map_eq _ _ _ _ hmaps
      exact hspec (joint n θ τc) (fun _ hp => by cases hp)
        ⟨by simpa using hl, fun p hp => hsol p (by simpa [pairs] using hp)⟩

end ProbLogProofs.GroundFOSem
