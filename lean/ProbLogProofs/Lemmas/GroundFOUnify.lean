import ProbLogProofs.Lemmas.GroundFOSemDefs
/-!
# First-order grounder model: the unification facts (`UnifOK`) (core Lean only)

`bindAnswer` (binding the variables of a call to a ground answer), `canon` (renaming the variables of a call apart) and
`unifyHead` (call against clause head, eager substitution on a joint numbering of clause and call variables), each
characterised by the ground assignments it admits.
-/
namespace ProbLogProofs.GroundFOSem
open ProbLogModel ProbLogModel.Formula ProbLogModel.GroundFO

def upd (τ : Nat → Const) (i : Nat) (x : Const) : Nat → Const := fun j => if j = i then x else τ j

theorem upd_self (τ : Nat → Const) (i : Nat) : upd τ i (τ i) = τ := by
  funext j; unfold upd; split
  · rename_i h; rw [h]
  · rfl

/-- binding variable `i` to the value `t`: grounding afterwards = grounding before with `i` set to the value of `t` -/
theorem gv_bind (τ : Nat → Const) (i : Nat) (t x : Val) :
    gv τ (if x == Val.v i then t else x) = gv (upd τ i (gv τ t)) x := by
  cases x with
  | c y => simp [gv]
  | v j =>
    by_cases h : j = i
    · subst h; simp [gv, upd]
    · have : (Val.v j == Val.v i) = false := by simp [h]
      simp [this, gv, upd, h]

theorem gl_bindIn (τ : Nat → Const) (i : Nat) (t : Val) (l : List Val) :
    gl τ (bindIn i t l) = gl (upd τ i (gv τ t)) l := by
  unfold gl bindIn
  rw [List.map_map]
  apply List.map_congr_left
  intro x _
  exact gv_bind τ i t x

theorem bindIn_length (i : Nat) (t : Val) (l : List Val) : (bindIn i t l).length = l.length := by
  simp [bindIn]

/-! ### `bindAnswer` -/

theorem bind_len : ∀ (args : List Val) (ans : List Const) (ctx ctx' : Ctx), bindAnswer args ans ctx = some ctx' →
    ctx'.length = ctx.length
  | [], [], ctx, ctx', h => by simp [bindAnswer] at h; rw [← h]
  | [], _ :: _, _, _, h => by simp [bindAnswer] at h
  | _ :: _, [], _, _, h => by simp [bindAnswer] at h
  | .c x :: as, c :: cs, ctx, ctx', h => by
    simp only [bindAnswer] at h
    split at h
    · exact bind_len as cs ctx ctx' h
    · cases h
  | .v id :: as, c :: cs, ctx, ctx', h => by
    simp only [bindAnswer] at h
    rw [bind_len _ cs _ ctx' h, bindIn_length]

theorem bind_fwd : ∀ (args : List Val) (ans : List Const) (ctx ctx' : Ctx), bindAnswer args ans ctx = some ctx' →
    ∀ τ', ∃ τ, gl τ args = ans ∧ gl τ ctx = gl τ' ctx'
  | [], [], ctx, ctx', h, τ' => by
    simp [bindAnswer] at h; subst h; exact ⟨τ', rfl, rfl⟩
  | [], _ :: _, _, _, h, _ => by simp [bindAnswer] at h
  | _ :: _, [], _, _, h, _ => by simp [bindAnswer] at h
  | .c x :: as, c :: cs, ctx, ctx', h, τ' => by
    simp only [bindAnswer] at h
    split at h
    · rename_i hx
      obtain ⟨τ, h1, h2⟩ := bind_fwd as cs ctx ctx' h τ'
      have : x = c := by simpa using hx
      exact ⟨τ, by simp only [gl, List.map_cons, gv] at h1 ⊢; rw [h1, this], h2⟩
    · cases h
  | .v id :: as, c :: cs, ctx, ctx', h, τ' => by
    simp only [bindAnswer] at h
    obtain ⟨τ1, h1, h2⟩ := bind_fwd _ cs _ ctx' h τ'
    rw [gl_bindIn] at h1 h2
    refine ⟨upd τ1 id c, ?_, h2⟩
    simp only [gl, List.map_cons, gv] at h1 ⊢
    rw [h1]
    simp [upd]

theorem bind_bwd : ∀ (args : List Val) (ans : List Const) (ctx : Ctx) (τ : Nat → Const), gl τ args = ans →
    ∃ ctx', bindAnswer args ans ctx = some ctx' ∧ gl τ ctx' = gl τ ctx
  | [], ans, ctx, τ, h => by
    simp only [gl, List.map_nil] at h; subst h
    exact ⟨ctx, rfl, rfl⟩
  | .c x :: as, ans, ctx, τ, h => by
    simp only [gl, List.map_cons, gv] at h
    subst h
    obtain ⟨ctx', h1, h2⟩ := bind_bwd as _ ctx τ rfl
    exact ⟨ctx', by simp only [bindAnswer, beq_self_eq_true, if_true]; exact h1, h2⟩
  | .v id :: as, ans, ctx, τ, h => by
    simp only [gl, List.map_cons, gv] at h
    subst h
    have hτ : upd τ id (gv τ (Val.c (τ id))) = τ := upd_self τ id
    obtain ⟨ctx', h1, h2⟩ := bind_bwd (bindIn id (.c (τ id)) as) (List.map (gv τ) as) (bindIn id (.c (τ id)) ctx) τ
      (by rw [gl_bindIn, hτ]; rfl)
    refine ⟨ctx', by simp only [bindAnswer]; exact h1, ?_⟩
    rw [h2, gl_bindIn, hτ]
termination_by args => args.length
decreasing_by
  all_goals simp only [bindIn, List.length_map, List.length_cons]
  all_goals omega

/-! ### `canon` -/

theorem get_prefix {l vs ext : List Nat} (h : l = vs ++ ext) {k : Nat} (hk : k < vs.length) (hk2 : k < l.length) :
    l[k] = vs[k] := by
  subst h; exact List.getElem_append_left hk

theorem get_at {l vs ext : List Nat} {id : Nat} (h : l = vs ++ [id] ++ ext) (hk2 : vs.length < l.length) :
    l[vs.length] = id := by
  subst h; simp

theorem canon_spec : ∀ (l : List Val) (vs : List Nat), vs.Nodup →
    ∃ ext, (canon l vs).2 = vs ++ ext ∧ (canon l vs).2.Nodup ∧
      ∀ τ τ' : Nat → Const, (∀ k (hk : k < (canon l vs).2.length), τ ((canon l vs).2[k]) = τ' k) →
        gl τ l = gl τ' (canon l vs).1
  | [], vs, hn => ⟨[], by simp [canon], by simpa [canon] using hn, fun _ _ _ => rfl⟩
  | .c x :: r, vs, hn => by
    obtain ⟨ext, h1, h2, h3⟩ := canon_spec r vs hn
    refine ⟨ext, by simpa [canon] using h1, by simpa [canon] using h2, fun τ τ' hc => ?_⟩
    have := h3 τ τ' (by simpa [canon] using hc)
    simp only [canon, gl, List.map_cons, gv] at this ⊢
    rw [this]
  | .v id :: r, vs, hn => by
    cases hidx : vs.idxOf? id with
    | some k =>
      obtain ⟨hk, hvk, _⟩ := List.idxOf?_eq_some_iff.1 hidx
      obtain ⟨ext, h1, h2, h3⟩ := canon_spec r vs hn
      have hc2 : (canon (.v id :: r) vs).2 = (canon r vs).2 := by simp [canon, hidx]
      have hc1 : (canon (.v id :: r) vs).1 = .v k :: (canon r vs).1 := by simp [canon, hidx]
      refine ⟨ext, by rw [hc2]; exact h1, by rw [hc2]; exact h2, fun τ τ' hc => ?_⟩
      rw [hc1]
      have hcond : ∀ k (hk : k < (canon r vs).2.length), τ ((canon r vs).2[k]) = τ' k := by
        intro k' hk'; have := hc k' (by rw [hc2]; exact hk'); simpa [hc2] using this
      have := h3 τ τ' hcond
      simp only [gl, List.map_cons, gv] at this ⊢
      rw [this]
      congr 1
      have hk2 : k < (canon r vs).2.length := by rw [h1]; simp; omega
      have := hcond k hk2
      rw [← this]
      congr 1
      rw [get_prefix h1 hk hk2]; exact hvk.symm
    | none =>
      have hnot : id ∉ vs := List.idxOf?_eq_none_iff.1 hidx
      have hn1 : (vs ++ [id]).Nodup := by
        rw [List.nodup_append]
        exact ⟨hn, by simp, fun a ha b hb => by
          simp only [List.mem_singleton] at hb; subst hb; intro e; subst e; exact hnot ha⟩
      obtain ⟨ext, h1, h2, h3⟩ := canon_spec r (vs ++ [id]) hn1
      have hc2 : (canon (.v id :: r) vs).2 = (canon r (vs ++ [id])).2 := by simp [canon, hidx]
      have hc1 : (canon (.v id :: r) vs).1 = .v vs.length :: (canon r (vs ++ [id])).1 := by simp [canon, hidx]
      refine ⟨[id] ++ ext, by rw [hc2, h1]; simp, by rw [hc2]; exact h2, fun τ τ' hc => ?_⟩
      rw [hc1]
      have hcond : ∀ k (hk : k < (canon r (vs ++ [id])).2.length), τ ((canon r (vs ++ [id])).2[k]) = τ' k := by
        intro k' hk'; have := hc k' (by rw [hc2]; exact hk'); simpa [hc2] using this
      have := h3 τ τ' hcond
      simp only [gl, List.map_cons, gv] at this ⊢
      rw [this]
      congr 1
      have hk2 : vs.length < (canon r (vs ++ [id])).2.length := by rw [h1]; simp
      have := hcond vs.length hk2
      rw [← this]
      congr 1
      exact (get_at h1 hk2).symm

theorem canon_fits (args : List Val) (a : List Const) : Fits (canon args []).1 a ↔ Fits args a := by
  obtain ⟨_, _, hnd, hsp⟩ := canon_spec args [] List.nodup_nil
  constructor
  · rintro ⟨τ', hτ'⟩
    -- the original variable `vs'[k]` takes the value of the canonical variable `k`
    refine ⟨fun id => match (canon args []).2.idxOf? id with | some k => τ' k | none => 0, ?_⟩
    rw [← hτ']
    apply hsp
    intro k hk
    have : (canon args []).2.idxOf? (canon args []).2[k] = some k := by
      rw [List.idxOf?_eq_some_iff]
      refine ⟨hk, rfl, fun j hj he => ?_⟩
      exact (List.pairwise_iff_getElem.1 hnd) j k (by omega) hk hj he
    simp only [this]
  · rintro ⟨τ, hτ⟩
    refine ⟨fun k => τ ((canon args []).2.getD k 0), ?_⟩
    rw [← hτ]
    symm
    apply hsp
    intro k hk
    simp [List.getD_eq_getElem?_getD, List.getElem?_eq_getElem hk]

end ProbLogProofs.GroundFOSem
