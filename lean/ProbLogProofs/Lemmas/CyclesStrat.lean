import ProbLogProofs.Lemmas.Cycles
/-!
Stratified negation: `cutEval` on a stratified store coincides with `cutEval` on the Gelfond–Lifschitz reduct of the
store w.r.t. the valuation `cutν` computed by `cutEval` itself. (The reduct is `Positive`, so the loop-cut theorem
applies to it.)
-/
namespace ProbLogProofs.Cycles
open ProbLogModel.Formula ProbLogModel.Cycles

/-! ### small list facts -/

theorem all_congr_mem {β} (l : List β) (p q : β → Bool) (h : ∀ x ∈ l, p x = q x) : l.all p = l.all q := by
  induction l with
  | nil => rfl
  | cons a l ih =>
    simp only [List.all_cons]
    rw [h a (List.mem_cons_self ..), ih (fun x hx => h x (List.mem_cons_of_mem _ hx))]

theorem any_congr_mem {β} (l : List β) (p q : β → Bool) (h : ∀ x ∈ l, p x = q x) : l.any p = l.any q := by
  induction l with
  | nil => rfl
  | cons a l ih =>
    simp only [List.any_cons]
    rw [h a (List.mem_cons_self ..), ih (fun x hx => h x (List.mem_cons_of_mem _ hx))]

theorem lt_length_of_get {S : Store} {j : Nat} {nd : Node} (h : S.nodes[j]? = some nd) : j < S.nodes.length := by
  rcases Nat.lt_or_ge j S.nodes.length with h' | h'
  · exact h'
  · rw [List.getElem?_eq_none h'] at h; cases h

theorem free_le (S : Store) (A : List Nat) : free S A ≤ S.nodes.length := by
  unfold free
  have := List.length_filter_le (fun j => !A.contains (j + 1)) (List.range S.nodes.length)
  rw [List.length_range] at this
  exact this

theorem cutEval_none (S : Store) (α : Nat → Bool) (f : Nat) (A : List Nat) : cutEval S α f A none = false := by
  cases f <;> rfl

theorem cutEval_true (S : Store) (α : Nat → Bool) (f : Nat) (A : List Nat) : cutEval S α (f + 1) A (some 0) = true := by
  rfl

/-! ### the fuel never matters (any store) -/

theorem cutEval_fuel_indep {S : Store} {α : Nat → Bool} :
    ∀ (f₁ f₂ : Nat) (A : List Nat) (k : Key), free S A < f₁ → free S A < f₂ →
      cutEval S α f₁ A k = cutEval S α f₂ A k := by
  intro f₁
  induction f₁ with
  | zero => intro f₂ A k h; omega
  | succ f₁ ih =>
    intro f₂ A k h₁ h₂
    cases f₂ with
    | zero => omega
    | succ f₂ =>
      cases k with
      | none => rfl
      | some k =>
        rw [cutEval_succ, cutEval_succ]
        by_cases hk0 : k = 0
        · simp only [hk0, ↓reduceIte]
        · simp only [hk0, ↓reduceIte]
          cases hn : S.nodes[k.natAbs - 1]? with
          | none => rfl
          | some nd =>
            cases nd with
            | atom id g e nm => rfl
            | conj cs nm =>
              by_cases hA : A.contains k.natAbs = true
              · simp only [hA, ↓reduceIte]
              · have hA' : k.natAbs ∉ A := by simpa [List.contains_iff_mem] using hA
                have hlt := free_cons_lt S A k.natAbs (by omega) (lt_length_of_get hn) hA'
                have key : ∀ c, cutEval S α f₁ (k.natAbs :: A) c = cutEval S α f₂ (k.natAbs :: A) c :=
                  fun c => ih f₂ _ c (by omega) (by omega)
                simp only [key]
            | disj cs nm =>
              by_cases hA : A.contains k.natAbs = true
              · simp only [hA, ↓reduceIte]
              · have hA' : k.natAbs ∉ A := by simpa [List.contains_iff_mem] using hA
                have hlt := free_cons_lt S A k.natAbs (by omega) (lt_length_of_get hn) hA'
                have key : ∀ c, cutEval S α f₁ (k.natAbs :: A) c = cutEval S α f₂ (k.natAbs :: A) c :=
                  fun c => ih f₂ _ c (by omega) (by omega)
                simp only [key]

/-! ### stratification -/

theorem strat_conj {S : Store} {lvl : Nat → Nat} (hst : Stratified S lvl) {i : Nat} (hi : 0 < i) {cs nm}
    (hn : S.nodes[i - 1]? = some (.conj cs nm)) : ∀ c ∈ cs, stratKey S lvl i c = true := by
  have h := List.all_eq_true.1 hst (i - 1) (List.mem_range.2 (lt_length_of_get hn))
  simp only [hn] at h
  have e : i - 1 + 1 = i := by omega
  rw [e] at h
  exact fun c hc => List.all_eq_true.1 h c hc

theorem strat_disj {S : Store} {lvl : Nat → Nat} (hst : Stratified S lvl) {i : Nat} (hi : 0 < i) {cs nm}
    (hn : S.nodes[i - 1]? = some (.disj cs nm)) : ∀ c ∈ cs, stratKey S lvl i c = true := by
  have h := List.all_eq_true.1 hst (i - 1) (List.mem_range.2 (lt_length_of_get hn))
  simp only [hn] at h
  have e : i - 1 + 1 = i := by omega
  rw [e] at h
  exact fun c hc => List.all_eq_true.1 h c hc

theorem stratKey_le {S : Store} {lvl : Nat → Nat} {i : Nat} {k : Int} (h : stratKey S lvl i (some k) = true)
    (hk0 : k ≠ 0) : lvl k.natAbs ≤ lvl i := by
  simp only [stratKey, hk0, ↓reduceIte, Bool.and_eq_true, decide_eq_true_eq] at h
  exact h.1

/-- "negated compound child": the target of a negative key is a conjunction or disjunction node. -/
def IsCompound (S : Store) (j : Nat) : Prop :=
  (∃ cs nm, S.nodes[j - 1]? = some (.conj cs nm)) ∨ (∃ cs nm, S.nodes[j - 1]? = some (.disj cs nm))

theorem stratKey_lt {S : Store} {lvl : Nat → Nat} {i : Nat} {k : Int} (h : stratKey S lvl i (some k) = true)
    (hk : k < 0) (hc : IsCompound S k.natAbs) : lvl k.natAbs < lvl i := by
  have hk0 : k ≠ 0 := by omega
  simp only [stratKey, hk0, ↓reduceIte, Bool.and_eq_true, decide_eq_true_eq, hk] at h
  rcases hc with ⟨cs, nm, hn⟩ | ⟨cs, nm, hn⟩
  · rw [hn] at h; simpa using h.2
  · rw [hn] at h; simpa using h.2

/-- The result of `cutEval` at `k` depends on the ancestor list only through the nodes on levels `≤ lvl k`. -/
theorem cutEval_anc_indep {S : Store} {α : Nat → Bool} {lvl : Nat → Nat} (hst : Stratified S lvl) :
    ∀ (f : Nat) (A B : List Nat) (k : Int), (∀ x, lvl x ≤ lvl k.natAbs → (x ∈ A ↔ x ∈ B)) →
      cutEval S α f A (some k) = cutEval S α f B (some k) := by
  intro f
  induction f with
  | zero => intro A B k _; rfl
  | succ f ih =>
    intro A B k hAB
    rw [cutEval_succ, cutEval_succ]
    by_cases hk0 : k = 0
    · simp only [hk0, ↓reduceIte]
    · simp only [hk0, ↓reduceIte]
      have hcont : A.contains k.natAbs = B.contains k.natAbs := by
        rw [Bool.eq_iff_iff]
        simp only [List.contains_iff_mem]
        exact hAB _ (Nat.le_refl _)
      have child : ∀ cs : List Key, (∀ c ∈ cs, stratKey S lvl k.natAbs c = true) → ∀ c ∈ cs,
          cutEval S α f (k.natAbs :: A) c = cutEval S α f (k.natAbs :: B) c := by
        intro cs hcs c hc
        cases c with
        | none => rw [cutEval_none, cutEval_none]
        | some c' =>
          by_cases hc0 : c' = 0
          · subst hc0; cases f <;> rfl
          · have hle := stratKey_le (hcs _ hc) hc0
            apply ih
            intro x hx
            simp only [List.mem_cons]
            rw [hAB x (Nat.le_trans hx hle)]
      cases hn : S.nodes[k.natAbs - 1]? with
      | none => rfl
      | some nd =>
        cases nd with
        | atom id g e nm => rfl
        | conj cs nm =>
          simp only [hcont]
          rw [all_congr_mem cs _ _ (child cs (strat_conj hst (by omega) hn))]
        | disj cs nm =>
          simp only [hcont]
          rw [any_congr_mem cs _ _ (child cs (strat_disj hst (by omega) hn))]

/-- Below ancestors of strictly higher levels, and with enough fuel, `cutEval` returns the top-level value `cutν`. -/
theorem cutEval_eq_cutν {S : Store} {α : Nat → Bool} {lvl : Nat → Nat} (hst : Stratified S lvl)
    {f : Nat} {A : List Nat} {k : Int} (hk : 0 < k) (hf : free S A < f) (hA : ∀ x ∈ A, lvl k.natAbs < lvl x) :
    cutEval S α f A (some k) = cutν S α k.natAbs := by
  have e : ((k.natAbs : Nat) : Int) = k := by omega
  unfold cutν
  rw [e, cutEval_fuel_indep f (S.nodes.length + 1) A (some k) hf (by have := free_le S A; omega)]
  apply cutEval_anc_indep hst
  intro x hx
  constructor
  · intro hxA; have := hA x hxA; omega
  · intro h; cases h

/-! ### the reduct -/

theorem reduct_get (S : Store) (ν : Nat → Bool) (j : Nat) :
    (reduct S ν).nodes[j]? = (S.nodes[j]?).map (reductNode S ν) := by
  simp [reduct]

theorem reduct_length (S : Store) (ν : Nat → Bool) : (reduct S ν).nodes.length = S.nodes.length := by
  simp [reduct]

theorem reduct_free (S : Store) (ν : Nat → Bool) (A : List Nat) : free (reduct S ν) A = free S A := by
  unfold free; rw [reduct_length]

theorem posKey_reductKey (S : Store) (ν : Nat → Bool) (c : Key) : posKey (reduct S ν) (reductKey S ν c) = true := by
  cases c with
  | none => rfl
  | some k =>
    by_cases hk : k < 0
    · simp only [reductKey, hk, ↓reduceIte]
      cases hn : S.nodes[k.natAbs - 1]? with
      | none => rfl
      | some nd =>
        cases nd with
        | atom id g e nm =>
          have h0 : ¬ 0 ≤ k := by omega
          simp only [posKey, h0, ↓reduceIte, reduct_get, hn, Option.map_some, reductNode]
        | conj cs nm => by_cases hv : ν k.natAbs = true <;> simp [hv, posKey]
        | disj cs nm => by_cases hv : ν k.natAbs = true <;> simp [hv, posKey]
    · have h0 : 0 ≤ k := by omega
      simp only [reductKey, hk, ↓reduceIte, posKey, h0]

theorem positive_reduct (S : Store) (ν : Nat → Bool) : Positive (reduct S ν) := by
  unfold Positive positive
  rw [List.all_eq_true]
  intro nd hnd
  simp only [reduct, List.mem_map] at hnd
  obtain ⟨nd0, _, rfl⟩ := hnd
  cases nd0 with
  | atom id g e nm => rfl
  | conj cs nm =>
    simp only [reductNode, posNode, List.all_map, List.all_eq_true]
    intro c _; exact posKey_reductKey S ν c
  | disj cs nm =>
    simp only [reductNode, posNode, List.all_map, List.all_eq_true]
    intro c _; exact posKey_reductKey S ν c

/-- Main lemma: on a stratified store, `cutEval` agrees with `cutEval` on the reduct w.r.t. its own valuation, as long
    as the ancestors are on levels at least that of the current node (which the descent maintains). -/
theorem cutEval_reduct {S : Store} {α : Nat → Bool} {lvl : Nat → Nat} (hst : Stratified S lvl) :
    ∀ (f : Nat) (A : List Nat) (k : Int), free S A < f → (∀ x ∈ A, lvl k.natAbs ≤ lvl x) →
      cutEval S α f A (some k) = cutEval (reduct S (cutν S α)) α f A (some k) := by
  intro f
  induction f with
  | zero => intro A k hf; omega
  | succ f ih =>
    intro A k hf hA
    rw [cutEval_succ, cutEval_succ]
    by_cases hk0 : k = 0
    · simp only [hk0, ↓reduceIte]
    · simp only [hk0, ↓reduceIte, reduct_get]
      have child : ∀ cs : List Key, (∀ c ∈ cs, stratKey S lvl k.natAbs c = true) → k.natAbs ∉ A →
          k.natAbs - 1 < S.nodes.length → ∀ c ∈ cs,
          cutEval S α f (k.natAbs :: A) c =
            cutEval (reduct S (cutν S α)) α f (k.natAbs :: A) (reductKey S (cutν S α) c) := by
        intro cs hcs hnotA hlen c hc
        have hlt := free_cons_lt S A k.natAbs (by omega) hlen hnotA
        have hf' : free S (k.natAbs :: A) < f := by omega
        cases c with
        | none => simp only [reductKey]; rw [cutEval_none, cutEval_none]
        | some c' =>
          by_cases hc0 : c' = 0
          · subst hc0; cases f <;> rfl
          · have hle := stratKey_le (hcs _ hc) hc0
            have hanc : ∀ x ∈ k.natAbs :: A, lvl c'.natAbs ≤ lvl x := by
              intro x hx
              rcases List.mem_cons.1 hx with h | h
              · rw [h]; exact hle
              · exact Nat.le_trans hle (hA x h)
            by_cases hneg : c' < 0
            · cases f with
              | zero => omega
              | succ f' =>
                cases hn : S.nodes[c'.natAbs - 1]? with
                | none =>
                  simp only [reductKey, hneg, ↓reduceIte, hn]
                  rw [cutEval_true, cutEval_succ]
                  simp only [hc0, ↓reduceIte, hn, hneg, Bool.not_false]
                | some nd =>
                  cases nd with
                  | atom id g e nm =>
                    simp only [reductKey, hneg, ↓reduceIte, hn]
                    exact ih _ _ hf' hanc
                  | conj cs' nm' =>
                    have hcomp : IsCompound S c'.natAbs := Or.inl ⟨cs', nm', hn⟩
                    have hl := stratKey_lt (hcs _ hc) hneg hcomp
                    have hval : cutEval S α (f' + 1) (k.natAbs :: A) (some (-c')) = cutν S α c'.natAbs := by
                      have := cutEval_eq_cutν (α := α) hst (k := -c') (by omega) hf' (by
                        intro x hx
                        rw [Int.natAbs_neg]
                        rcases List.mem_cons.1 hx with h | h
                        · rw [h]; exact hl
                        · exact Nat.lt_of_lt_of_le hl (hA x h))
                      rw [Int.natAbs_neg] at this; exact this
                    rw [cutEval_neg' S α f' _ c' hc0, hval]
                    simp only [reductKey, hneg, ↓reduceIte, hn]
                    by_cases hv : cutν S α c'.natAbs = true
                    · simp only [hv, ↓reduceIte, Bool.not_true]; rw [cutEval_none]
                    · simp only [hv, Bool.false_eq_true, ↓reduceIte]; rw [cutEval_true]
                      simp
                  | disj cs' nm' =>
                    have hcomp : IsCompound S c'.natAbs := Or.inr ⟨cs', nm', hn⟩
                    have hl := stratKey_lt (hcs _ hc) hneg hcomp
                    have hval : cutEval S α (f' + 1) (k.natAbs :: A) (some (-c')) = cutν S α c'.natAbs := by
                      have := cutEval_eq_cutν (α := α) hst (k := -c') (by omega) hf' (by
                        intro x hx
                        rw [Int.natAbs_neg]
                        rcases List.mem_cons.1 hx with h | h
                        · rw [h]; exact hl
                        · exact Nat.lt_of_lt_of_le hl (hA x h))
                      rw [Int.natAbs_neg] at this; exact this
                    rw [cutEval_neg' S α f' _ c' hc0, hval]
                    simp only [reductKey, hneg, ↓reduceIte, hn]
                    by_cases hv : cutν S α c'.natAbs = true
                    · simp only [hv, ↓reduceIte, Bool.not_true]; rw [cutEval_none]
                    · simp only [hv, Bool.false_eq_true, ↓reduceIte]; rw [cutEval_true]
                      simp
            · simp only [reductKey, hneg, ↓reduceIte]
              exact ih _ _ hf' hanc
      cases hn : S.nodes[k.natAbs - 1]? with
      | none => rfl
      | some nd =>
        cases nd with
        | atom id g e nm => rfl
        | conj cs nm =>
          simp only [Option.map_some, reductNode, List.all_map]
          by_cases hc : A.contains k.natAbs = true
          · simp only [hc, ↓reduceIte]
          · have hnotA : k.natAbs ∉ A := by simpa [List.contains_iff_mem] using hc
            simp only [hc, Bool.false_eq_true, ↓reduceIte]
            rw [all_congr_mem cs _ _
              (child cs (strat_conj hst (by omega) hn) hnotA (lt_length_of_get hn))]
            rfl
        | disj cs nm =>
          simp only [Option.map_some, reductNode, List.any_map]
          by_cases hc : A.contains k.natAbs = true
          · simp only [hc, ↓reduceIte]
          · have hnotA : k.natAbs ∉ A := by simpa [List.contains_iff_mem] using hc
            simp only [hc, Bool.false_eq_true, ↓reduceIte]
            rw [any_congr_mem cs _ _
              (child cs (strat_disj hst (by omega) hn) hnotA (lt_length_of_get hn))]
            rfl

end ProbLogProofs.Cycles
