/-
The evaluator's weight table `ws : List (Nat × (Rat × Rat))` (atom index ↦ (positive, negative) weight) read as a
weight function on literals, and what `setValue` (`SimpleDDNNFEvaluator._set_value`) does to it. Core only.
-/
import ProbLogModel.DDNNFSem
namespace ProbLogProofs.DDNNF
open ProbLogModel.DDNNF ProbLogModel.Formula

/-- weight of the literal `l` (over atom indices) in the table `ws` -/
def litWeight (ws : List (Nat × (Rat × Rat))) (l : Int) : Rat :=
  if l > 0 then (wfun ws l.natAbs).1 else (wfun ws l.natAbs).2

theorem lookup_assocSet {β} (ws : List (Nat × β)) (k i : Nat) (v : β) :
    lookup (assocSet ws k v) i = if i = k then some v else lookup ws i := by
  induction ws with
  | nil =>
    simp only [assocSet, lookup]
    by_cases h : i = k
    · subst h; simp
    · have : ¬ k = i := fun e => h e.symm
      simp [h, this]
  | cons p r ih =>
    obtain ⟨a, b⟩ := p
    by_cases hak : a = k
    · subst hak
      simp only [assocSet, beq_self_eq_true, if_true, lookup]
      by_cases h : i = a
      · subst h; simp
      · have : ¬ a = i := fun e => h e.symm
        simp [h, this]
    · have e : assocSet ((a, b) :: r) k v = (a, b) :: assocSet r k v := by simp [assocSet, hak]
      have l1 : ∀ (t : List (Nat × β)), lookup ((a, b) :: t) i = if a = i then some b else lookup t i := by
        intro t; simp [lookup]
      rw [e, l1, ih, l1]
      by_cases hai : a = i
      · subst hai; simp [hak]
      · simp [hai]

theorem wfun_assocSet (ws : List (Nat × (Rat × Rat))) (k i : Nat) (v : Rat × Rat) :
    wfun (assocSet ws k v) i = if i = k then v else wfun ws i := by
  unfold wfun
  rw [lookup_assocSet]
  by_cases h : i = k <;> simp [h]

/-- `_set_value(|k|, k > 0)` zeroes exactly the weight of the literal `-k` -/
theorem litWeight_setValue (ws : List (Nat × (Rat × Rat))) (k : Int) (hk : k ≠ 0) :
    litWeight (setValue ws k.natAbs (decide (k > 0))) = fun l => if l = -k then 0 else litWeight ws l := by
  funext l
  unfold litWeight setValue
  simp only [wfun_assocSet]
  by_cases hl : l.natAbs = k.natAbs
  · by_cases hk0 : k > 0 <;> by_cases hl0 : l > 0
    · have : l ≠ -k := by omega
      simp [hl, hk0, hl0, this]
    · have : l = -k := by omega
      have hk1 : ¬ k < 0 := by omega
      simp [hk0, this, hk1]
    · have : l = -k := by omega
      have hk1 : ¬ 0 ≤ k := by omega
      simp [hk0, this, hk1]
    · have : l ≠ -k := by omega
      simp [hl, hk0, hl0, this]
  · have : l ≠ -k := by omega
    simp [hl, this]

end ProbLogProofs.DDNNF
