/-
Weight bookkeeping of `loadNnf`: the loaded store's weight of atom `atomOf x` is the CNF's weight of variable `x`
(`RepW`), the AD constraints are the CNF's with members renamed by `atomOf`, and `extractWeights` commutes with
this renaming. Core only.
-/
import ProbLogProofs.Lemmas.DDNNFBridgeMain
import ProbLogProofs.Lemmas.DDNNFWeights
namespace ProbLogProofs.DDNNF
open ProbLogModel.DDNNF ProbLogModel.Formula ProbLogModel.Clark

/-- weight of CNF variable `x` as `_load_nnf` reads it: `weights.get(x, True)` -/
def cnfWeight (cnf : CNF) (x : Nat) : Weight := (lookup cnf.weights x).getD .neutral

/-- the stored weight of the atom of every loaded variable is the CNF's weight of that variable -/
def RepW (cnf : CNF) (S : Store) : Prop :=
  ∀ (x i : Nat), lookup S.idxAtom (.user (x : Int)) = some i → lookup S.weights i = some (cnfWeight cnf x)

theorem RepW_step_lit (cnf : CNF) (ns : List (Label × Name × Key)) (c : Circuit) (ld : Loaded) (seen : List Int)
    (name : Int) (h : Rep c ld) (hw : RepW cnf ld.store) (hn : litNormal cnf name = true) :
    RepW cnf (loadStep cnf ns (ld, seen) (.lit name)).1.store := by
  have hrep' := Rep_step_lit cnf ns c ld seen name h hn
  obtain ⟨S2, heq, _, hidx2, hw2⟩ := loadStep_lit cnf ns ld seen name hn
  rw [heq] at hrep' ⊢
  obtain ⟨i0, _, hlk, hwt, hcase⟩ := addAtom_normal ld.store (.user (name.natAbs : Int))
    ((lookup cnf.weights name.natAbs).getD .neutral)
  intro x i hx
  show lookup S2.weights i = _
  rw [hw2, hwt, lookup_assocSet]
  have hlk2 : lookup S2.idxAtom (.user (name.natAbs : Int)) = some i0 := by rw [hidx2]; exact hlk
  by_cases hi : i = i0
  · subst hi
    have := hrep'.inj _ _ _ hx hlk2
    injection this with this
    have hxe : x = name.natAbs := by omega
    subst hxe
    simp [cnfWeight]
  · rw [if_neg hi]
    apply hw x i
    rcases hcase with ⟨_, _, hidx1⟩ | ⟨_, _, _, hidx1⟩
    · rw [← hidx1, ← hidx2]; exact hx
    · have hx' : lookup (ld.store.idxAtom ++ [(Ident.user (name.natAbs : Int), i0)]) (.user (x : Int)) = some i := by
        rw [← hidx1, ← hidx2]; exact hx
      rcases lookup_snoc _ _ _ _ _ hx' with hold | ⟨_, _, hie⟩
      · exact hold
      · exact absurd hie.symm hi

theorem RepW_fold (cnf : CNF) (ns : List (Label × Name × Key)) (c : Circuit) (hn : litsNormal cnf c = true) :
    Rep c (c.foldl (loadStep cnf ns) (⟨loadInit, []⟩, [])).1 ∧
    RepW cnf (c.foldl (loadStep cnf ns) (⟨loadInit, []⟩, [])).1.store := by
  induction c using snoc_induction with
  | nil => exact ⟨Rep_nil, by intro x i h; simp [loadInit, lookup] at h⟩
  | snoc l nd ih =>
    unfold litsNormal at hn ih
    rw [List.all_append, Bool.and_eq_true] at hn
    obtain ⟨ih1, ih2⟩ := ih hn.1
    rw [List.foldl_append]
    simp only [List.foldl_cons, List.foldl_nil]
    generalize l.foldl (loadStep cnf ns) (⟨loadInit, []⟩, []) = st at ih1 ih2 ⊢
    obtain ⟨ld, seen⟩ := st
    cases nd with
    | lit name =>
      exact ⟨Rep_step_lit cnf ns l ld seen name ih1 (by simpa using hn.2),
        RepW_step_lit cnf ns l ld seen name ih1 ih2 (by simpa using hn.2)⟩
    | and cs =>
      refine ⟨Rep_step_and cnf ns l ld seen cs ih1, ?_⟩
      have : (loadStep cnf ns (ld, seen) (.and cs)).1.store =
          { ld.store with nodes := ld.store.nodes ++ [.conj (cs.map (fun ch => ld.line2node.getD ch none)) none] } := by
        simp [loadStep, Store.addConjNode]
      rw [this]; exact ih2
    | or d cs =>
      refine ⟨Rep_step_or cnf ns l ld seen d cs ih1, ?_⟩
      have : (loadStep cnf ns (ld, seen) (.or d cs)).1.store =
          { ld.store with nodes := ld.store.nodes ++ [.disj (cs.map (fun ch => ld.line2node.getD ch none)) none] } := by
        simp [loadStep, Store.addDisjNode]
      rw [this]; exact ih2

/-- **weights carried over** -/
theorem loadNnf_repW (c : Circuit) (cnf : CNF) (ns : List (Label × Name × Key)) (hn : litsNormal cnf c = true) :
    RepW cnf (loadNnf c cnf ns).store := by
  rw [loadNnf_eq]
  obtain ⟨_, h2, h3, _⟩ := loadFinish_fields cnf ns
    (loadRoot c (c.foldl (loadStep cnf ns) (⟨loadInit, []⟩, [])).1, (c.foldl (loadStep cnf ns) (⟨loadInit, []⟩, [])).2)
  obtain ⟨r1, r2, _⟩ := loadRoot_fields c (c.foldl (loadStep cnf ns) (⟨loadInit, []⟩, [])).1
  intro x i hx
  rw [h2] at hx
  rw [h3]
  simp only at hx ⊢
  rw [r1] at hx
  rw [r2]
  exact (RepW_fold cnf ns c hn).2 x i hx

/-- **constraints carried over**: the loaded AD constraints are the CNF's, members renamed by `atomOf` -/
theorem loadNnf_ads (c : Circuit) (cnf : CNF) (ns : List (Label × Name × Key)) :
    (loadNnf c cnf ns).store.ads = cnf.ads.map (fun a =>
      { a with nodes := a.nodes.map (atomOf (loadNnf c cnf ns).store),
               extra := a.extra.map (atomOf (loadNnf c cnf ns).store) }) := by
  rw [loadNnf_eq]
  generalize loadRoot c (c.foldl (loadStep cnf ns) (⟨loadInit, []⟩, [])).1 = ld
  generalize (c.foldl (loadStep cnf ns) (⟨loadInit, []⟩, [])).2 = seen
  rfl

end ProbLogProofs.DDNNF
