/-
`FormulaEvaluatorNSP` with `SemiringMPEState` on a decomposable NNF computes the max-product (`spec_eval`),
also after the final smoothing of `evaluate` (`spec_evalTop`).
-/
import ProbLogProofs.Lemmas.MPEFolds

namespace ProbLogProofs.MPE
open ProbLogModel.MPE

variable {W : Weights}

theorem spec_eval (hW : NonNeg W) : ∀ φ : NNF, φ.dec = true →
    Spec W (fun m => φ.sat m) (φ.eval plus W) ∧ (φ.eval plus W).used = φ.vars := by
  intro φ
  induction φ using NNF.induct' with
  | htt => intro _; exact ⟨by simpa [NNF.eval, NNF.sat] using (spec_tt (W := W)), by simp [NNF.eval, NNF.vars]⟩
  | hff => intro _; exact ⟨by simpa [NNF.eval, NNF.sat] using (spec_ff (W := W) [] List.nodup_nil), by simp [NNF.eval, NNF.vars]⟩
  | hlit l => intro _; exact ⟨by simpa [NNF.eval, NNF.sat] using (spec_lit hW l), by simp [NNF.eval, NNF.vars]⟩
  | hand cs ih =>
    intro hdec
    simp only [NNF.dec, Bool.and_eq_true, decL_eq_all, List.all_eq_true, varsL_eq_map] at hdec
    have hc : ∀ c ∈ cs, Spec W (fun m => c.sat m) (c.eval plus W) := fun c hc => (ih c hc (hdec.1 c hc)).1
    have hu : cs.map (fun c => (c.eval plus W).used) = cs.map NNF.vars :=
      List.map_congr_left (fun c hc => (ih c hc (hdec.1 c hc)).2)
    have hfold := and_fold hW (fun c => c.eval plus W) (fun c m => c.sat m) cs ⟨one, []⟩ (fun _ => true)
      hc spec_tt (by intro c _ x hx; cases hx) (by rw [hu]; exact hdec.2)
    have he : (NNF.and cs).eval plus W = cs.foldl (fun a c => andStep a (c.eval plus W)) ⟨one, []⟩ := by
      simp only [NNF.eval, evalL_eq_map]; exact andRes_eq _ cs
    refine ⟨?_, ?_⟩
    · rw [he]
      have e : (fun m => (NNF.and cs).sat m) = (fun m => true && cs.all (fun c => c.sat m)) := by
        funext m; simp [NNF.sat, satAll_eq_all]
      rw [e]; exact hfold
    · rw [he, and_used_fold, hu]
      simp [NNF.vars, varsL_eq_map, unionAll]
  | hor cs ih =>
    intro hdec
    simp only [NNF.dec, decL_eq_all, List.all_eq_true] at hdec
    have hc : ∀ c ∈ cs, Spec W (fun m => c.sat m) (c.eval plus W) := fun c hc => (ih c hc (hdec c hc)).1
    have hu : cs.map (fun c => (c.eval plus W).used) = cs.map NNF.vars :=
      List.map_congr_left (fun c hc => (ih c hc (hdec c hc)).2)
    let U := unionAll (cs.map (fun c => (c.eval plus W).used))
    have hUn : U.Nodup := nodup_unionAll _ (by
      intro u hu'
      obtain ⟨c, hc', rfl⟩ := List.mem_map.mp hu'
      exact (hc c hc').nodup)
    have hfold := or_fold hW (fun c => c.eval plus W) (fun c m => c.sat m) U hUn cs zero (fun _ => false) hc
      (by
        intro c hc' x hx
        exact (mem_unionAll _ _).mpr ⟨_, List.mem_map.mpr ⟨c, hc', rfl⟩, hx⟩)
      (spec_ff U hUn)
    have he : (NNF.or cs).eval plus W =
        ⟨cs.foldl (fun p c => plus p (smooth plus W (c.eval plus W).val (notUsed U (c.eval plus W).used))) zero, U⟩ := by
      simp only [NNF.eval, evalL_eq_map]; exact orRes_eq _ cs
    refine ⟨?_, ?_⟩
    · rw [he]
      have e : (fun m => (NNF.or cs).sat m) = (fun m => false || cs.any (fun c => c.sat m)) := by
        funext m; simp [NNF.sat, satAny_eq_any]
      rw [e]; exact hfold
    · rw [he]
      show U = (NNF.or cs).vars
      simp only [U, hu, NNF.vars, varsL_eq_map]

/-- the atoms the final result ranges over: those of the formula, then the remaining atoms with a fact weight -/
def topVars (allAtoms : List Nat) (φ : NNF) : List Nat := unionU φ.vars allAtoms

theorem spec_evalTop (hW : NonNeg W) (φ : NNF) (hdec : φ.dec = true) (allAtoms : List Nat) (hall : allAtoms.Nodup) :
    Spec W (fun m => φ.sat m) ⟨evalTop plus W allAtoms φ, topVars allAtoms φ⟩ := by
  obtain ⟨hs, hu⟩ := spec_eval hW φ hdec
  unfold evalTop topVars
  have := spec_smooth hW hs (notUsed allAtoms (φ.eval plus W).used) (unionU (φ.eval plus W).used allAtoms)
    (nodup_notUsed _ _ hall) (fun v hv => ((mem_notUsed _ _ _).mp hv).2)
    (nodup_unionU _ _ hs.nodup hall)
    (fun v => by
      rw [mem_unionU, mem_notUsed]
      constructor
      · rintro (h | h)
        · exact Or.inl h
        · by_cases h' : v ∈ (φ.eval plus W).used
          · exact Or.inl h'
          · exact Or.inr ⟨h, h'⟩
      · rintro (h | h)
        · exact Or.inl h
        · exact Or.inr h.1)
  show Spec W (fun m => φ.sat m)
    ⟨smooth plus W (φ.eval plus W).val (notUsed allAtoms (φ.eval plus W).used), unionU φ.vars allAtoms⟩
  rw [← hu]
  exact this

end ProbLogProofs.MPE
