import ProbLogModel.Tasks.DT
/-! Helper lemmas for C21 (core Lean only). -/
namespace ProbLogProofs.DT
open ProbLogModel.Tasks.DT

/-! ### `num2bits` enumerates all strategies of length `n` -/

theorem num2bits_length (n i : Nat) : (num2bits i n).length = n := by
  induction n generalizing i with
  | zero => simp [num2bits]
  | succ k ih => simp [num2bits, ih]

theorem num2bits_surj (n : Nat) (t : List Bool) (h : t.length = n) : ∃ i, i < 2 ^ n ∧ num2bits i n = t := by
  induction n generalizing t with
  | zero =>
    have : t = [] := List.eq_nil_of_length_eq_zero h
    exact ⟨0, by simp, by simp [num2bits, this]⟩
  | succ k ih =>
    have hne : t ≠ [] := by intro e; simp [e] at h
    have hsplit := List.dropLast_concat_getLast hne
    have hl : t.dropLast.length = k := by simp [h]
    obtain ⟨i, hi, hb⟩ := ih t.dropLast hl
    generalize t.getLast hne = b at hsplit
    refine ⟨2 * i + (if b then 1 else 0), ?_, ?_⟩
    · have : 2 ^ (k + 1) = 2 * 2 ^ k := by rw [Nat.pow_succ]; omega
      split <;> omega
    · rw [← hsplit]
      simp only [num2bits]
      congr 1
      · have : (2 * i + (if b then 1 else 0)) / 2 = i := by split <;> omega
        rw [this, hb]
      · cases b <;> simp <;> omega

/-- All strategies of length `n`, in the order `search_exhaustive` visits them. -/
def allStrategies (n : Nat) : List (List Bool) := (List.range (2 ^ n)).map (fun i => num2bits i n)

theorem mem_allStrategies (n : Nat) (t : List Bool) (h : t.length = n) : t ∈ allStrategies n := by
  obtain ⟨i, hi, hb⟩ := num2bits_surj n t h
  simp only [allStrategies, List.mem_map, List.mem_range]
  exact ⟨i, hi, hb⟩

theorem allStrategies_length (n : Nat) : (allStrategies n).length = 2 ^ n := by simp [allStrategies]

/-! ### exhaustive search: loop invariant -/

/-- What `search_exhaustive` knows after having visited the indices `seen`. -/
def Good (n : Nat) (adm : List Bool → Bool) (eu : List Bool → Rat) (seen : List Nat) (st : ExState) : Prop :=
  st.evals = (seen.filter (fun i => adm (num2bits i n))).length ∧
  match st.best with
  | none => ∀ i, i ∈ seen → adm (num2bits i n) = false
  | some (s, v) => (∃ i, i ∈ seen ∧ num2bits i n = s) ∧ adm s = true ∧ v = eu s ∧
      ∀ i, i ∈ seen → adm (num2bits i n) = true → eu (num2bits i n) ≤ v

theorem good_step (n adm eu) (seen : List Nat) (st : ExState) (i : Nat) (h : Good n adm eu seen st) :
    Good n adm eu (seen ++ [i]) (exStep n adm eu st i) := by
  obtain ⟨hev, hb⟩ := h
  unfold exStep
  by_cases ha : adm (num2bits i n) = true
  · simp only [ha, Bool.not_true, Bool.false_eq_true, if_false]
    cases hbest : st.best with
    | none =>
      rw [hbest] at hb
      refine ⟨by simp [List.filter_append, ha, hev], ?_⟩
      refine ⟨⟨i, by simp, rfl⟩, ha, rfl, ?_⟩
      intro j hj haj
      rcases List.mem_append.mp hj with hj | hj
      · rw [hb j hj] at haj; cases haj
      · simp at hj; subst hj; exact Rat.le_refl
    | some sv =>
      obtain ⟨s, v⟩ := sv
      rw [hbest] at hb
      obtain ⟨⟨k, hk, hks⟩, hs, hv, hmax⟩ := hb
      by_cases hlt : v < eu (num2bits i n)
      · simp only [hlt, if_true]
        refine ⟨by simp [List.filter_append, ha, hev], ⟨i, by simp, rfl⟩, ha, rfl, ?_⟩
        intro j hj haj
        rcases List.mem_append.mp hj with hj | hj
        · have := hmax j hj haj; grind
        · simp at hj; subst hj; exact Rat.le_refl
      · simp only [hlt, if_false]
        refine ⟨by simp [List.filter_append, ha, hev], ?_⟩
        simp only [hbest]
        refine ⟨⟨k, by simp [hk], hks⟩, hs, hv, ?_⟩
        intro j hj haj
        rcases List.mem_append.mp hj with hj | hj
        · exact hmax j hj haj
        · simp at hj; subst hj; exact Rat.not_lt.mp hlt
  · have ha' : adm (num2bits i n) = false := by simpa using ha
    simp only [ha', Bool.not_false, if_true]
    refine ⟨by simp [List.filter_append, ha', hev], ?_⟩
    cases hbest : st.best with
    | none =>
      rw [hbest] at hb
      intro j hj
      rcases List.mem_append.mp hj with hj | hj
      · exact hb j hj
      · simp at hj; subst hj; exact ha'
    | some sv =>
      obtain ⟨s, v⟩ := sv
      rw [hbest] at hb
      obtain ⟨⟨k, hk, hks⟩, hs, hv, hmax⟩ := hb
      refine ⟨⟨k, by simp [hk], hks⟩, hs, hv, ?_⟩
      intro j hj haj
      rcases List.mem_append.mp hj with hj | hj
      · exact hmax j hj haj
      · simp at hj; subst hj; rw [ha'] at haj; cases haj

theorem good_foldl (n adm eu) (l seen : List Nat) (st : ExState) (h : Good n adm eu seen st) :
    Good n adm eu (seen ++ l) (l.foldl (exStep n adm eu) st) := by
  induction l generalizing seen st with
  | nil => simpa using h
  | cons i l ih =>
    have := ih (seen ++ [i]) _ (good_step n adm eu seen st i h)
    simpa using this

/-! ### local search -/

theorem flip_length (c : List Bool) (d : Nat) : (flipAt c d).length = c.length := by
  induction c generalizing d with
  | nil => simp [flipAt]
  | cons b bs ih => cases d <;> simp [flipAt, ih]

theorem flip_flip (c : List Bool) (d : Nat) : flipAt (flipAt c d) d = c := by
  induction c generalizing d with
  | nil => simp [flipAt]
  | cons b bs ih => cases d <;> simp [flipAt, ih]

/-- Number of strategies strictly worse than `s`: the termination measure. -/
def rank (eu : List Bool → Rat) (n : Nat) (s : List Bool) : Nat :=
  ((allStrategies n).filter (fun t => decide (eu t < eu s))).length

theorem filter_length_lt {α} (l : List α) (p q : α → Bool) (hpq : ∀ x, x ∈ l → p x = true → q x = true)
    (x : α) (hx : x ∈ l) (hq : q x = true) (hp : p x = false) : (l.filter p).length < (l.filter q).length := by
  induction l with
  | nil => cases hx
  | cons a l ih =>
    have hmono : (l.filter p).length ≤ (l.filter q).length := by
      clear ih hx
      induction l with
      | nil => simp
      | cons b l ih2 =>
        have h' : ∀ x, x ∈ a :: l → p x = true → q x = true := by
          intro y hy; apply hpq; simp at hy ⊢; rcases hy with hy | hy <;> simp [hy]
        have := ih2 h'
        have hb := hpq b (by simp)
        simp only [List.filter_cons]
        cases hpb : p b <;> cases hqb : q b <;> simp_all <;> omega
    rcases List.mem_cons.mp hx with hx | hx
    · subst hx
      simp only [List.filter_cons, hq, hp, if_true]
      simp; omega
    · have h' : ∀ x, x ∈ l → p x = true → q x = true := by
        intro y hy; apply hpq; simp [hy]
      have := ih h' hx
      have ha := hpq a (by simp)
      simp only [List.filter_cons]
      cases hpa : p a <;> cases hqa : q a <;> simp_all <;> omega

theorem rank_lt_of_lt (eu n) (s s' : List Bool) (hs : s.length = n) (h : eu s < eu s') :
    rank eu n s < rank eu n s' := by
  unfold rank
  apply filter_length_lt _ _ _ _ s (mem_allStrategies n s hs)
  · simpa using h
  · simp
  · intro x _ hx
    simp at hx ⊢; grind

theorem rank_lt_pow (eu n) (s : List Bool) (hs : s.length = n) : rank eu n s < 2 ^ n := by
  have h1 : rank eu n s < ((allStrategies n).filter (fun _ => true)).length := by
    unfold rank
    apply filter_length_lt _ _ _ _ s (mem_allStrategies n s hs)
    · rfl
    · simp
    · intros; rfl
  have e : (allStrategies n).filter (fun _ => true) = allStrategies n := by simp
  rw [e, allStrategies_length] at h1
  exact h1

/-- Which single flips are known not to improve the current strategy when the `for` loop is at position `j`. -/
def Tried (eu : List Bool → Rat) (n : Nat) (st : LState) (j : Nat) : Prop :=
  match st.last with
  | none => ∀ d, d < j → eu (flipAt st.choices d) ≤ eu st.choices
  | some k => k < n ∧ eu (flipAt st.choices k) ≤ eu st.choices ∧
      ∀ d, d < n → ((k < d ∧ d < j) ∨ (j ≤ k ∧ (k < d ∨ d < j))) → eu (flipAt st.choices d) ≤ eu st.choices

/-- Well-formed search state. -/
def WF (eu : List Bool → Rat) (n : Nat) (st : LState) : Prop :=
  st.choices.length = n ∧ st.best = eu st.choices

def LocalOpt (eu : List Bool → Rat) (n : Nat) (c : List Bool) : Prop :=
  ∀ d, d < n → eu (flipAt c d) ≤ eu c

theorem pass_spec (eu : List Bool → Rat) (n : Nat) (cnt j : Nat) (st : LState)
    (hn : j + cnt = n) (hwf : WF eu n st) (ht : Tried eu n st j) :
    let r := pass eu cnt j st
    WF eu n r.1 ∧ st.best ≤ r.1.best ∧
    (r.2 = true → LocalOpt eu n r.1.choices) ∧
    (r.2 = false → Tried eu n r.1 n) ∧
    (r.2 = false → ∀ k, st.last = some k → j ≤ k → k < n → st.best < r.1.best) ∧
    (r.2 = false → st.last = none → r.1.last ≠ none → st.best < r.1.best) := by
  induction cnt generalizing j st with
  | zero =>
    simp only [pass]
    have hj : j = n := by omega
    subst hj
    refine ⟨hwf, Rat.le_refl, by simp, fun _ => ht, ?_, ?_⟩
    · intro _ k _ h1 h2; omega
    · intro _ h1 h2; exact absurd h1 h2
  | succ cnt ih =>
    obtain ⟨hlen, hbest⟩ := hwf
    simp only [pass]
    by_cases hlast : st.last = some j
    · -- break
      simp only [hlast, if_true]
      refine ⟨⟨hlen, hbest⟩, Rat.le_refl, ?_, by simp, by simp, by simp⟩
      intro _ d hd
      unfold Tried at ht
      rw [hlast] at ht
      obtain ⟨hk, hself, hall⟩ := ht
      by_cases hdj : d = j
      · subst hdj; exact hself
      · apply hall d hd
        right; constructor
        · omega
        · omega
    · simp only [hlast, if_false]
      by_cases hle : eu (flipAt st.choices j) ≤ st.best
      · -- not better: undo
        simp only [hle, if_true]
        have hwf' : WF eu n { st with evals := st.evals + 1 } := ⟨hlen, hbest⟩
        have ht' : Tried eu n { st with evals := st.evals + 1 } (j + 1) := by
          unfold Tried at ht ⊢
          cases hl : st.last with
          | none =>
            rw [hl] at ht
            simp only [hl]
            intro d hd
            by_cases hdj : d = j
            · subst hdj; rw [← hbest]; exact hle
            · exact ht d (by omega)
          | some k =>
            rw [hl] at ht
            simp only [hl]
            obtain ⟨hk, hself, hall⟩ := ht
            refine ⟨hk, hself, ?_⟩
            intro d hd hcase
            by_cases hdj : d = j
            · subst hdj; rw [← hbest]; exact hle
            · apply hall d hd
              have hkj : k ≠ j := by intro e; rw [e] at hl; exact hlast hl
              omega
        have := ih (j + 1) { st with evals := st.evals + 1 } (by omega) hwf' ht'
        obtain ⟨h1, h2, h3, h4, h5, h6⟩ := this
        refine ⟨h1, h2, h3, h4, ?_, h6⟩
        intro hb k hk hjk hkn
        have hkj : k ≠ j := by intro e; rw [e] at hk; exact hlast hk
        exact h5 hb k hk (by omega) hkn
      · -- better: keep the flipAt
        simp only [hle, if_false]
        have hlt : st.best < eu (flipAt st.choices j) := Rat.not_le.mp hle
        have hjn : j < n := by omega
        have hwf' : WF eu n { choices := flipAt st.choices j, best := eu (flipAt st.choices j), last := some j,
                              evals := st.evals + 1 } := ⟨by simp [flip_length, hlen], rfl⟩
        have ht' : Tried eu n { choices := flipAt st.choices j, best := eu (flipAt st.choices j), last := some j,
                                evals := st.evals + 1 } (j + 1) := by
          unfold Tried
          simp only
          refine ⟨hjn, ?_, ?_⟩
          · rw [flip_flip, ← hbest]; exact Rat.le_of_lt hlt
          · intro d hd hcase; omega
        have := ih (j + 1) _ (by omega) hwf' ht'
        obtain ⟨h1, h2, h3, h4, h5, h6⟩ := this
        simp only at h2
        refine ⟨h1, by grind, h3, h4, ?_, ?_⟩
        · intro _ k _ _ _; grind
        · intro _ _ _; grind

theorem tried_restart (eu n) (st : LState) (h : Tried eu n st n) (hl : st.last ≠ none) : Tried eu n st 0 := by
  unfold Tried at h ⊢
  cases hlast : st.last with
  | none => exact absurd hlast hl
  | some k =>
    rw [hlast] at h
    simp only
    obtain ⟨hk, hself, hall⟩ := h
    refine ⟨hk, hself, ?_⟩
    intro d hd hcase
    apply hall d hd
    omega

theorem localLoop_spec (eu : List Bool → Rat) (n fuel : Nat) (st : LState)
    (hwf : WF eu n st) (ht : Tried eu n st 0) (hfuel : 2 ^ n ≤ fuel + rank eu n st.choices) :
    ∃ st', localLoop eu n fuel st = some st' ∧ WF eu n st' ∧ LocalOpt eu n st'.choices ∧ st.best ≤ st'.best := by
  induction fuel generalizing st with
  | zero =>
    have := rank_lt_pow eu n st.choices hwf.1
    omega
  | succ fuel ih =>
    have hp := pass_spec eu n n 0 st (by omega) hwf ht
    simp only at hp
    obtain ⟨h1, h2, h3, h4, h5, h6⟩ := hp
    simp only [localLoop]
    cases hb : (pass eu n 0 st).2 with
    | true =>
      simp only [if_true]
      exact ⟨_, rfl, h1, h3 hb, h2⟩
    | false =>
      simp only [Bool.false_eq_true, if_false]
      cases hl : (pass eu n 0 st).1.last with
      | none =>
        simp only [Option.isNone_none, if_true]
        refine ⟨_, rfl, h1, ?_, h2⟩
        have := h4 hb
        unfold Tried at this
        rw [hl] at this
        exact this
      | some k' =>
        simp only [Option.isNone_some, Bool.false_eq_true, if_false]
        have hne : (pass eu n 0 st).1.last ≠ none := by rw [hl]; simp
        have hstrict : st.best < (pass eu n 0 st).1.best := by
          cases hl0 : st.last with
          | none => exact h6 hb hl0 hne
          | some k =>
            have hk : k < n := by
              unfold Tried at ht; rw [hl0] at ht; exact ht.1
            exact h5 hb k hl0 (by omega) hk
        have hrank : rank eu n st.choices < rank eu n (pass eu n 0 st).1.choices := by
          apply rank_lt_of_lt eu n _ _ hwf.1
          rw [← hwf.2, ← h1.2]; exact hstrict
        obtain ⟨st', e, w, lo, le⟩ := ih (pass eu n 0 st).1 h1 (tried_restart eu n _ (h4 hb) hne) (by omega)
        exact ⟨st', e, w, lo, by grind⟩

end ProbLogProofs.DT
