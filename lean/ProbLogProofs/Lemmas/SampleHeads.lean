import ProbLogModel.Tasks.Sample
import ProbLogProofs.Lemmas.Sample
/-! C22: the state machine `add_atom` on one annotated disjunction = the threshold function `firstHit`. -/
namespace ProbLogProofs.Sample
open ProbLogModel.Tasks.Sample

theorem lookupGroup_setGroup (g : List (Nat × Option Rat)) (o : Nat) (v : Option Rat) :
    ((setGroup g o v).find? (fun e => e.1 == o)).map (·.2) = some v := by
  induction g with
  | nil => simp [setGroup]
  | cons e g ih =>
    by_cases h : (e.1 == o) = true
    · simp [setGroup, h]
    · have h' : (e.1 == o) = false := by simpa using h
      simp only [setGroup, h', Bool.false_eq_true, if_false, List.find?_cons]
      exact ih

theorem find_append_other (l : List (Ident × Bool)) (i i' : Ident) (v : Bool) (hne : i' ≠ i)
    (h : (l.find? (fun e => e.1 == i)).map (·.2) = none) :
    ((l ++ [(i', v)]).find? (fun e => e.1 == i)).map (·.2) = none := by
  induction l with
  | nil =>
    have : (i' == i) = false := by simpa using hne
    simp [List.find?_cons, this]
  | cons e l ih =>
    by_cases he : (e.1 == i) = true
    · simp [List.find?_cons, he] at h
    · have he' : (e.1 == i) = false := by simpa using he
      simp only [List.cons_append, List.find?_cons, he'] at h ⊢
      exact ih h

/-- the factor by which `self.probability · (remaining mass of the group)` changes -/
def hitFactor : List Rat → Rat → List Rat → Rat
  | [], r, _ => r
  | _ :: _, r, [] => r
  | p :: ps, r, u :: us => if u ≤ p / r then p else hitFactor ps (r - p) us

/-- remaining-mass factor `compute_probability` will multiply in for group `o` -/
def groupFactor (s : SState) (o : Nat) : Rat :=
  match lookupGroup s o with
  | some (some g) => g
  | _ => 1

def FreshFrom (s : SState) (o i : Nat) : Prop := ∀ j, i ≤ j → lookupFact s (.choice o j) = none

theorem fresh_after (s : SState) (o i : Nat) (p : Rat) (r : Option Rat) (v : Bool) (hf : FreshFrom s o i) :
    FreshFrom (afterChoice s o i p r v) o (i + 1) := by
  intro j hj
  exact find_append_other s.facts _ _ _ (by intro e; injection e with _ e; omega) (hf j (by omega))

theorem sampleHeads_closed (o : Nat) (ps : List Rat) : ∀ (i : Nat) (s : SState) (us : List Rat),
    lookupGroup s o = some none → FreshFrom s o i →
    ∃ s', sampleHeads o ps i s us = some (none, s', us) ∧ s'.prob = s.prob ∧ lookupGroup s' o = some none := by
  induction ps with
  | nil => intro i s us hg _; exact ⟨s, rfl, rfl, hg⟩
  | cons p ps ih =>
    intro i s us hg hf
    have hfi := hf i (Nat.le_refl i)
    have hrem : remaining s o = none := by simp [remaining, hg]
    have hadd : addChoice s o i p us = .ok false (afterChoice s o i p none false) us := by
      simp [addChoice, hfi, hrem, drawChoice]
    have hg' : lookupGroup (afterChoice s o i p none false) o = some none := hg
    obtain ⟨s', h1, h2, h3⟩ := ih (i + 1) _ us hg' (fresh_after s o i p none false hf)
    refine ⟨s', ?_, ?_, h3⟩
    · simp only [sampleHeads, hadd, h1]
      rfl
    · rw [h2]; rfl

/-- group `o` is open in `s` with remaining mass `r` -/
def OpenWith (s : SState) (o : Nat) (r : Rat) : Prop :=
  lookupGroup s o = some (some r) ∨ (lookupGroup s o = none ∧ r = 1)

theorem groupFactor_open (s : SState) (o : Nat) (r : Rat) (h : OpenWith s o r) : groupFactor s o = r := by
  rcases h with h | ⟨h, rfl⟩ <;> simp [groupFactor, h]

theorem sampleHeads_open (o : Nat) (ps : List Rat) : ∀ (i : Nat) (s : SState) (us : List Rat) (r : Rat),
    OpenWith s o r → FreshFrom s o i → GuardOK ps r → ps.length ≤ us.length →
    ∃ s' us', sampleHeads o ps i s us = some (firstHit ps r us i, s', us') ∧
      s'.prob * groupFactor s' o = s.prob * hitFactor ps r us := by
  induction ps with
  | nil =>
    intro i s us r ho _ _ _
    exact ⟨s, us, by simp [sampleHeads, firstHit], by rw [groupFactor_open s o r ho]; simp [hitFactor]⟩
  | cons p ps ih =>
    intro i s us r ho hf hg hlen
    cases us with
    | nil => simp at hlen
    | cons u us =>
      have hfi := hf i (Nat.le_refl i)
      have hrg : ¬ (r < guard) := by have := hg.1; grind
      have hrem : remaining s o = some r := by
        rcases ho with h | ⟨h, rfl⟩ <;> simp [remaining, h]
      by_cases hu : u ≤ p / r
      · -- hit
        have hadd : addChoice s o i p (u :: us) = .ok true (afterChoice s o i p (some r) true) us := by
          simp [addChoice, hfi, hrem, drawChoice, hrg, hu]
        have hg' : lookupGroup (afterChoice s o i p (some r) true) o = some none :=
          lookupGroup_setGroup s.groups o none
        obtain ⟨s', h1, h2, h3⟩ := sampleHeads_closed o ps (i + 1) _ us hg' (fresh_after s o i p (some r) true hf)
        refine ⟨s', us, ?_, ?_⟩
        · simp only [sampleHeads, hadd, h1, firstHit, hu, if_true]
        · simp only [hitFactor, hu, if_true, groupFactor, h3, h2]
          simp [afterChoice]
      · -- miss
        have hadd : addChoice s o i p (u :: us) = .ok false (afterChoice s o i p (some r) false) us := by
          simp [addChoice, hfi, hrem, drawChoice, hrg, hu]
        have ho' : OpenWith (afterChoice s o i p (some r) false) o (r - p) :=
          Or.inl (lookupGroup_setGroup s.groups o (some (r - p)))
        obtain ⟨s', us', h1, h2⟩ := ih (i + 1) _ us (r - p) ho' (fresh_after s o i p (some r) false hf) hg.2
          (by simpa using hlen)
        refine ⟨s', us', ?_, ?_⟩
        · simp only [sampleHeads, hadd, h1, firstHit, hu, if_false]
          simp
        · simp only [hitFactor, hu, if_false]
          rw [h2]; rfl

theorem hitFactor_box (ps : List Rat) (r : Rat) (us : List Rat) (i : Nat) (h : InBox ps r us i) :
    ∃ (hi : i < ps.length), hitFactor ps r us = ps[i] := by
  induction ps generalizing r us i with
  | nil => cases us <;> cases i <;> simp [InBox] at h
  | cons p ps ih =>
    cases us with
    | nil => cases i <;> simp [InBox] at h
    | cons u us =>
      cases i with
      | zero =>
        simp only [InBox] at h
        exact ⟨by simp, by simp [hitFactor, h]⟩
      | succ i =>
        simp only [InBox] at h
        obtain ⟨hi, he⟩ := ih (r - p) us i h.2
        exact ⟨by simpa using hi, by simp [hitFactor, h.1, he]⟩

theorem hitFactor_none (ps : List Rat) (r : Rat) (us : List Rat) (h : InNoneBox ps r us) :
    hitFactor ps r us = r - total ps := by
  induction ps generalizing r us with
  | nil => simp [hitFactor, total]; grind
  | cons p ps ih =>
    cases us with
    | nil => simp [InNoneBox] at h
    | cons u us =>
      simp only [InNoneBox] at h
      simp only [hitFactor, h.1, if_false, total]
      rw [ih (r - p) us h.2]; grind

end ProbLogProofs.Sample
