import ProbLogProofs.Lemmas.GroundFOBridge
import ProbLogProofs.Lemmas.GroundEval
/-!
# First-order grounder model: fuel sufficiency (core Lean only)

If the predicates have a rank that decreases along clause bodies (`PRank`: the program is not recursive at the level
of predicates), `evalGoal` with fuel above the rank of the called predicate never runs out of fuel - for every
schedule, state and call.  One pass over the continuation-passing functions; no invariant of the state is needed.
-/
namespace ProbLogProofs.GroundFOSem
open ProbLogModel ProbLogModel.Formula ProbLogModel.GroundFO

/-- the rank of the predicates decreases along clause bodies -/
def PRank (P : Prog) (prk : Pred → Nat) : Prop :=
  ∀ p head n body ch, Clause.rule head n body ch ∈ P.clausesOf p → ∀ l ∈ body, ∀ b, litAtom l = some b →
    prk b.pred < prk p

/-- the computation does not run out of fuel -/
def NF {α : Type} (r : Except GroundFO.Err α) : Prop := r ≠ .error .fuel

theorem NF_ok {α : Type} (a : α) : NF (Except.ok a : Except GroundFO.Err α) := fun h => by cases h
theorem NF_pure {α : Type} (a : α) : NF (pure a : Except GroundFO.Err α) := fun h => by cases h
theorem NF_err {α : Type} {e : GroundFO.Err} (he : e ≠ .fuel) : NF (Except.error e : Except GroundFO.Err α) := fun h => by
  cases h; exact he rfl

theorem NF_bind {α β : Type} (x : Except GroundFO.Err α) (f : α → Except GroundFO.Err β) (hx : NF x) (hf : ∀ a, x = .ok a → NF (f a)) :
    NF (x >>= f) := by
  cases x with
  | error e => exact fun h => hx (by simpa [bind, Except.bind] using h)
  | ok a => exact hf a rfl

theorem NF_liftF {α : Type} (r : Except Formula.Err α) : NF (liftF r) := by
  cases r with
  | ok a => exact NF_ok a
  | error e => exact NF_err (e := .builder e) (fun h => by cases h)

def itemAtom : Item → Option Atom
  | .lit l => litAtom l
  | .choice _ => none

section
variable {α : Type}

theorem feed_NF (sink : Sink α) (args : List Val) (ctx : Ctx) (hsink : ∀ ctx' k w, NF (sink ctx' k w)) :
    ∀ (rs : Results) (w : α × St), NF (feed sink args ctx rs w)
  | [], w => by simp only [feed]; exact NF_pure w
  | (ans, k) :: r, w => by
    simp only [feed]
    split
    · exact feed_NF sink args ctx hsink r w
    · split
      · exact feed_NF sink args ctx hsink r w
      · exact NF_bind _ _ (hsink _ _ _) (fun w' _ => feed_NF sink args ctx hsink r w')

theorem evalItem_NF (P : Prog) (ev : Eval) (sink : Sink α) (it : Item)
    (hev : ∀ b, itemAtom it = some b → ∀ args st, NF (ev ⟨b.pred, args⟩ st))
    (hsink : ∀ ctx' k w, NF (sink ctx' k w)) (ctx : Ctx) (w : α × St) : NF (evalItem P ev sink it ctx w) := by
  obtain ⟨acc, st⟩ := w
  cases it with
  | lit l =>
    cases l with
    | pos a =>
      simp only [evalItem]
      refine NF_bind _ _ (hev a rfl _ _) (fun r _ => ?_)
      obtain ⟨rs, st1⟩ := r
      exact feed_NF sink _ ctx hsink rs _
    | neg a =>
      simp only [evalItem]
      split
      · exact NF_err (fun h => by cases h)
      · refine NF_bind _ _ (hev a rfl _ _) (fun r _ => ?_)
        obtain ⟨rs, st1⟩ := r
        simp only
        split
        · exact hsink _ _ _
        · refine NF_bind _ _ (NF_liftF _) (fun r2 _ => ?_)
          obtain ⟨S2, k'⟩ := r2
          simp only
          split
          · exact NF_pure _
          · exact hsink _ _ _
    | tt => simp only [evalItem]; exact hsink _ _ _
  | choice c =>
    simp only [evalItem]
    split
    · exact NF_err (fun h => by cases h)
    · split
      · exact NF_pure _
      · exact hsink _ _ _

theorem evalItems_NF (P : Prog) (ev : Eval) : ∀ (its : List Item) (sink : Sink α),
    (∀ it ∈ its, ∀ b, itemAtom it = some b → ∀ args st, NF (ev ⟨b.pred, args⟩ st)) →
    (∀ ctx' k w, NF (sink ctx' k w)) → ∀ (ctx : Ctx) (w : α × St), NF (evalItems P ev its sink ctx w)
  | [], _, _, _, ctx, w => by simp only [evalItems]; exact NF_err (fun h => by cases h)
  | [i], sink, hev, hsink, ctx, w => by
    simp only [evalItems]
    exact evalItem_NF P ev sink i (hev i List.mem_cons_self) hsink ctx w
  | i :: j :: rest, sink, hev, hsink, ctx, w => by
    simp only [evalItems]
    refine evalItem_NF P ev _ i (hev i List.mem_cons_self) (fun ctx1 k1 w1 => ?_) ctx w
    split
    · exact NF_pure _
    · refine evalItems_NF P ev (j :: rest) _ (fun it hit => hev it (List.mem_cons_of_mem _ hit)) (fun ctx2 k2 w2 => ?_) ctx1 w1
      obtain ⟨acc2, st2⟩ := w2
      refine NF_bind _ _ (NF_liftF _) (fun r _ => ?_)
      obtain ⟨S3, k⟩ := r
      exact hsink _ _ _

end

theorem itemAtom_items {body : List Lit} {ch : Option Choice} {it : Item} {b : Atom} (hit : it ∈ items body ch)
    (hb : itemAtom it = some b) : ∃ l ∈ body, litAtom l = some b := by
  have : it ∈ body.map Item.lit ∨ ∃ c, it = Item.choice c := by
    cases ch with
    | none => exact Or.inl hit
    | some c =>
      rcases List.mem_append.1 hit with h | h
      · exact Or.inl h
      · exact Or.inr ⟨c, by simpa using h⟩
  rcases this with h | ⟨c, rfl⟩
  · obtain ⟨l, hl, rfl⟩ := List.mem_map.1 h
    exact ⟨l, hl, hb⟩
  · cases hb

variable {P : Prog} {prk : Pred → Nat}

theorem evalClause_NF (hp : PRank P prk) (ev : Eval) (g : Goal)
    (hev : ∀ p args st, prk p < prk g.pred → NF (ev ⟨p, args⟩ st)) (c : Clause) (hc : c ∈ P.clausesOf g.pred)
    (w : Buf × St) : NF (evalClause P ev g c w) := by
  obtain ⟨buf, st⟩ := w
  cases c with
  | fact args ident prob =>
    simp only [evalClause]
    split
    · exact NF_pure _
    · exact NF_pure _
  | rule head n body ch =>
    simp only [evalClause]
    split
    · exact NF_pure _
    · refine evalItems_NF P ev _ _ (fun it hit b hb args st' => ?_) (fun ctx' k w1 => ?_) _ _
      · obtain ⟨l, hl, hlb⟩ := itemAtom_items hit hb
        exact hev _ _ _ (hp g.pred head n body ch hc l hl b hlb)
      · obtain ⟨buf1, st1⟩ := w1
        simp only
        split
        · exact NF_err (fun h => by cases h)
        · exact NF_pure _

theorem evalClauses_NF (hp : PRank P prk) (ev : Eval) (g : Goal)
    (hev : ∀ p args st, prk p < prk g.pred → NF (ev ⟨p, args⟩ st)) :
    ∀ (cs : List Clause), (∀ c ∈ cs, c ∈ P.clausesOf g.pred) → ∀ (w : Buf × St), NF (evalClauses P ev g cs w)
  | [], _, w => by simp only [evalClauses]; exact NF_pure w
  | c :: cs, hc, w => by
    simp only [evalClauses]
    exact NF_bind _ _ (evalClause_NF hp ev g hev c (hc c List.mem_cons_self) w)
      (fun w1 _ => evalClauses_NF hp ev g hev cs (fun c' hc' => hc c' (List.mem_cons_of_mem _ hc')) w1)

theorem flush_NF : ∀ (buf : Buf) (S : Store), NF (flush buf S)
  | [], S => by simp only [flush]; exact NF_pure _
  | (ans, nodes) :: r, S => by
    simp only [flush]
    refine NF_bind _ _ (NF_liftF _) (fun r1 _ => ?_)
    obtain ⟨S1, k⟩ := r1
    refine NF_bind _ _ (flush_NF r S1) (fun r2 _ => ?_)
    obtain ⟨rs, S2⟩ := r2
    exact NF_pure _

theorem evalFresh_NF (hp : PRank P prk) (sched : Sched) (ev : Eval) (g : Goal)
    (hev : ∀ p args st, prk p < prk g.pred → NF (ev ⟨p, args⟩ st)) (st : St) (gc : Option (List Const)) :
    NF (evalFresh P sched ev g st gc) := by
  unfold evalFresh
  simp only
  split
  · exact NF_pure _
  · refine NF_bind _ _ (evalClauses_NF hp ev g hev _
      (fun c hcm => (List.mem_filter.1 ((GroundEval.mem_permute _ _ c).1 hcm)).1) _) (fun w1 _ => ?_)
    obtain ⟨buf, st1⟩ := w1
    refine NF_bind _ _ (flush_NF _ _) (fun r2 _ => ?_)
    obtain ⟨rs, S2⟩ := r2
    exact NF_pure _

theorem evalGoalWith_NF (hp : PRank P prk) (sched : Sched) (ev : Eval) (g : Goal)
    (hev : ∀ p args st, prk p < prk g.pred → NF (ev ⟨p, args⟩ st)) (st : St) : NF (evalGoalWith P sched ev g st) := by
  unfold evalGoalWith
  split
  · split
    · exact NF_pure _
    · exact evalFresh_NF hp sched ev g hev st _
  · split
    · exact NF_pure _
    · exact evalFresh_NF hp sched ev g hev st _

/-- **fuel sufficiency**: with more fuel than the rank of the called predicate the evaluation never runs out of fuel -/
theorem evalGoal_NF (hp : PRank P prk) (sched : Sched) : ∀ (fuel : Nat) (g : Goal) (st : St), prk g.pred < fuel →
    NF (evalGoal P sched fuel g st)
  | 0, _, _, h => by omega
  | fuel + 1, g, st, h => by
    simp only [evalGoal]
    exact evalGoalWith_NF hp sched _ g (fun p args st' hlt => evalGoal_NF hp sched fuel ⟨p, args⟩ st' (by
      show prk p < fuel; omega)) st

theorem groundOne_NF (hp : PRank P prk) (sched : Sched) (fuel : Nat) (st : St) (c : Call) (hc : prk c.pred < fuel) :
    NF (groundOne P sched fuel st c) := by
  simp only [groundOne]
  refine NF_bind _ _ (evalGoal_NF hp sched fuel ⟨c.pred, c.args⟩ st hc) (fun r _ => ?_)
  obtain ⟨rs, st1⟩ := r
  simp only
  split
  · exact NF_pure _
  · exact NF_pure _

theorem groundAll_NF (hp : PRank P prk) (sched : Sched) (fuel : Nat) : ∀ (calls : List Call) (st : St),
    (∀ c ∈ calls, prk c.pred < fuel) → NF (groundAll P sched fuel calls st)
  | [], st, _ => by simp only [groundAll]; exact NF_pure _
  | c :: cs, st, hc => by
    simp only [groundAll]
    refine NF_bind _ _ (groundOne_NF hp sched fuel st c (hc c List.mem_cons_self)) (fun r1 _ => ?_)
    obtain ⟨r, st1⟩ := r1
    refine NF_bind _ _ (groundAll_NF hp sched fuel cs st1 (fun c' hc' => hc c' (List.mem_cons_of_mem _ hc'))) (fun r2 _ => ?_)
    obtain ⟨rs, st2⟩ := r2
    exact NF_pure _

end ProbLogProofs.GroundFOSem
