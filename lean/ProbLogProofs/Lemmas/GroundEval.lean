import ProbLogProofs.Lemmas.GroundInv
/-!
# Ground acyclic programs: invariants of the grounding-engine model (2) — the evaluation functions

Total-correctness specifications (`∃` result, invariant kept, store grows, result denotes the right truth value) of
`evalItem`, `evalItems`, `evalClause`, `evalClauses`, `evalGoalWith`, `evalGoal`, `groundOne`, `groundAll`,
relative to a solution `M` of the completion equation (`IsModel`).
-/
namespace ProbLogProofs.GroundEval
open ProbLogModel ProbLogModel.Formula ProbLogModel.GroundAcyclic ProbLogProofs.GroundSem ProbLogProofs.GroundInv
open ProbLogProofs.GroundNames
open ProbLogModel.Sem (getB)

def itemTrue (chosen : Array Bool) (M : Atom → Bool) : Item → Bool
  | .lit l => litTrue M l
  | .choice c => getB chosen c.ident

def itemAtoms : Item → List Atom
  | .lit l => l.atom?.toList
  | .choice _ => []

/-- what a sub-goal evaluator must do on goal `a` -/
def GoalSpec (chosen : Array Bool) (M : Atom → Bool) (ev : Eval) (a : Atom) : Prop :=
  ∀ st, Inv chosen M st → ∃ k st', ev a st = .ok (k, st') ∧ Inv chosen M st' ∧ Ext st st' ∧
    Den chosen st'.store k (M a)

theorem keyVal_none (ρ : Nat → Bool) : keyVal ρ none = false := rfl
theorem keyVal_true (ρ : Nat → Bool) : keyVal ρ TRUE = true := rfl

theorem isFalse_iff (k : Key) : Formula.isFalse k = true ↔ k = none := by
  cases k <;> simp [Formula.isFalse]

theorem negate_keyVal (ρ : Nat → Bool) (k : Key) : keyVal ρ (negate k) = !(keyVal ρ k) := by
  rcases k with _ | k
  · rfl
  · by_cases h0 : k = 0
    · subst h0; rfl
    · have hn : negate (some k) = some (-k) := by unfold negate; split <;> simp_all
      rw [hn, keyVal_neg ρ k h0]

/-! ### one conjunct -/

theorem evalItem_spec {chosen : Array Bool} {M : Atom → Bool} {ev : Eval} (i : Item)
    (hev : ∀ b ∈ itemAtoms i, GoalSpec chosen M ev b) (st : St) (hinv : Inv chosen M st) :
    ∃ r st', evalItem ev i st = .ok (r, st') ∧ Inv chosen M st' ∧ Ext st st' ∧
      ODen chosen st'.store r (itemTrue chosen M i) := by
  cases i with
  | choice c =>
    have h := addAtom_step hinv.s chosen c.ident (.prob c.prob) (some c.group) (some (.pos c.name))
    have he : evalItem ev (.choice c) st = .ok
        (if Formula.isFalse (st.store.addAtom (.user c.ident) .normal (.prob c.prob) (some c.group)
            (some (.pos c.name))).2 then none
         else some (st.store.addAtom (.user c.ident) .normal (.prob c.prob) (some c.group) (some (.pos c.name))).2,
         { st with store := (st.store.addAtom (.user c.ident) .normal (.prob c.prob) (some c.group)
            (some (.pos c.name))).1 }) := rfl
    generalize st.store.addAtom (.user c.ident) .normal (.prob c.prob) (some c.group) (some (.pos c.name)) = R
      at h he
    obtain ⟨hs, hg, hn, hf, hd⟩ := h
    obtain ⟨hi', hx'⟩ := hinv.store_step hs hg hn
    rw [hf] at he
    exact ⟨_, _, he, hi', hx', fun k hk => (by cases hk; exact hd.1), fun ρ hρ => hd.2 ρ hρ⟩
  | lit l =>
    cases l with
    | tt =>
      exact ⟨some TRUE, st, rfl, hinv, Ext.refl st, fun k hk => by cases hk; exact Nat.zero_le _, fun ρ _ => rfl⟩
    | pos a =>
      obtain ⟨k, st', he, hi', hx', hd⟩ := hev a (by simp [itemAtoms, Lit.atom?]) st hinv
      refine ⟨if Formula.isFalse k then none else some k, st', ?_, hi', hx', ODen.of_den hd⟩
      simp only [evalItem, he, bind, Except.bind, pure, Except.pure]
    | neg a =>
      obtain ⟨k, st1, he, hi1, hx1, hd⟩ := hev a (by simp [itemAtoms, Lit.atom?]) st hinv
      by_cases hk : Formula.isFalse k = true
      · refine ⟨some TRUE, st1, ?_, hi1, hx1, fun k' hk' => by cases hk'; exact Nat.zero_le _, fun ρ hρ => ?_⟩
        · simp only [evalItem, he, bind, Except.bind, pure, Except.pure, hk, if_true]
        · have hkn := (isFalse_iff k).1 hk
          subst hkn
          have := hd.2 ρ hρ
          rw [keyVal_none] at this
          show true = !M a
          rw [← this]; rfl
      · obtain ⟨S2, k', ho, hs2, hg2, hn2, hb2, hsem⟩ := addOr_step hi1.s [k] (by simp)
          (fun c hc => by rw [List.mem_singleton.1 hc]; exact hd.1)
        obtain ⟨hi2, hx2⟩ := hi1.store_step hs2 hg2 hn2
        refine ⟨if Formula.isFalse (negate k') then none else some (negate k'), { st1 with store := S2 }, ?_, hi2,
          hx1.trans hx2, ODen.of_den ⟨keyBelow_negate _ _ hb2, fun ρ hρ => ?_⟩⟩
        · simp only [evalItem, he, bind, Except.bind, pure, Except.pure, hk, ho, liftB]
          rfl
        · rw [negate_keyVal, hsem ρ hρ.1]
          have := hd.2 ρ (hρ.of_grows hg2)
          simp only [List.any_cons, List.any_nil, Bool.or_false, this]
          rfl

/-! ### a right-nested conjunction -/

theorem evalItems_spec {chosen : Array Bool} {M : Atom → Bool} {ev : Eval} :
    ∀ (is : List Item), is ≠ [] → (∀ i ∈ is, ∀ b ∈ itemAtoms i, GoalSpec chosen M ev b) →
      ∀ st, Inv chosen M st →
        ∃ r st', evalItems ev is st = .ok (r, st') ∧ Inv chosen M st' ∧ Ext st st' ∧
          ODen chosen st'.store r (is.all (itemTrue chosen M))
  | [], h, _, _, _ => absurd rfl h
  | [i], _, hev, st, hinv => by
    obtain ⟨r, st', he, hi, hx, hd⟩ := evalItem_spec i (hev i (List.mem_singleton_self i)) st hinv
    refine ⟨r, st', ?_, hi, hx, ?_⟩
    · rw [← he]; rfl
    · simpa using hd
  | i :: j :: rest, _, hev, st, hinv => by
    obtain ⟨r1, st1, he1, hi1, hx1, hd1⟩ := evalItem_spec i (hev i List.mem_cons_self) st hinv
    have hall : (i :: j :: rest).all (itemTrue chosen M) =
        (itemTrue chosen M i && (j :: rest).all (itemTrue chosen M)) := rfl
    rw [hall]
    cases r1 with
    | none =>
      refine ⟨none, st1, ?_, hi1, hx1, fun k hk => (by cases hk), fun ρ hρ => ?_⟩
      · simp only [evalItems, he1, bind, Except.bind, pure, Except.pure]
      · have := hd1.2 ρ hρ
        rw [← this]; rfl
    | some k1 =>
      by_cases hk1 : Formula.isFalse k1 = true
      · refine ⟨none, st1, ?_, hi1, hx1, fun k hk => (by cases hk), fun ρ hρ => ?_⟩
        · simp only [evalItems, he1, bind, Except.bind, pure, Except.pure, hk1, if_true]
        · have := hd1.2 ρ hρ
          rw [(isFalse_iff k1).1 hk1] at this
          rw [← this]; rfl
      · obtain ⟨r2, st2, he2, hi2, hx2, hd2⟩ := evalItems_spec (j :: rest) (by simp)
          (fun i' hi' => hev i' (List.mem_cons_of_mem _ hi')) st1 hi1
        cases r2 with
        | none =>
          refine ⟨none, st2, ?_, hi2, hx1.trans hx2, fun k hk => (by cases hk), fun ρ hρ => ?_⟩
          · simp only [evalItems, he1, bind, Except.bind, pure, Except.pure, hk1, he2]
            rfl
          · have := hd2.2 ρ hρ
            rw [← this]; simp [optVal]
        | some k2 =>
          have hb1 : keyBelow st2.store.nodes.length k1 :=
            keyBelow_mono (grows_length hx2.grows) (hd1.1 k1 rfl)
          obtain ⟨S3, k, ha, hs3, hg3, hn3, hb3, hsem⟩ := addAnd_step hi2.s [k1, k2] (by simp)
            (fun c hc => by
              rcases List.mem_cons.1 hc with h | h
              · rw [h]; exact hb1
              · rw [List.mem_singleton.1 h]; exact hd2.1 k2 rfl)
          obtain ⟨hi3, hx3⟩ := hi2.store_step hs3 hg3 hn3
          refine ⟨some k, { st2 with store := S3 }, ?_, hi3, (hx1.trans hx2).trans hx3,
            fun k' hk' => (by cases hk'; exact hb3), fun ρ hρ => ?_⟩
          · simp only [evalItems, he1, bind, Except.bind, pure, Except.pure, hk1, he2, ha, liftB]
            rfl
          · show keyVal ρ k = _
            rw [hsem ρ hρ.1]
            have h2 := hd2.2 ρ (hρ.of_grows hg3)
            have h1 := hd1.2 ρ ((hρ.of_grows hg3).of_grows hx2.grows)
            simp only [optVal] at h1 h2
            simp only [List.all_cons, List.all_nil, Bool.and_true, h1, h2]

/-! ### clauses -/

theorem items_all (chosen : Array Bool) (M : Atom → Bool) (body : List Lit) (ch : Option Choice) :
    (Clause.items body ch).all (itemTrue chosen M) = clauseTrue chosen M (.rule body ch) := by
  cases ch with
  | none => simp [Clause.items, clauseTrue, choiceTrue, List.all_map, itemTrue, Function.comp_def]
  | some c =>
    simp [Clause.items, clauseTrue, choiceTrue, List.all_map, List.all_append, itemTrue, Function.comp_def]

theorem items_ne_nil {body : List Lit} {ch : Option Choice} (h : Clause.rule body ch ≠ Clause.rule [] none) :
    Clause.items body ch ≠ [] := by
  cases ch with
  | none =>
    cases body with
    | nil => exact absurd rfl h
    | cons l r => simp [Clause.items]
  | some c => simp [Clause.items]

theorem items_atoms {body : List Lit} {ch : Option Choice} {i : Item} (hi : i ∈ Clause.items body ch) {b : Atom}
    (hb : b ∈ itemAtoms i) : b ∈ (Clause.rule body ch).bodyAtoms := by
  have hl : ∃ l ∈ body, i = Item.lit l := by
    cases ch with
    | none =>
      obtain ⟨l, hl, rfl⟩ := List.mem_map.1 hi
      exact ⟨l, hl, rfl⟩
    | some c =>
      simp only [Clause.items, List.mem_append, List.mem_map, List.mem_singleton] at hi
      rcases hi with ⟨l, hl, rfl⟩ | rfl
      · exact ⟨l, hl, rfl⟩
      · cases hb
  obtain ⟨l, hl, rfl⟩ := hl
  simp only [Clause.bodyAtoms, List.mem_filterMap]
  refine ⟨l, hl, ?_⟩
  simp only [itemAtoms, Option.mem_toList] at hb
  exact hb

theorem evalClause_spec {chosen : Array Bool} {M : Atom → Bool} {ev : Eval} (c : Clause)
    (hne : c ≠ Clause.rule [] none) (hev : ∀ b ∈ c.bodyAtoms, GoalSpec chosen M ev b) (st : St)
    (hinv : Inv chosen M st) :
    ∃ r st', evalClause ev c st = .ok (r, st') ∧ Inv chosen M st' ∧ Ext st st' ∧
      ODen chosen st'.store r (clauseTrue chosen M c) := by
  cases c with
  | rule body ch =>
    obtain ⟨r, st', he, hi, hx, hd⟩ := evalItems_spec (Clause.items body ch) (items_ne_nil hne)
      (fun i hi b hb => hev b (items_atoms hi hb)) st hinv
    rw [items_all] at hd
    exact ⟨r, st', he, hi, hx, hd⟩
  | fact ident prob name =>
    cases prob with
    | none =>
      have he : evalClause ev (.fact ident none name) st = .ok (some TRUE, st) := by
        simp only [evalClause, addAtom_pNone hinv.s.keepAll]
        rfl
      exact ⟨some TRUE, st, he, hinv, Ext.refl st, fun k hk => (by cases hk; exact Nat.zero_le _), fun ρ _ => rfl⟩
    | some p =>
      have h := addAtom_step hinv.s chosen ident (.prob p) none (some (.pos name))
      have he : evalClause ev (.fact ident (some p) name) st = .ok
          (if Formula.isFalse (st.store.addAtom (.user ident) .normal (.prob p) none (some (.pos name))).2 then none
           else some (st.store.addAtom (.user ident) .normal (.prob p) none (some (.pos name))).2,
           { st with store := (st.store.addAtom (.user ident) .normal (.prob p) none (some (.pos name))).1 }) := rfl
      generalize st.store.addAtom (.user ident) .normal (.prob p) none (some (.pos name)) = R at h he
      obtain ⟨hs, hg, hn, hf, hd⟩ := h
      obtain ⟨hi', hx'⟩ := hinv.store_step hs hg hn
      rw [hf] at he
      exact ⟨_, _, he, hi', hx', fun k hk => (by cases hk; exact hd.1), fun ρ hρ => hd.2 ρ hρ⟩

theorem evalClauses_spec {chosen : Array Bool} {M : Atom → Bool} {ev : Eval} :
    ∀ (cs : List Clause), (∀ c ∈ cs, c ≠ Clause.rule [] none) →
      (∀ c ∈ cs, ∀ b ∈ c.bodyAtoms, GoalSpec chosen M ev b) → ∀ st, Inv chosen M st →
        ∃ rs st', evalClauses ev cs st = .ok (rs, st') ∧ Inv chosen M st' ∧ Ext st st' ∧
          (∀ k ∈ rs, keyBelow st'.store.nodes.length k) ∧
          ∀ ρ, Val chosen st'.store ρ → rs.any (keyVal ρ) = cs.any (clauseTrue chosen M)
  | [], _, _, st, hinv => ⟨[], st, rfl, hinv, Ext.refl st, fun _ h => (by cases h), fun _ _ => rfl⟩
  | c :: cs, hne, hev, st, hinv => by
    obtain ⟨r, st1, he1, hi1, hx1, hd1⟩ := evalClause_spec c (hne c List.mem_cons_self)
      (hev c List.mem_cons_self) st hinv
    obtain ⟨rs, st2, he2, hi2, hx2, hb2, hd2⟩ := evalClauses_spec cs (fun c' h => hne c' (List.mem_cons_of_mem _ h))
      (fun c' h => hev c' (List.mem_cons_of_mem _ h)) st1 hi1
    cases r with
    | none =>
      refine ⟨rs, st2, ?_, hi2, hx1.trans hx2, hb2, fun ρ hρ => ?_⟩
      · simp only [evalClauses, he1, bind, Except.bind, pure, Except.pure, he2]
      · have h1 := hd1.2 ρ (hρ.of_grows hx2.grows)
        simp only [optVal] at h1
        simp only [List.any_cons, ← h1, Bool.false_or, hd2 ρ hρ]
    | some k =>
      refine ⟨k :: rs, st2, ?_, hi2, hx1.trans hx2, ?_, fun ρ hρ => ?_⟩
      · simp only [evalClauses, he1, bind, Except.bind, pure, Except.pure, he2]
      · intro k' hk'
        rcases List.mem_cons.1 hk' with h | h
        · rw [h]; exact keyBelow_mono (grows_length hx2.grows) (hd1.1 k rfl)
        · exact hb2 k' h
      · have h1 := hd1.2 ρ (hρ.of_grows hx2.grows)
        simp only [optVal] at h1
        simp only [List.any_cons, h1, hd2 ρ hρ]

/-! ### the schedule only permutes -/

theorem mem_of_getElem? {α} {l : List α} {j : Nat} {y : α} (h : l[j]? = some y) : y ∈ l :=
  List.mem_of_getElem? h

theorem mem_eraseIdx_or {α} : ∀ (l : List α) (j : Nat) (y : α), l[j]? = some y →
    ∀ x, x ∈ l ↔ (x = y ∨ x ∈ l.eraseIdx j)
  | [], j, y, h, x => by simp at h
  | a :: l, 0, y, h, x => by
    simp only [List.getElem?_cons_zero, Option.some.injEq] at h
    subst h
    simp [List.eraseIdx]
  | a :: l, j + 1, y, h, x => by
    simp only [List.getElem?_cons_succ] at h
    have ih := mem_eraseIdx_or l j y h x
    simp only [List.eraseIdx_cons_succ, List.mem_cons, ih]
    constructor
    · rintro (h | h | h)
      · exact Or.inr (Or.inl h)
      · exact Or.inl h
      · exact Or.inr (Or.inr h)
    · rintro (h | h | h)
      · exact Or.inr (Or.inl h)
      · exact Or.inl h
      · exact Or.inr (Or.inr h)

theorem mem_permute {α : Type} (code : List Nat) (l : List α) : ∀ x, x ∈ permute code l ↔ x ∈ l := by
  fun_induction permute code l with
  | case1 => intro x; exact Iff.rfl
  | case2 => intro x; exact Iff.rfl
  | case3 i is x xs l j y hy ih =>
    intro z
    rw [List.mem_cons, ih z, mem_eraseIdx_or l j y hy z]
  | case4 => intro x; exact Iff.rfl

theorem any_permute {α : Type} (code : List Nat) (l : List α) (f : α → Bool) :
    (permute code l).any f = l.any f := by
  rw [Bool.eq_iff_iff, List.any_eq_true, List.any_eq_true]
  exact ⟨fun ⟨x, h1, h2⟩ => ⟨x, (mem_permute code l x).1 h1, h2⟩, fun ⟨x, h1, h2⟩ => ⟨x, (mem_permute code l x).2 h1, h2⟩⟩

/-! ### a goal -/

theorem lookup_cons (T : Table) (a : Atom) (k : Key) (b : Atom) :
    lookup ((a, k) :: T) b = if (a == b) = true then some k else lookup T b := rfl

theorem evalGoalWith_spec {P : Prog} {natoms : Nat} {rk : Atom → Nat} {chosen : Array Bool} {M : Atom → Bool}
    {ev : Eval} (sched : Sched) (hw : WfP P natoms rk) (hM : IsModel P chosen M) (a : Atom)
    (hev : ∀ c ∈ P.clausesOf a, ∀ b ∈ c.bodyAtoms, GoalSpec chosen M ev b) :
    GoalSpec chosen M (evalGoalWith P sched ev) a := by
  intro st hinv
  cases hl : lookup st.table a with
  | some k =>
    exact ⟨k, st, by simp only [evalGoalWith, hl]; rfl, hinv, Ext.refl st, hinv.t a k hl⟩
  | none =>
    by_cases hcs : (P.clausesOf a).isEmpty = true
    · refine ⟨FALSE, st, by simp only [evalGoalWith, hl, hcs, if_true]; rfl, hinv, Ext.refl st, trivial, fun ρ _ => ?_⟩
      rw [hM a, List.isEmpty_iff.1 hcs]; rfl
    · have hmem : ∀ c, c ∈ permute (sched a) (P.clausesOf a) → c ∈ P.clausesOf a :=
        fun c h => (mem_permute _ _ c).1 h
      obtain ⟨rs, st1, he1, hi1, hx1, hb1, hd1⟩ := evalClauses_spec (permute (sched a) (P.clausesOf a))
        (fun c h => hw.nonempty a c (hmem c h)) (fun c h => hev c (hmem c h)) st hinv
      have hval : ∀ ρ, Val chosen st1.store ρ → rs.any (keyVal ρ) = M a := fun ρ hρ => by
        rw [hd1 ρ hρ, any_permute, ← hM a]
      have hext : ∀ (k : Key) (S' : Store), Grows st1.store S' → NEq st1.store S' →
          Ext st { table := (a, k) :: st1.table, store := S' } := fun k S' hg hn =>
        ⟨⟨hx1.grows.trans hg, fun b k' hb => by
          show lookup ((a, k) :: st1.table) b = some k'
          rw [lookup_cons]
          have hne : ¬ ((a == b) = true) := by
            intro hab
            have : a = b := by simpa using hab
            subst this; rw [hl] at hb; cases hb
          rw [if_neg hne]; exact hx1.table b k' hb⟩, hx1.names.trans hn⟩
      have hinv' : ∀ (k : Key) (S' : Store), SInv S' → Grows st1.store S' → Den chosen S' k (M a) →
          Inv chosen M { table := (a, k) :: st1.table, store := S' } := fun k S' hs hg hd =>
        ⟨hs, fun b k' hb => by
          have hb' : lookup ((a, k) :: st1.table) b = some k' := hb
          rw [lookup_cons] at hb'
          by_cases hab : (a == b) = true
          · rw [if_pos hab] at hb'
            have : a = b := by simpa using hab
            subst this; cases hb'; exact hd
          · rw [if_neg hab] at hb'
            exact (hi1.t b k' hb').mono hg⟩
      by_cases hrs : rs.isEmpty = true
      · have hd : Den chosen st1.store FALSE (M a) := ⟨trivial, fun ρ hρ => by
          rw [← hval ρ hρ, List.isEmpty_iff.1 hrs]; rfl⟩
        refine ⟨FALSE, { st1 with table := (a, FALSE) :: st1.table }, ?_, hinv' FALSE st1.store hi1.s (Grows.refl _) hd,
          hext FALSE st1.store (Grows.refl _) (NEq.refl _), hd⟩
        simp only [evalGoalWith, hl, hcs, he1, bind, Except.bind, pure, Except.pure, hrs, if_true]
        rfl
      · obtain ⟨S2, k, ho, hs2, hg2, hn2, hb2, hsem⟩ := addOr_step hi1.s rs
          (fun h => hrs (by rw [h]; rfl)) hb1
        have hd : Den chosen S2 k (M a) := ⟨hb2, fun ρ hρ => by
          rw [hsem ρ hρ.1]; exact hval ρ (hρ.of_grows hg2)⟩
        refine ⟨k, { table := (a, k) :: st1.table, store := S2 }, ?_, hinv' k S2 hs2 hg2 hd, hext k S2 hg2 hn2, hd⟩
        simp only [evalGoalWith, hl, hcs, he1, bind, Except.bind, pure, Except.pure, hrs, ho, liftB]
        rfl

/-- With fuel above the rank, `evalGoal` meets the goal specification (in particular: it does not run out of fuel). -/
theorem evalGoal_spec {P : Prog} {natoms : Nat} {rk : Atom → Nat} {chosen : Array Bool} {M : Atom → Bool}
    (sched : Sched) (hw : WfP P natoms rk) (hM : IsModel P chosen M) :
    ∀ (fuel : Nat) (a : Atom), rk a < fuel → GoalSpec chosen M (evalGoal P sched fuel) a
  | 0, a, h => by omega
  | fuel + 1, a, h => by
    show GoalSpec chosen M (evalGoalWith P sched (evalGoal P sched fuel)) a
    exact evalGoalWith_spec sched hw hM a (fun c hc b hb =>
      evalGoal_spec sched hw hM fuel b (by have := hw.ranks a c hc b hb; omega))

/-! ### `ground`, `ground_all` -/

/-- every query / evidence entry of the name table denotes the truth value of its atom -/
def NInv (chosen : Array Bool) (M : Atom → Bool) (S : Store) : Prop :=
  ∀ l n k, (l, n, k) ∈ S.names → l ≠ Label.named → ∃ a, n = Name.pos a ∧ Den chosen S k (M a)

/-- every (label, name) pair with a query / evidence entry still has one -/
def NKeeps (S S' : Store) : Prop :=
  ∀ l n k, (l, n, k) ∈ S.names → l ≠ Label.named → ∃ k', (l, n, k') ∈ S'.names

theorem groundOne_spec {P : Prog} {natoms : Nat} {rk : Atom → Nat} {chosen : Array Bool} {M : Atom → Bool}
    (sched : Sched) (hw : WfP P natoms rk) (hM : IsModel P chosen M) (fuel : Nat) (c : Call) (hf : rk c.atom < fuel)
    (st : St) (hinv : Inv chosen M st) (hnm : NInv chosen M st.store) :
    ∃ k st', groundOne P sched fuel st c = .ok (k, st') ∧ Inv chosen M st' ∧ Ext0 st st' ∧
      Den chosen st'.store k (M c.atom) ∧ (c.label, Name.pos c.atom, k) ∈ st'.store.names ∧
      NInv chosen M st'.store ∧ NKeeps st.store st'.store := by
  obtain ⟨k, st1, he, hi1, hx1, hd⟩ := evalGoal_spec sched hw hM fuel c.atom hf st hinv
  have hg := addName_grows st1.store (.pos c.atom) k c.label false
  have hi2 : Inv chosen M { st1 with store := st1.store.addName (.pos c.atom) k c.label } :=
    ⟨addName_sinv hi1.s (.pos c.atom) k c.label, fun a k' hl => (hi1.t a k' hl).mono hg⟩
  refine ⟨k, { st1 with store := st1.store.addName (.pos c.atom) k c.label }, ?_, hi2,
    ⟨hx1.grows.trans hg, hx1.table⟩, hd.mono hg, ?_, ?_, ?_⟩
  · simp only [groundOne, he, bind, Except.bind, pure, Except.pure]
  · show _ ∈ (st1.store.addName (.pos c.atom) k c.label).names
    rw [addName_names]; exact mem_setNames_self _ _ _ _
  · intro l n k' hmem hl
    have hmem' : (l, n, k') ∈ (st1.store.addName (.pos c.atom) k c.label).names := hmem
    rw [addName_names] at hmem'
    rcases mem_setNames_cases _ _ _ _ _ hmem' with h | h
    · obtain ⟨a, rfl, hda⟩ := hnm l n k' ((hx1.names l n k' hl).1 h) hl
      exact ⟨a, rfl, (hda.mono hx1.grows).mono hg⟩
    · simp only [Prod.mk.injEq] at h
      obtain ⟨rfl, rfl, rfl⟩ := h
      exact ⟨c.atom, rfl, hd.mono hg⟩
  · intro l n k0 hmem hl
    have h1 : (l, n, k0) ∈ st1.store.names := (hx1.names l n k0 hl).2 hmem
    obtain ⟨k1, hk1⟩ := setNames_keeps st1.store.names c.label (.pos c.atom) k l n k0 h1
    refine ⟨k1, ?_⟩
    show _ ∈ (st1.store.addName (.pos c.atom) k c.label).names
    rw [addName_names]; exact hk1

theorem groundAll_spec {P : Prog} {natoms : Nat} {rk : Atom → Nat} {chosen : Array Bool} {M : Atom → Bool}
    (sched : Sched) (hw : WfP P natoms rk) (hM : IsModel P chosen M) (fuel : Nat) :
    ∀ (calls : List Call), (∀ c ∈ calls, rk c.atom < fuel) → (∀ c ∈ calls, c.label ≠ Label.named) →
      ∀ st, Inv chosen M st → NInv chosen M st.store →
      ∃ ks st', groundAll P sched fuel calls st = .ok (ks, st') ∧ Inv chosen M st' ∧ Ext0 st st' ∧
        ks.length = calls.length ∧
        (∀ i (hc : i < calls.length) (hk : i < ks.length), Den chosen st'.store ks[i] (M calls[i].atom)) ∧
        NInv chosen M st'.store ∧ NKeeps st.store st'.store ∧
        ∀ c ∈ calls, ∃ k, (c.label, Name.pos c.atom, k) ∈ st'.store.names
  | [], _, _, st, hinv, hnm =>
    ⟨[], st, rfl, hinv, Ext0.refl st, rfl, fun i hc _ => absurd hc (Nat.not_lt_zero i), hnm,
      fun l n k h _ => ⟨k, h⟩, fun _ h => (by cases h)⟩
  | c :: cs, hf, hlab, st, hinv, hnm => by
    obtain ⟨k, st1, he1, hi1, hx1, hd1, hmem1, hnm1, hkeep1⟩ := groundOne_spec sched hw hM fuel c
      (hf c List.mem_cons_self) st hinv hnm
    obtain ⟨ks, st2, he2, hi2, hx2, hlen, hd2, hnm2, hkeep2, hcalls2⟩ := groundAll_spec sched hw hM fuel cs
      (fun c' h => hf c' (List.mem_cons_of_mem _ h)) (fun c' h => hlab c' (List.mem_cons_of_mem _ h)) st1 hi1 hnm1
    refine ⟨k :: ks, st2, ?_, hi2, hx1.trans hx2, by simp [hlen], fun i hc hk => ?_, hnm2, ?_, ?_⟩
    · simp only [groundAll, he1, bind, Except.bind, pure, Except.pure, he2]
    · cases i with
      | zero => exact hd1.mono hx2.grows
      | succ i => exact hd2 i (by simpa using hc) (by simpa using hk)
    · intro l n k0 hm hl
      obtain ⟨k1, h1⟩ := hkeep1 l n k0 hm hl
      exact hkeep2 l n k1 h1 hl
    · intro c' hc'
      rcases List.mem_cons.1 hc' with h | h
      · subst h
        exact hkeep2 _ _ _ hmem1 (hlab _ List.mem_cons_self)
      · exact hcalls2 c' h

end ProbLogProofs.GroundEval
