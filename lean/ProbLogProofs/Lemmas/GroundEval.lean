import ProbLogProofs.Lemmas.GroundInv
/-!
# Ground acyclic programs: invariants of the grounding-engine model (2) — the evaluation functions

Total-correctness specifications (`∃` result, invariant kept, store grows, result denotes the right truth value) of
`evalItem`, `evalItems`, `evalClause`, `evalClauses`, `evalGoalWith`, `evalGoal`, `groundOne`, `groundAll`,
relative to a solution `M` of the completion equation (`IsModel`).
-/
namespace ProbLogProofs.GroundEval
open ProbLogModel ProbLogModel.Formula ProbLogModel.GroundAcyclic ProbLogProofs.GroundSem ProbLogProofs.GroundInv
open ProbLogModel.Sem (getB)

def itemTrue (chosen : Array Bool) (M : Atom → Bool) : Item → Bool
  | .lit l => litTrue M l
  | .choice c => getB chosen c.ident

def itemAtoms : Item → List Atom
  | .lit l => l.atom?.toList
  | .choice _ => []

/-- what a sub-goal evaluator must do on goal `a` -/
def GoalSpec (chosen : Array Bool) (M : Atom → Bool) (ev : Eval) (a : Atom) : Prop :=
  ∀ st, Inv chosen M st → ∃ k st', ev a st = .ok (k, st') ∧ Inv chosen M st' ∧ Ext st st' ∧
    Den chosen st'.store k (M a)

theorem keyVal_none (ρ : Nat → Bool) : keyVal ρ none = false := rfl
theorem keyVal_true (ρ : Nat → Bool) : keyVal ρ TRUE = true := rfl

theorem isFalse_iff (k : Key) : Formula.isFalse k = true ↔ k = none := by
  cases k <;> simp [Formula.isFalse]

theorem negate_keyVal (ρ : Nat → Bool) (k : Key) : keyVal ρ (negate k) = !(keyVal ρ k) := by
  rcases k with _ | k
  · rfl
  · by_cases h0 : k = 0
    · subst h0; rfl
    · have hn : negate (some k) = some (-k) := by unfold negate; split <;> simp_all
      rw [hn, keyVal_neg ρ k h0]

/-! ### one conjunct -/

theorem evalItem_spec {chosen : Array Bool} {M : Atom → Bool} {ev : Eval} (i : Item)
    (hev : ∀ b ∈ itemAtoms i, GoalSpec chosen M ev b) (st : St) (hinv : Inv chosen M st) :
    ∃ r st', evalItem ev i st = .ok (r, st') ∧ Inv chosen M st' ∧ Ext st st' ∧
      ODen chosen st'.store r (itemTrue chosen M i) := by
  cases i with
  | choice c =>
    have h := addAtom_step hinv.s chosen c.ident (.prob c.prob) (some c.group) (some (.pos c.name))
    have he : evalItem ev (.choice c) st = .ok
        (if Formula.isFalse (st.store.addAtom (.user c.ident) .normal (.prob c.prob) (some c.group)
            (some (.pos c.name))).2 then none
         else some (st.store.addAtom (.user c.ident) .normal (.prob c.prob) (some c.group) (some (.pos c.name))).2,
         { st with store := (st.store.addAtom (.user c.ident) .normal (.prob c.prob) (some c.group)
            (some (.pos c.name))).1 }) := rfl
    generalize st.store.addAtom (.user c.ident) .normal (.prob c.prob) (some c.group) (some (.pos c.name)) = R
      at h he
    obtain ⟨hs, hg, hf, hd⟩ := h
    obtain ⟨hi', hx'⟩ := hinv.store_step hs hg
    rw [hf] at he
    exact ⟨_, _, he, hi', hx', fun k hk => (by cases hk; exact hd.1), fun ρ hρ => hd.2 ρ hρ⟩
  | lit l =>
    cases l with
    | tt =>
      exact ⟨some TRUE, st, rfl, hinv, Ext.refl st, fun k hk => by cases hk; exact Nat.zero_le _, fun ρ _ => rfl⟩
    | pos a =>
      obtain ⟨k, st', he, hi', hx', hd⟩ := hev a (by simp [itemAtoms, Lit.atom?]) st hinv
      refine ⟨if Formula.isFalse k then none else some k, st', ?_, hi', hx', ODen.of_den hd⟩
      simp only [evalItem, he, bind, Except.bind, pure, Except.pure]
    | neg a =>
      obtain ⟨k, st1, he, hi1, hx1, hd⟩ := hev a (by simp [itemAtoms, Lit.atom?]) st hinv
      by_cases hk : Formula.isFalse k = true
      · refine ⟨some TRUE, st1, ?_, hi1, hx1, fun k' hk' => by cases hk'; exact Nat.zero_le _, fun ρ hρ => ?_⟩
        · simp only [evalItem, he, bind, Except.bind, pure, Except.pure, hk, if_true]
        · have hkn := (isFalse_iff k).1 hk
          subst hkn
          have := hd.2 ρ hρ
          rw [keyVal_none] at this
          show true = !M a
          rw [← this]; rfl
      · obtain ⟨S2, k', ho, hs2, hg2, hb2, hsem⟩ := addOr_step hi1.s [k] (by simp)
          (fun c hc => by rw [List.mem_singleton.1 hc]; exact hd.1)
        obtain ⟨hi2, hx2⟩ := hi1.store_step hs2 hg2
        refine ⟨if Formula.isFalse (negate k') then none else some (negate k'), { st1 with store := S2 }, ?_, hi2,
          hx1.trans hx2, ODen.of_den ⟨keyBelow_negate _ _ hb2, fun ρ hρ => ?_⟩⟩
        · simp only [evalItem, he, bind, Except.bind, pure, Except.pure, hk, ho, liftB]
          rfl
        · rw [negate_keyVal, hsem ρ hρ.1]
          have := hd.2 ρ (hρ.of_grows hg2)
          simp only [List.any_cons, List.any_nil, Bool.or_false, this]
          rfl

/-! ### a right-nested conjunction -/

theorem evalItems_spec {chosen : Array Bool} {M : Atom → Bool} {ev : Eval} :
    ∀ (is : List Item), is ≠ [] → (∀ i ∈ is, ∀ b ∈ itemAtoms i, GoalSpec chosen M ev b) →
      ∀ st, Inv chosen M st →
        ∃ r st', evalItems ev is st = .ok (r, st') ∧ Inv chosen M st' ∧ Ext st st' ∧
          ODen chosen st'.store r (is.all (itemTrue chosen M))
  | [], h, _, _, _ => absurd rfl h
  | [i], _, hev, st, hinv => by
    obtain ⟨r, st', he, hi, hx, hd⟩ := evalItem_spec i (hev i (List.mem_singleton_self i)) st hinv
    refine ⟨r, st', ?_, hi, hx, ?_⟩
    · rw [← he]; rfl
    · simpa using hd
  | i :: j :: rest, _, hev, st, hinv => by
    obtain ⟨r1, st1, he1, hi1, hx1, hd1⟩ := evalItem_spec i (hev i List.mem_cons_self) st hinv
    have hall : (i :: j :: rest).all (itemTrue chosen M) =
        (itemTrue chosen M i && (j :: rest).all (itemTrue chosen M)) := rfl
    rw [hall]
    cases r1 with
    | none =>
      refine ⟨none, st1, ?_, hi1, hx1, fun k hk => (by cases hk), fun ρ hρ => ?_⟩
      · simp only [evalItems, he1, bind, Except.bind, pure, Except.pure]
      · have := hd1.2 ρ hρ
        rw [← this]; rfl
    | some k1 =>
      by_cases hk1 : Formula.isFalse k1 = true
      · refine ⟨none, st1, ?_, hi1, hx1, fun k hk => (by cases hk), fun ρ hρ => ?_⟩
        · simp only [evalItems, he1, bind, Except.bind, pure, Except.pure, hk1, if_true]
        · have := hd1.2 ρ hρ
          rw [(isFalse_iff k1).1 hk1] at this
          rw [← this]; rfl
      · obtain ⟨r2, st2, he2, hi2, hx2, hd2⟩ := evalItems_spec (j :: rest) (by simp)
          (fun i' hi' => hev i' (List.mem_cons_of_mem _ hi')) st1 hi1
        cases r2 with
        | none =>
          refine ⟨none, st2, ?_, hi2, hx1.trans hx2, fun k hk => (by cases hk), fun ρ hρ => ?_⟩
          · simp only [evalItems, he1, bind, Except.bind, pure, Except.pure, hk1, he2]
            rfl
          · have := hd2.2 ρ hρ
            rw [← this]; simp [optVal]
        | some k2 =>
          have hb1 : keyBelow st2.store.nodes.length k1 :=
            keyBelow_mono (grows_length hx2.grows) (hd1.1 k1 rfl)
          obtain ⟨S3, k, ha, hs3, hg3, hb3, hsem⟩ := addAnd_step hi2.s [k1, k2] (by simp)
            (fun c hc => by
              rcases List.mem_cons.1 hc with h | h
              · rw [h]; exact hb1
              · rw [List.mem_singleton.1 h]; exact hd2.1 k2 rfl)
          obtain ⟨hi3, hx3⟩ := hi2.store_step hs3 hg3
          refine ⟨some k, { st2 with store := S3 }, ?_, hi3, (hx1.trans hx2).trans hx3,
            fun k' hk' => (by cases hk'; exact hb3), fun ρ hρ => ?_⟩
          · simp only [evalItems, he1, bind, Except.bind, pure, Except.pure, hk1, he2, ha, liftB]
            rfl
          · show keyVal ρ k = _
            rw [hsem ρ hρ.1]
            have h2 := hd2.2 ρ (hρ.of_grows hg3)
            have h1 := hd1.2 ρ ((hρ.of_grows hg3).of_grows hx2.grows)
            simp only [optVal] at h1 h2
            simp only [List.all_cons, List.all_nil, Bool.and_true, h1, h2]

/-! ### clauses -/

theorem items_all (chosen : Array Bool) (M : Atom → Bool) (body : List Lit) (ch : Option Choice) :
    (Clause.items body ch).all (itemTrue chosen M) = clauseTrue chosen M (.rule body ch) := by
  cases ch with
  | none => simp [Clause.items, clauseTrue, choiceTrue, List.all_map, itemTrue, Function.comp_def]
  | some c =>
    simp [Clause.items, clauseTrue, choiceTrue, List.all_map, List.all_append, itemTrue, Function.comp_def]

theorem items_ne_nil {body : List Lit} {ch : Option Choice} (h : Clause.rule body ch ≠ Clause.rule [] none) :
    Clause.items body ch ≠ [] := by
  cases ch with
  | none =>
    cases body with
    | nil => exact absurd rfl h
    | cons l r => simp [Clause.items]
  | some c => simp [Clause.items]

theorem items_atoms {body : List Lit} {ch : Option Choice} {i : Item} (hi : i ∈ Clause.items body ch) {b : Atom}
    (hb : b ∈ itemAtoms i) : b ∈ (Clause.rule body ch).bodyAtoms := by
  have hl : ∃ l ∈ body, i = Item.lit l := by
    cases ch with
    | none =>
      obtain ⟨l, hl, rfl⟩ := List.mem_map.1 hi
      exact ⟨l, hl, rfl⟩
    | some c =>
      simp only [Clause.items, List.mem_append, List.mem_map, List.mem_singleton] at hi
      rcases hi with ⟨l, hl, rfl⟩ | rfl
      · exact ⟨l, hl, rfl⟩
      · cases hb
  obtain ⟨l, hl, rfl⟩ := hl
  simp only [Clause.bodyAtoms, List.mem_filterMap]
  refine ⟨l, hl, ?_⟩
  simp only [itemAtoms, Option.mem_toList] at hb
  exact hb

theorem evalClause_spec {chosen : Array Bool} {M : Atom → Bool} {ev : Eval} (c : Clause)
    (hne : c ≠ Clause.rule [] none) (hev : ∀ b ∈ c.bodyAtoms, GoalSpec chosen M ev b) (st : St)
    (hinv : Inv chosen M st) :
    ∃ r st', evalClause ev c st = .ok (r, st') ∧ Inv chosen M st' ∧ Ext st st' ∧
      ODen chosen st'.store r (clauseTrue chosen M c) := by
  cases c with
  | rule body ch =>
    obtain ⟨r, st', he, hi, hx, hd⟩ := evalItems_spec (Clause.items body ch) (items_ne_nil hne)
      (fun i hi b hb => hev b (items_atoms hi hb)) st hinv
    rw [items_all] at hd
    exact ⟨r, st', he, hi, hx, hd⟩
  | fact ident prob name =>
    cases prob with
    | none =>
      have he : evalClause ev (.fact ident none name) st = .ok (some TRUE, st) := by
        simp only [evalClause, addAtom_pNone hinv.s.keepAll]
        rfl
      exact ⟨some TRUE, st, he, hinv, Ext.refl st, fun k hk => (by cases hk; exact Nat.zero_le _), fun ρ _ => rfl⟩
    | some p =>
      have h := addAtom_step hinv.s chosen ident (.prob p) none (some (.pos name))
      have he : evalClause ev (.fact ident (some p) name) st = .ok
          (if Formula.isFalse (st.store.addAtom (.user ident) .normal (.prob p) none (some (.pos name))).2 then none
           else some (st.store.addAtom (.user ident) .normal (.prob p) none (some (.pos name))).2,
           { st with store := (st.store.addAtom (.user ident) .normal (.prob p) none (some (.pos name))).1 }) := rfl
      generalize st.store.addAtom (.user ident) .normal (.prob p) none (some (.pos name)) = R at h he
      obtain ⟨hs, hg, hf, hd⟩ := h
      obtain ⟨hi', hx'⟩ := hinv.store_step hs hg
      rw [hf] at he
      exact ⟨_, _, he, hi', hx', fun k hk => (by cases hk; exact hd.1), fun ρ hρ => hd.2 ρ hρ⟩

theorem evalClauses_spec {chosen : Array Bool} {M : Atom → Bool} {ev : Eval} :
    ∀ (cs : List Clause), (∀ c ∈ cs, c ≠ Clause.rule [] none) →
      (∀ c ∈ cs, ∀ b ∈ c.bodyAtoms, GoalSpec chosen M ev b) → ∀ st, Inv chosen M st →
        ∃ rs st', evalClauses ev cs st = .ok (rs, st') ∧ Inv chosen M st' ∧ Ext st st' ∧
          (∀ k ∈ rs, keyBelow st'.store.nodes.length k) ∧
          ∀ ρ, Val chosen st'.store ρ → rs.any (keyVal ρ) = cs.any (clauseTrue chosen M)
  | [], _, _, st, hinv => ⟨[], st, rfl, hinv, Ext.refl st, fun _ h => (by cases h), fun _ _ => rfl⟩
  | c :: cs, hne, hev, st, hinv => by
    obtain ⟨r, st1, he1, hi1, hx1, hd1⟩ := evalClause_spec c (hne c List.mem_cons_self)
      (hev c List.mem_cons_self) st hinv
    obtain ⟨rs, st2, he2, hi2, hx2, hb2, hd2⟩ := evalClauses_spec cs (fun c' h => hne c' (List.mem_cons_of_mem _ h))
      (fun c' h => hev c' (List.mem_cons_of_mem _ h)) st1 hi1
    cases r with
    | none =>
      refine ⟨rs, st2, ?_, hi2, hx1.trans hx2, hb2, fun ρ hρ => ?_⟩
      · simp only [evalClauses, he1, bind, Except.bind, pure, Except.pure, he2]
      · have h1 := hd1.2 ρ (hρ.of_grows hx2.grows)
        simp only [optVal] at h1
        simp only [List.any_cons, ← h1, Bool.false_or, hd2 ρ hρ]
    | some k =>
      refine ⟨k :: rs, st2, ?_, hi2, hx1.trans hx2, ?_, fun ρ hρ => ?_⟩
      · simp only [evalClauses, he1, bind, Except.bind, pure, Except.pure, he2]
      · intro k' hk'
        rcases List.mem_cons.1 hk' with h | h
        · rw [h]; exact keyBelow_mono (grows_length hx2.grows) (hd1.1 k rfl)
        · exact hb2 k' h
      · have h1 := hd1.2 ρ (hρ.of_grows hx2.grows)
        simp only [optVal] at h1
        simp only [List.any_cons, h1, hd2 ρ hρ]

end ProbLogProofs.GroundEval
