import ProbLogModel.Sem
import ProbLogProofs.Lemmas.SemRun
import ProbLogProofs.Lemmas.SemGroups
/-!
# `Sem.run` does not depend on the order of the groups
-/
namespace ProbLogProofs.SemGroupsRun
open ProbLogModel.Sem ProbLogProofs.SemGamma ProbLogProofs.SemRules ProbLogProofs.SemRun ProbLogProofs.SemGroups

theorem getB_chosenArr (n : Nat) (l : List Nat) (i : Nat) :
    getB (chosenArr n l) i = (decide (i ∈ l) && decide (i < n)) := by
  unfold chosenArr
  rw [getB_foldl_set, getB_replicate]
  simp

theorem chosenArr_size (n : Nat) (l : List Nat) : (chosenArr n l).size = n := by
  unfold chosenArr; rw [foldl_set_size]; simp

/-- the bit array only depends on which choices are selected -/
theorem chosenArr_congr (n : Nat) {l l' : List Nat} (h : ∀ c, c < n → (c ∈ l ↔ c ∈ l')) :
    chosenArr n l = chosenArr n l' := by
  apply arr_ext (by rw [chosenArr_size, chosenArr_size])
  intro i hi
  rw [chosenArr_size] at hi
  rw [getB_chosenArr, getB_chosenArr]
  simp [h i hi]

theorem model_perm (P : Prog) (roots : List Nat) {l l' : List Nat} (h : l.Perm l') :
    model P roots l = model P roots l' := by
  unfold model
  rw [chosenArr_congr P.nchoices (fun c _ => h.mem_iff)]

def Fz (P : Prog) (roots : List Nat) (evidence : List (Nat × Bool)) (x : Rat) (ch : List Nat) : Rat :=
  if !(x == 0) && !undefIn P roots ch && evHolds P roots evidence ch then x else 0

def Fn (P : Prog) (roots : List Nat) (evidence : List (Nat × Bool)) (q : Nat) (x : Rat) (ch : List Nat) : Rat :=
  if (!(x == 0) && !undefIn P roots ch && evHolds P roots evidence ch) && getB (model P roots ch).1 q then x else 0

def Fu (P : Prog) (roots : List Nat) (x : Rat) (ch : List Nat) : Nat :=
  if !(x == 0) && undefIn P roots ch then 1 else 0

theorem zOf_eq_S (P : Prog) (roots : List Nat) (evidence : List (Nat × Bool)) :
    zOf P roots evidence = S (restrict P roots).groups (Fz P roots evidence) := rfl

theorem numOf_eq_S (P : Prog) (roots : List Nat) (evidence : List (Nat × Bool)) (q : Nat) :
    numOf P roots evidence q = S (restrict P roots).groups (Fn P roots evidence q) := rfl

theorem undefOf_eq_S (P : Prog) (roots : List Nat) :
    undefOf P roots = S (restrict P roots).groups (Fu P roots) := rfl

theorem length_eq_S (gs : List Group) : (worlds gs).length = S gs (fun _ _ => (1 : Nat)) := by
  unfold S; simp

theorem undefIn_perm (P : Prog) (roots : List Nat) {l l' : List Nat} (h : l.Perm l') :
    undefIn P roots l = undefIn P roots l' := by
  unfold undefIn; rw [model_perm P roots h]

theorem evHolds_perm (P : Prog) (roots : List Nat) (evidence : List (Nat × Bool)) {l l' : List Nat}
    (h : l.Perm l') : evHolds P roots evidence l = evHolds P roots evidence l' := by
  unfold evHolds; rw [model_perm P roots h]

theorem Fz_permInv (P : Prog) (roots : List Nat) (evidence : List (Nat × Bool)) :
    PermInv (Fz P roots evidence) := by
  intro x l l' h
  unfold Fz; rw [undefIn_perm P roots h, evHolds_perm P roots evidence h]

theorem Fn_permInv (P : Prog) (roots : List Nat) (evidence : List (Nat × Bool)) (q : Nat) :
    PermInv (Fn P roots evidence q) := by
  intro x l l' h
  unfold Fn; rw [undefIn_perm P roots h, evHolds_perm P roots evidence h, model_perm P roots h]

theorem Fu_permInv (P : Prog) (roots : List Nat) : PermInv (Fu P roots) := by
  intro x l l' h
  unfold Fu; rw [undefIn_perm P roots h]

theorem restrict_groups_perm (P : Prog) {gs' : List Group} (h : P.groups.Perm gs') (roots : List Nat) :
    (restrict P roots).groups.Perm (restrict { P with groups := gs' } roots).groups := by
  rw [restrict_groups, restrict_groups]
  exact h.filter _

theorem run_perm_groups (P : Prog) {gs' : List Group} (h : P.groups.Perm gs') (queries : List Nat)
    (evidence : List (Nat × Bool)) :
    run { P with groups := gs' } queries evidence = run P queries evidence := by
  have hg := restrict_groups_perm P h (queries ++ evidence.map (·.1))
  have hz : zOf { P with groups := gs' } (queries ++ evidence.map (·.1)) evidence =
      zOf P (queries ++ evidence.map (·.1)) evidence :=
    (S_perm hg _ (Fz_permInv P _ evidence)).symm
  have hn : numOf { P with groups := gs' } (queries ++ evidence.map (·.1)) evidence =
      numOf P (queries ++ evidence.map (·.1)) evidence :=
    funext fun q => (S_perm hg _ (Fn_permInv P _ evidence q)).symm
  have hu : undefOf { P with groups := gs' } (queries ++ evidence.map (·.1)) =
      undefOf P (queries ++ evidence.map (·.1)) :=
    (S_perm hg _ (Fu_permInv P _)).symm
  have hl : (worlds (restrict { P with groups := gs' } (queries ++ evidence.map (·.1))).groups).length =
      (worlds (restrict P (queries ++ evidence.map (·.1))).groups).length := by
    rw [length_eq_S, length_eq_S]
    exact (S_perm hg (fun _ _ => (1 : Nat)) (fun _ _ _ _ => rfl)).symm
  rw [run_eq_sums, run_eq_sums, hz, hn, hu, hl]

end ProbLogProofs.SemGroupsRun
