/-
The Array-based evaluation `evalCArr` (used by the driver for speed) computes the same value as the List-based
`evalC` about which the C10 theorems are stated. Core only.
-/
import ProbLogModel.DDNNFSem
namespace ProbLogProofs.DDNNF
open ProbLogModel.DDNNF

theorem array_getD_toList {R} (acc : Array R) (i : Nat) (d : R) : acc.getD i d = acc.toList.getD i d := by
  simp [Array.getD, List.getD_eq_getElem?_getD]
  by_cases h : i < acc.size
  · simp [h]
  · simp [h]

theorem evalLineArr_eq {R} (sr : SR R) (w : Int → R) (acc : Array R) (nd : NNode) :
    evalLineArr sr w acc nd = evalLine sr w acc.toList nd := by
  cases nd with
  | lit l => rfl
  | and cs => simp only [evalLineArr, evalLine, array_getD_toList]
  | or j cs => simp only [evalLineArr, evalLine, array_getD_toList]

theorem foldArr_toList {R} (sr : SR R) (w : Int → R) (c : Circuit) (a : Array R) :
    (c.foldl (fun (acc : Array R) nd => acc.push (evalLineArr sr w acc nd)) a).toList =
      c.foldl (fun acc nd => acc ++ [evalLine sr w acc nd]) a.toList := by
  induction c generalizing a with
  | nil => rfl
  | cons nd rest ih =>
    simp only [List.foldl_cons]
    rw [ih, Array.toList_push, evalLineArr_eq]

theorem arr_last_eq {R} (one : R) (vals : Array R) :
    (if h : 0 < vals.size then vals[vals.size - 1] else one) =
      (match vals.toList.getLast? with
        | some r => r
        | none => one) := by
  by_cases hs : 0 < vals.size
  · rw [dif_pos hs, List.getLast?_eq_getElem?]
    have hlt : vals.size - 1 < vals.size := by omega
    simp [Array.getElem?_eq_getElem hlt]
  · rw [dif_neg hs]
    have : vals.toList = [] := by
      have : vals.size = 0 := by omega
      simpa using this
    rw [this]; rfl

theorem evalCArr_eq_evalC {R} (sr : SR R) (w : Int → R) (c : Circuit) : evalCArr sr w c = evalC sr w c := by
  unfold evalCArr evalC evalLines
  have h := foldArr_toList sr w c #[]
  rw [show (#[] : Array R).toList = [] from rfl] at h
  rw [← h]
  exact arr_last_eq sr.one _

end ProbLogProofs.DDNNF
