import ProbLogProofs.Lemmas.Cycles
/-!
`cutEval` (fuelled, executable) versus `Der` (inductive): soundness for every fuel, completeness as soon as the fuel
exceeds the number of nodes outside the ancestor list — i.e. the fuel of `cutEval` never runs out.
-/
namespace ProbLogProofs.Cycles
open ProbLogModel.Formula ProbLogModel.Cycles

theorem der_of_cutEval {S : Store} {α : Nat → Bool} (hS : Positive S) :
    ∀ (fuel : Nat) (A : List Nat) (k : Key), PosKey S k → cutEval S α fuel A k = true → Der S α A k := by
  intro fuel
  induction fuel with
  | zero =>
    intro A k _ h
    cases k with
    | none => simp [cutEval] at h
    | some k => simp [cutEval] at h
  | succ f ih =>
    intro A k hk h
    cases k with
    | none => simp [cutEval] at h
    | some k =>
      rw [cutEval_succ] at h
      by_cases hk0 : k = 0
      · subst hk0; exact Der.tt
      · simp only [hk0, ↓reduceIte] at h
        cases hn : S.nodes[k.natAbs - 1]? with
        | none =>
          exfalso
          simp only [PosKey, posKey, hn] at hk
          by_cases h0 : 0 ≤ k
          · have : ¬ k < 0 := by omega
            simp [hn, this] at h
          · simp [h0] at hk
        | some nd =>
          cases nd with
          | atom id g e nm =>
            rw [hn] at h
            exact Der.lit hk0 hn h
          | conj cs nm =>
            have hpos := pos_of_posKey_conj hk hk0 hn
            have hnl : ¬ k < 0 := by omega
            rw [hn] at h
            simp only [hnl, ↓reduceIte] at h
            by_cases hA : A.contains k.natAbs = true
            · simp only [hA, ↓reduceIte, Bool.false_eq_true] at h
            · simp only [hA, Bool.false_eq_true, ↓reduceIte, List.all_eq_true] at h
              have hA' : k.natAbs ∉ A := by simpa [List.contains_iff_mem] using hA
              exact Der.conj hpos hA' hn (fun c hc => ih _ c (posKey_conj hS hn c hc) (h c hc))
          | disj cs nm =>
            have hpos := pos_of_posKey_disj hk hk0 hn
            have hnl : ¬ k < 0 := by omega
            rw [hn] at h
            simp only [hnl, ↓reduceIte] at h
            by_cases hA : A.contains k.natAbs = true
            · simp only [hA, ↓reduceIte, Bool.false_eq_true] at h
            · simp only [hA, Bool.false_eq_true, ↓reduceIte, List.any_eq_true] at h
              have hA' : k.natAbs ∉ A := by simpa [List.contains_iff_mem] using hA
              obtain ⟨c, hc, hv⟩ := h
              exact Der.disj hpos hA' hn hc (ih _ c (posKey_disj hS hn c hc) hv)

theorem cutEval_of_der {S : Store} {α : Nat → Bool} {A : List Nat} {k : Key} (hd : Der S α A k) :
    ∀ fuel, free S A < fuel → cutEval S α fuel A k = true := by
  induction hd with
  | tt =>
    intro fuel hf
    cases fuel with
    | zero => omega
    | succ f => rfl
  | @lit A k id g e nm hk0 hn hv =>
    intro fuel hf
    cases fuel with
    | zero => omega
    | succ f =>
      rw [cutEval_succ]
      simp only [hk0, ↓reduceIte, hn]
      exact hv
  | @conj A k cs nm hpos hA hn _ ih =>
    intro fuel hf
    cases fuel with
    | zero => omega
    | succ f =>
      have hlen : k.natAbs - 1 < S.nodes.length := by
        rcases Nat.lt_or_ge (k.natAbs - 1) S.nodes.length with h | h
        · exact h
        · rw [List.getElem?_eq_none h] at hn; cases hn
      have hlt := free_cons_lt S A k.natAbs (by omega) hlen hA
      have hk0 : k ≠ 0 := by omega
      have hnl : ¬ k < 0 := by omega
      have hAc : A.contains k.natAbs = false := by simpa [List.contains_iff_mem] using hA
      rw [cutEval_succ]
      simp only [hk0, ↓reduceIte, hn, hnl, hAc, Bool.false_eq_true, List.all_eq_true]
      exact fun c hc => ih c hc f (by omega)
  | @disj A k cs nm c hpos hA hn hc _ ih =>
    intro fuel hf
    cases fuel with
    | zero => omega
    | succ f =>
      have hlen : k.natAbs - 1 < S.nodes.length := by
        rcases Nat.lt_or_ge (k.natAbs - 1) S.nodes.length with h | h
        · exact h
        · rw [List.getElem?_eq_none h] at hn; cases hn
      have hlt := free_cons_lt S A k.natAbs (by omega) hlen hA
      have hk0 : k ≠ 0 := by omega
      have hnl : ¬ k < 0 := by omega
      have hAc : A.contains k.natAbs = false := by simpa [List.contains_iff_mem] using hA
      rw [cutEval_succ]
      simp only [hk0, ↓reduceIte, hn, hnl, hAc, Bool.false_eq_true, List.any_eq_true]
      exact ⟨c, hc, ih f (by omega)⟩

end ProbLogProofs.Cycles
