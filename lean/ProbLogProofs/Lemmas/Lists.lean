import ProbLogModel.Tasks.Lists
/-! Helper lemmas for C32 (core Lean only). -/
namespace ProbLogProofs.Lists
open ProbLogModel.Tasks.Lists

theorem foldl_add (l : List Rat) (a : Rat) : l.foldl (· + ·) a = a + l.foldl (· + ·) 0 := by
  induction l generalizing a with
  | nil => simp; grind
  | cons x l ih => simp only [List.foldl_cons]; rw [ih (a + x), ih (0 + x)]; grind

theorem sumList_cons (x : Rat) (l : List Rat) : sumList (x :: l) = x + sumList l := by
  unfold sumList; simp only [List.foldl_cons]; rw [foldl_add]; grind

theorem sumList_pos (l : List Rat) (hne : l ≠ []) (h : ∀ x, x ∈ l → 0 < x) : 0 < sumList l := by
  induction l with
  | nil => exact absurd rfl hne
  | cons x l ih =>
    rw [sumList_cons]
    have hx := h x (by simp)
    cases l with
    | nil => simp [sumList]; grind
    | cons y l =>
      have := ih (by simp) (fun z hz => h z (by simp [hz]))
      grind

/-! ### mass -/

theorem shift_nil (x : Val) (q : Rat) : shift x q [] = [] := rfl

theorem shift_cons (x : Val) (q : Rat) (e : (Sel × World) × Rat) (d : Dist (Sel × World)) :
    shift x q (e :: d) = ((⟨e.1.1.pos + 1, e.1.1.value, x :: e.1.1.rest⟩, e.1.2), q * e.2) :: shift x q d := rfl

theorem mass_nil {α : Type} (f : α → Bool) : mass ([] : Dist α) f = 0 := rfl

theorem mass_cons {α : Type} (e : α × Rat) (d : Dist α) (f : α → Bool) :
    mass (e :: d) f = (if f e.1 then e.2 else 0) + mass d f := rfl

theorem mass_shift_succ (x : Val) (q : Rat) (d : Dist (Sel × World)) (i : Nat) :
    mass (shift x q d) (fun e => e.1.pos == i + 1) = q * mass d (fun e => e.1.pos == i) := by
  induction d with
  | nil => rw [shift_nil, mass_nil, mass_nil]; grind
  | cons e d ih =>
    rw [shift_cons, mass_cons, mass_cons, ih]
    by_cases h : e.1.1.pos = i
    · simp [h]; grind
    · simp [h]; grind

theorem mass_shift_zero (x : Val) (q : Rat) (d : Dist (Sel × World)) :
    mass (shift x q d) (fun e => e.1.pos == 0) = 0 := by
  induction d with
  | nil => rfl
  | cons e d ih =>
    rw [shift_cons, mass_cons, ih]; simp; grind

theorem mass_shift_all (x : Val) (q : Rat) (d : Dist (Sel × World)) :
    mass (shift x q d) (fun _ => true) = q * mass d (fun _ => true) := by
  induction d with
  | nil => simp [shift_nil, mass_nil]
  | cons e d ih =>
    rw [shift_cons, mass_cons, mass_cons, ih]; simp; grind

/-! ### worlds -/

/-- No fact of identifier `id` that a call on a value list of length `n` would consult is decided in `w`
    (such a fact has a remaining-values argument shorter than `n`). -/
def Fresh (w : World) (id n : Nat) : Prop := ∀ f, f ∈ w → f.1.id = id → n ≤ f.1.xt.length

theorem lookup_fresh (w : World) (k : Key) (n : Nat) (h : Fresh w k.id n) (hk : k.xt.length < n) :
    lookupFact w k = none := by
  induction w with
  | nil => rfl
  | cons f w ih =>
    have hne : (f.1 == k) = false := by
      have : ¬ (f.1 = k) := by
        intro e
        have := h f (by simp) (by rw [e])
        rw [e] at this; omega
      simpa using this
    simp only [lookupFact, List.find?_cons, hne]
    exact ih (fun g hg => h g (by simp [hg]))

theorem lookup_append (new w : World) (k : Key) (b : Bool) (h : ∀ f, f ∈ new → f.1 ≠ k) :
    lookupFact (new ++ (k, b) :: w) k = some b := by
  induction new with
  | nil => simp [lookupFact]
  | cons f new ih =>
    have hne : (f.1 == k) = false := by simpa using h f (by simp)
    simp only [List.cons_append, lookupFact, List.find?_cons, hne]
    exact ih (fun g hg => h g (by simp [hg]))

theorem fresh_cons (w : World) (k : Key) (b : Bool) (id n : Nat) (h : Fresh w id (n + 1)) (hk : k.xt.length = n) :
    Fresh ((k, b) :: w) id n := by
  intro f hf hid
  rcases List.mem_cons.mp hf with e | hf
  · subst e; simp [hk]
  · have := h f hf hid; omega

end ProbLogProofs.Lists
