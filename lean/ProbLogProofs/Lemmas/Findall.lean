import ProbLogModel.Findall
/-!
Helper lemmas for C19 (`ProbLogModel.Findall`): node evaluation, bit tests, the choice-bit array, masks.
-/
namespace ProbLogProofs.FindallLemmas
open ProbLogModel.Findall

/-! ### Nodes -/

theorem eval_of_isTrue (v : Int → Bool) {n : Node} (h : n.isTrue = true) : n.eval v = true := by
  cases n with
  | tt => rfl
  | ff => simp [Node.isTrue] at h
  | lit i =>
    have : i = 0 := by simpa [Node.isTrue] using h
    simp [Node.eval, this]

theorem eval_of_isFalse (v : Int → Bool) {n : Node} (h : n.isFalse = true) : n.eval v = false := by
  cases n <;> simp_all [Node.isFalse, Node.eval]

theorem eval_negate (v : Int → Bool) (n : Node) : n.negate.eval v = !n.eval v := by
  cases n with
  | tt => rfl
  | ff => rfl
  | lit i =>
    by_cases h0 : i = 0
    · simp [Node.negate, Node.eval, h0]
    · by_cases hp : i > 0
      · have h2 : ¬ (-i = 0) := by omega
        simp [Node.negate, Node.eval, h0, hp, h2]
        intro h; omega
      · have h2 : ¬ (-i = 0) := by omega
        simp [Node.negate, Node.eval, h0, hp, h2]
        intro h; omega

theorem isTrue_of_isDet_not_isFalse {n : Node} (h : n.isDet = true) (h' : n.isFalse = false) : n.isTrue = true := by
  simpa [Node.isDet, h'] using h

theorem isFalse_false_of_isTrue {n : Node} (h : n.isTrue = true) : n.isFalse = false := by
  cases n <;> simp_all [Node.isTrue, Node.isFalse]

/-! ### Bits -/

theorem and_two_pow_ne_zero_iff (n b : Nat) : n &&& 2 ^ b ≠ 0 ↔ n.testBit b = true := by
  constructor
  · intro h
    cases hb : n.testBit b with
    | true => rfl
    | false =>
      exfalso; apply h
      apply Nat.eq_of_testBit_eq
      intro i
      rw [Nat.testBit_and, Nat.testBit_two_pow, Nat.zero_testBit]
      by_cases hi : b = i
      · subst hi; simp [hb]
      · simp [hi]
  · intro h h0
    have : (n &&& 2 ^ b).testBit b = true := by
      rw [Nat.testBit_and, Nat.testBit_two_pow_self, h]; rfl
    rw [h0, Nat.zero_testBit] at this
    cases this

theorem bitSet_eq_testBit (n b : Nat) : bitSet n b = n.testBit b := by
  unfold bitSet
  rw [Nat.one_shiftLeft]
  cases hb : n.testBit b with
  | true => simpa using (and_two_pow_ne_zero_iff n b).2 hb
  | false =>
    have : ¬ (n &&& 2 ^ b ≠ 0) := by
      rw [and_two_pow_ne_zero_iff]; simp [hb]
    simpa using this

/-- The bits `x0, x0+1, …, x0+c-1` of `n`. -/
def bitsOf (n : Nat) : Nat → Nat → List Bool
  | _, 0 => []
  | x0, c + 1 => n.testBit x0 :: bitsOf n (x0 + 1) c

theorem bitsOf_succ_start (n x0 c : Nat) : bitsOf n (x0 + 1) c = bitsOf (n / 2) x0 c := by
  induction c generalizing x0 with
  | zero => rfl
  | succ c ih => simp only [bitsOf, ih, Nat.testBit_succ]

/-- Every bit pattern of length `c` is the low-bit pattern of some `n < 2^c`. -/
theorem exists_mask (w : List Bool) : ∃ n, n < 2 ^ w.length ∧ bitsOf n 0 w.length = w := by
  induction w with
  | nil => exact ⟨0, by simp, rfl⟩
  | cons b w ih =>
    obtain ⟨m, hm, hw⟩ := ih
    refine ⟨b.toNat + 2 * m, ?_, ?_⟩
    · have : b.toNat ≤ 1 := Bool.toNat_le b
      simp only [List.length_cons, Nat.pow_succ]; omega
    · have hdiv : (b.toNat + 2 * m) / 2 = m := by
        have : b.toNat ≤ 1 := Bool.toNat_le b
        omega
      simp only [List.length_cons, bitsOf, bitsOf_succ_start, hdiv, hw, Nat.testBit_zero]
      congr 1
      cases b <;> simp <;> omega

/-- … and of only one. -/
theorem mask_unique (c : Nat) : ∀ n n', n < 2 ^ c → n' < 2 ^ c → bitsOf n 0 c = bitsOf n' 0 c → n = n' := by
  induction c with
  | zero => intro n n' h h' _; simp at h h'; omega
  | succ c ih =>
    intro n n' h h' hb
    simp only [bitsOf, bitsOf_succ_start, List.cons.injEq, Nat.testBit_zero] at hb
    have h2 : n / 2 = n' / 2 := ih (n / 2) (n' / 2) (by rw [Nat.pow_succ] at h; omega) (by rw [Nat.pow_succ] at h'; omega) hb.2
    have h1 : (n % 2 = 1) ↔ (n' % 2 = 1) := by simpa using hb.1
    omega

/-! ### The choice-bit array -/

/-- The non-deterministic elements (those that get a choice bit), in list order. -/
def nd (lst : List Elem) : List Elem := lst.filter (fun e => !e.2.isDet)

theorem choiceBits_snd (lst : List Elem) (x : Nat) : (choiceBits lst x).2 = x + (nd lst).length := by
  induction lst generalizing x with
  | nil => rfl
  | cons e rest ih =>
    by_cases hd : e.2.isDet = true
    · simp [choiceBits, nd, hd, ih] 
    · simp [choiceBits, nd, hd, ih]; omega

/-- The Boolean the condition nodes of the pair for mask `n` evaluate to, on the zipped list. -/
def condZ (v : Int → Bool) (n : Nat) (z : List (Elem × Option Nat)) : Bool :=
  (z.filter (keepCond n)).all (fun e => e.1.2.eval v) && (z.filter (dropCond n)).all (fun e => e.1.2.negate.eval v)

theorem condHolds_pairFor (v : Int → Bool) (lst : List Elem) (bits : List (Option Nat)) (n : Nat) :
    condHolds v (pairFor lst bits n) = condZ v n (lst.zip bits) := by
  simp [condHolds, pairFor, condZ, List.all_append, List.all_map, Node.eval, Function.comp_def]

theorem condZ_cons (v : Int → Bool) (n : Nat) (e : Elem × Option Nat) (z : List (Elem × Option Nat)) :
    condZ v n (e :: z) =
      ((if keepCond n e then e.1.2.eval v else true) && (if dropCond n e then e.1.2.negate.eval v else true)
        && condZ v n z) := by
  unfold condZ
  by_cases hk : keepCond n e = true <;> by_cases hd : dropCond n e = true <;>
    simp [hk, hd, Bool.and_assoc, Bool.and_left_comm]

/-- The condition of the pair generated for mask `n` holds under `v` iff the choice bits of `n` spell out the
    truth values of the non-deterministic elements. -/
theorem condZ_iff (v : Int → Bool) (n : Nat) (lst : List Elem) (x : Nat) :
    condZ v n (lst.zip (choiceBits lst x).1) = true ↔
      bitsOf n x (nd lst).length = (nd lst).map (fun e => e.2.eval v) := by
  induction lst generalizing x with
  | nil => simp [choiceBits, condZ, nd, bitsOf]
  | cons e rest ih =>
    by_cases hd : e.2.isDet = true
    · have hnd : nd (e :: rest) = nd rest := by simp [nd, hd]
      have hcb : (choiceBits (e :: rest) x).1 = none :: (choiceBits rest x).1 := by simp [choiceBits, hd]
      rw [hnd, hcb, List.zip_cons_cons, condZ_cons, ← ih x]
      by_cases hf : e.2.isFalse = true
      · have ht : e.2.isTrue = false := by
          cases ht : e.2.isTrue with
          | false => rfl
          | true => rw [isFalse_false_of_isTrue ht] at hf; cases hf
        simp [keepCond, dropCond, hf, ht, eval_negate, eval_of_isFalse v hf]
      · have hf' : e.2.isFalse = false := by simpa using hf
        have ht := isTrue_of_isDet_not_isFalse hd hf'
        simp [keepCond, dropCond, hf', ht, eval_of_isTrue v ht]
    · have hnd : nd (e :: rest) = e :: nd rest := by simp [nd, hd]
      have hcb : (choiceBits (e :: rest) x).1 = some x :: (choiceBits rest (x + 1)).1 := by simp [choiceBits, hd]
      rw [hnd, hcb, List.zip_cons_cons, condZ_cons]
      simp only [List.length_cons, bitsOf, List.map_cons, List.cons.injEq, ← ih (x + 1), keepCond, dropCond,
        bitSet_eq_testBit, eval_negate]
      cases n.testBit x <;> cases e.2.eval v <;> simp

/-- … and then the listed terms are exactly the elements whose node is true. -/
theorem terms_eq (v : Int → Bool) (n : Nat) (lst : List Elem) (x : Nat)
    (h : bitsOf n x (nd lst).length = (nd lst).map (fun e => e.2.eval v)) :
    ((lst.zip (choiceBits lst x).1).filter (keepCond n)).map (fun e => e.1.1) = trueSublist v lst := by
  induction lst generalizing x with
  | nil => simp [choiceBits, trueSublist]
  | cons e rest ih =>
    by_cases hd : e.2.isDet = true
    · have hnd : nd (e :: rest) = nd rest := by simp [nd, hd]
      have hcb : (choiceBits (e :: rest) x).1 = none :: (choiceBits rest x).1 := by simp [choiceBits, hd]
      rw [hnd] at h
      rw [hcb, List.zip_cons_cons]
      have ih' := ih x h
      by_cases hf : e.2.isFalse = true
      · have ht : e.2.isTrue = false := by
          cases ht : e.2.isTrue with
          | false => rfl
          | true => rw [isFalse_false_of_isTrue ht] at hf; cases hf
        simp [keepCond, ht, trueSublist, eval_of_isFalse v hf] at ih' ⊢
        exact ih'
      · have hf' : e.2.isFalse = false := by simpa using hf
        have ht := isTrue_of_isDet_not_isFalse hd hf'
        simp [keepCond, ht, trueSublist, eval_of_isTrue v ht] at ih' ⊢
        exact ih'
    · have hnd : nd (e :: rest) = e :: nd rest := by simp [nd, hd]
      have hcb : (choiceBits (e :: rest) x).1 = some x :: (choiceBits rest (x + 1)).1 := by simp [choiceBits, hd]
      rw [hnd] at h
      simp only [List.length_cons, bitsOf, List.map_cons, List.cons.injEq] at h
      rw [hcb, List.zip_cons_cons]
      have ih' := ih (x + 1) h.2
      cases hb : e.2.eval v <;>
        simp [keepCond, bitSet_eq_testBit, h.1, hb, trueSublist] at ih' ⊢ <;> exact ih'

/-! ### The countdown of masks -/

theorem length_countdown (m : Nat) : (countdown m).length = m + 1 := by
  induction m with
  | zero => rfl
  | succ m ih => simp [countdown, ih]

theorem getElem_countdown (m k : Nat) (h : k < (countdown m).length) : (countdown m)[k] = m - k := by
  induction m generalizing k with
  | zero =>
    have : k = 0 := by simp [countdown] at h; omega
    subst this; rfl
  | succ m ih =>
    cases k with
    | zero => rfl
    | succ k =>
      simp only [countdown, List.getElem_cons_succ]
      rw [ih]; omega

theorem mem_countdown (m n : Nat) : n ∈ countdown m ↔ n ≤ m := by
  induction m with
  | zero => simp [countdown]
  | succ m ih => simp only [countdown, List.mem_cons, ih]; omega

/-- Filtering the countdown with a predicate that singles out one value `n0 ≤ m` leaves `[n0]`. -/
theorem filter_countdown_eq_singleton (p : Nat → Bool) (n0 : Nat) :
    ∀ m, n0 ≤ m → (∀ n, n ≤ m → (p n = true ↔ n = n0)) → (countdown m).filter p = [n0] := by
  have hnone : ∀ m, (∀ n, n ≤ m → p n = false) → (countdown m).filter p = [] := by
    intro m hm
    rw [List.filter_eq_nil_iff]
    intro a ha
    rw [mem_countdown] at ha
    simp [hm a ha]
  intro m
  induction m with
  | zero =>
    intro h0 hp
    have : n0 = 0 := by omega
    subst this
    have : p 0 = true := (hp 0 (Nat.le_refl 0)).2 rfl
    simp [countdown, this]
  | succ m ih =>
    intro h0 hp
    by_cases he : n0 = m + 1
    · subst he
      have h1 : p (m + 1) = true := (hp _ (Nat.le_refl _)).2 rfl
      have h2 : (countdown m).filter p = [] := by
        apply hnone
        intro n hn
        cases hpn : p n with
        | false => rfl
        | true => have := (hp n (by omega)).1 hpn; omega
      simp [countdown, h1, h2]
    · have h1 : p (m + 1) = false := by
        cases hpn : p (m + 1) with
        | false => rfl
        | true => have := (hp (m + 1) (Nat.le_refl _)).1 hpn; omega
      have h2 := ih (by omega) (fun n hn => hp n (by omega))
      simp [countdown, h1, h2]

/-! ### Putting it together: the mask of a valuation -/

theorem pairFor_terms (lst : List Elem) (bits : List (Option Nat)) (n : Nat) :
    (pairFor lst bits n).1 = ((lst.zip bits).filter (keepCond n)).map (fun e => e.1.1) := by
  simp [pairFor, List.map_map, Function.comp_def]

/-- For every valuation there is exactly one mask below `2^x` whose pair has a true condition; that pair lists
    the true elements. -/
theorem select_mask (v : Int → Bool) (lst : List Elem) :
    ∃ n0, n0 < 2 ^ (nd lst).length ∧
      (∀ n, n < 2 ^ (nd lst).length →
        (condHolds v (pairFor lst (choiceBits lst 0).1 n) = true ↔ n = n0)) ∧
      (pairFor lst (choiceBits lst 0).1 n0).1 = trueSublist v lst := by
  obtain ⟨n0, hlt, hbits⟩ := exists_mask ((nd lst).map (fun e => e.2.eval v))
  rw [List.length_map] at hlt hbits
  refine ⟨n0, hlt, ?_, ?_⟩
  · intro n hn
    rw [condHolds_pairFor, condZ_iff]
    constructor
    · intro h
      exact mask_unique _ n n0 hn hlt (h.trans hbits.symm)
    · intro h; subst h; exact hbits
  · rw [pairFor_terms]
    exact terms_eq v n0 lst 0 hbits

theorem selectSublist_eq (lst : List Elem) :
    selectSublist lst = (countdown (2 ^ (nd lst).length - 1)).map (pairFor lst (choiceBits lst 0).1) := by
  simp [selectSublist, choiceBits_snd, Nat.one_shiftLeft]

theorem length_selectSublist (lst : List Elem) : (selectSublist lst).length = 2 ^ (nd lst).length := by
  have := Nat.two_pow_pos (nd lst).length
  rw [selectSublist_eq, List.length_map, length_countdown]; omega

theorem getElem_selectSublist (lst : List Elem) (k : Nat) (h : k < (selectSublist lst).length) :
    (selectSublist lst)[k] = pairFor lst (choiceBits lst 0).1 (2 ^ (nd lst).length - 1 - k) := by
  simp only [selectSublist_eq, List.getElem_map, getElem_countdown]

/-- The pairs whose condition holds under `v`: exactly one, listing the true elements. -/
theorem filter_selectSublist (v : Int → Bool) (lst : List Elem) :
    ∃ p, (selectSublist lst).filter (condHolds v) = [p] ∧ p.1 = trueSublist v lst := by
  obtain ⟨n0, hlt, hiff, hterms⟩ := select_mask v lst
  refine ⟨pairFor lst (choiceBits lst 0).1 n0, ?_, hterms⟩
  rw [selectSublist_eq, List.filter_map,
    filter_countdown_eq_singleton _ n0 _ (by omega) (fun n hn => by
      have := Nat.two_pow_pos (nd lst).length
      exact hiff n (by omega))]
  rfl

/-! ### `add_and` returning FALSE -/

theorem opposite_eval (v : Int → Bool) {a b : Node} (h : opposite a b = true) : a.eval v = !b.eval v := by
  cases a <;> cases b <;> simp [opposite] at h
  rename_i i j
  obtain ⟨hi, hij⟩ := h
  have hj : ¬ j = 0 := by omega
  have := eval_negate v (Node.lit j)
  simp only [Node.negate, hj, beq_iff_eq, if_false] at this
  rw [hij]; exact this

theorem conjIsFalse_unsat (v : Int → Bool) {ns : List Node} (h : conjIsFalse ns = true) :
    ns.all (Node.eval v) = false := by
  rw [List.all_eq_false]
  simp only [conjIsFalse, Bool.or_eq_true, List.any_eq_true] at h
  rcases h with ⟨a, ha, hf⟩ | ⟨a, ha, b, hb, hab⟩
  · exact ⟨a, ha, by simp [eval_of_isFalse v hf]⟩
  · have := opposite_eval v hab
    cases hbv : b.eval v with
    | true => exact ⟨a, ha, by simp [this, hbv]⟩
    | false => exact ⟨b, hb, by simp [hbv]⟩

end ProbLogProofs.FindallLemmas
