/-
`rootWeight` of the loaded store (value of the LAST STORE NODE) equals `evalC` (value of the LAST LINE): the last
line is an `A`/`O` line and its node is the last one, or it is a literal and `_load_nnf` appended the explicit root
`conj [key of the last line]` (before that repair the root weight of `L -x` was the POSITIVE weight of the atom).
Core only.
-/
import ProbLogProofs.Lemmas.DDNNFBridgeMain
namespace ProbLogProofs.DDNNF
open ProbLogModel.DDNNF ProbLogModel.Formula ProbLogModel.Clark

theorem getLast?_of_get_len {α} {l : List α} {x : α} (_hpos : 1 ≤ l.length) (h : l[l.length - 1]? = some x) :
    l.getLast? = some x := by
  rw [List.getLast?_eq_getElem?]; exact h

theorem rootWeight_eq_evalC_compound {c : Circuit} {ld : Loaded} (h : Rep c ld) (hf : Forward c) (hz : LitsNonzero c)
    (ws : List (Nat × (Rat × Rat))) (nd : NNode) (hlast : c.getLast? = some nd) (hcomp : isCompound nd = true) :
    rootWeight ld.store ws = evalC ratSR (circW ld.store (wfun ws)) c := by
  have hne : c ≠ [] := by intro e; subst e; simp at hlast
  have hpos : 0 < c.length := List.length_pos_iff.mpr hne
  have hj : c.length - 1 < c.length := by omega
  have hcj : c[c.length - 1]? = some nd := by rw [← List.getLast?_eq_getElem?]; exact hlast
  have hnd : c[c.length - 1] = nd := by
    rw [List.getElem?_eq_getElem hj] at hcj; exact Option.some.inj hcj
  have hl2n : ld.line2node[c.length - 1]? = some (some (ld.store.nodes.length : Int)) := by
    have := h.last nd hlast hcomp
    rw [List.getLast?_eq_getElem?, h.len] at this; exact this
  have hline := nodeWeights_eq_evalLines h hf hz (wfun ws) (c.length - 1) hj
  have hev : evalC ratSR (circW ld.store (wfun ws)) c =
      (evalLines ratSR (circW ld.store (wfun ws)) c).getD (c.length - 1) 0 := by
    unfold evalC
    rw [evalLines_eq, linesOf_getLast? (0 : Rat) _ c hne]
  rw [hev, ← hline]
  rcases h.key_cases hz (c.length - 1) hj with ⟨l, i, a, g, e, n, hl, _⟩ | ⟨m, _, hm1, hk, hget, hnode⟩
  · rw [hcj] at hl
    have : nd = .lit l := Option.some.inj hl
    subst this
    simp [isCompound] at hcomp
  · have hm : m = ld.store.nodes.length := by
      rw [hget] at hl2n
      have : (m : Int) = (ld.store.nodes.length : Int) := by simpa using hl2n
      omega
    subst hm
    have hne0 : ((ld.store.nodes.length : Nat) : Int) ≠ 0 := by omega
    have habs : ((ld.store.nodes.length : Nat) : Int).natAbs = ld.store.nodes.length := by omega
    have hNW : (nodeWeights ld.store (wfun ws)).length = ld.store.nodes.length := by
      rw [nodeWeights_eq, tbl_length]
    have hlastNW : (nodeWeights ld.store (wfun ws)).getLast?.getD 1 =
        (nodeWeights ld.store (wfun ws)).getD (ld.store.nodes.length - 1) 0 := by
      rw [List.getLast?_eq_getElem?, hNW, List.getD_eq_getElem?_getD]
      have : ld.store.nodes.length - 1 < (nodeWeights ld.store (wfun ws)).length := by omega
      rw [List.getElem?_eq_getElem this]
      rfl
    rw [hk]
    rcases hnode with ⟨cs, n, _, hn⟩ | ⟨d, cs, n, _, hn⟩
    · rw [childW_conj _ _ _ _ hne0 (by rw [habs]; exact hn), habs, ← hlastNW]
      unfold rootWeight
      rw [getLast?_of_get_len hm1 hn]
    · rw [childW_disj _ _ _ _ hne0 (by rw [habs]; exact hn), habs, ← hlastNW]
      unfold rootWeight
      rw [getLast?_of_get_len hm1 hn]

theorem rootWeight_eq_evalC_lit {c : Circuit} {ld : Loaded} (h : Rep c ld) (hroot : RootOK c ld) (hf : Forward c)
    (hz : LitsNonzero c) (ws : List (Nat × (Rat × Rat))) (l : Int) (hlast : c.getLast? = some (NNode.lit l)) :
    rootWeight ld.store ws = evalC ratSR (circW ld.store (wfun ws)) c := by
  have hne : c ≠ [] := by intro e; subst e; simp at hlast
  have hpos : 0 < c.length := List.length_pos_iff.mpr hne
  have hj : c.length - 1 < c.length := by omega
  have hline := nodeWeights_eq_evalLines h hf hz (wfun ws) (c.length - 1) hj
  have hev : evalC ratSR (circW ld.store (wfun ws)) c =
      (evalLines ratSR (circW ld.store (wfun ws)) c).getD (c.length - 1) 0 := by
    unfold evalC
    rw [evalLines_eq, linesOf_getLast? (0 : Rat) _ c hne]
  rw [hev, ← hline]
  -- the key of the last line
  have hkey : ld.line2node.getLast?.getD none = lineKey ld (c.length - 1) := by
    unfold lineKey
    rw [List.getLast?_eq_getElem?, h.len, List.getD_eq_getElem?_getD]
  have hsh := hroot l hlast
  rw [hkey, List.getLast?_eq_getElem?, shapes_length] at hsh
  obtain ⟨n, hn⟩ := shapes_get_conj hsh
  have hlen1 : 1 ≤ ld.store.nodes.length := by
    have := getElem?_lt_of_some hn; omega
  have hlt : ld.store.nodes.length - 1 < ld.store.nodes.length := by omega
  have hnode : ld.store.nodes[ld.store.nodes.length - 1] = .conj [lineKey ld (c.length - 1)] n := by
    rw [List.getElem?_eq_getElem hlt] at hn; exact Option.some.inj hn
  have hNW : (nodeWeights ld.store (wfun ws)).length = ld.store.nodes.length := by
    rw [nodeWeights_eq, tbl_length]
  have hg := tbl_get (nodeW ld.store (wfun ws)) ld.store.nodes (ld.store.nodes.length - 1) hlt
  -- the last line is a literal: its key is an atom literal, whose value does not depend on the table
  rcases h.key_cases hz (c.length - 1) hj with ⟨l', i, a, g, e, n', _, _, hi, _, hk, hatom⟩ |
      ⟨m, hcomp, _, _, _, _⟩
  · have hne0 : (if l' < 0 then -(i : Int) else (i : Int)) ≠ 0 := by split <;> omega
    have habs : (if l' < 0 then -(i : Int) else (i : Int)).natAbs = i := by split <;> omega
    unfold rootWeight
    rw [getLast?_of_get_len hlen1 hn]
    simp only
    rw [List.getLast?_eq_getElem?, hNW, nodeWeights_eq, hg, hnode]
    simp only [Option.getD_some, nodeW, List.foldl_cons, List.foldl_nil, ← nodeWeights_eq]
    rw [hk, childW_atom _ _ _ _ hne0 (by rw [habs]; exact hatom), childW_atom _ _ _ _ hne0 (by rw [habs]; exact hatom)]
    exact Rat.one_mul _
  · have hcj : c[c.length - 1]? = some (NNode.lit l) := by rw [← List.getLast?_eq_getElem?]; exact hlast
    rw [List.getElem?_eq_getElem hj] at hcj
    rw [Option.some.inj hcj] at hcomp
    simp [isCompound] at hcomp

/-- **root weight = circuit value**, every non-empty circuit -/
theorem rootWeight_eq_evalC {c : Circuit} {ld : Loaded} (h : Rep c ld) (hroot : RootOK c ld) (hf : Forward c)
    (hz : LitsNonzero c) (ws : List (Nat × (Rat × Rat))) (hne : c ≠ []) :
    rootWeight ld.store ws = evalC ratSR (circW ld.store (wfun ws)) c := by
  cases hl : c.getLast? with
  | none => rw [List.getLast?_eq_none_iff] at hl; exact absurd hl hne
  | some nd =>
    cases nd with
    | lit l => exact rootWeight_eq_evalC_lit h hroot hf hz ws l hl
    | and cs => exact rootWeight_eq_evalC_compound h hf hz ws _ hl rfl
    | or d cs => exact rootWeight_eq_evalC_compound h hf hz ws _ hl rfl

/-- the empty circuit loads to the empty store: root weight `one`, as `evalC` -/
theorem loadNnf_nil_nodes (cnf : CNF) (ns : List (Label × Name × Key)) : (loadNnf [] cnf ns).store.nodes = [] := by
  rw [loadNnf_eq]
  obtain ⟨h1, _⟩ := loadFinish_fields cnf ns
    (loadRoot [] (([] : Circuit).foldl (loadStep cnf ns) (⟨loadInit, []⟩, [])).1,
      (([] : Circuit).foldl (loadStep cnf ns) (⟨loadInit, []⟩, [])).2)
  have : shapes (loadRoot [] (([] : Circuit).foldl (loadStep cnf ns) (⟨loadInit, []⟩, [])).1).store = [] := rfl
  rw [this] at h1
  unfold shapes at h1
  exact List.map_eq_nil_iff.mp h1

/-- **root weight of the loaded store = `evalC`**, every validated circuit whose literal lines create atoms -/
theorem loadNnf_rootWeight (c : Circuit) (cnf : CNF) (ns : List (Label × Name × Key)) (hv : Valid c)
    (hn : litsNormal cnf c = true) (ws : List (Nat × (Rat × Rat))) :
    rootWeight (loadNnf c cnf ns).store ws = evalC ratSR (circW (loadNnf c cnf ns).store (wfun ws)) c := by
  by_cases hne : c = []
  · subst hne
    unfold rootWeight
    rw [loadNnf_nil_nodes]
    rfl
  · exact rootWeight_eq_evalC (loadNnf_rep c cnf ns hn) (loadNnf_rootOK c cnf ns hn) hv.forward hv.litsNonzero ws hne

end ProbLogProofs.DDNNF
