/-
`rootWeight` of the loaded store (value of the LAST STORE NODE) versus `evalC` (value of the LAST LINE):
equal when the last line is an `A`/`O` line; for a one-line circuit `L l` the root weight is the POSITIVE weight of
the atom whatever the sign of `l`. Core only.
-/
import ProbLogProofs.Lemmas.DDNNFBridgeMain
namespace ProbLogProofs.DDNNF
open ProbLogModel.DDNNF ProbLogModel.Formula ProbLogModel.Clark

theorem getLast?_of_get_len {α} {l : List α} {x : α} (_hpos : 1 ≤ l.length) (h : l[l.length - 1]? = some x) :
    l.getLast? = some x := by
  rw [List.getLast?_eq_getElem?]; exact h

theorem rootWeight_eq_evalC {c : Circuit} {ld : Loaded} (h : Rep c ld) (hf : Forward c) (hz : LitsNonzero c)
    (ws : List (Nat × (Rat × Rat))) (nd : NNode) (hlast : c.getLast? = some nd) (hcomp : isCompound nd = true) :
    rootWeight ld.store ws = evalC ratSR (circW ld.store (wfun ws)) c := by
  have hne : c ≠ [] := by intro e; subst e; simp at hlast
  have hpos : 0 < c.length := List.length_pos_iff.mpr hne
  have hj : c.length - 1 < c.length := by omega
  have hcj : c[c.length - 1]? = some nd := by rw [← List.getLast?_eq_getElem?]; exact hlast
  have hnd : c[c.length - 1] = nd := by
    rw [List.getElem?_eq_getElem hj] at hcj; exact Option.some.inj hcj
  have hl2n : ld.line2node[c.length - 1]? = some (some (ld.store.nodes.length : Int)) := by
    have := h.last nd hlast hcomp
    rw [List.getLast?_eq_getElem?, h.len] at this; exact this
  have hline := nodeWeights_eq_evalLines h hf hz (wfun ws) (c.length - 1) hj
  have hev : evalC ratSR (circW ld.store (wfun ws)) c =
      (evalLines ratSR (circW ld.store (wfun ws)) c).getD (c.length - 1) 0 := by
    unfold evalC
    rw [evalLines_eq, linesOf_getLast? (0 : Rat) _ c hne]
  rw [hev, ← hline]
  rcases h.key_cases hz (c.length - 1) hj with ⟨l, i, a, g, e, n, hl, _⟩ | ⟨m, _, hm1, hk, hget, hnode⟩
  · rw [hcj] at hl
    have : nd = .lit l := Option.some.inj hl
    subst this
    simp [isCompound] at hcomp
  · have hm : m = ld.store.nodes.length := by
      rw [hget] at hl2n
      have : (m : Int) = (ld.store.nodes.length : Int) := by simpa using hl2n
      omega
    subst hm
    have hne0 : ((ld.store.nodes.length : Nat) : Int) ≠ 0 := by omega
    have habs : ((ld.store.nodes.length : Nat) : Int).natAbs = ld.store.nodes.length := by omega
    have hNW : (nodeWeights ld.store (wfun ws)).length = ld.store.nodes.length := by
      rw [nodeWeights_eq, tbl_length]
    have hlastNW : (nodeWeights ld.store (wfun ws)).getLast?.getD 1 =
        (nodeWeights ld.store (wfun ws)).getD (ld.store.nodes.length - 1) 0 := by
      rw [List.getLast?_eq_getElem?, hNW, List.getD_eq_getElem?_getD]
      have : ld.store.nodes.length - 1 < (nodeWeights ld.store (wfun ws)).length := by omega
      rw [List.getElem?_eq_getElem this]
      rfl
    rw [hk]
    rcases hnode with ⟨cs, n, _, hn⟩ | ⟨d, cs, n, _, hn⟩
    · rw [childW_conj _ _ _ _ hne0 (by rw [habs]; exact hn), habs, ← hlastNW]
      unfold rootWeight
      rw [getLast?_of_get_len hm1 hn]
    · rw [childW_disj _ _ _ _ hne0 (by rw [habs]; exact hn), habs, ← hlastNW]
      unfold rootWeight
      rw [getLast?_of_get_len hm1 hn]

/-- one-line circuit `L l`: the loaded store is the single atom node 1 and `rootWeight` is its POSITIVE weight -/
theorem rootWeight_single_lit (cnf : CNF) (ns : List (Label × Name × Key)) (l : Int) (hn : litNormal cnf l = true)
    (ws : List (Nat × (Rat × Rat))) :
    atomOf (loadNnf [.lit l] cnf ns).store l.natAbs = 1 ∧
      rootWeight (loadNnf [.lit l] cnf ns).store ws = (wfun ws 1).1 := by
  rw [loadNnf_eq]
  obtain ⟨h1, h2, _, _⟩ := loadFinish_fields cnf ns ([NNode.lit l].foldl (loadStep cnf ns) (⟨loadInit, []⟩, []))
  simp only [List.foldl_cons, List.foldl_nil] at h1 h2 ⊢
  obtain ⟨S2, heq, hsh2, hidx2, _⟩ := loadStep_lit cnf ns ⟨loadInit, []⟩ [] l hn
  rw [heq] at h1 h2
  simp only at h1 h2
  obtain ⟨i, _, hlk, _, hcase⟩ := addAtom_normal loadInit (.user (l.natAbs : Int))
    ((lookup cnf.weights l.natAbs).getD .neutral)
  generalize (loadFinish cnf ns (loadStep cnf ns (⟨loadInit, []⟩, []) (.lit l))).store = S at h1 h2 ⊢
  rcases hcase with ⟨hfound, _⟩ | ⟨_, hi, hnodes, _⟩
  · simp [loadInit, lookup] at hfound
  · have hi1 : i = 1 := by simpa [loadInit] using hi
    subst hi1
    have hshapes : shapes S = [.atom (.user (l.natAbs : Int)) none false none] := by
      rw [h1, hsh2]; unfold shapes; rw [hnodes]; rfl
    refine ⟨?_, ?_⟩
    · unfold atomOf; rw [h2, hidx2, hlk]; rfl
    · have hlen : S.nodes.length = 1 := by rw [← shapes_length, hshapes]; rfl
      have h0 : (shapes S)[0]? = some (.atom (.user (l.natAbs : Int)) none false none) := by rw [hshapes]; rfl
      obtain ⟨n, hn0⟩ := shapes_get_atom h0
      have hlast : S.nodes.getLast? = some (.atom (.user (l.natAbs : Int)) none false n) := by
        rw [List.getLast?_eq_getElem?, hlen]; exact hn0
      unfold rootWeight
      rw [hlast, hlen]

end ProbLogProofs.DDNNF
