import ProbLogModel.Formula
/-!
# C11 helper lemmas (1): definitions `Node.erase`, `Grows`, `WF`, `Kind.sem`; list / key / lookup lemmas
-/
namespace ProbLogModel.Formula

/-! ### definitions -/

/-- Drop the name of a node. -/
def Node.erase : Node → Node
  | .atom i g e _ => .atom i g e none
  | .conj c _ => .conj c none
  | .disj c _ => .disj c none

/-- The node array only grows; names of existing nodes may change. -/
def Grows (S S' : Store) : Prop := ∃ ext, S'.nodes.map Node.erase = S.nodes.map Node.erase ++ ext

/-- Hash-consing invariant: what the index tables return points to a node of that shape. -/
structure WF (S : Store) : Prop where
  conj : ∀ cs i, lookup S.idxConj cs = some i → 1 ≤ i ∧ ∃ nm, S.nodes[i - 1]? = some (Node.conj cs nm)
  disj : ∀ cs i, lookup S.idxDisj cs = some i → 1 ≤ i ∧ ∃ nm, S.nodes[i - 1]? = some (Node.disj cs nm)
  atom : ∀ id i, lookup S.idxAtom id = some i → 1 ≤ i ∧ ∃ g e nm, S.nodes[i - 1]? = some (Node.atom id g e nm)

/-- Boolean meaning of a compound over a child list. -/
def Kind.sem (kind : Kind) (content : List Key) (ρ : Nat → Bool) : Bool :=
  match kind with
  | .conj => content.all (keyVal ρ)
  | .disj => content.any (keyVal ρ)

def Kind.mk : Kind → List Key → Option Name → Node
  | .conj, cs, n => .conj cs n
  | .disj, cs, n => .disj cs n

def Kind.idx : Kind → Store → List (List Key × Nat)
  | .conj, S => S.idxConj
  | .disj, S => S.idxDisj

/-! ### keys -/

theorem keyVal_pos (ρ : Nat → Bool) (i : Nat) (h : 1 ≤ i) : keyVal ρ (some (i : Int)) = ρ i := by
  unfold keyVal
  have h0 : ¬ ((i : Int) = 0) := by omega
  have h1 : ¬ ((i : Int) < 0) := by omega
  simp only [h0, h1, if_false, Int.natAbs_natCast]

theorem keyVal_neg (ρ : Nat → Bool) (k : Int) (h0 : k ≠ 0) : keyVal ρ (some (-k)) = !(keyVal ρ (some k)) := by
  unfold keyVal
  have h1 : -k ≠ 0 := by omega
  simp only [h0, h1, if_false]
  by_cases hk : k < 0
  · have : ¬ (-k < 0) := by omega
    simp [hk, Int.natAbs_neg]; omega
  · have : -k < 0 := by omega
    simp [hk, Int.natAbs_neg]; omega

/-! ### lists -/

theorem mem_dedup : ∀ (l : List Key) (y : Key), y ∈ dedup l ↔ y ∈ l
  | [], y => by simp [dedup]
  | a :: l, y => by
    simp only [dedup, List.mem_cons, List.mem_filter, mem_dedup l y, bne_iff_ne, ne_eq]
    constructor
    · rintro (h | ⟨h, _⟩)
      · exact Or.inl h
      · exact Or.inr h
    · rintro (h | h)
      · exact Or.inl h
      · by_cases hya : y = a
        · exact Or.inl hya
        · exact Or.inr ⟨h, hya⟩

theorem all_congr_mem (p : Key → Bool) (l l' : List Key) (f : Key) (hf : p f = true)
    (h : ∀ x, x ∈ l' ↔ (x ∈ l ∧ x ≠ f)) : l'.all p = l.all p := by
  rw [Bool.eq_iff_iff]
  simp only [List.all_eq_true]
  constructor
  · intro H x hx
    by_cases hxf : x = f
    · subst hxf; exact hf
    · exact H x ((h x).2 ⟨hx, hxf⟩)
  · intro H x hx; exact H x ((h x).1 hx).1

theorem any_congr_mem (p : Key → Bool) (l l' : List Key) (f : Key) (hf : p f = false)
    (h : ∀ x, x ∈ l' ↔ (x ∈ l ∧ x ≠ f)) : l'.any p = l.any p := by
  rw [Bool.eq_iff_iff]
  simp only [List.any_eq_true]
  constructor
  · rintro ⟨x, hx, hp⟩; exact ⟨x, ((h x).1 hx).1, hp⟩
  · rintro ⟨x, hx, hp⟩
    refine ⟨x, (h x).2 ⟨hx, ?_⟩, hp⟩
    intro hxf; subst hxf; rw [hf] at hp; cases hp

theorem sem_f (kind : Kind) (ρ : Nat → Bool) :
    (match kind with | .conj => keyVal ρ kind.f = true | .disj => keyVal ρ kind.f = false) := by
  cases kind <;> rfl

/-- Dropping the neutral element (and possibly duplicates) does not change the meaning. -/
theorem sem_congr_mem (kind : Kind) (ρ : Nat → Bool) (l l' : List Key)
    (h : ∀ x, x ∈ l' ↔ (x ∈ l ∧ x ≠ kind.f)) : kind.sem l' ρ = kind.sem l ρ := by
  cases kind
  · exact all_congr_mem _ l l' _ rfl h
  · exact any_congr_mem _ l l' _ rfl h

theorem mem_c2 (kind : Kind) (kd : Bool) (content : List Key) (x : Key) :
    x ∈ (if kd then content.filter (· != kind.f) else dedup (content.filter (· != kind.f))) ↔
      (x ∈ content ∧ x ≠ kind.f) := by
  cases kd <;> simp [mem_dedup, List.mem_filter]

theorem sem_t (kind : Kind) (ρ : Nat → Bool) (l : List Key) (h : kind.t ∈ l) :
    kind.sem l ρ = keyVal ρ kind.t := by
  cases kind
  · show l.all (keyVal ρ) = false
    rw [List.all_eq_false]; exact ⟨none, h, by simp [keyVal]⟩
  · show l.any (keyVal ρ) = true
    rw [List.any_eq_true]; exact ⟨some 0, h, rfl⟩

theorem sem_nil (kind : Kind) (ρ : Nat → Bool) : kind.sem [] ρ = keyVal ρ kind.f := by
  cases kind <;> rfl

theorem sem_single (kind : Kind) (ρ : Nat → Bool) (c : Key) : kind.sem [c] ρ = keyVal ρ c := by
  cases kind <;> simp [Kind.sem]

theorem hasOpp_spec (l : List Key) (h : hasOpp l = true) :
    ∃ k : Int, k ≠ 0 ∧ some k ∈ l ∧ some (-k) ∈ l := by
  unfold hasOpp at h
  rw [List.any_eq_true] at h
  obtain ⟨x, hx, hc⟩ := h
  cases x with
  | none => simp at hc
  | some k =>
    simp only [Bool.and_eq_true, bne_iff_ne, ne_eq, List.contains_eq_mem, decide_eq_true_eq] at hc
    exact ⟨k, hc.1, hx, hc.2⟩

theorem sem_hasOpp (kind : Kind) (ρ : Nat → Bool) (l : List Key) (h : hasOpp l = true) :
    kind.sem l ρ = keyVal ρ kind.t := by
  obtain ⟨k, hk0, hk, hnk⟩ := hasOpp_spec l h
  have hneg := keyVal_neg ρ k hk0
  cases kind
  · show l.all (keyVal ρ) = false
    rw [List.all_eq_false]
    cases hv : keyVal ρ (some k)
    · exact ⟨some k, hk, by simp [hv]⟩
    · exact ⟨some (-k), hnk, by simp [hneg, hv]⟩
  · show l.any (keyVal ρ) = true
    rw [List.any_eq_true]
    cases hv : keyVal ρ (some k)
    · exact ⟨some (-k), hnk, by simp [hneg, hv]⟩
    · exact ⟨some k, hk, hv⟩

/-! ### lookup -/

theorem lookup_append {α β} [BEq α] (l : List (α × β)) (a : α) (b : β) (x : α) :
    lookup (l ++ [(a, b)]) x =
      match lookup l x with
      | some v => some v
      | none => if a == x then some b else none := by
  induction l with
  | nil => simp [lookup]
  | cons p l ih =>
    obtain ⟨a', b'⟩ := p
    simp only [List.cons_append, lookup]
    by_cases h : (a' == x) = true
    · simp [h]
    · simp only [h]; exact ih

/-! ### erase / Grows -/

theorem erase_setName (nd : Node) (n : Option Name) : Node.erase (nd.setName n) = Node.erase nd := by
  cases nd <;> rfl

theorem erase_eq_conj {nd : Node} {cs : List Key} {nm : Option Name}
    (h : Node.erase nd = Node.erase (.conj cs nm)) : ∃ nm', nd = .conj cs nm' := by
  cases nd <;> simp [Node.erase] at h
  exact ⟨_, by rw [h]⟩

theorem erase_eq_disj {nd : Node} {cs : List Key} {nm : Option Name}
    (h : Node.erase nd = Node.erase (.disj cs nm)) : ∃ nm', nd = .disj cs nm' := by
  cases nd <;> simp [Node.erase] at h
  exact ⟨_, by rw [h]⟩

theorem erase_eq_atom {nd : Node} {id : Ident} {g e} {nm : Option Name}
    (h : Node.erase nd = Node.erase (.atom id g e nm)) : ∃ nm', nd = .atom id g e nm' := by
  cases nd <;> simp [Node.erase] at h
  obtain ⟨rfl, rfl, rfl⟩ := h
  exact ⟨_, rfl⟩

theorem Grows.refl (S : Store) : Grows S S := ⟨[], by simp⟩

theorem Grows.trans {S S' S'' : Store} (h1 : Grows S S') (h2 : Grows S' S'') : Grows S S'' := by
  obtain ⟨e1, h1⟩ := h1
  obtain ⟨e2, h2⟩ := h2
  exact ⟨e1 ++ e2, by rw [h2, h1, List.append_assoc]⟩

theorem Grows.of_nodes_eq {S S' : Store} (h : S'.nodes = S.nodes) : Grows S S' := ⟨[], by simp [h]⟩

theorem Grows.of_append {S S' : Store} (ext : List Node) (h : S'.nodes = S.nodes ++ ext) : Grows S S' :=
  ⟨ext.map Node.erase, by simp [h]⟩

/-- A node of `S` is still there in `S'` up to its name. -/
theorem Grows.get {S S' : Store} (h : Grows S S') {j : Nat} {nd : Node} (hj : S.nodes[j]? = some nd) :
    ∃ nd', S'.nodes[j]? = some nd' ∧ Node.erase nd' = Node.erase nd := by
  obtain ⟨ext, h⟩ := h
  have h1 : (S.nodes.map Node.erase)[j]? = some (Node.erase nd) := by simp [hj]
  have hlt : j < (S.nodes.map Node.erase).length := by
    rcases Nat.lt_or_ge j (S.nodes.map Node.erase).length with hlt | hge
    · exact hlt
    · rw [List.getElem?_eq_none hge] at h1; cases h1
  have h2 : (S'.nodes.map Node.erase)[j]? = some (Node.erase nd) := by
    rw [h, List.getElem?_append_left hlt]; exact h1
  rw [List.getElem?_map] at h2
  cases h3 : S'.nodes[j]? with
  | none => rw [h3] at h2; cases h2
  | some nd' =>
    rw [h3] at h2
    exact ⟨nd', rfl, by simpa using h2⟩

theorem Grows.get_conj {S S' : Store} (h : Grows S S') {j : Nat} {cs : List Key} {nm : Option Name} (hj : S.nodes[j]? = some (Node.conj cs nm)) :
    ∃ nm', S'.nodes[j]? = some (Node.conj cs nm') := by
  obtain ⟨nd', h1, h2⟩ := h.get hj
  obtain ⟨nm', rfl⟩ := erase_eq_conj h2
  exact ⟨nm', h1⟩

theorem Grows.get_disj {S S' : Store} (h : Grows S S') {j : Nat} {cs : List Key} {nm : Option Name} (hj : S.nodes[j]? = some (Node.disj cs nm)) :
    ∃ nm', S'.nodes[j]? = some (Node.disj cs nm') := by
  obtain ⟨nd', h1, h2⟩ := h.get hj
  obtain ⟨nm', rfl⟩ := erase_eq_disj h2
  exact ⟨nm', h1⟩

theorem Grows.get_atom {S S' : Store} (h : Grows S S') {j : Nat} {id : Ident} {g : Option Nat} {e : Bool} {nm : Option Name}
    (hj : S.nodes[j]? = some (Node.atom id g e nm)) : ∃ nm', S'.nodes[j]? = some (Node.atom id g e nm') := by
  obtain ⟨nd', h1, h2⟩ := h.get hj
  obtain ⟨nm', rfl⟩ := erase_eq_atom h2
  exact ⟨nm', h1⟩

/-- Valuations consistent with a grown store are consistent with the original one. -/
theorem Grows.consistent {S S' : Store} (h : Grows S S') {ρ : Nat → Bool} (hc : Consistent S' ρ) :
    Consistent S ρ := by
  intro i
  refine ⟨fun cs nm hi => ?_, fun cs nm hi => ?_⟩
  · obtain ⟨nm', h'⟩ := h.get_conj hi
    exact (hc i).1 cs nm' h'
  · obtain ⟨nm', h'⟩ := h.get_disj hi
    exact (hc i).2 cs nm' h'

/-- `WF` is preserved when the node array grows and the index tables stay the same. -/
theorem WF.of_grows {S S' : Store} (hw : WF S) (hg : Grows S S') (hc : S'.idxConj = S.idxConj)
    (hd : S'.idxDisj = S.idxDisj) (ha : S'.idxAtom = S.idxAtom) : WF S' := by
  refine ⟨fun cs i h => ?_, fun cs i h => ?_, fun id i h => ?_⟩
  · rw [hc] at h
    obtain ⟨h1, nm, h2⟩ := hw.conj cs i h
    exact ⟨h1, hg.get_conj h2⟩
  · rw [hd] at h
    obtain ⟨h1, nm, h2⟩ := hw.disj cs i h
    exact ⟨h1, hg.get_disj h2⟩
  · rw [ha] at h
    obtain ⟨h1, g, e, nm, h2⟩ := hw.atom id i h
    obtain ⟨nm', h3⟩ := hg.get_atom h2
    exact ⟨h1, g, e, nm', h3⟩

/-- Setting a node to a renamed copy of itself does not change the erased node array. -/
theorem map_erase_set_setName (l : List Node) (j : Nat) (nd : Node) (n : Option Name)
    (h : l[j]? = some nd) : (l.set j (nd.setName n)).map Node.erase = l.map Node.erase := by
  induction l generalizing j with
  | nil => rfl
  | cons a l ih =>
    cases j with
    | zero =>
      simp only [List.getElem?_cons_zero, Option.some.injEq] at h
      subst h
      simp [List.set, erase_setName]
    | succ j =>
      simp only [List.getElem?_cons_succ] at h
      simp only [List.set, List.map_cons, ih j h]

end ProbLogModel.Formula
