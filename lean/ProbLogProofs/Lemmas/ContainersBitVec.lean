import ProbLogModel.Containers
/-!
Helper lemmas for C34 (BitVector): the block list is read through `getD · 0` and `Nat.testBit`.
-/
namespace ProbLogProofs.ContainersBV
open ProbLogModel.Containers
open ProbLogModel.Containers.BitVec5

theorem and_two_pow' (x i : Nat) : x &&& 2 ^ i = if x.testBit i then 2 ^ i else 0 := by
  apply Nat.eq_of_testBit_eq
  intro j
  rw [Nat.testBit_and, Nat.testBit_two_pow]
  by_cases h : i = j
  · subst h; cases hx : x.testBit i <;> simp
  · cases hx : x.testBit i <;> simp [h]

theorem and_shift_ne_zero (x i : Nat) : ((x &&& (1 <<< i)) != 0) = x.testBit i := by
  rw [Nat.one_shiftLeft, and_two_pow']
  cases hx : x.testBit i <;> simp

theorem shift_and_ne_zero (x i : Nat) : (((1 <<< i) &&& x) != 0) = x.testBit i := by
  rw [Nat.and_comm]; exact and_shift_ne_zero x i

theorem shr5 (j : Nat) : j >>> binBits = j / 32 := by
  simp [binBits, Nat.shiftRight_eq_div_pow]

theorem and_mask (j : Nat) : j &&& mask = j % 32 := by
  have : mask = 2 ^ 5 - 1 := by decide
  rw [this, Nat.and_two_pow_sub_one_eq_mod]

/-- `contains` reads one bit of one block (blocks beyond the end count as 0). -/
theorem contains_eq (s : BitVec5) (j : Nat) :
    s.contains j = (s.blocks.getD (j / 32) 0).testBit (j % 32) := by
  unfold contains
  simp only [shr5, and_mask, and_shift_ne_zero]
  split
  · rename_i h
    rw [List.getD_eq_getElem?_getD, List.getElem?_eq_none h]
    simp
  · rfl

theorem getD_setBlock (l : List Nat) (b v c : Nat) :
    (setBlock l b v).getD c 0 = if c = b ∧ b < l.length then l.getD b 0 ||| v else l.getD c 0 := by
  induction l generalizing b c with
  | nil => simp [setBlock]
  | cons x xs ih =>
    cases b with
    | zero =>
      cases c with
      | zero => simp [setBlock]
      | succ c => simp [setBlock]
    | succ b =>
      cases c with
      | zero => simp [setBlock]
      | succ c =>
        simp only [setBlock, List.getD_cons_succ, ih, List.length_cons]
        simp

theorem length_setBlock (l : List Nat) (b v : Nat) : (setBlock l b v).length = l.length := by
  induction l generalizing b with
  | nil => simp [setBlock]
  | cons x xs ih => cases b <;> simp [setBlock, ih]

theorem getD_append_zeros (l : List Nat) (k c : Nat) :
    (l ++ List.replicate k 0).getD c 0 = l.getD c 0 := by
  simp only [List.getD_eq_getElem?_getD, List.getElem?_append]
  split
  · rfl
  · rename_i h
    rw [List.getElem?_eq_none (Nat.le_of_not_lt h), List.getElem?_replicate]
    split <;> rfl

/-- The blocks after `add`. -/
theorem add_getD (s : BitVec5) (i c : Nat) :
    (s.add i).blocks.getD c 0 =
      if c = i / 32 then s.blocks.getD c 0 ||| 2 ^ (i % 32) else s.blocks.getD c 0 := by
  unfold add
  simp only [shr5, and_mask, Nat.one_shiftLeft]
  rw [getD_setBlock]
  by_cases hn : s.blocks.length ≤ i / 32
  · simp only [hn, if_true, getD_append_zeros, List.length_append, List.length_replicate]
    by_cases hc : c = i / 32
    · subst hc
      have : i / 32 < s.blocks.length + (i / 32 - s.blocks.length + 1) := by omega
      simp [this]
    · simp [hc]
  · simp only [hn, if_false]
    by_cases hc : c = i / 32
    · subst hc
      have : i / 32 < s.blocks.length := by omega
      simp [this]
    · simp [hc]

theorem getD_zipWith_and (a b : List Nat) (c : Nat) :
    (List.zipWith (· &&& ·) a b).getD c 0 = a.getD c 0 &&& b.getD c 0 := by
  induction a generalizing b c with
  | nil => simp
  | cons x xs ih =>
    cases b with
    | nil => simp
    | cons y ys =>
      cases c with
      | zero => simp
      | succ c => simpa using ih ys c

theorem getD_or_blocks (a b : List Nat) (c : Nat) :
    (List.zipWith (· ||| ·) a b ++ a.drop b.length ++ b.drop a.length).getD c 0
      = a.getD c 0 ||| b.getD c 0 := by
  induction a generalizing b c with
  | nil => simp
  | cons x xs ih =>
    cases b with
    | nil => simp
    | cons y ys =>
      cases c with
      | zero => simp
      | succ c => simpa using ih ys c

/-! ### iteration -/

theorem mem_iterBlock (o b j : Nat) :
    j ∈ iterBlock o b ↔ ∃ i, i < 32 ∧ b.testBit i = true ∧ j = o + i := by
  unfold iterBlock
  split
  · rename_i h; subst h; simp
  · simp only [List.mem_filterMap, List.mem_range, shift_and_ne_zero]
    constructor
    · rintro ⟨i, hi, h⟩
      split at h
      · rename_i hb
        exact ⟨i, hi, hb, by simpa using h.symm⟩
      · cases h
    · rintro ⟨i, hi, hb, rfl⟩
      exact ⟨i, hi, by simp [hb]⟩

theorem iterBlock_sorted (o b : Nat) : (iterBlock o b).Pairwise (· < ·) := by
  unfold iterBlock
  split
  · exact List.Pairwise.nil
  · rw [List.pairwise_filterMap]
    refine List.Pairwise.imp ?_ (List.pairwise_lt_range (n := binSize))
    intro x y hxy u hu v hv
    split at hu <;> split at hv <;> simp at hu hv
    omega

theorem mem_iterFrom (o : Nat) (bs : List Nat) (j : Nat) :
    j ∈ iterFrom o bs ↔ o ≤ j ∧ (bs.getD ((j - o) / 32) 0).testBit ((j - o) % 32) = true := by
  induction bs generalizing o with
  | nil => simp [iterFrom]
  | cons b bs ih =>
    have hbs : binSize = 32 := by decide
    simp only [iterFrom, List.mem_append, mem_iterBlock, ih, hbs]
    constructor
    · rintro (⟨i, hi, hb, rfl⟩ | ⟨hle, hb⟩)
      · refine ⟨by omega, ?_⟩
        simp [Nat.div_eq_of_lt hi, Nat.mod_eq_of_lt hi, hb]
      · refine ⟨by omega, ?_⟩
        have h1 : (j - o) / 32 = (j - (o + 32)) / 32 + 1 := by omega
        have h2 : (j - o) % 32 = (j - (o + 32)) % 32 := by omega
        rw [h1, h2]; simpa using hb
    · rintro ⟨hle, hb⟩
      by_cases hlt : j - o < 32
      · left
        have h1 : (j - o) / 32 = 0 := by omega
        have h2 : (j - o) % 32 = j - o := by omega
        rw [h1, h2] at hb
        exact ⟨j - o, hlt, by simpa using hb, by omega⟩
      · right
        refine ⟨by omega, ?_⟩
        have h1 : (j - o) / 32 = (j - (o + 32)) / 32 + 1 := by omega
        have h2 : (j - o) % 32 = (j - (o + 32)) % 32 := by omega
        rw [h1, h2] at hb; simpa using hb

theorem iterFrom_sorted (o : Nat) (bs : List Nat) : (iterFrom o bs).Pairwise (· < ·) := by
  induction bs generalizing o with
  | nil => simp [iterFrom]
  | cons b bs ih =>
    simp only [iterFrom]
    rw [List.pairwise_append]
    refine ⟨iterBlock_sorted o b, ih _, ?_⟩
    intro x hx y hy
    rw [mem_iterBlock] at hx
    rw [mem_iterFrom] at hy
    obtain ⟨i, hi, _, rfl⟩ := hx
    have : binSize = 32 := by decide
    omega

/-! ### cardinality -/

def countBits (n b : Nat) : Nat := ((List.range n).filter (fun i => b.testBit i)).length

theorem filter_false' {α} (l : List α) : l.filter (fun _ => false) = [] := by
  induction l <;> simp_all

theorem length_filterMap_ite {α β} (l : List α) (p : α → Bool) (g : α → β) :
    (l.filterMap (fun i => if p i then some (g i) else none)).length = (l.filter p).length := by
  induction l with
  | nil => rfl
  | cons x xs ih =>
    simp only [List.filterMap_cons, List.filter_cons]
    cases p x <;> simp [ih]

theorem length_iterBlock (o b : Nat) : (iterBlock o b).length = countBits 32 b := by
  unfold iterBlock countBits
  have hbs : binSize = 32 := by decide
  split
  · rename_i h; subst h; simp [filter_false']
  · simp only [shift_and_ne_zero, hbs]
    exact length_filterMap_ite _ (fun i => b.testBit i) _

theorem countBits_succ (f n : Nat) :
    countBits (f + 1) n = n % 2 + countBits f (n / 2) := by
  unfold countBits
  rw [List.range_succ_eq_map, List.filter_cons, List.filter_map]
  have : ((fun i => n.testBit i) ∘ Nat.succ) = fun i => (n / 2).testBit i := by
    funext i; simp [Nat.testBit_succ]
  rw [this, Nat.testBit_zero]
  rcases Nat.mod_two_eq_zero_or_one n with h | h <;> simp [h] <;> omega

theorem popcount_eq (f n : Nat) (h : n < 2 ^ f) : popcount f n = countBits f n := by
  induction f generalizing n with
  | zero => simp [popcount, countBits]
  | succ f ih =>
    rw [countBits_succ]
    unfold popcount
    split
    · rename_i h0; subst h0
      simp [countBits, filter_false']
    · rw [ih]
      rw [Nat.pow_succ] at h
      omega

theorem countBits_add (k m b : Nat) (h : b < 2 ^ k) : countBits (k + m) b = countBits k b := by
  unfold countBits
  rw [List.range_add, List.filter_append, List.length_append]
  have : List.filter (fun i => b.testBit i) (List.map (fun x => k + x) (List.range m)) = [] := by
    rw [List.filter_eq_nil_iff]
    intro a ha
    simp only [List.mem_map, List.mem_range] at ha
    obtain ⟨x, _, rfl⟩ := ha
    have : b < 2 ^ (k + x) := Nat.lt_of_lt_of_le h (Nat.pow_le_pow_right (by decide) (by omega))
    simp [Nat.testBit_lt_two_pow this]
  rw [this]; simp

theorem popcount64 (b : Nat) (h : b < 2 ^ 32) : popcount 64 b = countBits 32 b := by
  rw [popcount_eq 64 b (Nat.lt_of_lt_of_le h (by decide))]
  exact countBits_add 32 32 b h

theorem length_iterFrom (o : Nat) (bs : List Nat) :
    (iterFrom o bs).length = (bs.map (countBits 32)).sum := by
  induction bs generalizing o with
  | nil => simp [iterFrom]
  | cons b bs ih => simp [iterFrom, length_iterBlock, ih]

/-! ### block bound -/

/-- Every block holds at most `binsize = 32` bits. -/
def WF (s : BitVec5) : Prop := ∀ b ∈ s.blocks, b < 2 ^ 32

theorem setBlock_bound (l : List Nat) (b v : Nat) (hl : ∀ x ∈ l, x < 2 ^ 32) (hv : v < 2 ^ 32) :
    ∀ x ∈ setBlock l b v, x < 2 ^ 32 := by
  induction l generalizing b with
  | nil => simp [setBlock]
  | cons y ys ih =>
    cases b with
    | zero =>
      intro x hx
      simp only [setBlock, List.mem_cons] at hx
      rcases hx with rfl | hx
      · exact Nat.or_lt_two_pow (hl y (by simp)) hv
      · exact hl x (by simp [hx])
    | succ b =>
      intro x hx
      simp only [setBlock, List.mem_cons] at hx
      rcases hx with rfl | hx
      · exact hl x (by simp)
      · exact ih b (fun z hz => hl z (by simp [hz])) x hx

end ProbLogProofs.ContainersBV
