import ProbLogModel.Core.Proto
import ProbLogModel.Tasks.Sample
open ProbLogModel.Proto ProbLogModel.Tasks.Sample

structure St where
  s : SState := {}
  us : List Rat := []
  used : Nat := 0

def fin (st : St) (r : Res) : St × String :=
  match r with
  | .noMoreUniforms => (st, "no-more-uniforms")
  | .ok v s us' =>
    let used := st.used + (st.us.length - us'.length)
    ({ s := s, us := us', used := used }, (if v then "true " else "false ") ++ toString used)

def step (st : St) (line : String) : St × String :=
  match parseLine line with
  | some [.atom "begin", us] =>
    (match us.items? >>= (·.mapM SExp.rat?) with
     | some us => ({ s := {}, us := us, used := 0 }, "ok")
     | none => (st, "bad-op"))
  | some [.atom "fact", id, p] =>
    (match id.nat?, p.rat? with
     | some id, some p => fin st (addFact st.s id p st.us)
     | _, _ => (st, "bad-op"))
  | some [.atom "choice", o, i, p] =>
    (match o.nat?, i.nat?, p.rat? with
     | some o, some i, some p => fin st (addChoice st.s o i p st.us)
     | _, _, _ => (st, "bad-op"))
  | some [.atom "evid", .atom "fact", id, v, p] =>
    (match id.nat?, v.nat?, p.rat? with
     | some id, some v, some p => ({ st with s := addEvidence st.s (.fact id) (v == 1) p }, "ok " ++ toString st.used)
     | _, _, _ => (st, "bad-op"))
  | some [.atom "evid", .atom "choice", o, i, v, p] =>
    (match o.nat?, i.nat?, v.nat?, p.rat? with
     | some o, some i, some v, some p =>
       ({ st with s := addEvidence st.s (.choice o i) (v == 1) p }, "ok " ++ toString st.used)
     | _, _, _, _ => (st, "bad-op"))
  | some [.atom "end"] =>
    let s' := computeProbability st.s
    ({ st with s := s' }, renderRat s'.prob ++ " " ++ toString st.used)
  | _ => (st, "bad-op")

def main : IO Unit := runDriver ({} : St) step
