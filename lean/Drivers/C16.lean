import ProbLogModel.Core.Proto
import ProbLogModel.PyNum
import ProbLogModel.Generated.ArithTable
import ProbLogModel.IsoArith
import ProbLogModel.Builtins
open ProbLogModel.Proto ProbLogModel.PyNum ProbLogModel.Generated ProbLogModel

/-! Driver for C16: generated arithmetic table, `compute_function`, the Lean ISO spec, builtin models. -/

def parseNum (s : String) : Option PyNum :=
  if s.startsWith "i:" then (s.drop 2).toString.toInt?.map PyNum.int
  else if s.startsWith "f:" then (parseRat (s.drop 2).toString).map PyNum.flt
  else none

def errName : PyErr → String
  | .zeroDivision => "ZeroDivisionError"
  | .value => "ValueError"
  | .overflow => "OverflowError"
  | .type => "TypeError"
  | .unsupported => "unsupported"

def showNum (exact : Bool) : PyNum → String
  | .int i => "I " ++ toString i ++ (if exact then " x" else " ~")
  | .flt q => "F " ++ renderRat q ++ (if exact && PyNum.ratIsDouble q then " x" else " ~")

/-- result of evaluating an expression the way `Term.compute_value` / `compute_function` do -/
inductive Ev where
  | val (v : PyNum) (exact : Bool)
  | err (cls : String)      -- a ProbLog error class, or `raw:<Python class>`
  | unsup                   -- uses an entry that is recorded by name only
  deriving Inhabited

/-- logic.py `compute_function` (lookup, argument evaluation left to right, exception mapping) over the
    generated table. Expression syntax: `i:N`, `f:Q`, `v` (a variable), `(name arg ...)`. -/
partial def evalExpr : SExp → Ev
  | .atom s =>
    if s == "v" then .err "InstantiationError"
    else match parseNum s with
      | some v => .val v true
      | none => .err "bad-literal"
  | .list [] => .err "bad-literal"
  | .list (.list _ :: _) => .err "bad-literal"
  | .list (.atom name :: args) =>
    let n := args.length
    let known := ArithTable.translatedKeys.contains (name, n)
    let byName := (ArithTable.mathKeys.any fun k => k.1 == name && k.2.1 == n) || ArithTable.constKeys.contains (name, n)
    if !known && !byName then .err "ArithmeticError"     -- Unknown function
    else
      let rec go (as : List SExp) (acc : List PyNum) (ex : Bool) : Except Ev (List PyNum × Bool) :=
        match as with
        | [] => .ok (acc.reverse, ex)
        | a :: rest =>
          match evalExpr a with
          | .val v e => go rest (v :: acc) (ex && e)
          | other => .error other
      match go args [] true with
      | .error e => e
      | .ok (vals, ex) =>
        -- astronomically large exponents / shift counts are not run through the model (the harness never
        -- generates them on purpose; they only arise below a sibling that raises first in Python)
        let huge := vals.length == 2 && ["**", "^", "<<", ">>"].contains name &&
          (match (vals[1]? : Option PyNum) with
           | some (.int i) => i.natAbs > 4096
           | some (.flt q) => q.num.natAbs > 4096 * q.den
           | none => false)
        if (byName && !known) || huge then .unsup
        else match ArithTable.evalKey name vals with
          | none => .unsup
          | some (.ok v) =>
            -- an int operand next to a float operand is converted to a float by Python: must be exact too
            let hasFlt := vals.any fun x => match x with | .flt _ => true | _ => false
            let intsOk := vals.all fun x => match x with
              | .int i => PyNum.stripTwos i.natAbs < 2 ^ 53
              | _ => true
            .val v (ex && v.isDouble && (!hasFlt || intsOk))
          | some (.error .unsupported) => .unsup
          | some (.error e) =>
            if ArithTable.mappedErrors.contains (errName e) then .err "ArithmeticError"
            else .err ("raw:" ++ errName e)

def showEv : Ev → String
  | .val v ex => showNum ex v
  | .err c => "E " ++ c
  | .unsup => "U"

def optInt : Option Int → String
  | some i => "I " ++ toString i
  | none => "none"

def isoInt (name : String) (a b : Int) : String :=
  match name with
  | "//" => optInt (Iso.intdiv a b)
  | "div" => optInt (Iso.div a b)
  | "mod" => optInt (Iso.mod a b)
  | "rem" => optInt (Iso.rem a b)
  | "+" => optInt (some (Iso.add a b))
  | "-" => optInt (some (Iso.sub a b))
  | "*" => optInt (some (Iso.mul a b))
  | "min" => optInt (some (Iso.min a b))
  | "max" => optInt (some (Iso.max a b))
  | ">>" => if b < 0 then "unspecified" else optInt (some (Iso.shr a b.toNat))
  | "<<" => if b < 0 then "unspecified" else optInt (some (Iso.shl a b.toNat))
  | "^" => if b < 0 then "unspecified" else optInt (some (Iso.pow a b.toNat))
  | "bit" => if b < 0 then "unspecified" else toString (Iso.bit a b.toNat)
  | "abs" => optInt (some (Iso.abs a))
  | "sign" => optInt (some (Iso.sign a))
  | "neg" => optInt (some (Iso.neg a))
  | "\\" => optInt (some (Iso.bitnot a))
  | "/" => match Iso.divSwi a b with
    | none => "none"
    | some (.inl i) => "I " ++ toString i
    | some (.inr q) => "F " ++ renderRat q
  | _ => "bad-op"

def isoRat (name : String) (q : Rat) : String :=
  match name with
  | "truncate" => toString (Iso.truncate q)
  | "floor" => toString (Iso.floor q)
  | "ceiling" => toString (Iso.ceiling q)
  | "roundAway" => toString (Iso.roundAway q)
  | "roundIso" => toString (Iso.roundIso q)
  | "roundEven" => toString (Iso.roundEven q)
  | "signF" => renderRat (Iso.signF q)
  | "floatIntegerPart" => renderRat (Iso.floatIntegerPart q)
  | "floatFractionalPart" => renderRat (Iso.floatFractionalPart q)
  | _ => "bad-op"

open ProbLogModel.Builtins in
partial def parseTm : SExp → Option Tm
  | .atom "_" => some .anon
  | .list [.atom "v", .atom n] => n.toInt?.map Tm.var
  | .list [.atom "i", .atom n] => n.toInt?.map Tm.int
  | .list [.atom "f", .atom q] => (parseRat q).map Tm.flt
  | .list [.atom "s", .atom s] => some (.str (unquote s))
  | .list (.atom "c" :: .atom f :: args) =>
    (args.mapM parseTm).map fun as => Tm.cmp (unquote f) as
  | _ => none

open ProbLogModel.Builtins in
partial def showTm : Tm → String
  | .anon => "_"
  | .var n => "(v " ++ toString n ++ ")"
  | .int n => "(i " ++ toString n ++ ")"
  | .flt q => "(f " ++ renderRat q ++ ")"
  | .str s => "(s " ++ quote s ++ ")"
  | .cmp f as => "(c " ++ quote f ++ String.join (as.map fun a => " " ++ showTm a) ++ ")"

open ProbLogModel.Builtins in
def showSols : Sols → String
  | .ok sols => "S " ++ renderList (sols.map fun tup => renderList (tup.map showTm))
  | .error .callMode => "E CallModeError"
  | .error .unifyRaw => "E raw:UnifyError"
  | .error .outside => "U"

open ProbLogModel.Builtins in
def runBuiltin (name : String) (as : List Tm) : String :=
  match name, as with
  | "between", [a, b, c] => showSols (between a b c)
  | "succ", [a, b] => showSols (succ a b)
  | "plus", [a, b, c] => showSols (plus a b c)
  | "length", [a, b, .int mv] => showSols (length a b mv)
  | "functor", [a, b, c] => showSols (functor a b c)
  | "arg", [a, b, c] => showSols (arg a b c)
  | "=..", [a, b] => showSols (univ a b)
  | "atom_number", [a, b] => showSols (atomNumber a b)
  | _, _ => "bad-op"

open ProbLogModel.Builtins in
def runTest (name : String) (t : Tm) : String :=
  match name with
  | "var" => toString (tVar t)
  | "nonvar" => toString (tNonvar t)
  | "atom" => toString (tAtom t)
  | "atomic" => toString (tAtomic t)
  | "number" => toString (tNumber t)
  | "integer" => toString (tInteger t)
  | "float" => toString (tFloat t)
  | "compound" => toString (tCompound t)
  | "callable" => toString (tCallable t)
  | "is_list" => toString (tIsList t)
  | "ground" => toString (tGround t)
  | "spec.kind" => reprStr (Spec.kind t)
  | "spec.properList" => toString (Spec.properList t)
  | _ => "bad-op"

def step (_ : Unit) (line : String) : Unit × String :=
  ((), match parseLine line with
  | some (.atom "fn" :: .atom name :: args) =>
    (match args.mapM (fun a => a.str?.bind parseNum) with
     | none => "bad-op"
     | some vals =>
       match ArithTable.evalKey name vals with
       | none => "nokey"
       | some (.ok v) => showNum (vals.all PyNum.isDouble) v
       | some (.error e) => "E " ++ errName e)
  | some [.atom "ev", e] => showEv (evalExpr e)
  | some [.atom "iso", .atom name, .atom a, .atom b] =>
    (match a.toInt?, b.toInt? with
     | some a, some b => isoInt name a b
     | _, _ => "bad-op")
  | some [.atom "isof", .atom name, .atom q] =>
    (match parseRat q with
     | some q => isoRat name q
     | none => "bad-op")
  | some (.atom "bi" :: .atom name :: args) =>
    (match args.mapM parseTm with
     | some as => runBuiltin (unquote name) as
     | none => "bad-op")
  | some [.atom "tt", .atom name, t] =>
    (match parseTm t with
     | some t => runTest name t
     | none => "bad-op")
  | some [.atom "keys"] =>
    renderList (ArithTable.translatedKeys.map fun k => quote (k.1 ++ "/" ++ toString k.2)) ++ " " ++
    renderList (ArithTable.mathKeys.map fun k => quote (k.1 ++ "/" ++ toString k.2.1 ++ "=" ++ k.2.2)) ++ " " ++
    renderList (ArithTable.constKeys.map fun k => quote (k.1 ++ "/" ++ toString k.2)) ++ " " ++
    renderList (ArithTable.mappedErrors.map quote)
  | some [.atom "modes"] =>
    renderList (Builtins.modeTable.map fun m => renderList (quote m.1 :: m.2.map quote)) ++ " " ++
    renderList (Builtins.modeTypeNames.map fun m => quote (String.singleton m.1 ++ "=" ++ m.2))
  | _ => "bad-op")

def main : IO Unit := runDriver () step
