import ProbLogModel.Core.Proto
import ProbLogModel.Formula
open ProbLogModel.Proto ProbLogModel.Formula

def pKey (s : String) : Option Key := if s == "N" then some none else s.toInt?.map some
def rKey : Key → String
  | none => "N"
  | some k => toString k
def pOptNat (s : String) : Option (Option Nat) := if s == "-" then some none else s.toNat?.map some
def pBool (s : String) : Bool := s == "t"
def rName : Option Name → String
  | none => "-"
  | some (.pos n) => "n" ++ toString n
  | some (.neg n) => "~n" ++ toString n
  | some (.extra g) => "x" ++ toString g
  | some (.negExtra g) => "~x" ++ toString g
def pName (s : String) : Option Name := (s.toNat?).map Name.pos
def rIdent : Ident → String
  | .user n => toString n
  | .extra g => "x" ++ toString g
def rKeys (l : List Key) : String := renderList (l.map rKey)
def rNode : Node → String
  | .atom i g e n => renderList ["atom", rIdent i, (match g with | none => "-" | some g => toString g), toString e, rName n]
  | .conj c n => renderList ["conj", rKeys c, rName n]
  | .disj c n => renderList ["disj", rKeys c, rName n]
def rWeight : Weight → String
  | .neutral => "T" | .prob q => renderRat q | .tt => "None" | .ff => "False"
def rLabel : Label → String
  | .query => "query" | .evPos => "ev+" | .evNeg => "ev-" | .evMaybe => "ev?" | .named => "named" | .other n => "l" ++ toString n
def pLabel (s : String) : Label :=
  if s == "query" then .query else if s == "ev+" then .evPos else if s == "ev-" then .evNeg
  else if s == "ev?" then .evMaybe else if s == "named" then .named else .other ((s.drop 1).toNat?.getD 0)
def rErr : Err → String
  | .assertion => "AssertionError" | .valueError => "ValueError" | .badKey => "BadKey"

def dump (S : Store) : String :=
  renderList (S.nodes.map rNode) ++ " W" ++
  renderList (S.weights.map (fun (i, w) => renderList [toString i, rWeight w])) ++ " N" ++
  renderList (S.names.map (fun (l, n, k) => renderList [rLabel l, rName (some n), rKey k])) ++ " A" ++
  renderList (S.ads.map (fun c => renderList [toString c.group, renderList (c.nodes.map toString),
    (match c.extra with | none => "-" | some e => toString e)])) ++ " C" ++ toString S.atomcount

def pKeys (e : SExp) : Option (List Key) :=
  match e with
  | .list xs => xs.mapM (fun x => match x with | .atom s => pKey s | _ => none)
  | _ => none

def step (S : Store) (line : String) : Store × String :=
  match parseLine line with
  | some (SExp.atom "opts" :: args) =>
    match args.map SExp.render with
    | [ac, anc, ko, ka, ma, kd] =>
      ({ opts := { autoCompact := pBool ac, avoidNameClash := pBool anc, keepOrder := pBool ko, keepAll := pBool ka,
                   maxArity := ma.toNat?.getD 0, keepDuplicates := pBool kd } }, "ok")
    | _ => (S, "bad-op")
  | some [SExp.atom "atom", .atom ident, .atom pc, .atom w, .atom g, .atom nm, .atom cr, .atom ex] =>
    let pcl : Option PClass := match pc with
      | "none" => some .pNone | "false" => some .pFalse | "zero" => some .zero | "one" => some .one
      | "normal" => some .normal | _ => none
    let wt : Option Weight := match w with
      | "T" => some .neutral | "None" => some .tt | "False" => some .ff | _ => (parseRat w).map Weight.prob
    match ident.toInt?, pcl, wt, pOptNat g with
    | some i, some pcl, some wt, some g =>
      let (S', k) := S.addAtom (.user i) pcl wt g (pName nm) (pBool cr) (pBool ex)
      (S', rKey k)
    | _, _, _, _ => (S, "bad-op")
  | some [SExp.atom "and", ks, .atom nm, .atom cp] =>
    match pKeys ks with
    | some ks =>
      let compact : Option Bool := if cp == "-" then none else some (pBool cp)
      match S.addAnd ks (pName nm) compact with
      | .ok (S', k) => (S', rKey k)
      | .error e => (S, rErr e)
    | none => (S, "bad-op")
  | some [SExp.atom "or", ks, .atom ro, .atom nm, .atom ph, .atom cp] =>
    match pKeys ks with
    | some ks =>
      let compact : Option Bool := if cp == "-" then none else some (pBool cp)
      match S.addOr ks (pBool ro) (pName nm) (pBool ph) compact with
      | .ok (S', k) => (S', rKey k)
      | .error e => (S, rErr e)
    | none => (S, "bad-op")
  | some [SExp.atom "disjunct", .atom k, .atom c] =>
    match pKey k, pKey c with
    | some k, some c =>
      match S.addDisjunct k c with
      | .ok (S', r) => (S', rKey r)
      | .error e => (S, rErr e)
    | _, _ => (S, "bad-op")
  | some [SExp.atom "negate", .atom k] =>
    match pKey k with
    | some k => (S, rKey (negate k))
    | none => (S, "bad-op")
  | some [SExp.atom "name", .atom n, .atom k, .atom l, .atom keep] =>
    match pName n, pKey k with
    | some n, some k => (S.addName n k (pLabel l) (pBool keep), "ok")
    | _, _ => (S, "bad-op")
  | some [SExp.atom "dump"] => (S, dump S)
  | _ => (S, "bad-op")

def main : IO Unit := runDriver ({} : Store) step
