import ProbLogModel.Core.Proto
import ProbLogModel.Core.StoreIO
import ProbLogModel.Formula
import ProbLogModel.GroundFO
/-!
Driver for the first-order grounding-engine model (`ProbLogModel/GroundFO.lean`).

`GROUNDFO opts nconsts prog bases calls sched fuel`
  prog  = ((p C*)*)   C = (fact (c*) ident prob|-) | (rule (T*) nvars (L*) -|(ident group prob name))
          T = cN | vN (constant N / clause variable N)   L = (p pred T*) | (n pred T*) | t
  bases = ((p base)*)                                    first name id of the atoms of predicate p
  calls = ((pred (V*) label failname)*)                  V = cN | vN (canonical variables)
  sched = (((pred V*) i*)*)                              selection code per goal (missing = source order)
output: `ok (tg ((pred c*) key)*) (tn ((pred V*) ((c*) key)*)*) <store>` or `error <what>`
-/
open ProbLogModel.Proto ProbLogModel.StoreIO ProbLogModel.Formula ProbLogModel ProbLogModel.GroundFO

def pOptsF : SExp → Option Opts
  | .list (.atom "opts" :: os) => match os.map SExp.render with
    | [ac, anc, ko, ka, ma, kd] => some { autoCompact := pBool ac, avoidNameClash := pBool anc, keepOrder := pBool ko,
                                          keepAll := pBool ka, maxArity := ma.toNat?.getD 0, keepDuplicates := pBool kd }
    | _ => none
  | _ => none

def pTerm : SExp → Option Term
  | .atom s => if s.startsWith "c" then (s.drop 1).toNat?.map Term.const
               else if s.startsWith "v" then (s.drop 1).toNat?.map Term.var else none
  | _ => none

def pVal : SExp → Option Val
  | .atom s => if s.startsWith "c" then (s.drop 1).toNat?.map Val.c
               else if s.startsWith "v" then (s.drop 1).toNat?.map Val.v else none
  | _ => none

def pNat : SExp → Option Nat
  | .atom s => s.toNat?
  | _ => none

def pLitF : SExp → Option Lit
  | .atom "t" => some .tt
  | .list (.atom "p" :: .atom q :: ts) => do some (.pos ⟨(← q.toNat?), (← ts.mapM pTerm)⟩)
  | .list (.atom "n" :: .atom q :: ts) => do some (.neg ⟨(← q.toNat?), (← ts.mapM pTerm)⟩)
  | _ => none

def pChoiceF : SExp → Option (Option Choice)
  | .atom "-" => some none
  | .list [.atom i, .atom g, .atom p, .atom n] => do
    some (some { ident := (← i.toNat?), group := (← g.toNat?), prob := (← parseRat p), name := (← n.toNat?) })
  | _ => none

def pClauseF : SExp → Option Clause
  | .list [.atom "fact", .list cs, .atom i, .atom p] => do
    let pr ← (if p == "-" then some none else (parseRat p).map some)
    some (.fact (← cs.mapM (fun (c : SExp) => match c with | .atom s => (s.drop 1).toNat? | _ => none)) (← i.toNat?) pr)
  | .list [.atom "rule", .list hs, .atom n, .list ls, ch] => do
    some (.rule (← hs.mapM pTerm) (← n.toNat?) (← ls.mapM pLitF) (← pChoiceF ch))
  | _ => none

def pPairs : SExp → Option (List (Nat × Nat))
  | .list es => es.mapM (fun (e : SExp) => match e with
    | .list [.atom a, .atom b] => do some ((← a.toNat?), (← b.toNat?))
    | _ => none)
  | _ => none

def pProgF (nc : Nat) (pr bases : SExp) : Option Prog := do
  let defs ← match pr with
    | .list ds => ds.mapM (fun (d : SExp) => match d with
      | .list (.atom a :: cs) => do some ((← a.toNat?), (← cs.mapM pClauseF))
      | _ => none)
    | _ => none
  some { nconsts := nc, defs := defs, nameBase := (← pPairs bases) }

def pCallsF : SExp → Option (List Call)
  | .list cs => cs.mapM (fun (c : SExp) => match c with
    | .list [.atom p, .list vs, .atom l, .atom f] => do
      some { pred := (← p.toNat?), args := (← vs.mapM pVal), label := pLabel l, failName := (← f.toNat?) }
    | _ => none)
  | _ => none

def pSchedF : SExp → Option (List (Goal × List Nat))
  | .list es => es.mapM (fun (e : SExp) => match e with
    | .list (.list (.atom p :: vs) :: is) => do
      some (⟨(← p.toNat?), (← vs.mapM pVal)⟩, (← is.mapM pNat))
    | _ => none)
  | _ => none

def rVal : Val → String
  | .c c => "c" ++ toString c
  | .v i => "v" ++ toString i

def rErrF : GroundFO.Err → String
  | .fuel => "fuel"
  | .builder .assertion => "builder assertion"
  | .builder .valueError => "builder valueError"
  | .builder .badKey => "builder badKey"
  | .emptyBody => "emptyBody"
  | .flounder => "flounder"
  | .nonGroundChoice => "nonGroundChoice"
  | .nonGroundAnswer => "nonGroundAnswer"

def rResults (rs : Results) : String :=
  renderList (rs.map (fun (ans, k) => renderList [renderList (ans.map (fun c => "c" ++ toString c)), rKey k]))

def step (_ : Unit) (line : String) : Unit × String :=
  ((), match parseLine line with
  | some [SExp.atom "GROUNDFO", o, .atom nc, pr, bases, cs, sc, .atom fuel] =>
    match pOptsF o, nc.toNat?, pCallsF cs, pSchedF sc, fuel.toNat? with
    | some o, some nc, some calls, some sc, some fuel =>
      match pProgF nc pr bases with
      | some P =>
        let sched : Sched := fun g => (lookup sc g).getD []
        match groundAll P sched fuel calls { store := { opts := o } } with
        | .ok (_, st) =>
          "ok " ++ renderList ("tg" :: st.table.ground.map (fun ((p, cs), k) =>
              renderList [renderList (toString p :: cs.map (fun c => "c" ++ toString c)), rKey k])) ++ " " ++
            renderList ("tn" :: st.table.ng.map (fun (g, rs) =>
              renderList [renderList (toString g.pred :: g.args.map rVal), rResults rs])) ++ " " ++ rStore st.store
        | .error e => "error " ++ rErrF e
      | none => "bad-op prog"
    | _, _, _, _, _ => "bad-op"
  | _ => "bad-op")

def main : IO Unit := runDriver () step
