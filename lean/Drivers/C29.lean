import ProbLogModel.Core.Proto
import ProbLogModel.ClauseDB
open ProbLogModel.Proto ProbLogModel.ClauseDB

/-! Line protocol for the ClauseDB model (C29). Databases are named by tokens; signatures are `<nat>` (interned by
the harness) or `b<nat>` (`body_<nat>`). One output line per input line. -/

abbrev St := List (String × DB)

def getDB (s : St) (n : String) : Option DB := s.lookup n
def putDB (s : St) (n : String) (d : DB) : St := (n, d) :: s.filter (·.1 != n)

def parseSig (t : String) : Option Sig :=
  match t.toList with
  | 'b' :: rest => (String.ofList rest).toNat?.map Sig.body
  | _ => t.toNat?.map Sig.user

def showSig : Sig → String
  | .user n => toString n
  | .body n => "b" ++ toString n

def showRef : Ref → String
  | .node i => toString i
  | .builtin k => "-" ++ toString k

def showNats (l : List Nat) : String := renderList (l.map toString)

def showNode : Node → String
  | .define s ch => renderList ["D", showSig s, showNats ch]
  | .fact s => renderList ["F", showSig s]
  | .clause s b => renderList ["C", showSig s, toString b]
  | .call s r => renderList ["L", showSig s, showRef r]
  | .other t refs => renderList ["O", toString t, showNats refs]
  | .empty => "E"

def showErr : Err → String
  | .indexErrorParent => "IndexError:parent"
  | .indexError => "IndexError"
  | .accessError => "AccessError"
  | .attributeError => "AttributeError"
  | .parentWrite => "ParentWrite"

def showLog (l : Log) : String := renderList (l.map fun (s, c) => renderList [showSig s, toString c])

partial def parseBody : SExp → Option Body
  | .list [.atom "c", .atom s] => (parseSig s).map Body.call
  | .list [.atom "and", a, b] => do let x ← parseBody a; let y ← parseBody b; pure (Body.conj x y)
  | .list [.atom "or", a, b] => do let x ← parseBody a; let y ← parseBody b; pure (Body.disj x y)
  | .list [.atom "not", a] => do let x ← parseBody a; pure (Body.neg x)
  | _ => none

def sortPairs (l : List (Nat × Nat)) : List (Nat × Nat) :=
  (l.toArray.qsort (fun a b => a.1 < b.1 || (a.1 == b.1 && a.2 < b.2))).toList

/-- Heads as a dict: first occurrence of a key wins (`setHead` conses), shown sorted by node index. -/
def dedupHeads : List (Sig × Nat) → List (Sig × Nat)
  | [] => []
  | (s, i) :: r => (s, i) :: (dedupHeads r).filter (fun e => !(e.1 == s))

def dedupRedirect : List (Nat × Nat) → List (Nat × Nat)
  | [] => []
  | (k, v) :: r => (k, v) :: (dedupRedirect r).filter (fun e => !(e.1 == k))

def dump (db : DB) : String :=
  let l := db.layer
  let heads := (dedupHeads l.heads).toArray.qsort (fun a b => a.2 < b.2) |>.toList
  "len=" ++ toString db.len ++ " off=" ++ toString db.offset ++ " nodes=" ++ renderList (l.nodes.map showNode) ++
    " heads=" ++ renderList (heads.map fun (s, i) => renderList [showSig s, toString i]) ++
    " redirect=" ++ renderList ((sortPairs (dedupRedirect l.redirect)).map fun (k, v) => renderList [toString k, toString v])

def opResult (s : St) (name : String) (r : Except Err (DB × Log)) : St × String :=
  match r with
  | .ok (db, log) => (putDB s name db, "ok " ++ toString db.len ++ " " ++ showLog log)
  | .error e => (s, "err " ++ showErr e)

def step (s : St) (line : String) : St × String :=
  match parseLine line with
  | some (.atom "new" :: .atom name :: bs) =>
    let tbl := bs.filterMap fun e => match e with
      | .list [.atom a, .atom k] => match parseSig a, k.toNat? with
        | some sg, some k => some (sg, k)
        | _, _ => none
      | _ => none
    (putDB s name (.root { builtins := tbl }), "ok")
  | some [.atom "extend", .atom child, .atom parent] =>
    match getDB s parent with
    | some p => (putDB s child (extend p), "ok")
    | none => (s, "bad-op")
  | some [.atom "fact", .atom name, .atom sg] =>
    match getDB s name, parseSig sg with
    | some db, some sg => opResult s name (applyOp db (.fact sg))
    | _, _ => (s, "bad-op")
  | some [.atom "clause", .atom name, .atom sg, b] =>
    match getDB s name, parseSig sg, parseBody b with
    | some db, some sg, some b => opResult s name (applyOp db (.clause sg b))
    | _, _, _ => (s, "bad-op")
  | some [.atom "ad", .atom name, .list hs, b] =>
    match getDB s name, parseBody b with
    | some db, some b =>
      let heads := hs.filterMap fun e => match e with | .atom a => parseSig a | _ => none
      if heads.length != hs.length then (s, "bad-op") else opResult s name (applyOp db (.ad heads b))
    | _, _ => (s, "bad-op")
  | some [.atom "call", .atom name, b] =>
    match getDB s name, parseBody b with
    | some db, some b => opResult s name (applyOp db (.call b))
    | _, _ => (s, "bad-op")
  | some [.atom "alias", .atom name, .atom r, .atom sc] =>
    match getDB s name, parseSig r, parseSig sc with
    | some db, some r, some sc => opResult s name ((createAlias db r sc).map fun d => (d, []))
    | _, _, _ => (s, "bad-op")
  | some [.atom "dump", .atom name] =>
    match getDB s name with
    | some db => (s, dump db)
    | none => (s, "bad-op")
  | some [.atom "defs", .atom name, .atom sg] =>
    match getDB s name, parseSig sg with
    | some db, some sg => (s, showNats (defs db sg))
    | _, _ => (s, "bad-op")
  | some [.atom "defs0", .atom name, .atom sg] =>
    match getDB s name, parseSig sg with
    | some db, some sg => (s, showNats (defsV0 db sg))
    | _, _ => (s, "bad-op")
  | some [.atom "find", .atom name, .atom sg] =>
    match getDB s name, parseSig sg with
    | some db, some sg => (s, match find db sg with | some i => toString i | none => "none")
    | _, _ => (s, "bad-op")
  | some [.atom "node", .atom name, .atom i] =>
    match getDB s name, i.toNat? with
    | some db, some i => (s, match getNode db i with | .ok n => showNode n | .error e => "err " ++ showErr e)
    | _, _ => (s, "bad-op")
  | some [.atom "node0", .atom name, .atom i] =>
    match getDB s name, i.toNat? with
    | some db, some i => (s, match getNodeV0 db i with | .ok n => showNode n | .error e => "err " ++ showErr e)
    | _, _ => (s, "bad-op")
  | _ => (s, "bad-op")

def main : IO Unit := runDriver ([] : St) step
