import ProbLogModel.Core.Proto
import ProbLogModel.Unify
open ProbLogModel.Proto ProbLogModel.Unify

/-! Line protocol for C14. Terms: `_` | `(v n)` | `(i n)` | `(f "repr")` | `(s "text")` | `(c "functor" args…)`.
    Keys: `_` or an integer. Dictionaries: `((key term) …)`. -/

partial def parseTm : SExp → Option Tm
  | .atom "_" => some .anon
  | .list [.atom "v", .atom n] => n.toInt?.map Tm.var
  | .list [.atom "i", .atom n] => n.toInt?.map (fun i => Tm.const (.int i))
  | .list [.atom "f", .atom s] => some (.const (.flt (unquote s)))
  | .list [.atom "s", .atom s] => some (.const (.str (unquote s)))
  | .list (.atom "c" :: .atom f :: args) =>
    (args.mapM parseTm).map (fun as => Tm.app (unquote f) as)
  | _ => none

partial def showTm : Tm → String
  | .anon => "_"
  | .var v => s!"(v {v})"
  | .const (.int i) => s!"(i {i})"
  | .const (.flt s) => "(f " ++ quote s ++ ")"
  | .const (.str s) => "(s " ++ quote s ++ ")"
  | .app f as => "(c " ++ " ".intercalate (quote f :: as.map showTm) ++ ")"

def showTms (ts : List Tm) : String := renderList (ts.map showTm)

def parseTms : SExp → Option (List Tm)
  | .list xs => xs.mapM parseTm
  | _ => none

def parseKey : SExp → Option Key
  | .atom "_" => some none
  | .atom n => n.toInt?.map some
  | _ => none

def showKey : Key → String
  | none => "_"
  | some v => toString v

def parseDict : SExp → Option Dict
  | .list xs => xs.mapM (fun e => match e with
    | .list [k, v] => do let k ← parseKey k; let v ← parseTm v; pure (k, v)
    | _ => none)
  | _ => none

def showDict (d : Dict) : String := renderList (d.map (fun (k, v) => renderList [showKey k, showTm v]))

def parseKK : SExp → Option (List (Key × Key))
  | .list xs => xs.mapM (fun e => match e with
    | .list [k, v] => do let k ← parseKey k; let v ← parseKey v; pure (k, v)
    | _ => none)
  | _ => none

def showKK (d : List (Key × Key)) : String := renderList (d.map (fun (k, v) => renderList [showKey k, showKey v]))

def parseEqs : SExp → Option Eqs
  | .list xs => xs.mapM (fun e => match e with
    | .list [a, b] => do let a ← parseTm a; let b ← parseTm b; pure (a, b)
    | _ => none)
  | _ => none

def parseMask : SExp → Option (List Bool)
  | .list xs => xs.mapM (fun e => match e with
    | .atom "1" => some true
    | .atom "0" => some false
    | _ => none)
  | _ => none

def fuel : Nat := 3000

def err (e : Err) : String := "ERR " ++ e.name

def run (line : String) : Option String := do
  let es ← parseLine line
  match es with
  | [.atom "mgu", outs, eqs] =>
    let outs ← parseTms outs
    let eqs ← parseEqs eqs
    match mguFuel defaultFuel eqs with
    | none => pure "fuel"
    | some .clash => pure "clash"
    | some .occurs => pure "occurs"
    | some (.unifier σ) => pure ("ok " ++ toString σ.length ++ " " ++ showTms (outs.map σ.apply))
  | [.atom "uv", a, b, d] =>
    let a ← parseTm a; let b ← parseTm b; let d ← parseDict d
    match unifyValue fuel a b d with
    | .ok (r, d) => pure ("ok " ++ showTm r ++ " " ++ showDict d)
    | .error e => pure (err e)
  | [.atom "uvdc", a, b, .atom mv, sv, tv] =>
    let a ← parseTm a; let b ← parseTm b; let mv ← mv.toInt?; let sv ← parseDict sv; let tv ← parseDict tv
    match unifyValueDc fuel a b { base := sv, minVar := mv } tv with
    | .ok (sv, tv) => pure ("ok " ++ toString sv.minVar ++ " " ++ showDict sv.base ++ " " ++ showDict tv)
    | .error e => pure (err e)
  | [.atom "uch", call, head, ctx] =>
    let call ← parseTms call; let head ← parseTms head; let ctx ← parseTms ctx
    match unifyCallHead fuel call head ctx with
    | .ok (ctx, res) => pure ("ok " ++ showTms ctx ++ " " ++ showTms res)
    | .error e => pure (err e)
  | [.atom "ucr", result, call, ctx, vt, .atom mv, mask] =>
    let result ← parseTms result; let call ← parseTms call; let ctx ← parseTms ctx
    let vt ← parseKK vt; let mv ← mv.toInt?; let mask ← parseMask mask
    match unifyCallReturn fuel result call ctx vt mv mask with
    | .ok out => pure ("ok " ++ showTms out)
    | .error e => pure (err e)
  | [.atom "sca", terms, ctx] =>
    let terms ← parseTms terms; let ctx ← parseTms ctx
    match substituteCallArgs fuel terms ctx with
    | .ok (r, tr) => pure ("ok " ++ showTms r ++ " " ++ showKK tr)
    | .error e => pure (err e)
  | [.atom "sha", terms, ctx] =>
    let terms ← parseTms terms; let ctx ← parseTms ctx
    match substituteHeadArgs terms ctx with
    | .ok r => pure ("ok " ++ showTms r)
    | .error e => pure (err e)
  | [.atom op, args, ctx] =>
    let args ← parseTms args; let ctx ← parseTms ctx
    let r ← (match op with
      | "eq" => some (eqBuiltin fuel args ctx)
      | "neq" => some (neqBuiltin fuel args ctx)
      | _ => none)
    match r with
    | .ok outs => pure ("ok " ++ renderList (outs.map showTms))
    | .error e => pure (err e)
  | _ => none

def step (s : Unit) (line : String) : Unit × String := (s, (run line).getD "bad-op")

def main : IO Unit := runDriver () step
