import ProbLogModel.Core.Proto
open ProbLogModel.Proto
def main : IO Unit := runDriver () (fun s line => (s, match parseLine line with | some es => toString (SExp.list es) | none => "bad"))
