import ProbLogModel.Core.Proto
import ProbLogModel.TermEq
import ProbLogModel.TermCache
open ProbLogModel.Proto ProbLogModel.TermEq

/-
Protocol:  pair cur|fix A B   ->  (eq_ab eq_ba impl_ab hasheq ground_a ground_b unify)
  A ::= (t "f" A*) | (v "n") | (c (i N)|(f R)|(s "x")) | (n "f" A) | (and A A) | (or A A) | (cl A A) | none | (iv N)
-/

partial def parseTm : SExp → Option Tm
  | .atom "none" => some .none
  | .list [.atom "iv", n] => n.int?.map .ivar
  | .list [.atom "v", .atom s] => some (.var (unquote s))
  | .list [.atom "c", .list [.atom "i", n]] => n.int?.map (fun i => .const (.int i))
  | .list [.atom "c", .list [.atom "f", r]] => r.rat?.map (fun q => .const (.flt q))
  | .list [.atom "c", .list [.atom "s", .atom s]] => some (.const (.str (unquote s)))
  | .list (.atom "t" :: .atom f :: args) => (args.mapM parseTm).map (.term (unquote f))
  | .list [.atom "n", .atom f, c] => (parseTm c).map (.nott (unquote f))
  | .list [.atom "and", a, b] => do pure (.and (← parseTm a) (← parseTm b))
  | .list [.atom "or", a, b] => do pure (.or (← parseTm a) (← parseTm b))
  | .list [.atom "cl", a, b] => do pure (.clause (← parseTm a) (← parseTm b))
  | _ => none

/- hist F TAILLEN op*   (op ::= h | s | r | (f N))  ->  presence of the memo fields (hash sig len repr) after each op -/
def parseOp : SExp → Option ProbLogModel.TermCache.Op
  | .atom "h" => some .hash
  | .atom "s" => some .sig
  | .atom "r" => some .str
  | .list [.atom "f", n] => n.nat?.map .setFunctor
  | _ => none

def histOut (f t : Nat) (ops : List ProbLogModel.TermCache.Op) : String :=
  let (_, out) := ops.foldl (fun (acc : ProbLogModel.TermCache.St × List String) op =>
    let s' := (ProbLogModel.TermCache.step acc.1 op).1
    (s', acc.2 ++ [ProbLogModel.TermCache.presence s'])) ({ functor := f, tailLen := t }, [])
  ",".intercalate out

def step (_ : Unit) (line : String) : Unit × String :=
  let out : String :=
    match parseLine line with
    | some [.atom "pair", .atom v, a, b] =>
      (match parseTm a, parseTm b with
       | some a, some b =>
         let fix := v == "fix"
         renderList [toString (eqTop a b), toString (eqTop b a), quote (implOf a b), toString (hashEq fix a b),
                     toString (ground a), toString (ground b), toString (unifyId a b)]
       | _, _ => "bad-op")
    | some (.atom "hist" :: f :: tl :: ops) =>
      (match f.nat?, tl.nat?, ops.mapM parseOp with
       | some f, some tl, some ops => histOut f tl ops
       | _, _, _ => "bad-op")
    | _ => "bad-op"
  ((), out)

def main : IO Unit := runDriver () step
