import ProbLogModel.Core.Proto
import ProbLogModel.Core.StoreIO
import ProbLogModel.Formula
import ProbLogModel.Cycles
import ProbLogModel.Clark
import ProbLogModel.DDNNF
import ProbLogModel.Sem
import ProbLogModel.SemFO
open ProbLogModel.Proto ProbLogModel.StoreIO ProbLogModel.Formula ProbLogModel

def pCircuit : SExp → Option DDNNF.Circuit
  | .list ls => ls.mapM (fun l => match l with
    | .list (.atom "L" :: [.atom x]) => x.toInt?.map DDNNF.NNode.lit
    | .list (.atom "A" :: cs) => (cs.mapM (fun (c : SExp) => match c with | .atom s => s.toNat? | _ => none)).map DDNNF.NNode.and
    | .list (.atom "O" :: .atom j :: cs) => do
      let j ← j.toNat?
      let cs ← cs.mapM (fun (c : SExp) => match c with | .atom s => s.toNat? | _ => none)
      some (DDNNF.NNode.or j cs)
    | _ => none)
  | _ => none

def pOpts : SExp → Option Opts
  | .list (.atom "opts" :: os) => match os.map SExp.render with
    | [ac, anc, ko, ka, ma, kd] => some { autoCompact := pBool ac, avoidNameClash := pBool anc, keepOrder := pBool ko,
                                          keepAll := pBool ka, maxArity := ma.toNat?.getD 0, keepDuplicates := pBool kd }
    | _ => none
  | _ => none

def rVerdict : DDNNF.Verdict → String
  | .ok => "ok"
  | .bad i w => "bad " ++ toString i ++ " " ++ quote w
  | .undecided i w => "undecided " ++ toString i ++ " " ++ quote w

def rClauses (cs : List (List Int)) : String := renderList (cs.map (fun c => renderList (c.map toString)))

def pClauses : SExp → Option (List (List Int))
  | .list cs => cs.mapM (fun c => match c with
    | .list ls => ls.mapM (fun l => match l with | .atom s => s.toInt? | _ => none)
    | _ => none)
  | _ => none

def pNats : SExp → Option (List Nat)
  | .list xs => xs.mapM (fun (x : SExp) => match x with | .atom s => s.toNat? | _ => none)
  | _ => none

def pProg : SExp → Option Sem.Prog
  | .list [.atom "prog", .atom na, .atom nc, .list (.atom "rules" :: rs), .list (.atom "groups" :: gs)] => do
    let rules ← rs.mapM (fun (r : SExp) => match r with
      | .list [.atom h, ps, ns, .atom c] => do
        some ({ head := (← h.toNat?), pos := (← pNats ps), neg := (← pNats ns),
                choice := (if c == "-" then none else c.toNat?) } : Sem.Rule)
      | _ => none)
    let groups ← gs.mapM (fun (g : SExp) => match g with
      | .list alts => do
        let alts ← alts.mapM (fun (a : SExp) => match a with
          | .list [.atom p, .atom c] => do some ((← parseRat p), (← c.toNat?))
          | _ => none)
        some ({ alts := alts } : Sem.Group)
      | _ => none)
    some { natoms := (← na.toNat?), nchoices := (← nc.toNat?), rules := rules, groups := groups }
  | _ => none

/-! first-order programs (op SEMFO / GROUNDFO): see `spine.sem_line_fo` -/

def pFOTerm : SExp → Option SemFO.Term
  | .list [.atom "v", .atom x] => some (.var x)
  | .list [.atom "c", .atom x] => some (.const x)
  | _ => none

def pFOAtom : SExp → Option SemFO.Atom
  | .list (.atom p :: ts) => do some ⟨p, (← ts.mapM pFOTerm)⟩
  | _ => none

def pFOLit : SExp → Option SemFO.Lit
  | .list [.atom "pos", a] => do some (.pos (← pFOAtom a))
  | .list [.atom "neg", a] => do some (.neg (← pFOAtom a))
  | .list [.atom "or", a, b] => do some (.or (← pFOAtom a) (← pFOAtom b))
  | _ => none

def pFOBody : SExp → Option (List SemFO.Lit)
  | .list (.atom "body" :: ls) => ls.mapM pFOLit
  | _ => none

def pFOStmt : SExp → Option SemFO.Stmt
  | .list [.atom "fact", a] => do some (.fact (← pFOAtom a))
  | .list [.atom "pf", .atom p, a] => do some (.pf (← parseRat p) (← pFOAtom a))
  | .list [.atom "rule", h, b] => do some (.rule (← pFOAtom h) (← pFOBody b))
  | .list [.atom "prule", .atom p, h, b] => do some (.prule (← parseRat p) (← pFOAtom h) (← pFOBody b))
  | .list [.atom "ad", .list (.atom "heads" :: hs), b] => do
    let hs ← hs.mapM (fun (h : SExp) => match h with
      | .list [.atom p, a] => do some ((← parseRat p), (← pFOAtom a))
      | _ => none)
    some (.ad hs (← pFOBody b))
  | _ => none

def pFO : SExp → Option SemFO.FOProgram
  | .list [.atom "fo", .list (.atom "consts" :: cs), .list (.atom "preds" :: ps), .list (.atom "stmts" :: ss),
           .list (.atom "queries" :: qs), .list (.atom "evidence" :: es)] => do
    let cs ← cs.mapM SExp.str?
    let ps ← ps.mapM (fun (p : SExp) => match p with
      | .list [.atom n, .atom ar] => do some (n, (← ar.toNat?))
      | _ => none)
    let ss ← ss.mapM pFOStmt
    let qs ← qs.mapM pFOAtom
    let es ← es.mapM (fun (e : SExp) => match e with
      | .list [a, .atom v] => do some ((← pFOAtom a), v == "t")
      | _ => none)
    some { consts := cs, preds := ps, stmts := ss, queries := qs, evidence := es }
  | _ => none

/-- `spine.atom_s` -/
def rGAtom (a : SemFO.GAtom) : String :=
  if a.args.isEmpty then a.pred else a.pred ++ "(" ++ ",".intercalate a.args ++ ")"

/-- the result line of op SEM -/
def semResult (P : Sem.Prog) (qs : List Nat) (ev : List (Nat × Bool)) : String :=
  let nw := ((Sem.restrict P (qs ++ ev.map (·.1))).groups.map (fun g => g.alts.length + 1)).foldl (· * ·) 1
  if nw > 40000 then "toobig " ++ toString nw else
  let r := Sem.run P qs ev
  renderRat r.z ++ " " ++ renderList (r.num.map renderRat) ++ " " ++ toString r.undefWorlds ++ " " ++
    toString r.nworlds ++ " " ++ toString (Sem.hasNegCycle P (qs ++ ev.map (·.1))) ++ " " ++
    toString (Sem.hasNegCycleFull P) ++ " " ++ toString (Sem.undefRootWorlds P qs ev)

def cnfOf (S : Store) : Clark.CNF :=
  { atomcount := S.nodes.length, clauses := [], weights := S.weights, names := S.names, ads := S.ads }

def step (_ : Unit) (line : String) : Unit × String :=
  ((), match parseLine line with
  | some [SExp.atom "BC", st, ev, .atom keep, topts] =>
    match pStore st, pOpts topts with
    | some S, some o =>
      let evt : Option (Option (List (Nat × Key))) := match ev with
        | .atom "-" => some none
        | .list es => (es.mapM (fun (e : SExp) => match e with
            | .list [.atom n, .atom k] => do some ((← n.toNat?), (← pKey k))
            | _ => none)).map some
        | _ => none
      match evt with
      | none => "bad-op"
      | some evt =>
        match Cycles.breakCycles S evt o (pBool keep) with
        | .ok T => rStore T
        | .error (.fuel) => "error fuel"
        | .error (.badNode n) => "error badNode " ++ toString n
        | .error (.builder _) => "error builder"
    | _, _ => "bad-op"
  | some [SExp.atom "CLARK", st] =>
    match pStore st with
    | some S => match Clark.clark S with
      | .ok c => toString c.atomcount ++ " " ++ rClauses c.clauses
      | .error (.noneChild i) => "error noneChild " ++ toString i
      | .error (.noExtra g) => "error noExtra " ++ toString g
    | none => "bad-op"
  | some [SExp.atom "ACYCLIC", st] =>
    match pStore st with
    | some S => toString (Clark.acyclic S)
    | none => "bad-op"
  | some [SExp.atom "NNF", c] =>
    match pCircuit c with
    | some c =>
      let cnt := DDNNF.evalCArr DDNNF.natSR (fun _ => 1) c
      rVerdict (DDNNF.validate c) ++ " vars " ++ renderList ((DDNNF.rootVars c).map toString) ++ " count " ++ toString cnt
    | none => "bad-op"
  | some [SExp.atom "ENTAILS", c, cls] =>
    -- for every clause: number of models of the circuit (over its own variables) that falsify the clause
    match pCircuit c, pClauses cls with
    | some c, some cls =>
      renderList (cls.map (fun cl =>
        toString (DDNNF.evalCArr DDNNF.natSR (fun l => if cl.contains l then 0 else 1) c)))
    | _, _ => "bad-op"
  | some [SExp.atom "LOAD", c, st] =>
    -- st : the CNF's weights / names / ads carried in a store record (nodes ignored)
    match pCircuit c, pStore st with
    | some c, some S =>
      let ld := DDNNF.loadNnf c (cnfOf S) (Cycles.namesByLabel S.names)
      rStore ld.store
    | _, _ => "bad-op"
  | some [SExp.atom "EVAL", st] =>
    match pStore st with
    | some S =>
      match DDNNF.prepare S with
      | .error .inconsistent => "error InconsistentEvidence"
      | .error .invalidValue => "error InvalidValue"
      | .error .badNode => "error badNode"
      | .ok P =>
        let qs := (Cycles.namesByLabel S.names).filter (fun e => Cycles.isQueryLike e.1)
        renderList (qs.map (fun (_, n, k) => renderList [rName (some n), renderRat (DDNNF.evaluate P k)]))
    | none => "bad-op"
  | some [SExp.atom "SEM", pr, qs, evs] =>
    match pProg pr, pNats qs, evs with
    | some P, some qs, .list es =>
      match es.mapM (fun (e : SExp) => match e with
          | .list [.atom a, .atom v] => do some ((← a.toNat?), v == "t")
          | _ => none) with
      | some ev => semResult P qs ev
      | none => "bad-op"
    | _, _, _ => "bad-op"
  | some [SExp.atom "SEMFO", fo] =>
    -- the specification of a first-order program: Lean does the Herbrand instantiation (`SemFO.ground`);
    -- output = the SEM result line, then the query instances in the order of the numerators
    match pFO fo with
    | some F =>
      if !SemFO.wellFormed F then "illformed" else
      semResult (SemFO.ground F) (SemFO.queryIds F) (SemFO.evidenceIds F) ++ " | " ++
        renderList ((SemFO.queryInstances F).map rGAtom)
    | none => "bad-op"
  | some [SExp.atom "GROUNDFO", fo] =>
    -- the symbolic ground program, for the syntactic cross-check against `spine.reference`
    match pFO fo with
    | some F =>
      let g := SemFO.groundSym F
      "(rules " ++ " ".intercalate (g.1.map (fun r =>
          "(" ++ rGAtom r.head ++ " " ++ renderList (r.body.map (fun l => (if l.1 then "+" else "-") ++ rGAtom l.2)) ++ " " ++
            (match r.choice with | none => "-" | some c => toString c) ++ ")")) ++ ") (groups " ++
        " ".intercalate (g.2.map (fun gr => renderList (gr.alts.map (fun a => "(" ++ renderRat a.1 ++ " " ++ toString a.2 ++ ")")))) ++
        ") " ++ toString (SemFO.totalChoices F.consts F.stmts)
    | none => "bad-op"
  | _ => "bad-op")

def main : IO Unit := runDriver () step
