import ProbLogModel.Core.Proto
import ProbLogModel.TermIO
import ProbLogModel.Cut
open ProbLogModel ProbLogModel.Proto ProbLogModel.Cut ProbLogModel.TermIO

def toClause : SExp → Option (IClause String)
  | .list [t, .atom m, .list as] =>
    match toTerm t, as.map SExp.str? |>.foldr (fun x acc => match x, acc with
        | some s, some l => some (s :: l)
        | _, _ => none) (some []) with
    | some idx, some answers => some ⟨idx, m == "1", answers⟩
    | _, _ => none
  | _ => none

def toClauses : List SExp → Option (List (IClause String))
  | [] => some []
  | x :: xs => match toClause x, toClauses xs with
    | some c, some cs => some (c :: cs)
    | _, _ => none

/-- `cut (INDEX MATCH (ANSWER …)) …` — the clauses in file order → `none` | `some INDEX (ANSWER …)`. -/
def step (s : Unit) (line : String) : Unit × String :=
  match parseLine line with
  | some (.atom "cut" :: cs) =>
    (match toClauses cs with
     | some cs =>
       (match cut cs with
        | none => (s, "none")
        | some (v, ans) => (s, "some " ++ render v ++ " " ++ renderList ans))
     | none => (s, "bad-clause"))
  | _ => (s, "bad-op")

def main : IO Unit := runDriver () step
