import ProbLogModel.Core.Proto
import ProbLogModel.SemiringPrelude
import ProbLogModel.Generated.Semirings
import ProbLogModel.SymbolicEval
/-!
Driver for C12 / C30: executes the GENERATED semiring definitions (and the symbolic evaluator).

  P <method> args…   SemiringProbability      numbers as rationals `n/d`
  L <method> args…   SemiringLogProbability   instantiated with `Float`; numbers as IEEE-754 bit patterns (UInt64)
  S <method> args…   SemiringSymbolic         quoted strings;  `S eval "<string>"` runs the evaluator
  M / N <method> …   SemiringMPEState / SemiringMinPEState     values `(p (k1 k2 …))`
  B <method> args…   base-class defaults, instantiated with Int and one=1 zero=0 plus=+ times=*

Lists are `( … )`, keys and signs are integers.  Output: the value, `(a b)` for pairs, `true`/`false`,
`ERR:<exception class>`, or `bad-op`.
-/
open ProbLogModel.Proto ProbLogModel.SemiringPrelude ProbLogModel.Generated ProbLogModel.SymbolicEval

class Out (α : Type) where
  out : α → String
export Out (out)

instance : Out Rat := ⟨renderRat⟩
instance : Out Bool := ⟨toString⟩
instance : Out Int := ⟨toString⟩
instance : Out String := ⟨quote⟩
instance : Out Float := ⟨fun x => toString x.toBits⟩
instance {α β} [Out α] [Out β] : Out (α × β) := ⟨fun p => renderList [out p.1, out p.2]⟩
instance : Out PySet := ⟨fun s => renderList ((s.toArray.qsort (· < ·)).toList.map toString)⟩
instance {α} [Out α] : Out (PyRes α) := ⟨fun r => match r with | .ok v => out v | .error e => "ERR:" ++ e.name⟩
instance {α} [Out α] : Out (Option α) := ⟨fun r => match r with | some v => out v | none => "none"⟩

def fl? (e : SExp) : Option Float := e.nat?.map (fun n => Float.ofBits n.toUInt64)
def str? (e : SExp) : Option String := e.str?.map unquote
def mpe? (e : SExp) : Option (Rat × PySet) :=
  match e with
  | .list [p, .list ks] => do
    let p ← p.rat?
    let ks ← ks.mapM SExp.int?
    pure (p, ks)
  | _ => none
def listOf {α} (f : SExp → Option α) (e : SExp) : Option (List α) := e.items?.bind (fun xs => xs.mapM f)

def intAbs : Abs Int := ⟨1, 0, (· + ·), (· * ·)⟩

def prob (m : String) (a : List SExp) : Option String :=
  match m, a with
  | "one", [] => some (out SemiringProbability.one)
  | "zero", [] => some (out SemiringProbability.zero)
  | "is_one", [x] => do some (out (SemiringProbability.is_one (← x.rat?)))
  | "is_zero", [x] => do some (out (SemiringProbability.is_zero (← x.rat?)))
  | "plus", [x, y] => do some (out (SemiringProbability.plus (← x.rat?) (← y.rat?)))
  | "times", [x, y] => do some (out (SemiringProbability.times (← x.rat?) (← y.rat?)))
  | "negate", [x] => do some (out (SemiringProbability.negate (← x.rat?)))
  | "normalize", [x, y] => do some (out (SemiringProbability.normalize (← x.rat?) (← y.rat?)))
  | "value", [x] => do some (out (SemiringProbability.value (← x.rat?)))
  | "in_domain", [x] => do some (out (SemiringProbability.in_domain (← x.rat?)))
  | "ad_complement", [ws, k] => do some (out (SemiringProbability.ad_complement (← listOf SExp.rat? ws) (← k.int?)))
  | "pos_value", [x, k] => do some (out (SemiringProbability.pos_value (← x.rat?) (← k.int?)))
  | "neg_value", [x, k] => do some (out (SemiringProbability.neg_value (← x.rat?) (← k.int?)))
  | "true", [k] => do some (out (SemiringProbability.true_ (← k.int?)))
  | "false", [k] => do some (out (SemiringProbability.false_ (← k.int?)))
  | "to_evidence", [x, y, s] => do some (out (SemiringProbability.to_evidence (← x.rat?) (← y.rat?) (← s.int?)))
  | "ad_negate", [x, y] => do some (out (SemiringProbability.ad_negate (← x.rat?) (← y.rat?)))
  | "result", [x] => do some (out (SemiringProbability.result (← x.rat?) ()))
  | _, _ => none

def logp (m : String) (a : List SExp) : Option String :=
  match m, a with
  | "one", [] => some (out (SemiringLogProbability.one (α := Float)))
  | "zero", [] => some (out (SemiringLogProbability.zero (α := Float)))
  | "is_one", [x] => do some (out (SemiringLogProbability.is_one (← fl? x)))
  | "is_zero", [x] => do some (out (SemiringLogProbability.is_zero (← fl? x)))
  | "plus", [x, y] => do some (out (SemiringLogProbability.plus (← fl? x) (← fl? y)))
  | "times", [x, y] => do some (out (SemiringLogProbability.times (← fl? x) (← fl? y)))
  | "negate", [x] => do some (out (SemiringLogProbability.negate (← fl? x)))
  | "normalize", [x, y] => do some (out (SemiringLogProbability.normalize (← fl? x) (← fl? y)))
  | "value", [x] => do some (out (SemiringLogProbability.value (← fl? x)))
  | "in_domain", [x] => do some (out (SemiringLogProbability.in_domain (← fl? x)))
  | "ad_complement", [ws, k] => do some (out (SemiringLogProbability.ad_complement (← listOf fl? ws) (← k.int?)))
  | "pos_value", [x, k] => do some (out (SemiringLogProbability.pos_value (← fl? x) (← k.int?)))
  | "neg_value", [x, k] => do some (out (SemiringLogProbability.neg_value (← fl? x) (← k.int?)))
  | "true", [k] => do some (out (SemiringLogProbability.true_ (α := Float) (← k.int?)))
  | "false", [k] => do some (out (SemiringLogProbability.false_ (α := Float) (← k.int?)))
  | "to_evidence", [x, y, s] => do some (out (SemiringLogProbability.to_evidence (← fl? x) (← fl? y) (← s.int?)))
  | "ad_negate", [x, y] => do some (out (SemiringLogProbability.ad_negate (← fl? x) (← fl? y)))
  | "result", [x] => do some (out (SemiringLogProbability.result (← fl? x) ()))
  | _, _ => none

def symb (m : String) (a : List SExp) : Option String :=
  match m, a with
  | "one", [] => some (out SemiringSymbolic.one)
  | "zero", [] => some (out SemiringSymbolic.zero)
  | "is_one", [x] => do some (out (SemiringSymbolic.is_one (← str? x)))
  | "is_zero", [x] => do some (out (SemiringSymbolic.is_zero (← str? x)))
  | "plus", [x, y] => do some (out (SemiringSymbolic.plus (← str? x) (← str? y)))
  | "times", [x, y] => do some (out (SemiringSymbolic.times (← str? x) (← str? y)))
  | "negate", [x] => do some (out (SemiringSymbolic.negate (← str? x)))
  | "normalize", [x, y] => do some (out (SemiringSymbolic.normalize (← str? x) (← str? y)))
  | "value", [x] => do some (out (SemiringSymbolic.value (← str? x)))
  | "in_domain", [x] => do some (out (SemiringSymbolic.in_domain (← str? x)))
  | "ad_complement", [ws, k] => do some (out (SemiringSymbolic.ad_complement (← listOf str? ws) (← k.int?)))
  | "pos_value", [x, k] => do some (out (SemiringSymbolic.pos_value (← str? x) (← k.int?)))
  | "neg_value", [x, k] => do some (out (SemiringSymbolic.neg_value (← str? x) (← k.int?)))
  | "true", [k] => do some (out (SemiringSymbolic.true_ (← k.int?)))
  | "false", [k] => do some (out (SemiringSymbolic.false_ (← k.int?)))
  | "to_evidence", [x, y, s] => do some (out (SemiringSymbolic.to_evidence (← str? x) (← str? y) (← s.int?)))
  | "ad_negate", [x, y] => do some (out (SemiringSymbolic.ad_negate (← str? x) (← str? y)))
  | "result", [x] => do some (out (SemiringSymbolic.result (← str? x) ()))
  | "eval", [x] => do some (out (eval (← str? x)))
  | _, _ => none

def mpe (m : String) (a : List SExp) : Option String :=
  match m, a with
  | "one", [] => some (out SemiringMPEState.one)
  | "zero", [] => some (out SemiringMPEState.zero)
  | "is_one", [x] => do some (out (SemiringMPEState.is_one (← mpe? x)))
  | "is_zero", [x] => do some (out (SemiringMPEState.is_zero (← mpe? x)))
  | "plus", [x, y] => do some (out (SemiringMPEState.plus (← mpe? x) (← mpe? y)))
  | "times", [x, y] => do some (out (SemiringMPEState.times (← mpe? x) (← mpe? y)))
  | "negate", [x] => do some (out (SemiringMPEState.negate (← mpe? x)))
  | "normalize", [x, y] => do some (out (SemiringMPEState.normalize (← mpe? x) (← mpe? y)))
  | "in_domain", [x] => do some (out (SemiringMPEState.in_domain (← mpe? x)))
  | "ad_complement", [ws, k] => do some (out (SemiringMPEState.ad_complement (← listOf mpe? ws) (← k.int?)))
  | "pos_value", [x, k] => do some (out (SemiringMPEState.pos_value (← x.rat?) (← k.int?)))
  | "neg_value", [x, k] => do some (out (SemiringMPEState.neg_value (← x.rat?) (← k.int?)))
  | "true", [k] => do some (out (SemiringMPEState.true_ (← k.int?)))
  | "false", [k] => do some (out (SemiringMPEState.false_ (← k.int?)))
  | "to_evidence", [x, y, s] => do some (out (SemiringMPEState.to_evidence (← mpe? x) (← mpe? y) (← s.int?)))
  | "ad_negate", [x, y] => do some (out (SemiringMPEState.ad_negate (← mpe? x) (← mpe? y)))
  | "result", [x] => do some (out (SemiringMPEState.result (← mpe? x) ()))
  | _, _ => none

def minpe (m : String) (a : List SExp) : Option String :=
  match m, a with
  | "one", [] => some (out SemiringMinPEState.one)
  | "zero", [] => some (out SemiringMinPEState.zero)
  | "is_one", [x] => do some (out (SemiringMinPEState.is_one (← mpe? x)))
  | "is_zero", [x] => do some (out (SemiringMinPEState.is_zero (← mpe? x)))
  | "plus", [x, y] => do some (out (SemiringMinPEState.plus (← mpe? x) (← mpe? y)))
  | "times", [x, y] => do some (out (SemiringMinPEState.times (← mpe? x) (← mpe? y)))
  | "negate", [x] => do some (out (SemiringMinPEState.negate (← mpe? x)))
  | "normalize", [x, y] => do some (out (SemiringMinPEState.normalize (← mpe? x) (← mpe? y)))
  | "in_domain", [x] => do some (out (SemiringMinPEState.in_domain (← mpe? x)))
  | "ad_complement", [ws, k] => do some (out (SemiringMinPEState.ad_complement (← listOf mpe? ws) (← k.int?)))
  | "pos_value", [x, k] => do some (out (SemiringMinPEState.pos_value (← x.rat?) (← k.int?)))
  | "neg_value", [x, k] => do some (out (SemiringMinPEState.neg_value (← x.rat?) (← k.int?)))
  | "true", [k] => do some (out (SemiringMinPEState.true_ (← k.int?)))
  | "false", [k] => do some (out (SemiringMinPEState.false_ (← k.int?)))
  | "to_evidence", [x, y, s] => do some (out (SemiringMinPEState.to_evidence (← mpe? x) (← mpe? y) (← s.int?)))
  | "ad_negate", [x, y] => do some (out (SemiringMinPEState.ad_negate (← mpe? x) (← mpe? y)))
  | "result", [x] => do some (out (SemiringMinPEState.result (← mpe? x) ()))
  | _, _ => none

def base (m : String) (a : List SExp) : Option String :=
  let S := intAbs
  match m, a with
  | "is_one", [x] => do some (out (Semiring.is_one S (← x.int?)))
  | "is_zero", [x] => do some (out (Semiring.is_zero S (← x.int?)))
  | "negate", [x] => do some (out (Semiring.negate S (← x.int?)))
  | "normalize", [x, y] => do some (out (Semiring.normalize S (← x.int?) (← y.int?)))
  | "value", [x] => do some (out (Semiring.value S (← x.int?)))
  | "in_domain", [x] => do some (out (Semiring.in_domain S (← x.int?)))
  | "ad_complement", [ws, k] => do some (out (Semiring.ad_complement S (← listOf SExp.int? ws) (← k.int?)))
  | "pos_value", [x, k] => do some (out (Semiring.pos_value S (← x.int?) (← k.int?)))
  | "neg_value", [x, k] => do some (out (Semiring.neg_value S (← x.int?) (← k.int?)))
  | "true", [k] => do some (out (Semiring.true_ S (← k.int?)))
  | "false", [k] => do some (out (Semiring.false_ S (← k.int?)))
  | "to_evidence", [x, y, s] => do some (out (Semiring.to_evidence S (← x.int?) (← y.int?) (← s.int?)))
  | "ad_negate", [x, y] => do some (out (Semiring.ad_negate S (← x.int?) (← y.int?)))
  | "result", [x] => do some (out (Semiring.result S (← x.int?) ()))
  | _, _ => none

def step (_ : Unit) (line : String) : Unit × String :=
  let r : Option String :=
    match parseLine line with
    | some (.atom c :: .atom m :: args) =>
      match c with
      | "P" => prob m args
      | "L" => logp m args
      | "S" => symb m args
      | "M" => mpe m args
      | "N" => minpe m args
      | "B" => base m args
      | _ => none
    | _ => none
  ((), r.getD "bad-op")

def main : IO Unit := runDriver () step
