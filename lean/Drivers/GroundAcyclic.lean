import ProbLogModel.Core.Proto
import ProbLogModel.Core.StoreIO
import ProbLogModel.Formula
import ProbLogModel.GroundAcyclic
/-!
Driver for the grounding-engine model (`ProbLogModel/GroundAcyclic.lean`).

`GROUND opts prog calls sched ranks fuel`
  opts  = (opts ac anc ko ka maxarity kd)                       options of the target LogicFormula
  prog  = ((a C*)*)   C = (fact ident prob|- name) | (rule (L*) -|(ident group prob name))   L = (p a) | (n a) | t
  calls = ((atom label)*)
  sched = ((a i*)*)                                             selection code per goal (missing = source order)
  ranks = ((a r)*)                                              rank function (missing = 0)
output: `ok <hypotheses of the theorems (wfB: distinct goals, ranks decrease, no empty body): t|f> <max rank of a called atom < fuel: t|f> (table (a key)*) <store>` or `error <what>`
-/
open ProbLogModel.Proto ProbLogModel.StoreIO ProbLogModel.Formula ProbLogModel ProbLogModel.GroundAcyclic

def pOptsG : SExp → Option Opts
  | .list (.atom "opts" :: os) => match os.map SExp.render with
    | [ac, anc, ko, ka, ma, kd] => some { autoCompact := pBool ac, avoidNameClash := pBool anc, keepOrder := pBool ko,
                                          keepAll := pBool ka, maxArity := ma.toNat?.getD 0, keepDuplicates := pBool kd }
    | _ => none
  | _ => none

def pLit : SExp → Option Lit
  | .atom "t" => some .tt
  | .list [.atom "p", .atom a] => a.toNat?.map Lit.pos
  | .list [.atom "n", .atom a] => a.toNat?.map Lit.neg
  | _ => none

def pChoice : SExp → Option (Option Choice)
  | .atom "-" => some none
  | .list [.atom i, .atom g, .atom p, .atom n] => do
    some (some { ident := (← i.toNat?), group := (← g.toNat?), prob := (← parseRat p), name := (← n.toNat?) })
  | _ => none

def pClause : SExp → Option Clause
  | .list [.atom "fact", .atom i, .atom p, .atom n] => do
    let pr ← (if p == "-" then some none else (parseRat p).map some)
    some (.fact (← i.toNat?) pr (← n.toNat?))
  | .list [.atom "rule", .list ls, ch] => do
    some (.rule (← ls.mapM pLit) (← pChoice ch))
  | _ => none

def pProgG : SExp → Option Prog
  | .list ds => do
    let defs ← ds.mapM (fun (d : SExp) => match d with
      | .list (.atom a :: cs) => do some ((← a.toNat?), (← cs.mapM pClause))
      | _ => none)
    some { defs := defs }
  | _ => none

def pCalls : SExp → Option (List Call)
  | .list cs => cs.mapM (fun (c : SExp) => match c with
    | .list [.atom a, .atom l] => do some { atom := (← a.toNat?), label := pLabel l }
    | _ => none)
  | _ => none

def pAssoc : SExp → Option (List (Nat × List Nat))
  | .list es => es.mapM (fun (e : SExp) => match e with
    | .list (.atom a :: is) => do
      some ((← a.toNat?), (← is.mapM (fun (x : SExp) => match x with | .atom s => s.toNat? | _ => none)))
    | _ => none)
  | _ => none

def rErr : GroundAcyclic.Err → String
  | .fuel => "fuel"
  | .builder .assertion => "builder assertion"
  | .builder .valueError => "builder valueError"
  | .builder .badKey => "builder badKey"
  | .emptyBody => "emptyBody"

def step (_ : Unit) (line : String) : Unit × String :=
  ((), match parseLine line with
  | some [SExp.atom "GROUND", o, pr, cs, sc, rk, .atom fuel] =>
    match pOptsG o, pProgG pr, pCalls cs, pAssoc sc, pAssoc rk, fuel.toNat? with
    | some o, some P, some calls, some sc, some rk, some fuel =>
      let sched : Sched := fun a => (lookup sc a).getD []
      let rank : Atom → Nat := fun a => ((lookup rk a).getD []).headD 0
      match groundAll P sched fuel calls { store := { opts := o } } with
      | .ok (_, st) =>
        "ok " ++ rB (wfB P ((P.defs.map (·.1)).foldl max 0 + 1) rank) ++ " " ++ rB (calls.all (fun c => rank c.atom < fuel)) ++ " " ++
          renderList ("table" :: st.table.map (fun (a, k) => renderList [toString a, rKey k])) ++ " " ++ rStore st.store
      | .error e => "error " ++ rErr e
    | _, _, _, _, _, _ => "bad-op"
  | _ => "bad-op")

def main : IO Unit := runDriver () step
