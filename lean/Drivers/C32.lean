import ProbLogModel.Core.Proto
import ProbLogModel.Tasks.Lists
open ProbLogModel.Proto ProbLogModel.Tasks.Lists

def ratsOf (e : SExp) : Option (List Rat) := do (← e.items?).mapM SExp.rat?
def intsOf (e : SExp) : Option (List Int) := do (← e.items?).mapM SExp.int?

def showInts (l : List Int) : String := renderList (l.map toString)

/-- a call specification: `(w id (ws) (xs))`, `(p id (ws) (xs))` (select_weighted/4 on pairs), `(u id (xs))` -/
def callOf (e : SExp) : Option (World → Option (Dist (Sel × World))) :=
  match e with
  | .list [.atom "w", id, ws, xs] => do
    let id ← id.nat?; let ws ← ratsOf ws; let xs ← intsOf xs
    some (selectWeighted id ws xs)
  | .list [.atom "p", id, ws, xs] => do
    let id ← id.nat?; let ws ← ratsOf ws; let xs ← intsOf xs
    some (selectWeighted4 id (ws.zip xs))
  | .list [.atom "u", id, xs] => do
    let id ← id.nat?; let xs ← intsOf xs
    some (selectUniform id xs)
  | _ => none

def step (_ : Unit) (line : String) : Unit × String :=
  let out : String :=
    match parseLine line with
    | some [.atom "one", c] =>
      (match callOf c with
       | some f =>
         (match f [] with
          | none => "ArithmeticError"
          | some d => renderList (d.map (fun e =>
              renderList [toString e.1.1.pos, toString e.1.1.value, showInts e.1.1.rest, renderRat e.2])))
       | none => "bad-op")
    | some [.atom "two", c1, c2] =>
      (match callOf c1, callOf c2 with
       | some f, some g =>
         (match seq2 f g [] with
          | none => "ArithmeticError"
          | some d => renderList (d.map (fun e =>
              renderList [toString e.1.1.1.value, showInts e.1.1.1.rest, toString e.1.1.2.value, showInts e.1.1.2.rest,
                          renderRat e.2])))
       | _, _ => "bad-op")
    | _ => "bad-op"
  ((), out)

def main : IO Unit := runDriver () step
