import ProbLogModel.Core.Proto
import ProbLogModel.Printer
import ProbLogModel.Lexer
import ProbLogModel.PrintTokens
open ProbLogModel.Proto ProbLogModel.Syntax ProbLogModel.Parser

def opOfSExp : SExp → Option (Option OpDef)
  | .atom "-" => some none
  | .list [.atom n, .atom s, .atom b] => do
    let n ← n.toNat?
    let s ← specOfName s
    let b ← (match b with
      | "binop" => some Builder.binop | "conjunction" => some .conjunction | "disjunction" => some .disjunction
      | "probabilistic" => some .probabilistic | "clause" => some .clause | "unop" => some .unop
      | "not_" => some .not_ | "directive" => some .directive | _ => none)
    pure (some ⟨n, s, b⟩)
  | _ => none

def specialOfName : String → Option (Option Special)
  | "-" => some none
  | "parenOpen" => some (some .parenOpen) | "parenClose" => some (some .parenClose) | "end_" => some (some .end_)
  | "comma" => some (some .comma) | "brackOpen" => some (some .brackOpen) | "brackClose" => some (some .brackClose)
  | "variable" => some (some .variable) | "float" => some (some .float) | "integer" => some (some .integer)
  | "pipe" => some (some .pipe) | "string" => some (some .string) | "arglist" => some (some .arglist)
  | "sharpOpen" => some (some .sharpOpen) | "sharpClose" => some (some .sharpClose)
  | "hexInteger" => some (some .hexInteger)
  | _ => none

def tokOfSExp : SExp → Option Tok
  | .list [.atom s, .atom a, .atom f, b, u, .atom sp] => do
    let b ← opOfSExp b
    let u ← opOfSExp u
    let sp ← specialOfName sp
    pure { str := unquote s, atom := a == "1", functor := f == "1", binop := b, unop := u, special := sp, aggregate := false }
  | _ => none

def dumpOp : Option OpDef → String
  | none => "-"
  | some o => "(" ++ toString o.prio ++ " " ++ o.spec.name ++ " " ++ o.builder.name ++ ")"

def dumpTok (t : Tok) : String :=
  "(" ++ quote t.str ++ " " ++ (if t.atom then "1" else "0") ++ " " ++ (if t.functor then "1" else "0") ++ " " ++
    dumpOp t.binop ++ " " ++ dumpOp t.unop ++ " " ++ (match t.special with | none => "-" | some s => s.name) ++ ")"

def showErr : Err → String
  | .parse m => "parse " ++ quote m
  | .grounding m => "grounding " ++ quote m
  | .crash k => "crash " ++ k
  | .internal k => "internal " ++ k
  | .unsupported w => "unsupported " ++ quote w

def showRes : R Tm → String
  | .ok t => "ok " ++ t.dump
  | .error e => showErr e

def step (_ : Unit) (line : String) : Unit × String :=
  match parseLine line with
  | some [.atom "print", t] =>
    match Tm.ofSExp t with
    | some t => ((), quote (ProbLogModel.Printer.reprTop t))
    | none => ((), "bad-term")
  | some [.atom "rt", t] =>
    match Tm.ofSExp t with
    | some t =>
      match ProbLogModel.Lexer.parseString (ProbLogModel.Printer.reprTop t ++ ".") with
      | .ok [u] => ((), (if u == t then "same " else "diff ") ++ u.dump)
      | .ok us => ((), "count " ++ toString us.length)
      | .error e => ((), showErr e)
    | none => ((), "bad-term")
  | some [.atom "cls", t] =>
    -- membership in the class of C17_roundtrip_partial, and: is `s.toks` the token list of the printed text?
    match Tm.ofSExp t with
    | some t =>
      match ProbLogModel.PrintTokens.S.ofTm t with
      | none => ((), "notin")
      | some s =>
        if !(s.tm == t) || !s.valid then ((), "notin")
        else
          match ProbLogModel.Lexer.tokenize (ProbLogModel.Printer.reprTop t ++ ".") with
          | .ok ts =>
            if ts == s.toks ++ [ProbLogModel.PrintTokens.tEnd] then
              match collapse s.toks with
              | .ok u => ((), if u == t then "in same" else "in parse-diff")
              | .error e => ((), "in " ++ showErr e)
            else ((), "in toks-diff")
          | .error e => ((), "in lex-" ++ showErr e)
    | none => ((), "bad-term")
  | some [.atom "lex", .atom s] =>
    match ProbLogModel.Lexer.tokenize (unquote s) with
    | .ok ts => ((), "ok (" ++ " ".intercalate (ts.map dumpTok) ++ ")")
    | .error e => ((), showErr e)
  | some [.atom "parse", .list ts] =>
    match ts.mapM tokOfSExp with
    | some ts => ((), showRes (collapse ts))
    | none => ((), "bad-tokens")
  | some [.atom "parsestr", .atom s] =>
    match ProbLogModel.Lexer.parseString (unquote s) with
    | .ok us => ((), "ok (" ++ " ".intercalate (us.map Tm.dump) ++ ")")
    | .error e => ((), showErr e)
  | _ => ((), "bad-op")

def main : IO Unit := runDriver () step
