import ProbLogModel.Core.Proto
import ProbLogModel.Tasks.MPE
open ProbLogModel.Proto ProbLogModel ProbLogModel.MPE

/-! Line protocol for C20 (I/O glue).
  NNFEVAL mode (nodes N*) (weights (i (p (l*)) (p (l*)))*) q      N = (a) | (c k*) | (d k*), k = N | int
  WCNF invert atomcount (clauses (h l*)*) (weights (i wp wn)*)    h = N | T | F | int ; w = rat | -inf
  READBACK (atoms i*) (pw (i p n)*) (result l*)
  QUANT invert atomcount (weights ..) (true atoms) (soft/hard as WCNF)  -> quantObj cost hardsat -/

def pKeyS (s : String) : Option (Option Int) := if s == "N" then some none else s.toInt?.map some

def pDNode : SExp → Option DNode
  | .list [.atom "a"] => some .atom
  | .list (.atom "c" :: ks) => (ks.mapM (fun (k : SExp) => match k with | .atom s => pKeyS s | _ => none)).map DNode.conj
  | .list (.atom "d" :: ks) => (ks.mapM (fun (k : SExp) => match k with | .atom s => pKeyS s | _ => none)).map DNode.disj
  | _ => none

def pInts : SExp → Option (List Int)
  | .list xs => xs.mapM (fun (x : SExp) => match x with | .atom s => s.toInt? | _ => none)
  | _ => none

def pVal : SExp → Option Val
  | .list [.atom p, labs] => do some ⟨(← parseRat p), (← pInts labs)⟩
  | _ => none

def pWeights : List SExp → Option (List (Nat × Val × Val))
  | ws => ws.mapM (fun (w : SExp) => match w with
    | .list [.atom i, a, b] => do some ((← i.toNat?), (← pVal a), (← pVal b))
    | _ => none)

def insertI (x : Int) : List Int → List Int
  | [] => [x]
  | y :: ys => if x < y then x :: y :: ys else if x == y then y :: ys else y :: insertI x ys
def canonI (l : List Int) : List Int := l.foldl (fun acc x => insertI x acc) []

/-- `plus` with a marker label 0 when an exact tie between different sets decides the result -/
def plusTie (a b : Val) : Val :=
  if b.p < a.p then a else if a.p < b.p then b
  else ⟨a.p, if canonI a.lab == canonI b.lab || a.p == 0 then a.lab else 0 :: a.lab⟩
def plusMinTie (a b : Val) : Val :=
  if a.p = 0 then b else if b.p = 0 then a else if b.p < a.p then b else if a.p < b.p then a
  else ⟨a.p, if canonI a.lab == canonI b.lab then a.lab else 0 :: a.lab⟩

def pLogW (s : String) : Option LogW := if s == "-inf" then some none else (parseRat s).map some

def pLWs : List SExp → Option (List (Nat × LogW × LogW))
  | ws => ws.mapM (fun (w : SExp) => match w with
    | .list [.atom i, .atom a, .atom b] => do some ((← i.toNat?), (← pLogW a), (← pLogW b))
    | _ => none)

def pRaw : SExp → Option RawClause
  | .list (.atom h :: ls) => do
    let body ← ls.mapM (fun (x : SExp) => match x with | .atom s => s.toInt? | _ => none)
    let head ← (if h == "N" then some Head.none else if h == "T" then some (Head.bool true)
                else if h == "F" then some (Head.bool false) else h.toInt?.map Head.lit)
    some ⟨head, body⟩
  | _ => none

def rUErr : UErr → String
  | .negCompound k => "error negCompound " ++ toString k
  | .badRef k => "error badRef " ++ toString k
  | .noWeight v => "error noWeight " ++ toString v

def step (_ : Unit) (line : String) : Unit × String :=
  ((), match parseLine line with
  | some [.atom "NNFEVAL", .atom mode, .list (.atom "nodes" :: ns), .list (.atom "weights" :: ws), .atom q] =>
    match ns.mapM pDNode, pWeights ws, pKeyS q with
    | some ns, some ws, some q =>
      let pl := if mode == "min" then plusMin else plus
      let plT := if mode == "min" then plusMinTie else plusTie
      match runSemiring pl ns.toArray ws q, runSemiring plT ns.toArray ws q with
      | .ok v, .ok vt => "ok " ++ renderRat v.p ++ " " ++ renderList ((canonI v.lab).map toString) ++ " " ++
          (if vt.lab.contains 0 then "tie" else "notie")
      | .error e, _ => rUErr e
      | _, .error e => rUErr e
    | _, _, _ => "bad-op"
  | some [.atom "DEC", .list (.atom "nodes" :: ns), .atom q] =>
    match ns.mapM pDNode, pKeyS q with
    | some ns, some q =>
      match unfoldKey ns.toArray (ns.length + 1) q with
      | .ok φ => toString φ.dec
      | .error e => rUErr e
    | _, _ => "bad-op"
  | some [.atom "WCNF", .atom inv, .atom n, .list (.atom "clauses" :: cs), .list (.atom "weights" :: ws)] =>
    match n.toNat?, cs.mapM pRaw, pLWs ws with
    | some n, some cs, some ws =>
      match contents (inv == "t") n cs ws with
      | some w => quote (toDimacsW w)
      | none => "error head-true"
    | _, _, _ => "bad-op"
  | some [.atom "READBACK", .list (.atom "atoms" :: as), .list (.atom "pw" :: pws), .list (.atom "result" :: rs)] =>
    match as.mapM (fun (x : SExp) => x.nat?), pws.mapM (fun (w : SExp) => match w with
        | .list [.atom i, .atom a, .atom b] => do some ((← i.toNat?), (← parseRat a), (← parseRat b))
        | _ => none), rs.mapM (fun (x : SExp) => x.int?) with
    | some as, some pws, some rs =>
      let pw : Nat → Rat × Rat := fun i => match pws.find? (fun e => e.1 == i) with
        | some e => e.2
        | none => (1, 1)
      renderRat (readBack as pw rs)
    | _, _, _ => "bad-op"
  | some [.atom "QUANT", .atom inv, .atom n, .list (.atom "clauses" :: cs), .list (.atom "weights" :: ws),
          .list (.atom "true" :: ts)] =>
    match n.toNat?, cs.mapM pRaw, pLWs ws, ts.mapM (fun (x : SExp) => x.nat?) with
    | some n, some cs, some ws, some ts =>
      match contents (inv == "t") n cs ws with
      | some w =>
        let v : Nat → Bool := fun a => ts.contains a
        toString (quantObj (inv == "t") ws n v) ++ " " ++ toString (cost v w.soft) ++ " " ++
          toString (Clark.satCNF v w.hard) ++ " " ++ toString w.top
      | none => "error head-true"
    | _, _, _, _ => "bad-op"
  | _ => "bad-op")

def main : IO Unit := runDriver () step
